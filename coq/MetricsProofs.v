(* MetricsProofs.v -- lemmas about the metric table model (C07; also used by C05 and C02). *)
From Coq Require Import ZArith NArith List Bool Permutation Lia.
From Verif.Gen Require Import Limits_gen.
From Verif Require Import Metrics.
Import ListNotations.
Open Scope Z_scope.

(* ------------------------------------------------------------------ keys *)
Lemma name_eqb_eq a b : name_eqb a b = true <-> a = b.
Proof.
  revert b. induction a as [|x a IH]; intros [|y b]; cbn [name_eqb]; split; intros H;
    try reflexivity; try discriminate.
  - destruct (N.eqb_spec x y) as [->|Hne]; [|discriminate]. apply IH in H. congruence.
  - inversion H; subst. rewrite N.eqb_refl. apply IH. reflexivity.
Qed.

Lemma key_eqb_eq a b : key_eqb a b = true <-> a = b.
Proof.
  destruct a as [a1 a2], b as [b1 b2]. unfold key_eqb. cbn [fst snd]. split; intros H.
  - destruct (name_eqb a1 b1) eqn:H1; [|discriminate]. apply name_eqb_eq in H1. apply name_eqb_eq in H. congruence.
  - inversion H; subst. rewrite (proj2 (name_eqb_eq b1 b1) eq_refl). apply name_eqb_eq; reflexivity.
Qed.

Lemma key_eqb_refl a : key_eqb a a = true.
Proof. apply key_eqb_eq. reflexivity. Qed.

Lemma key_eqb_neq a b : key_eqb a b = false <-> a <> b.
Proof.
  split; intros H.
  - intros E. apply key_eqb_eq in E. congruence.
  - destruct (key_eqb a b) eqn:E; [|reflexivity]. apply key_eqb_eq in E. contradiction.
Qed.

Lemma key_eqb_sym a b : key_eqb a b = key_eqb b a.
Proof.
  destruct (key_eqb a b) eqn:E.
  - apply key_eqb_eq in E. subst. symmetry. apply key_eqb_refl.
  - apply key_eqb_neq in E. symmetry. apply key_eqb_neq. congruence.
Qed.

Lemma key_eq_dec (a b : key) : {a = b} + {a <> b}.
Proof.
  destruct (key_eqb a b) eqn:E; [left; apply key_eqb_eq; exact E|right; apply key_eqb_neq; exact E].
Qed.

(* ------------------------------------------------------------------ aggregate: ACM *)
Lemma mdata_eq a b :
  cnt a = cnt b -> tot a = tot b -> exc a = exc b -> mn a = mn b -> mx a = mx b -> ssq a = ssq b -> a = b.
Proof. destruct a, b. cbn. intros. subst. reflexivity. Qed.

Lemma aggregate_mn d s : mn (aggregate d s) = Z.min (mn d) (mn s).
Proof. cbn. destruct (Z.ltb_spec (mn s) (mn d)); lia. Qed.
Lemma aggregate_mx d s : mx (aggregate d s) = Z.max (mx d) (mx s).
Proof. cbn. destruct (Z.ltb_spec (mx d) (mx s)); lia. Qed.

Lemma aggregate_comm a b : aggregate a b = aggregate b a.
Proof.
  apply mdata_eq; try (cbn; lia).
  - rewrite !aggregate_mn. lia.
  - rewrite !aggregate_mx. lia.
Qed.

Lemma aggregate_assoc a b c : aggregate (aggregate a b) c = aggregate a (aggregate b c).
Proof.
  apply mdata_eq; try (cbn; lia).
  - rewrite !aggregate_mn. lia.
  - rewrite !aggregate_mx. lia.
Qed.

(* ------------------------------------------------------------------ the monoid *)
Lemma oplus_none_r a : oplus a None = a.
Proof. destruct a; reflexivity. Qed.
Lemma oplus_none_l a : oplus None a = a.
Proof. reflexivity. Qed.
Lemma oplus_comm a b : oplus a b = oplus b a.
Proof. destruct a, b; cbn; try reflexivity. f_equal. apply aggregate_comm. Qed.
Lemma oplus_assoc a b c : oplus (oplus a b) c = oplus a (oplus b c).
Proof. destruct a, b, c; cbn; try reflexivity. f_equal. apply aggregate_assoc. Qed.
Lemma oplus_some_l x b : exists y, oplus (Some x) b = Some y.
Proof. destruct b; cbn; eauto. Qed.
Lemma oplus_some_r a x : exists y, oplus a (Some x) = Some y.
Proof. destruct a; cbn; eauto. Qed.

Lemma msum_app l1 l2 : msum (l1 ++ l2) = oplus (msum l1) (msum l2).
Proof.
  induction l1 as [|a l1 IH]; cbn [msum app fold_right]; [reflexivity|].
  fold (msum (l1 ++ l2)). fold (msum l1). rewrite IH. symmetry. apply oplus_assoc.
Qed.

Lemma msum_cons a l : msum (a :: l) = oplus a (msum l).
Proof. reflexivity. Qed.

Lemma msum_perm l1 l2 : Permutation l1 l2 -> msum l1 = msum l2.
Proof.
  induction 1 as [|x l l' _ IH|x y l|l l' l'' _ IH1 _ IH2].
  - reflexivity.
  - rewrite !msum_cons, IH. reflexivity.
  - rewrite !msum_cons. rewrite <- !oplus_assoc. f_equal. apply oplus_comm.
  - congruence.
Qed.

Lemma msum_map_oplus {A} (f g : A -> option mdata) l :
  msum (map (fun x => oplus (f x) (g x)) l) = oplus (msum (map f l)) (msum (map g l)).
Proof.
  induction l as [|x l IH]; [reflexivity|].
  cbn [map]. rewrite !msum_cons, IH.
  rewrite !oplus_assoc. f_equal. rewrite <- !oplus_assoc. f_equal. apply oplus_comm.
Qed.

Lemma msum_all_none {A} (f : A -> option mdata) l : (forall x, In x l -> f x = None) -> msum (map f l) = None.
Proof.
  induction l as [|x l IH]; intros H; [reflexivity|].
  cbn [map]. rewrite msum_cons, H by (left; reflexivity). cbn [oplus]. apply IH. intros y Hy. apply H. right. exact Hy.
Qed.

Lemma msum_map_ext {A} (f g : A -> option mdata) l : (forall x, In x l -> f x = g x) -> msum (map f l) = msum (map g l).
Proof. intros H. f_equal. apply map_ext_in. exact H. Qed.

(* exchange of two finite sums *)
Lemma msum_swap {A B} (f : A -> B -> option mdata) la lb :
  msum (map (fun a => msum (map (fun b => f a b) lb)) la) =
  msum (map (fun b => msum (map (fun a => f a b) la)) lb).
Proof.
  induction la as [|a la IH].
  - cbn [map msum fold_right]. symmetry. apply msum_all_none. reflexivity.
  - cbn [map]. rewrite msum_cons, IH.
    rewrite <- (msum_map_oplus (fun b => f a b) (fun b => msum (map (fun a0 => f a0 b) la))).
    reflexivity.
Qed.

(* ------------------------------------------------------------------ specification: order independence *)
Lemma combined_perm cs cs' k : Permutation cs cs' -> combined cs k = combined cs' k.
Proof. intros H. unfold combined. apply msum_perm. apply Permutation_map. exact H. Qed.

Lemma combined_app cs cs' k : combined (cs ++ cs') k = oplus (combined cs k) (combined cs' k).
Proof. unfold combined. rewrite map_app. apply msum_app. Qed.

(* the monoid sum is the field-wise combination of the property text *)
Lemma zsum_app a b : zsum (a ++ b) = zsum a + zsum b.
Proof. unfold zsum. induction a as [|x a IH]; cbn [app fold_right]; lia. Qed.

Lemma fold_min_swap l a b : Z.min a (fold_right Z.min b l) = Z.min b (fold_right Z.min a l).
Proof. induction l as [|x l IH]; cbn [fold_right]; lia. Qed.
Lemma fold_max_swap l a b : Z.max a (fold_right Z.max b l) = Z.max b (fold_right Z.max a l).
Proof. induction l as [|x l IH]; cbn [fold_right]; lia. Qed.

Lemma msum_some_fieldwise ds : msum (map Some ds) = fieldwise ds.
Proof.
  induction ds as [|d r IH]; [reflexivity|].
  cbn [map]. rewrite msum_cons, IH. destruct r as [|d2 r].
  - cbn [fieldwise oplus]. f_equal. apply mdata_eq; cbn; lia.
  - cbn [fieldwise oplus]. f_equal. apply mdata_eq.
    + cbn. lia.
    + cbn. lia.
    + cbn. lia.
    + rewrite aggregate_mn. cbn [mn map fold_right]. apply fold_min_swap.
    + rewrite aggregate_mx. cbn [mx map fold_right]. apply fold_max_swap.
    + cbn. lia.
Qed.

Lemma msum_filter_none (l : list (option mdata)) :
  msum l = msum (filter (fun o => match o with Some _ => true | None => false end) l).
Proof.
  induction l as [|o l IH]; [reflexivity|]. destruct o as [d|]; cbn [filter]; rewrite !msum_cons; rewrite IH; reflexivity.
Qed.

Lemma combined_fieldwise cs k : combined cs k = fieldwise (datas_at k cs).
Proof.
  rewrite <- msum_some_fieldwise. unfold combined, datas_at.
  induction cs as [|c cs IH]; [reflexivity|].
  cbn [map filter]. unfold at_key at 1. destruct (key_eqb (ckey c) k); cbn [map]; rewrite !msum_cons; rewrite IH; reflexivity.
Qed.

(* ------------------------------------------------------------------ association list *)
Definition keys (l : list (key * mentry)) : list key := map fst l.
Definition lget (k : key) (l : list (key * mentry)) : option mdata := option_map data (lookup k l).

Lemma lookup_none k l : lookup k l = None <-> ~ In k (keys l).
Proof.
  induction l as [|[k' e] l IH]; cbn [lookup keys map fst In].
  - split; [intros _ []|reflexivity].
  - destruct (key_eqb k k') eqn:E.
    + apply key_eqb_eq in E. subst. split; [discriminate|]. intros H. exfalso. apply H. left. reflexivity.
    + apply key_eqb_neq in E. rewrite IH. unfold keys. split.
      * intros H [H1|H1]; [congruence|contradiction].
      * intros H H1. apply H. right. exact H1.
Qed.

Lemma lookup_some_in k l e : lookup k l = Some e -> In k (keys l).
Proof.
  intros H. destruct (in_dec key_eq_dec k (keys l)) as [Hi|Hn]; [exact Hi|].
  apply lookup_none in Hn. congruence.
Qed.

Lemma lookup_upsert_same k m l :
  lookup k (upsert k m l) =
  Some (match lookup k l with Some e => ME (forced e) (aggregate (data e) (data m)) | None => m end).
Proof.
  induction l as [|[k' e] l IH]; cbn [upsert lookup].
  - rewrite key_eqb_refl. reflexivity.
  - destruct (key_eqb k k') eqn:E; cbn [lookup]; rewrite E; [reflexivity|exact IH].
Qed.

Lemma lookup_upsert_other k k' m l : k' <> k -> lookup k' (upsert k m l) = lookup k' l.
Proof.
  intros Hne. induction l as [|[k2 e] l IH]; cbn [upsert lookup].
  - assert (E : key_eqb k' k = false) by (apply key_eqb_neq; exact Hne). rewrite E. reflexivity.
  - destruct (key_eqb k k2) eqn:E; cbn [lookup].
    + apply key_eqb_eq in E. subst k2.
      assert (E : key_eqb k' k = false) by (apply key_eqb_neq; exact Hne). rewrite E. reflexivity.
    + rewrite IH. reflexivity.
Qed.

Lemma keys_upsert k m l :
  keys (upsert k m l) = match lookup k l with Some _ => keys l | None => keys l ++ [k] end.
Proof.
  induction l as [|[k' e] l IH]; cbn [upsert lookup keys map fst app]; [reflexivity|].
  destruct (key_eqb k k') eqn:E; cbn [keys map fst]; [reflexivity|].
  fold (keys (upsert k m l)). fold (keys l). rewrite IH. destruct (lookup k l); reflexivity.
Qed.

Lemma length_upsert k m l :
  length (upsert k m l) = match lookup k l with Some _ => length l | None => S (length l) end.
Proof.
  induction l as [|[k' e] l IH]; cbn [upsert lookup length]; [reflexivity|].
  destruct (key_eqb k k') eqn:E; cbn [length]; [reflexivity|]. rewrite IH. destruct (lookup k l); reflexivity.
Qed.

Lemma nodup_upsert k m l : NoDup (keys l) -> NoDup (keys (upsert k m l)).
Proof.
  intros H. rewrite keys_upsert. destruct (lookup k l) eqn:E; [exact H|].
  apply lookup_none in E.
  apply Permutation_NoDup with (l := k :: keys l).
  - apply Permutation_cons_append.
  - constructor; assumption.
Qed.

Lemma lget_upsert k m l k' :
  lget k' (upsert k m l) = if key_eqb k k' then oplus (lget k l) (Some (data m)) else lget k' l.
Proof.
  unfold lget. destruct (key_eqb k k') eqn:E.
  - apply key_eqb_eq in E. subst. rewrite lookup_upsert_same. destruct (lookup k' l); reflexivity.
  - apply key_eqb_neq in E. rewrite lookup_upsert_other by congruence. reflexivity.
Qed.

(* the sum over the entries of an association list with distinct keys, restricted to one key *)
Definition ent_at (k : key) (ke : key * mentry) : option mdata :=
  if key_eqb (fst ke) k then Some (data (snd ke)) else None.

Lemma msum_ent_at k l : NoDup (keys l) -> msum (map (ent_at k) l) = lget k l.
Proof.
  induction l as [|[k' e] l IH]; intros Hnd; [reflexivity|].
  cbn [map keys fst] in *. inversion Hnd as [|? ? Hni Hnd']; subst.
  rewrite msum_cons. unfold ent_at at 1. cbn [fst snd]. unfold lget. cbn [lookup].
  rewrite (key_eqb_sym k k'). destruct (key_eqb k' k) eqn:E.
  - apply key_eqb_eq in E. subst. rewrite (IH Hnd'). unfold lget.
    assert (Hn : lookup k l = None) by (apply lookup_none; exact Hni). rewrite Hn. reflexivity.
  - cbn [oplus]. apply IH. exact Hnd'.
Qed.

(* ------------------------------------------------------------------ mergeMetric *)
Definition wf (t : table) : Prop := NoDup (keys (entries t)) /\ tcount t = Z.of_nat (length (entries t)).

Lemma get_lget k t : get k t = lget k (entries t).
Proof. reflexivity. Qed.

Lemma refuses_spec t k m :
  refuses t k m = match lookup k (entries t) with None => full t && negb (forced m) | Some _ => false end.
Proof. unfold refuses, get. destruct (lookup k (entries t)); reflexivity. Qed.

Lemma merge_metric_refused t k m : refuses t k m = true ->
  merge_metric t k m = T (tmax t) (tcount t) (tdropped t + 1) (tfailed t) (entries t).
Proof.
  rewrite refuses_spec. unfold merge_metric. destruct (lookup k (entries t)); [discriminate|].
  intros ->. reflexivity.
Qed.

Lemma merge_metric_taken t k m : refuses t k m = false ->
  merge_metric t k m =
  T (tmax t) (match lookup k (entries t) with None => tcount t + 1 | Some _ => tcount t end)
    (tdropped t) (tfailed t) (upsert k m (entries t)).
Proof.
  rewrite refuses_spec. unfold merge_metric. destruct (lookup k (entries t)); [reflexivity|].
  intros ->. reflexivity.
Qed.

Lemma merge_metric_max t k m : tmax (merge_metric t k m) = tmax t.
Proof. unfold merge_metric. destruct (lookup k (entries t)); [reflexivity|]. destruct (full t && negb (forced m)); reflexivity. Qed.
Lemma merge_metric_failed t k m : tfailed (merge_metric t k m) = tfailed t.
Proof. unfold merge_metric. destruct (lookup k (entries t)); [reflexivity|]. destruct (full t && negb (forced m)); reflexivity. Qed.

Lemma merge_metric_dropped t k m :
  tdropped (merge_metric t k m) = tdropped t + (if refuses t k m then 1 else 0).
Proof.
  destruct (refuses t k m) eqn:E.
  - rewrite merge_metric_refused by exact E. reflexivity.
  - rewrite merge_metric_taken by exact E. cbn. lia.
Qed.

Lemma merge_metric_wf t k m : wf t -> wf (merge_metric t k m).
Proof.
  intros [Hnd Hc]. destruct (refuses t k m) eqn:E.
  - rewrite merge_metric_refused by exact E. split; assumption.
  - rewrite merge_metric_taken by exact E. split; cbn [entries tcount].
    + apply nodup_upsert. exact Hnd.
    + rewrite length_upsert. destruct (lookup k (entries t)); lia.
Qed.

Lemma merge_metric_get t k m k' :
  get k' (merge_metric t k m) =
  if refuses t k m then get k' t
  else if key_eqb k k' then oplus (get k t) (Some (data m)) else get k' t.
Proof.
  destruct (refuses t k m) eqn:E.
  - rewrite merge_metric_refused by exact E. reflexivity.
  - rewrite merge_metric_taken by exact E. rewrite !get_lget. cbn [entries]. apply lget_upsert.
Qed.

(* a forced metric is never refused *)
Lemma forced_never_refused t k m : forced m = true -> refuses t k m = false.
Proof. intros H. rewrite refuses_spec. destruct (lookup k (entries t)); [reflexivity|]. rewrite H. apply andb_false_r. Qed.

(* a refusal happens only when the table is full *)
Lemma refuses_full t k m : refuses t k m = true -> tmax t <= tcount t /\ forced m = false /\ get k t = None.
Proof.
  unfold refuses. destruct (get k t); [discriminate|]. intros H. apply andb_prop in H. destruct H as [H1 H2].
  unfold full in H1. apply Z.leb_le in H1. apply negb_true_iff in H2. auto.
Qed.

(* ------------------------------------------------------------------ folds of mergeMetric *)
Section Fold.
  Variable g : key -> key.
  Definition foldg (t : table) (os : list (key * mentry)) : table :=
    fold_left (fun a ke => merge_metric a (g (fst ke)) (snd ke)) os t.

  Lemma foldg_cons t ke os : foldg t (ke :: os) = foldg (merge_metric t (g (fst ke)) (snd ke)) os.
  Proof. reflexivity. Qed.

  Lemma foldg_max t os : tmax (foldg t os) = tmax t.
  Proof. revert t. induction os as [|ke os IH]; intros t; [reflexivity|]. rewrite foldg_cons, IH. apply merge_metric_max. Qed.
  Lemma foldg_failed t os : tfailed (foldg t os) = tfailed t.
  Proof. revert t. induction os as [|ke os IH]; intros t; [reflexivity|]. rewrite foldg_cons, IH. apply merge_metric_failed. Qed.
  Lemma foldg_wf t os : wf t -> wf (foldg t os).
  Proof. revert t. induction os as [|ke os IH]; intros t H; [exact H|]. rewrite foldg_cons. apply IH. apply merge_metric_wf. exact H. Qed.
  Lemma foldg_dropped_mono t os : tdropped t <= tdropped (foldg t os).
  Proof.
    revert t. induction os as [|ke os IH]; intros t; [cbn; lia|]. rewrite foldg_cons.
    specialize (IH (merge_metric t (g (fst ke)) (snd ke))). rewrite merge_metric_dropped in IH.
    destruct (refuses t (g (fst ke)) (snd ke)); lia.
  Qed.

  (* without refusal the table afterwards holds, per key, what it held combined with the offers for that key *)
  Lemma foldg_get t os : tdropped (foldg t os) = tdropped t ->
    forall k, get k (foldg t os) = oplus (get k t) (msum (map (fun ke => ent_at k (g (fst ke), snd ke)) os)).
  Proof.
    revert t. induction os as [|ke os IH]; intros t Hd k.
    - cbn [foldg fold_left map msum fold_right]. rewrite oplus_none_r. reflexivity.
    - rewrite foldg_cons in *. set (t1 := merge_metric t (g (fst ke)) (snd ke)) in *.
      pose proof (foldg_dropped_mono t1 os) as Hm.
      pose proof (merge_metric_dropped t (g (fst ke)) (snd ke)) as H1. fold t1 in H1.
      destruct (refuses t (g (fst ke)) (snd ke)) eqn:E; [lia|].
      rewrite IH by lia. cbn [map]. rewrite msum_cons, <- oplus_assoc. f_equal.
      unfold t1. rewrite merge_metric_get, E. unfold ent_at. cbn [fst snd].
      destruct (key_eqb (g (fst ke)) k) eqn:E2.
      + apply key_eqb_eq in E2. subst k. reflexivity.
      + rewrite oplus_none_r. reflexivity.
  Qed.

  (* exact drop accounting *)
  Fixpoint count_refused_g (t : table) (os : list (key * mentry)) : Z :=
    match os with
    | [] => 0
    | ke :: r => (if refuses t (g (fst ke)) (snd ke) then 1 else 0)
                 + count_refused_g (merge_metric t (g (fst ke)) (snd ke)) r
    end.
  Lemma foldg_dropped t os : tdropped (foldg t os) = tdropped t + count_refused_g t os.
  Proof.
    revert t. induction os as [|ke os IH]; intros t; [cbn; lia|]. rewrite foldg_cons, IH, merge_metric_dropped.
    cbn [count_refused_g]. lia.
  Qed.

  (* number of unforced entries *)
  Lemma unforced_merge_metric t k m :
    unforced_count (merge_metric t k m) <= unforced_count t + (if forced m then 0 else 1).
  Proof.
    destruct (refuses t k m) eqn:E.
    - rewrite merge_metric_refused by exact E. unfold unforced_count. cbn [entries]. destruct (forced m); lia.
    - rewrite merge_metric_taken by exact E. unfold unforced_count. cbn [entries].
      generalize (entries t) as l. induction l as [|[k' e] l IHl]; cbn [upsert filter length snd].
      + destruct (forced m); cbn; lia.
      + destruct (key_eqb k k'); cbn [filter snd forced].
        * destruct (forced e); cbn [negb length]; destruct (forced m); lia.
        * destruct (forced e); cbn [negb length]; destruct (forced m); lia.
  Qed.

  Definition unforced_in (os : list (key * mentry)) : Z :=
    Z.of_nat (length (filter (fun ke => negb (forced (snd ke))) os)).

  Lemma foldg_unforced t os : unforced_count (foldg t os) <= unforced_count t + unforced_in os.
  Proof.
    revert t. induction os as [|ke os IH]; intros t; [unfold unforced_in; cbn; lia|]. rewrite foldg_cons.
    specialize (IH (merge_metric t (g (fst ke)) (snd ke))).
    pose proof (unforced_merge_metric t (g (fst ke)) (snd ke)) as H1.
    unfold unforced_in in *. cbn [filter]. destruct (forced (snd ke)); cbn [negb length] in *; lia.
  Qed.
End Fold.

Lemma merge_entries_foldg t os : merge_entries t os = foldg (fun k => k) t os.
Proof. reflexivity. Qed.

Notation idk := (fun k : key => k).

Lemma foldg_app g t a b : foldg g t (a ++ b) = foldg g (foldg g t a) b.
Proof. unfold foldg. apply fold_left_app. Qed.

(* ------------------------------------------------------------------ every operation is a fold of offers *)
Definition offer_of (c : contrib) : key * mentry := (ckey c, ME (cforced c) (cdata c)).

Lemma add_op_offer t a : add_op t a = merge_metric t (fst (offer_of (aop_contrib a))) (snd (offer_of (aop_contrib a))).
Proof. destruct a as [[n s] f d|[n s] f c|[n s] f v]; reflexivity. Qed.

Lemma add_ops_foldg t l : add_ops t l = foldg idk t (map offer_of (map aop_contrib l)).
Proof.
  revert t. induction l as [|a l IH]; intros t; [reflexivity|].
  cbn [add_ops fold_left map]. rewrite foldg_cons. rewrite <- add_op_offer. apply IH.
Qed.

Lemma aggregate_metric1_foldg txn t m :
  aggregate_metric1 txn t m = foldg idk t (map offer_of (tmetric_contribs txn m)).
Proof. unfold aggregate_metric1, tmetric_contribs. destruct (tm_scoped m); reflexivity. Qed.

Lemma aggregate_metrics_foldg t txn ms :
  aggregate_metrics t txn ms = foldg idk t (map offer_of (flat_map (tmetric_contribs txn) ms)).
Proof.
  revert t. induction ms as [|m ms IH]; intros t; [reflexivity|].
  cbn [aggregate_metrics fold_left flat_map]. rewrite map_app, foldg_app, <- aggregate_metric1_foldg. apply IH.
Qed.

Lemma msum_offers k cs :
  msum (map (fun ke => ent_at k (idk (fst ke), snd ke)) (map offer_of cs)) = combined cs k.
Proof. unfold combined. rewrite map_map. reflexivity. Qed.

(* offers of contributions, no refusal: per key, previous content combined with the contributions *)
Lemma offers_get t cs : tdropped (foldg idk t (map offer_of cs)) = tdropped t ->
  forall k, get k (foldg idk t (map offer_of cs)) = oplus (get k t) (combined cs k).
Proof. intros H k. rewrite (foldg_get idk t _ H k). rewrite msum_offers. reflexivity. Qed.

(* ------------------------------------------------------------------ Merge *)
Lemma msum_entries_perm k ord l : Permutation ord l -> NoDup (keys l) ->
  msum (map (fun ke => ent_at k (idk (fst ke), snd ke)) ord) = lget k l.
Proof.
  intros Hp Hnd. rewrite <- (msum_ent_at k l Hnd).
  transitivity (msum (map (ent_at k) ord)).
  - reflexivity.
  - apply msum_perm. apply Permutation_map. exact Hp.
Qed.

Lemma merge_ord_get t tf ord : wf tf -> Permutation ord (entries tf) ->
  tdropped (merge_ord t ord) = tdropped t ->
  forall k, get k (merge_ord t ord) = oplus (get k t) (get k tf).
Proof.
  intros [Hnd _] Hp Hd k. unfold merge_ord in *. rewrite merge_entries_foldg in *.
  rewrite (foldg_get idk t ord Hd k). rewrite (msum_entries_perm k ord (entries tf) Hp Hnd). reflexivity.
Qed.

(* ------------------------------------------------------------------ MergeFailed *)
Lemma merge_failed_ord_spec t from ord :
  merge_failed_ord t from ord =
  if FailedMetricAttemptsLimit <? tfailed from + 1 then t
  else merge_entries (T (tmax t) (tcount t) (tdropped t) (Z.max (tfailed t) (tfailed from + 1)) (entries t)) ord.
Proof.
  unfold merge_failed_ord. cbv zeta. destruct (FailedMetricAttemptsLimit <? tfailed from + 1); [reflexivity|].
  f_equal. f_equal. destruct (Z.ltb_spec (tfailed t) (tfailed from + 1)); lia.
Qed.

Lemma limit_is_5 : FailedMetricAttemptsLimit = 5.
Proof. reflexivity. Qed.

(* C02: the attempt counter after MergeFailed *)
Lemma merge_failed_counter t from ord :
  (tfailed from + 1 <= FailedMetricAttemptsLimit ->
     tfailed (merge_failed_ord t from ord) = Z.max (tfailed t) (tfailed from + 1) /\
     tmax (merge_failed_ord t from ord) = tmax t /\
     forall k, wf from -> Permutation ord (entries from) ->
       tdropped (merge_failed_ord t from ord) = tdropped t ->
       get k (merge_failed_ord t from ord) = oplus (get k t) (get k from)) /\
  (FailedMetricAttemptsLimit < tfailed from + 1 -> merge_failed_ord t from ord = t).
Proof.
  rewrite merge_failed_ord_spec. split.
  - intros Hle. destruct (Z.ltb_spec FailedMetricAttemptsLimit (tfailed from + 1)) as [Hlt|_]; [lia|].
    rewrite merge_entries_foldg. rewrite foldg_failed, foldg_max. cbn [tfailed tmax]. repeat split.
    intros k Hwf Hp Hd.
    set (t0 := T (tmax t) (tcount t) (tdropped t) (Z.max (tfailed t) (tfailed from + 1)) (entries t)) in *.
    change (tdropped t) with (tdropped t0) in Hd.
    rewrite (foldg_get idk t0 ord Hd k). destruct Hwf as [Hnd _].
    rewrite (msum_entries_perm k ord (entries from) Hp Hnd). reflexivity.
  - intros Hlt. destruct (Z.ltb_spec FailedMetricAttemptsLimit (tfailed from + 1)) as [_|Hge]; [reflexivity|lia].
Qed.

(* ------------------------------------------------------------------ ApplyRules *)
Lemma foldg_count g t os : tcount (foldg g t os) <= tcount t + Z.of_nat (length os).
Proof.
  revert t. induction os as [|ke os IH]; intros t; [cbn; lia|]. rewrite foldg_cons.
  specialize (IH (merge_metric t (g (fst ke)) (snd ke))). cbn [length].
  assert (tcount (merge_metric t (g (fst ke)) (snd ke)) <= tcount t + 1).
  { unfold merge_metric. destruct (lookup _ _); cbn; [lia|]. destruct (full t && negb _); cbn; lia. }
  lia.
Qed.

Lemma foldg_roomy g t os : tcount t + Z.of_nat (length os) <= tmax t -> count_refused_g g t os = 0.
Proof.
  revert t. induction os as [|ke os IH]; intros t H; [reflexivity|]. cbn [count_refused_g length] in *.
  destruct (refuses t (g (fst ke)) (snd ke)) eqn:E.
  - apply refuses_full in E. lia.
  - rewrite IH; [lia|]. rewrite merge_metric_max. rewrite merge_metric_taken by exact E. cbn [tcount].
    destruct (lookup _ _); lia.
Qed.

Definition rkey (rn : name -> name) (k : key) : key := (rn (fst k), snd k).

Lemma apply_rules_ord_foldg rn t ord :
  let filled := foldg (rkey rn) (T (if tmax t <? tcount t then tcount t else tmax t) 0 0 (tfailed t) []) ord in
  apply_rules_ord rn t ord = T (tmax t) (tcount filled) (tdropped filled) (tfailed filled) (entries filled).
Proof. reflexivity. Qed.

Definition total_cnt (l : list (key * mentry)) : Z := zsum (map (fun ke => cnt (data (snd ke))) l).

Lemma total_cnt_upsert k m l : total_cnt (upsert k m l) = total_cnt l + cnt (data m).
Proof.
  unfold total_cnt, zsum. induction l as [|[k' e] l IH]; cbn [upsert map fold_right snd]; [lia|].
  destruct (key_eqb k k'); cbn [map fold_right snd data cnt aggregate]; lia.
Qed.

Lemma total_cnt_perm a b : Permutation a b -> total_cnt a = total_cnt b.
Proof.
  unfold total_cnt, zsum. induction 1; cbn [map fold_right]; lia.
Qed.

Lemma foldg_total_cnt g t os : count_refused_g g t os = 0 ->
  total_cnt (entries (foldg g t os)) = total_cnt (entries t) + total_cnt os.
Proof.
  revert t. induction os as [|ke os IH]; intros t H; [unfold total_cnt at 3; cbn; lia|].
  cbn [count_refused_g] in H. rewrite foldg_cons.
  assert (Hm : 0 <= count_refused_g g (merge_metric t (g (fst ke)) (snd ke)) os).
  { pose proof (foldg_dropped g (merge_metric t (g (fst ke)) (snd ke)) os).
    pose proof (foldg_dropped_mono g (merge_metric t (g (fst ke)) (snd ke)) os). lia. }
  destruct (refuses t (g (fst ke)) (snd ke)) eqn:E; [lia|].
  rewrite IH by lia. rewrite merge_metric_taken by exact E. cbn [entries]. rewrite total_cnt_upsert.
  unfold total_cnt at 4. cbn [map zsum fold_right]. unfold total_cnt, zsum. lia.
Qed.

Lemma perm_filter {A} (f : A -> bool) l l' : Permutation l l' -> Permutation (filter f l) (filter f l').
Proof.
  induction 1 as [|x l l' _ IH|x y l|l l' l'' _ IH1 _ IH2]; cbn [filter].
  - constructor.
  - destruct (f x); [constructor|]; exact IH.
  - destruct (f x), (f y); try apply Permutation_refl. apply perm_swap.
  - eapply Permutation_trans; eassumption.
Qed.

(* C07_rename_conserves, table level: for every iteration order *)
Lemma apply_rules_conserves rn t ord : wf t -> Permutation ord (entries t) ->
  let t' := apply_rules_ord rn t ord in
  wf t' /\
  tdropped t' = 0 /\                                     (* no metric is refused while renaming *)
  tfailed t' = tfailed t /\ tmax t' = tmax t /\
  (forall k', get k' t' = msum (map (fun ke => ent_at k' (rkey rn (fst ke), snd ke)) (entries t))) /\
  total_cnt (entries t') = total_cnt (entries t) /\      (* sum of call counts preserved *)
  unforced_count t' <= unforced_count t.
Proof.
  intros [Hnd Hc] Hp. cbv zeta. rewrite apply_rules_ord_foldg. cbv zeta.
  set (t0 := T (if tmax t <? tcount t then tcount t else tmax t) 0 0 (tfailed t) []).
  assert (Hwf0 : wf t0) by (split; [constructor|reflexivity]).
  assert (Hlen : Z.of_nat (length ord) = tcount t) by (rewrite (Permutation_length Hp); lia).
  assert (Hroom : count_refused_g (rkey rn) t0 ord = 0).
  { apply foldg_roomy. unfold t0. cbn [tcount tmax]. destruct (Z.ltb_spec (tmax t) (tcount t)); lia. }
  assert (Hd : tdropped (foldg (rkey rn) t0 ord) = 0).
  { rewrite foldg_dropped, Hroom. reflexivity. }
  pose proof (foldg_wf (rkey rn) t0 ord Hwf0) as [Hnd' Hc'].
  cbn [tdropped tfailed tmax entries tcount]. repeat split.
  - exact Hnd'.
  - exact Hc'.
  - exact Hd.
  - rewrite foldg_failed. reflexivity.
  - intros k'. unfold get. cbn [entries].
    change (get k' (foldg (rkey rn) t0 ord) = msum (map (fun ke => ent_at k' (rkey rn (fst ke), snd ke)) (entries t))).
    rewrite (foldg_get (rkey rn) t0 ord) by (rewrite Hd; reflexivity).
    unfold t0 at 1. unfold get. cbn [entries lookup option_map oplus].
    apply msum_perm. apply Permutation_map. exact Hp.
  - rewrite (foldg_total_cnt (rkey rn) t0 ord Hroom). unfold t0. cbn [entries].
    unfold total_cnt at 1. cbn [map zsum fold_right]. rewrite (total_cnt_perm ord (entries t) Hp). lia.
  - pose proof (foldg_unforced (rkey rn) t0 ord) as Hu.
    unfold unforced_count in *. cbn [entries] in *. unfold t0 in Hu at 2. cbn [entries filter length] in Hu.
    unfold unforced_in in Hu.
    assert (Hpl : length (filter (fun ke : key * mentry => negb (forced (snd ke))) ord) =
                  length (filter (fun ke : key * mentry => negb (forced (snd ke))) (entries t))).
    { apply Permutation_length. apply perm_filter. exact Hp. }
    lia.
Qed.

(* ------------------------------------------------------------------ renaming: regrouping of sums *)
Lemma in_entries_lookup k e l : NoDup (keys l) -> In (k, e) l -> lookup k l = Some e.
Proof.
  induction l as [|[k' e'] l IH]; intros Hnd Hin; [destruct Hin|].
  cbn [keys map fst] in Hnd. inversion Hnd as [|? ? Hni Hnd']; subst. cbn [lookup].
  destruct Hin as [Heq|Hin].
  - inversion Heq; subst. rewrite key_eqb_refl. reflexivity.
  - destruct (key_eqb k k') eqn:E.
    + apply key_eqb_eq in E. subst. exfalso. apply Hni. change k' with (fst (k', e)). apply in_map. exact Hin.
    + apply IH; assumption.
Qed.

Lemma msum_indicator k X l : NoDup (keys l) -> In k (keys l) ->
  msum (map (fun ke : key * mentry => if key_eqb (fst ke) k then X else None) l) = X.
Proof.
  induction l as [|[k' e] l IH]; intros Hnd Hin; [destruct Hin|].
  cbn [keys map fst] in *. inversion Hnd as [|? ? Hni Hnd']; subst. rewrite msum_cons.
  destruct (key_eqb k' k) eqn:E.
  - apply key_eqb_eq in E. subst k'.
    rewrite msum_all_none; [apply oplus_none_r|].
    intros [k2 e2] H2. cbn [fst]. destruct (key_eqb k2 k) eqn:E2; [|reflexivity].
    apply key_eqb_eq in E2. subst. exfalso. apply Hni. change k with (fst (k, e2)). apply in_map. exact H2.
  - cbn [oplus]. apply IH; [exact Hnd'|]. destruct Hin as [Hin|Hin]; [|exact Hin].
    apply key_eqb_neq in E. congruence.
Qed.

Lemma combined_in_some cs c : In c cs -> exists d, combined cs (ckey c) = Some d.
Proof.
  induction cs as [|c' cs IH]; intros Hin; [destruct Hin|].
  unfold combined. cbn [map]. rewrite msum_cons. destruct Hin as [->|Hin].
  - unfold at_key at 1. rewrite key_eqb_refl. apply oplus_some_l.
  - destruct (IH Hin) as [d Hd]. unfold combined in Hd. rewrite Hd. apply oplus_some_r.
Qed.

Lemma rename_sum rn l cs : NoDup (keys l) -> (forall k, lget k l = combined cs k) ->
  forall k', msum (map (fun ke => ent_at k' (rkey rn (fst ke), snd ke)) l) =
             combined (map (rename_contrib rn) cs) k'.
Proof.
  intros Hnd Hget k'.
  (* 1-2: each entry's data is the sum of the contributions to its key *)
  rewrite (msum_map_ext _ (fun ke => msum (map (fun c => if key_eqb (rkey rn (fst ke)) k' then at_key (fst ke) c else None) cs))).
  2:{ intros [k e] Hin. cbn [fst snd]. unfold ent_at. cbn [fst snd].
      destruct (key_eqb (rkey rn k) k') eqn:E.
      - pose proof (Hget k) as Hk. unfold lget in Hk. rewrite (in_entries_lookup k e l Hnd Hin) in Hk.
        cbn [option_map] in Hk. rewrite Hk. reflexivity.
      - symmetry. apply msum_all_none. reflexivity. }
  (* 3: exchange the sums *)
  rewrite (msum_swap (fun (ke : key * mentry) (c : contrib) =>
            if key_eqb (rkey rn (fst ke)) k' then at_key (fst ke) c else None) l cs).
  unfold combined. rewrite map_map.
  (* 4: per contribution *)
  apply msum_map_ext. intros c Hc.
  rewrite (msum_map_ext _ (fun ke : key * mentry => if key_eqb (fst ke) (ckey c) then at_key k' (rename_contrib rn c) else None)).
  2:{ intros [k e] Hin. cbn [fst]. unfold at_key. cbn [rename_contrib ckey cdata].
      rewrite (key_eqb_sym (ckey c) k). destruct (key_eqb k (ckey c)) eqn:E.
      - apply key_eqb_eq in E. subst k. reflexivity.
      - destruct (key_eqb (rkey rn k) k'); reflexivity. }
  apply msum_indicator; [exact Hnd|].
  destruct (combined_in_some cs c Hc) as [d Hd]. rewrite <- Hget in Hd. unfold lget in Hd.
  destruct (lookup (ckey c) l) eqn:El; [|discriminate]. eapply lookup_some_in. exact El.
Qed.

(* ------------------------------------------------------------------ the main invariant over builds *)
Notation LIM := FailedMetricAttemptsLimit.

Lemma delta_offers t cs r :
  0 <= r -> r + (tdropped (foldg idk t (map offer_of cs)) - tdropped t) = 0 ->
  r = 0 /\ tdropped (foldg idk t (map offer_of cs)) = tdropped t.
Proof. intros Hr H. pose proof (foldg_dropped_mono idk t (map offer_of cs)). lia. Qed.

Theorem builds_spec b t r : builds b t r ->
  wf t /\ 0 <= r /\ tfailed t = bfailed LIM b /\
  (r = 0 -> forall k, get k t = combined (contribs LIM b) k).
Proof.
  induction 1 as [max|b t r l _ IH|b t r txn ms _ IH|b f t tf r rf ord _ IHb _ IHf Hp
                 |b f t tf r rf ord _ IHb _ IHf Hp|b t r _ IH|b t r rn ord _ IH Hp].
  - (* new *) repeat split; try reflexivity; try constructor; try lia.
  - (* adds *) destruct IH as (Hwf & Hr & Hf & Hg). rewrite add_ops_foldg.
    pose proof (foldg_dropped_mono idk t (map offer_of (map aop_contrib l))) as Hm.
    repeat split.
    + apply foldg_wf. exact Hwf.
    + apply foldg_wf. exact Hwf.
    + lia.
    + rewrite foldg_failed. exact Hf.
    + intros H0 k. cbn [contribs]. rewrite combined_app, <- Hg by lia. apply offers_get. lia.
  - (* txn *) destruct IH as (Hwf & Hr & Hf & Hg). rewrite aggregate_metrics_foldg.
    pose proof (foldg_dropped_mono idk t (map offer_of (flat_map (tmetric_contribs txn) ms))) as Hm.
    repeat split.
    + apply foldg_wf. exact Hwf.
    + apply foldg_wf. exact Hwf.
    + lia.
    + rewrite foldg_failed. exact Hf.
    + intros H0 k. cbn [contribs]. rewrite combined_app, <- Hg by lia. apply offers_get. lia.
  - (* merge *) destruct IHb as (Hwf & Hr & Hf & Hg). destruct IHf as (Hwff & Hrf & Hff & Hgf).
    pose proof (foldg_dropped_mono idk t ord) as Hm. unfold merge_ord in *. rewrite merge_entries_foldg in *.
    repeat split.
    + apply foldg_wf. exact Hwf.
    + apply foldg_wf. exact Hwf.
    + lia.
    + rewrite foldg_failed. exact Hf.
    + intros H0 k. cbn [contribs]. rewrite combined_app, <- Hg, <- Hgf by lia.
      apply (merge_ord_get t tf ord Hwff Hp). unfold merge_ord. rewrite merge_entries_foldg. lia.
  - (* merge failed *) destruct IHb as (Hwf & Hr & Hf & Hg). destruct IHf as (Hwff & Hrf & Hff & Hgf).
    rewrite merge_failed_ord_spec. cbn [bfailed contribs]. rewrite <- Hff.
    destruct (LIM <? tfailed tf + 1) eqn:El.
    + repeat split; try (destruct Hwf; assumption); try lia; try exact Hf.
      intros H0 k. apply Hg. lia.
    + rewrite merge_entries_foldg.
      set (t0 := T (tmax t) (tcount t) (tdropped t) (Z.max (tfailed t) (tfailed tf + 1)) (entries t)).
      assert (Hwf0 : wf t0) by exact Hwf.
      pose proof (foldg_dropped_mono idk t0 ord) as Hm. change (tdropped t0) with (tdropped t) in Hm.
      repeat split.
      * apply foldg_wf. exact Hwf0.
      * apply foldg_wf. exact Hwf0.
      * lia.
      * rewrite foldg_failed. unfold t0. cbn [tfailed]. rewrite Hf. reflexivity.
      * intros H0 k. rewrite combined_app, <- Hg, <- Hgf by lia.
        rewrite (foldg_get idk t0 ord) by (change (tdropped t0) with (tdropped t); lia).
        destruct Hwff as [Hnd _]. rewrite (msum_entries_perm k ord (entries tf) Hp Hnd). reflexivity.
  - (* rules: nil or empty *) exact IH.
  - (* rules *) destruct IH as (Hwf & Hr & Hf & Hg).
    pose proof (apply_rules_conserves rn t ord Hwf Hp) as Hc. cbv zeta in Hc.
    destruct Hc as (Hwf' & Hd' & Hf' & _ & Hget' & _ & _).
    repeat split.
    + destruct Hwf'; assumption.
    + destruct Hwf'; assumption.
    + lia.
    + rewrite Hf'. exact Hf.
    + intros H0 k'. rewrite Hget'. cbn [contribs]. apply rename_sum; [destruct Hwf; assumption|].
      intros k. rewrite <- get_lget. apply Hg. lia.
Qed.

(* ------------------------------------------------------------------ C05: unforced bound, forced never refused, exact drops *)
Definition unf (ke : key * mentry) : bool := negb (forced (snd ke)).

Lemma unforced_upsert k m l :
  length (filter unf (upsert k m l)) =
  (length (filter unf l) + match lookup k l with Some _ => 0 | None => if forced m then 0 else 1 end)%nat.
Proof.
  unfold unf. induction l as [|[k' e] l IH]; cbn [upsert lookup filter length snd].
  - destruct (forced m); reflexivity.
  - destruct (key_eqb k k') eqn:E; cbn [filter snd forced].
    + destruct (forced e); cbn [negb length]; lia.
    + destruct (forced e); cbn [negb length]; rewrite IH; lia.
Qed.

Lemma filter_length_le {A} (f : A -> bool) l : (length (filter f l) <= length l)%nat.
Proof. induction l as [|x l IH]; cbn [filter length]; [lia|]. destruct (f x); cbn [length]; lia. Qed.

Lemma unforced_le_len t : unforced_count t <= Z.of_nat (length (entries t)).
Proof. unfold unforced_count. pose proof (filter_length_le (fun ke => negb (forced (snd ke))) (entries t)). lia. Qed.

Definition bounded (t : table) : Prop := unforced_count t <= Z.max 0 (tmax t).

Lemma merge_metric_bounded t k m : wf t -> bounded t -> bounded (merge_metric t k m).
Proof.
  intros [_ Hc] Hb. unfold bounded in *. rewrite merge_metric_max.
  destruct (refuses t k m) eqn:E.
  - rewrite merge_metric_refused by exact E. exact Hb.
  - rewrite merge_metric_taken by exact E. unfold unforced_count in *. cbn [entries].
    change (fun ke : key * mentry => negb (forced (snd ke))) with unf in *.
    rewrite unforced_upsert. rewrite refuses_spec in E.
    destruct (lookup k (entries t)); [lia|]. destruct (forced m); [lia|].
    rewrite andb_true_r in E. unfold full in E. apply Z.leb_gt in E.
    pose proof (filter_length_le unf (entries t)). lia.
Qed.

Lemma foldg_bounded g t os : wf t -> bounded t -> bounded (foldg g t os).
Proof.
  revert t. induction os as [|ke os IH]; intros t Hwf Hb; [exact Hb|]. rewrite foldg_cons.
  apply IH; [apply merge_metric_wf|apply merge_metric_bounded]; assumption.
Qed.

(* on every build, under every iteration order: at most max unforced entries *)
Theorem metrics_unforced_bound b t r : builds b t r -> unforced_count t <= Z.max 0 (tmax t).
Proof.
  intros Hb. change (bounded t).
  induction Hb as [max|b t r l Hb IH|b t r txn ms Hb IH|b f t tf r rf ord Hb IHb Hf IHf Hp
                  |b f t tf r rf ord Hb IHb Hf IHf Hp|b t r Hb IH|b t r rn ord Hb IH Hp].
  - unfold bounded, unforced_count. cbn. lia.
  - rewrite add_ops_foldg. apply foldg_bounded; [apply (builds_spec _ _ _ Hb)|exact IH].
  - rewrite aggregate_metrics_foldg. apply foldg_bounded; [apply (builds_spec _ _ _ Hb)|exact IH].
  - unfold merge_ord. rewrite merge_entries_foldg. apply foldg_bounded; [apply (builds_spec _ _ _ Hb)|exact IHb].
  - rewrite merge_failed_ord_spec. destruct (LIM <? tfailed tf + 1); [exact IHb|].
    rewrite merge_entries_foldg. apply foldg_bounded; [apply (builds_spec _ _ _ Hb)|exact IHb].
  - exact IH.
  - pose proof (apply_rules_conserves rn t ord (proj1 (builds_spec _ _ _ Hb)) Hp) as Hc. cbv zeta in Hc.
    destruct Hc as (_ & _ & _ & Hm & _ & _ & Hu). unfold bounded in *. rewrite Hm. lia.
Qed.

(* a forced contribution is never refused: it is in the table afterwards, combined with what was there *)
Theorem metrics_forced_never_refused t k m : forced m = true ->
  tdropped (merge_metric t k m) = tdropped t /\
  get k (merge_metric t k m) = oplus (get k t) (Some (data m)).
Proof.
  intros Hf. pose proof (forced_never_refused t k m Hf) as Hn. split.
  - rewrite merge_metric_dropped, Hn. lia.
  - rewrite merge_metric_get, Hn, key_eqb_refl. reflexivity.
Qed.

(* numDropped counts exactly the refused offers; a refused offer changes nothing else *)
Theorem metrics_dropped_exact t os :
  tdropped (merge_entries t os) = tdropped t + count_refused t os.
Proof.
  rewrite merge_entries_foldg, foldg_dropped. reflexivity.
Qed.

Theorem metrics_refusal_is_noop t k m : refuses t k m = true ->
  entries (merge_metric t k m) = entries t /\ tcount (merge_metric t k m) = tcount t /\
  tdropped (merge_metric t k m) = tdropped t + 1 /\ tmax t <= tcount t /\ forced m = false /\ get k t = None.
Proof.
  intros H. rewrite merge_metric_refused by exact H. cbn. pose proof (refuses_full t k m H). tauto.
Qed.

Theorem metrics_count_is_len b t r : builds b t r ->
  tcount t = Z.of_nat (length (entries t)) /\ NoDup (map fst (entries t)).
Proof. intros H. destruct (builds_spec _ _ _ H) as ((Hnd & Hc) & _). split; assumption. Qed.

(* ------------------------------------------------------------------ C07 statements *)
Theorem aggregate_acm :
  (forall a b, aggregate a b = aggregate b a) /\
  (forall a b c, aggregate (aggregate a b) c = aggregate a (aggregate b c)).
Proof. split; [exact aggregate_comm|exact aggregate_assoc]. Qed.

(* any two ways of delivering the same multiset of contributions, under any map iteration orders,
   give the same key -> data map, provided no contribution was refused at the capacity limit;
   and that map is the field-wise combination *)
Theorem order_independent b1 b2 t1 t2 :
  builds b1 t1 0 -> builds b2 t2 0 -> Permutation (contribs LIM b1) (contribs LIM b2) ->
  forall k, get k t1 = get k t2 /\ get k t1 = fieldwise (datas_at k (contribs LIM b1)).
Proof.
  intros H1 H2 Hp k.
  destruct (builds_spec _ _ _ H1) as (_ & _ & _ & G1). destruct (builds_spec _ _ _ H2) as (_ & _ & _ & G2).
  rewrite G1, G2 by reflexivity. split; [apply combined_perm; exact Hp|apply combined_fieldwise].
Qed.

Theorem scoped_also_unscoped t txn ms :
  tdropped (aggregate_metrics t txn ms) = tdropped t ->
  (forall k, get k (aggregate_metrics t txn ms) =
             oplus (get k t) (combined (flat_map (tmetric_contribs txn) ms) k)) /\
  (forall m, In m ms ->
     In (C (tm_name m, []) (tm_forced m) (tm_data m)) (flat_map (tmetric_contribs txn) ms) /\
     (tm_scoped m = true ->
      In (C (tm_name m, txn) (tm_forced m) (tm_data m)) (flat_map (tmetric_contribs txn) ms) /\
      (exists d, get (tm_name m, []) (aggregate_metrics t txn ms) = Some d) /\
      (exists d, get (tm_name m, txn) (aggregate_metrics t txn ms) = Some d))).
Proof.
  intros Hd. rewrite aggregate_metrics_foldg in *.
  assert (G : forall k, get k (foldg idk t (map offer_of (flat_map (tmetric_contribs txn) ms))) =
                        oplus (get k t) (combined (flat_map (tmetric_contribs txn) ms) k))
    by (apply offers_get; exact Hd).
  split; [exact G|].
  intros m Hm.
  assert (I1 : In (C (tm_name m, []) (tm_forced m) (tm_data m)) (flat_map (tmetric_contribs txn) ms)).
  { apply in_flat_map. exists m. split; [exact Hm|]. left. reflexivity. }
  split; [exact I1|]. intros Hs.
  assert (I2 : In (C (tm_name m, txn) (tm_forced m) (tm_data m)) (flat_map (tmetric_contribs txn) ms)).
  { apply in_flat_map. exists m. split; [exact Hm|]. unfold tmetric_contribs. rewrite Hs. right. left. reflexivity. }
  split; [exact I2|]. split.
  - rewrite G. destruct (combined_in_some _ _ I1) as [d Hdd]. cbn [ckey] in Hdd. rewrite Hdd. apply oplus_some_r.
  - rewrite G. destruct (combined_in_some _ _ I2) as [d Hdd]. cbn [ckey] in Hdd. rewrite Hdd. apply oplus_some_r.
Qed.

Theorem rename_conserves b t r rn ord : builds b t r -> Permutation ord (entries t) ->
  tdropped (apply_rules_ord rn t ord) = 0 /\
  tfailed (apply_rules_ord rn t ord) = tfailed t /\
  tmax (apply_rules_ord rn t ord) = tmax t /\
  (forall k', get k' (apply_rules_ord rn t ord) =
              msum (map (fun ke => if key_eqb (rn (fst (fst ke)), snd (fst ke)) k' then Some (data (snd ke)) else None)
                        (entries t))) /\
  zsum (map (fun ke => cnt (data (snd ke))) (entries (apply_rules_ord rn t ord))) =
  zsum (map (fun ke => cnt (data (snd ke))) (entries t)) /\
  (r = 0 -> forall k', get k' (apply_rules_ord rn t ord) =
                       fieldwise (datas_at k' (map (rename_contrib rn) (contribs LIM b)))).
Proof.
  intros Hb Hp. destruct (builds_spec _ _ _ Hb) as (Hwf & Hr & Hf & Hg).
  pose proof (apply_rules_conserves rn t ord Hwf Hp) as Hc. cbv zeta in Hc.
  destruct Hc as (_ & Hd' & Hf' & Hm' & Hget' & Ht' & _).
  repeat split; try assumption.
  intros H0 k'.
  pose proof (B_rules_some b t r rn ord Hb Hp) as Hb'. rewrite Hd', H0 in Hb'.
  destruct (builds_spec _ _ _ Hb') as (_ & _ & _ & Hg').
  rewrite Hg' by reflexivity. cbn [contribs]. apply combined_fieldwise.
Qed.

(* ------------------------------------------------------------------ executable evaluation is one of the allowed ones *)
Lemma exec_builds b : exists r, builds b (exec b) r.
Proof.
  induction b as [max|b [r IH] l|b [r IH] txn ms|b [r IHb] f [rf IHf]|b [r IHb] f [rf IHf]|b [r IH] [rn|]]; cbn [exec].
  - eexists. constructor.
  - eexists. constructor. exact IH.
  - eexists. constructor. exact IH.
  - eexists. unfold merge. eapply B_merge; [exact IHb|exact IHf|apply Permutation_refl].
  - eexists. unfold merge_failed. eapply B_mfail; [exact IHb|exact IHf|apply Permutation_refl].
  - eexists. cbn [apply_rules_opt]. unfold apply_rules. eapply B_rules_some; [exact IH|apply Permutation_refl].
  - eexists. cbn [apply_rules_opt]. apply B_rules_none. exact IH.
Qed.

(* ------------------------------------------------------------------ what depends on the iteration order *)
Definition absent_in (t : table) (ke : key * mentry) : bool :=
  match get (fst ke) t with None => true | Some _ => false end.

Lemma merge_metric_get_other t k m k' : k' <> k -> get k' (merge_metric t k m) = get k' t.
Proof.
  intros Hne. rewrite merge_metric_get. destruct (refuses t k m); [reflexivity|].
  assert (E : key_eqb k k' = false) by (apply key_eqb_neq; congruence). rewrite E. reflexivity.
Qed.

Lemma merge_metric_balance t k m :
  tcount (merge_metric t k m) + tdropped (merge_metric t k m) =
  tcount t + tdropped t + (if absent_in t (k, m) then 1 else 0).
Proof.
  unfold absent_in, get. cbn [fst]. unfold merge_metric.
  destruct (lookup k (entries t)); cbn [option_map tcount tdropped]; [lia|].
  destruct (full t && negb (forced m)); cbn [tcount tdropped]; lia.
Qed.

(* Merging the entries of a table (distinct keys) in ANY order:
   - keys not offered are untouched;
   - an offered entry that is forced, or whose key is already present, is always combined in;
   - an offered unforced entry with a new key is either taken as it is or refused as a whole
     (which of them are refused when the table is full is the only thing the order decides);
   - count + numDropped does not depend on the order. *)
Lemma merge_entries_char ord : forall t, NoDup (keys ord) ->
  (forall k, ~ In k (keys ord) -> get k (merge_entries t ord) = get k t) /\
  (forall k e, In (k, e) ord -> forced e = true \/ get k t <> None ->
     get k (merge_entries t ord) = oplus (get k t) (Some (data e))) /\
  (forall k e, In (k, e) ord ->
     get k (merge_entries t ord) = oplus (get k t) (Some (data e)) \/
     (get k (merge_entries t ord) = None /\ get k t = None /\ forced e = false)) /\
  tcount (merge_entries t ord) + tdropped (merge_entries t ord) =
  tcount t + tdropped t + Z.of_nat (length (filter (absent_in t) ord)).
Proof.
  induction ord as [|[k0 e0] ord IH]; intros t Hnd.
  - cbn [merge_entries fold_left keys map In filter length]. repeat split; intros; try contradiction; try reflexivity; lia.
  - cbn [keys map fst] in Hnd. inversion Hnd as [|? ? Hni Hnd']; subst.
    change (merge_entries t ((k0, e0) :: ord)) with (merge_entries (merge_metric t k0 e0) ord).
    set (t1 := merge_metric t k0 e0).
    destruct (IH t1 Hnd') as (I1 & I2 & I3 & I4).
    assert (Hoth : forall k, k <> k0 -> get k t1 = get k t) by (intros k Hk; apply merge_metric_get_other; exact Hk).
    assert (Hk0 : get k0 (merge_entries t1 ord) = get k0 t1) by (apply I1; exact Hni).
    assert (Hne : forall k e, In (k, e) ord -> k <> k0).
    { intros k e Hin ->. apply Hni. change k0 with (fst (k0, e)). apply in_map. exact Hin. }
    repeat split.
    + intros k Hk. cbn [keys map fst In] in Hk. rewrite I1 by tauto. apply Hoth. intros ->. apply Hk. left. reflexivity.
    + intros k e [Heq|Hin] Hor.
      * inversion Heq; subst k e. rewrite Hk0. unfold t1. rewrite merge_metric_get.
        assert (Hr : refuses t k0 e0 = false).
        { destruct Hor as [Hf|Hp]; [apply forced_never_refused; exact Hf|].
          unfold refuses. destruct (get k0 t); [reflexivity|contradiction]. }
        rewrite Hr, key_eqb_refl. reflexivity.
      * rewrite (I2 k e Hin); rewrite (Hoth k (Hne k e Hin)); [reflexivity|exact Hor].
    + intros k e [Heq|Hin].
      * inversion Heq; subst k e. rewrite Hk0. unfold t1. rewrite merge_metric_get.
        destruct (refuses t k0 e0) eqn:Hr.
        -- right. apply refuses_full in Hr. tauto.
        -- left. rewrite key_eqb_refl. reflexivity.
      * destruct (I3 k e Hin) as [H|H]; rewrite (Hoth k (Hne k e Hin)) in H; [left|right]; exact H.
    + rewrite I4. unfold t1 at 1 2. rewrite merge_metric_balance.
      cbn [filter].
      assert (Hf : filter (absent_in t1) ord = filter (absent_in t) ord).
      { apply filter_ext_in. intros [k e] Hin. unfold absent_in. cbn [fst]. rewrite (Hoth k (Hne k e Hin)). reflexivity. }
      rewrite Hf. destruct (absent_in t (k0, e0)); cbn [length]; lia.
Qed.

Theorem merge_order_effect t ord1 ord2 : NoDup (keys ord1) -> Permutation ord1 ord2 ->
  tcount (merge_entries t ord1) + tdropped (merge_entries t ord1) =
  tcount (merge_entries t ord2) + tdropped (merge_entries t ord2) /\
  (forall k e, In (k, e) ord1 -> forced e = true \/ get k t <> None ->
     get k (merge_entries t ord1) = get k (merge_entries t ord2)) /\
  (forall k, ~ In k (keys ord1) -> get k (merge_entries t ord1) = get k (merge_entries t ord2)).
Proof.
  intros Hnd Hp.
  assert (Hnd2 : NoDup (keys ord2)) by (eapply Permutation_NoDup; [apply Permutation_map; exact Hp|exact Hnd]).
  destruct (merge_entries_char ord1 t Hnd) as (A1 & A2 & _ & A4).
  destruct (merge_entries_char ord2 t Hnd2) as (B1 & B2 & _ & B4).
  repeat split.
  - rewrite A4, B4. rewrite (Permutation_length (perm_filter (absent_in t) _ _ Hp)). reflexivity.
  - intros k e Hin Hor. rewrite (A2 k e Hin Hor). symmetry. apply B2; [|exact Hor]. eapply Permutation_in; eassumption.
  - intros k Hk. rewrite A1 by exact Hk. symmetry. apply B1. intros Hk2. apply Hk.
    eapply Permutation_in; [apply Permutation_map; apply Permutation_sym; exact Hp|exact Hk2].
Qed.

(* ------------------------------------------------------------------ executable refusal count; non-vacuity *)
Fixpoint exec_r (b : build) : Z :=
  match b with
  | BNew _ => 0
  | BAdds b l => exec_r b + (tdropped (exec (BAdds b l)) - tdropped (exec b))
  | BTxn b txn ms => exec_r b + (tdropped (exec (BTxn b txn ms)) - tdropped (exec b))
  | BMerge b f => exec_r b + exec_r f + (tdropped (exec (BMerge b f)) - tdropped (exec b))
  | BMergeFailed b f => exec_r b + exec_r f + (tdropped (exec (BMergeFailed b f)) - tdropped (exec b))
  | BRules b None => exec_r b
  | BRules b (Some rn) => exec_r b + tdropped (exec (BRules b (Some rn)))
  end.

Lemma exec_builds_r b : builds b (exec b) (exec_r b).
Proof.
  induction b as [max|b IH l|b IH txn ms|b IHb f IHf|b IHb f IHf|b IH [rn|]]; cbn [exec exec_r].
  - constructor.
  - constructor. exact IH.
  - constructor. exact IH.
  - unfold merge. eapply B_merge; [exact IHb|exact IHf|apply Permutation_refl].
  - unfold merge_failed. eapply B_mfail; [exact IHb|exact IHf|apply Permutation_refl].
  - cbn [apply_rules_opt]. unfold apply_rules. eapply B_rules_some; [exact IH|apply Permutation_refl].
  - cbn [apply_rules_opt]. apply B_rules_none. exact IH.
Qed.

Definition ex_k1 : key := ([97%N], []).            (* "a" unscoped *)
Definition ex_k2 : key := ([98%N], []).            (* "b" unscoped *)
Definition ex_c1 := ARaw ex_k1 false (MD 1 1 5 7 9 2).
Definition ex_c2 := ARaw ex_k1 false (MD 1 2 1 3 11 4).
Definition ex_c3 := ARaw ex_k2 true (MD 1 4 0 2 2 8).
Definition ex_b1 : build := BAdds (BNew 10) [ex_c1; ex_c2; ex_c3].
Definition ex_b2 : build := BMergeFailed (BAdds (BNew 2) [ex_c3]) (BMerge (BAdds (BNew 10) [ex_c2]) (BAdds (BNew 10) [ex_c1])).

(* the hypotheses of order_independent are met by two different regroupings, and the conclusion is not trivial *)
Example ex_order_independent :
  builds ex_b1 (exec ex_b1) 0 /\ builds ex_b2 (exec ex_b2) 0 /\
  Permutation (contribs LIM ex_b1) (contribs LIM ex_b2) /\
  get ex_k1 (exec ex_b1) = Some (MD 2 3 6 3 11 6) /\ get ex_k1 (exec ex_b2) = Some (MD 2 3 6 3 11 6).
Proof.
  split; [exact (exec_builds_r ex_b1)|]. split; [exact (exec_builds_r ex_b2)|]. split.
  - vm_compute. apply Permutation_trans with (l' := [aop_contrib ex_c3; aop_contrib ex_c1; aop_contrib ex_c2]).
    + apply Permutation_sym. apply (Permutation_cons_append [aop_contrib ex_c1; aop_contrib ex_c2] (aop_contrib ex_c3)).
    + apply perm_skip. apply perm_swap.
  - split; vm_compute; reflexivity.
Qed.

(* a refusal really is outside the theorem: with capacity 1 the second key is refused *)
Example ex_refusal : exec_r (BAdds (BNew 1) [ex_c1; ARaw ex_k2 false (MD 1 4 0 2 2 8)]) = 1.
Proof. vm_compute. reflexivity. Qed.

(* rename: both keys renamed to "z" are combined, nothing is lost, the attempt counter is kept *)
Definition ex_rn (n : name) : name := [122%N].
Example ex_rename :
  let t := exec (BMergeFailed (BNew 1) ex_b1) in
  let t' := apply_rules ex_rn t in
  tfailed t = 1 /\ tcount t = 2 /\ tfailed t' = 1 /\ tcount t' = 1 /\ tdropped t' = 0 /\
  get ([122%N], []) t' = Some (MD 3 7 6 2 11 14).
Proof. vm_compute. repeat split; reflexivity. Qed.

(* at capacity: max unforced then a forced one, renamed one to one: all entries survive *)
Example ex_rename_at_capacity :
  let t := exec (BAdds (BNew 2) [ex_c1; ARaw ex_k2 false (MD 1 4 0 2 2 8); ARaw ([99%N], []) true (MD 1 8 0 0 0 0)]) in
  let t' := apply_rules (fun n => 120%N :: n) t in
  tcount t = 3 /\ tdropped t = 0 /\ tcount t' = 3 /\ tdropped t' = 0 /\ tmax t' = 2.
Proof. vm_compute. repeat split; reflexivity. Qed.

Example ex_scoped :
  let t := aggregate_metrics (new_table 10) [84%N] [TM [97%N] true false (MD 1 2 3 4 5 6)] in
  tdropped t = tdropped (new_table 10) /\
  get ([97%N], []) t = Some (MD 1 2 3 4 5 6) /\ get ([97%N], [84%N]) t = Some (MD 1 2 3 4 5 6).
Proof. vm_compute. repeat split; reflexivity. Qed.

(* both branches of merge_failed_counter are reachable *)
Example ex_merge_failed :
  tfailed (exec (BMergeFailed (BNew 10) ex_b1)) = 1 /\
  (let five := BMergeFailed (BNew 10) (BMergeFailed (BNew 10) (BMergeFailed (BNew 10) (BMergeFailed (BNew 10) (BMergeFailed (BNew 10) ex_b1)))) in
   tfailed (exec five) = 5 /\ tcount (exec five) = 2 /\
   exec (BMergeFailed (BNew 10) five) = new_table 10).
Proof. vm_compute. repeat split; reflexivity. Qed.
