(* Limiter.v -- model of daemon/internal/newrelic/collector/client.go: limitClient.Execute,
   NewLimitClient, and the NewClient wiring (MaxParallel <= 0 => no limiter).
   A labelled transition system parametric in `max` with any number of requests.
   Definitions only; proofs are in LimiterProofs.v.

     func (l *limitClient) Execute(cmd, cs) RPMResponse {
       var timer <-chan time.Time
       if 0 != l.timeout { timer = time.After(l.timeout) }        -- timer exists iff timeout <> 0
       select {
       case <-l.semaphore:                                         -- LAcquire (needs a permit)
         defer func() { l.semaphore <- true }()                    -- runs on return AND on panic
         resp := l.orig.Execute(cmd, cs)                           -- Running
         return resp                                               -- LReturn / LPanic
       case <-timer:                                               -- LFire then LTimeout
         return NewRPMResponseError(fmt.Errorf("timeout after %v", l.timeout))
       } }
     NewLimitClient: semaphore = make(chan bool, max), pre-filled with max tokens.            *)
From Coq Require Import NArith ZArith List Bool Arith.
Import ListNotations.
Open Scope N_scope.

Inductive result := ROk | RPanic | RTimeout.
(* Waiting carries "the request's timer has fired" (time.After delivered its value) *)
Inductive rstate := Idle | Waiting (fired : bool) | Running | Done (r : result).

Record lcfg := { max : N; has_timer : bool }.          (* has_timer = (timeout <> 0) *)
Record lstate := { permits : N; reqs : list rstate }.  (* permits = len(l.semaphore) *)

Inductive label :=
| LArrive (i : nat)     (* goroutine i calls Execute; the timer is created here when timeout <> 0 *)
| LAcquire (i : nat)    (* select case <-l.semaphore *)
| LFire (i : nat)       (* request i's time.After channel becomes ready *)
| LTimeout (i : nat)    (* select case <-timer *)
| LReturn (i : nat)     (* inner Execute returns; deferred release *)
| LPanic (i : nat).     (* inner Execute panics; deferred release still runs *)

Definition lab_idx (l : label) : nat :=
  match l with LArrive i | LAcquire i | LFire i | LTimeout i | LReturn i | LPanic i => i end.

Fixpoint upd {A} (i : nat) (x : A) (l : list A) {struct l} : list A :=
  match l, i with
  | [], _ => []
  | _ :: t, O => x :: t
  | h :: t, S j => h :: upd j x t
  end.

Definition is_running (r : rstate) : bool := match r with Running => true | _ => false end.
Fixpoint running_of (l : list rstate) : N :=
  match l with [] => 0 | r :: t => (if is_running r then 1 else 0) + running_of t end.
Definition running (s : lstate) : N := running_of (reqs s).

Definition linit (c : lcfg) (n : nat) : lstate := {| permits := max c; reqs := repeat Idle n |}.

Definition set_req (s : lstate) (p : N) (i : nat) (r : rstate) : lstate :=
  {| permits := p; reqs := upd i r (reqs s) |}.

(* One constructor per branch / channel operation.  The deferred `l.semaphore <- true` is a send on a
   buffered channel of capacity max: it can proceed only when the buffer is not full. *)
Inductive lstep (c : lcfg) : lstate -> label -> lstate -> Prop :=
| st_arrive s i :
    nth_error (reqs s) i = Some Idle ->
    lstep c s (LArrive i) (set_req s (permits s) i (Waiting false))
| st_acquire s i f :
    nth_error (reqs s) i = Some (Waiting f) -> 0 < permits s ->
    lstep c s (LAcquire i) (set_req s (permits s - 1) i Running)
| st_fire s i :
    has_timer c = true -> nth_error (reqs s) i = Some (Waiting false) ->
    lstep c s (LFire i) (set_req s (permits s) i (Waiting true))
| st_timeout s i :
    has_timer c = true -> nth_error (reqs s) i = Some (Waiting true) ->
    lstep c s (LTimeout i) (set_req s (permits s) i (Done RTimeout))
| st_return s i :
    nth_error (reqs s) i = Some Running -> permits s < max c ->
    lstep c s (LReturn i) (set_req s (permits s + 1) i (Done ROk))
| st_panic s i :
    nth_error (reqs s) i = Some Running -> permits s < max c ->
    lstep c s (LPanic i) (set_req s (permits s + 1) i (Done RPanic)).

(* ---- executable twin ---- *)
Definition step_fn (c : lcfg) (s : lstate) (l : label) : option lstate :=
  match l, nth_error (reqs s) (lab_idx l) with
  | LArrive i, Some Idle => Some (set_req s (permits s) i (Waiting false))
  | LAcquire i, Some (Waiting _) =>
      if 0 <? permits s then Some (set_req s (permits s - 1) i Running) else None
  | LFire i, Some (Waiting false) =>
      if has_timer c then Some (set_req s (permits s) i (Waiting true)) else None
  | LTimeout i, Some (Waiting true) =>
      if has_timer c then Some (set_req s (permits s) i (Done RTimeout)) else None
  | LReturn i, Some Running =>
      if permits s <? max c then Some (set_req s (permits s + 1) i (Done ROk)) else None
  | LPanic i, Some Running =>
      if permits s <? max c then Some (set_req s (permits s + 1) i (Done RPanic)) else None
  | _, _ => None
  end.

Definition labels_for (i : nat) : list label :=
  [LArrive i; LAcquire i; LFire i; LTimeout i; LReturn i; LPanic i].

Definition enabled (c : lcfg) (s : lstate) : list (label * lstate) :=
  flat_map (fun i =>
    flat_map (fun l => match step_fn c s l with Some s' => [(l, s')] | None => [] end) (labels_for i))
    (seq 0 (length (reqs s))).

(* traces *)
Inductive steps (c : lcfg) : lstate -> list label -> lstate -> Prop :=
| steps_nil s : steps c s [] s
| steps_snoc s tr s1 l s2 : steps c s tr s1 -> lstep c s1 l s2 -> steps c s (tr ++ [l]) s2.

Definition reachable (c : lcfg) (n : nat) (s : lstate) : Prop := exists tr, steps c (linit c n) tr s.

Fixpoint run_trace (c : lcfg) (s : lstate) (tr : list label) : option lstate :=
  match tr with
  | [] => Some s
  | l :: r => match step_fn c s l with Some s' => run_trace c s' r | None => None end
  end.

(* ---- trace inclusion for the correspondence runs ----
   The harness logs, under one mutex, the events  arrive i / inner-start i / inner-end i / returned
   with an error without running the inner client i.  They are replayed as
   LArrive / LAcquire / LReturn|LPanic / LFire;LTimeout.  accepts = the LTS can perform that trace and
   ends in the observed final state (per-request result, number of permits). *)
Definition rstate_eqb (a b : rstate) : bool :=
  match a, b with
  | Idle, Idle => true
  | Waiting x, Waiting y => Bool.eqb x y
  | Running, Running => true
  | Done ROk, Done ROk | Done RPanic, Done RPanic | Done RTimeout, Done RTimeout => true
  | _, _ => false
  end.

Fixpoint reqs_eqb (a b : list rstate) : bool :=
  match a, b with
  | [], [] => true
  | x :: a', y :: b' => rstate_eqb x y && reqs_eqb a' b'
  | _, _ => false
  end.

Definition accepts (c : lcfg) (n : nat) (tr : list label) (final : list rstate) (sem_len : N) : bool :=
  match run_trace c (linit c n) tr with
  | Some s => reqs_eqb (reqs s) final && (permits s =? sem_len)
  | None => false
  end.

(* index of the first label the LTS refuses (for diagnostics in the replay file) *)
Fixpoint first_refused (c : lcfg) (s : lstate) (tr : list label) (k : nat) : option nat :=
  match tr with
  | [] => None
  | l :: r => match step_fn c s l with Some s' => first_refused c s' r (S k) | None => Some k end
  end.

(* ---- monitor: the property on (scenario input, implementation output) only ----
   Input: max, whether the time-out is non-zero, per request whether the scripted inner client panics.
   Output per request: what the caller saw. *)
Inductive outcome :=
| OInnerRet      (* inner client ran exactly once and its response came back unchanged *)
| OInnerPanic    (* inner client ran exactly once, panicked, the panic reached the caller *)
| OErrNoInner    (* an error response, the inner client was never entered *)
| OStuck         (* Execute had not returned when the watchdog expired *)
| OBad.          (* anything else: no error and no inner call, inner entered twice, wrong response *)

Record lobs := {
  o_outcomes : list outcome;
  o_max_running : N;     (* maximum number of inner calls in progress at one moment *)
  o_sem_len : N;         (* len(l.semaphore) after quiescence *)
  o_sem_cap : N;         (* cap(l.semaphore) *)
  o_eroded : bool        (* a request was left waiting although fewer than max inner calls were running
                            and nothing else was going to change *)
}.

Definition outcome_ok (timer : bool) (panics : bool) (o : outcome) : bool :=
  match o with
  | OInnerRet => negb panics
  | OInnerPanic => panics
  | OErrNoInner => timer            (* only a time-out may refuse a request *)
  | OStuck | OBad => false
  end.

Fixpoint outcomes_ok (timer : bool) (beh : list bool) (os : list outcome) : bool :=
  match beh, os with
  | [], [] => true
  | b :: beh', o :: os' => outcome_ok timer b o && outcomes_ok timer beh' os'
  | _, _ => false
  end.

Definition c18_monitor (mx : N) (timer : bool) (beh : list bool) (o : lobs) : bool :=
  (o_max_running o <=? mx) && (o_sem_len o =? mx) && (o_sem_cap o =? mx)
  && outcomes_ok timer beh (o_outcomes o) && negb (o_eroded o).

(* the documented production numbers: 100 connections, 45 s *)
Definition c18_wiring_monitor (sem_cap : Z) (timeout_ns : Z) (limiter_installed : bool) : bool :=
  (sem_cap =? 100)%Z && (timeout_ns =? 45000000000)%Z && limiter_installed.

(* NewClient: `if cfg.MaxParallel <= 0 { return c }  return NewLimitClient(c, cfg.MaxParallel, cfg.Timeout)` *)
Definition new_client_limiter (max_parallel timeout_ns : Z) : option lcfg :=
  if (max_parallel <=? 0)%Z then None
  else Some {| max := Z.to_N max_parallel; has_timer := negb (timeout_ns =? 0)%Z |}.

(* projection of a final model state to an observation (used by the soundness lemma of the monitor) *)
Definition outcome_of (r : rstate) : outcome :=
  match r with
  | Done ROk => OInnerRet
  | Done RPanic => OInnerPanic
  | Done RTimeout => OErrNoInner
  | _ => OStuck
  end.
