(* OwnershipProto.v -- C17, layer 2: every trace of the worker's protocol follows the ownership
   discipline (simulation of the protocol LTS by the capability machine), hence is race free. *)
From Coq Require Import Arith List Bool Lia Permutation Morphisms Setoid.
From Verif Require Import Ownership OwnershipSound OwnershipCap.
Import ListNotations.

(* what the protocol state claims: each goroutine's pointers, each message's contents *)
Definition tclaims (t : thread) : list claim := give (HG (t_g t)) (pay (t_own t) (t_ro t)).
Definition mclaims (m : msg) : list claim := give (HS (m_s m)) (pay (m_own m) (m_ro m)).
Definition abs (s : pstate) : cstate :=
  {| c_cl := flat_map tclaims (p_thr s) ++ flat_map mclaims (p_msg s); c_next := p_nexto s |}.

Definition wf (s : pstate) : Prop := forall t, In t (p_thr s) -> t_g t < p_nextg s.

(* ---- permutations of concatenations *)
Ltac rot_r := etransitivity; [ | apply Permutation_app_comm ]; rewrite <- ?app_assoc.
Ltac pperm_n n :=
  rewrite <- ?app_assoc;
  lazymatch n with
  | O => fail "pperm: out of fuel"
  | S ?k => first [ apply Permutation_refl
                  | apply Permutation_app_head; pperm_n 8
                  | rot_r; pperm_n k ]
  end.
Ltac pperm := pperm_n 8.

Lemma give_app h a b : give h (a ++ b) = give h a ++ give h b.
Proof. unfold give. apply map_app. Qed.
Lemma give_perm h xs ys : Permutation xs ys -> Permutation (give h xs) (give h ys).
Proof. unfold give. apply Permutation_map. Qed.
Lemma pay_perm o o' r r' :
  Permutation o o' -> Permutation r r' -> Permutation (pay o r) (pay o' r').
Proof. intros A B. unfold pay, mx, mr. apply Permutation_app; now apply Permutation_map. Qed.
Lemma pay_app a b c d : Permutation (pay (a ++ b) (c ++ d)) (pay a c ++ pay b d).
Proof. unfold pay, mx, mr. rewrite !map_app. pperm. Qed.

Lemma claims_split h own ro xo xr own' ro' :
  Permutation own (xo ++ own') -> Permutation ro (xr ++ ro') ->
  Permutation (give h (pay own ro)) (give h (pay xo xr) ++ give h (pay own' ro')).
Proof.
  intros A B. rewrite <- give_app. apply give_perm.
  eapply Permutation_trans; [apply pay_perm; eassumption | apply pay_app].
Qed.

Lemma pay_cons_own o own ro : pay (o :: own) ro = (o, MX) :: pay own ro.
Proof. reflexivity. Qed.
Lemma pay_cons_ro o own ro : Permutation (pay own (o :: ro)) ((o, MR) :: pay own ro).
Proof. unfold pay. simpl. apply Permutation_sym. apply Permutation_middle. Qed.
Lemma give_cons h o m xs : give h ((o, m) :: xs) = (h, o, m) :: give h xs.
Proof. reflexivity. Qed.

Lemma in_tclaims_own t o : In o (t_own t) -> In (HG (t_g t), o, MX) (tclaims t).
Proof.
  intros H. unfold tclaims, give. apply in_map_iff. exists (o, MX). split; [reflexivity|].
  unfold pay. apply in_or_app. left. unfold mx. apply in_map_iff. eauto.
Qed.
Lemma in_tclaims_ro t o : In o (t_ro t) -> In (HG (t_g t), o, MR) (tclaims t).
Proof.
  intros H. unfold tclaims, give. apply in_map_iff. exists (o, MR). split; [reflexivity|].
  unfold pay. apply in_or_app. right. unfold mr. apply in_map_iff. eauto.
Qed.
Lemma in_abs_thr s t c : In t (p_thr s) -> In c (tclaims t) -> In c (c_cl (abs s)).
Proof.
  intros Ht Hc. simpl. apply in_or_app. left. apply in_flat_map. eauto.
Qed.

Lemma abs_pick s t rest :
  Permutation (p_thr s) (t :: rest) ->
  Permutation (c_cl (abs s)) (tclaims t ++ flat_map tclaims rest ++ flat_map mclaims (p_msg s)).
Proof.
  intros P. simpl. rewrite (Permutation_flat_map tclaims P). simpl. now rewrite <- app_assoc.
Qed.

Lemma abs_pick2 s t rest m mrest :
  Permutation (p_thr s) (t :: rest) -> Permutation (p_msg s) (m :: mrest) ->
  Permutation (c_cl (abs s))
              (mclaims m ++ tclaims t ++ flat_map tclaims rest ++ flat_map mclaims mrest).
Proof.
  intros P Q. simpl. rewrite (Permutation_flat_map tclaims P), (Permutation_flat_map mclaims Q).
  simpl. pperm.
Qed.

Lemma wf_same_gids s s' :
  p_nextg s <= p_nextg s' ->
  (forall t, In t (p_thr s') -> exists t0, In t0 (p_thr s) /\ t_g t0 = t_g t) -> wf s -> wf s'.
Proof.
  intros Hn H W t Ht. destruct (H t Ht) as [t0 [H0 <-]]. specialize (W t0 H0). lia.
Qed.

Lemma wf_replace s t rest t' msgs no :
  Permutation (p_thr s) (t :: rest) -> t_g t' = t_g t -> wf s ->
  wf {| p_thr := t' :: rest; p_msg := msgs; p_nextg := p_nextg s; p_nexto := no |}.
Proof.
  intros P Hg W. apply (wf_same_gids s); simpl; auto.
  intros x [<-|Hx].
  - exists t. split; [|now symmetry]. eapply Permutation_in; [apply Permutation_sym; exact P|]. now left.
  - exists x. split; [|reflexivity]. eapply Permutation_in; [apply Permutation_sym; exact P|]. now right.
Qed.

Lemma abs_cl_cons t rest msgs ng no :
  c_cl (abs {| p_thr := t :: rest; p_msg := msgs; p_nextg := ng; p_nexto := no |}) =
  (tclaims t ++ flat_map tclaims rest) ++ flat_map mclaims msgs.
Proof. reflexivity. Qed.
Lemma tclaims_mk g k o r :
  tclaims {| t_g := g; t_kind := k; t_own := o; t_ro := r |} = give (HG g) (pay o r).
Proof. reflexivity. Qed.
Lemma mclaims_mk sy o r :
  mclaims {| m_s := sy; m_own := o; m_ro := r |} = give (HS sy) (pay o r).
Proof. reflexivity. Qed.
Lemma flat_map_cons {A B} (f : A -> list B) x l : flat_map f (x :: l) = f x ++ flat_map f l.
Proof. reflexivity. Qed.
Lemma give_nil h : give h (pay [] []) = [].
Proof. reflexivity. Qed.

Ltac norm := unfold set_thr; rewrite ?abs_cl_cons, ?flat_map_cons, ?tclaims_mk, ?mclaims_mk.

Lemma pstep_cstep s a s' : wf s -> pstep s a s' -> cstep (abs s) a (abs s') /\ wf s'.
Proof.
  intros W H. inversion H; subst.
  - (* read *) split; [|exact W].
    match goal with Ho : _ \/ _ |- _ => destruct Ho as [Ho|Ho] end.
    + eapply c_rd with (m := MX); [|apply Permutation_refl|reflexivity].
      eapply in_abs_thr; eauto using in_tclaims_own.
    + eapply c_rd with (m := MR); [|apply Permutation_refl|reflexivity].
      eapply in_abs_thr; eauto using in_tclaims_ro.
  - (* write *) split; [|exact W].
    eapply c_wr; [|apply Permutation_refl|reflexivity].
    eapply in_abs_thr; eauto using in_tclaims_own.
  - (* new *)
    rename H0 into P. split.
    + eapply c_new; [reflexivity| |reflexivity].
      norm. rewrite pay_cons_own, give_cons. rewrite <- !app_comm_cons. apply perm_skip.
      rewrite (abs_pick s t rest P). unfold tclaims at 1. pperm.
    + eapply wf_replace; eauto.
  - (* freeze *)
    rename H0 into P, H3 into Po. split.
    + eapply c_freeze with (rest := give (HG (t_g t)) (pay own' (t_ro t)) ++
                                     flat_map tclaims rest ++ flat_map mclaims (p_msg s));
        [| |reflexivity].
      * rewrite (abs_pick s t rest P). unfold tclaims at 1.
        rewrite (give_perm _ _ _ (pay_perm _ _ _ _ Po (Permutation_refl _))).
        rewrite pay_cons_own, give_cons. rewrite <- app_comm_cons. apply Permutation_refl.
      * norm. rewrite (give_perm _ _ _ (pay_cons_ro o own' (t_ro t))). rewrite give_cons.
        rewrite <- !app_comm_cons. apply perm_skip. pperm.
    + eapply wf_replace; eauto.
  - (* drop own *)
    rename H0 into P, H2 into Po. split.
    + eapply c_drop; [|reflexivity].
      rewrite (abs_pick s t rest P). unfold tclaims at 1.
      rewrite (give_perm _ _ _ (pay_perm _ _ _ _ Po (Permutation_refl _))).
      rewrite pay_cons_own, give_cons. rewrite <- app_comm_cons. apply perm_skip.
      norm. pperm.
    + eapply wf_replace; eauto.
  - (* drop ro *)
    rename H0 into P, H2 into Po. split.
    + eapply c_drop; [|reflexivity].
      rewrite (abs_pick s t rest P). unfold tclaims at 1.
      rewrite (give_perm _ _ _ (pay_perm _ _ _ _ (Permutation_refl _) Po)).
      rewrite (give_perm _ _ _ (pay_cons_ro o (t_own t) ro')). rewrite give_cons.
      rewrite <- app_comm_cons. apply perm_skip.
      norm. pperm.
    + eapply wf_replace; eauto.
  - (* dup *)
    rename H0 into P, H2 into Hin. split.
    + eapply c_dup; [| |reflexivity].
      * eapply in_abs_thr; [|apply in_tclaims_ro; exact Hin].
        eapply Permutation_in; [apply Permutation_sym; exact P|]. now left.
      * norm. rewrite (give_perm _ _ _ (pay_cons_ro o (t_own t) (t_ro t))). rewrite give_cons.
        rewrite <- !app_comm_cons. apply perm_skip.
        rewrite (abs_pick s t rest P). unfold tclaims at 1. pperm.
    + eapply wf_replace; eauto.
  - (* go *)
    rename H0 into P, H3 into Po, H4 into Pr.
    assert (Hlt : t_g t < p_nextg s).
    { apply W. eapply Permutation_in; [apply Permutation_sym; exact P|]. now left. }
    split.
    + eapply c_go with (rest := give (HG (t_g t)) (pay own' ro') ++
                                 flat_map tclaims rest ++ flat_map mclaims (p_msg s));
        [lia| | |reflexivity].
      * rewrite (abs_pick s t rest P). unfold tclaims at 1.
        rewrite (claims_split _ _ _ _ _ _ _ Po Pr). pperm.
      * norm. pperm.
    + intros x [<-|[<-|Hx]]; simpl.
      * lia.
      * lia.
      * assert (Hx' : t_g x < p_nextg s).
        { apply W. eapply Permutation_in; [apply Permutation_sym; exact P|]. now right. }
        lia.
  - (* send *)
    rename H0 into P, H3 into Po, H4 into Pr. split.
    + eapply c_rel with (rest := give (HG (t_g t)) (pay own' ro') ++
                                  flat_map tclaims rest ++ flat_map mclaims (p_msg s));
        [| |reflexivity].
      * rewrite (abs_pick s t rest P). unfold tclaims at 1.
        rewrite (claims_split _ _ _ _ _ _ _ Po Pr). pperm.
      * norm. pperm.
    + eapply wf_replace; eauto.
  - (* receive *)
    rename H0 into P, H3 into Q. split.
    + eapply c_acq with (rest := tclaims t ++ flat_map tclaims rest ++ flat_map mclaims mrest);
        [| |reflexivity].
      * rewrite (abs_pick2 s t rest m mrest P Q). unfold mclaims at 1. apply Permutation_refl.
      * norm.
        rewrite (claims_split (HG (t_g t)) (m_own m ++ t_own t) (m_ro m ++ t_ro t)
                   (m_own m) (m_ro m) (t_own t) (t_ro t) (Permutation_refl _) (Permutation_refl _)).
        unfold tclaims at 2. pperm.
    + eapply wf_replace; eauto.
  - (* pure release *) split; [|exact W].
    eapply c_rel; [simpl; apply Permutation_refl|simpl; apply Permutation_refl|reflexivity].
  - (* pure acquire *) split; [|exact W].
    eapply c_acq; [simpl; apply Permutation_refl|simpl; apply Permutation_refl|reflexivity].
  - (* quit *)
    rename H0 into P. split.
    + eapply c_rel with (rest := flat_map tclaims rest ++ flat_map mclaims (p_msg s));
        [| |reflexivity].
      * rewrite (abs_pick s t rest P). unfold tclaims at 1. apply Permutation_refl.
      * norm. rewrite give_nil. simpl. pperm.
    + eapply wf_replace; eauto.
Qed.

Lemma wf_init : wf pinit.
Proof. intros t [<-|[]]. simpl. lia. Qed.

Lemma prun_crun s atr s' : prun s atr s' -> wf s -> crun (abs s) atr (abs s').
Proof.
  induction 1 as [s|s a s1 l s2 Hs Hr IH]; intros W.
  - constructor.
  - destruct (pstep_cstep _ _ _ W Hs) as [Hc W1]. econstructor; eauto.
Qed.

(* each object of the protocol has one owner, and ownership moves only along happens-before edges *)
Theorem protocol_disciplined tr : protocol_trace tr -> disciplined tr.
Proof.
  intros [atr [s [Hrun Her]]]. exists atr, (abs s). split; [|exact Her].
  change cinit with (abs pinit). apply prun_crun; [exact Hrun | exact wf_init].
Qed.

Theorem protocol_race_free tr : protocol_trace tr -> race_free tr = true.
Proof. intros H. apply disciplined_race_free. now apply protocol_disciplined. Qed.

Theorem protocol_drf tr : protocol_trace tr -> data_race_free tr.
Proof. intros H. apply disciplined_drf. now apply protocol_disciplined. Qed.
