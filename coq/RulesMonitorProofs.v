(* RulesMonitorProofs.v -- the monitor's rendering of the rule chain (RulesMonitor.sem_chain) is
   sound for RuleSem: what it computes is related by chain_sem, hence (RuleSem being functional)
   it is THE result the specification allows. *)
From Coq Require Import ZArith NArith List Bool Lia.
From Verif Require Import Metrics Rules RulesProofs RulesMonitor.
Import ListNotations.
Open Scope nat_scope.

Section Sound.
  Variable regex : Type.
  Variable find_first : regex -> name -> option (nat * nat).
  Variable replace_all : regex -> name -> name -> name.
  Hypothesis wf : matcher_wf regex find_first.

  Lemma cut_spec n (s : name) : cut n s = (firstn n s, skipn n s).
  Proof.
    revert s. induction n as [|n IH]; intros s; [reflexivity|].
    destruct s as [|c r]; cbn [cut firstn skipn]; [reflexivity|]. rewrite IH. reflexivity.
  Qed.

  Lemma sem_first_eq re rp s :
    sem_first regex find_first replace_all re rp s =
    match replace_first regex find_first replace_all re s rp with
    | (RMatched, o) => Some o
    | _ => None
    end.
  Proof.
    unfold sem_first, replace_first. destruct (find_first re s) as [[a b]|] eqn:E; [|reflexivity].
    destruct (wf _ _ _ _ E) as [Hab Hb].
    rewrite cut_spec. rewrite cut_spec. unfold slice. rewrite skipn_skipn'. replace (a + (b - a)) with b by lia. reflexivity.
  Qed.

  Lemma sem_segments_eq s : sem_segments s = split_slash s.
  Proof.
    unfold sem_segments. induction s as [|c r IH]; [reflexivity|].
    cbn [fold_right split_slash]. rewrite IH. reflexivity.
  Qed.

  Lemma sem_join_eq l : sem_join l = join_slash l.
  Proof.
    destruct l as [|x r]; [reflexivity|]. cbn [sem_join]. revert x.
    induction r as [|y r IH]; intros x; cbn [flat_map join_slash].
    - apply app_nil_r.
    - f_equal. cbn [app]. f_equal. apply IH.
  Qed.

  Definition verdict_of (p : rresult * name) : verdict :=
    match fst p with
    | RIgnore => VIgnore
    | RMatched => VOut true (snd p)
    | RUnmatched => VOut false (snd p)
    end.

  Lemma each_segment_eq re rp segs :
    each_segment regex find_first replace_all re rp segs =
    (existsb (fun p : name * option name => match snd p with Some _ => true | None => false end)
             (map (fun seg => (seg, sem_first regex find_first replace_all re rp seg)) segs),
     map (fun p : name * option name => match snd p with Some o => o | None => fst p end)
         (map (fun seg => (seg, sem_first regex find_first replace_all re rp seg)) segs)).
  Proof.
    induction segs as [|seg r IH]; [reflexivity|].
    cbn [each_segment map existsb fst snd]. rewrite IH. rewrite sem_first_eq.
    unfold replace_first. destruct (find_first re seg) as [[a b]|]; reflexivity.
  Qed.

  Lemma sem_rule_eq (r : rule regex) s :
    sem_rule regex find_first replace_all r s = verdict_of (rule_apply regex find_first replace_all r s).
  Proof.
    unfold sem_rule, rule_apply, verdict_of. destruct (r_ignore r).
    - destruct (find_first (r_re r) s) as [[a b]|] eqn:E; [|reflexivity].
      destruct (wf _ _ _ _ E) as [Hab Hb]. pose proof (slice_length s a b Hab Hb) as Hl.
      destruct (slice s a b) as [|c sl]; cbn [length] in Hl; cbn [fst snd].
      + assert (Hf : (a <? b) = false) by (apply Nat.ltb_ge; lia). rewrite Hf. reflexivity.
      + assert (Hf : (a <? b) = true) by (apply Nat.ltb_lt; lia). rewrite Hf. reflexivity.
    - destruct (r_replace_all r).
      + destruct (find_first (r_re r) s); reflexivity.
      + destruct (r_each_segment r).
        * rewrite sem_segments_eq, each_segment_eq. cbn [fst snd]. rewrite sem_join_eq.
          destruct (existsb _ _); reflexivity.
        * rewrite sem_first_eq. unfold replace_first. destruct (find_first (r_re r) s) as [[a b]|]; reflexivity.
  Qed.

  Definition finish (st : cstate) : rresult * name :=
    match st with
    | Fin res out => (res, out)
    | Run out m => (if m then RMatched else RUnmatched, out)
    end.

  Lemma fold_fin rs res out : fold_left (sem_step regex find_first replace_all) rs (Fin res out) = Fin res out.
  Proof. induction rs as [|r rs IH]; [reflexivity|]. cbn [fold_left sem_step]. exact IH. Qed.

  Lemma sem_chain_loop rs : forall s m,
    finish (fold_left (sem_step regex find_first replace_all) rs (Run s m)) = rules_loop regex find_first replace_all rs s m.
  Proof.
    induction rs as [|r rs IH]; intros s m; [reflexivity|].
    cbn [fold_left rules_loop]. unfold sem_step at 2. rewrite sem_rule_eq. unfold verdict_of.
    destruct (rule_apply regex find_first replace_all r s) as [res out]. cbn [fst snd].
    destruct res.
    - destruct (r_terminate r); [rewrite fold_fin; reflexivity|apply IH].
    - apply IH.
    - rewrite fold_fin. reflexivity.
  Qed.

  Theorem sem_chain_eq rs s :
    sem_chain regex find_first replace_all rs s = rules_apply regex find_first replace_all rs s.
  Proof.
    unfold sem_chain, rules_apply. rewrite <- sem_chain_loop.
    destruct (fold_left _ rs (Run s false)); reflexivity.
  Qed.

  (* monitor soundness: the name the monitor expects is the one RuleSem relates to the input *)
  Theorem sem_chain_sound rs s :
    chain_sem regex find_first replace_all rs s false
              (fst (sem_chain regex find_first replace_all rs s)) (snd (sem_chain regex find_first replace_all rs s)).
  Proof. rewrite sem_chain_eq. apply rules_apply_chain. exact wf. Qed.
End Sound.

Theorem c_sem_chain_sound rs s :
  chain_sem cregex c_find_first c_replace_all rs s false (fst (c_sem_chain rs s)) (snd (c_sem_chain rs s)).
Proof. apply sem_chain_sound. exact c_matcher_wf. Qed.
