(* ConfigFlagProofs.v -- the flag parser on every spelling (ConfigSpec.render_cmd), the effect algebra
   (last assignment wins), the three passes of DaemonFlagSet.Parse, the legacy fallback of configure(),
   the listen address, unknown keys and malformed values. *)
From Coq Require Import NArith ZArith List Bool Lia.
From Verif Require Import ConfigBase Config ConfigSpec ConfigLexProofs.
Import ListNotations.
Open Scope N_scope.

(* ------------------------------------------------------------------ effects *)

Lemma get_opt_app f a b :
  get_opt f (a ++ b) = match get_opt f a with Some v => Some v | None => get_opt f b end.
Proof.
  induction a as [|[g v] a IH]; [reflexivity|]. cbn [app get_opt]. destruct (g =? f); [reflexivity|exact IH].
Qed.

Lemma apply_effects_rev es : forall c, apply_effects es c = rev es ++ c.
Proof.
  unfold apply_effects. induction es as [|e es IH]; intros c; [reflexivity|].
  cbn [fold_left rev]. rewrite IH. rewrite <- app_assoc. reflexivity.
Qed.

Lemma get_apply f es c :
  get f (apply_effects es c) = match last_eff f es with Some v => v | None => get f c end.
Proof.
  unfold get, last_eff. rewrite apply_effects_rev, get_opt_app. destruct (get_opt f (rev es)); reflexivity.
Qed.

Lemma last_eff_app f a b :
  last_eff f (a ++ b) = match last_eff f b with Some v => Some v | None => last_eff f a end.
Proof. unfold last_eff. rewrite rev_app_distr. apply get_opt_app. Qed.

Lemma last_eff_nil f : last_eff f [] = None.
Proof. reflexivity. Qed.

Lemma get_set_same f v c : get f (set f v c) = v.
Proof. unfold get, set. cbn [get_opt]. rewrite N.eqb_refl. reflexivity. Qed.

Lemma get_set_other f g v c : g <> f -> get f (set g v c) = get f c.
Proof. intros H. unfold get, set. cbn [get_opt]. apply N.eqb_neq in H. rewrite H. reflexivity. Qed.

(* the three passes: flags, file, flags again *)
Lemma three_pass e efile c0 s :
  get s (apply_effects e (apply_effects efile (apply_effects e c0))) = resolved e efile c0 s.
Proof.
  unfold resolved. rewrite !get_apply. destruct (last_eff s e); [reflexivity|].
  destruct (last_eff s efile); reflexivity.
Qed.

Lemma get_opt_none_notin f l : (forall v, ~ In (f, v) l) -> get_opt f l = None.
Proof.
  induction l as [|[g w] l IH]; intros H; [reflexivity|]. cbn [get_opt].
  destruct (N.eqb_spec g f) as [->|Hne]; [exfalso; apply (H w); left; reflexivity|].
  apply IH. intros v Hin. apply (H v). right. exact Hin.
Qed.

Lemma last_eff_none_notin f es : (forall v, ~ In (f, v) es) -> last_eff f es = None.
Proof.
  unfold last_eff. intros H. apply get_opt_none_notin. intros v Hin. apply (H v). apply in_rev. exact Hin.
Qed.

Lemma split_eq_none nr : ~ In 61 nr -> split_eq nr = (nr, None).
Proof.
  induction nr as [|c r IH]; intros Hn; [reflexivity|]. cbn [split_eq].
  destruct (N.eqb_spec c 61) as [->|Hne]; [exfalso; apply Hn; left; reflexivity|].
  rewrite IH; [reflexivity|]. intros Hx. apply Hn. right. exact Hx.
Qed.

Lemma split_eq_some nr v : ~ In 61 nr -> split_eq (nr ++ 61 :: v) = (nr, Some v).
Proof.
  induction nr as [|c r IH]; intros Hn; [reflexivity|]. cbn [app split_eq].
  destruct (N.eqb_spec c 61) as [->|Hne]; [exfalso; apply Hn; left; reflexivity|].
  rewrite IH; [reflexivity|]. intros Hx. apply Hn. right. exact Hx.
Qed.

Section Flags.
  Variables (is_space is_letter is_number : N -> bool) (LA LE LW LI LH LD : Z) (fields : list fielddef).
  Notation parse_flags := (parse_flags is_space is_letter is_number LA LE LW LI LH LD fields).
  Notation flag_effects := (flag_effects is_space is_letter is_number LA LE LW LI LH LD fields).
  Notation decode_effects := (decode_effects is_space is_letter is_number LA LE LW LI LH LD fields).
  Notation assign_effects := (assign_effects LA LE LW LI LH LD fields).
  Notation unmarshal_value := (unmarshal_value LA LE LW LI LH LD).
  Notation lex_all := (lex_all is_space is_letter is_number).

  (* what parse_flags does with one argument that has the shape of a flag *)
  Definition dispatch (tbl : list flagdef) (name : bytes) (ov : option bytes) (rest : list bytes)
    : list effect * fstatus :=
    match find_flag tbl name with
    | None =>
      if bytes_eqb name s_help || bytes_eqb name [104] then ([], FlHelp) else ([], FlUndefined name)
    | Some fd =>
      if is_bool_flag fd then
        match flag_effects fd (match ov with Some v => v | None => s_true end) with
        | (es, None) => let '(es2, st) := parse_flags tbl rest in (es ++ es2, st)
        | (es, Some err) => (es, err)
        end
      else
        match ov with
        | Some v =>
          match flag_effects fd v with
          | (es, None) => let '(es2, st) := parse_flags tbl rest in (es ++ es2, st)
          | (es, Some err) => (es, err)
          end
        | None =>
          match rest with
          | [] => ([], FlNeedsArg name)
          | v :: rest' =>
            match flag_effects fd v with
            | (es, None) => let '(es2, st) := parse_flags tbl rest' in (es ++ es2, st)
            | (es, Some err) => (es, err)
            end
          end
        end
    end.

  Lemma parse_flags_flag tbl dd n0 tl rest : (n0 =? 45) = false -> (n0 =? 61) = false ->
    parse_flags tbl ((dashes dd ++ n0 :: tl) :: rest) =
    let '(nm, ov) := split_eq tl in dispatch tbl (n0 :: nm) ov rest.
  Proof.
    intros H45 H61. unfold dispatch. destruct dd; cbn [dashes app Config.parse_flags].
    - change (45 =? 45) with true. cbn [andb is_nil]. rewrite H45, H61. cbn [orb]. reflexivity.
    - rewrite H45. cbn [andb]. rewrite H45, H61. cbn [orb]. reflexivity.
  Qed.

  Lemma name_ok_inv n : name_ok n = true ->
    exists n0 nr, n = n0 :: nr /\ (n0 =? 45) = false /\ (n0 =? 61) = false /\ ~ In 61 nr.
  Proof.
    destruct n as [|n0 nr]; cbn [name_ok]; intros H; [discriminate|].
    apply andb_true_iff in H as [H H3]. apply andb_true_iff in H as [H1 H2].
    apply negb_true_iff in H1, H2, H3. apply mem_false_iff in H3. exists n0, nr. auto.
  Qed.

  (* one item, in any spelling *)
  Lemma parse_one tbl it rest : wf_citem tbl it ->
    parse_flags tbl (render_citem it ++ rest) =
    match flag_effects (citem_flag it) (citem_arg it) with
    | (es, None) => let '(es2, st) := parse_flags tbl rest in (es ++ es2, st)
    | (es, Some err) => (es, err)
    end.
  Proof.
    intros [Hfind [Hname Hbool]]. destruct (name_ok_inv _ Hname) as [n0 [nr [Hn [H45 [H61 Hno]]]]].
    destruct it as [fd dd eqf v|fd dd ov]; cbn [citem_flag citem_arg render_citem] in *.
    - destruct eqf; cbn [app]; rewrite Hn.
      + cbn [app]. rewrite parse_flags_flag by assumption. rewrite split_eq_some by exact Hno.
        unfold dispatch. rewrite <- Hn, Hfind, Hbool. reflexivity.
      + rewrite parse_flags_flag by assumption. rewrite split_eq_none by exact Hno.
        unfold dispatch. rewrite <- Hn, Hfind, Hbool. reflexivity.
    - destruct ov as [v|]; cbn [app]; rewrite Hn.
      + cbn [app]. rewrite parse_flags_flag by assumption. rewrite split_eq_some by exact Hno.
        unfold dispatch. rewrite <- Hn, Hfind, Hbool. reflexivity.
      + rewrite parse_flags_flag by assumption. rewrite split_eq_none by exact Hno.
        unfold dispatch. rewrite <- Hn, Hfind, Hbool. reflexivity.
  Qed.

  Definition citem_effects (it : citem) : list effect := fst (flag_effects (citem_flag it) (citem_arg it)).
  Definition citem_ok (it : citem) : Prop := snd (flag_effects (citem_flag it) (citem_arg it)) = None.
  Definition cmd_effects (items : list citem) : list effect := flat_map citem_effects items.

  (* every well-formed item with a well-formed value is applied, in order, whatever follows *)
  Theorem parse_render tbl items : forall rest,
    Forall (wf_citem tbl) items -> Forall citem_ok items ->
    parse_flags tbl (render_cmd items ++ rest) =
    (cmd_effects items ++ fst (parse_flags tbl rest), snd (parse_flags tbl rest)).
  Proof.
    unfold render_cmd, cmd_effects. induction items as [|it items IH]; intros rest Hwf Hok.
    - cbn [map concat app flat_map]. destruct (parse_flags tbl rest); reflexivity.
    - inversion Hwf as [|? ? Hw Hws]; subst. inversion Hok as [|? ? Ho Hos]; subst.
      cbn [map concat flat_map]. rewrite <- app_assoc. rewrite parse_one by exact Hw.
      unfold citem_ok in Ho. unfold citem_effects at 1.
      destruct (flag_effects (citem_flag it) (citem_arg it)) as [es oerr]. cbn [fst snd] in *. subst oerr.
      rewrite (IH rest Hws Hos). rewrite <- app_assoc. reflexivity.
  Qed.

  (* ... and the first item whose value does not parse stops the run with an error *)
  Theorem parse_render_bad tbl items bad rest err :
    Forall (wf_citem tbl) items -> Forall citem_ok items -> wf_citem tbl bad ->
    snd (flag_effects (citem_flag bad) (citem_arg bad)) = Some err ->
    snd (parse_flags tbl (render_cmd items ++ render_citem bad ++ rest)) = err.
  Proof.
    intros Hwf Hok Hb He. rewrite parse_render by assumption. cbn [snd]. rewrite parse_one by exact Hb.
    destruct (flag_effects (citem_flag bad) (citem_arg bad)) as [es oerr]. cbn [snd] in He. subst oerr. reflexivity.
  Qed.

  (* an argument that names no flag of the table *)
  Theorem parse_unknown_flag tbl items dd u tl rest :
    Forall (wf_citem tbl) items -> Forall citem_ok items ->
    name_ok u = true -> find_flag tbl u = None ->
    (tl = [] \/ exists v, tl = 61 :: v) ->
    parse_flags tbl (render_cmd items ++ (dashes dd ++ u ++ tl) :: rest) =
    (cmd_effects items, if bytes_eqb u s_help || bytes_eqb u [104] then FlHelp else FlUndefined u).
  Proof.
    intros Hwf Hok Hu Hfind Htl. rewrite parse_render by assumption.
    destruct (name_ok_inv _ Hu) as [n0 [nr [Hn [H45 [H61 Hno]]]]]. subst u. cbn [app].
    rewrite parse_flags_flag by assumption.
    assert (Hs : exists ov, split_eq (nr ++ tl) = (nr, ov)).
    { destruct Htl as [-> | [v ->]]; [rewrite app_nil_r; exists None; apply split_eq_none; exact Hno|].
      exists (Some v). apply split_eq_some. exact Hno. }
    destruct Hs as [ov Hs]. rewrite Hs. unfold dispatch. rewrite Hfind.
    destruct (bytes_eqb (n0 :: nr) s_help || bytes_eqb (n0 :: nr) [104]); cbn [fst snd]; rewrite app_nil_r; reflexivity.
  Qed.

  (* the first positional argument ends flag parsing: whatever follows is ignored *)
  Definition looks_like_flag (a : bytes) : bool := match a with c0 :: _ :: _ => c0 =? 45 | _ => false end.

  Lemma parse_stops_at_positional tbl a rest :
    looks_like_flag a = false -> parse_flags tbl (a :: rest) = ([], FlOk).
  Proof.
    intros H. cbn [Config.parse_flags]. destruct a as [|c0 [|c1 s2]]; [reflexivity| |].
    - destruct c0 as [|p]; [reflexivity|]. repeat (destruct p as [p|p|]; try reflexivity).
    - cbn [looks_like_flag] in H. destruct c0 as [|p]; [reflexivity|].
      repeat (destruct p as [p|p|]; try reflexivity). discriminate.
  Qed.

  Lemma parse_stops_at_dashdash tbl rest : parse_flags tbl ([45; 45] :: rest) = ([], FlOk).
  Proof. reflexivity. Qed.

  (* ---------------------------------------------------------------- the file: unknown keys, malformed values *)

  Lemma assign_unknown k v r : tag_lookup fields k = None -> assign_effects ((k, v) :: r) = assign_effects r.
  Proof. intros H. cbn [Config.assign_effects]. rewrite H. reflexivity. Qed.

  Lemma assign_unknown_mid a1 k v a2 : tag_lookup fields k = None ->
    assign_effects (a1 ++ (k, v) :: a2) = assign_effects (a1 ++ a2).
  Proof.
    intros H. induction a1 as [|[k1 v1] a1 IH]; cbn [app]; [apply assign_unknown; exact H|].
    cbn [Config.assign_effects]. rewrite IH. reflexivity.
  Qed.

  Lemma assign_malformed asg k v fd : In (k, v) asg -> tag_lookup fields k = Some fd ->
    (forall x, unmarshal_value (fd_kind fd) v <> POk x) -> snd (assign_effects asg) <> None.
  Proof.
    intros Hin Hk Hbad. induction asg as [|[k1 v1] asg IH]; [destruct Hin|].
    cbn [Config.assign_effects]. destruct (tag_lookup fields k1) as [fd1|] eqn:E1.
    - destruct (unmarshal_value (fd_kind fd1) v1) as [x| |] eqn:Eu; cbn [snd]; try discriminate.
      destruct Hin as [Heq|Hin]; [inversion Heq; subst; rewrite Hk in E1; inversion E1; subst; exfalso; apply (Hbad x); exact Eu|].
      specialize (IH Hin). destruct (assign_effects asg) as [es st]. exact IH.
    - destruct Hin as [Heq|Hin]; [inversion Heq; subst; congruence|]. apply IH. exact Hin.
  Qed.

  Lemma assign_ids asg f v : In (f, v) (fst (assign_effects asg)) ->
    exists fd, In fd fields /\ fd_id fd = f /\ fd_tag fd <> None.
  Proof.
    induction asg as [|[k1 v1] asg IH]; cbn [Config.assign_effects]; [intros []|].
    destruct (tag_lookup fields k1) as [fd1|] eqn:E1; [|exact IH].
    destruct (unmarshal_value (fd_kind fd1) v1) as [x| |]; try (intros []).
    destruct (assign_effects asg) as [es st]. cbn [fst] in *. intros [Heq|Hin]; [|apply IH; exact Hin].
    inversion Heq; subst. unfold tag_lookup in E1. apply find_some in E1. destruct E1 as [Hin Ht].
    exists fd1. repeat split; [exact Hin|]. destruct (fd_tag fd1); [discriminate|discriminate].
  Qed.

  Lemma decode_ids inp f v : In (f, v) (fst (decode_effects inp)) ->
    exists fd, In fd fields /\ fd_id fd = f /\ fd_tag fd <> None.
  Proof.
    unfold Config.decode_effects. destruct (lex_all inp) as [asg e].
    pose proof (assign_ids asg f v) as H. destruct (assign_effects asg) as [es [err|]]; exact H.
  Qed.

  Lemma assign_err_not_ok asg : snd (assign_effects asg) <> Some DecOk.
  Proof.
    induction asg as [|[k1 v1] asg IH]; cbn [Config.assign_effects]; [discriminate|].
    destruct (tag_lookup fields k1) as [fd1|]; [|exact IH].
    destruct (unmarshal_value (fd_kind fd1) v1) as [x| |]; cbn [snd]; try discriminate.
    destruct (assign_effects asg) as [es st]. exact IH.
  Qed.

  (* a malformed value for a known key is an error of the whole decode *)
  Theorem decode_malformed inp k v fd : In (k, v) (fst (lex_all inp)) -> tag_lookup fields k = Some fd ->
    (forall x, unmarshal_value (fd_kind fd) v <> POk x) -> snd (decode_effects inp) <> DecOk.
  Proof.
    intros Hin Hk Hbad. unfold Config.decode_effects. destruct (lex_all inp) as [asg e]. cbn [fst] in Hin.
    pose proof (assign_malformed asg k v fd Hin Hk Hbad) as H. pose proof (assign_err_not_ok asg) as H2.
    destruct (assign_effects asg) as [es [err|]]; cbn [snd] in *; [|congruence].
    intros ->. apply H2. reflexivity.
  Qed.
End Flags.

(* ------------------------------------------------------------------ the passes *)

Section Passes.
  Variables (is_space is_letter is_number : N -> bool) (LA LE LW LI LH LD : Z) (fields : list fielddef).
  Variables (F_ConfigFile F_BindPort F_BindAddr : N) (platform : bytes) (fs : bytes -> option bytes).
  Notation parse_flags := (parse_flags is_space is_letter is_number LA LE LW LI LH LD fields).
  Notation decode_effects := (decode_effects is_space is_letter is_number LA LE LW LI LH LD fields).
  Notation parse_config_file := (parse_config_file is_space is_letter is_number LA LE LW LI LH LD fields F_ConfigFile fs).
  Notation resolve_new := (resolve_new F_BindPort F_BindAddr platform).
  Notation resolve_legacy := (resolve_legacy F_BindPort F_BindAddr platform).
  Notation daemon_parse :=
    (daemon_parse is_space is_letter is_number LA LE LW LI LH LD fields F_ConfigFile F_BindPort F_BindAddr platform fs).
  Notation configure :=
    (configure is_space is_letter is_number LA LE LW LI LH LD fields F_ConfigFile F_BindPort F_BindAddr platform fs).

  (* the configuration file that was read: none (empty name), or the named file, decoded without error *)
  Definition file_link (p : bytes) (efile : list effect) : Prop :=
    (p = [] /\ efile = []) \/
    (p <> [] /\ exists content, fs p = Some content /\ decode_effects content = (efile, DecOk)).

  Lemma is_nil_true (s : bytes) : is_nil s = true <-> s = [].
  Proof. destruct s; cbn; split; intros; try discriminate; reflexivity. Qed.

  Lemma parse_config_file_ok c c2 : parse_config_file c = (c2, true) ->
    exists efile, c2 = apply_effects efile c /\ file_link (str_of (get F_ConfigFile c)) efile.
  Proof.
    unfold Config.parse_config_file. destruct (is_nil (str_of (get F_ConfigFile c))) eqn:En.
    - intros H. inversion H; subst. exists []. split; [reflexivity|]. left. apply is_nil_true in En. auto.
    - destruct (fs (str_of (get F_ConfigFile c))) as [content|] eqn:Ef; [|discriminate].
      destruct (decode_effects content) as [es st] eqn:Ed. intros H. inversion H; subst.
      exists es. split; [reflexivity|]. right. split.
      + intros Hx. rewrite Hx in En. discriminate.
      + exists content. split; [exact Ef|]. destruct st; try discriminate. exact Ed.
  Qed.

  Lemma parse_config_file_fail c c2 : parse_config_file c = (c2, false) ->
    str_of (get F_ConfigFile c) <> [] /\
    (fs (str_of (get F_ConfigFile c)) = None \/
     exists content, fs (str_of (get F_ConfigFile c)) = Some content /\ snd (decode_effects content) <> DecOk).
  Proof.
    unfold Config.parse_config_file. destruct (is_nil (str_of (get F_ConfigFile c))) eqn:En; [discriminate|].
    intros H. split; [intros Hx; rewrite Hx in En; discriminate|].
    destruct (fs (str_of (get F_ConfigFile c))) as [content|] eqn:Ef; [|left; reflexivity].
    right. exists content. split; [reflexivity|]. destruct (decode_effects content) as [es st].
    cbn [snd]. inversion H. destruct st; try discriminate.
  Qed.

  (* the fourth pass *)
  Lemma resolve_new_spec c c' w : resolve_new c = (c', w) ->
    (forall s, s <> F_BindAddr -> get s c' = get s c) /\
    str_of (get F_BindAddr c') = listen_of (str_of (get F_BindAddr c)) (str_of (get F_BindPort c)) platform /\
    w = negb (is_nil (str_of (get F_BindAddr c))) && negb (is_nil (str_of (get F_BindPort c))).
  Proof.
    unfold Config.resolve_new, listen_of.
    destruct (is_nil (str_of (get F_BindAddr c))) eqn:Ea; destruct (is_nil (str_of (get F_BindPort c))) eqn:Ep;
      cbn [andb negb]; intros H; inversion H; subst; repeat split;
      try (intros s Hs; apply get_set_other; congruence); try rewrite get_set_same; try reflexivity.
  Qed.

  Lemma resolve_legacy_spec c :
    (forall s, s <> F_BindAddr -> get s (resolve_legacy c) = get s c) /\
    str_of (get F_BindAddr (resolve_legacy c)) =
      listen_of (str_of (get F_BindAddr c)) (str_of (get F_BindPort c)) platform.
  Proof.
    unfold Config.resolve_legacy, listen_of.
    destruct (is_nil (str_of (get F_BindAddr c))) eqn:Ea; destruct (is_nil (str_of (get F_BindPort c))) eqn:Ep;
      cbn [andb negb]; repeat split;
      try (intros s Hs; apply get_set_other; congruence); try rewrite get_set_same; try reflexivity.
  Qed.

  (* DaemonFlagSet.Parse: every successful run is flags; file; flags; address resolution *)
  Theorem daemon_parse_spec tbl args c0 c w : daemon_parse tbl args c0 = (c, POkay w) ->
    exists e efile,
      parse_flags tbl args = (e, FlOk) /\
      file_link (str_of (get F_ConfigFile (apply_effects e c0))) efile /\
      (forall s, s <> F_BindAddr -> get s c = resolved e efile c0 s) /\
      str_of (get F_BindAddr c) =
        listen_of (str_of (resolved e efile c0 F_BindAddr)) (str_of (resolved e efile c0 F_BindPort)) platform /\
      w = negb (is_nil (str_of (resolved e efile c0 F_BindAddr))) && negb (is_nil (str_of (resolved e efile c0 F_BindPort))).
  Proof.
    unfold Config.daemon_parse. destruct (parse_flags tbl args) as [e st] eqn:Ep.
    destruct st; try discriminate.
    destruct (parse_config_file (apply_effects e c0)) as [c2 ok] eqn:Ef. destruct ok; [|discriminate].
    destruct (resolve_new (apply_effects e c2)) as [c4 w4] eqn:Er. intros H. inversion H; subst.
    destruct (parse_config_file_ok _ _ Ef) as [efile [-> Hl]].
    destruct (resolve_new_spec _ _ _ Er) as [H1 [H2 H3]].
    exists e, efile. split; [reflexivity|]. split; [exact Hl|].
    rewrite !three_pass in *. repeat split.
    - intros s Hs. rewrite H1 by exact Hs. apply three_pass.
    - exact H2.
    - exact H3.
  Qed.

  Lemma daemon_parse_error_iff tbl args c0 :
    snd (daemon_parse tbl args c0) = PError ->
    (snd (parse_flags tbl args) <> FlOk /\ snd (parse_flags tbl args) <> FlHelp) \/
    (snd (parse_flags tbl args) = FlOk /\
     snd (parse_config_file (apply_effects (fst (parse_flags tbl args)) c0)) = false).
  Proof.
    unfold Config.daemon_parse. destruct (parse_flags tbl args) as [e st]. cbn [fst snd].
    destruct st; cbn [snd]; try (intros _; left; split; discriminate); try discriminate.
    destruct (parse_config_file (apply_effects e c0)) as [c2 ok]. destruct ok.
    - destruct (resolve_new (apply_effects e c2)). cbn [snd]. discriminate.
    - intros _. right. split; reflexivity.
  Qed.

  (* configure(): what a returned Config is, on either path *)
  Theorem configure_spec new_tbl legacy_tbl dflt args c lg w :
    configure new_tbl legacy_tbl dflt args = Run c lg w ->
    let tbl := if lg then legacy_tbl else new_tbl in
    let c0 := init_flagset tbl dflt in
    exists e efile,
      parse_flags tbl args = (e, FlOk) /\
      file_link (str_of (get F_ConfigFile (apply_effects e c0))) efile /\
      (forall s, s <> F_BindAddr -> get s c = resolved e efile c0 s) /\
      str_of (get F_BindAddr c) =
        listen_of (str_of (resolved e efile c0 F_BindAddr)) (str_of (resolved e efile c0 F_BindPort)) platform /\
      (lg = true -> snd (daemon_parse new_tbl args (init_flagset new_tbl dflt)) = PError).
  Proof.
    unfold Config.configure.
    destruct (daemon_parse new_tbl args (init_flagset new_tbl dflt)) as [c1 st] eqn:Ed.
    destruct st as [w1| |].
    - intros H. inversion H; subst. cbn zeta.
      destruct (daemon_parse_spec _ _ _ _ _ Ed) as [e [efile [H1 [H2 [H3 [H4 H5]]]]]].
      exists e, efile. repeat split; try assumption. discriminate.
    - discriminate.
    - destruct (parse_flags legacy_tbl args) as [e st] eqn:Ep. destruct st; try discriminate.
      destruct (parse_config_file (apply_effects e (init_flagset legacy_tbl dflt))) as [c2 ok] eqn:Ef.
      destruct ok; [|discriminate]. intros H. inversion H; subst. cbn zeta.
      destruct (parse_config_file_ok _ _ Ef) as [efile [-> Hl]].
      destruct (resolve_legacy_spec (apply_effects e (apply_effects efile (apply_effects e (init_flagset legacy_tbl dflt)))))
        as [H1 H2].
      exists e, efile. split; [exact Ep|]. split; [exact Hl|]. rewrite !three_pass in H2. repeat split.
      + intros s Hs. rewrite H1 by exact Hs. apply three_pass.
      + exact H2.
  Qed.

  (* every way out of configure() *)
  Theorem configure_exits new_tbl legacy_tbl dflt args :
    match configure new_tbl legacy_tbl dflt args with
    | Run _ _ _ => True
    | Exit code =>
      (code = 2 /\ snd (daemon_parse new_tbl args (init_flagset new_tbl dflt)) = PHelp) \/
      (code = 1 /\ snd (daemon_parse new_tbl args (init_flagset new_tbl dflt)) = PError)
    end.
  Proof.
    unfold Config.configure.
    destruct (daemon_parse new_tbl args (init_flagset new_tbl dflt)) as [c1 st] eqn:Ed.
    destruct st as [w1| |]; [exact I|left; auto|].
    destruct (parse_flags legacy_tbl args) as [e st]. 
    destruct st; try (right; auto).
    destruct (parse_config_file (apply_effects e (init_flagset legacy_tbl dflt))) as [c2 ok].
    destruct ok; [exact I|right; auto].
  Qed.

  (* the new flag set rejects the arguments and so does the legacy one: exit status 1 *)
  Theorem configure_both_reject new_tbl legacy_tbl dflt args :
    snd (daemon_parse new_tbl args (init_flagset new_tbl dflt)) = PError ->
    snd (parse_flags legacy_tbl args) <> FlOk ->
    configure new_tbl legacy_tbl dflt args = Exit 1.
  Proof.
    unfold Config.configure. intros H1 H2.
    destruct (daemon_parse new_tbl args (init_flagset new_tbl dflt)) as [c1 st]. cbn [snd] in H1. subst st.
    destruct (parse_flags legacy_tbl args) as [e st]. cbn [snd] in H2. destruct st; try reflexivity. congruence.
  Qed.
  (* ... and conversely: flags that parse and a file that decodes give a run *)
  Lemma parse_config_file_complete c efile : file_link (str_of (get F_ConfigFile c)) efile ->
    parse_config_file c = (apply_effects efile c, true).
  Proof.
    unfold Config.parse_config_file. intros [[Hp ->] | [Hp [content [Hf Hd]]]].
    - rewrite Hp. reflexivity.
    - destruct (is_nil (str_of (get F_ConfigFile c))) eqn:En; [apply is_nil_true in En; contradiction|].
      rewrite Hf, Hd. reflexivity.
  Qed.

  Theorem daemon_parse_complete tbl args c0 e efile :
    parse_flags tbl args = (e, FlOk) ->
    file_link (str_of (get F_ConfigFile (apply_effects e c0))) efile ->
    let pre := apply_effects e (apply_effects efile (apply_effects e c0)) in
    daemon_parse tbl args c0 = (fst (resolve_new pre), POkay (snd (resolve_new pre))).
  Proof.
    intros Hp Hl. unfold Config.daemon_parse. rewrite Hp. rewrite (parse_config_file_complete _ _ Hl).
    cbn zeta. destruct (resolve_new _) as [c4 w]. reflexivity.
  Qed.

  Theorem configure_complete_new new_tbl legacy_tbl dflt args c w :
    daemon_parse new_tbl args (init_flagset new_tbl dflt) = (c, POkay w) ->
    configure new_tbl legacy_tbl dflt args = Run c false w.
  Proof. intros H. unfold Config.configure. rewrite H. reflexivity. Qed.

  Theorem configure_complete_legacy new_tbl legacy_tbl dflt args e efile :
    snd (daemon_parse new_tbl args (init_flagset new_tbl dflt)) = PError ->
    parse_flags legacy_tbl args = (e, FlOk) ->
    file_link (str_of (get F_ConfigFile (apply_effects e (init_flagset legacy_tbl dflt)))) efile ->
    configure new_tbl legacy_tbl dflt args =
    Run (resolve_legacy (apply_effects e (apply_effects efile (apply_effects e (init_flagset legacy_tbl dflt))))) true false.
  Proof.
    intros Hd Hp Hl. unfold Config.configure.
    destruct (daemon_parse new_tbl args (init_flagset new_tbl dflt)) as [c1 st]. cbn [snd] in Hd. subst st.
    rewrite Hp. rewrite (parse_config_file_complete _ _ Hl). reflexivity.
  Qed.
End Passes.
