(* Common.v -- small shared definitions and lemmas (stdlib only). *)
From Coq Require Import NArith ZArith List Bool Lia.
Import ListNotations.

(* indices of the elements on which f is false: used by the generated cases_*.v files *)
Fixpoint bad_idx {A} (f : A -> bool) (l : list A) (i : nat) : list nat :=
  match l with
  | [] => []
  | x :: r => if f x then bad_idx f r (S i) else i :: bad_idx f r (S i)
  end.

(* all naturals below n, as N, built with N.iter (never through a big nat) *)
Definition upto_step (p : N * list N) : N * list N := (N.succ (fst p), fst p :: snd p).
Definition upto (n : N) : list N := snd (N.iter n upto_step (0%N, [])).

Lemma upto_iter n :
  fst (N.iter n upto_step (0%N, [])) = n /\
  forall x, (x < n)%N -> In x (snd (N.iter n upto_step (0%N, []))).
Proof.
  induction n as [|n IH] using N.peano_ind.
  - split; [reflexivity|]. intros x Hx. lia.
  - rewrite N.iter_succ. destruct IH as [IH1 IH2]. unfold upto_step at 1 3. cbn [fst snd].
    rewrite IH1. split; [reflexivity|]. intros x Hx.
    destruct (N.eq_dec x n) as [->|Hne]; [left; reflexivity|right; apply IH2; lia].
Qed.

Lemma upto_complete n x : (x < n)%N -> In x (upto n).
Proof. intros H. unfold upto. apply (proj2 (upto_iter n)). exact H. Qed.

Lemma forall_lt_by_compute (P : N -> bool) n :
  forallb P (upto n) = true -> forall x, (x < n)%N -> P x = true.
Proof. intros H x Hx. rewrite forallb_forall in H. apply H. apply upto_complete; assumption. Qed.

(* multisets as lists compared through count_occ *)
Definition msetN_eq (a b : list N) : Prop := forall x, count_occ N.eq_dec a x = count_occ N.eq_dec b x.

Lemma count_occ_app_N (a b : list N) x :
  count_occ N.eq_dec (a ++ b) x = count_occ N.eq_dec a x + count_occ N.eq_dec b x.
Proof. apply count_occ_app. Qed.
