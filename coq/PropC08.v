(* C08 -- every outbound payload is well-formed for its endpoint.  Statements only. *)
From Coq Require Import NArith List Bool.
From Verif Require Import Json JsonProofs JsonPayloadProofs.
Import ListNotations.
Open Scope N_scope.

(* The recogniser used as the monitor on the implementation's bytes only accepts JSON texts. *)
Theorem C08_json_validb_sound : forall bs, json_validb bs = true -> JsonValue bs.
Proof. exact json_validb_sound. Qed.
Print Assumptions C08_json_validb_sound.

(* ... and the shape monitor only accepts texts that denote a tree of the endpoint's shape. *)
Theorem C08_shape_monitor_sound : forall s bs, shape_monitor s bs = true ->
  exists t, JsonT t bs /\ shape_ok s t = true.
Proof. exact shape_monitor_sound. Qed.
Print Assumptions C08_shape_monitor_sound.

(* jsonx.AppendString writes a JSON string token for EVERY byte string (any length, any bytes:
   invalid UTF-8, controls, quotes, backslashes, U+2028/9; not even the bound < 256 is needed). *)
Theorem C08_string_valid : forall s : list N, JsonString (append_string s).
Proof. exact append_string_valid. Qed.
Print Assumptions C08_string_valid.

(* Go's DecodeRuneInString never indexes past the end of the string. *)
Theorem C08_decode_rune_no_crash : forall s, decode_rune s <> rune_crash.
Proof. exact decode_no_crash. Qed.
Print Assumptions C08_decode_rune_no_crash.

(* MetricTable.CollectorJSON: any run id / names / scopes (bytes), the two times and every metric value
   printed as JSON numbers (strconv oracle), six values per metric, mt.count > 0 exactly when the map is
   non-empty: the body is [id, t0, t1, [[{name(,scope)}, [6 numbers]], ...]] for 0, 1 or any number of metrics. *)
Theorem C08_metric_payload : forall id t0 t1 count ms,
  JsonNumber t0 -> JsonNumber t1 -> Forall entry_ok ms -> (0 < count <-> ms <> []) ->
  exists body, metric_payload id t0 t1 count ms = Some body /\
               body = metric_bytes id t0 t1 ms /\
               JsonT (metric_tree id t0 t1 ms) body /\ HasShape shape_metric body.
Proof. exact metric_payload_valid. Qed.
Print Assumptions C08_metric_payload.

(* The same for every table state that insertions can reach: mt.count is kept equal to the number of
   keys, so the trailing-comma decision and the loop over the map cannot disagree. *)
Theorem C08_metric_payload_reachable : forall ops id t0 t1 ms,
  JsonNumber t0 -> JsonNumber t1 -> Forall entry_ok ms ->
  map (fun m => (m_name m, m_scope m)) ms = mt_keys (mt_run ops) ->
  exists body, metric_payload id t0 t1 (mt_count (mt_run ops)) ms = Some body /\
               JsonT (metric_tree id t0 t1 ms) body /\ HasShape shape_metric body.
Proof. exact metric_payload_reachable. Qed.
Print Assumptions C08_metric_payload_reachable.

(* A NaN or infinite field anywhere makes the metric encoder return an error, never bytes. *)
Theorem C08_nonfinite_fails : forall id t0 t1 count ms,
  Exists (fun m => In FBad (m_data m)) ms -> metric_payload id t0 t1 count ms = None.
Proof. exact metric_nonfinite_fails. Qed.
Print Assumptions C08_nonfinite_fails.

(* analyticsEvents.CollectorJSON (transaction, custom, error, span events; split and merged reservoirs use
   the same encoder): run id rendered by encoding/json as a string, two ints, any number of agent fragments
   that are JSON texts: the body is [id, {reservoir_size, events_seen}, [fragments...]]. *)
Theorem C08_event_payload : forall id_json rs es events,
  JsonString id_json -> JsonNumber rs -> JsonNumber es -> Forall JsonValue events ->
  exists idbody ts, Forall2 JsonT ts events /\
    JsonT (JArr [JStr idbody; sampling_tree rs es; JArr ts]) (event_payload id_json rs es events) /\
    HasShape shape_events (event_payload id_json rs es events).
Proof. exact event_payload_valid. Qed.
Print Assumptions C08_event_payload.

(* LogEvents.CollectorJSON: label map rendered by json.Marshal as an object (or the literal {} on error);
   events shorter than 4 bytes are skipped; the kept fragments are JSON texts. *)
Theorem C08_log_payload : forall lj events,
  (forall j, lj = Some j -> exists lms, JsonT (JObj lms) j) ->
  Forall JsonValue (filter at_least4 events) ->
  exists lms ts, Forall2 JsonT ts (filter at_least4 events) /\
    JsonT (log_tree (JObj lms) ts) (log_payload lj events) /\
    HasShape shape_log (log_payload lj events).
Proof. exact log_payload_valid. Qed.
Print Assumptions C08_log_payload.

(* filterPhpPackages: for ANY decoded names and versions and any set of already seen packages, a non-nil
   result is a non-empty array of [name, version, {}]. *)
Theorem C08_filter_php_packages : forall seen decoded out,
  filter_php_packages seen decoded = Some out ->
  exists newp, newp <> [] /\ out = LBR :: join COMMA (map pkg_bytes newp) ++ [RBR] /\
               JsonT (JArr (map pkg_tree newp)) out /\ HasShape shape_pkg_list out.
Proof. exact filter_php_packages_valid. Qed.
Print Assumptions C08_filter_php_packages.

(* update_loaded_modules as harvested (filterPhpPackages, then PhpPackages.CollectorJSON): whenever a body
   is sent it is [Jars, [[name, version, {}], ...]] -- unconditionally, since the agent's bytes are
   decoded and re-encoded. *)
Theorem C08_pkg_payload : forall seen num_seen decoded body,
  pkg_harvest_payload seen num_seen decoded = Some body -> HasShape shape_pkg body.
Proof. exact pkg_harvest_payload_valid. Qed.
Print Assumptions C08_pkg_payload.

(* PhpPackages.CollectorJSON around raw data (no filtering): valid whenever the data is a JSON text. *)
Theorem C08_pkg_payload_raw : forall num_seen data,
  (forall d, data = Some d -> JsonValue d) ->
  HasShape (STuple [SStrLit k_Jars; SAny]) (pkg_payload num_seen data).
Proof. exact pkg_payload_valid. Qed.
Print Assumptions C08_pkg_payload_raw.

(* EncodePayload (preconnect / connect): the newline written by json.Encoder is replaced by the closing
   bracket; the body is the one-element array around the encoded object; an encoder error gives no body. *)
Theorem C08_connect_payload : forall j ms, JsonT (JObj ms) j ->
  exists body, encode_payload (Some j) = Some body /\ HasShape shape_connect body.
Proof. exact connect_payload_valid. Qed.
Print Assumptions C08_connect_payload.

Theorem C08_encode_payload_bracket : forall j t, JsonT t j ->
  exists body, encode_payload (Some j) = Some body /\ body = LBR :: j ++ [RBR] /\ JsonT (JArr [t]) body.
Proof. exact encode_payload_valid. Qed.
Print Assumptions C08_encode_payload_bracket.

(* JSONString.MarshalJSON: nil gives null, anything else is passed through unchanged. *)
Theorem C08_json_string_passthrough : forall js,
  (forall d, js = Some d -> JsonValue d) -> JsonValue (json_string_marshal js).
Proof. exact json_string_marshal_valid. Qed.
Print Assumptions C08_json_string_passthrough.
