(* TriggerThms.v -- the concurrency theorems of C12 for the two configurations that exist in the code:
   one trigger (triggerBuilder(HarvestAll, 60 s)) and six triggers with the broadcast goroutine. *)
From Coq Require Import NArith PArith List Bool Lia.
From Verif Require Import TriggerLts TriggerLtsProofs TriggerEnum TriggerMonitor.
Import ListNotations.

Definition code_cfg (c : tcfg) : Prop := c = cfg1 \/ c = cfg6.

Lemma code_cfg_checked c : code_cfg c -> exists fuel, check_all c fuel = true.
Proof. intros [->| ->]; [exists 100; exact check_all_cfg1|exists 200; exact check_all_cfg6]. Qed.

Lemma no_deadlock c : code_cfg c -> forall s, treach c s -> is_final s = false ->
  (exists l s', tstep c s l s') /\
  (close_started s = true -> exists l s', tstep c s l s' /\ is_env l = false).
Proof. intros Hc. destruct (code_cfg_checked c Hc) as [fuel H]. apply (live c fuel H). Qed.

Lemma close_terminates c : code_cfg c -> forall s, treach c s ->
  (* no panic: no send on a closed channel, no second close *)
  (crashed s = false /\ forall l s', tstep c s l s' -> is_send_on_closed l = false /\ crashed s' = false) /\
  (close_started s = true ->
     (* every transition that is not a tick / new work for the processor lowers the rank *)
     (forall l s', tstep c s l s' -> is_env l = false -> (rank c s' < rank c s)%N) /\
     (* so any sequence of such transitions is bounded by the rank and stays in the closing phase *)
     (forall tr s', psteps c s tr s' -> (N.of_nat (length tr) + rank c s' <= rank c s)%N) /\
     (* and it can be extended to a state where every goroutine has returned and both channels are closed (once) *)
     (exists tr s', psteps c s tr s' /\ is_final s' = true /\
        trig_closed s' = true /\ cancel_closed s' = true /\ crashed s' = false /\ goroutines_gone s' = true)).
Proof.
  intros Hc s Hr. destruct (code_cfg_checked c Hc) as [fuel H]. split; [apply (safe c fuel H s Hr)|].
  intros Hcs. split; [|split].
  - intros l s' Hst He. apply (rank_decreases c fuel H s l s' Hr Hcs Hst He).
  - intros tr s' Hp. apply (psteps_bounded c fuel H s tr s' Hr Hcs Hp).
  - destruct (close_terminates_gen c fuel H s Hr Hcs) as (tr & s' & Hp & Hf).
    exists tr, s'. split; [exact Hp|]. split; [exact Hf|]. apply final_closed_once. exact Hf.
Qed.

Lemma processor_never_waits c : code_cfg c -> forall s, treach c s ->
  ps s <> PW /\ (close_started s = false -> exists s', tstep c s StartClose s' /\ ps s' = ps s).
Proof. intros Hc. destruct (code_cfg_checked c Hc) as [fuel H]. apply (proc c fuel H). Qed.

(* the variant with a synchronous Close: the processor can get stuck for ever *)
Lemma sync_close_can_block c : code_cfg c ->
  exists s, treach (sync_of c) s /\ ps s = PW /\ is_final s = false /\
            forall l s', tstep (sync_of c) s l s' -> is_env l = true.
Proof.
  assert (G : forall cc tr, match trun cc (tinit cc) tr with Some s => processor_stuck cc s | None => false end = true ->
              exists s, treach cc s /\ ps s = PW /\ is_final s = false /\
                        forall l s', tstep cc s l s' -> is_env l = true).
  { intros cc tr H. destruct (trun cc (tinit cc) tr) as [s|] eqn:E; [|discriminate].
    exists s. split; [eapply trun_reach; [apply tr_init|exact E]|].
    unfold processor_stuck in H. apply andb_prop in H. destruct H as [H H3].
    apply andb_prop in H. destruct H as [H1 H2]. repeat split.
    - destruct (ps s); try discriminate; reflexivity.
    - apply negb_true_iff. exact H2.
    - intros l s' Hst. rewrite forallb_forall in H3. apply (H3 (l, s')). apply tenabled_iff. exact Hst. }
  intros [->| ->]; [apply (G (sync_of cfg1) sync_witness1 sync_stuck1)|apply (G (sync_of cfg6) sync_witness6 sync_stuck6)].
Qed.

(* non-vacuity: states after Close has started are reachable, e.g. with a tick in flight and a busy processor *)
Example ex_closing_state : exists s, treach cfg6 s /\ close_started s = true /\ is_final s = false /\ ps s = PB.
Proof.
  destruct (trun cfg6 (tinit cfg6) [PBusy; Tick 2; TakeTick 2; Deliver 2; Tick 4; TakeTick 4; StartClose; BCancel]) as [s|] eqn:E.
  - exists s. split; [eapply trun_reach; [apply tr_init|exact E]|].
    vm_compute in E. inversion E; subst. repeat split.
  - vm_compute in E. discriminate.
Qed.

(* non-vacuity of the trace-inclusion machinery and of the harness monitor: a run with a tick in flight while
   Close starts and a busy processor is accepted by the LTS and passes the monitor; a run in which a harvest
   arrives without a tick is rejected by both *)
Definition ex_events : list hev :=
  [HTick 0 true; HTick 3 true; HTick 3 true; HTick 3 false; HRecv 3; HClose; HCloseDone false; HRecv 3; HRecv 0;
   HRecvNone; HCloseDone true; HGone true].
Example ex_accepts :
  taccepts cfg6 (lts_events ex_events) = 0%N /\ lts_monitor ex_events = true /\
  taccepts cfg6 (lts_events [HRecv 2; HClose; HCloseDone true; HGone true]) <> 0%N /\
  lts_monitor [HRecv 2; HClose; HCloseDone true; HGone true] = false.
Proof. vm_compute. repeat split; discriminate. Qed.
