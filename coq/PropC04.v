(* C04 -- applications are isolated from each other.  Statements only. *)
From Coq Require Import NArith List.
From Verif Require Import Processor ProcInv ProcInv2.
Import ListNotations.

(* Data submitted under a run id the daemon does not hold is not accepted anywhere: the state is unchanged. *)
Theorem C04_unknown_run_ignored : forall s run t,
  lookupN run (p_runs s) = None -> txn_data s run t = (s, []).
Proof. intros s run t H. unfold txn_data. rewrite H. reflexivity. Qed.
Print Assumptions C04_unknown_run_ignored.
