(* C04 -- applications are isolated from each other.  Statements only. *)
From Coq Require Import NArith List.
From Verif Require Import Processor ProcInv ProcInv2.
Import ListNotations.

(* Data submitted under a run id the daemon does not hold is not accepted anywhere: the state is unchanged. *)
Theorem C04_unknown_run_ignored : forall s run t,
  lookupN run (p_runs s) = None -> txn_data s run t = (s, []).
Proof. intros s run t H. unfold txn_data. rewrite H. reflexivity. Qed.
Print Assumptions C04_unknown_run_ignored.

From Verif Require Import ProcInv4 ProcInv5 AppKey.
From Verif Require Lasp LaspProofs.

(* Provenance.  `emitted ops q`: request q is in the output of some step of the history (final-flush requests
   included); `submitted ops t r`: the history contains a transaction carrying tag t under run id r, processed
   at a moment when the daemon held run r (and had not stopped).
   Every request ever emitted for run r carries only tags that were submitted under run id r while r was
   held: data under an unknown, stale or foreign run id is in no payload. *)
Theorem C04_payload_tags : forall ops q t,
  emitted ops q -> In t (tags (rq_items q)) -> submitted ops t (rq_run q).
Proof. exact payload_tags. Qed.
Print Assumptions C04_payload_tags.

(* The invariant behind it, for every reachable state: the data held in app harvest a was submitted under
   a's run id, the data of an outstanding request under the request's run id. *)
Theorem C04_held_provenance : forall ops a c t,
  let s := fst (run ops) in
  a < length (p_ahs s) -> In t (tags (hb s a c)) -> submitted ops t (ah_run (get_ah s a)).
Proof. exact held_provenance. Qed.
Print Assumptions C04_held_provenance.

Theorem C04_inflight_provenance : forall ops q t,
  In q (p_reqs (fst (run ops))) -> In t (tags (rq_items q)) -> submitted ops t (rq_run q).
Proof. exact inflight_provenance. Qed.
Print Assumptions C04_inflight_provenance.

(* Isolation between applications: a request carries the key (license, agent identification) of the very
   application its data was submitted to -- PROVIDED the collector never issues the same run id in two
   connect replies (`distinct_runs`: the run ids of all ConnOk answers of the history are pairwise distinct). *)
Theorem C04_payload_owner_partial : forall ops q t,
  distinct_runs ops -> emitted ops q -> In t (tags (rq_items q)) ->
  submitted_to ops t (rq_run q) (rq_owner q).
Proof. exact payload_owner. Qed.
Print Assumptions C04_payload_owner_partial.

(* Without that hypothesis it is false: when the collector issues run id 7 to a second application, the first
   application's harvest keeps running under id 7; a failed payload of it is merged into "the harvest of run 7",
   now the second application's, and is then sent with the second application's key (history `reissued`). *)
Theorem C04_payload_owner_refuted :
  exists ops q t, emitted ops q /\ In t (tags (rq_items q)) /\ ~ submitted_to ops t (rq_run q) (rq_owner q).
Proof. exact payload_owner_refuted. Qed.
Print Assumptions C04_payload_owner_refuted.

(* Request parameters.  `captured ops e`: e is the context (owner key, collector host, request headers, run id:
   ctx_of) computed from app harvest a and ITS application object when a tick for a -- or the final flush of a
   run denoting a -- of the history was processed.  Every harvest / data-usage request ever emitted (by a tick,
   by the completion of a tick's wait group, by the final flush) carries exactly the parameters of such a
   context; the requests of the connect hand-shake carry no data. *)
Theorem C04_request_params : forall ops q,
  emitted ops q ->
  (is_handshake q /\ rq_items q = []) \/
  (is_data q /\ exists e, captured ops e /\
     rq_owner q = e_owner e /\ rq_host q = e_host e /\ rq_hdr q = e_hdr e /\ rq_run q = e_run e).
Proof. exact request_params. Qed.
Print Assumptions C04_request_params.

(* ... where the context of app harvest a is: a's run id, and key / redirect host / request headers of a's own
   application object. *)
Theorem C04_context_fields : forall s a g,
  let e := ctx_of s (get_ah s a) g in
  let app := get_obj s (ah_app (get_ah s a)) in
  e_run e = ah_run (get_ah s a) /\ e_owner e = a_key app /\ e_host e = a_collector app /\
  e_hdr e = match a_reply app with Some r => cr_hdr r | None => 0%N end.
Proof. exact ctx_of_fields. Qed.
Print Assumptions C04_context_fields.

(* A preconnect request carries the key of the application object that asked, and opens an attempt with that
   key and the request's id; the connect request of an attempt carries the attempt's key and id. *)
Theorem C04_preconnect_params : forall s i q,
  In (OutReq q) (snd (consider_connect s i)) ->
  rq_kind q = RPreconnect /\ rq_owner q = a_key (get_obj s i) /\ rq_run q = 0%N /\
  exists c, p_conns (fst (consider_connect s i)) = p_conns s ++ [c] /\ ca_key c = a_key (get_obj s i) /\ ca_id c = rq_id q.
Proof. exact preconnect_params. Qed.
Print Assumptions C04_preconnect_params.

Theorem C04_connect_params : forall s n o q,
  In (OutReq q) (snd (pre_reply s n o)) ->
  exists c, nth_error (p_conns s) n = Some c /\ rq_kind q = RConnect /\ rq_owner q = ca_key c /\ rq_id q = ca_id c /\ rq_run q = 0%N.
Proof. exact connect_params. Qed.
Print Assumptions C04_connect_params.

(* Application identity (model of AppInfo.Key(), AppKey.v).  Known finding c04-policy-hash-concat: two
   descriptions that support DIFFERENT sets of security policies and agree on every other field get the same
   key, for every hash function. *)
Theorem C04_key_not_injective_refuted :
  exists i j, same_fields i j /\
    (exists n, In n (Lasp.supported_names (ai_policies i)) /\ ~ In n (Lasp.supported_names (ai_policies j))) /\
    forall sha256hex, key sha256hex i = key sha256hex j.
Proof. exact key_not_injective_refuted. Qed.
Print Assumptions C04_key_not_injective_refuted.

(* What does hold, for a hash injective on texts: keys are equal iff all other identity fields agree and the
   TEXTS presented to the hash (sorted supported names joined without separator) agree. *)
Theorem C04_key_iff_partial : forall sha256hex,
  (forall a b, sha256hex a = sha256hex b -> a = b) ->
  forall i j, key sha256hex i = key sha256hex j <->
              same_fields i j /\ Lasp.hash_preimage (ai_policies i) = Lasp.hash_preimage (ai_policies j).
Proof. exact key_iff_partial. Qed.
Print Assumptions C04_key_iff_partial.

(* The run table is consistent in every reachable state: the app harvest a run id denotes carries that run id
   (and the keys of the table are pairwise distinct, indices valid: ProcInv4.tab_inv). *)
Theorem C04_run_table_consistent : forall ops r a,
  lookupN r (p_runs (fst (run ops))) = Some a -> ah_run (get_ah (fst (run ops)) a) = r.
Proof. intros ops r a. exact (ti_run _ (tab_inv_reachable ops) r a). Qed.
Print Assumptions C04_run_table_consistent.

(* The executable decision replayed against the real daemon (AppKey.code_same, stage "appkey" of the check)
   is equality of keys. *)
Theorem C04_code_same_iff : forall i j, AppKey.code_same i j = true <-> AppKey.key (fun x => x) i = AppKey.key (fun x => x) j.
Proof. exact AppKey.code_same_iff. Qed.
Print Assumptions C04_code_same_iff.
