(* Processor.v -- executable model of the daemon's processor (daemon/internal/newrelic/processor.go,
   harvest.go, app.go, app_harvest.go, and the admission policies of the containers) at the level of
   tagged units of agent data.  Definitions only; proofs are in ProcInv*.v.

   Every unit of agent data (metric contribution, event, error, trace, slow SQL observation, package)
   carries a ghost tag.  Containers are bags of tagged items with the admission policy of the real
   container (which item is refused or displaced); the aggregation of numbers inside a metric or a
   slow SQL is the business of Metrics.v / SlowSQL.v (C07, C06), not of this model.

   Limits of this model (stated in DESIGN.md):
   - the metric table is unbounded here (no refusal at 2000 entries; C05/C07 cover the table);
   - sampling priorities / durations of items that compete in one container are assumed distinct by
     the correspondence generator (ties are decided by the heap layout, covered by C06);
   - the trace observer (span batches) is absent (C16);
   - security policies (LASP) are absent (C13);
   - collector replies arrive as explicit operations in any order. *)
From Coq Require Import NArith ZArith List Bool Lia.
From Verif.Gen Require Import Limits_gen HarvestBits_gen.
Import ListNotations.

(* ------------------------------------------------------------------ categories *)
Inductive cat := CMetrics | CCustom | CErrEv | CErrors | CSlow | CTraces | CTxnEv | CSpan | CLog | CPkgs.

Definition cat_idx (c : cat) : nat :=
  match c with CMetrics => 0 | CCustom => 1 | CErrEv => 2 | CErrors => 3 | CSlow => 4 | CTraces => 5
             | CTxnEv => 6 | CSpan => 7 | CLog => 8 | CPkgs => 9 end.
Definition cat_eqb (a b : cat) : bool := Nat.eqb (cat_idx a) (cat_idx b).

(* event categories: priority reservoirs with a negotiated capacity, retried up to 10 times *)
Definition is_event (c : cat) : bool :=
  match c with CCustom | CErrEv | CTxnEv | CSpan | CLog => true | _ => false end.
(* categories whose failed payload may be carried over *)
Definition retryable (c : cat) : bool := match c with CMetrics => true | _ => is_event c end.

(* order of considerHarvestPayload in harvestAll *)
Definition all_order : list cat := [CMetrics; CCustom; CErrEv; CErrors; CSlow; CTraces; CTxnEv; CSpan; CLog; CPkgs].
(* order in the default-data branch of harvestByType *)
Definition default_order : list cat := [CMetrics; CErrors; CSlow; CTraces; CPkgs].
(* the event branches of harvestByType, with their HarvestType bit *)
Definition event_order : list (cat * N) :=
  [(CCustom, HarvestCustomEvents); (CErrEv, HarvestErrorEvents); (CTxnEv, HarvestTxnEvents);
   (CSpan, HarvestSpanEvents); (CLog, HarvestLogEvents)].

(* ------------------------------------------------------------------ items and admission policies *)
Record item := { i_tag : N; i_prio : Z; i_key : N }.
(* i_prio: sampling priority (events, 2^20 grid, synthetics boosted by 2*2^20), error priority,
           trace duration, slow SQL max duration.
   i_key : trace pool (0 regular, 1 force-persisted, 2 synthetics), slow SQL id, package id, metric name id. *)

Fixpoint min_item (x : item) (l : list item) : item :=
  match l with
  | [] => x
  | y :: r => if (i_prio y <? i_prio x)%Z then min_item y r else min_item x r
  end.

Fixpoint remove_tag (t : N) (l : list item) : list item :=
  match l with
  | [] => []
  | y :: r => if (i_tag y =? t)%N then r else y :: remove_tag t r
  end.

Definition lenN {A} (l : list A) : N := N.of_nat (length l).

(* analyticsEvents.AddEvent: append below capacity; capacity 0 refuses; otherwise the lowest-priority
   item is displaced unless the newcomer is strictly lower.  Returns (new bag, refused/displaced). *)
Definition ins_event (cap : N) (bag : list item) (x : item) : list item * list item :=
  if (lenN bag <? cap)%N then (bag ++ [x], [])
  else match bag with
       | [] => (bag, [x])
       | y :: r => let m := min_item y r in
                   if (i_prio x <? i_prio m)%Z then (bag, [x])
                   else (remove_tag (i_tag m) bag ++ [x], [m])
       end.

(* ErrorHeap.AddError: at capacity an error of equal or lower priority than the lowest is refused *)
Definition ins_error (cap : N) (bag : list item) (x : item) : list item * list item :=
  if (lenN bag <? cap)%N then (bag ++ [x], [])
  else match bag with
       | [] => (bag, [x])
       | y :: r => let m := min_item y r in
                   if (i_prio x <=? i_prio m)%Z then (bag, [x])
                   else (remove_tag (i_tag m) bag ++ [x], [m])
       end.

(* TxnTraces: three pools with capacities 1 / 10 / 20 *)
Definition pool_cap (k : N) : N :=
  (if k =? 0 then Z.to_N MaxRegularTraces else if k =? 1 then Z.to_N MaxForcePersistTraces
   else Z.to_N MaxSyntheticsTraces)%N.
Definition in_pool (k : N) (y : item) : bool := (i_key y =? k)%N.
Definition ins_trace (bag : list item) (x : item) : list item * list item :=
  let pool := filter (in_pool (i_key x)) bag in
  if (lenN pool <? pool_cap (i_key x))%N then (bag ++ [x], [])
  else match pool with
       | [] => (bag, [x])
       | y :: r => let m := min_item y r in
                   if (i_prio x <? i_prio m)%Z then (bag, [x])
                   else (remove_tag (i_tag m) bag ++ [x], [m])
       end.

(* SlowSQLs.Observe: observations of a retained id are merged; a new id is appended below capacity;
   at capacity it replaces the statement with the smallest maximum if that is strictly smaller. *)
Fixpoint keys_of (l : list item) (seen : list N) : list N :=
  match l with
  | [] => []
  | y :: r => if existsb (N.eqb (i_key y)) seen then keys_of r seen
              else i_key y :: keys_of r (i_key y :: seen)
  end.
Definition entry_max (bag : list item) (k : N) : Z :=
  fold_left (fun acc y => if (i_key y =? k)%N then Z.max acc (i_prio y) else acc) bag 0%Z.
Fixpoint fastest_key (bag : list item) (k : N) (ks : list N) : N :=
  match ks with
  | [] => k
  | k' :: r => if (entry_max bag k' <? entry_max bag k)%Z then fastest_key bag k' r else fastest_key bag k r
  end.
Definition ins_slow (cap : N) (bag : list item) (x : item) : list item * list item :=
  if existsb (fun y => (i_key y =? i_key x)%N) bag then (bag ++ [x], [])
  else let ks := keys_of bag [] in
       if (lenN ks <? cap)%N then (bag ++ [x], [])
       else match ks with
            | [] => (bag, [x])
            | k :: r => let f := fastest_key bag k r in
                        if (entry_max bag f <? i_prio x)%Z
                        then (filter (fun y => negb (i_key y =? f)%N) bag ++ [x],
                              filter (fun y => (i_key y =? f)%N) bag)
                        else (bag, [x])
            end.

(* one policy per category; packages are handled as whole lists (overwrite), see aggregate *)
Definition insert (c : cat) (cap : N) (bag : list item) (x : item) : list item * list item :=
  match c with
  | CMetrics => (bag ++ [x], [])
  | CErrors => ins_error (Z.to_N MaxErrors) bag x
  | CSlow => ins_slow (Z.to_N MaxSlowSQLs) bag x
  | CTraces => ins_trace bag x
  | CPkgs => (bag ++ [x], [])
  | _ => ins_event cap bag x
  end.

(* ------------------------------------------------------------------ harvest *)
Record harvest := {
  h_bag : cat -> list item;
  h_seen : cat -> N;          (* numSeen of the event reservoirs *)
  h_failed : cat -> N;        (* failedHarvests of the metric table / event reservoirs *)
  h_cap : cat -> N;           (* capacity of the event reservoirs *)
  h_internal : bool;          (* the metric table holds daemon-made (supportability / usage) metrics *)
  h_pids : bool;              (* pidSet non-empty *)
  h_haspkgs : bool            (* PhpPackages.data non-nil *)
}.

Definition upd {A} (f : cat -> A) (c : cat) (v : A) : cat -> A := fun c' => if cat_eqb c' c then v else f c'.

Definition new_harvest (caps : cat -> N) : harvest :=
  {| h_bag := fun _ => []; h_seen := fun _ => 0%N; h_failed := fun _ => 0%N; h_cap := caps;
     h_internal := false; h_pids := false; h_haspkgs := false |}.

Definition bag_empty (h : harvest) (c : cat) : bool := match h_bag h c with [] => true | _ => false end.

(* Harvest.empty() *)
Definition harvest_empty (h : harvest) : bool :=
  negb (h_pids h) && forallb (bag_empty h) [CCustom; CErrEv; CSpan; CErrors; CMetrics; CSlow; CTxnEv; CTraces; CLog]
  && negb (h_internal h) && negb (h_haspkgs h).

Definition set_bag (h : harvest) (c : cat) (b : list item) : harvest :=
  {| h_bag := upd (h_bag h) c b; h_seen := h_seen h; h_failed := h_failed h; h_cap := h_cap h;
     h_internal := h_internal h; h_pids := h_pids h; h_haspkgs := h_haspkgs h |}.
Definition set_seen (h : harvest) (c : cat) (n : N) : harvest :=
  {| h_bag := h_bag h; h_seen := upd (h_seen h) c n; h_failed := h_failed h; h_cap := h_cap h;
     h_internal := h_internal h; h_pids := h_pids h; h_haspkgs := h_haspkgs h |}.
Definition set_failed (h : harvest) (c : cat) (n : N) : harvest :=
  {| h_bag := h_bag h; h_seen := h_seen h; h_failed := upd (h_failed h) c n; h_cap := h_cap h;
     h_internal := h_internal h; h_pids := h_pids h; h_haspkgs := h_haspkgs h |}.
Definition set_cap (h : harvest) (c : cat) (n : N) : harvest :=
  {| h_bag := h_bag h; h_seen := h_seen h; h_failed := h_failed h; h_cap := upd (h_cap h) c n;
     h_internal := h_internal h; h_pids := h_pids h; h_haspkgs := h_haspkgs h |}.
Definition set_flags (h : harvest) (internal pids haspkgs : bool) : harvest :=
  {| h_bag := h_bag h; h_seen := h_seen h; h_failed := h_failed h; h_cap := h_cap h;
     h_internal := internal; h_pids := pids; h_haspkgs := haspkgs |}.

(* add one item to its container: returns the harvest and the refused/displaced items *)
Definition add_item (h : harvest) (c : cat) (x : item) : harvest * list item :=
  let '(b, dropped) := insert c (h_cap h c) (h_bag h c) x in
  let h1 := set_bag h c b in
  ((if is_event c then set_seen h1 c (h_seen h c + 1)%N else h1), dropped).

Fixpoint add_items (h : harvest) (l : list (cat * item)) : harvest * list item :=
  match l with
  | [] => (h, [])
  | (c, x) :: r => let '(h1, d1) := add_item h c x in
                   let '(h2, d2) := add_items h1 r in (h2, d1 ++ d2)
  end.

(* a decoded transaction: items per container in aggregation order, and at most one package list *)
Record txn := { t_items : list (cat * item); t_pkgs : option (list item) }.

(* FlatTxn.AggregateInto: always records supportability metrics and the pid.
   Returns the harvest, the items refused or displaced at capacity, and the overwritten package list. *)
Definition aggregate (h : harvest) (t : txn) : harvest * list item * list item :=
  let '(h1, d1) := add_items h (t_items t) in
  let h2 := set_flags h1 true true (h_haspkgs h1) in
  match t_pkgs t with
  | None => (h2, d1, [])
  | Some pk => (set_flags (set_bag h2 CPkgs pk) true true true, d1, h_bag h2 CPkgs)  (* SetPhpPackages overwrites *)
  end.

(* ------------------------------------------------------------------ applications, runs *)
Inductive astate := SUnknown | SConnected | SDisconnected | SRestart | SInvalidLicense.
Definition astate_eqb (a b : astate) : bool :=
  match a, b with
  | SUnknown, SUnknown | SConnected, SConnected | SDisconnected, SDisconnected
  | SRestart, SRestart | SInvalidLicense, SInvalidLicense => true
  | _, _ => false
  end.

(* what the daemon keeps of a successful connect reply *)
Record creply := {
  cr_run : N;                 (* agent_run_id *)
  cr_caps : cat -> N;         (* effective event limits *)
  cr_hdr : N                  (* identifies request_headers_map *)
}.

Record appobj := {
  a_key : N;                  (* AppKey (license, name, ...): an abstract identity *)
  a_dt : bool;                (* distributed tracing enabled: large txn event payloads are split *)
  a_state : astate;
  a_last_attempt : option Z;  (* lastConnectAttempt, None = zero time *)
  a_last_activity : Z;
  a_reply : option creply;
  a_collector : N;            (* redirect host used for harvest requests *)
  a_seen_pkgs : list N        (* packages already reported for this application *)
}.

Record apph := { ah_app : nat; ah_run : N; ah_h : harvest }.

(* ------------------------------------------------------------------ requests *)
Inductive rkind := RPreconnect | RConnect | RHarvest (c : cat) | RUsage.

Record request := {
  rq_id : nat;
  rq_kind : rkind;
  rq_owner : N;               (* key of the application whose license / agent identification is used *)
  rq_host : N;                (* collector host: 0 = preconnect host, else redirect host id *)
  rq_hdr : N;                 (* request headers (0 = none) *)
  rq_run : N;                 (* run id in the URL (0 for preconnect/connect) *)
  rq_items : list item;
  rq_seen : N;
  rq_failed : N;
  rq_cap : N;
  rq_internal : bool;
  rq_group : nat
}.

Inductive fail := FRetry | F409 | F401 | F410 | FOther | FTransport.
Inductive outcome := OOk | OFail (f : fail).
Inductive pre_outcome := PreOk (host : N) | PreFail (f : fail) | PreMalformed.
Inductive conn_outcome := ConnOk (r : creply) | ConnFail (f : fail) | ConnMalformed | ConnNoRunId.

Inductive stage := StPre | StConn (host : N).
Record cattempt := { ca_id : nat; ca_key : N; ca_stage : stage }.

Inductive reason := RCapacity | ROverwritten | RSeenPkg | RNotRetryable | RGivenUp | RRunGone | RFinalFailed.

(* harvestArgs: the parameters of a harvest are captured when the tick is processed *)
Record emit_ctx := { e_app : nat; e_owner : N; e_host : N; e_hdr : N; e_run : N; e_dt : bool; e_group : nat }.

Record group := { g_id : nat; g_pending : nat; g_usage : bool; g_ctx : emit_ctx }.

Record proc := {
  p_apps : list (N * nat);            (* AppKey -> application object *)
  p_objs : list appobj;               (* all application objects ever created (index = object id) *)
  p_runs : list (N * nat);            (* run id -> app harvest (connected applications only) *)
  p_ahs : list apph;                  (* all app harvests ever created, closed ones included *)
  p_reqs : list request;              (* harvest requests awaiting their reply *)
  p_conns : list cattempt;            (* connect attempts in progress *)
  p_groups : list group;              (* data-usage wait groups *)
  p_ubuf : nat;                       (* entries in the shared data-usage buffer (max 25) *)
  p_now : Z;                          (* virtual clock, seconds *)
  p_next : nat;                       (* next request / attempt / group id *)
  p_quit : bool;
  (* ghost accounting *)
  g_offered : list N;                 (* tags accepted into a run's harvest *)
  g_acked : list N;                   (* tags in acknowledged requests *)
  g_dropped : list (N * reason);      (* tags given up, with the reason *)
  g_sent : list N                     (* tags of every request emitted (one occurrence per request) *)
}.

Definition init : proc :=
  {| p_apps := []; p_objs := []; p_runs := []; p_ahs := []; p_reqs := []; p_conns := []; p_groups := [];
     p_ubuf := 0; p_now := 0%Z; p_next := 1; p_quit := false;
     g_offered := []; g_acked := []; g_dropped := []; g_sent := [] |}.

(* observable outputs of a step *)
Inductive out :=
| OutReq (r : request)
| OutAppReply (valid : bool) (st : astate)
| OutConnectedRun (r : N)      (* with a "connected" answer: the run id in the connect reply handed to the agent *)
| OutExited.

(* ------------------------------------------------------------------ small table helpers *)
Fixpoint lookupN {A} (k : N) (l : list (N * A)) : option A :=
  match l with [] => None | (k', v) :: r => if (k' =? k)%N then Some v else lookupN k r end.
Fixpoint removeN {A} (k : N) (l : list (N * A)) : list (N * A) :=
  match l with [] => [] | (k', v) :: r => if (k' =? k)%N then removeN k r else (k', v) :: removeN k r end.
Definition setN {A} (k : N) (v : A) (l : list (N * A)) : list (N * A) := (k, v) :: removeN k l.

Fixpoint set_nth {A} (n : nat) (v : A) (l : list A) : list A :=
  match l, n with
  | [], _ => []
  | _ :: r, O => v :: r
  | x :: r, S n' => x :: set_nth n' v r
  end.

Definition tags (l : list item) : list N := map i_tag l.

(* record updates *)
Definition with_objs (s : proc) (v : list appobj) : proc :=
  {| p_apps := p_apps s; p_objs := v; p_runs := p_runs s; p_ahs := p_ahs s; p_reqs := p_reqs s; p_conns := p_conns s;
     p_groups := p_groups s; p_ubuf := p_ubuf s; p_now := p_now s; p_next := p_next s; p_quit := p_quit s;
     g_offered := g_offered s; g_acked := g_acked s; g_dropped := g_dropped s; g_sent := g_sent s |}.
Definition with_apps (s : proc) (v : list (N * nat)) : proc :=
  {| p_apps := v; p_objs := p_objs s; p_runs := p_runs s; p_ahs := p_ahs s; p_reqs := p_reqs s; p_conns := p_conns s;
     p_groups := p_groups s; p_ubuf := p_ubuf s; p_now := p_now s; p_next := p_next s; p_quit := p_quit s;
     g_offered := g_offered s; g_acked := g_acked s; g_dropped := g_dropped s; g_sent := g_sent s |}.
Definition with_runs (s : proc) (v : list (N * nat)) : proc :=
  {| p_apps := p_apps s; p_objs := p_objs s; p_runs := v; p_ahs := p_ahs s; p_reqs := p_reqs s; p_conns := p_conns s;
     p_groups := p_groups s; p_ubuf := p_ubuf s; p_now := p_now s; p_next := p_next s; p_quit := p_quit s;
     g_offered := g_offered s; g_acked := g_acked s; g_dropped := g_dropped s; g_sent := g_sent s |}.
Definition with_ahs (s : proc) (v : list apph) : proc :=
  {| p_apps := p_apps s; p_objs := p_objs s; p_runs := p_runs s; p_ahs := v; p_reqs := p_reqs s; p_conns := p_conns s;
     p_groups := p_groups s; p_ubuf := p_ubuf s; p_now := p_now s; p_next := p_next s; p_quit := p_quit s;
     g_offered := g_offered s; g_acked := g_acked s; g_dropped := g_dropped s; g_sent := g_sent s |}.
Definition with_reqs (s : proc) (v : list request) : proc :=
  {| p_apps := p_apps s; p_objs := p_objs s; p_runs := p_runs s; p_ahs := p_ahs s; p_reqs := v; p_conns := p_conns s;
     p_groups := p_groups s; p_ubuf := p_ubuf s; p_now := p_now s; p_next := p_next s; p_quit := p_quit s;
     g_offered := g_offered s; g_acked := g_acked s; g_dropped := g_dropped s; g_sent := g_sent s |}.
Definition with_conns (s : proc) (v : list cattempt) : proc :=
  {| p_apps := p_apps s; p_objs := p_objs s; p_runs := p_runs s; p_ahs := p_ahs s; p_reqs := p_reqs s; p_conns := v;
     p_groups := p_groups s; p_ubuf := p_ubuf s; p_now := p_now s; p_next := p_next s; p_quit := p_quit s;
     g_offered := g_offered s; g_acked := g_acked s; g_dropped := g_dropped s; g_sent := g_sent s |}.
Definition with_groups (s : proc) (v : list group) : proc :=
  {| p_apps := p_apps s; p_objs := p_objs s; p_runs := p_runs s; p_ahs := p_ahs s; p_reqs := p_reqs s; p_conns := p_conns s;
     p_groups := v; p_ubuf := p_ubuf s; p_now := p_now s; p_next := p_next s; p_quit := p_quit s;
     g_offered := g_offered s; g_acked := g_acked s; g_dropped := g_dropped s; g_sent := g_sent s |}.
Definition with_ubuf (s : proc) (v : nat) : proc :=
  {| p_apps := p_apps s; p_objs := p_objs s; p_runs := p_runs s; p_ahs := p_ahs s; p_reqs := p_reqs s; p_conns := p_conns s;
     p_groups := p_groups s; p_ubuf := v; p_now := p_now s; p_next := p_next s; p_quit := p_quit s;
     g_offered := g_offered s; g_acked := g_acked s; g_dropped := g_dropped s; g_sent := g_sent s |}.
Definition with_now (s : proc) (v : Z) : proc :=
  {| p_apps := p_apps s; p_objs := p_objs s; p_runs := p_runs s; p_ahs := p_ahs s; p_reqs := p_reqs s; p_conns := p_conns s;
     p_groups := p_groups s; p_ubuf := p_ubuf s; p_now := v; p_next := p_next s; p_quit := p_quit s;
     g_offered := g_offered s; g_acked := g_acked s; g_dropped := g_dropped s; g_sent := g_sent s |}.
Definition with_next (s : proc) (v : nat) : proc :=
  {| p_apps := p_apps s; p_objs := p_objs s; p_runs := p_runs s; p_ahs := p_ahs s; p_reqs := p_reqs s; p_conns := p_conns s;
     p_groups := p_groups s; p_ubuf := p_ubuf s; p_now := p_now s; p_next := v; p_quit := p_quit s;
     g_offered := g_offered s; g_acked := g_acked s; g_dropped := g_dropped s; g_sent := g_sent s |}.
Definition with_quit (s : proc) (v : bool) : proc :=
  {| p_apps := p_apps s; p_objs := p_objs s; p_runs := p_runs s; p_ahs := p_ahs s; p_reqs := p_reqs s; p_conns := p_conns s;
     p_groups := p_groups s; p_ubuf := p_ubuf s; p_now := p_now s; p_next := p_next s; p_quit := v;
     g_offered := g_offered s; g_acked := g_acked s; g_dropped := g_dropped s; g_sent := g_sent s |}.
Definition ghost_offer (s : proc) (l : list N) : proc :=
  {| p_apps := p_apps s; p_objs := p_objs s; p_runs := p_runs s; p_ahs := p_ahs s; p_reqs := p_reqs s; p_conns := p_conns s;
     p_groups := p_groups s; p_ubuf := p_ubuf s; p_now := p_now s; p_next := p_next s; p_quit := p_quit s;
     g_offered := g_offered s ++ l; g_acked := g_acked s; g_dropped := g_dropped s; g_sent := g_sent s |}.
Definition ghost_ack (s : proc) (l : list N) : proc :=
  {| p_apps := p_apps s; p_objs := p_objs s; p_runs := p_runs s; p_ahs := p_ahs s; p_reqs := p_reqs s; p_conns := p_conns s;
     p_groups := p_groups s; p_ubuf := p_ubuf s; p_now := p_now s; p_next := p_next s; p_quit := p_quit s;
     g_offered := g_offered s; g_acked := g_acked s ++ l; g_dropped := g_dropped s; g_sent := g_sent s |}.
Definition ghost_drop (s : proc) (why : reason) (l : list N) : proc :=
  {| p_apps := p_apps s; p_objs := p_objs s; p_runs := p_runs s; p_ahs := p_ahs s; p_reqs := p_reqs s; p_conns := p_conns s;
     p_groups := p_groups s; p_ubuf := p_ubuf s; p_now := p_now s; p_next := p_next s; p_quit := p_quit s;
     g_offered := g_offered s; g_acked := g_acked s; g_dropped := g_dropped s ++ map (fun t => (t, why)) l;
     g_sent := g_sent s |}.
Definition ghost_sent (s : proc) (l : list N) : proc :=
  {| p_apps := p_apps s; p_objs := p_objs s; p_runs := p_runs s; p_ahs := p_ahs s; p_reqs := p_reqs s; p_conns := p_conns s;
     p_groups := p_groups s; p_ubuf := p_ubuf s; p_now := p_now s; p_next := p_next s; p_quit := p_quit s;
     g_offered := g_offered s; g_acked := g_acked s; g_dropped := g_dropped s; g_sent := g_sent s ++ l |}.

Definition dummy_app : appobj :=
  {| a_key := 0; a_dt := false; a_state := SUnknown; a_last_attempt := None; a_last_activity := 0%Z;
     a_reply := None; a_collector := 0; a_seen_pkgs := [] |}.
Definition get_obj (s : proc) (i : nat) : appobj := nth i (p_objs s) dummy_app.
Definition put_obj (s : proc) (i : nat) (a : appobj) : proc := with_objs s (set_nth i a (p_objs s)).

Definition set_state (a : appobj) (st : astate) : appobj :=
  {| a_key := a_key a; a_dt := a_dt a; a_state := st; a_last_attempt := a_last_attempt a;
     a_last_activity := a_last_activity a; a_reply := a_reply a; a_collector := a_collector a;
     a_seen_pkgs := a_seen_pkgs a |}.
Definition set_attempt (a : appobj) (t : Z) : appobj :=
  {| a_key := a_key a; a_dt := a_dt a; a_state := a_state a; a_last_attempt := Some t;
     a_last_activity := a_last_activity a; a_reply := a_reply a; a_collector := a_collector a;
     a_seen_pkgs := a_seen_pkgs a |}.
Definition set_activity (a : appobj) (t : Z) : appobj :=
  {| a_key := a_key a; a_dt := a_dt a; a_state := a_state a; a_last_attempt := a_last_attempt a;
     a_last_activity := t; a_reply := a_reply a; a_collector := a_collector a; a_seen_pkgs := a_seen_pkgs a |}.
Definition set_connected (a : appobj) (r : creply) (host : N) : appobj :=
  {| a_key := a_key a; a_dt := a_dt a; a_state := SConnected; a_last_attempt := a_last_attempt a;
     a_last_activity := a_last_activity a; a_reply := Some r; a_collector := host; a_seen_pkgs := a_seen_pkgs a |}.
Definition set_seen_pkgs (a : appobj) (l : list N) : appobj :=
  {| a_key := a_key a; a_dt := a_dt a; a_state := a_state a; a_last_attempt := a_last_attempt a;
     a_last_activity := a_last_activity a; a_reply := a_reply a; a_collector := a_collector a; a_seen_pkgs := l |}.

Definition dummy_ah : apph := {| ah_app := 0; ah_run := 0; ah_h := new_harvest (fun _ => 0%N) |}.
Definition get_ah (s : proc) (i : nat) : apph := nth i (p_ahs s) dummy_ah.
Definition put_ah_h (s : proc) (i : nat) (h : harvest) : proc :=
  let ah := get_ah s i in
  with_ahs s (set_nth i {| ah_app := ah_app ah; ah_run := ah_run ah; ah_h := h |} (p_ahs s)).

(* ------------------------------------------------------------------ connecting *)
Definition backoff : Z := AppConnectAttemptBackoff / 1000000000.     (* seconds *)
Definition app_timeout : Z := DefaultAppTimeout / 1000000000.

(* App.NeedsConnectAttempt *)
Definition needs_connect (a : appobj) (now : Z) : bool :=
  astate_eqb (a_state a) SUnknown &&
  match a_last_attempt a with None => true | Some t => (backoff <=? now - t)%Z end.

Definition mk_req (id : nat) (k : rkind) (owner host hdr run : N) (items : list item)
           (seen failed cap : N) (internal : bool) (grp : nat) : request :=
  {| rq_id := id; rq_kind := k; rq_owner := owner; rq_host := host; rq_hdr := hdr; rq_run := run;
     rq_items := items; rq_seen := seen; rq_failed := failed; rq_cap := cap; rq_internal := internal;
     rq_group := grp |}.

(* Processor.considerConnect on application object i *)
Definition consider_connect (s : proc) (i : nat) : proc * list out :=
  let a := get_obj s i in
  if needs_connect a (p_now s) then
    let s1 := put_obj s i (set_attempt a (p_now s)) in
    let id := p_next s1 in
    let s2 := with_next (with_conns s1 (p_conns s1 ++ [{| ca_id := id; ca_key := a_key a; ca_stage := StPre |}])) (S id) in
    (s2, [OutReq (mk_req id RPreconnect (a_key a) 0 0 0 [] 0 0 0 false 0)])
  else (s, []).

(* a connected application's answer carries its raw connect reply (which names the run) *)
Definition connected_run (a : appobj) : list out :=
  match a_state a, a_reply a with
  | SConnected, Some r => [OutConnectedRun (cr_run r)]
  | _, _ => []
  end.

(* Processor.processAppInfo *)
Definition app_limit : nat := Z.to_nat AppLimit.
Definition app_info (s : proc) (key : N) (dt : bool) (id : option N) : proc * list out :=
  let valid := match id with Some r => match lookupN r (p_runs s) with Some _ => true | None => false end | None => false end in
  if valid then (s, [OutAppReply true SUnknown])
  else match lookupN key (p_apps s) with
       | Some i =>
           let s1 := put_obj s i (set_activity (get_obj s i) (p_now s)) in
           let st := a_state (get_obj s1 i) in
           let '(s2, o) := consider_connect s1 i in
           (s2, OutAppReply false st :: connected_run (get_obj s1 i) ++ o)
       | None =>
           if Nat.leb app_limit (length (p_apps s)) then (s, [OutAppReply false SUnknown])
           else
             let i := length (p_objs s) in
             let a := {| a_key := key; a_dt := dt; a_state := SUnknown; a_last_attempt := None;
                         a_last_activity := p_now s; a_reply := None; a_collector := 0; a_seen_pkgs := [] |} in
             let s1 := with_apps (with_objs s (p_objs s ++ [a])) ((key, i) :: p_apps s) in
             let '(s2, o) := consider_connect s1 i in
             (s2, OutAppReply false SUnknown :: o)
       end.

Fixpoint remove_nth {A} (n : nat) (l : list A) : list A :=
  match l, n with [], _ => [] | _ :: r, O => r | x :: r, S n' => x :: remove_nth n' r end.

(* Processor.processConnectAttempt for a failed attempt *)
Definition connect_failed (s : proc) (key : N) (f : option fail) : proc :=
  match lookupN key (p_apps s) with
  | None => s
  | Some i =>
      let a := get_obj s i in
      if negb (astate_eqb (a_state a) SUnknown) then s     (* result of a superseded attempt *)
      else
      match f with
      | Some F410 => put_obj s i (set_state a SDisconnected)
      | Some F401 => put_obj s i (set_state a SInvalidLicense)
      | _ => put_obj s i (set_state a SUnknown)      (* 409 (since the fix) and every other failure *)
      end
  end.

(* ... for a successful attempt: the run is registered *)
Definition connect_ok (s : proc) (key : N) (host : N) (r : creply) : proc :=
  match lookupN key (p_apps s) with
  | None => s
  | Some i =>
      let a := get_obj s i in
      if negb (astate_eqb (a_state a) SUnknown) then s     (* result of a superseded attempt *)
      else
      let s1 := put_obj s i (set_connected a r host) in
      let ahid := length (p_ahs s1) in
      let s2 := with_ahs s1 (p_ahs s1 ++ [{| ah_app := i; ah_run := cr_run r; ah_h := new_harvest (cr_caps r) |}]) in
      with_runs s2 (setN (cr_run r) ahid (p_runs s2))
  end.

(* the collector's answer to the n-th connect attempt in progress *)
Definition pre_reply (s : proc) (n : nat) (o : pre_outcome) : proc * list out :=
  match nth_error (p_conns s) n with
  | Some c =>
      match ca_stage c, o with
      | StPre, PreOk host =>
          (with_conns s (set_nth n {| ca_id := ca_id c; ca_key := ca_key c; ca_stage := StConn host |} (p_conns s)),
           [OutReq (mk_req (ca_id c) RConnect (ca_key c) host 0 0 [] 0 0 0 false 0)])
      | StPre, PreFail f => (connect_failed (with_conns s (remove_nth n (p_conns s))) (ca_key c) (Some f), [])
      | StPre, PreMalformed => (connect_failed (with_conns s (remove_nth n (p_conns s))) (ca_key c) None, [])
      | StConn _, _ => (s, [])
      end
  | None => (s, [])
  end.

Definition conn_reply (s : proc) (n : nat) (o : conn_outcome) : proc * list out :=
  match nth_error (p_conns s) n with
  | Some c =>
      match ca_stage c with
      | StConn host =>
          let s1 := with_conns s (remove_nth n (p_conns s)) in
          match o with
          | ConnOk r => (connect_ok s1 (ca_key c) host r, [])
          | ConnFail f => (connect_failed s1 (ca_key c) (Some f), [])
          | ConnMalformed | ConnNoRunId => (connect_failed s1 (ca_key c) None, [])
          end
      | StPre => (s, [])
      end
  | None => (s, [])
  end.

(* Processor.shutdownAppHarvest *)
Definition shutdown_run (s : proc) (run : N) : proc := with_runs s (removeN run (p_runs s)).

(* ------------------------------------------------------------------ transactions *)
Definition txn_tags (t : txn) : list N :=
  map (fun ci => i_tag (snd ci)) (t_items t) ++ match t_pkgs t with Some pk => tags pk | None => [] end.

(* Processor.processTxnData *)
Definition txn_data (s : proc) (run : N) (t : txn) : proc * list out :=
  match lookupN run (p_runs s) with
  | None => (s, [])
  | Some ahid =>
      let ah := get_ah s ahid in
      let '(h', refused, overwritten) := aggregate (ah_h ah) t in
      let s1 := put_obj s (ah_app ah) (set_activity (get_obj s (ah_app ah)) (p_now s)) in
      (ghost_drop (ghost_drop (ghost_offer (put_ah_h s1 ahid h') (txn_tags t)) RCapacity (tags refused))
                  ROverwritten (tags overwritten), [])
  end.

(* ------------------------------------------------------------------ harvesting *)
Definition split_threshold : N := Z.to_N (MaxTxnEvents / 2).

(* App.filterPhpPackages: only packages not yet reported; they are marked as seen at once *)
Fixpoint filter_pkgs (seen : list N) (l : list item) : list item * list item * list N :=
  match l with
  | [] => ([], [], seen)
  | x :: r => if existsb (N.eqb (i_key x)) seen
              then let '(n, o, sn) := filter_pkgs seen r in (n, x :: o, sn)
              else let '(n, o, sn) := filter_pkgs (seen ++ [i_key x]) r in (x :: n, o, sn)
  end.

(* considerHarvestPayload for one detached container; txn events may be split in two *)
Definition emit_cat (s : proc) (e : emit_ctx) (c : cat) (bag : list item) (seen failed cap : N) (internal : bool)
  : proc * list request :=
  let empty := match c with CMetrics => match bag with [] => negb internal | _ => false end
                          | _ => match bag with [] => true | _ => false end end in
  if empty then (s, [])
  else if cat_eqb c CTxnEv && e_dt e && (split_threshold <=? lenN bag)%N then
    let n1 := Nat.div (length bag) 2 in
    let b1 := firstn n1 bag in let b2 := skipn n1 bag in
    let s1 := N.max (seen / 2) (lenN b1) in
    let s2 := N.max (seen - s1) (lenN b2) in
    let id := p_next s in
    let r1 := mk_req id (RHarvest c) (e_owner e) (e_host e) (e_hdr e) (e_run e) b1 s1 failed (lenN b1) false (e_group e) in
    let r2 := mk_req (S id) (RHarvest c) (e_owner e) (e_host e) (e_hdr e) (e_run e) b2 s2 failed (lenN b2) false (e_group e) in
    (with_next s (S (S id)), [r1; r2])
  else
    let id := p_next s in
    (with_next s (S id),
     [mk_req id (RHarvest c) (e_owner e) (e_host e) (e_hdr e) (e_run e) bag seen failed cap
             (match c with CMetrics => internal | _ => false end) (e_group e)]).

Fixpoint emit_cats (s : proc) (e : emit_ctx) (h : harvest) (cs : list cat) : proc * list request :=
  match cs with
  | [] => (s, [])
  | c :: r =>
      let '(s1, q1) := emit_cat s e c (h_bag h c) (h_seen h c) (h_failed h c) (h_cap h c) (h_internal h) in
      let '(s2, q2) := emit_cats s1 e h r in
      (s2, q1 ++ q2)
  end.

(* createFinalMetrics: a non-empty harvest gets its supportability metrics *)
Definition final_metrics (h : harvest) : harvest :=
  if harvest_empty h then h else set_flags h true (h_pids h) (h_haspkgs h).

(* replace container c of h by a fresh one, returning the detached copy as a one-category harvest view *)
Definition reset_cat (h : harvest) (c : cat) (cap : N) : harvest :=
  set_cap (set_failed (set_seen (set_bag h c []) c 0%N) c 0%N) c cap.

Definition has_bits (ty mask : N) : bool := (N.land ty mask =? mask)%N.

(* data usage: emitted when the wait group is complete and the shared buffer is not empty *)
Definition usage_request (s : proc) (e : emit_ctx) : proc * list request :=
  if Nat.eqb (p_ubuf s) 0 then (s, [])
  else let id := p_next s in
       (with_next (with_ubuf s 0) (S id),
        [mk_req id RUsage (e_owner e) (e_host e) (e_hdr e) (e_run e) [] 0 0 0 true 0]).

Definition ctx_of (s : proc) (ah : apph) (grp : nat) : emit_ctx :=
  let a := get_obj s (ah_app ah) in
  {| e_app := ah_app ah; e_owner := a_key a; e_host := a_collector a;
     e_hdr := match a_reply a with Some r => cr_hdr r | None => 0%N end;
     e_run := ah_run ah; e_dt := a_dt a; e_group := grp |}.

Definition cur_caps (a : appobj) : cat -> N :=
  match a_reply a with Some r => cr_caps r | None => fun _ => 0%N end.

(* the packages of a detached harvest are filtered against the application's seen set *)
Definition filter_harvest_pkgs (s : proc) (appi : nat) (h : harvest) : proc * harvest :=
  if h_haspkgs h then
    let a := get_obj s appi in
    let '(newp, oldp, seen') := filter_pkgs (a_seen_pkgs a) (h_bag h CPkgs) in
    let s1 := put_obj s appi (set_seen_pkgs a seen') in
    (ghost_drop s1 RSeenPkg (tags oldp),
     set_flags (set_bag h CPkgs newp) (h_internal h) (h_pids h) (match newp with [] => false | _ => true end))
  else (s, h).

(* outstanding requests are kept in a canonical order: by step, then by category (the order in which
   the goroutines of one step reach the collector is not determined) *)
Definition req_rank (q : request) : nat :=
  match rq_kind q with RHarvest c => cat_idx c | RUsage => 50 | RPreconnect => 100 | RConnect => 101 end.
Fixpoint insert_req (q : request) (l : list request) : list request :=
  match l with
  | [] => [q]
  | y :: r => if Nat.ltb (req_rank q) (req_rank y) then q :: l else y :: insert_req q r
  end.
Definition sort_reqs (l : list request) : list request := fold_left (fun acc q => insert_req q acc) l [].

Definition register (s : proc) (qs : list request) : proc :=
  ghost_sent (with_reqs s (p_reqs s ++ sort_reqs qs)) (concat (map (fun q => tags (rq_items q)) qs)).

(* one event branch of harvestByType: guarded by its HarvestType bit and a non-zero limit, the container
   is detached (sent if it is not empty) and replaced by a fresh one *)
Definition event_step (ty : N) (caps : cat -> N) (e : emit_ctx)
           (acc : proc * harvest * list request) (cb : cat * N) : proc * harvest * list request :=
  let '(sa, ha, qa) := acc in
  let '(c, bit) := cb in
  if has_bits ty bit && negb (caps c =? 0)%N then
    let '(sb, q) := emit_cat sa e c (h_bag ha c) (h_seen ha c) (h_failed ha c) (h_cap ha c) false in
    (sb, reset_cat ha c (caps c), qa ++ q)
  else acc.

(* the default-data branch of harvestByType: final metrics, package filter, the five containers are
   detached (sent when not empty) and replaced by fresh ones *)
Definition default_stage (s : proc) (e : emit_ctx) (appi : nat) (h : harvest) (dflt : bool)
  : proc * harvest * list request :=
  if dflt then
    let hf := final_metrics h in
    let '(s1, hp) := filter_harvest_pkgs s appi hf in
    let '(s2, qs) := emit_cats s1 e hp default_order in
    let hr := set_flags (fold_left (fun hh c => reset_cat hh c (h_cap hh c)) default_order hp) false false false in
    (s2, hr, qs)
  else (s, h, []).

(* harvestByType, non-blocking *)
Definition harvest_by_type (s : proc) (ahid : nat) (ty : N) : proc * list out :=
  let ah := get_ah s ahid in
  let a := get_obj s (ah_app ah) in
  let h := ah_h ah in
  let skip_usage := harvest_empty h in
  let grp := p_next s in
  let s := with_next s (S grp) in
  let e := ctx_of s ah grp in
  let caps := cur_caps a in
  if has_bits ty HarvestAll then
    let s1 := put_ah_h s ahid (new_harvest caps) in
    let '(s2, h1) := filter_harvest_pkgs s1 (ah_app ah) h in
    let h2 := final_metrics h1 in
    let '(s3, qs) := emit_cats s2 e h2 all_order in
    let s4 := register s3 qs in
    if Nat.eqb (length qs) 0 then
      let '(s5, u) := usage_request s4 e in
      (register s5 u, map OutReq (qs ++ u))
    else
      (with_groups s4 (p_groups s4 ++ [{| g_id := grp; g_pending := length qs; g_usage := true; g_ctx := e |}]), map OutReq qs)
  else
    let '(s1, h1, qs1) := default_stage s e (ah_app ah) h (has_bits ty HarvestDefaultData) in
    (* event categories, each guarded by its bit and a non-zero limit *)
    let '(s2, h2, qs2) := fold_left (event_step ty caps e) event_order (s1, h1, qs1) in
    let s3 := register (put_ah_h s2 ahid h2) qs2 in
    let want_usage := has_bits ty HarvestDefaultData && negb skip_usage in
    if Nat.eqb (length qs2) 0 then
      if want_usage then
        let '(s4, u) := usage_request s3 e in (register s4 u, map OutReq u)
      else (s3, [])
    else
      (with_groups s3 (p_groups s3 ++ [{| g_id := grp; g_pending := length qs2; g_usage := want_usage; g_ctx := e |}]), map OutReq qs2).

(* App.Inactive *)
Definition inactive (a : appobj) (now : Z) : bool := (app_timeout <? now - a_last_activity a)%Z.

(* Processor.doHarvest for a timer tick *)
Definition tick (s : proc) (ahid : nat) (ty : N) : proc * list out :=
  if Nat.leb (length (p_ahs s)) ahid then (s, [])
  else
    let ah := get_ah s ahid in
    let a := get_obj s (ah_app ah) in
    if inactive a (p_now s) then
      (with_apps (shutdown_run s (ah_run ah)) (removeN (a_key a) (p_apps s)), [])
    else harvest_by_type s ahid ty.

(* ------------------------------------------------------------------ replies to harvest requests *)
Definition metric_limit : N := Z.to_N FailedMetricAttemptsLimit.
Definition event_limit : N := Z.to_N FailedEventsAttemptsLimit.

(* FailedHarvest of a payload into the current harvest of its run *)
Definition merge_failed (h : harvest) (c : cat) (q : request) : harvest * list item * list item :=
  (* returns (harvest, refused by capacity, given up) *)
  match q.(rq_kind) with
  | RUsage =>
      (set_flags (set_failed h CMetrics (N.max (h_failed h CMetrics) 1)) true (h_pids h) (h_haspkgs h), [],
       rq_items q)      (* a data usage payload carries no agent data: rq_items q = [] *)
  | _ =>
    if cat_eqb c CMetrics then
      let fails := (rq_failed q + 1)%N in
      if (metric_limit <? fails)%N then (h, [], rq_items q)
      else
        let h1 := set_failed h CMetrics (N.max (h_failed h CMetrics) fails) in
        (set_flags (set_bag h1 CMetrics (h_bag h1 CMetrics ++ rq_items q)) true (h_pids h1) (h_haspkgs h1), [], [])
    else if is_event c then
      let fails := (rq_failed q + 1)%N in
      if (event_limit <? fails)%N then (h, [], rq_items q)
      else
        let h1 := set_failed h c fails in
        let all_seen := (h_seen h1 c + rq_seen q)%N in
        let '(h2, d) := add_items h1 (map (fun x => (c, x)) (rq_items q)) in
        (set_seen h2 c all_seen, d, [])
    else (h, [], rq_items q)
  end.

Definition should_save (f : fail) : bool := match f with FRetry => true | _ => false end.

(* the wait group of a finished payload: the last one triggers the data-usage payload *)
Definition group_done (s : proc) (gid : nat) : proc * list out :=
  match find (fun g => Nat.eqb (g_id g) gid) (p_groups s) with
  | None => (s, [])
  | Some g =>
      if Nat.eqb (g_pending g) 1 then
        let s1 := with_groups s (filter (fun g' => negb (Nat.eqb (g_id g') gid)) (p_groups s)) in
        if g_usage g then
          let '(s2, u) := usage_request s1 (g_ctx g) in
          (register s2 u, map OutReq u)
        else (s1, [])
      else
        (with_groups s (map (fun g' => if Nat.eqb (g_id g') gid
                                       then {| g_id := gid; g_pending := pred (g_pending g'); g_usage := g_usage g';
                                               g_ctx := g_ctx g' |} else g') (p_groups s)), [])
  end.

Definition cat_of (q : request) : cat := match rq_kind q with RHarvest c => c | _ => CMetrics end.

(* Processor.processHarvestError *)
Definition harvest_error (s : proc) (q : request) (f : fail) : proc * list out :=
  match lookupN (rq_run q) (p_runs s) with
  | None => (ghost_drop s RRunGone (tags (rq_items q)), [])
  | Some ahid =>
      let ah := get_ah s ahid in
      let c := cat_of q in
      let s1 :=
        if should_save f then
          let '(h1, refused, given_up) := merge_failed (ah_h ah) c q in
          let why := if retryable c then RGivenUp else RNotRetryable in
          ghost_drop (ghost_drop (put_ah_h s ahid h1) RCapacity (tags refused)) why (tags given_up)
        else ghost_drop s RNotRetryable (tags (rq_items q)) in
      let i := ah_app ah in
      let a := get_obj s1 i in
      match f with
      | F410 => (shutdown_run (put_obj s1 i (set_state a SDisconnected)) (rq_run q), [])
      | _ =>
        if astate_eqb (a_state a) SDisconnected then
          (shutdown_run (put_obj s1 i (set_state a SDisconnected)) (rq_run q), [])
        else match f with
             | F401 | F409 =>
                 consider_connect (shutdown_run (put_obj s1 i (set_state a SUnknown)) (rq_run q)) i
             | _ =>
                 if astate_eqb (a_state a) SRestart then
                   consider_connect (shutdown_run (put_obj s1 i (set_state a SUnknown)) (rq_run q)) i
                 else (s1, [])
             end
      end
  end.

Definition add_usage (s : proc) : proc := with_ubuf s (Nat.min 25 (S (p_ubuf s))).

(* the collector's answer to the n-th outstanding request *)
Definition reply (s : proc) (n : nat) (o : outcome) : proc * list out :=
  match nth_error (p_reqs s) n with
  | None => (s, [])
  | Some q =>
      let s0 := add_usage (with_reqs s (remove_nth n (p_reqs s))) in
      let '(s1, o1) :=
        match o with
        | OOk => (ghost_ack s0 (tags (rq_items q)), [])
        | OFail f => harvest_error s0 q f
        end in
      match rq_kind q with
      | RHarvest _ => let '(s2, o2) := group_done s1 (rq_group q) in (s2, o1 ++ o2)
      | _ => (s1, o1)
      end
  end.

Fixpoint find_index {A} (p : A -> bool) (l : list A) (i : nat) : option nat :=
  match l with [] => None | x :: r => if p x then Some i else find_index p r (S i) end.

(* ------------------------------------------------------------------ final flush *)
(* doHarvest's inactivity branch as seen by the final (blocking) harvest.  Before fix de635d6 this was [inactive]: an
   application past the threshold was removed at shutdown together with what it held.  The branch is kept in
   [flush_run] in this form so that the code's `!ph.Blocking && ...` reads off directly. *)
Definition flush_inactive (a : appobj) (now : Z) : bool := false.

(* CleanExit: every connected run is harvested completely, request by request, each waiting for its
   answer; a failed final request is given up (since the fix it is not handed to the stopped loop). *)
Definition flush_run (outs : N -> cat -> outcome) (acc : proc * list out) (ra : N * nat) : proc * list out :=
  let '(s, o) := acc in
  let ahid := snd ra in
  if Nat.leb (length (p_ahs s)) ahid then acc else      (* never the case: the run table only holds valid indices *)
  let ah := get_ah s ahid in
  let a := get_obj s (ah_app ah) in
  if flush_inactive a (p_now s) then
    (with_apps (shutdown_run s (ah_run ah)) (removeN (a_key a) (p_apps s)), o)
  else
    let e := ctx_of s ah 0 in
    let h := ah_h ah in
    let s1 := put_ah_h s ahid (new_harvest (cur_caps a)) in
    let '(s2, h1) := filter_harvest_pkgs s1 (ah_app ah) h in
    let h2 := final_metrics h1 in
    let '(s3, qs) := emit_cats s2 e h2 all_order in
    let s4 := ghost_sent s3 (concat (map (fun q => tags (rq_items q)) qs)) in
    let s5 := fold_left (fun sa q =>
                           match outs (rq_run q) (cat_of q) with
                           | OOk => ghost_ack sa (tags (rq_items q))
                           | OFail _ => ghost_drop sa RFinalFailed (tags (rq_items q))
                           end) qs s4 in
    (s5, o ++ map OutReq qs).

Definition clean_exit (s : proc) (outs : N -> cat -> outcome) : proc * list out :=
  let '(s1, o) := fold_left (flush_run outs) (p_runs s) (s, []) in
  (with_quit s1 true, o ++ [OutExited]).

(* ------------------------------------------------------------------ operations *)
Inductive op :=
| OAppInfo (key : N) (dt : bool) (id : option N)
| OTxn (run : N) (t : txn)
| OPreReply (n : nat) (o : pre_outcome)      (* n-th connect attempt in progress *)
| OConnReply (n : nat) (o : conn_outcome)
| OTick (ah : nat) (ty : N)
| OReply (n : nat) (o : outcome)            (* n-th outstanding harvest request *)
| OReplyCat (c : option cat) (o : outcome)  (* oldest outstanding request of that category (None: data usage) *)
| OAdvance (dt : Z)
| OCleanExit (outs : N -> cat -> outcome).

Definition req_is (c : option cat) (q : request) : bool :=
  match c, rq_kind q with
  | Some c, RHarvest c' => cat_eqb c c'
  | None, RUsage => true
  | _, _ => false
  end.

Definition step (s : proc) (o : op) : proc * list out :=
  if p_quit s then (s, [])
  else match o with
       | OAppInfo key dt id => app_info s key dt id
       | OTxn run t => txn_data s run t
       | OPreReply n po => pre_reply s n po
       | OConnReply n co => conn_reply s n co
       | OTick ah ty => tick s ah ty
       | OReply n oc => reply s n oc
       | OReplyCat c oc => match find_index (req_is c) (p_reqs s) 0 with Some n => reply s n oc | None => (s, []) end
       | OAdvance dt => (with_now s (p_now s + Z.max 0 dt), [])
       | OCleanExit outs => clean_exit s outs
       end.

Fixpoint run_from (s : proc) (ops : list op) : proc * list (list out) :=
  match ops with
  | [] => (s, [])
  | o :: r => let '(s1, out1) := step s o in
              let '(s2, outs) := run_from s1 r in (s2, out1 :: outs)
  end.
Definition run (ops : list op) := run_from init ops.

(* ------------------------------------------------------------------ accounting views *)
Definition all_cats : list cat := all_order.
Definition harvest_tags (h : harvest) : list N := concat (map (fun c => tags (h_bag h c)) all_cats).
Definition held (s : proc) : list N := concat (map (fun ah => harvest_tags (ah_h ah)) (p_ahs s)).
Definition inflight (s : proc) : list N := concat (map (fun q => tags (rq_items q)) (p_reqs s)).
Definition dropped (s : proc) : list N := map fst (g_dropped s).
