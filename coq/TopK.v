(* TopK.v -- what "the K retained are the K largest of everything offered" means, as a relation and
   as an executable check (used by the C06 statements and by the model-independent monitors).
   Definitions only, except the one-line totality fact that the stdlib merge-sort functor asks for. *)
From Coq Require Import List ZArith Bool Permutation Orders Sorting.Mergesort.
Import ListNotations.

(* descending order on Z for Coq's merge sort *)
Module ZDesc <: TotalLeBool.
  Definition t := Z.
  Definition leb (x y : Z) : bool := (y <=? x)%Z.
  Theorem leb_total : forall a1 a2, is_true (leb a1 a2) \/ is_true (leb a2 a1).
  Proof.
    intros a b. unfold leb, is_true. destruct (Z.leb_spec b a); [left; reflexivity|].
    right. apply Z.leb_le. apply Z.lt_le_incl. assumption.
  Qed.
End ZDesc.
Module ZDescSort := Sort ZDesc.

Definition sort_desc (l : list Z) : list Z := ZDescSort.sort l.

(* kept are K largest of off (by key): kept is a sub-multiset of off, nothing that was left out has a
   larger key than anything kept, and nothing is left out while there is room *)
Definition topk_rel {A} (key : A -> Z) (K : nat) (kept off : list A) : Prop :=
  exists dropped,
    Permutation (kept ++ dropped) off /\
    (forall x y, In x kept -> In y dropped -> (key y <= key x)%Z) /\
    length kept = Nat.min K (length off).

(* ---- executable checks ---- *)
Fixpoint list_eqbZ (a b : list Z) : bool :=
  match a, b with
  | [], [] => true
  | x :: a', y :: b' => (x =? y)%Z && list_eqbZ a' b'
  | _, _ => false
  end.

(* the retained key multiset is exactly the K largest offered keys *)
Definition mon_topk (K : nat) (offered retained : list Z) : bool :=
  list_eqbZ (sort_desc retained) (firstn K (sort_desc offered)).

(* a, b sorted descending: a is a sub-multiset of b *)
Fixpoint sub_sorted (a : list Z) : list Z -> bool :=
  match a with
  | [] => fun _ => true
  | x :: a' =>
      fix go (b : list Z) : bool :=
        match b with
        | [] => false
        | y :: b' => if (x =? y)%Z then sub_sorted a' b'
                     else if (x <? y)%Z then go b' else false
        end
  end.

Definition mon_submset (sub sup : list Z) : bool := sub_sorted (sort_desc sub) (sort_desc sup).

Definition minZ_list (l : list Z) (d : Z) : Z := fold_left Z.min l d.
Definition maxZ_list (l : list Z) (d : Z) : Z := fold_left Z.max l d.
