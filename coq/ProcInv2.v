(* ProcInv2.v -- corollaries of the conservation theorem and simple facts about single operations
   (C01 C02 C03 C11). *)
From Coq Require Import NArith ZArith List Bool Lia.
From Verif Require Import Processor ProcInv.
Import ListNotations.

(* data that has been acknowledged or given up is no longer held nor in flight (C02) *)
Lemma released ops : distinct_tags ops ->
  let s := fst (run ops) in
  forall t, In t (g_acked s ++ dropped s) -> ~ In t (held s ++ inflight s).
Proof.
  intros D s t Hin Hin2. destruct (exactly_once ops D) as [N _]. fold s in N.
  pose proof (cnt_NoDup t _ N) as H. rewrite !cnt_app in H.
  apply (count_occ_In N.eq_dec) in Hin. apply (count_occ_In N.eq_dec) in Hin2.
  rewrite count_occ_app in Hin, Hin2. unfold cnt in H. lia.
Qed.

(* no tag is ever invented: whatever is held, in flight, acknowledged or given up was submitted by a transaction
   of the history under a run id that was held at that moment *)
Lemma nothing_invented ops t :
  let s := fst (run ops) in
  In t (held s ++ inflight s ++ g_acked s ++ dropped s) -> In t (concat (map op_tags ops)).
Proof.
  intros s Hin. pose proof (conservation ops t) as B. fold s in B. unfold total in B.
  assert (Hoff : In t (g_offered s)).
  { apply (count_occ_In N.eq_dec). unfold cnt in B. rewrite B.
    apply (count_occ_In N.eq_dec) in Hin. rewrite !count_occ_app in Hin. lia. }
  unfold s, run in Hoff. destruct (run_from_offered ops init) as (l & E & S). rewrite E in Hoff. cbn in Hoff.
  eapply sublist_in; eassumption.
Qed.

(* ------------------------------------------------------------------ C11: the final flush *)
Lemma clean_exit_quits s outs : p_quit (fst (clean_exit s outs)) = true.
Proof. unfold clean_exit. destruct (fold_left (flush_run outs) (p_runs s) (s, [])). reflexivity. Qed.

Lemma clean_exit_exits s outs : In OutExited (snd (clean_exit s outs)).
Proof.
  unfold clean_exit. destruct (fold_left (flush_run outs) (p_runs s) (s, [])). cbn [snd].
  apply in_or_app. right. left. reflexivity.
Qed.

Lemma quit_is_final s o : p_quit s = true -> step s o = (s, []).
Proof. intros H. unfold step. rewrite H. reflexivity. Qed.

Lemma quit_run_from ops : forall s, p_quit s = true -> fst (run_from s ops) = s /\ Forall (fun o => o = []) (snd (run_from s ops)).
Proof.
  induction ops as [|o r IH]; intros s H; cbn [run_from]; [split; [reflexivity|constructor]|].
  rewrite (quit_is_final s o H). destruct (IH s H) as [E F]. destruct (run_from s r) as [s2 outs]. cbn [fst snd] in *.
  split; [exact E|constructor; [reflexivity|exact F]].
Qed.

(* a run that is flushed (held, application not inactive) has its harvest replaced by an empty one:
   everything it held went into the final requests or was a package already reported *)
Lemma flush_run_empties outs s o ra :
  snd ra < length (p_ahs s) ->
  flush_inactive (get_obj s (ah_app (get_ah s (snd ra)))) (p_now s) = false ->
  harvest_tags (ah_h (get_ah (fst (flush_run outs (s, o) ra)) (snd ra))) = [].
Proof.
  intros Hi Hin. unfold flush_run. apply Nat.leb_gt in Hi. rewrite Hi. rewrite Hin.
  set (ah := get_ah s (snd ra)). set (a := get_obj s (ah_app ah)).
  pose proof (filter_harvest_pkgs_ok (put_ah_h s (snd ra) (new_harvest (cur_caps a))) (ah_app ah) (ah_h ah)) as F.
  destruct (filter_harvest_pkgs (put_ah_h s (snd ra) (new_harvest (cur_caps a))) (ah_app ah) (ah_h ah)) as [s2 h1].
  cbn [fst snd] in F. destruct F as (F1 & _).
  pose proof (emit_cats_ok (ctx_of s ah 0) (final_metrics h1) all_order s2) as [O _].
  destruct (emit_cats s2 (ctx_of s ah 0) (final_metrics h1) all_order) as [s3 qs]. cbn [fst snd] in O.
  destruct O as (_ & (_ & Or2) & _).
  pose proof (flush_payloads_ok outs qs (ghost_sent s3 (concat (map (fun q => tags (rq_items q)) qs)))) as P.
  cbn zeta in P. destruct P as (P1 & _). cbn [fst]. unfold get_ah. rewrite P1. cbn [p_ahs ghost_sent]. rewrite Or2, F1.
  unfold put_ah_h. cbn [p_ahs with_ahs].
  assert (G : forall (l : list apph) i v, i < length l -> nth i (set_nth i v l) dummy_ah = v).
  { induction l as [|x r IH]; intros [|i] v H; cbn in *; try lia; [reflexivity|apply IH; lia]. }
  apply Nat.leb_gt in Hi. rewrite G by exact Hi. reflexivity.
Qed.

(* ------------------------------------------------------------------ C03: what agents are told *)
Lemma connected_run_only a x : In x (connected_run a) -> exists r, x = OutConnectedRun r.
Proof.
  unfold connected_run. destruct (a_state a); try (intros []). destruct (a_reply a); [|intros []].
  intros [<-|[]]. eauto.
Qed.

Lemma consider_connect_only s i x : In x (snd (consider_connect s i)) -> exists q, x = OutReq q.
Proof.
  unfold consider_connect. destruct (needs_connect (get_obj s i) (p_now s)); cbn [snd]; [|intros []].
  intros [<-|[]]. eauto.
Qed.

Lemma app_info_valid_iff s key dt id :
  (exists st, In (OutAppReply true st) (snd (app_info s key dt id))) <->
  (exists r, id = Some r /\ lookupN r (p_runs s) <> None).
Proof.
  unfold app_info. split.
  - intros [st Hin].
    destruct (match id with Some r => match lookupN r (p_runs s) with Some _ => true | None => false end | None => false end) eqn:E.
    + destruct id as [r|]; [|discriminate]. exists r. split; [reflexivity|]. destruct (lookupN r (p_runs s)); [congruence|discriminate].
    + exfalso. destruct (lookupN key (p_apps s)) as [i|].
      * match goal with H : In _ (snd (let '(s2, o) := consider_connect ?S ?I in _)) |- _ =>
          pose proof (consider_connect_only S I) as CO; destruct (consider_connect S I) as [s2 o] end.
        cbn [snd] in *. destruct Hin as [H|H]; [discriminate|]. apply in_app_or in H. destruct H as [H|H].
        -- apply connected_run_only in H. destruct H as [r H]. discriminate.
        -- apply CO in H. destruct H as [q H]. discriminate.
      * destruct (Nat.leb app_limit (length (p_apps s))); [cbn in Hin; intuition discriminate|].
        match goal with H : In _ (snd (let '(s2, o) := consider_connect ?S ?I in _)) |- _ =>
          pose proof (consider_connect_only S I) as CO; destruct (consider_connect S I) as [s2 o] end.
        cbn [snd] in *. destruct Hin as [H|H]; [discriminate|]. apply CO in H. destruct H as [q H]. discriminate.
  - intros (r & -> & L). destruct (lookupN r (p_runs s)); [|congruence]. exists SUnknown. left. reflexivity.
Qed.

(* the state reported for a known application is the state the daemon holds for it *)
Lemma app_info_reports_state s key dt id i :
  (forall r, id = Some r -> lookupN r (p_runs s) = None) ->
  lookupN key (p_apps s) = Some i ->
  In (OutAppReply false (a_state (get_obj s i))) (snd (app_info s key dt id)).
Proof.
  intros Hid L. unfold app_info.
  assert (E : match id with Some r => match lookupN r (p_runs s) with Some _ => true | None => false end | None => false end = false).
  { destruct id as [r|]; [rewrite (Hid r eq_refl)|]; reflexivity. }
  rewrite E, L. destruct (consider_connect _ i) as [s2 o]. cbn [snd]. left.
  unfold get_obj, put_obj. cbn [p_objs with_objs].
  assert (G : forall (l : list appobj) j a, a_state (nth j (set_nth j (set_activity a (p_now s)) l) dummy_app) =
                                           a_state (nth j (set_nth j a l) dummy_app)).
  { induction l as [|x r IH]; intros [|j] a; cbn; auto. }
  f_equal. 
  assert (G2 : forall (l : list appobj) j, a_state (nth j (set_nth j (set_activity (nth j l dummy_app) (p_now s)) l) dummy_app) = a_state (nth j l dummy_app)).
  { induction l as [|x r IH]; intros [|j]; cbn; auto. }
  apply G2.
Qed.
