(* C05 -- buffers are bounded by the negotiated capacities and counted exactly.  Statements only. *)
From Coq Require Import ZArith List Bool.
From Verif.Gen Require Import Limits_gen.
From Verif Require Import Limits LimitsProofs.
Import ListNotations.
Open Scope Z_scope.

(* The constants the daemon is built with are the documented ones. *)
Theorem C05_limits_documented :
  MaxMetrics = 2000 /\ MaxErrors = 20 /\ MaxSlowSQLs = 10 /\
  MaxRegularTraces = 1 /\ MaxForcePersistTraces = 10 /\ MaxSyntheticsTraces = 20 /\ AppLimit = 250 /\
  MaxTxnEvents = 10000 /\ MaxCustomMaxEvents = 100000 /\ MaxErrorEvents = 100 /\ MaxSpanMaxEvents = 10000 /\
  MaxLogMaxEvents = 20000 /\ DefaultReportPeriod = 60 * 1000000000 /\
  FailedEventsAttemptsLimit = 10 /\ FailedMetricAttemptsLimit = 5.
Proof. exact limits_documented. Qed.
Print Assumptions C05_limits_documented.
