(* C05 -- buffers are bounded by the negotiated capacities and counted exactly.  Statements only. *)
From Coq Require Import ZArith NArith List Bool.
From Verif.Gen Require Import Limits_gen.
From Verif Require Import Reservoir ReservoirProofs Metrics MetricsProofs ErrTrace SlowSQL Processor Limits C05Check LimitsProofs.
Import ListNotations.
Open Scope Z_scope.

(* The constants the daemon is built with are the documented ones. *)
Theorem C05_limits_documented :
  MaxMetrics = 2000 /\ MaxErrors = 20 /\ MaxSlowSQLs = 10 /\
  MaxRegularTraces = 1 /\ MaxForcePersistTraces = 10 /\ MaxSyntheticsTraces = 20 /\ AppLimit = 250 /\
  MaxTxnEvents = 10000 /\ MaxCustomMaxEvents = 100000 /\ MaxErrorEvents = 100 /\ MaxSpanMaxEvents = 10000 /\
  MaxLogMaxEvents = 20000 /\ DefaultReportPeriod = 60 * 1000000000 /\
  FailedEventsAttemptsLimit = 10 /\ FailedMetricAttemptsLimit = 5.
Proof. exact limits_documented. Qed.
Print Assumptions C05_limits_documented.

(* Metric table of a harvest (capacity MaxMetrics), built by ANY regrouping of adds, transactions, merges,
   carried-over failed harvests and rule applications, under EVERY map iteration order: at most 2000 unforced
   metrics; count = metrics held; a forced metric offered to it is never refused and is in the table afterwards;
   a refused offer changes nothing but numDropped, happens only at count >= 2000 to an unforced metric with a new
   key; numDropped grows by exactly the number of refused offers. *)
Theorem C05_metric_bound : forall b t r, builds b t r -> base_max b = MaxMetrics ->
  unforced_count t <= 2000 /\
  tcount t = Z.of_nat (length (entries t)) /\
  (forall k m, forced m = true ->
     tdropped (merge_metric t k m) = tdropped t /\
     get k (merge_metric t k m) = oplus (get k t) (Some (data m))) /\
  (forall k m, refuses t k m = true ->
     entries (merge_metric t k m) = entries t /\ tcount (merge_metric t k m) = tcount t /\
     tdropped (merge_metric t k m) = tdropped t + 1 /\ 2000 <= tcount t /\ forced m = false /\ get k t = None) /\
  (forall os, tdropped (merge_entries t os) = tdropped t + count_refused t os).
Proof. exact metric_bound. Qed.
Print Assumptions C05_metric_bound.

(* The forced flag of a table entry is that of the FIRST contribution to its key: a Forced contribution that
   lands on an existing unforced entry is aggregated (not refused), but when that entry is later carried over by
   MergeFailed into a full table the entry is refused as a whole -- the Forced contribution's data goes with it.
   (Stated as an existence theorem; whether this is within "forced metrics are never refused" is discussed in
   the report: every OFFER flagged forced is accepted, every ENTRY flagged forced survives every merge.) *)
Theorem C05_forced_data_in_unforced_entry_can_be_lost :
  exists b k d r, builds b (exec b) r /\ In (C k true d) (contribs FailedMetricAttemptsLimit b) /\
                  get k (exec b) = None /\ 0 < tdropped (exec b).
Proof.
  exists mixed_b, ([120%N], []), (count_data 1).
  destruct forced_contribution_in_unforced_entry_witness as (A & _ & B & D & (r & E)).
  exists r. repeat split; try assumption.
Qed.
Print Assumptions C05_forced_data_in_unforced_entry_can_be_lost.

(* What does hold for forced data, at full strength: a key that only ever receives Forced contributions keeps
   the combination of ALL of them, and its entry is flagged forced, on every build (adds, transactions, merges,
   carried-over failed harvests, rename rules), under every map iteration order, whatever is refused elsewhere. *)
Theorem C05_forced_only_keys_keep_everything : forall b t r, builds b t r ->
  forall k, (forall c, In c (contribs FailedMetricAttemptsLimit b) -> ckey c = k -> cforced c = true) ->
  get k t = combined (contribs FailedMetricAttemptsLimit b) k /\
  (forall e, lookup k (entries t) = Some e -> forced e = true).
Proof. exact forced_keys_keep_all. Qed.
Print Assumptions C05_forced_only_keys_keep_everything.

(* Every event reservoir of a harvest, for ALL agent settings (uint64, incl. 0 = absent and >= 2^63) and ALL
   connect replies (members absent, null, 0, negative, above the maximum, >= 2^63, wrongly typed): if the reply is
   accepted, the capacity NewHarvest gets is non-negative, at most the daemon maximum, at most (for log events) /
   equal to (other categories) min(maximum, collector limit), and a reservoir of that capacity never holds more,
   whatever is offered; log events are further capped by a valid agent limit scaled to the report period p (ns):
   agent * p / 60 s, and the capacity is exactly the minimum of the two; an agent value >= 2^63 is ignored. *)
Theorem C05_event_bound : forall a r e, negotiate a r = Some e ->
  forall k ops,
    let cap := harvest_cap e k in
    let held := Z.of_nat (length (items (run_res (Z.to_nat cap) ops))) in
    0 <= cap /\ held <= cap /\ cap <= doc_max k /\
    (forall j, collector_jval r k = Some j ->
       cap <= capped (doc_max k) j /\ (k <> ELog -> cap = capped (doc_max k) j)) /\
    (k = ELog ->
       let agent := int_of_uint64 (a_log a) in
       let p := ec_period (cfg_of (cfgs e) ELog) in
       0 <= agent -> 0 <= p ->
       cap <= agent * p / 60000000000 /\
       forall j, collector_jval r ELog = Some j -> cap = Z.min (capped 20000 j) (agent * p / 60000000000)) /\
    (* an agent value >= 2^63 (negative as the daemon's int) is ignored outright (fixes 61ac173, b82e6ce) *)
    (k = ELog -> two63 <= a_log a < two64 ->
       forall j, collector_jval r ELog = Some j -> cap = capped 20000 j).
Proof. exact event_bound. Qed.
Print Assumptions C05_event_bound.

(* the same in the collector's units: log limit z, report period ms milliseconds, agent limit per minute *)
Theorem C05_log_limit_scaled : forall a r e x ms z,
  negotiate a r = Some e -> in_ehc r = Some x ->
  r_period x = JInt ms -> 0 < ms < 9223372036854 -> r_log x = JInt z ->
  a_log a < two63 -> 0 <= a_log a ->
  harvest_cap e ELog = Z.min (Z.min 20000 z) (a_log a * ms / 60000).
Proof. exact log_limit_scaled. Qed.
Print Assumptions C05_log_limit_scaled.

(* a reply whose numbers are all non-negative integers that fit is accepted; a negative limit refuses the reply *)
Theorem C05_reply_accepted : forall a r, reply_well_formed r = true -> exists e, negotiate a r = Some e.
Proof. exact well_formed_accepted. Qed.
Print Assumptions C05_reply_accepted.

Theorem C05_negative_limit_refused : forall a r k z,
  collector_jval r k = Some (JInt z) -> z < 0 -> negotiate a r = None.
Proof. exact negative_refused. Qed.
Print Assumptions C05_negative_limit_refused.

(* What is advertised at connect: report period 60 s and the maxima, lowered to the agent's custom / span / log
   settings (uint64 on the wire; the conversion to int does no harm: min(max, u) for every u < 2^64). *)
Theorem C05_advertised : forall a,
  0 <= a_span a < two64 -> 0 <= a_log a < two64 -> 0 <= a_custom a < two64 ->
  advertised a = (60000, (100, 10000, Z.min 100000 (a_custom a), Z.min 10000 (a_span a), Z.min 20000 (a_log a))).
Proof. exact advertised_spec. Qed.
Print Assumptions C05_advertised.

(* Never more than 250 applications, on every history of the processor. *)
Theorem C05_app_cap : forall ops, (length (p_apps (fst (run ops))) <= 250)%nat.
Proof. exact apps_le_limit. Qed.
Print Assumptions C05_app_cap.

(* Counts: numSeen = everything offered (through merges: the sum; a delivery given up after 10 attempts counts for
   nothing), held = included = min(capacity, offered), the payload header reports events_seen = numSeen and
   reservoir_size = capacity; Split partitions the events and the halves' events_seen add up to the original. *)
Theorem C05_counts_exact : forall K ops,
  let r := run_res K ops in
  seen r = seen_total ops /\
  length (items r) = Nat.min K (length (offered ops)) /\
  (length (items r) <= K)%nat /\ cap r = K /\
  model_hdr r = Some (Hdr (seen_total ops) (Z.of_nat K) (Z.of_nat (Nat.min K (length (offered ops))))) /\
  (Forall adds_only ops -> seen_total ops = Z.of_nat (length ops)) /\
  (Forall op_counts_ok ops ->
     Z.of_nat (length (items r)) <= seen r /\
     seen (fst (split r)) + seen (snd (split r)) = seen r /\
     items (fst (split r)) ++ items (snd (split r)) = items r /\
     length (items (fst (split r))) = cap (fst (split r)) /\ length (items (snd (split r))) = cap (snd (split r)) /\
     failed (fst (split r)) = failed r /\ failed (snd (split r)) = failed r).
Proof. exact counts_exact. Qed.
Print Assumptions C05_counts_exact.

Theorem C05_carried_over_counts : forall r o,
  (carried o = true <-> failed o + 1 <= 10) /\
  failed (Reservoir.merge_failed r o) = (if carried o then failed o + 1 else failed r) /\
  (carried o = false -> Reservoir.merge_failed r o = r).
Proof. exact carried_counts. Qed.
Print Assumptions C05_carried_over_counts.

(* At most 20 errors, 10 slow SQLs, 1 / 10 / 20 regular / force-persisted / synthetics traces, whatever is offered
   (and no offer makes the containers of these sizes fail). *)
Theorem C05_errors_slowsql_traces_bound :
  (forall es, exists h, run_errors (Z.to_nat MaxErrors) es = Some h /\ (length (e_items h) <= 20)%nat) /\
  (forall obs, (length (sl_items (run_slow (Z.to_nat MaxSlowSQLs) obs)) <= 10)%nat) /\
  (forall l, exists ts, run_offers l = Some ts /\
     (length (ErrTrace.t_items (regular ts)) <= 1)%nat /\ (length (ErrTrace.t_items (force_persisted ts)) <= 10)%nat /\
     (length (ErrTrace.t_items (synthetics ts)) <= 20)%nat).
Proof. exact small_containers_bound. Qed.
Print Assumptions C05_errors_slowsql_traces_bound.
