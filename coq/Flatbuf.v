(* Flatbuf.v -- C15: a small generic model of one flatbuffers TABLE.  Definitions only.

   A table object is a vtable (slot -> offset of the field inside the table, 0 = absent) plus the
   inline data (offset -> stored value).  A rendering of a schema gives every field name a slot and
   a default: the builder (flatbuffers.Builder, the agent's nr_flatbuffers_object_begin/prepend/end) writes a field only when
   the value differs from the default it was told (PrependXSlot(slot, v, default)), the reader
   (rcv._tab.Offset(4+2*slot), then GetX(o + Pos) or the default it returns for o = 0) looks the
   slot up in the vtable.  Values are abstract (scalars, or identities of out-of-line objects). *)
From Coq Require Import NArith String List Bool.
Import ListNotations.
Open Scope string_scope.

Section Generic.
  Variable V : Type.
  Variable V_eq_dec : forall a b : V, {a = b} + {a <> b}.

  Record fdesc := mkD { fd_slot : N; fd_def : V }.
  (* one rendering's view of one table: field name -> slot and default *)
  Definition slotmap := list (string * fdesc).

  Fixpoint lookup {A} (f : string) (l : list (string * A)) : option A :=
    match l with
    | [] => None
    | (g, a) :: r => if String.eqb f g then Some a else lookup f r
    end.

  Record tobj := mkT { vt : list N; inl : list (N * V) }.

  Fixpoint set_nth (s : nat) (x : N) (l : list N) : list N :=
    match l, s with
    | [], _ => []
    | _ :: r, O => x :: r
    | y :: r, S s' => y :: set_nth s' x r
    end.

  Fixpoint lookup_inl (off : N) (l : list (N * V)) : option V :=
    match l with
    | [] => None
    | (o, v) :: r => if N.eqb off o then Some v else lookup_inl off r
    end.

  (* the field is stored at the next free inline offset and entered in the vtable *)
  Definition put (o : tobj) (next : N) (slot : N) (v : V) : tobj :=
    mkT (set_nth (N.to_nat slot) next (vt o)) ((next, v) :: inl o).

  (* PrependXSlot for each given field, in the order given *)
  Fixpoint build_fields (sigma : slotmap) (vals : list (string * V)) (o : tobj) (next : N) : tobj :=
    match vals with
    | [] => o
    | (f, v) :: r =>
        match lookup f sigma with
        | None => build_fields sigma r o next              (* the builder has no such field *)
        | Some d =>
            if V_eq_dec v (fd_def d) then build_fields sigma r o next   (* default: not written *)
            else build_fields sigma r (put o next (fd_slot d) v) (next + 8)
        end
    end.

  (* StartObject(n); the fields; EndObject *)
  Definition build (sigma : slotmap) (n : N) (vals : list (string * V)) : tobj :=
    build_fields sigma vals (mkT (repeat 0%N (N.to_nat n)) []) 4.

  (* what is stored in a slot: None = absent (vtable too short, or entry 0) *)
  Definition read_slot (o : tobj) (s : N) : option V :=
    let vo := nth (N.to_nat s) (vt o) 0%N in
    if N.eqb vo 0 then None else lookup_inl vo (inl o).

  (* the generated getter: None = this rendering has no such field *)
  Definition read (sigma' : slotmap) (o : tobj) (f : string) : option V :=
    match lookup f sigma' with
    | None => None
    | Some d => Some (match read_slot o (fd_slot d) with Some v => v | None => fd_def d end)
    end.

  (* what the sender means by the message: the given value, else the sender's default *)
  Definition sent (sigma : slotmap) (vals : list (string * V)) (f : string) : option V :=
    match lookup f sigma with
    | None => None
    | Some d => Some (match lookup f vals with Some v => v | None => fd_def d end)
    end.

  (* a slot map usable with StartObject(n): slots below n, no slot shared by two fields *)
  Definition wf (sigma : slotmap) (n : N) : Prop :=
    (forall f d, lookup f sigma = Some d -> (fd_slot d < n)%N) /\
    (forall f g df dg, lookup f sigma = Some df -> lookup g sigma = Some dg ->
                       fd_slot df = fd_slot dg -> f = g).

  Definition wfb (sigma : slotmap) (n : N) : bool :=
    forallb (fun p => N.ltb (fd_slot (snd p)) n) sigma &&
    forallb (fun p => forallb (fun q => String.eqb (fst p) (fst q) ||
                                        negb (N.eqb (fd_slot (snd p)) (fd_slot (snd q)))) sigma) sigma.
End Generic.

Arguments mkD {V}. Arguments fd_slot {V}. Arguments fd_def {V}.
Arguments mkT {V}. Arguments vt {V}. Arguments inl {V}.
Arguments lookup {A}.
Arguments lookup_inl {V}. Arguments put {V}. Arguments build_fields {V}. Arguments build {V}.
Arguments read_slot {V}. Arguments read {V}. Arguments sent {V}. Arguments wf {V}. Arguments wfb {V}.
