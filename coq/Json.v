(* Json.v -- C08: JSON text grammar (RFC 8259), a recogniser/parser, Go's utf8.DecodeRuneInString,
   jsonx.AppendString and the daemon's concatenating payload encoders.
   Definitions only; proofs are in JsonProofs.v.

   Bytes are N (a real byte is < 256); byte strings are [list N].

   ORACLES (not modelled, passed in as already-printed fragments): strconv.AppendInt / AppendFloat
   (number fragments), encoding/json (Encoder.Encode / Marshal results: the run-id string, the connect
   payload object, the label map), json.Unmarshal (decoded package names/versions). *)
From Coq Require Import NArith List Bool String Ascii.
Import ListNotations.
Open Scope N_scope.

(* ------------------------------------------------------------------ bytes *)

Definition bs_of (s : string) : list N := map N_of_ascii (list_ascii_of_string s).

Definition QUOTE : N := 34.    (* double quote *)
Definition BSLASH : N := 92.   (* \ *)
Definition LBR : N := 91.      (* [ *)
Definition RBR : N := 93.      (* ] *)
Definition LBRACE : N := 123.  (* { *)
Definition RBRACE : N := 125.  (* } *)
Definition COMMA : N := 44.
Definition COLON : N := 58.
Definition NL : N := 10.

Fixpoint bytes_eqb (a b : list N) : bool :=
  match a, b with
  | [], [] => true
  | x :: a', y :: b' => (x =? y) && bytes_eqb a' b'
  | _, _ => false
  end.

Definition in_range (lo hi x : N) : bool := (lo <=? x) && (x <=? hi).

(* ------------------------------------------------------------------ grammar: tokens *)

Definition is_ws (c : N) : bool := (c =? 32) || (c =? 9) || (c =? 10) || (c =? 13).
Definition Ws (l : list N) : Prop := forallb is_ws l = true.

Definition is_digit (c : N) : bool := in_range 48 57 c.
Definition is_digit19 (c : N) : bool := in_range 49 57 c.
Definition is_hex (c : N) : bool := in_range 48 57 c || in_range 97 102 c || in_range 65 70 c.
(* the character after a backslash in a two-character escape: quote \ / b f n r t *)
Definition is_simple_esc (c : N) : bool :=
  (c =? 34) || (c =? 92) || (c =? 47) || (c =? 98) || (c =? 102) || (c =? 110) || (c =? 114) || (c =? 116).

(* well-formed UTF-8 (Unicode table 3-7 / RFC 3629): no overlongs, no surrogates, <= U+10FFFF *)
Definition is_cont (c : N) : bool := in_range 0x80 0xBF c.
Definition utf8_1 (a : N) : bool := in_range 0x20 0x7F a && negb (a =? QUOTE) && negb (a =? BSLASH).
Definition utf8_2 (a b : N) : bool := in_range 0xC2 0xDF a && is_cont b.
Definition utf8_3 (a b c : N) : bool :=
  (((a =? 0xE0) && in_range 0xA0 0xBF b) || (in_range 0xE1 0xEC a && is_cont b) ||
   ((a =? 0xED) && in_range 0x80 0x9F b) || (in_range 0xEE 0xEF a && is_cont b)) && is_cont c.
Definition utf8_4 (a b c d : N) : bool :=
  (((a =? 0xF0) && in_range 0x90 0xBF b) || (in_range 0xF1 0xF3 a && is_cont b) ||
   ((a =? 0xF4) && in_range 0x80 0x8F b)) && is_cont c && is_cont d.

(* one character of a string body: an unescaped code point >= 0x20 other than quote / backslash
   (as well-formed UTF-8), or an escape *)
Inductive StrChar : list N -> Prop :=
| SC_ascii a : utf8_1 a = true -> StrChar [a]
| SC_utf2 a b : utf8_2 a b = true -> StrChar [a; b]
| SC_utf3 a b c : utf8_3 a b c = true -> StrChar [a; b; c]
| SC_utf4 a b c d : utf8_4 a b c d = true -> StrChar [a; b; c; d]
| SC_esc e : is_simple_esc e = true -> StrChar [BSLASH; e]
| SC_uesc h1 h2 h3 h4 : is_hex h1 && is_hex h2 && is_hex h3 && is_hex h4 = true ->
    StrChar [BSLASH; 117; h1; h2; h3; h4].

Inductive StrBody : list N -> Prop :=
| SB_nil : StrBody []
| SB_cons c r : StrChar c -> StrBody r -> StrBody (c ++ r).

Inductive JsonString : list N -> Prop :=
| JS_intro body : StrBody body -> JsonString (QUOTE :: body ++ [QUOTE]).

(* number = [ minus ] int [ frac ] [ exp ] *)
Definition Digits (l : list N) : Prop := l <> [] /\ forallb is_digit l = true.
Inductive IntPart : list N -> Prop :=
| IP_zero : IntPart [48]
| IP_nz d ds : is_digit19 d = true -> forallb is_digit ds = true -> IntPart (d :: ds).
Inductive FracPart : list N -> Prop :=
| FP_none : FracPart []
| FP_some ds : Digits ds -> FracPart (46 :: ds).
Inductive ExpPart : list N -> Prop :=
| EP_none : ExpPart []
| EP_some e sg ds : (e = 101 \/ e = 69) -> (sg = [] \/ sg = [43] \/ sg = [45]) -> Digits ds ->
    ExpPart (e :: sg ++ ds).
Inductive JsonNumber : list N -> Prop :=
| JN_intro sg ip fp ep : (sg = [] \/ sg = [45]) -> IntPart ip -> FracPart fp -> ExpPart ep ->
    JsonNumber (sg ++ ip ++ fp ++ ep).

(* ------------------------------------------------------------------ grammar: values *)

Definition lit_null : list N := Eval vm_compute in bs_of "null".
Definition lit_true : list N := Eval vm_compute in bs_of "true".
Definition lit_false : list N := Eval vm_compute in bs_of "false".

Fixpoint join (sep : N) (l : list (list N)) : list N :=
  match l with
  | [] => []
  | [v] => v
  | v :: r => v ++ sep :: join sep r
  end.

(* the syntax tree a text denotes; strings and numbers keep their raw (still escaped) bytes *)
Inductive jtree :=
| JNull
| JBool (b : bool)
| JNum (raw : list N)
| JStr (raw : list N)                       (* the body between the quotes *)
| JArr (ts : list jtree)
| JObj (ms : list (list N * jtree)).        (* key = raw body of the key string *)

(* an object key with its surrounding whitespace *)
Inductive JsonKey : list N -> list N -> Prop :=
| JK_intro w1 body w2 : Ws w1 -> StrBody body -> Ws w2 ->
    JsonKey body (w1 ++ QUOTE :: body ++ QUOTE :: w2).

(* [JsonT t bs]: bs is a JSON text (ws value ws) denoting t *)
Inductive JsonT : jtree -> list N -> Prop :=
| JT_null : JsonT JNull lit_null
| JT_true : JsonT (JBool true) lit_true
| JT_false : JsonT (JBool false) lit_false
| JT_num n : JsonNumber n -> JsonT (JNum n) n
| JT_str body : StrBody body -> JsonT (JStr body) (QUOTE :: body ++ [QUOTE])
| JT_arr0 w : Ws w -> JsonT (JArr []) (LBR :: w ++ [RBR])
| JT_arr ts vs : ts <> [] -> Forall2 JsonT ts vs -> JsonT (JArr ts) (LBR :: join COMMA vs ++ [RBR])
| JT_obj0 w : Ws w -> JsonT (JObj []) (LBRACE :: w ++ [RBRACE])
| JT_obj (ms : list (list N * jtree)) (kvs : list (list N * list N)) : ms <> [] ->
    Forall2 JsonKey (map fst ms) (map fst kvs) ->
    Forall2 JsonT (map snd ms) (map snd kvs) ->
    JsonT (JObj ms) (LBRACE :: join COMMA (map (fun kv => fst kv ++ COLON :: snd kv) kvs) ++ [RBRACE])
| JT_pad t w1 v w2 : Ws w1 -> JsonT t v -> Ws w2 -> JsonT t (w1 ++ v ++ w2).

Definition JsonValue (bs : list N) : Prop := exists t, JsonT t bs.

(* ------------------------------------------------------------------ recogniser / parser *)

Fixpoint skip_ws (bs : list N) : list N :=
  match bs with
  | c :: r => if is_ws c then skip_ws r else bs
  | [] => []
  end.

Fixpoint span_digits (bs : list N) : list N * list N :=
  match bs with
  | c :: r => if is_digit c then let (ds, rest) := span_digits r in (c :: ds, rest) else ([], bs)
  | [] => ([], [])
  end.

(* after the opening quote: the raw body and what follows the closing quote *)
Fixpoint scan_str (bs : list N) : option (list N * list N) :=
  let k (pre : list N) (r : option (list N * list N)) :=
    match r with Some (body, rest) => Some (pre ++ body, rest) | None => None end in
  match bs with
  | [] => None
  | a :: r =>
    if a =? QUOTE then Some ([], r)
    else if a =? BSLASH then
      match r with
      | e :: r2 =>
        if is_simple_esc e then k [a; e] (scan_str r2)
        else if e =? 117 then
          match r2 with
          | h1 :: h2 :: h3 :: h4 :: r3 =>
            if is_hex h1 && is_hex h2 && is_hex h3 && is_hex h4
            then k [a; e; h1; h2; h3; h4] (scan_str r3) else None
          | _ => None
          end
        else None
      | [] => None
      end
    else if utf8_1 a then k [a] (scan_str r)
    else
      match r with
      | b :: r2 =>
        if utf8_2 a b then k [a; b] (scan_str r2)
        else
          match r2 with
          | c :: r3 =>
            if utf8_3 a b c then k [a; b; c] (scan_str r3)
            else
              match r3 with
              | d :: r4 => if utf8_4 a b c d then k [a; b; c; d] (scan_str r4) else None
              | [] => None
              end
          | [] => None
          end
      | [] => None
      end
  end.

Definition scan_frac (bs : list N) : option (list N * list N) :=
  match bs with
  | 46 :: r => let (ds, rest) := span_digits r in
               match ds with [] => None | _ => Some (46 :: ds, rest) end
  | _ => Some ([], bs)
  end.

Definition scan_exp (bs : list N) : option (list N * list N) :=
  match bs with
  | e :: r =>
    if (e =? 101) || (e =? 69) then
      let (sg, r1) := match r with
                      | s :: r' => if (s =? 43) || (s =? 45) then ([s], r') else ([], r)
                      | [] => ([], r)
                      end in
      let (ds, rest) := span_digits r1 in
      match ds with [] => None | _ => Some (e :: sg ++ ds, rest) end
    else Some ([], bs)
  | [] => Some ([], bs)
  end.

Definition scan_int (bs : list N) : option (list N * list N) :=
  match bs with
  | d :: r =>
    if d =? 48 then Some ([48], r)
    else if is_digit19 d then let (ds, rest) := span_digits r in Some (d :: ds, rest)
    else None
  | [] => None
  end.

Definition scan_num (bs : list N) : option (list N * list N) :=
  let (sg, r0) := match bs with
                  | c :: r => if c =? 45 then ([45], r) else ([], bs)
                  | [] => ([], bs)
                  end in
  match scan_int r0 with
  | None => None
  | Some (ip, r1) =>
    match scan_frac r1 with
    | None => None
    | Some (fp, r2) =>
      match scan_exp r2 with
      | None => None
      | Some (ep, r3) => Some (sg ++ ip ++ fp ++ ep, r3)
      end
    end
  end.

(* strip a literal prefix *)
Fixpoint strip_prefix (p bs : list N) : option (list N) :=
  match p, bs with
  | [], _ => Some bs
  | x :: p', y :: bs' => if x =? y then strip_prefix p' bs' else None
  | _ :: _, [] => None
  end.

(* Recursive descent; [fuel] is any list at least about twice as long as the text (its elements are
   ignored); running out of fuel yields None (= not accepted).  parse_val consumes ws value ws. *)
Fixpoint parse_val (fuel : list N) (bs : list N) {struct fuel} : option (jtree * list N) :=
  match fuel with
  | [] => None
  | _ :: f =>
    match skip_ws bs with
    | [] => None
    | c :: r =>
      if c =? QUOTE then
        match scan_str r with Some (body, r') => Some (JStr body, skip_ws r') | None => None end
      else if c =? LBR then
        match skip_ws r with
        | c2 :: r2 =>
          if c2 =? RBR then Some (JArr [], skip_ws r2)
          else match parse_elems f (c2 :: r2) with
               | Some (ts, r') => Some (JArr ts, skip_ws r')
               | None => None
               end
        | [] => None
        end
      else if c =? LBRACE then
        match skip_ws r with
        | c2 :: r2 =>
          if c2 =? RBRACE then Some (JObj [], skip_ws r2)
          else match parse_members f (c2 :: r2) with
               | Some (ms, r') => Some (JObj ms, skip_ws r')
               | None => None
               end
        | [] => None
        end
      else if c =? 110 then
        match strip_prefix lit_null (c :: r) with Some r' => Some (JNull, skip_ws r') | None => None end
      else if c =? 116 then
        match strip_prefix lit_true (c :: r) with Some r' => Some (JBool true, skip_ws r') | None => None end
      else if c =? 102 then
        match strip_prefix lit_false (c :: r) with Some r' => Some (JBool false, skip_ws r') | None => None end
      else
        match scan_num (c :: r) with Some (n, r') => Some (JNum n, skip_ws r') | None => None end
    end
  end
(* value *( , value ) ] *)
with parse_elems (fuel : list N) (bs : list N) {struct fuel} : option (list jtree * list N) :=
  match fuel with
  | [] => None
  | _ :: f =>
    match parse_val f bs with
    | Some (t, c :: r) =>
      if c =? COMMA then
        match parse_elems f r with Some (ts, r') => Some (t :: ts, r') | None => None end
      else if c =? RBR then Some ([t], r)
      else None
    | _ => None
    end
  end
(* ws string ws : value *( , member ) } *)
with parse_members (fuel : list N) (bs : list N) {struct fuel} : option (list (list N * jtree) * list N) :=
  match fuel with
  | [] => None
  | _ :: f =>
    match skip_ws bs with
    | q :: r0 =>
      if q =? QUOTE then
        match scan_str r0 with
        | Some (key, r1) =>
          match skip_ws r1 with
          | col :: r2 =>
            if col =? COLON then
              match parse_val f r2 with
              | Some (t, c :: r) =>
                if c =? COMMA then
                  match parse_members f r with Some (ms, r') => Some ((key, t) :: ms, r') | None => None end
                else if c =? RBRACE then Some ([(key, t)], r)
                else None
              | _ => None
              end
            else None
          | [] => None
          end
        | None => None
        end
      else None
    | [] => None
    end
  end.

Definition fuel_for (bs : list N) : list N := 0 :: 0 :: 0 :: 0 :: bs ++ bs.

Definition json_parse (bs : list N) : option jtree :=
  match parse_val (fuel_for bs) bs with
  | Some (t, []) => Some t
  | _ => None
  end.

Definition json_validb (bs : list N) : bool :=
  match json_parse bs with Some _ => true | None => false end.

(* ------------------------------------------------------------------ endpoint shapes *)

Inductive shape :=
| SAny | SStr | SNum
| SStrLit (raw : list N)
| SArrOf (s : shape)
| STuple (ss : list shape)
| SObjAny
| SObj (fs : list (list N * shape))     (* exactly these keys, in this order *)
| SOr (a b : shape).

Fixpoint shape_ok (s : shape) (t : jtree) {struct s} : bool :=
  match s with
  | SAny => true
  | SStr => match t with JStr _ => true | _ => false end
  | SNum => match t with JNum _ => true | _ => false end
  | SStrLit raw => match t with JStr r => bytes_eqb raw r | _ => false end
  | SArrOf s' => match t with JArr ts => forallb (shape_ok s') ts | _ => false end
  | STuple ss =>
    match t with
    | JArr ts =>
      (fix go (ss : list shape) (ts : list jtree) {struct ss} : bool :=
         match ss, ts with
         | [], [] => true
         | s1 :: ss', t1 :: ts' => shape_ok s1 t1 && go ss' ts'
         | _, _ => false
         end) ss ts
    | _ => false
    end
  | SObjAny => match t with JObj _ => true | _ => false end
  | SObj fs =>
    match t with
    | JObj ms =>
      (fix go (fs : list (list N * shape)) (ms : list (list N * jtree)) {struct fs} : bool :=
         match fs, ms with
         | [], [] => true
         | f1 :: fs', m1 :: ms' => bytes_eqb (fst f1) (fst m1) && shape_ok (snd f1) (snd m1) && go fs' ms'
         | _, _ => false
         end) fs ms
    | _ => false
    end
  | SOr a b => shape_ok a t || shape_ok b t
  end.

Definition HasShape (s : shape) (bs : list N) : Prop := exists t, JsonT t bs /\ shape_ok s t = true.

Definition k_name : list N := Eval vm_compute in bs_of "name".
Definition k_scope : list N := Eval vm_compute in bs_of "scope".
Definition k_reservoir_size : list N := Eval vm_compute in bs_of "reservoir_size".
Definition k_events_seen : list N := Eval vm_compute in bs_of "events_seen".
Definition k_common : list N := Eval vm_compute in bs_of "common".
Definition k_attributes : list N := Eval vm_compute in bs_of "attributes".
Definition k_logs : list N := Eval vm_compute in bs_of "logs".
Definition k_Jars : list N := Eval vm_compute in bs_of "Jars".

(* metric_data: [run id, start, end, [[{name:..(,scope:..)}, [6 numbers]], ...]] *)
Definition shape_metric : shape :=
  STuple [SStr; SNum; SNum;
          SArrOf (STuple [SOr (SObj [(k_name, SStr)]) (SObj [(k_name, SStr); (k_scope, SStr)]);
                          STuple [SNum; SNum; SNum; SNum; SNum; SNum]])].
(* analytic_event_data / custom_event_data / error_event_data / span_event_data *)
Definition shape_events : shape :=
  STuple [SStr; SObj [(k_reservoir_size, SNum); (k_events_seen, SNum)]; SArrOf SAny].
(* log_event_data *)
Definition shape_log : shape :=
  STuple [SObj [(k_common, SObj [(k_attributes, SObjAny)]); (k_logs, SArrOf SAny)]].
(* update_loaded_modules *)
Definition shape_pkg : shape :=
  STuple [SStrLit k_Jars; SArrOf (STuple [SStr; SStr; SObj []])].
(* preconnect / connect: a one-element array holding the payload object *)
Definition shape_connect : shape := STuple [SObjAny].
(* error_data, transaction_sample_data, sql_trace_data (encoding/json over []interface{}) *)
Definition shape_errors : shape := STuple [SStr; SArrOf SAny].
Definition shape_traces : shape :=
  STuple [SStr; SArrOf (STuple [SAny; SAny; SAny; SAny; SAny; SAny; SAny; SAny; SAny; SAny])].
Definition shape_slowsqls : shape :=
  STuple [SArrOf (STuple [SAny; SAny; SAny; SAny; SAny; SAny; SAny; SAny; SAny; SAny])].

(* the monitors: the implementation's bytes parse as JSON and have the endpoint's shape *)
Definition shape_monitor (s : shape) (bs : list N) : bool :=
  match json_parse bs with Some t => shape_ok s t | None => false end.
(* AppendString output: one JSON string token, nothing else *)
Definition string_monitor (bs : list N) : bool :=
  match bs with
  | q :: r => (q =? QUOTE) && match scan_str r with Some (_, []) => true | _ => false end
  | [] => false
  end.

(* ------------------------------------------------------------------ comparing trees (correspondence only) *)

Fixpoint tree_eqb (a b : jtree) {struct a} : bool :=
  match a, b with
  | JNull, JNull => true
  | JBool x, JBool y => Bool.eqb x y
  | JNum x, JNum y => bytes_eqb x y
  | JStr x, JStr y => bytes_eqb x y
  | JArr xs, JArr ys =>
    (fix go (xs ys : list jtree) {struct xs} : bool :=
       match xs, ys with
       | [], [] => true
       | x :: xs', y :: ys' => tree_eqb x y && go xs' ys'
       | _, _ => false
       end) xs ys
  | JObj xs, JObj ys =>
    (fix go (xs ys : list (list N * jtree)) {struct xs} : bool :=
       match xs, ys with
       | [], [] => true
       | x :: xs', y :: ys' => bytes_eqb (fst x) (fst y) && tree_eqb (snd x) (snd y) && go xs' ys'
       | _, _ => false
       end) xs ys
  | _, _ => false
  end.

Definition tree_count (x : jtree) (l : list jtree) : N :=
  fold_left (fun n y => if tree_eqb x y then N.succ n else n) l 0.
(* equal as multisets *)
Definition trees_perm_eqb (l1 l2 : list jtree) : bool :=
  forallb (fun x => tree_count x l1 =? tree_count x l2) (l1 ++ l2).

(* two metric payloads that differ only in the order of the metric entries (Go map iteration order) *)
Definition metric_tree_eqb (a b : jtree) : bool :=
  match a, b with
  | JArr [i1; s1'; e1; JArr m1], JArr [i2; s2'; e2; JArr m2] =>
    tree_eqb i1 i2 && tree_eqb s1' s2' && tree_eqb e1 e2 && trees_perm_eqb m1 m2
  | _, _ => false
  end.

Definition arr_len (t : jtree) : option N :=
  match t with JArr ts => Some (N.of_nat (List.length ts)) | _ => None end.

(* ------------------------------------------------------------------ unicode/utf8 (go1.23) *)

Definition RuneError : N := 0xFFFD.
Definition RuneSelf : N := 0x80.

Definition xx : N := 0xF1.  (* invalid: size 1 *)
Definition as_ : N := 0xF0. (* ASCII: size 1 *)
Definition s1 : N := 0x02.  (* accept 0, size 2 *)
Definition s2 : N := 0x13.  (* accept 1, size 3 *)
Definition s3 : N := 0x03.  (* accept 0, size 3 *)
Definition s4 : N := 0x23.  (* accept 2, size 3 *)
Definition s5 : N := 0x34.  (* accept 3, size 4 *)
Definition s6 : N := 0x04.  (* accept 0, size 4 *)
Definition s7 : N := 0x44.  (* accept 4, size 4 *)

(* var first = [256]uint8{...}, row by row as in utf8.go *)
Definition first_table : list N :=
  [ as_; as_; as_; as_; as_; as_; as_; as_; as_; as_; as_; as_; as_; as_; as_; as_;   (* 0x00-0x0F *)
    as_; as_; as_; as_; as_; as_; as_; as_; as_; as_; as_; as_; as_; as_; as_; as_;   (* 0x10-0x1F *)
    as_; as_; as_; as_; as_; as_; as_; as_; as_; as_; as_; as_; as_; as_; as_; as_;   (* 0x20-0x2F *)
    as_; as_; as_; as_; as_; as_; as_; as_; as_; as_; as_; as_; as_; as_; as_; as_;   (* 0x30-0x3F *)
    as_; as_; as_; as_; as_; as_; as_; as_; as_; as_; as_; as_; as_; as_; as_; as_;   (* 0x40-0x4F *)
    as_; as_; as_; as_; as_; as_; as_; as_; as_; as_; as_; as_; as_; as_; as_; as_;   (* 0x50-0x5F *)
    as_; as_; as_; as_; as_; as_; as_; as_; as_; as_; as_; as_; as_; as_; as_; as_;   (* 0x60-0x6F *)
    as_; as_; as_; as_; as_; as_; as_; as_; as_; as_; as_; as_; as_; as_; as_; as_;   (* 0x70-0x7F *)
    xx; xx; xx; xx; xx; xx; xx; xx; xx; xx; xx; xx; xx; xx; xx; xx;   (* 0x80-0x8F *)
    xx; xx; xx; xx; xx; xx; xx; xx; xx; xx; xx; xx; xx; xx; xx; xx;   (* 0x90-0x9F *)
    xx; xx; xx; xx; xx; xx; xx; xx; xx; xx; xx; xx; xx; xx; xx; xx;   (* 0xA0-0xAF *)
    xx; xx; xx; xx; xx; xx; xx; xx; xx; xx; xx; xx; xx; xx; xx; xx;   (* 0xB0-0xBF *)
    xx; xx; s1; s1; s1; s1; s1; s1; s1; s1; s1; s1; s1; s1; s1; s1;   (* 0xC0-0xCF *)
    s1; s1; s1; s1; s1; s1; s1; s1; s1; s1; s1; s1; s1; s1; s1; s1;   (* 0xD0-0xDF *)
    s2; s3; s3; s3; s3; s3; s3; s3; s3; s3; s3; s3; s3; s4; s3; s3;   (* 0xE0-0xEF *)
    s5; s6; s6; s6; s7; xx; xx; xx; xx; xx; xx; xx; xx; xx; xx; xx ]. (* 0xF0-0xFF *)

(* first[b]; a value that is not a byte is given the invalid class (never happens for real bytes) *)
Definition first_info (b : N) : N :=
  if b <? 256 then nth (N.to_nat b) first_table xx else xx.

(* acceptRanges[i] = (lo, hi); entries 5..15 are the zero value *)
Definition accept_range (i : N) : N * N :=
  match i with
  | 0 => (0x80, 0xBF)
  | 1 => (0xA0, 0xBF)
  | 2 => (0x80, 0x9F)
  | 3 => (0x90, 0xBF)
  | 4 => (0x80, 0x8F)
  | _ => (0, 0)
  end.

(* an index past the end of the string: Go would panic; decode_rune never returns it (decode_no_crash) *)
Definition rune_crash : N * N := (0xFFFFFFFF, 0).

(* min(len s, 4) -- enough to decide n < sz, since sz <= 4 *)
Definition len4 (s : list N) : N :=
  match s with
  | [] => 0 | [_] => 1 | [_; _] => 2 | [_; _; _] => 3 | _ => 4
  end.

(* the multi-byte part of DecodeRuneInString: sz = int(x&7), (lo, hi) = acceptRanges[x>>4] *)
Definition decode_multi (sz lo hi c0 : N) (t0 : list N) : N * N :=
  if len4 (c0 :: t0) <? sz then (RuneError, 1)          (* n < sz *)
  else
    match t0 with
    | [] => rune_crash
    | c1 :: t1 =>
      if (c1 <? lo) || (hi <? c1) then (RuneError, 1)
      else if sz <=? 2 then (N.lor (N.shiftl (N.land c0 0x1F) 6) (N.land c1 0x3F), 2)
      else
        match t1 with
        | [] => rune_crash
        | c2 :: t2 =>
          if (c2 <? 0x80) || (0xBF <? c2) then (RuneError, 1)
          else if sz <=? 3 then
            (N.lor (N.lor (N.shiftl (N.land c0 0x0F) 12) (N.shiftl (N.land c1 0x3F) 6)) (N.land c2 0x3F), 3)
          else
            match t2 with
            | [] => rune_crash
            | c3 :: _ =>
              if (c3 <? 0x80) || (0xBF <? c3) then (RuneError, 1)
              else
                (N.lor (N.lor (N.lor (N.shiftl (N.land c0 0x07) 18) (N.shiftl (N.land c1 0x3F) 12))
                              (N.shiftl (N.land c2 0x3F) 6)) (N.land c3 0x3F), 4)
            end
        end
    end.

(* func DecodeRuneInString(s string) (rune, int) *)
Definition decode_rune (s : list N) : N * N :=
  match s with
  | [] => (RuneError, 0)
  | c0 :: t0 =>
    let x := first_info c0 in
    if as_ <=? x then
      (* mask := rune(x) << 31 >> 31: all ones iff x is odd (x == xx) *)
      ((if N.odd x then RuneError else c0), 1)
    else
      let accept := accept_range (N.shiftr x 4) in
      decode_multi (N.land x 7) (fst accept) (snd accept) c0 t0
  end.

(* ------------------------------------------------------------------ jsonx.AppendString *)

Definition hex_digits : list N := Eval vm_compute in bs_of "0123456789abcdef".
Definition hex_digit (i : N) : N := nth (N.to_nat i) hex_digits 0.

Definition esc_u00 : list N := Eval vm_compute in bs_of "\u00".
Definition esc_ufffd : list N := [92; 117; 102; 102; 102; 100].  (* backslash u f f f d *)
Definition esc_u202 : list N := Eval vm_compute in bs_of "\u202".

(* what the loop writes for a byte b < RuneSelf *)
Definition escape_ascii (b : N) : list N :=
  if (0x20 <=? b) && negb (b =? BSLASH) && negb (b =? QUOTE) && negb (b =? 60) && negb (b =? 62) && negb (b =? 38)
  then [b]                                   (* copied verbatim (by the s[start:i] flush) *)
  else if (b =? BSLASH) || (b =? QUOTE) then [BSLASH; b]
  else if b =? 10 then [BSLASH; 110]
  else if b =? 13 then [BSLASH; 114]
  else if b =? 9 then [BSLASH; 116]
  else esc_u00 ++ [hex_digit (N.shiftr b 4); hex_digit (N.land b 0xF)].

(* The loop of AppendString.  The Go code remembers [start] and copies s[start:i] lazily; the bytes
   written are the same as writing every verbatim chunk as soon as it is passed, which is what this
   function does.  [fuel] is the string itself (each iteration consumes at least one byte). *)
Fixpoint escape_loop (fuel : list N) (s : list N) {struct fuel} : list N :=
  match fuel with
  | [] => []
  | _ :: f =>
    match s with
    | [] => []
    | b :: r =>
      if b <? RuneSelf then escape_ascii b ++ escape_loop f r
      else
        let (c, size) := decode_rune s in
        if (c =? RuneError) && (size =? 1) then esc_ufffd ++ escape_loop f (skipn (N.to_nat size) s)
        else if (c =? 0x2028) || (c =? 0x2029)
        then esc_u202 ++ [hex_digit (N.land c 0xF)] ++ escape_loop f (skipn (N.to_nat size) s)
        else firstn (N.to_nat size) s ++ escape_loop f (skipn (N.to_nat size) s)
    end
  end.

Definition append_string (s : list N) : list N := QUOTE :: escape_loop s s ++ [QUOTE].

(* ------------------------------------------------------------------ buffer helpers *)

(* buf.Truncate(buf.Len() - 1) *)
Definition truncate1 (buf : list N) : list N := removelast buf.
(* buf.Bytes()[buf.Len()-1] = c *)
Definition set_last (buf : list N) (c : N) : list N :=
  match buf with [] => [] | _ => removelast buf ++ [c] end.

(* ------------------------------------------------------------------ jsonx.AppendFloat(Array) *)

(* a float64 as the encoder sees it: finite (with strconv's rendering of it, the oracle) or NaN/Inf *)
Inductive fval := FNum (printed : list N) | FBad.

Definition append_float (buf : list N) (x : fval) : option (list N) :=
  match x with FNum p => Some (buf ++ p) | FBad => None end.

Fixpoint append_float_loop (buf : list N) (a : list fval) : option (list N) :=
  match a with
  | [] => Some buf
  | x :: r => match append_float buf x with
              | None => None
              | Some b => append_float_loop (b ++ [COMMA]) r
              end
  end.

Definition append_float_array (buf : list N) (a : list fval) : option (list N) :=
  match append_float_loop (buf ++ [LBR]) a with
  | None => None
  | Some b => Some ((match a with [] => b | _ => truncate1 b end) ++ [RBR])
  end.

(* ------------------------------------------------------------------ MetricTable.CollectorJSON *)

Record metric_entry := { m_name : list N; m_scope : list N; m_data : list fval (* six values *) }.

Definition s_name_colon : list N := Eval vm_compute in bs_of """name"":".
Definition s_scope_colon : list N := Eval vm_compute in bs_of ",""scope"":".

Definition metric_one (buf : list N) (m : metric_entry) : option (list N) :=
  let b := buf ++ [LBR; LBRACE] ++ s_name_colon ++ append_string (m_name m) in
  let b := match m_scope m with [] => b | _ => b ++ s_scope_colon ++ append_string (m_scope m) end in
  let b := b ++ [RBRACE; COMMA] in
  match append_float_array b (m_data m) with
  | None => None
  | Some b => Some (b ++ [RBR; COMMA])
  end.

Fixpoint metric_loop (buf : list N) (ms : list metric_entry) : option (list N) :=
  match ms with
  | [] => Some buf
  | m :: r => match metric_one buf m with None => None | Some b => metric_loop b r end
  end.

(* id: run id (bytes of the Go string); t0 t1: strconv.AppendInt renderings of the two unix times;
   count: mt.count; ms: the entries of mt.metrics in the order the map iteration produced them *)
Definition metric_payload (id t0 t1 : list N) (count : N) (ms : list metric_entry) : option (list N) :=
  let b := [LBR] ++ append_string id ++ [COMMA] ++ t0 ++ [COMMA] ++ t1 ++ [COMMA] ++ [LBR] in
  match metric_loop b ms with
  | None => None
  | Some b =>
    let b := if 0 <? count then truncate1 b else b in
    Some (b ++ [RBR; RBR])
  end.

(* MetricTable bookkeeping that decides the trailing comma: mt.count against the keys of mt.metrics.
   mergeMetric is the only writer of both (AddRaw/AddCount/AddValue/Merge/MergeFailed/ApplyRules go through it). *)
Record mtab := { mt_count : N; mt_keys : list (list N * list N) }.
Definition mt_new : mtab := {| mt_count := 0; mt_keys := [] |}.
(* refused = mt.full() && m.forced == Unforced *)
Definition mt_merge (t : mtab) (op : (list N * list N) * bool) : mtab :=
  let (k, refused) := op in
  if existsb (fun k' => bytes_eqb (fst k) (fst k') && bytes_eqb (snd k) (snd k')) (mt_keys t) then t   (* aggregate into the entry *)
  else if refused then t                                                                             (* numDropped++ *)
  else {| mt_count := N.succ (mt_count t); mt_keys := k :: mt_keys t |}.
Definition mt_run (ops : list ((list N * list N) * bool)) : mtab := fold_left mt_merge ops mt_new.

(* ------------------------------------------------------------------ analyticsEvents.CollectorJSON *)

Definition s_reservoir : list N := Eval vm_compute in bs_of "{""reservoir_size"":".
Definition s_events_seen : list N := Eval vm_compute in bs_of ",""events_seen"":".

(* encoding/json's rendering of struct{ReservoirSize, EventsSeen int} (ints printed by strconv) *)
Definition sampling_json (rs es : list N) : list N := s_reservoir ++ rs ++ s_events_seen ++ es ++ [RBRACE].

Fixpoint events_loop (first : bool) (buf : list N) (es : list (list N)) : list N :=
  match es with
  | [] => buf
  | e :: r => events_loop false ((if first then buf else buf ++ [COMMA]) ++ e) r
  end.

(* id_json: what enc.Encode(id) wrote, without the trailing newline *)
Definition event_payload (id_json rs es : list N) (events : list (list N)) : list N :=
  let b := [LBR] ++ id_json ++ [NL] in
  let b := set_last b COMMA in
  let b := b ++ sampling_json rs es ++ [NL] in
  let b := set_last b COMMA in
  let b := events_loop true (b ++ [LBR]) events in
  b ++ [RBR; RBR].

(* ------------------------------------------------------------------ LogEvents.CollectorJSON *)

Definition s_log_head : list N := Eval vm_compute in bs_of "[{""common"": {""attributes"": ".
Definition s_log_mid : list N := Eval vm_compute in bs_of "},""logs"": [".
Definition s_empty_obj : list N := Eval vm_compute in bs_of "{}".

(* len(data) >= 4 *)
Definition at_least4 (d : list N) : bool :=
  match d with _ :: _ :: _ :: _ :: _ => true | _ => false end.

Fixpoint log_loop (nwrit : bool (* nwrit > 0 *)) (buf : list N) (es : list (list N)) : list N :=
  match es with
  | [] => buf
  | e :: r =>
    if at_least4 e then log_loop true ((if nwrit then buf ++ [COMMA] else buf) ++ e) r
    else log_loop nwrit buf r
  end.

(* labels_json: json.Marshal(labelMap), None when it failed *)
Definition log_payload (labels_json : option (list N)) (events : list (list N)) : list N :=
  let b := s_log_head ++ match labels_json with Some j => j | None => s_empty_obj end in
  let b := b ++ s_log_mid in
  let b := log_loop false b events in
  b ++ [RBR; RBRACE; RBR].

(* ------------------------------------------------------------------ PhpPackages / filterPhpPackages *)

Definition s_jars_empty : list N := Eval vm_compute in bs_of "[""Jars"",[]]".
Definition s_jars : list N := Eval vm_compute in bs_of """Jars"",".
Definition s_pkg_tail : list N := Eval vm_compute in bs_of ",{}],".

(* data = None models a nil slice *)
Definition pkg_empty (num_seen : N) (data : option (list N)) : bool :=
  match data with None => true | Some _ => num_seen =? 0 end.

Definition pkg_payload (num_seen : N) (data : option (list N)) : list N :=
  if pkg_empty num_seen data then s_jars_empty
  else [LBR] ++ s_jars ++ (if 0 <? num_seen then match data with Some d => d | None => [] end else []) ++ [RBR].

(* one element of the decoded package array: a 3-element array (name / version; a non-string gives the empty string)
   or anything else (wrong arity / not an array) *)
Inductive pkg_item := PkgOk (name version : list N) | PkgMalformed.

Definition key_eqb (a b : list N * list N) : bool := bytes_eqb (fst a) (fst b) && bytes_eqb (snd a) (snd b).
Definition key_seen (seen : list (list N * list N)) (k : list N * list N) : bool := existsb (key_eqb k) seen.

(* the decoding loop: returns None when the function returns nil because of a malformed element;
   otherwise the updated app.PhpPackages set and newPkgs *)
Fixpoint filter_loop (seen : list (list N * list N)) (items : list pkg_item) (newp : list (list N * list N))
  : option (list (list N * list N) * list (list N * list N)) :=
  match items with
  | [] => Some (seen, newp)
  | PkgMalformed :: _ => None
  | PkgOk n v :: r =>
    if key_seen seen (n, v) then filter_loop seen r newp
    else filter_loop ((n, v) :: seen) r (newp ++ [(n, v)])
  end.

Fixpoint pkg_loop (buf : list N) (ps : list (list N * list N)) : list N :=
  match ps with
  | [] => buf
  | (n, v) :: r => pkg_loop (buf ++ [LBR] ++ append_string n ++ [COMMA] ++ append_string v ++ s_pkg_tail) r
  end.

(* decoded = None: data was nil or json.Unmarshal failed.  Result None = nil slice. *)
Definition filter_php_packages (seen : list (list N * list N)) (decoded : option (list pkg_item))
  : option (list N) :=
  match decoded with
  | None => None
  | Some items =>
    match filter_loop seen items [] with
    | None => None
    | Some (_, []) => None
    | Some (_, newp) =>
      let res := pkg_loop [LBR] newp in
      Some (truncate1 res ++ [RBR])
    end
  end.

(* what harvestByType sends: the filtered list wrapped by PhpPackages.CollectorJSON; None = Empty(), not sent *)
Definition pkg_harvest_payload (seen : list (list N * list N)) (num_seen : N) (decoded : option (list pkg_item))
  : option (list N) :=
  let data := filter_php_packages seen decoded in
  if pkg_empty num_seen data then None else Some (pkg_payload num_seen data).

(* ------------------------------------------------------------------ EncodePayload *)

(* encoded = what enc.Encode(&payload) wrote without its trailing newline; None = it failed *)
Definition encode_payload (encoded : option (list N)) : option (list N) :=
  match encoded with
  | None => None
  | Some j => Some (set_last ([LBR] ++ j ++ [NL]) RBR)
  end.

(* ------------------------------------------------------------------ JSONString.MarshalJSON *)

Definition json_string_marshal (js : option (list N)) : list N :=
  match js with None => lit_null | Some d => d end.
