(* ProtoDecode.v -- C10: what the daemon does with the bytes of one agent message.  Definitions only.

   Transcribed from daemon/internal/newrelic/commands.go (processBinary, UnmarshalAppInfo,
   FlatTxn.AggregateInto, aggregateMetrics), listener.go (serve: recover), processor.go
   (processTxnData: recover; processAppInfo; processConnectAttempt -> NewAppHarvest ->
   infinite_tracing.NewTraceObserver: make(chan, SpanQueueSize)) and cmd/daemon/worker.go (crashGuard).
   The field positions (vtable offsets, struct member offsets, union tags) are those of the generated
   Go accessors, read from Gen/Schema_gen.v.  A Go panic is None in the option monad and propagates to the
   nearest recover the code has. *)
From Coq Require Import NArith ZArith String List Bool Ascii.
From Verif Require Import SchemaTypes Flatbuf2.
From Verif.Gen Require Import Schema_gen Limits_gen.
Import ListNotations.
Open Scope N_scope.

Definition bytes := list N.

(* ---- positions, from the generated Go code *)
Fixpoint find_fld (f : string) (fs : list fieldr) : option fieldr :=
  match fs with [] => None | x :: r => if String.eqb f (fname x) then Some x else find_fld f r end.
Fixpoint find_tab (T : string) (ts : list tabler) : list fieldr :=
  match ts with [] => [] | (n, _, fs) :: r => if String.eqb T n then fs else find_tab T r end.
Fixpoint find_struct (S : string) (ss : list structr) : list fieldr :=
  match ss with [] => [] | (n, _, _, fs) :: r => if String.eqb S n then fs else find_struct S r end.
(* vtable offset the getter T.f passes to Offset *)
Definition vo (T f : string) : N :=
  match find_fld f (find_tab T go_read_tables) with Some x => fnum x | None => 0 end.
(* byte offset of struct member S.m *)
Definition so (S m : string) : N :=
  match find_fld m (find_struct S go_struct_read) with Some x => fnum x | None => 0 end.
Fixpoint find_enum (E : string) (es : list enumr) : list (string * Z) :=
  match es with [] => [] | (n, ms) :: r => if String.eqb E n then ms else find_enum E r end.
Fixpoint find_member (m : string) (ms : list (string * Z)) : N :=
  match ms with [] => 255 | (n, v) :: r => if String.eqb m n then Z.to_N v else find_member m r end.
Definition tag (m : string) : N := find_member m (find_enum "MessageBody" go_enums).
Definition min_flatbuffer_size : N := Z.to_N MinFlatbufferSize.
Definition app_limit : N := Z.to_N AppLimit.

(* ---- a flatbuffers.Table value: Bytes and Pos.  The zero value (nil Bytes, Pos 0) is ([], 0). *)
Record tbl := mkTbl { tb : bytes; tp : N }.
Definition zero_tbl : tbl := mkTbl [] 0.
Definition t_bytes (t : tbl) (T f : string) := acc_bytes (tb t) (tp t) (vo T f).
Definition t_scalar (k : N) (t : tbl) (T f : string) := acc_scalar (tb t) k (tp t) (vo T f).
Definition t_bool (t : tbl) (T f : string) := acc_bool (tb t) (tp t) (vo T f).
Definition t_veclen (t : tbl) (T f : string) := acc_veclen (tb t) (tp t) (vo T f).
(* obj.Init(rcv._tab.Bytes, x): the child shares the parent's bytes; an accessor that returns nil/false
   leaves obj as it was *)
Definition t_child (t : tbl) (r : option (option N)) (prev : tbl) : option tbl :=
  match r with
  | None => None
  | Some None => Some prev
  | Some (Some x) => Some (mkTbl (tb t) x)
  end.
Definition ob (o : option bytes) : bytes := match o with Some l => l | None => [] end.

(* ---- contributions of one transaction to the harvest of its run, in the order AggregateInto makes them *)
Inductive contrib :=
| CSupport (which : N) (v : N)     (* h.Metrics.AddValue("Supportability/TxnData/...", "", float64(v), Forced):
                                      1 Size, 2 CustomEvents, 3 Metrics, 4 SlowSQL, 5 TraceSize *)
| CPid (pid : N)
| CTxnEvent (synthetics : bool) (data : bytes) (prio : N)
| CMetric (name : bytes) (scope : option bytes) (d : list N) (forced : bool)
| CError (prio : N) (data : bytes)
| CSlow (id cnt tot mn mx : N) (metric query params : bytes)
| CCustom (data : bytes) (prio : N)
| CSpan (data : bytes) (prio : N)
| CLog (data : bytes) (prio : N)
| CLabels (data : bytes)
| CPackages (data : option bytes)
| CTrace (ts dur : N) (guid : bytes) (force : bool) (data : bytes)
| CErrEvent (data : bytes) (prio : N).

(* decoding with partial effects: the contributions made so far survive a panic *)
Definition M (A : Type) := list contrib -> option A * list contrib.
Definition ret {A} (a : A) : M A := fun acc => (Some a, acc).
Definition bind {A B} (m : M A) (f : A -> M B) : M B :=
  fun acc => match m acc with (Some a, acc') => f a acc' | (None, acc') => (None, acc') end.
Definition lift {A} (o : option A) : M A := fun acc => (o, acc).
Definition emit (c : contrib) : M unit := fun acc => (Some tt, c :: acc).
Notation "x <- m ;; f" := (bind m (fun x => f)) (at level 61, m at next level, right associativity).
Notation "m ;;; f" := (bind m (fun _ => f)) (at level 61, right associativity).

(* for i := 0; i < n; i++ { body }   -- n is a decoded uint32; the loop ends at the first panic.
   Structural on the binary representation of n: exactly n iterations unless one panics. *)
Section Loop.
  Variable St : Type.
  Variable body : N -> St -> M St.
  Fixpoint iterP (p : positive) (i : N) (s : St) : M (N * St) :=
    match p with
    | xH => s' <- body i s ;; ret (i + 1, s')
    | xO q => r <- iterP q i s ;; iterP q (fst r) (snd r)
    | xI q => s' <- body i s ;; r <- iterP q (i + 1) s' ;; iterP q (fst r) (snd r)
    end.
  Definition for_loop (n : N) (s : St) : M St :=
    match n with
    | N0 => ret s
    | Npos p => r <- iterP p 0 s ;; ret (snd r)
    end.
End Loop.

(* for i < n { txn.F(&e, i); body e }  with e declared outside the loop body *)
Definition vec_loop (t : tbl) (T f : string) (n : N) (body : tbl -> M unit) : M unit :=
  r <- for_loop tbl (fun i e =>
         e' <- lift (t_child t (acc_vecelem (tb t) (tp t) (vo T f) i) e) ;;
         body e' ;;; ret e') n zero_tbl ;;
  ret tt.

Definition md_get (d : tbl) (m : string) : M N := lift (struct_get (tb d) (tp d) (so "MetricData" m) 8).
Definition md_bool (d : tbl) (m : string) : M bool := lift (get_bool (tb d) (wrap32 (tp d + so "MetricData" m))).

(* aggregateMetrics: `var m protocol.Metric; var data protocol.MetricData` live across the iterations *)
Definition aggregate_metrics (txn : tbl) (txn_name : bytes) : M unit :=
  n <- lift (t_veclen txn "Transaction" "metrics") ;;
  r <- for_loop (tbl * tbl) (fun i st =>
         m <- lift (t_child txn (acc_vecelem (tb txn) (tp txn) (vo "Transaction" "metrics") i) (fst st)) ;;
         d <- lift (t_child m (acc_struct (tb m) (tp m) (vo "Metric" "data")) (snd st)) ;;
         d0 <- md_get d "count" ;; d1 <- md_get d "total" ;; d2 <- md_get d "exclusive" ;;
         d3 <- md_get d "min" ;; d4 <- md_get d "max" ;; d5 <- md_get d "sum_squares" ;;
         forced <- md_bool d "forced" ;;
         name <- lift (t_bytes m "Metric" "name") ;;
         emit (CMetric (ob name) None [d0; d1; d2; d3; d4; d5] forced) ;;;
         scoped <- md_bool d "scoped" ;;
         (if scoped then emit (CMetric (ob name) (Some txn_name) [d0; d1; d2; d3; d4; d5] forced) else ret tt) ;;;
         ret (m, d)) n (zero_tbl, zero_tbl) ;;
  ret tt.

Definition event_loop (txn : tbl) (f : string) (mk : bytes -> contrib) : M unit :=
  n <- lift (t_veclen txn "Transaction" f) ;;
  vec_loop txn "Transaction" f n (fun e => d <- lift (t_bytes e "Event" "data") ;; emit (mk (ob d))).

(* FlatTxn.AggregateInto *)
Definition aggregate_into (bs : bytes) : M unit :=
  root <- lift (get_u32 bs 0) ;;                                   (* protocol.GetRootAsMessage(t, 0) *)
  let msg := mkTbl bs root in
  txn <- lift (t_child msg (acc_union bs root (vo "Message" "data")) zero_tbl) ;;   (* msg.Data(&tbl); txn.Init *)
  emit (CSupport 1 (lenN bs)) ;;;
  nc <- lift (t_veclen txn "Transaction" "custom_events") ;; emit (CSupport 2 nc) ;;;
  nm <- lift (t_veclen txn "Transaction" "metrics") ;; emit (CSupport 3 nm) ;;;
  ns <- lift (t_veclen txn "Transaction" "slow_sqls") ;; emit (CSupport 4 ns) ;;;
  name <- lift (t_bytes txn "Transaction" "name") ;;
  uri <- lift (t_bytes txn "Transaction" "uri") ;;
  prio <- lift (t_scalar 8 txn "Transaction" "sampling_priority") ;;
  synth <- lift (t_bytes txn "Transaction" "synthetics_resource_id") ;;
  pid <- lift (t_scalar 4 txn "Transaction" "pid") ;;
  emit (CPid pid) ;;;
  ev <- lift (acc_table (tb txn) (tp txn) (vo "Transaction" "txn_event")) ;;
  (match ev with
   | Some x => d <- lift (t_bytes (mkTbl (tb txn) x) "Event" "data") ;;
               emit (CTxnEvent (negb (lenN (ob synth) =? 0)) (ob d) prio)
   | None => ret tt end) ;;;
  aggregate_metrics txn (ob name) ;;;
  ne <- lift (t_veclen txn "Transaction" "errors") ;;
  vec_loop txn "Transaction" "errors" ne (fun e =>
     p <- lift (t_scalar 4 e "Error" "priority") ;; d <- lift (t_bytes e "Error" "data") ;; emit (CError p (ob d))) ;;;
  nq <- lift (t_veclen txn "Transaction" "slow_sqls") ;;
  vec_loop txn "Transaction" "slow_sqls" nq (fun s =>
     id <- lift (t_scalar 4 s "SlowSQL" "id") ;; cnt <- lift (t_scalar 4 s "SlowSQL" "count") ;;
     tot <- lift (t_scalar 8 s "SlowSQL" "total_micros") ;; mn <- lift (t_scalar 8 s "SlowSQL" "min_micros") ;;
     mx <- lift (t_scalar 8 s "SlowSQL" "max_micros") ;;
     me <- lift (t_bytes s "SlowSQL" "metric") ;; q <- lift (t_bytes s "SlowSQL" "query") ;;
     pa <- lift (t_bytes s "SlowSQL" "params") ;;
     emit (CSlow id cnt tot mn mx (ob me) (ob q) (ob pa))) ;;;
  event_loop txn "custom_events" (fun d => CCustom d prio) ;;;
  event_loop txn "span_events" (fun d => CSpan d prio) ;;;
  event_loop txn "log_events" (fun d => CLog d prio) ;;;
  lb <- lift (acc_table (tb txn) (tp txn) (vo "Transaction" "log_forwarding_labels")) ;;
  (match lb with
   | Some x => d <- lift (t_bytes (mkTbl (tb txn) x) "Event" "data") ;; emit (CLabels (ob d))
   | None => ret tt end) ;;;
  pk <- lift (acc_table (tb txn) (tp txn) (vo "Transaction" "php_packages")) ;;
  (match pk with
   | Some x => d <- lift (t_bytes (mkTbl (tb txn) x) "Event" "data") ;; emit (CPackages d)
   | None => ret tt end) ;;;
  tr <- lift (acc_table (tb txn) (tp txn) (vo "Transaction" "trace")) ;;
  (match tr with
   | Some x =>
       let t := mkTbl (tb txn) x in
       d <- lift (t_bytes t "Trace" "data") ;;
       ts <- lift (t_scalar 8 t "Trace" "timestamp") ;; du <- lift (t_scalar 8 t "Trace" "duration") ;;
       g <- lift (t_bytes t "Trace" "guid") ;; fp <- lift (t_bool t "Trace" "force_persist") ;;
       emit (CSupport 5 (lenN (ob d))) ;;; emit (CTrace ts du (ob g) fp (ob d))
   | None => ret tt end) ;;;
  event_loop txn "error_events" (fun d => CErrEvent d prio).

(* (completed?, contributions in order) *)
Definition decode_txn (bs : bytes) : bool * list contrib :=
  match aggregate_into bs [] with
  | (Some _, acc) => (true, rev acc)
  | (None, acc) => (false, rev acc)
  end.

(* ---- the connection goroutine: processBinary *)
Record appinfo := mkApp {
  ai_license : bytes; ai_appname : bytes; ai_language : bytes; ai_version : bytes; ai_redirect : bytes;
  ai_environment : bytes; ai_labels : bytes; ai_metadata : bytes; ai_host : bytes; ai_display_host : bytes;
  ai_policy_token : bytes; ai_policies : bytes; ai_to_host : bytes; ai_to_port : N; ai_queue_size : N;
  ai_high_security : bool; ai_docker_id : bytes; ai_settings : bytes;
  ai_span_limit : N; ai_log_limit : N; ai_custom_limit : N }.

Definition unmarshal_appinfo (app : tbl) : option appinfo :=
  let B f := match t_bytes app "App" f with Some o => Some (ob o) | None => None end in
  match B "supported_security_policies", B "license", B "app_name", B "agent_language", B "agent_version",
        B "redirect_collector", B "environment", B "labels", B "metadata", B "host", B "display_host" with
  | Some pol, Some lic, Some an, Some al, Some av, Some rc, Some env, Some lab, Some md, Some h, Some dh =>
      match B "security_policy_token", B "trace_observer_host", t_scalar 2 app "App" "trace_observer_port",
            t_scalar 8 app "App" "span_queue_size", t_bool app "App" "high_security", B "docker_id", B "settings" with
      | Some tok, Some toh, Some top, Some qs, Some hs, Some did, Some set =>
          match t_scalar 8 app "App" "span_events_max_samples_stored",
                t_scalar 8 app "App" "log_events_max_samples_stored",
                t_scalar 8 app "App" "custom_events_max_samples_stored" with
          | Some sl, Some ll, Some cl =>
              Some (mkApp lic an al av rc env lab md h dh tok pol toh top qs hs did set sl ll cl)
          | _, _, _ => None
          end
      | _, _, _, _, _, _, _ => None
      end
  | _, _, _, _, _, _, _, _, _, _, _ => None
  end.

Inductive action :=
| ActTxn (id : bytes)                                     (* handler.IncomingTxnData(id, FlatTxn(data)) *)
| ActApp (id : option bytes) (info : appinfo)             (* handler.IncomingAppInfo(runID, info) *)
| ActSpan (id : bytes) (count : N) (batch : option bytes). (* handler.IncomingSpanBatch *)
Inductive conn_result :=
| ConnNone                    (* return nil, nil *)
| ConnErr                     (* return nil, errors.New(...) *)
| ConnAct (a : action).

(* None = a panic on the connection goroutine *)
Definition process_binary (bs : bytes) : option conn_result :=
  if lenN bs =? 0 then Some ConnNone else
  match get_u32 bs 0 with                                  (* flatbuffers.GetUOffsetT(data[0:]) *)
  | None => None
  | Some offset =>
      (* if len(data)-limits.MinFlatbufferSize <= offset  (signed ints) *)
      if (Z.of_N (lenN bs) - Z.of_N min_flatbuffer_size <=? Z.of_N offset)%Z then Some ConnErr else
      let msg := mkTbl bs offset in
      match t_scalar 1 msg "Message" "data_type" with      (* msg.DataType() *)
      | None => None
      | Some ty =>
          if ty =? tag "Transaction" then
            match acc_union bs offset (vo "Message" "data") with
            | None => None
            | Some None => Some ConnErr
            | Some (Some _) =>
                match t_bytes msg "Message" "agent_run_id" with
                | None => None
                | Some id => if 0 <? lenN (ob id) then Some (ConnAct (ActTxn (ob id))) else Some ConnErr
                end
            end
          else if ty =? tag "App" then
            match acc_union bs offset (vo "Message" "data") with
            | None => None
            | Some None => Some ConnErr
            | Some (Some x) =>
                match unmarshal_appinfo (mkTbl bs x) with
                | None => None
                | Some info =>
                    match t_bytes msg "Message" "agent_run_id" with
                    | None => None
                    | Some id => Some (ConnAct (ActApp id info))
                    end
                end
            end
          else if ty =? tag "SpanBatch" then
            match acc_union bs offset (vo "Message" "data") with
            | None => None
            | Some None => Some ConnErr
            | Some (Some x) =>
                let b := mkTbl bs x in
                match t_bytes msg "Message" "agent_run_id" with
                | None => None
                | Some id =>
                    if lenN (ob id) =? 0 then Some ConnErr else
                    match t_scalar 8 b "SpanBatch" "count", t_bytes b "SpanBatch" "encoded" with
                    | Some c, Some e => Some (ConnAct (ActSpan (ob id) c e))
                    | _, _ => None
                    end
                end
            end
          else if (ty =? tag "NONE") || (ty =? tag "AppReply") then Some ConnNone
          else Some ConnErr
      end
  end.

(* ---- the processor *)
Definition bytes_eqb (a b : bytes) : bool := if list_eq_dec N.eq_dec a b then true else false.

(* AppInfo.Key(): the policies hash is represented by the raw policy list *)
Definition key_eqb (a b : appinfo) : bool :=
  bytes_eqb (ai_license a) (ai_license b) && bytes_eqb (ai_appname a) (ai_appname b) &&
  bytes_eqb (ai_redirect a) (ai_redirect b) && Bool.eqb (ai_high_security a) (ai_high_security b) &&
  bytes_eqb (ai_language a) (ai_language b) && bytes_eqb (ai_policies a) (ai_policies b) &&
  bytes_eqb (ai_host a) (ai_host b) && bytes_eqb (ai_to_host a) (ai_to_host b) && (ai_to_port a =? ai_to_port b).

Record pstate := mkP {
  ps_harvests : list (bytes * list contrib);   (* p.harvests: run id -> what its harvest received, in order *)
  ps_apps : list appinfo }.                    (* p.apps *)

Fixpoint find_run (id : bytes) (hs : list (bytes * list contrib)) : option (list contrib) :=
  match hs with [] => None | (k, h) :: r => if bytes_eqb id k then Some h else find_run id r end.
Fixpoint add_to_run (id : bytes) (cs : list contrib) (hs : list (bytes * list contrib)) :=
  match hs with
  | [] => []
  | (k, h) :: r => if bytes_eqb id k then (k, (h ++ cs)%list) :: r else (k, h) :: add_to_run id cs r
  end.
Fixpoint set_run (id : bytes) (hs : list (bytes * list contrib)) :=
  match hs with
  | [] => [(id, [])]
  | (k, h) :: r => if bytes_eqb id k then (k, []) :: r else (k, h) :: set_run id r
  end.

(* make(chan *spanBatch, n): panics ("makechan: size out of range") when n*8 exceeds maxAlloc; below that the
   runtime tries to allocate n*8 bytes and dies ("out of memory", not recoverable) when the machine cannot give
   them.  chan_budget is the largest queue the machine can allocate (a parameter of the environment). *)
Definition max_chan_elems : N := 35184372088832 - 12.    (* (2^48 - hchanSize) / 8 on linux/amd64 *)

Inductive event :=
| EvMsg (bs : bytes)                          (* one message delivered to CommandsHandler.HandleMessage *)
| EvConnected (k : nat) (rid : bytes).         (* the collector accepted the connect of application k: run id rid *)

Inductive conn_out :=
| OutNone              (* no reply, no error *)
| OutErr               (* protocol error logged, connection kept *)
| OutPanic             (* panic recovered by serve: this connection is closed *)
| OutReply (run_id_valid : bool).

Inductive presult :=
| Running (st : pstate) (o : conn_out)
| Crashed.             (* panic on the processor goroutine reaches crashGuard: the worker exits with status 3 *)

Section Step.
  Variable chan_budget : N.

  Definition step (st : pstate) (ev : event) : presult :=
    match ev with
    | EvMsg bs =>
        match process_binary bs with
        | None => Running st OutPanic                       (* serve: defer recover() *)
        | Some ConnNone => Running st OutNone
        | Some ConnErr => Running st OutErr
        | Some (ConnAct (ActTxn id)) =>
            match find_run id (ps_harvests st) with
            | None => Running st OutNone                    (* "run id no longer valid" *)
            | Some _ =>
                (* processTxnData: defer recover(); d.Sample.AggregateInto(h.Harvest) *)
                Running (mkP (add_to_run id (snd (decode_txn bs)) (ps_harvests st)) (ps_apps st)) OutNone
            end
        | Some (ConnAct (ActApp id info)) =>
            let valid := match id with Some i => match find_run i (ps_harvests st) with Some _ => true | None => false end
                                     | None => false end in
            if valid then Running st (OutReply true)
            else if existsb (key_eqb info) (ps_apps st) then Running st (OutReply false)
            else if app_limit <=? lenN (map ai_to_port (ps_apps st)) then Running st (OutReply false)
            else Running (mkP (ps_harvests st) (ps_apps st ++ [info])%list) (OutReply false)
        | Some (ConnAct (ActSpan id c b)) => Running st OutNone      (* queueing: TraceObs (C16) *)
        end
    | EvConnected k rid =>
        match nth_error (ps_apps st) k with
        | None => Running st OutNone
        | Some info =>
            (* processConnectAttempt -> NewAppHarvest: a trace observer only when a host was given *)
            if negb (lenN (ai_to_host info) =? 0) && negb (ai_queue_size info <=? chan_budget)
            then Crashed
            else Running (mkP (set_run rid (ps_harvests st)) (ps_apps st)) OutNone
        end
    end.

  Fixpoint run (st : pstate) (evs : list event) : option pstate :=
    match evs with
    | [] => Some st
    | e :: r => match step st e with Running st' _ => run st' r | Crashed => None end
    end.
End Step.

(* ---- hostile VALUES in well-formed messages: what each agent-controlled number reaches *)
(* int(uint64): two's complement *)
Definition to_int64 (v : N) : Z := if v <? 9223372036854775808 then Z.of_N v else (Z.of_N v - 18446744073709551616)%Z.
(* collector.NewHarvestLimits: an agent limit is used only when 0 <= limit < daemon maximum *)
Definition agent_limit (v : N) (daemon_max : Z) : Z :=
  let l := to_int64 v in if ((l <? daemon_max) && (0 <=? l))%Z then l else daemon_max.
(* processLogEventLimits (report periods equal): a negative or larger agent limit is ignored *)
Definition final_log_limit (v : N) (collector_limit : Z) : Z :=
  let l := to_int64 v in if ((0 <=? l) && (l <? collector_limit))%Z then l else collector_limit.

(* ---- projections used by the correspondence: category code and payload of a contribution *)
Definition bytes_of_string (s : string) : bytes := map N_of_ascii (list_ascii_of_string s).
Definition support_name (w : N) : string :=
  if w =? 1 then "Supportability/TxnData/Size" else if w =? 2 then "Supportability/TxnData/CustomEvents"
  else if w =? 3 then "Supportability/TxnData/Metrics" else if w =? 4 then "Supportability/TxnData/SlowSQL"
  else "Supportability/TxnData/TraceSize".
Definition le_bytes (k v : N) : bytes :=
  (fix go (fuel : nat) (v : N) : bytes := match fuel with O => [] | S f => (v mod 256) :: go f (v / 256) end) (N.to_nat k) v.
(* 1 txn event, 2 custom, 3 error event, 4 span, 5 log, 6 error, 7 slow sql (id), 8 trace, 9 metric name,
   10 pid, 11 labels, 12 packages *)
Definition proj (c : contrib) : N * bytes :=
  match c with
  | CSupport w _ => (9, bytes_of_string (support_name w))
  | CPid p => (10, le_bytes 4 p)
  | CTxnEvent _ d _ => (1, d)
  | CMetric n _ _ _ => (9, n)
  | CError _ d => (6, d)
  | CSlow id _ _ _ _ _ _ _ => (7, le_bytes 4 id)
  | CCustom d _ => (2, d)
  | CSpan d _ => (4, d)
  | CLog d _ => (5, d)
  | CLabels d => (11, d)
  | CPackages d => (12, ob d)
  | CTrace _ _ _ _ d => (8, d)
  | CErrEvent d _ => (3, d)
  end.
