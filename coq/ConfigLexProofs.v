(* ConfigLexProofs.v -- the lexer of Config.v: totality (no fuel exhaustion, no panic) on every input,
   fuel irrelevance, and the reading of every well-formed file (ConfigSpec.render_file). *)
From Coq Require Import NArith ZArith List Bool Lia.
From Verif Require Import ConfigBase Config ConfigSpec.
Import ListNotations.
Open Scope N_scope.

(* ------------------------------------------------------------------ small facts *)

Lemma bytes_eqb_refl a : bytes_eqb a a = true.
Proof. induction a as [|x a IH]; cbn; [reflexivity|]. rewrite N.eqb_refl. exact IH. Qed.

Lemma bytes_eqb_eq a b : bytes_eqb a b = true <-> a = b.
Proof.
  split.
  - revert b. induction a as [|x a IH]; intros [|y b] H; cbn in H; try discriminate; [reflexivity|].
    destruct (N.eqb_spec x y) as [->|]; [|discriminate]. f_equal. apply IH. exact H.
  - intros ->. apply bytes_eqb_refl.
Qed.

Lemma mem_false_iff x l : mem x l = false <-> ~ In x l.
Proof.
  unfold mem. split.
  - intros H Hin. assert (E : existsb (N.eqb x) l = true).
    { apply existsb_exists. exists x. split; [exact Hin|apply N.eqb_refl]. }
    congruence.
  - intros H. destruct (existsb (N.eqb x) l) eqn:E; [|reflexivity].
    apply existsb_exists in E. destruct E as [y [Hy Hxy]]. apply N.eqb_eq in Hxy. subst y. contradiction.
Qed.

Lemma decode_rune_shorter inp r rest :
  decode_rune inp = Some (r, rest) -> (length rest < length inp)%nat.
Proof.
  unfold decode_rune. intros H.
  repeat match type of H with
         | (match ?l with _ => _ end) = _ => destruct l; cbn [length] in *
         | (if ?c then _ else _) = _ => destruct c
         | (let _ := _ in _) = _ => cbv zeta in H
         end; try discriminate; inversion H; subst; cbn [length]; lia.
Qed.

Lemma decode_rune_nil : decode_rune [] = None.
Proof. reflexivity. Qed.

Lemma decode_rune_ascii b t : b < 128 -> decode_rune (b :: t) = Some (b, t).
Proof. intros H. cbn. apply N.ltb_lt in H. rewrite H. reflexivity. Qed.

Lemma encode_rune_ascii b : b < 128 -> encode_rune b = [b].
Proof. intros H. unfold encode_rune. apply N.ltb_lt in H. rewrite H. reflexivity. Qed.

(* ReadBytes *)
Lemma read_bytes_found d inp v rest :
  read_bytes d inp = (v, true, rest) ->
  exists p, v = p ++ [d] /\ inp = p ++ d :: rest /\ ~ In d p.
Proof.
  revert v rest. induction inp as [|b r IH]; intros v rest H; cbn in H; [discriminate|].
  destruct (N.eqb_spec b d) as [->|Hne].
  - inversion H; subst. exists []. repeat split; auto.
  - destruct (read_bytes d r) as [[v' f'] rest'] eqn:E. inversion H; subst.
    destruct (IH _ _ eq_refl) as [p [Hv [Hi Hn]]]. exists (b :: p). subst. repeat split; auto.
    intros [Hx|Hx]; [congruence|contradiction].
Qed.

Lemma read_bytes_notfound d inp v rest :
  read_bytes d inp = (v, false, rest) -> v = inp /\ rest = [] /\ ~ In d inp.
Proof.
  revert v rest. induction inp as [|b r IH]; intros v rest H; cbn in H.
  - inversion H; subst. auto.
  - destruct (N.eqb_spec b d) as [->|Hne]; [discriminate|].
    destruct (read_bytes d r) as [[v' f'] rest'] eqn:E. inversion H; subst.
    destruct (IH _ _ eq_refl) as [Hv [Hr Hn]]. subst. repeat split; auto.
    intros [Hx|Hx]; [congruence|contradiction].
Qed.

Lemma read_bytes_app d p rest : ~ In d p -> read_bytes d (p ++ d :: rest) = (p ++ [d], true, rest).
Proof.
  induction p as [|b p IH]; intros Hn; cbn.
  - rewrite N.eqb_refl. reflexivity.
  - destruct (N.eqb_spec b d) as [->|Hne]; [exfalso; apply Hn; left; reflexivity|].
    rewrite IH; [reflexivity|]. intros Hx. apply Hn. right. exact Hx.
Qed.

Lemma read_bytes_none d p : ~ In d p -> read_bytes d p = (p, false, []).
Proof.
  induction p as [|b p IH]; intros Hn; cbn; [reflexivity|].
  destruct (N.eqb_spec b d) as [->|Hne]; [exfalso; apply Hn; left; reflexivity|].
  rewrite IH; [reflexivity|]. intros Hx. apply Hn. right. exact Hx.
Qed.

(* the slice expression value[:len(value)-1] after a successful ReadBytes is in bounds *)
Lemma slice_to_init p d : slice_to (p ++ [d]) (Z.of_nat (length (p ++ [d])) - 1) = Some p.
Proof.
  unfold slice_to. rewrite app_length. cbn [length].
  replace (Z.of_nat (length p + 1) - 1)%Z with (Z.of_nat (length p)) by lia.
  destruct (Z.ltb_spec (Z.of_nat (length p)) 0); [lia|].
  destruct (Z.ltb_spec (Z.of_nat (length p + 1)) (Z.of_nat (length p))); [lia|].
  cbn [orb]. rewrite Nat2Z.id. rewrite firstn_app, firstn_all, Nat.sub_diag. cbn. rewrite app_nil_r. reflexivity.
Qed.

Lemma slice_after_read_bytes d inp v rest :
  read_bytes d inp = (v, true, rest) -> slice_to v (Z.of_nat (length v) - 1) <> None.
Proof.
  intros H. destruct (read_bytes_found _ _ _ _ H) as [p [-> _]]. rewrite slice_to_init. discriminate.
Qed.

Lemma drop_line_le inp : (length (drop_line inp) <= length inp)%nat.
Proof. induction inp as [|b r IH]; cbn; [lia|]. destruct (b =? 10); lia. Qed.

Lemma drop_line_app t rest : ~ In 10 t -> drop_line (t ++ 10 :: rest) = rest.
Proof.
  induction t as [|b t IH]; intros Hn; cbn; [reflexivity|].
  destruct (N.eqb_spec b 10) as [->|Hne]; [exfalso; apply Hn; left; reflexivity|].
  apply IH. intros Hx. apply Hn. right. exact Hx.
Qed.

Lemma drop_line_none t : ~ In 10 t -> drop_line t = [].
Proof.
  induction t as [|b t IH]; intros Hn; cbn; [reflexivity|].
  destruct (N.eqb_spec b 10) as [->|Hne]; [exfalso; apply Hn; left; reflexivity|].
  apply IH. intros Hx. apply Hn. right. exact Hx.
Qed.

Definition after (x : list assignment) (p : list assignment * lend) : list assignment * lend :=
  (x ++ fst p, snd p).

Lemma after_let (kv : assignment) (p : list assignment * lend) :
  (let '(a, e) := p in (kv :: a, e)) = after [kv] p.
Proof. destruct p. reflexivity. Qed.

Lemma after_nil p : after [] p = p.
Proof. destruct p. reflexivity. Qed.

(* ------------------------------------------------------------------ totality *)

Section Lexer.
  Variables (is_space is_letter is_number : N -> bool).
  Notation lex := (lex is_space is_letter is_number).
  Notation lex_all := (lex_all is_space is_letter is_number).
  Notation is_alnum := (is_alnum is_letter is_number).
  Notation trim_right := (trim_right is_space).
  Notation trim_rev := (trim_rev is_space).

  Definition good_end (e : lend) : Prop := e = EndOk \/ exists le, e = EndErr le.

  Lemma lex_total fuel : forall st tok kw inp,
    (length inp < fuel)%nat -> good_end (snd (lex fuel st tok kw inp)).
  Proof.
    induction fuel as [|fuel IH]; intros st tok kw inp Hf; [lia|].
    destruct st; cbn [Config.lex Config.lex_step].
    - (* SInit *)
      destruct (decode_rune inp) as [[ch rest]|] eqn:E; [|left; reflexivity].
      apply decode_rune_shorter in E.
      destruct (is_space ch); [apply IH; lia|].
      destruct ((ch =? 35) || (ch =? 59)); [apply IH; lia|].
      destruct (is_letter ch); [apply IH; lia|]. right. eexists. reflexivity.
    - destruct (decode_rune inp) as [[ch rest]|] eqn:E; [|left; reflexivity].
      apply decode_rune_shorter in E.
      destruct (is_alnum ch || (ch =? 46)); [apply IH; lia|].
      destruct (is_space ch); [apply IH; lia|].
      destruct (ch =? 61); [apply IH; lia|]. right. eexists. reflexivity.
    - destruct (decode_rune inp) as [[ch rest]|] eqn:E; [|right; eexists; reflexivity].
      apply decode_rune_shorter in E.
      destruct (is_space ch); [apply IH; lia|].
      destruct (ch =? 61); [apply IH; lia|]. right. eexists. reflexivity.
    - destruct (decode_rune inp) as [[ch rest]|] eqn:E; [|left; reflexivity].
      apply decode_rune_shorter in E.
      destruct (negb (is_space ch)).
      + destruct (ch =? 39); [apply IH; lia|]. destruct (ch =? 34); apply IH; lia.
      + destruct (ch =? 10); [|apply IH; lia].
        specialize (IH SInit [] [] rest ltac:(lia)).
        destruct (lex fuel SInit [] [] rest) as [a e]. exact IH.
    - destruct (read_bytes 39 inp) as [[value found] rest] eqn:E.
      destruct found; cbn [negb]; [|right; eexists; reflexivity].
      destruct (read_bytes_found _ _ _ _ E) as [p [-> [-> Hn]]]. rewrite slice_to_init.
      specialize (IH SInit [] [] rest). rewrite app_length in Hf. cbn [length] in Hf.
      specialize (IH ltac:(lia)). destruct (lex fuel SInit [] [] rest) as [a e]. exact IH.
    - destruct (read_bytes 34 inp) as [[value found] rest] eqn:E.
      destruct found; cbn [negb]; [|right; eexists; reflexivity].
      destruct (read_bytes_found _ _ _ _ E) as [p [-> [-> Hn]]]. rewrite slice_to_init.
      specialize (IH SInit [] [] rest). rewrite app_length in Hf. cbn [length] in Hf.
      specialize (IH ltac:(lia)). destruct (lex fuel SInit [] [] rest) as [a e]. exact IH.
    - destruct (read_bytes 10 inp) as [[value found] rest] eqn:E.
      destruct found; cbn [negb]; [|left; reflexivity].
      destruct (read_bytes_found _ _ _ _ E) as [p [_ [-> Hn]]].
      specialize (IH SInit [] [] rest). rewrite app_length in Hf. cbn [length] in Hf.
      specialize (IH ltac:(lia)). destruct (lex fuel SInit [] [] rest) as [a e]. exact IH.
    - destruct inp as [|b r]; [left; reflexivity|].
      apply IH. pose proof (drop_line_le r) as Hd. cbn [drop_line]. cbn [length] in Hf.
      destruct (b =? 10); lia.
  Qed.

  Theorem lexer_total : forall inp, good_end (snd (lex_all inp)).
  Proof. intros inp. unfold Config.lex_all. apply lex_total. lia. Qed.

  (* ---------------------------------------------------------------- fuel irrelevance *)

  Lemma lex_fuel fuel1 : forall fuel2 st tok kw inp,
    (length inp < fuel1)%nat -> (length inp < fuel2)%nat ->
    lex fuel1 st tok kw inp = lex fuel2 st tok kw inp.
  Proof.
    induction fuel1 as [|fuel1 IH]; intros fuel2 st tok kw inp H1 H2; [lia|].
    destruct fuel2 as [|fuel2]; [lia|].
    destruct st; cbn [Config.lex Config.lex_step].
    - destruct (decode_rune inp) as [[ch rest]|] eqn:E; [|reflexivity].
      apply decode_rune_shorter in E.
      destruct (is_space ch); [apply IH; lia|].
      destruct ((ch =? 35) || (ch =? 59)); [apply IH; lia|].
      destruct (is_letter ch); [apply IH; lia|]. reflexivity.
    - destruct (decode_rune inp) as [[ch rest]|] eqn:E; [|reflexivity].
      apply decode_rune_shorter in E.
      destruct (is_alnum ch || (ch =? 46)); [apply IH; lia|].
      destruct (is_space ch); [apply IH; lia|].
      destruct (ch =? 61); [apply IH; lia|]. reflexivity.
    - destruct (decode_rune inp) as [[ch rest]|] eqn:E; [|reflexivity].
      apply decode_rune_shorter in E.
      destruct (is_space ch); [apply IH; lia|].
      destruct (ch =? 61); [apply IH; lia|]. reflexivity.
    - destruct (decode_rune inp) as [[ch rest]|] eqn:E; [|reflexivity].
      apply decode_rune_shorter in E.
      destruct (negb (is_space ch)).
      + destruct (ch =? 39); [apply IH; lia|]. destruct (ch =? 34); apply IH; lia.
      + destruct (ch =? 10); [|apply IH; lia].
        rewrite (IH fuel2 SInit [] [] rest) by lia. reflexivity.
    - destruct (read_bytes 39 inp) as [[value found] rest] eqn:E.
      destruct found; cbn [negb]; [|reflexivity].
      destruct (read_bytes_found _ _ _ _ E) as [p [-> [-> Hn]]]. rewrite slice_to_init.
      rewrite app_length in H1, H2. cbn [length] in H1, H2.
      rewrite (IH fuel2 SInit [] [] rest) by lia. reflexivity.
    - destruct (read_bytes 34 inp) as [[value found] rest] eqn:E.
      destruct found; cbn [negb]; [|reflexivity].
      destruct (read_bytes_found _ _ _ _ E) as [p [-> [-> Hn]]]. rewrite slice_to_init.
      rewrite app_length in H1, H2. cbn [length] in H1, H2.
      rewrite (IH fuel2 SInit [] [] rest) by lia. reflexivity.
    - destruct (read_bytes 10 inp) as [[value found] rest] eqn:E.
      destruct found; cbn [negb]; [|reflexivity].
      destruct (read_bytes_found _ _ _ _ E) as [p [_ [-> Hn]]].
      rewrite app_length in H1, H2. cbn [length] in H1, H2.
      rewrite (IH fuel2 SInit [] [] rest) by lia. reflexivity.
    - destruct inp as [|b r]; [reflexivity|].
      apply IH; pose proof (drop_line_le r) as Hd; cbn [drop_line]; cbn [length] in H1, H2;
        destruct (b =? 10); lia.
  Qed.

  (* the lexer started in a given state with exactly the fuel Decode needs *)
  Definition lexn (st : lstate) (tok kw inp : bytes) : list assignment * lend :=
    lex (S (length inp)) st tok kw inp.

  Lemma lex_lexn fuel st tok kw inp : (length inp < fuel)%nat -> lex fuel st tok kw inp = lexn st tok kw inp.
  Proof. intros H. unfold lexn. apply lex_fuel; lia. Qed.

  Lemma lex_all_lexn inp : lex_all inp = lexn SInit [] [] inp.
  Proof. reflexivity. Qed.

  (* one-step unfolding equations of lexn, state by state *)
  Lemma lexn_init tok kw inp :
    lexn SInit tok kw inp =
    match decode_rune inp with
    | None => ([], EndOk)
    | Some (ch, rest) =>
      if is_space ch then lexn SInit tok kw rest
      else if (ch =? 35) || (ch =? 59) then lexn SComment tok kw rest
      else if is_letter ch then lexn SKeyword (tok ++ encode_rune ch) kw rest
      else ([], EndErr ErrExpectedKeyword)
    end.
  Proof.
    unfold lexn at 1. cbn [Config.lex]. unfold Config.lex_step.
    destruct (decode_rune inp) as [[ch rest]|] eqn:E; [|reflexivity].
    apply decode_rune_shorter in E. rewrite !lex_lexn by lia. reflexivity.
  Qed.

  Lemma lexn_keyword tok kw inp :
    lexn SKeyword tok kw inp =
    match decode_rune inp with
    | None => ([], EndOk)
    | Some (ch, rest) =>
      if is_alnum ch || (ch =? 46) then lexn SKeyword (tok ++ encode_rune ch) kw rest
      else if is_space ch then lexn SDelim [] tok rest
      else if ch =? 61 then lexn SValue [] tok rest
      else ([], EndErr ErrBadKeywordChar)
    end.
  Proof.
    unfold lexn at 1. cbn [Config.lex]. unfold Config.lex_step.
    destruct (decode_rune inp) as [[ch rest]|] eqn:E; [|reflexivity].
    apply decode_rune_shorter in E. rewrite !lex_lexn by lia. reflexivity.
  Qed.

  Lemma lexn_delim tok kw inp :
    lexn SDelim tok kw inp =
    match decode_rune inp with
    | None => ([], EndErr ErrNoDelimEOF)
    | Some (ch, rest) =>
      if is_space ch then lexn SDelim tok kw rest
      else if ch =? 61 then lexn SValue tok kw rest
      else ([], EndErr ErrBadDelim)
    end.
  Proof.
    unfold lexn at 1. cbn [Config.lex]. unfold Config.lex_step.
    destruct (decode_rune inp) as [[ch rest]|] eqn:E; [|reflexivity].
    apply decode_rune_shorter in E. rewrite !lex_lexn by lia. reflexivity.
  Qed.

  Lemma lexn_value tok kw inp :
    lexn SValue tok kw inp =
    match decode_rune inp with
    | None => ([(kw, tok)], EndOk)
    | Some (ch, rest) =>
      if negb (is_space ch) then
        if ch =? 39 then lexn SSingle tok kw rest
        else if ch =? 34 then lexn SDouble tok kw rest
        else lexn SRaw (tok ++ encode_rune ch) kw rest
      else if ch =? 10 then after [(kw, tok)] (lexn SInit [] [] rest)
      else lexn SValue tok kw rest
    end.
  Proof.
    unfold lexn at 1. cbn [Config.lex]. unfold Config.lex_step.
    destruct (decode_rune inp) as [[ch rest]|] eqn:E; [|reflexivity].
    apply decode_rune_shorter in E. rewrite !lex_lexn by lia.
    rewrite after_let. reflexivity.
  Qed.

  Lemma lexn_single tok kw p rest : ~ In 39 p ->
    lexn SSingle tok kw (p ++ 39 :: rest) = after [(kw, tok ++ p)] (lexn SInit [] [] rest).
  Proof.
    intros Hn. unfold lexn at 1. cbn [Config.lex]. unfold Config.lex_step. rewrite read_bytes_app by exact Hn.
    cbn [negb]. rewrite slice_to_init.
    rewrite lex_lexn by (rewrite app_length; cbn [length]; lia).
    apply after_let.
  Qed.

  Lemma lexn_double tok kw p rest : ~ In 34 p ->
    lexn SDouble tok kw (p ++ 34 :: rest) = after [(kw, unescape (tok ++ p))] (lexn SInit [] [] rest).
  Proof.
    intros Hn. unfold lexn at 1. cbn [Config.lex]. unfold Config.lex_step. rewrite read_bytes_app by exact Hn.
    cbn [negb]. rewrite slice_to_init.
    rewrite lex_lexn by (rewrite app_length; cbn [length]; lia).
    apply after_let.
  Qed.

  Lemma lexn_raw_nl tok kw line rest : ~ In 10 line ->
    lexn SRaw tok kw (line ++ 10 :: rest) =
    after [(kw, tok ++ trim_right (strip_comment (line ++ [10])))] (lexn SInit [] [] rest).
  Proof.
    intros Hn. unfold lexn at 1. cbn [Config.lex]. unfold Config.lex_step. rewrite read_bytes_app by exact Hn.
    cbn [negb].
    rewrite lex_lexn by (rewrite app_length; cbn [length]; lia).
    apply after_let.
  Qed.

  Lemma lexn_raw_eof tok kw line : ~ In 10 line ->
    lexn SRaw tok kw line = ([(kw, tok ++ trim_right (strip_comment line))], EndOk).
  Proof.
    intros Hn. unfold lexn. cbn [Config.lex]. unfold Config.lex_step. rewrite read_bytes_none by exact Hn. reflexivity.
  Qed.

  Lemma lexn_comment_nl tok kw text rest : ~ In 10 text ->
    lexn SComment tok kw (text ++ 10 :: rest) = lexn SInit tok kw rest.
  Proof.
    intros Hn. unfold lexn at 1. cbn [Config.lex]. unfold Config.lex_step.
    destruct (text ++ 10 :: rest) as [|b r] eqn:E; [destruct text; discriminate|]. rewrite <- E.
    rewrite drop_line_app by exact Hn. apply lex_lexn. rewrite app_length. cbn [length]. lia.
  Qed.

  Lemma lexn_comment_eof tok kw text : ~ In 10 text -> lexn SComment tok kw text = ([], EndOk).
  Proof.
    intros Hn. unfold lexn. cbn [Config.lex]. unfold Config.lex_step. destruct text as [|b r]; [reflexivity|].
    rewrite drop_line_none by exact Hn. reflexivity.
  Qed.
End Lexer.

(* ------------------------------------------------------------------ reading a well-formed file *)

Section Render.
  Variables (is_space is_letter is_number : N -> bool).
  Hypothesis CF : class_facts is_space is_letter is_number.
  Notation lex := (lex is_space is_letter is_number).
  Notation lexn := (lexn is_space is_letter is_number).
  Notation is_alnum := (is_alnum is_letter is_number).
  Notation trim_right := (trim_right is_space).
  Notation trim_rev := (trim_rev is_space).
  Notation ws_byte := (ws_byte is_space).
  Notation ws_inline := (ws_inline is_space).
  Notation ws_delim := (ws_delim is_space is_letter is_number).
  Notation kw_start := (kw_start is_space is_letter).
  Notation kw_char := (kw_char is_letter is_number).
  Notation nonspace_ascii := (nonspace_ascii is_space).
  Notation last_ok := (last_ok is_space).
  Notation wf_val := (wf_val is_space).
  Notation wf_item := (wf_item is_space is_letter is_number).
  Notation wf_file := (wf_file is_space is_letter is_number).

  Ltac split_andb :=
    repeat match goal with
           | H : _ && _ = true |- _ => apply andb_true_iff in H; destruct H
           | H : negb _ = true |- _ => apply negb_true_iff in H
           | H : (_ <? _) = true |- _ => apply N.ltb_lt in H
           | H : _ || _ = false |- _ => apply orb_false_iff in H; destruct H
           end.

  Lemma alnum_eq_false : is_alnum 61 = false.
  Proof.
    unfold Config.is_alnum. rewrite (cf_eq_letter _ _ _ CF), (cf_eq_number _ _ _ CF). reflexivity.
  Qed.

  Lemma lexn_init_nil : lexn SInit [] [] [] = ([], EndOk).
  Proof. reflexivity. Qed.

  Ltac step L := etransitivity; [apply L|].

  Lemma step_init_ws b r : ws_byte b = true -> lexn SInit [] [] (b :: r) = lexn SInit [] [] r.
  Proof.
    unfold ConfigSpec.ws_byte. intros H. split_andb. step lexn_init.
    rewrite decode_rune_ascii by assumption. rewrite H0. reflexivity.
  Qed.

  Lemma init_ws ws rest : forallb ws_byte ws = true -> lexn SInit [] [] (ws ++ rest) = lexn SInit [] [] rest.
  Proof.
    induction ws as [|b ws IH]; intros H; [reflexivity|]. cbn [forallb] in H. apply andb_true_iff in H.
    destruct H as [Hb Hws]. cbn [app]. rewrite step_init_ws by exact Hb. apply IH. exact Hws.
  Qed.

  Lemma step_init_kw k0 r : kw_start k0 = true -> lexn SInit [] [] (k0 :: r) = lexn SKeyword [k0] [] r.
  Proof.
    unfold ConfigSpec.kw_start. intros H. split_andb. step lexn_init.
    rewrite decode_rune_ascii by assumption. rewrite H3, H2, H1, H0. cbn [orb].
    rewrite encode_rune_ascii by assumption. reflexivity.
  Qed.

  Lemma keyword_chars ks : forall tok rest, forallb kw_char ks = true ->
    lexn SKeyword tok [] (ks ++ rest) = lexn SKeyword (tok ++ ks) [] rest.
  Proof.
    induction ks as [|b ks IH]; intros tok rest H; [rewrite app_nil_r; reflexivity|].
    cbn [forallb] in H. apply andb_true_iff in H. destruct H as [Hb Hks].
    unfold ConfigSpec.kw_char in Hb. split_andb. cbn [app]. step lexn_keyword.
    rewrite decode_rune_ascii by assumption. rewrite H0. rewrite encode_rune_ascii by assumption.
    rewrite IH by exact Hks. rewrite <- app_assoc. reflexivity.
  Qed.

  Lemma keyword_eq tok r : lexn SKeyword tok [] (61 :: r) = lexn SValue [] tok r.
  Proof.
    step lexn_keyword. rewrite decode_rune_ascii by reflexivity.
    rewrite alnum_eq_false, (cf_eq_space _ _ _ CF). reflexivity.
  Qed.

  Lemma keyword_ws tok w r : ws_delim w = true -> lexn SKeyword tok [] (w :: r) = lexn SDelim [] tok r.
  Proof.
    unfold ConfigSpec.ws_delim, ConfigSpec.ws_byte. intros H. split_andb.
    step lexn_keyword. rewrite decode_rune_ascii by assumption.
    rewrite H1, H0, H2. reflexivity.
  Qed.

  Lemma step_delim_ws tok kw b r : ws_byte b = true -> lexn SDelim tok kw (b :: r) = lexn SDelim tok kw r.
  Proof.
    unfold ConfigSpec.ws_byte. intros H. split_andb. step lexn_delim.
    rewrite decode_rune_ascii by assumption. rewrite H0. reflexivity.
  Qed.

  Lemma delim_ws tok kw ws rest : forallb ws_byte ws = true ->
    lexn SDelim tok kw (ws ++ rest) = lexn SDelim tok kw rest.
  Proof.
    induction ws as [|b ws IH]; intros H; [reflexivity|]. cbn [forallb] in H. apply andb_true_iff in H.
    destruct H as [Hb Hws]. cbn [app]. rewrite step_delim_ws by exact Hb. apply IH. exact Hws.
  Qed.

  Lemma delim_eq tok kw r : lexn SDelim tok kw (61 :: r) = lexn SValue tok kw r.
  Proof.
    step lexn_delim. rewrite decode_rune_ascii by reflexivity.
    rewrite (cf_eq_space _ _ _ CF). reflexivity.
  Qed.

  Lemma ws_delim_ws_byte ws : forallb ws_delim ws = true -> forallb ws_byte ws = true.
  Proof.
    intros H. apply forallb_forall. intros x Hx. rewrite forallb_forall in H. specialize (H x Hx).
    unfold ConfigSpec.ws_delim in H. split_andb. assumption.
  Qed.

  Lemma key_to_value tok ws1 r : forallb ws_delim ws1 = true ->
    lexn SKeyword tok [] (ws1 ++ 61 :: r) = lexn SValue [] tok r.
  Proof.
    destruct ws1 as [|w ws1]; intros H; cbn [app]; [apply keyword_eq|].
    cbn [forallb] in H. apply andb_true_iff in H. destruct H as [Hw Hws].
    rewrite keyword_ws by exact Hw. rewrite delim_ws by (apply ws_delim_ws_byte; exact Hws). apply delim_eq.
  Qed.

  Lemma step_value_ws tok kw b r : ws_inline b = true -> lexn SValue tok kw (b :: r) = lexn SValue tok kw r.
  Proof.
    unfold ConfigSpec.ws_inline, ConfigSpec.ws_byte. intros H. split_andb.
    step lexn_value. rewrite decode_rune_ascii by assumption.
    rewrite H1, H0. reflexivity.
  Qed.

  Lemma value_ws tok kw ws rest : forallb ws_inline ws = true ->
    lexn SValue tok kw (ws ++ rest) = lexn SValue tok kw rest.
  Proof.
    induction ws as [|b ws IH]; intros H; [reflexivity|]. cbn [forallb] in H. apply andb_true_iff in H.
    destruct H as [Hb Hws]. cbn [app]. rewrite step_value_ws by exact Hb. apply IH. exact Hws.
  Qed.

  Lemma value_sq tok kw r : lexn SValue tok kw (39 :: r) = lexn SSingle tok kw r.
  Proof.
    step lexn_value. rewrite decode_rune_ascii by reflexivity.
    rewrite (cf_sq_space _ _ _ CF). reflexivity.
  Qed.

  Lemma value_dq tok kw r : lexn SValue tok kw (34 :: r) = lexn SDouble tok kw r.
  Proof.
    step lexn_value. rewrite decode_rune_ascii by reflexivity.
    rewrite (cf_dq_space _ _ _ CF). reflexivity.
  Qed.

  Lemma value_raw tok kw c r : nonspace_ascii c = true -> (c =? 39) = false -> (c =? 34) = false ->
    lexn SValue tok kw (c :: r) = lexn SRaw (tok ++ [c]) kw r.
  Proof.
    unfold ConfigSpec.nonspace_ascii. intros H H39 H34. split_andb.
    step lexn_value. rewrite decode_rune_ascii by assumption.
    rewrite H0, H39, H34. cbn [negb]. rewrite encode_rune_ascii by assumption. reflexivity.
  Qed.

  Lemma value_nl tok kw r : lexn SValue tok kw (10 :: r) = after [(kw, tok)] (lexn SInit [] [] r).
  Proof.
    step lexn_value. rewrite decode_rune_ascii by reflexivity.
    rewrite (cf_nl_space _ _ _ CF). cbn [negb]. rewrite N.eqb_refl. reflexivity.
  Qed.

  Lemma value_eof tok kw : lexn SValue tok kw [] = ([(kw, tok)], EndOk).
  Proof. reflexivity. Qed.

  Lemma step_init_comment c r : is_cm_start c = true -> lexn SInit [] [] (c :: r) = lexn SComment [] [] r.
  Proof.
    unfold is_cm_start. intros H. step lexn_init.
    assert (Hc : c = 35 \/ c = 59).
    { apply orb_true_iff in H. destruct H as [H|H]; apply N.eqb_eq in H; auto. }
    assert (Hs : is_space c = false).
    { destruct Hc as [-> | ->]; [apply (cf_hash_space _ _ _ CF)|apply (cf_semi_space _ _ _ CF)]. }
    rewrite decode_rune_ascii by (destruct Hc as [-> | ->]; reflexivity). rewrite Hs, H. reflexivity.
  Qed.

  (* stripTrailingComment and trimRight on a rendered raw value *)
  Lemma strip_comment_app p t : (forall b, In b p -> (b =? 35) || (b =? 59) = false) ->
    strip_comment (p ++ t) = p ++ strip_comment t.
  Proof.
    induction p as [|b p IH]; intros H; [reflexivity|]. cbn [app strip_comment].
    rewrite (H b (or_introl eq_refl)). f_equal. apply IH. intros x Hx. apply H. right. exact Hx.
  Qed.

  Lemma decode_last_rev_ascii l r : l < 128 -> decode_last_rev (l :: r) = (l, 1%nat).
  Proof. intros H. cbn. apply N.ltb_lt in H. rewrite H. reflexivity. Qed.

  Lemma trim_rev_ws rt : forall fuel rv, (length rt <= fuel)%nat -> forallb ws_byte rt = true ->
    (rv = [] \/ exists l r, rv = l :: r /\ nonspace_ascii l = true) ->
    trim_rev fuel (rt ++ rv) = rv.
  Proof.
    induction rt as [|b rt IH]; intros fuel rv Hf Hws Hstop.
    - cbn [app]. destruct fuel as [|fuel]; [reflexivity|]. cbn [Config.trim_rev].
      destruct Hstop as [-> | [l [r [-> Hl]]]]; [reflexivity|].
      unfold ConfigSpec.nonspace_ascii in Hl. split_andb.
      rewrite decode_last_rev_ascii by assumption. rewrite H0. rewrite andb_false_r. reflexivity.
    - cbn [length] in Hf. destruct fuel as [|fuel]; [lia|]. cbn [forallb] in Hws.
      apply andb_true_iff in Hws. destruct Hws as [Hb Hws]. unfold ConfigSpec.ws_byte in Hb. split_andb.
      cbn [app Config.trim_rev]. rewrite decode_last_rev_ascii by assumption. rewrite H0. cbn [Nat.ltb Nat.leb andb skipn].
      apply IH; [lia|exact Hws|exact Hstop].
  Qed.

  Lemma forallb_rev {A} (f : A -> bool) l : forallb f l = true -> forallb f (rev l) = true.
  Proof.
    intros H. apply forallb_forall. intros x Hx. rewrite forallb_forall in H. apply H. apply in_rev. exact Hx.
  Qed.

  Lemma trim_right_ws v t : forallb ws_byte t = true -> last_ok v = true -> trim_right (v ++ t) = v.
  Proof.
    intros Ht Hv. unfold Config.trim_right. rewrite rev_app_distr.
    rewrite trim_rev_ws.
    - apply rev_involutive.
    - rewrite app_length, !rev_length. lia.
    - apply forallb_rev. exact Ht.
    - unfold ConfigSpec.last_ok in Hv. destruct (rev v) as [|l r]; [left; reflexivity|].
      right. exists l, r. split; [reflexivity|exact Hv].
  Qed.

  Lemma ws_inline_props ws : forallb ws_inline ws = true ->
    forallb ws_byte ws = true /\ ~ In 10 ws /\ (forall b, In b ws -> (b =? 35) || (b =? 59) = false).
  Proof.
    intros H. rewrite forallb_forall in H. repeat split.
    - apply forallb_forall. intros x Hx. specialize (H x Hx). unfold ConfigSpec.ws_inline in H. split_andb. assumption.
    - intros Hin. specialize (H 10 Hin). unfold ConfigSpec.ws_inline in H. split_andb. discriminate.
    - intros b Hb. specialize (H b Hb). unfold ConfigSpec.ws_inline, ConfigSpec.ws_byte in H. split_andb.
      destruct (N.eqb_spec b 35) as [->|]; [rewrite (cf_hash_space _ _ _ CF) in *; discriminate|].
      destruct (N.eqb_spec b 59) as [->|]; [rewrite (cf_semi_space _ _ _ CF) in *; discriminate|]. reflexivity.
  Qed.

  Lemma plain_props v : forallb plain_byte v = true ->
    ~ In 10 v /\ (forall b, In b v -> (b =? 35) || (b =? 59) = false).
  Proof.
    intros H. rewrite forallb_forall in H. split.
    - intros Hin. specialize (H 10 Hin). unfold plain_byte in H. split_andb. discriminate.
    - intros b Hb. specialize (H b Hb). unfold plain_byte in H. split_andb. rewrite H1, H0. reflexivity.
  Qed.

  Lemma nl_ws_byte : ws_byte 10 = true.
  Proof. unfold ConfigSpec.ws_byte. rewrite (cf_nl_space _ _ _ CF). reflexivity. Qed.

  (* what trimRight(stripTrailingComment(..)) leaves of the text after the first character *)
  Lemma raw_tail_value v ws cm tail : forallb plain_byte v = true -> last_ok v = true ->
    forallb ws_inline ws = true -> wf_cm cm = true -> (tail = [] \/ tail = [10]) ->
    trim_right (strip_comment (v ++ ws ++ render_cm cm ++ tail)) = v.
  Proof.
    intros Hv Hl Hws Hcm Htail.
    destruct (plain_props _ Hv) as [_ Hv2]. destruct (ws_inline_props _ Hws) as [Hw1 [_ Hw3]].
    rewrite strip_comment_app by exact Hv2. rewrite strip_comment_app by exact Hw3.
    destruct cm as [[c t]|].
    - cbn [render_cm wf_cm] in *. apply andb_true_iff in Hcm. destruct Hcm as [Hc _].
      unfold is_cm_start in Hc. cbn [app strip_comment]. rewrite Hc. rewrite app_nil_r.
      apply trim_right_ws; assumption.
    - cbn [render_cm app]. destruct Htail as [-> | ->]; cbn [strip_comment orb N.eqb Pos.eqb].
      + rewrite app_nil_r. apply trim_right_ws; assumption.
      + rewrite app_assoc. rewrite <- (app_assoc v ws [10]). apply trim_right_ws; [|exact Hl].
        rewrite forallb_app. rewrite Hw1. cbn [forallb]. rewrite nl_ws_byte. reflexivity.
  Qed.

  Lemma not_in_app {A} (x : A) l1 l2 : ~ In x l1 -> ~ In x l2 -> ~ In x (l1 ++ l2).
  Proof. intros H1 H2 H. apply in_app_or in H. tauto. Qed.

  Lemma cm_no_nl cm : wf_cm cm = true -> ~ In 10 (render_cm cm).
  Proof.
    destruct cm as [[c t]|]; cbn [wf_cm render_cm]; intros H; [|intros []].
    apply andb_true_iff in H. destruct H as [Hc Ht]. apply negb_true_iff in Ht. apply mem_false_iff in Ht.
    intros [Hx|Hx]; [|contradiction]. subst c. discriminate.
  Qed.

  (* the value part of an assignment, from the state after '=' *)
  Lemma value_read tok kw ws2 s rest : forallb ws_inline ws2 = true -> wf_val s = true ->
    (ends_eof_val s = true -> rest = []) ->
    lexn SValue tok kw (ws2 ++ render_val s ++ rest) =
    after [(kw, match s with VDouble e => unescape (tok ++ e) | _ => tok ++ value_of s end)] (lexn SInit [] [] rest).
  Proof.
    intros Hws2 Hwf Heof. rewrite value_ws by exact Hws2. destruct s as [v|e|c v ws cm e|e]; cbn [render_val value_of].
    - cbn [wf_val] in Hwf. apply negb_true_iff in Hwf. apply mem_false_iff in Hwf.
      cbn [app]. rewrite value_sq. rewrite <- app_assoc. cbn [app]. apply lexn_single. exact Hwf.
    - cbn [wf_val] in Hwf. apply negb_true_iff in Hwf. apply mem_false_iff in Hwf.
      cbn [app]. rewrite value_dq. rewrite <- app_assoc. cbn [app]. apply lexn_double. exact Hwf.
    - cbn [wf_val] in Hwf. split_andb. cbn [app]. rewrite value_raw by assumption.
      destruct (plain_props _ H3) as [Hv10 _]. destruct (ws_inline_props _ H1) as [_ [Hw10 _]].
      pose proof (cm_no_nl _ H0) as Hc10.
      destruct e; cbn [render_eol].
      + replace ((v ++ ws ++ render_cm cm ++ [10]) ++ rest) with ((v ++ ws ++ render_cm cm) ++ 10 :: rest)
          by (rewrite <- !app_assoc; reflexivity).
        rewrite lexn_raw_nl by (repeat apply not_in_app; assumption).
        rewrite <- !app_assoc. rewrite raw_tail_value by (auto). reflexivity.
      + cbn [ends_eof_val] in Heof. rewrite (Heof eq_refl). rewrite !app_nil_r.
        rewrite lexn_raw_eof by (repeat apply not_in_app; assumption).
        replace (v ++ ws ++ render_cm cm) with (v ++ ws ++ render_cm cm ++ []) by (rewrite app_nil_r; reflexivity).
        rewrite raw_tail_value by (auto). rewrite <- app_assoc. reflexivity.
    - destruct e; cbn [render_eol app].
      + rewrite value_nl. rewrite app_nil_r. reflexivity.
      + cbn [ends_eof_val] in Heof. rewrite (Heof eq_refl). rewrite value_eof. rewrite app_nil_r. reflexivity.
  Qed.

  Lemma item_read x rest : wf_item x = true -> (ends_eof x = true -> rest = []) ->
    lexn SInit [] [] (render_item x ++ rest) = after (item_asg x) (lexn SInit [] [] rest).
  Proof.
    intros Hwf Heof. destruct x as [a|lead c text e]; cbn [render_item item_asg wf_item ends_eof] in *.
    - apply andb_true_iff in Hwf as [Hwf Hval]. apply andb_true_iff in Hwf as [Hwf Hws2].
      apply andb_true_iff in Hwf as [Hwf Hws1]. apply andb_true_iff in Hwf as [Hwf Hks].
      apply andb_true_iff in Hwf as [Hlead Hk0].
      rewrite <- app_assoc. rewrite init_ws by exact Hlead. cbn [app].
      rewrite step_init_kw by exact Hk0. rewrite <- app_assoc. rewrite keyword_chars by exact Hks.
      cbn [app]. rewrite <- app_assoc. cbn [app]. rewrite key_to_value by exact Hws1.
      rewrite <- app_assoc. rewrite value_read by assumption.
      destruct (fa_val a); reflexivity.
    - apply andb_true_iff in Hwf as [Hwf Ht]. apply andb_true_iff in Hwf as [Hlead Hc].
      apply negb_true_iff in Ht. apply mem_false_iff in Ht.
      rewrite <- app_assoc. rewrite init_ws by exact Hlead. cbn [app].
      rewrite step_init_comment by exact Hc. rewrite after_nil. destruct e; cbn [render_eol].
      + rewrite <- app_assoc. cbn [app]. apply lexn_comment_nl. exact Ht.
      + rewrite (Heof eq_refl). rewrite !app_nil_r. rewrite lexn_comment_eof by exact Ht. reflexivity.
  Qed.

  Theorem lex_render_file items : forall trail, wf_file items trail = true ->
    lexn SInit [] [] (render_file items trail) = (file_asg items, EndOk).
  Proof.
    unfold render_file. induction items as [|x r IH]; intros trail Hwf; cbn [wf_file map concat file_asg flat_map] in *.
    - cbn [app]. rewrite <- (app_nil_r trail). rewrite init_ws by exact Hwf. reflexivity.
    - apply andb_true_iff in Hwf. destruct Hwf as [Hx Hr]. rewrite <- app_assoc.
      destruct (ends_eof x) eqn:E.
      + destruct r as [|y r]; [|discriminate]. destruct trail; [|discriminate]. cbn [map concat app].
        rewrite item_read; [|exact Hx|reflexivity]. rewrite lexn_init_nil. unfold after. cbn [fst snd flat_map]. rewrite !app_nil_r. reflexivity.
      + rewrite item_read; [|exact Hx|intros; congruence]. rewrite (IH _ Hr). reflexivity.
  Qed.
End Render.

(* ------------------------------------------------------------------ double-quote escapes *)

Lemma unescape_pair c x r : unescape_char c = Some x -> unescape (92 :: c :: r) = x :: unescape r.
Proof. intros H. cbn [unescape N.eqb Pos.eqb]. rewrite H. reflexivity. Qed.

Lemma unescape_plain b r : b <> 92 -> unescape (b :: r) = b :: unescape r.
Proof. intros H. cbn [unescape]. apply N.eqb_neq in H. rewrite H. reflexivity. Qed.

Lemma escape_cons b v : escape (b :: v) = escape_byte b ++ escape v.
Proof. reflexivity. Qed.

Lemma unescape_escape v : unescape (escape v) = v.
Proof.
  induction v as [|b v IH]; [reflexivity|]. rewrite escape_cons. unfold escape_byte.
  destruct (N.eqb_spec b 92) as [->|H92]; [cbn [app]; rewrite (unescape_pair 92 92) by reflexivity; rewrite IH; reflexivity|].
  destruct (N.eqb_spec b 8) as [->|H8]; [cbn [app]; rewrite (unescape_pair 98 8) by reflexivity; rewrite IH; reflexivity|].
  destruct (N.eqb_spec b 9) as [->|H9]; [cbn [app]; rewrite (unescape_pair 116 9) by reflexivity; rewrite IH; reflexivity|].
  destruct (N.eqb_spec b 10) as [->|H10]; [cbn [app]; rewrite (unescape_pair 110 10) by reflexivity; rewrite IH; reflexivity|].
  destruct (N.eqb_spec b 11) as [->|H11]; [cbn [app]; rewrite (unescape_pair 118 11) by reflexivity; rewrite IH; reflexivity|].
  destruct (N.eqb_spec b 12) as [->|H12]; [cbn [app]; rewrite (unescape_pair 102 12) by reflexivity; rewrite IH; reflexivity|].
  destruct (N.eqb_spec b 13) as [->|H13]; [cbn [app]; rewrite (unescape_pair 114 13) by reflexivity; rewrite IH; reflexivity|].
  cbn [app]. rewrite unescape_plain by exact H92. rewrite IH. reflexivity.
Qed.

Lemma escape_no_quote v : ~ In 34 v -> ~ In 34 (escape v).
Proof.
  induction v as [|b v IH]; intros Hn; [exact Hn|]. rewrite escape_cons. intros Hin.
  apply in_app_or in Hin. destruct Hin as [Hin|Hin].
  - unfold escape_byte in Hin.
    repeat match type of Hin with
           | In _ (if ?c then _ else _) => destruct c
           end; cbn in Hin; repeat (destruct Hin as [Hin|Hin]; try discriminate; try contradiction).
    subst b. apply Hn. left. reflexivity.
  - apply IH; [|exact Hin]. intros Hx. apply Hn. right. exact Hx.
Qed.
