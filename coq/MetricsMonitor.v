(* MetricsMonitor.v -- executable monitors for C07 on metric tables.  They judge an observed
   table (what the Go harness dumped) against the INPUT of the run (the build: which
   contributions were delivered, how they were grouped) using only the specification-side
   definitions of Metrics.v (contribs, fieldwise); they never evaluate the table model.
   The numbers 5 (attempts) and 2000 (capacity, passed in by the case file) are the documented
   ones, not Gen constants.

   For speed the contributions and the observed entries are both sorted by an injective numeric
   code of the key and compared by one merge pass (tables with 2000+ entries are checked). *)
From Coq Require Import ZArith NArith List Bool Lia Orders Mergesort.
From Verif Require Import Metrics.
Import ListNotations.
Open Scope Z_scope.

Definition obs_entry := (key * bool * mdata)%type.
Definition oe_key (e : obs_entry) : key := fst (fst e).
Definition oe_forced (e : obs_entry) : bool := snd (fst e).
Definition oe_data (e : obs_entry) : mdata := snd e.
Record tobs := TO { o_max : Z; o_count : Z; o_dropped : Z; o_failed : Z; o_entries : list obs_entry }.

(* compact notation for names in generated case files: bytes of a number, most significant first *)
Fixpoint bytes_of_pos (fuel : nat) (x : N) (acc : name) : name :=
  match fuel with
  | O => acc
  | S f => if N.eqb x 0 then acc else bytes_of_pos f (N.div x 256) (N.modulo x 256 :: acc)
  end.
Definition nm (x : N) : name := bytes_of_pos (S (N.to_nat (N.div (N.log2 x) 8)) + 1) x [].

Definition mdata_eqb (a b : mdata) : bool :=
  (cnt a =? cnt b) && (tot a =? tot b) && (exc a =? exc b) && (mn a =? mn b) && (mx a =? mx b) && (ssq a =? ssq b).
Definition omd_eqb (a b : option mdata) : bool :=
  match a, b with
  | Some x, Some y => mdata_eqb x y
  | None, None => true
  | _, _ => false
  end.

Definition ATTEMPTS : Z := 5.

(* ---- rows sorted by key code ---- *)
Definition code_name (n : name) : N := fold_left (fun acc b => (acc * 256 + b)%N) n 1%N.
Definition row := (N * N * (bool * mdata))%type.
Definition row_of_contrib (c : contrib) : row := (code_name (fst (ckey c)), code_name (snd (ckey c)), (cforced c, cdata c)).
Definition row_of_obs (e : obs_entry) : row := (code_name (fst (oe_key e)), code_name (snd (oe_key e)), (oe_forced e, oe_data e)).
Definition row_cmp (a b : row) : comparison :=
  match N.compare (fst (fst a)) (fst (fst b)) with
  | Eq => N.compare (snd (fst a)) (snd (fst b))
  | c => c
  end.

Module RowOrder <: TotalLeBool.
  Definition t := row.
  Definition leb (a b : t) : bool := match row_cmp a b with Gt => false | _ => true end.
  Theorem leb_total : forall a b, leb a b = true \/ leb b a = true.
  Proof.
    intros a b. unfold leb, row_cmp.
    destruct (N.compare_spec (fst (fst a)) (fst (fst b))) as [E|L|G];
      destruct (N.compare_spec (fst (fst b)) (fst (fst a))) as [E'|L'|G']; try lia; auto.
    destruct (N.compare_spec (snd (fst a)) (snd (fst b))); destruct (N.compare_spec (snd (fst b)) (snd (fst a))); try lia; auto.
  Qed.
End RowOrder.
Module RowSort := Sort RowOrder.

Definition group_t := (N * N * list (bool * mdata))%type.
Fixpoint group (l : list row) : list group_t :=
  match l with
  | [] => []
  | (a, b, p) :: r =>
      match group r with
      | (a', b', ps) :: gs => if N.eqb a a' then if N.eqb b b' then (a, b, p :: ps) :: gs
                                                 else (a, b, [p]) :: (a', b', ps) :: gs
                              else (a, b, [p]) :: (a', b', ps) :: gs
      | [] => [(a, b, [p])]
      end
  end.

(* one pass over the groups of contributions and the observed rows, both ascending by key code:
   [f g (Some o)] judges an observed entry against the contributions to its key, [f g None] a key
   that received contributions but is absent; an observed entry without contributions fails *)
Fixpoint join (fuel : nat) (gs : list group_t) (os : list row) (f : list (bool * mdata) -> option (bool * mdata) -> bool) : bool :=
  match fuel with
  | O => false
  | S fu =>
      match gs, os with
      | [], [] => true
      | [], _ :: _ => false
      | (_, _, ps) :: gs', [] => if f ps None then join fu gs' [] f else false
      | (a, b, ps) :: gs', (a', b', o) :: os' =>
          match row_cmp (a, b, o) (a', b', o) with
          | Lt => if f ps None then join fu gs' os f else false
          | Eq => if f ps (Some o) then join fu gs' os' f else false
          | Gt => false
          end
      end
  end.
Definition judge (rows : list row) (o : tobs) (f : list (bool * mdata) -> option (bool * mdata) -> bool) : bool :=
  let gs := group (RowSort.sort rows) in
  let os := RowSort.sort (map row_of_obs (o_entries o)) in
  join (S (length gs + length os)) gs os f.

(* class "no refusal by construction": the observed key -> data map is exactly the field-wise
   combination of all contributions (sums / min / max), nothing lost, nothing invented *)
Definition exact_f (ps : list (bool * mdata)) (o : option (bool * mdata)) : bool :=
  match o with
  | Some (_, d) => omd_eqb (fieldwise (map snd ps)) (Some d)
  | None => false
  end.
Definition mon_exact (b : build) (o : tobs) : bool :=
  judge (map row_of_contrib (contribs ATTEMPTS b)) o exact_f
  && (o_count o =? Z.of_nat (length (o_entries o)))
  && (o_dropped o =? 0).

(* class "at capacity": every contribution carries a distinct power of two as its total (or 0 =
   untracked, taken to be in), so the total of an observed entry names the contributions that
   went into it.  Each observed entry must be the field-wise combination of exactly those, all
   of them contributions to that key; the contributions to a key that only ever receives forced
   contributions are all there (the table keeps the forced flag of the first contribution to a
   key); at most max unforced entries. *)
Definition bit_in (d : mdata) (c : bool * mdata) : bool :=
  if tot (snd c) =? 0 then true else Z.testbit (tot d) (Z.log2 (tot (snd c))).
Definition capacity_f (ps : list (bool * mdata)) (o : option (bool * mdata)) : bool :=
  match o with
  | Some (_, d) =>
      omd_eqb (fieldwise (map snd (filter (bit_in d) ps))) (Some d)
      && (negb (forallb fst ps) || forallb (bit_in d) ps)
  | None => negb (forallb fst ps)
  end.
Definition mon_capacity (b : build) (o : tobs) : bool :=
  judge (map row_of_contrib (contribs ATTEMPTS b)) o capacity_f
  && (Z.of_nat (length (filter (fun e => negb (oe_forced e)) (o_entries o))) <=? Z.max 0 (o_max o))
  && (o_count o =? Z.of_nat (length (o_entries o))).

(* rename: the table observed after ApplyRules against the table observed before it: every
   entry afterwards is the combination of the entries whose renamed key it is, no entry is
   lost, the attempt counter and the capacity are carried over, the call counts add up *)
Definition mon_rename (rn : option (name -> name)) (pre post : tobs) : bool :=
  match rn with
  | None =>
      (o_count post =? o_count pre) && (o_failed post =? o_failed pre) && (o_max post =? o_max pre)
      && judge (map row_of_obs (o_entries pre)) post exact_f
  | Some f =>
      judge (map (fun p : obs_entry => (code_name (f (fst (oe_key p))), code_name (snd (oe_key p)), (oe_forced p, oe_data p)))
                 (o_entries pre)) post exact_f
      && (o_failed post =? o_failed pre) && (o_max post =? o_max pre)
      && (o_count post =? Z.of_nat (length (o_entries post)))
      && (zsum (map (fun e => cnt (oe_data e)) (o_entries post)) =? zsum (map (fun e => cnt (oe_data e)) (o_entries pre)))
  end.

(* a scoped transaction metric is found under both keys *)
Definition mon_scoped (txn : name) (ms : list tmetric) (o : tobs) : bool :=
  forallb (fun m =>
    existsb (fun e => key_eqb (oe_key e) (tm_name m, [])) (o_entries o) &&
    (negb (tm_scoped m) || existsb (fun e => key_eqb (oe_key e) (tm_name m, txn)) (o_entries o))) ms.

(* ---- correspondence helpers (these DO evaluate the model) ---- *)
Definition corr_full (cmp_forced : bool) (t : table) (o : tobs) : bool :=
  (tmax t =? o_max o) && (tcount t =? o_count o) && (tdropped t =? o_dropped o) && (tfailed t =? o_failed o)
  && (length (entries t) =? length (o_entries o))%nat
  && judge (map (fun ke : key * mentry => (code_name (fst (fst ke)), code_name (snd (fst ke)), (forced (snd ke), data (snd ke))))
                (entries t)) o
           (fun ps o => match ps, o with
                        | [(f, d)], Some (f', d') => mdata_eqb d d' && (negb cmp_forced || Bool.eqb f f')
                        | _, _ => false
                        end).
(* when refusals depend on the map iteration order only order-independent quantities are compared *)
Definition corr_coarse (t : table) (o : tobs) : bool :=
  (tmax t =? o_max o) && (tcount t + tdropped t =? o_count o + o_dropped o) && (tfailed t =? o_failed o).
