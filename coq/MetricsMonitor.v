(* MetricsMonitor.v -- executable monitors for C07 on metric tables.  They judge an observed
   table (what the Go harness dumped) against the INPUT of the run (the build: which
   contributions were delivered, how they were grouped) using only the specification-side
   definitions of Metrics.v (contribs, fieldwise, datas_at); they never evaluate the table model.
   The numbers 5 (attempts) and 2000 (capacity) are the documented ones, not Gen constants. *)
From Coq Require Import ZArith NArith List Bool.
From Verif Require Import Metrics.
Import ListNotations.
Open Scope Z_scope.

Definition obs_entry := (key * bool * mdata)%type.
Definition oe_key (e : obs_entry) : key := fst (fst e).
Definition oe_forced (e : obs_entry) : bool := snd (fst e).
Definition oe_data (e : obs_entry) : mdata := snd e.
Record tobs := TO { o_max : Z; o_count : Z; o_dropped : Z; o_failed : Z; o_entries : list obs_entry }.

Definition mdata_eqb (a b : mdata) : bool :=
  (cnt a =? cnt b) && (tot a =? tot b) && (exc a =? exc b) && (mn a =? mn b) && (mx a =? mx b) && (ssq a =? ssq b).
Definition omd_eqb (a b : option mdata) : bool :=
  match a, b with
  | Some x, Some y => mdata_eqb x y
  | None, None => true
  | _, _ => false
  end.

Definition ATTEMPTS : Z := 5.

Fixpoint keys_distinct (l : list obs_entry) : bool :=
  match l with
  | [] => true
  | e :: r => negb (existsb (fun e' => key_eqb (oe_key e) (oe_key e')) r) && keys_distinct r
  end.

(* class "no refusal by construction": the observed key -> data map is exactly the field-wise
   combination of all contributions (sums / min / max), nothing lost, nothing invented *)
Definition mon_exact (b : build) (o : tobs) : bool :=
  let cs := contribs ATTEMPTS b in
  keys_distinct (o_entries o)
  && forallb (fun e => omd_eqb (fieldwise (datas_at (oe_key e) cs)) (Some (oe_data e))) (o_entries o)
  && forallb (fun c => existsb (fun e => key_eqb (oe_key e) (ckey c)) (o_entries o)) cs
  && (o_count o =? Z.of_nat (length (o_entries o)))
  && (o_dropped o =? 0).

(* class "at capacity": every contribution carries a distinct power of two as its total, so the
   total of an observed entry names the contributions that went into it.  Each observed entry must
   be the field-wise combination of exactly those, all of them contributions to that key; forced
   contributions are all there; at most max unforced entries. *)
Definition bit_in (d : mdata) (c : contrib) : bool := Z.testbit (tot d) (Z.log2 (tot (cdata c))).
Definition mon_capacity (b : build) (o : tobs) : bool :=
  let cs := contribs ATTEMPTS b in
  keys_distinct (o_entries o)
  && forallb (fun e =>
        omd_eqb (fieldwise (map cdata (filter (fun c => key_eqb (ckey c) (oe_key e) && bit_in (oe_data e) c) cs)))
                (Some (oe_data e))) (o_entries o)
  && forallb (fun c => negb (cforced c) ||
                       existsb (fun e => key_eqb (oe_key e) (ckey c) && bit_in (oe_data e) c) (o_entries o)) cs
  && (Z.of_nat (length (filter (fun e => negb (oe_forced e)) (o_entries o))) <=? Z.max 0 (o_max o))
  && (o_count o =? Z.of_nat (length (o_entries o))).

(* rename: the table observed after ApplyRules against the table observed before it *)
Definition mon_rename (rn : option (name -> name)) (pre post : tobs) : bool :=
  match rn with
  | None =>
      (o_count post =? o_count pre) && (o_failed post =? o_failed pre) && (o_max post =? o_max pre)
      && (length (o_entries post) =? length (o_entries pre))%nat
      && forallb (fun e => existsb (fun p => key_eqb (oe_key p) (oe_key e) && mdata_eqb (oe_data p) (oe_data e))
                                   (o_entries pre)) (o_entries post)
  | Some f =>
      let rk (p : obs_entry) : key := (f (fst (oe_key p)), snd (oe_key p)) in
      keys_distinct (o_entries post)
      && (o_failed post =? o_failed pre) && (o_max post =? o_max pre)
      && (o_count post =? Z.of_nat (length (o_entries post)))
      && forallb (fun e => omd_eqb (fieldwise (map oe_data (filter (fun p => key_eqb (rk p) (oe_key e)) (o_entries pre))))
                                   (Some (oe_data e))) (o_entries post)
      && forallb (fun p => existsb (fun e => key_eqb (oe_key e) (rk p)) (o_entries post)) (o_entries pre)
      && (zsum (map (fun e => cnt (oe_data e)) (o_entries post)) =? zsum (map (fun e => cnt (oe_data e)) (o_entries pre)))
  end.

(* a scoped transaction metric is found under both keys (stated on one transaction added to an
   empty roomy table: observed entries = its contributions) *)
Definition mon_scoped (txn : name) (ms : list tmetric) (o : tobs) : bool :=
  forallb (fun m =>
    existsb (fun e => key_eqb (oe_key e) (tm_name m, [])) (o_entries o) &&
    (negb (tm_scoped m) || existsb (fun e => key_eqb (oe_key e) (tm_name m, txn)) (o_entries o))) ms.

(* ---- correspondence helpers (these DO evaluate the model) ---- *)
Definition corr_full (cmp_forced : bool) (t : table) (o : tobs) : bool :=
  (tmax t =? o_max o) && (tcount t =? o_count o) && (tdropped t =? o_dropped o) && (tfailed t =? o_failed o)
  && (length (entries t) =? length (o_entries o))%nat
  && forallb (fun e => match lookup (oe_key e) (entries t) with
                       | Some me => mdata_eqb (data me) (oe_data e) && (negb cmp_forced || Bool.eqb (forced me) (oe_forced e))
                       | None => false
                       end) (o_entries o).
(* when refusals depend on the map iteration order only order-independent quantities are compared *)
Definition corr_coarse (t : table) (o : tobs) : bool :=
  (tmax t =? o_max o) && (tcount t + tdropped t =? o_count o + o_dropped o) && (tfailed t =? o_failed o).
