(* ProcInv.v -- conservation of tagged data in the processor model (C01, C02, C11).
   Every tag accepted into a run's harvest is, at every moment, in exactly one of:
   held in a harvest, in a request awaiting its answer, acknowledged, or given up (with a reason). *)
From Coq Require Import NArith ZArith List Bool Lia Permutation.
From Verif.Gen Require Limits_gen HarvestBits_gen.
From Verif Require Import Processor.
Import ListNotations.

Definition cnt (t : N) (l : list N) : nat := count_occ N.eq_dec l t.

Lemma cnt_app t a b : cnt t (a ++ b) = cnt t a + cnt t b.
Proof. apply count_occ_app. Qed.
Lemma cnt_nil t : cnt t [] = 0.
Proof. reflexivity. Qed.
Lemma cnt_cons t x l : cnt t (x :: l) = (if N.eq_dec x t then 1 else 0) + cnt t l.
Proof. unfold cnt. cbn. destruct (N.eq_dec x t); reflexivity. Qed.

Ltac cnt_norm :=
  unfold tags in *;
  repeat (progress (cbn [map fst snd] in *; rewrite ?map_app, ?cnt_app, ?cnt_cons, ?cnt_nil in *)).
Ltac cnt_solve :=
  cnt_norm;
  repeat match goal with |- context [N.eq_dec ?a ?b] => destruct (N.eq_dec a b) end;
  lia.

Definition total (s : proc) (t : N) : nat :=
  cnt t (held s) + cnt t (inflight s) + cnt t (g_acked s) + cnt t (dropped s).

(* the ghost equation *)
Definition bal (s : proc) : Prop := forall t, cnt t (g_offered s) = total s t.

(* s' accounts for everything s did, plus what was newly offered *)
Definition conserve (s s' : proc) : Prop :=
  forall t, total s' t + cnt t (g_offered s) = total s t + cnt t (g_offered s').

Lemma conserve_refl s : conserve s s.
Proof. intros t. lia. Qed.
Lemma conserve_trans a b c : conserve a b -> conserve b c -> conserve a c.
Proof. intros H1 H2 t. specialize (H1 t). specialize (H2 t). lia. Qed.
Lemma conserve_bal s s' : conserve s s' -> bal s -> bal s'.
Proof. intros H B t. specialize (H t). specialize (B t). lia. Qed.

(* states that agree on the accounted components *)
Definition same_acct (s s' : proc) : Prop :=
  p_ahs s' = p_ahs s /\ p_reqs s' = p_reqs s /\ g_offered s' = g_offered s /\
  g_acked s' = g_acked s /\ g_dropped s' = g_dropped s.
Lemma same_acct_conserve s s' : same_acct s s' -> conserve s s'.
Proof.
  intros (H1 & H2 & H3 & H4 & H5) t. unfold total, held, inflight, dropped.
  rewrite H1, H2, H3, H4, H5. lia.
Qed.

(* ------------------------------------------------------------------ tags of containers *)
Lemma tags_app a b : tags (a ++ b) = tags a ++ tags b.
Proof. apply map_app. Qed.

Lemma min_item_in x l : min_item x l = x \/ In (min_item x l) l.
Proof.
  revert x. induction l as [|y r IH]; intros x; cbn; [left; reflexivity|].
  destruct (i_prio y <? i_prio x)%Z.
  - destruct (IH y) as [H|H]; [right; left; symmetry; exact H|right; right; exact H].
  - destruct (IH x) as [H|H]; [left; exact H|right; right; exact H].
Qed.

Lemma remove_tag_cnt t m l :
  In m l -> cnt t (tags (remove_tag (i_tag m) l)) + (if N.eq_dec (i_tag m) t then 1 else 0) = cnt t (tags l).
Proof.
  unfold tags. induction l as [|y r IH]; intros Hin; [destruct Hin|].
  cbn [remove_tag]. destruct (N.eqb_spec (i_tag y) (i_tag m)) as [E|E].
  - cbn [map]. rewrite cnt_cons. rewrite E. destruct (N.eq_dec (i_tag m) t); lia.
  - destruct Hin as [->|Hin]; [congruence|].
    cbn [map]. rewrite !cnt_cons. specialize (IH Hin).
    destruct (N.eq_dec (i_tag m) t); destruct (N.eq_dec (i_tag y) t); lia.
Qed.

Lemma min_item_in_cons y r : In (min_item y r) (y :: r).
Proof. destruct (min_item_in y r) as [H|H]; [left; symmetry; exact H|right; exact H]. Qed.

(* each admission policy conserves tags: new bag + refused/displaced = old bag + newcomer *)
Definition policy_ok (f : list item -> item -> list item * list item) : Prop :=
  forall bag x t, cnt t (tags (fst (f bag x))) + cnt t (tags (snd (f bag x))) =
                  cnt t (tags bag) + cnt t [i_tag x].

Lemma displace_ok t (bag : list item) (x m : item) :
  In m bag ->
  cnt t (tags (remove_tag (i_tag m) bag ++ [x])) + cnt t (tags [m]) = cnt t (tags bag) + cnt t [i_tag x].
Proof.
  intros Hin. rewrite tags_app, cnt_app. pose proof (remove_tag_cnt t m bag Hin) as H.
  unfold tags in *. cbn [map]. rewrite !cnt_cons, !cnt_nil.
  destruct (N.eq_dec (i_tag m) t); destruct (N.eq_dec (i_tag x) t); lia.
Qed.

Lemma ins_event_ok cap : policy_ok (ins_event cap).
Proof.
  intros bag x t. unfold ins_event. destruct (lenN bag <? cap)%N.
  - cnt_solve.
  - destruct bag as [|y r]; [cnt_solve|].
    destruct (i_prio x <? i_prio (min_item y r))%Z; cbn [fst snd].
    + cnt_solve.
    + apply displace_ok. apply min_item_in_cons.
Qed.

Lemma ins_error_ok cap : policy_ok (ins_error cap).
Proof.
  intros bag x t. unfold ins_error. destruct (lenN bag <? cap)%N.
  - cnt_solve.
  - destruct bag as [|y r]; [cnt_solve|].
    destruct (i_prio x <=? i_prio (min_item y r))%Z; cbn [fst snd].
    + cnt_solve.
    + apply displace_ok. apply min_item_in_cons.
Qed.

Lemma ins_trace_ok : policy_ok ins_trace.
Proof.
  intros bag x t. unfold ins_trace.
  destruct (lenN (filter (in_pool (i_key x)) bag) <? pool_cap (i_key x))%N.
  - cnt_solve.
  - destruct (filter (in_pool (i_key x)) bag) as [|y r] eqn:E; [cnt_solve|].
    destruct (i_prio x <? i_prio (min_item y r))%Z; cbn [fst snd].
    + cnt_solve.
    + apply displace_ok.
      assert (Hin : In (min_item y r) (filter (in_pool (i_key x)) bag)) by (rewrite E; apply min_item_in_cons).
      apply filter_In in Hin. tauto.
Qed.

Lemma filter_split_cnt t (p : item -> bool) (l : list item) :
  cnt t (tags (filter (fun y => negb (p y)) l)) + cnt t (tags (filter p l)) = cnt t (tags l).
Proof.
  unfold tags. induction l as [|y r IH]; [reflexivity|]. cbn [filter]. destruct (p y); cbn [negb map];
    rewrite ?cnt_cons; lia.
Qed.

Lemma ins_slow_ok cap : policy_ok (ins_slow cap).
Proof.
  intros bag x t. unfold ins_slow.
  destruct (existsb (fun y => (i_key y =? i_key x)%N) bag).
  - cnt_solve.
  - destruct (lenN (keys_of bag []) <? cap)%N.
    + cnt_solve.
    + destruct (keys_of bag []) as [|k r]; [cnt_solve|].
      destruct (entry_max bag (fastest_key bag k r) <? i_prio x)%Z; cbn [fst snd].
      * pose proof (filter_split_cnt t (fun y => (i_key y =? fastest_key bag k r)%N) bag) as H.
        cnt_solve.
      * cnt_solve.
Qed.

Lemma insert_ok c cap : policy_ok (insert c cap).
Proof.
  destruct c; intros bag x t; cbn [insert];
    try apply ins_event_ok; try apply ins_error_ok; try apply ins_slow_ok; try apply ins_trace_ok;
    cnt_solve.
Qed.

(* ------------------------------------------------------------------ harvests *)
Lemma harvest_tags_set_bag t h c b :
  cnt t (harvest_tags (set_bag h c b)) + cnt t (tags (h_bag h c)) = cnt t (harvest_tags h) + cnt t (tags b).
Proof.
  unfold harvest_tags, all_cats, all_order, set_bag, upd. cbn [h_bag map concat].
  destruct c; cbn [cat_eqb cat_idx Nat.eqb]; rewrite ?cnt_app, ?cnt_nil; lia.
Qed.

Lemma harvest_tags_set_seen h c n : harvest_tags (set_seen h c n) = harvest_tags h.
Proof. reflexivity. Qed.
Lemma harvest_tags_set_failed h c n : harvest_tags (set_failed h c n) = harvest_tags h.
Proof. reflexivity. Qed.
Lemma harvest_tags_set_cap h c n : harvest_tags (set_cap h c n) = harvest_tags h.
Proof. reflexivity. Qed.
Lemma harvest_tags_set_flags h a b c : harvest_tags (set_flags h a b c) = harvest_tags h.
Proof. reflexivity. Qed.
Lemma harvest_tags_new caps : harvest_tags (new_harvest caps) = [].
Proof. reflexivity. Qed.

Lemma add_item_ok t h c x :
  cnt t (harvest_tags (fst (add_item h c x))) + cnt t (tags (snd (add_item h c x))) =
  cnt t (harvest_tags h) + cnt t [i_tag x].
Proof.
  unfold add_item. pose proof (insert_ok c (h_cap h c) (h_bag h c) x t) as P.
  destruct (insert c (h_cap h c) (h_bag h c) x) as [b d]. cbn [fst snd] in *.
  pose proof (harvest_tags_set_bag t h c b) as Q.
  destruct (is_event c); cbn [fst snd]; rewrite ?harvest_tags_set_seen; lia.
Qed.

Lemma add_items_ok t l : forall h,
  cnt t (harvest_tags (fst (add_items h l))) + cnt t (tags (snd (add_items h l))) =
  cnt t (harvest_tags h) + cnt t (map (fun ci => i_tag (snd ci)) l).
Proof.
  induction l as [|[c x] r IH]; intros h; [cbn; lia|].
  cbn [add_items]. pose proof (add_item_ok t h c x) as P.
  destruct (add_item h c x) as [h1 d1]. cbn [fst snd] in P.
  specialize (IH h1). destruct (add_items h1 r) as [h2 d2]. cbn [fst snd] in *.
  rewrite tags_app, cnt_app. cbn [map snd]. rewrite cnt_cons. rewrite cnt_cons, cnt_nil in P. lia.
Qed.

(* ------------------------------------------------------------------ the table of app harvests *)
Definition held_of (l : list apph) : list N := concat (map (fun ah => harvest_tags (ah_h ah)) l).

Lemma held_of_app t a b : cnt t (held_of (a ++ b)) = cnt t (held_of a) + cnt t (held_of b).
Proof. unfold held_of. rewrite map_app, concat_app, cnt_app. reflexivity. Qed.

Lemma held_of_set_nth t (l : list apph) : forall i ah,
  i < length l ->
  cnt t (held_of (set_nth i ah l)) + cnt t (harvest_tags (ah_h (nth i l dummy_ah))) =
  cnt t (held_of l) + cnt t (harvest_tags (ah_h ah)).
Proof.
  induction l as [|x r IH]; intros i ah Hi; [cbn in Hi; lia|].
  destruct i as [|i]; cbn [set_nth nth].
  - unfold held_of. cbn [map concat]. rewrite !cnt_app. lia.
  - cbn [length] in Hi. specialize (IH i ah ltac:(lia)).
    unfold held_of in *. cbn [map concat]. rewrite !cnt_app. lia.
Qed.

Lemma held_put_ah_h t s i h :
  i < length (p_ahs s) ->
  cnt t (held (put_ah_h s i h)) + cnt t (harvest_tags (ah_h (get_ah s i))) =
  cnt t (held s) + cnt t (harvest_tags h).
Proof.
  intros Hi. unfold put_ah_h, held, get_ah. cbn [p_ahs with_ahs].
  pose proof (held_of_set_nth t (p_ahs s) i
                {| ah_app := ah_app (nth i (p_ahs s) dummy_ah); ah_run := ah_run (nth i (p_ahs s) dummy_ah); ah_h := h |} Hi) as P.
  unfold held_of in P. cbn [ah_h] in P. exact P.
Qed.

(* ------------------------------------------------------------------ state-level helpers *)
Ltac proj_simp :=
  cbn [p_apps p_objs p_runs p_ahs p_reqs p_conns p_groups p_ubuf p_now p_next p_quit
       g_offered g_acked g_dropped g_sent
       with_objs with_apps with_runs with_ahs with_reqs with_conns with_groups with_ubuf with_now with_next with_quit
       ghost_offer ghost_ack ghost_drop ghost_sent put_obj add_usage shutdown_run] in *.

Lemma dropped_ghost_drop s why l : dropped (ghost_drop s why l) = dropped s ++ l.
Proof.
  unfold dropped. proj_simp. rewrite map_app, map_map. cbn [fst]. rewrite map_id. reflexivity.
Qed.

Definition runs_valid (s : proc) : Prop :=
  forall r i, lookupN r (p_runs s) = Some i -> i < length (p_ahs s).

Lemma lookupN_removeN {A} k k' (l : list (N * A)) v :
  lookupN k (removeN k' l) = Some v -> lookupN k l = Some v.
Proof.
  induction l as [|[a b] r IH]; cbn; [discriminate|].
  destruct (N.eqb_spec a k') as [E|E].
  - intros H. specialize (IH H). destruct (N.eqb_spec a k) as [E2|E2]; [|exact IH].
    subst. (* k = k' : lookup in removeN k' finds nothing for k' *)
    exfalso. clear IH. revert H. clear. induction r as [|[a b] r IH]; cbn; [discriminate|].
    destruct (N.eqb_spec a k); [exact IH|]. cbn. destruct (N.eqb_spec a k); [congruence|exact IH].
  - cbn. destruct (N.eqb_spec a k); [auto|exact IH].
Qed.

Lemma runs_valid_shutdown s r : runs_valid s -> runs_valid (shutdown_run s r).
Proof. intros H r' i Hl. unfold shutdown_run in Hl. proj_simp. apply lookupN_removeN in Hl. exact (H r' i Hl). Qed.

(* updates of the fields that hold no tagged data *)
Lemma same_acct_refl s : same_acct s s.
Proof. repeat split. Qed.
Lemma same_acct_trans a b c : same_acct a b -> same_acct b c -> same_acct a c.
Proof. unfold same_acct. intuition congruence. Qed.

Definition same_runs (s s' : proc) : Prop := p_runs s' = p_runs s /\ p_ahs s' = p_ahs s.

Lemma consider_connect_same s i : same_acct s (fst (consider_connect s i)) /\ same_runs s (fst (consider_connect s i)).
Proof.
  unfold consider_connect. destruct (needs_connect (get_obj s i) (p_now s)); cbn [fst];
    split; repeat split; reflexivity.
Qed.

Lemma runs_valid_same s s' : same_runs s s' -> runs_valid s -> runs_valid s'.
Proof. intros [H1 H2] V r i Hl. rewrite H1 in Hl. rewrite H2. exact (V r i Hl). Qed.

(* ------------------------------------------------------------------ transactions *)
Lemma aggregate_ok t h x :
  let '(h', d, ov) := aggregate h x in
  cnt t (harvest_tags h') + cnt t (tags d) + cnt t (tags ov) = cnt t (harvest_tags h) + cnt t (txn_tags x).
Proof.
  unfold aggregate, txn_tags. pose proof (add_items_ok t (t_items x) h) as A.
  destruct (add_items h (t_items x)) as [h1 d1]. cbn [fst snd] in A.
  destruct (t_pkgs x) as [pk|].
  - pose proof (harvest_tags_set_bag t (set_flags h1 true true (h_haspkgs h1)) CPkgs pk) as Q.
    rewrite !harvest_tags_set_flags in *. rewrite cnt_app.
    change (h_bag (set_flags h1 true true (h_haspkgs h1)) CPkgs) with (h_bag h1 CPkgs) in *. lia.
  - rewrite harvest_tags_set_flags. rewrite cnt_app. cbn [tags map]. rewrite !cnt_nil. lia.
Qed.

Lemma length_set_nth {A} (l : list A) : forall i v, length (set_nth i v l) = length l.
Proof. induction l as [|x r IH]; intros [|i] v; cbn; auto. Qed.

Lemma runs_valid_put_ah_h s i h : runs_valid s -> runs_valid (put_ah_h s i h).
Proof.
  intros V r j Hl. unfold put_ah_h in *. proj_simp. rewrite length_set_nth. exact (V r j Hl).
Qed.

Lemma txn_data_conserve s run t :
  runs_valid s -> conserve s (fst (txn_data s run t)) /\ runs_valid (fst (txn_data s run t)).
Proof.
  intros V. unfold txn_data. destruct (lookupN run (p_runs s)) as [ahid|] eqn:L;
    [|split; [apply conserve_refl|exact V]].
  pose proof (V run ahid L) as Hi.
  pose proof (fun u => aggregate_ok u (ah_h (get_ah s ahid)) t) as A.
  destruct (aggregate (ah_h (get_ah s ahid)) t) as [[h' d] ov]. cbn [fst].
  set (s1 := put_obj s (ah_app (get_ah s ahid)) (set_activity (get_obj s (ah_app (get_ah s ahid))) (p_now s))).
  split.
  - intros u. unfold total. rewrite !dropped_ghost_drop.
    pose proof (held_put_ah_h u s1 ahid h' Hi) as P. specialize (A u).
    subst s1. unfold held, inflight, dropped in *. proj_simp. unfold put_ah_h, get_ah in *. proj_simp.
    rewrite !cnt_app. lia.
  - intros r i Hl. proj_simp. unfold put_ah_h in *. proj_simp. rewrite length_set_nth. exact (V r i Hl).
Qed.

(* ------------------------------------------------------------------ emitting requests *)
Definition req_tags (qs : list request) : list N := concat (map (fun q => tags (rq_items q)) qs).

Lemma req_tags_app a b : req_tags (a ++ b) = req_tags a ++ req_tags b.
Proof. unfold req_tags. rewrite map_app, concat_app. reflexivity. Qed.

Definition only_next (s s' : proc) : Prop :=
  same_acct s s' /\ same_runs s s' /\ p_objs s' = p_objs s /\ p_ubuf s' = p_ubuf s /\ p_groups s' = p_groups s /\
  p_apps s' = p_apps s /\ p_conns s' = p_conns s /\ p_now s' = p_now s /\ p_quit s' = p_quit s.

Lemma only_next_refl s : only_next s s.
Proof. repeat split. Qed.
Lemma only_next_trans a b c : only_next a b -> only_next b c -> only_next a c.
Proof.
  unfold only_next, same_acct, same_runs. intros H1 H2. decompose [and] H1. decompose [and] H2.
  repeat split; congruence.
Qed.

Lemma firstn_skipn_tags t (l : list item) n :
  cnt t (tags (firstn n l)) + cnt t (tags (skipn n l)) = cnt t (tags l).
Proof. rewrite <- cnt_app, <- tags_app, firstn_skipn. reflexivity. Qed.

Lemma emit_cat_ok s e c bag seen failed cap internal :
  only_next s (fst (emit_cat s e c bag seen failed cap internal)) /\
  forall t, cnt t (req_tags (snd (emit_cat s e c bag seen failed cap internal))) = cnt t (tags bag).
Proof.
  unfold emit_cat.
  match goal with |- context [if ?b then (s, []) else _] => destruct b eqn:E end.
  - cbn [fst snd]. split; [apply only_next_refl|]. intros t.
    destruct c; destruct bag; try discriminate; reflexivity.
  - destruct (cat_eqb c CTxnEv && e_dt e && (split_threshold <=? lenN bag)%N); cbn [fst snd].
    + split; [repeat split|]. intros t. unfold req_tags. cbn [map concat rq_items mk_req].
      rewrite app_nil_r, cnt_app. apply firstn_skipn_tags.
    + split; [repeat split|]. intros t. unfold req_tags. cbn [map concat rq_items mk_req].
      rewrite app_nil_r. reflexivity.
Qed.

Lemma emit_cats_ok e h cs : forall s,
  only_next s (fst (emit_cats s e h cs)) /\
  forall t, cnt t (req_tags (snd (emit_cats s e h cs))) = cnt t (concat (map (fun c => tags (h_bag h c)) cs)).
Proof.
  induction cs as [|c r IH]; intros s; cbn [emit_cats].
  - split; [apply only_next_refl|reflexivity].
  - pose proof (emit_cat_ok s e c (h_bag h c) (h_seen h c) (h_failed h c) (h_cap h c) (h_internal h)) as [O1 T1].
    destruct (emit_cat s e c (h_bag h c) (h_seen h c) (h_failed h c) (h_cap h c) (h_internal h)) as [s1 q1].
    cbn [fst snd] in *. specialize (IH s1). destruct IH as [O2 T2].
    destruct (emit_cats s1 e h r) as [s2 q2]. cbn [fst snd] in *.
    split; [eapply only_next_trans; eassumption|].
    intros t. rewrite req_tags_app, cnt_app. cbn [map concat]. rewrite cnt_app. rewrite T1, T2. reflexivity.
Qed.

(* sorting the requests of a step is a permutation *)
Lemma insert_req_tags t q l : cnt t (req_tags (insert_req q l)) = cnt t (req_tags (q :: l)).
Proof.
  induction l as [|y r IH]; [reflexivity|]. cbn [insert_req].
  destruct (Nat.ltb (req_rank q) (req_rank y)); [reflexivity|].
  unfold req_tags in *. cbn [map concat] in *. rewrite !cnt_app in *. lia.
Qed.

Lemma sort_reqs_tags t l : cnt t (req_tags (sort_reqs l)) = cnt t (req_tags l).
Proof.
  unfold sort_reqs.
  assert (G : forall acc, cnt t (req_tags (fold_left (fun a q => insert_req q a) l acc)) =
                          cnt t (req_tags acc) + cnt t (req_tags l)).
  { induction l as [|q r IH]; intros acc; cbn [fold_left]; [unfold req_tags; cbn; lia|].
    rewrite IH, insert_req_tags. unfold req_tags. cbn [map concat]. rewrite !cnt_app. lia. }
  rewrite G. unfold req_tags at 1. cbn. lia.
Qed.

Lemma register_ok s qs :
  p_ahs (register s qs) = p_ahs s /\ g_offered (register s qs) = g_offered s /\
  g_acked (register s qs) = g_acked s /\ g_dropped (register s qs) = g_dropped s /\
  p_runs (register s qs) = p_runs s /\
  forall t, cnt t (inflight (register s qs)) = cnt t (inflight s) + cnt t (req_tags qs).
Proof.
  unfold register. proj_simp. repeat split. intros t. unfold inflight. proj_simp.
  rewrite map_app, concat_app, cnt_app. fold (req_tags (sort_reqs qs)). rewrite sort_reqs_tags. reflexivity.
Qed.

Lemma usage_request_ok s e :
  same_acct s (fst (usage_request s e)) /\ same_runs s (fst (usage_request s e)) /\
  req_tags (snd (usage_request s e)) = [].
Proof.
  unfold usage_request. destruct (Nat.eqb (p_ubuf s) 0); cbn [fst snd]; repeat split.
Qed.

(* ------------------------------------------------------------------ packages *)
Lemma filter_pkgs_ok t l : forall seen,
  let '(n, o, _) := filter_pkgs seen l in cnt t (tags n) + cnt t (tags o) = cnt t (tags l).
Proof.
  induction l as [|x r IH]; intros seen; cbn [filter_pkgs]; [reflexivity|].
  destruct (existsb (N.eqb (i_key x)) seen).
  - specialize (IH seen). destruct (filter_pkgs seen r) as [[n o] sn]. cnt_norm. destruct (N.eq_dec (i_tag x) t); lia.
  - specialize (IH (seen ++ [i_key x])). destruct (filter_pkgs (seen ++ [i_key x]) r) as [[n o] sn].
    cnt_norm. destruct (N.eq_dec (i_tag x) t); lia.
Qed.

Lemma filter_harvest_pkgs_ok s appi h :
  let s' := fst (filter_harvest_pkgs s appi h) in
  let h' := snd (filter_harvest_pkgs s appi h) in
  p_ahs s' = p_ahs s /\ p_reqs s' = p_reqs s /\ g_offered s' = g_offered s /\ g_acked s' = g_acked s /\
  p_runs s' = p_runs s /\ p_next s' = p_next s /\
  exists d, dropped s' = dropped s ++ d /\
            forall t, cnt t (harvest_tags h') + cnt t d = cnt t (harvest_tags h).
Proof.
  unfold filter_harvest_pkgs. destruct (h_haspkgs h).
  - pose proof (fun t => filter_pkgs_ok t (h_bag h CPkgs) (a_seen_pkgs (get_obj s appi))) as F.
    destruct (filter_pkgs (a_seen_pkgs (get_obj s appi)) (h_bag h CPkgs)) as [[newp oldp] seen'].
    cbn [fst snd]. repeat split. exists (tags oldp). split; [rewrite dropped_ghost_drop; reflexivity|].
    intros t. rewrite harvest_tags_set_flags. pose proof (harvest_tags_set_bag t h CPkgs newp) as Q.
    specialize (F t). lia.
  - cbn [fst snd]. repeat split. exists []. split; [rewrite app_nil_r; reflexivity|]. intros t. cbn. lia.
Qed.

Lemma harvest_tags_final h : harvest_tags (final_metrics h) = harvest_tags h.
Proof. unfold final_metrics. destruct (harvest_empty h); reflexivity. Qed.

(* ------------------------------------------------------------------ harvestByType *)
Lemma harvest_tags_reset t h c cap :
  cnt t (harvest_tags (reset_cat h c cap)) + cnt t (tags (h_bag h c)) = cnt t (harvest_tags h).
Proof.
  unfold reset_cat. rewrite harvest_tags_set_cap, harvest_tags_set_failed, harvest_tags_set_seen.
  pose proof (harvest_tags_set_bag t h c []) as Q. cbn [tags map] in Q. rewrite cnt_nil in Q. lia.
Qed.

Lemma h_bag_reset h c cap c' : h_bag (reset_cat h c cap) c' = if cat_eqb c' c then [] else h_bag h c'.
Proof. reflexivity. Qed.

Lemma default_reset_ok t hp :
  cnt t (harvest_tags (set_flags (fold_left (fun hh c => reset_cat hh c (h_cap hh c)) default_order hp) false false false)) +
  cnt t (concat (map (fun c => tags (h_bag hp c)) default_order)) = cnt t (harvest_tags hp).
Proof.
  rewrite harvest_tags_set_flags.
  unfold default_order. cbn [fold_left map concat].
  set (h1 := reset_cat hp CMetrics (h_cap hp CMetrics)).
  set (h2 := reset_cat h1 CErrors (h_cap h1 CErrors)).
  set (h3 := reset_cat h2 CSlow (h_cap h2 CSlow)).
  set (h4 := reset_cat h3 CTraces (h_cap h3 CTraces)).
  pose proof (harvest_tags_reset t hp CMetrics (h_cap hp CMetrics)) as R1. fold h1 in R1.
  pose proof (harvest_tags_reset t h1 CErrors (h_cap h1 CErrors)) as R2. fold h2 in R2.
  pose proof (harvest_tags_reset t h2 CSlow (h_cap h2 CSlow)) as R3. fold h3 in R3.
  pose proof (harvest_tags_reset t h3 CTraces (h_cap h3 CTraces)) as R4. fold h4 in R4.
  pose proof (harvest_tags_reset t h4 CPkgs (h_cap h4 CPkgs)) as R5.
  assert (B2 : h_bag h1 CErrors = h_bag hp CErrors) by reflexivity.
  assert (B3 : h_bag h2 CSlow = h_bag hp CSlow) by reflexivity.
  assert (B4 : h_bag h3 CTraces = h_bag hp CTraces) by reflexivity.
  assert (B5 : h_bag h4 CPkgs = h_bag hp CPkgs) by reflexivity.
  rewrite B2 in R2. rewrite B3 in R3. rewrite B4 in R4. rewrite B5 in R5.
  rewrite !cnt_app, cnt_nil. lia.
Qed.

Lemma event_step_ok ty caps e acc cb :
  let '(sa, ha, qa) := acc in
  let '(sb, hb, qb) := event_step ty caps e acc cb in
  only_next sa sb /\
  forall t, cnt t (harvest_tags hb) + cnt t (req_tags qb) = cnt t (harvest_tags ha) + cnt t (req_tags qa).
Proof.
  destruct acc as [[sa ha] qa]. destruct cb as [c bit]. unfold event_step.
  destruct (has_bits ty bit && negb (caps c =? 0)%N).
  - pose proof (emit_cat_ok sa e c (h_bag ha c) (h_seen ha c) (h_failed ha c) (h_cap ha c) false) as [O T].
    destruct (emit_cat sa e c (h_bag ha c) (h_seen ha c) (h_failed ha c) (h_cap ha c) false) as [sb q].
    cbn [fst snd] in *. split; [exact O|]. intros t. rewrite req_tags_app, cnt_app, T.
    pose proof (harvest_tags_reset t ha c (caps c)). lia.
  - split; [apply only_next_refl|]. intros t. lia.
Qed.

Lemma event_steps_ok ty caps e l : forall acc,
  let '(sa, ha, qa) := acc in
  let '(sb, hb, qb) := fold_left (event_step ty caps e) l acc in
  only_next sa sb /\
  forall t, cnt t (harvest_tags hb) + cnt t (req_tags qb) = cnt t (harvest_tags ha) + cnt t (req_tags qa).
Proof.
  induction l as [|cb r IH]; intros [[sa ha] qa]; cbn [fold_left].
  - split; [apply only_next_refl|]. intros t. lia.
  - pose proof (event_step_ok ty caps e (sa, ha, qa) cb) as P.
    destruct (event_step ty caps e (sa, ha, qa) cb) as [[s1 h1] q1]. destruct P as [O1 T1].
    specialize (IH (s1, h1, q1)). destruct (fold_left (event_step ty caps e) r (s1, h1, q1)) as [[sb hb] qb].
    destruct IH as [O2 T2]. split; [eapply only_next_trans; eassumption|].
    intros t. rewrite T2, T1. reflexivity.
Qed.

Lemma runs_valid_only_next s s' : only_next s s' -> runs_valid s -> runs_valid s'.
Proof. intros (_ & R & _). apply runs_valid_same. exact R. Qed.

Lemma total_same s s' t : same_acct s s' -> total s' t = total s t.
Proof.
  intros (H1 & H2 & H3 & H4 & H5). unfold total, held, inflight, dropped. rewrite H1, H2, H4, H5. reflexivity.
Qed.

(* a packaged description of what a step did to the accounted components *)
Record effect (s s' : proc) (dh_minus dh_plus di dd : list N) : Prop := {
  eff_runs : runs_valid s -> runs_valid s';
  eff_off : g_offered s' = g_offered s;
  eff_ack : g_acked s' = g_acked s;
  eff_held : forall t, cnt t (held s') + cnt t dh_minus = cnt t (held s) + cnt t dh_plus;
  eff_infl : forall t, cnt t (inflight s') = cnt t (inflight s) + cnt t di;
  eff_drop : forall t, cnt t (dropped s') = cnt t (dropped s) + cnt t dd
}.

Lemma effect_conserve s s' a b c d :
  effect s s' a b c d -> (forall t, cnt t a = cnt t b + cnt t c + cnt t d) -> conserve s s'.
Proof.
  intros E H t. unfold total. rewrite (eff_off _ _ _ _ _ _ E), (eff_ack _ _ _ _ _ _ E).
  pose proof (eff_held _ _ _ _ _ _ E t). pose proof (eff_infl _ _ _ _ _ _ E t).
  pose proof (eff_drop _ _ _ _ _ _ E t). specialize (H t). lia.
Qed.

Lemma default_stage_ok s e appi h dflt :
  let '(s1, h1, qs1) := default_stage s e appi h dflt in
  p_ahs s1 = p_ahs s /\ p_reqs s1 = p_reqs s /\ g_offered s1 = g_offered s /\ g_acked s1 = g_acked s /\
  p_runs s1 = p_runs s /\
  exists d, dropped s1 = dropped s ++ d /\
            forall t, cnt t (harvest_tags h1) + cnt t (req_tags qs1) + cnt t d = cnt t (harvest_tags h).
Proof.
  unfold default_stage. destruct dflt.
  - pose proof (filter_harvest_pkgs_ok s appi (final_metrics h)) as F.
    destruct (filter_harvest_pkgs s appi (final_metrics h)) as [s1 hp]. cbn [fst snd] in F.
    destruct F as (F1 & F2 & F3 & F4 & F5 & F6 & d & Fd & Ft).
    pose proof (emit_cats_ok e hp default_order s1) as [O T].
    destruct (emit_cats s1 e hp default_order) as [s2 qs]. cbn [fst snd] in O, T.
    destruct O as ((A1 & A2 & A3 & A4 & A5) & (Or1 & Or2) & _).
    repeat split; try congruence.
    exists d. split; [unfold dropped in *; rewrite A5; exact Fd|].
    intros t. specialize (Ft t). specialize (T t). pose proof (default_reset_ok t hp) as R.
    rewrite harvest_tags_final in Ft. lia.
  - repeat split. exists []. split; [rewrite app_nil_r; reflexivity|]. intros t. unfold req_tags. cbn. lia.
Qed.

Lemma harvest_by_type_conserve s ahid ty :
  ahid < length (p_ahs s) -> runs_valid s ->
  conserve s (fst (harvest_by_type s ahid ty)) /\ runs_valid (fst (harvest_by_type s ahid ty)).
Proof.
  intros Hi V. unfold harvest_by_type.
  set (ah := get_ah s ahid). set (a := get_obj s (ah_app ah)). set (h := ah_h ah).
  set (grp := p_next s). set (s0 := with_next s (S grp)). set (e := ctx_of s0 ah grp). set (caps := cur_caps a).
  destruct (has_bits ty HarvestBits_gen.HarvestAll).
  - (* everything at once *)
    pose proof (filter_harvest_pkgs_ok (put_ah_h s0 ahid (new_harvest caps)) (ah_app ah) h) as F.
    destruct (filter_harvest_pkgs (put_ah_h s0 ahid (new_harvest caps)) (ah_app ah) h) as [s2 h1].
    cbn [fst snd] in F. destruct F as (F1 & F2 & F3 & F4 & F5 & F6 & d & Fd & Ft).
    pose proof (emit_cats_ok e (final_metrics h1) all_order s2) as [O T].
    destruct (emit_cats s2 e (final_metrics h1) all_order) as [s3 qs]. cbn [fst snd] in O, T.
    pose proof (register_ok s3 qs) as (R1 & R2 & R3 & R4 & R5 & R6).
    assert (Hheld : forall t, cnt t (held (put_ah_h s0 ahid (new_harvest caps))) + cnt t (harvest_tags h) = cnt t (held s)).
    { intros t. pose proof (held_put_ah_h t s0 ahid (new_harvest caps) Hi) as P.
      rewrite harvest_tags_new, cnt_nil in P. subst s0 h ah. unfold get_ah in *. proj_simp. unfold held in *. proj_simp. lia. }
    destruct O as (Oa & Or & _).
    assert (Hcons : conserve s (register s3 qs)).
    { intros t. unfold total. specialize (Hheld t). specialize (Ft t). specialize (T t). specialize (R6 t).
      destruct Oa as (A1 & A2 & A3 & A4 & A5).
      unfold held, dropped in *. rewrite R1, R2, R3, R4, A1, A3, A4, A5, F1, F3, F4.
      unfold inflight in R6 |- *. rewrite R6. unfold inflight. rewrite A2, F2.
      unfold dropped in Fd. rewrite Fd, cnt_app.
      change (concat (map (fun c => tags (h_bag (final_metrics h1) c)) all_order)) with (harvest_tags (final_metrics h1)) in T.
      rewrite harvest_tags_final in T.
      subst s0. unfold put_ah_h in *. proj_simp. lia. }
    assert (Hval : runs_valid (register s3 qs)).
    { intros r i Hl. rewrite R5 in Hl. rewrite R1. destruct Or as [Or1 Or2]. rewrite Or1 in Hl. rewrite Or2.
      rewrite F5 in Hl. rewrite F1. subst s0. unfold put_ah_h in *. proj_simp. rewrite length_set_nth. exact (V r i Hl). }
    destruct (Nat.eqb (length qs) 0).
    + pose proof (usage_request_ok (register s3 qs) e) as (U1 & U2 & U3).
      destruct (usage_request (register s3 qs) e) as [s5 u]. cbn [fst snd] in *.
      pose proof (register_ok s5 u) as (Q1 & Q2 & Q3 & Q4 & Q5 & Q6).
      split.
      * eapply conserve_trans; [exact Hcons|]. eapply conserve_trans; [apply same_acct_conserve; exact U1|].
        intros t. unfold total. unfold held, dropped. rewrite Q1, Q2, Q3, Q4. specialize (Q6 t). rewrite U3, cnt_nil in Q6.
        unfold held, dropped. lia.
      * intros r i Hl. rewrite Q5 in Hl. rewrite Q1. destruct U2 as [U2a U2b]. rewrite U2a in Hl. rewrite U2b. exact (Hval r i Hl).
    + cbn [fst]. split.
      * eapply conserve_trans; [exact Hcons|]. apply same_acct_conserve. repeat split.
      * intros r i Hl. proj_simp. exact (Hval r i Hl).
  - (* by type *)
    pose proof (default_stage_ok s0 e (ah_app ah) h (has_bits ty HarvestBits_gen.HarvestDefaultData)) as D.
    destruct (default_stage s0 e (ah_app ah) h (has_bits ty HarvestBits_gen.HarvestDefaultData)) as [[s1 h1] qs1].
    destruct D as (D1 & D2 & D3 & D4 & D5 & d & Dd & Dt).
    pose proof (event_steps_ok ty caps e event_order (s1, h1, qs1)) as E.
    destruct (fold_left (event_step ty caps e) event_order (s1, h1, qs1)) as [[s2 h2] qs2].
    destruct E as [O T]. destruct O as (Oa & Or & _).
    pose proof (register_ok (put_ah_h s2 ahid h2) qs2) as (R1 & R2 & R3 & R4 & R5 & R6).
    assert (Hi2 : ahid < length (p_ahs s2)).
    { destruct Or as [_ Or2]. rewrite Or2, D1. subst s0. proj_simp. exact Hi. }
    assert (Hcons : conserve s (register (put_ah_h s2 ahid h2) qs2)).
    { intros t. unfold total. specialize (Dt t). specialize (T t). specialize (R6 t).
      pose proof (held_put_ah_h t s2 ahid h2 Hi2) as P.
      destruct Oa as (A1 & A2 & A3 & A4 & A5). destruct Or as [Or1 Or2].
      assert (Hg : ah_h (get_ah s2 ahid) = h).
      { unfold get_ah. rewrite Or2, D1. subst s0 h ah. unfold get_ah. proj_simp. reflexivity. }
      rewrite Hg in P.
      unfold dropped. rewrite R2, R3, R4. rewrite R6.
      assert (Hh : cnt t (held (register (put_ah_h s2 ahid h2) qs2)) = cnt t (held (put_ah_h s2 ahid h2))).
      { unfold held. rewrite R1. reflexivity. }
      rewrite Hh.
      assert (Hi3 : cnt t (inflight (put_ah_h s2 ahid h2)) = cnt t (inflight s)).
      { unfold inflight, put_ah_h. proj_simp. rewrite A2, D2. subst s0. proj_simp. reflexivity. }
      rewrite Hi3.
      assert (Hh2 : cnt t (held s2) = cnt t (held s)).
      { unfold held. rewrite Or2, D1. subst s0. proj_simp. reflexivity. }
      unfold put_ah_h. proj_simp. rewrite A3, A4, A5, D3, D4. unfold dropped in Dd. rewrite Dd, cnt_app.
      subst s0. proj_simp. unfold put_ah_h in P. lia. }
    assert (Hval : runs_valid (register (put_ah_h s2 ahid h2) qs2)).
    { intros r i Hl. rewrite R5 in Hl. rewrite R1. unfold put_ah_h in *. proj_simp. rewrite length_set_nth.
      destruct Or as [Or1 Or2]. rewrite Or1 in Hl. rewrite Or2. rewrite D5 in Hl. rewrite D1.
      subst s0. proj_simp. exact (V r i Hl). }
    destruct (Nat.eqb (length qs2) 0).
    + destruct (has_bits ty HarvestBits_gen.HarvestDefaultData && negb (harvest_empty h)).
      * pose proof (usage_request_ok (register (put_ah_h s2 ahid h2) qs2) e) as (U1 & U2 & U3).
        destruct (usage_request (register (put_ah_h s2 ahid h2) qs2) e) as [s5 u]. cbn [fst snd] in *.
        pose proof (register_ok s5 u) as (Q1 & Q2 & Q3 & Q4 & Q5 & Q6).
        split.
        -- eapply conserve_trans; [exact Hcons|]. eapply conserve_trans; [apply same_acct_conserve; exact U1|].
           intros t. unfold total. unfold held, dropped. rewrite Q1, Q2, Q3, Q4. specialize (Q6 t). rewrite U3, cnt_nil in Q6.
           unfold held, dropped. lia.
        -- intros r i Hl. rewrite Q5 in Hl. rewrite Q1. destruct U2 as [U2a U2b]. rewrite U2a in Hl. rewrite U2b. exact (Hval r i Hl).
      * cbn [fst]. split; assumption.
    + cbn [fst]. split.
      * eapply conserve_trans; [exact Hcons|]. apply same_acct_conserve. repeat split.
      * intros r i Hl. proj_simp. exact (Hval r i Hl).
Qed.

(* ------------------------------------------------------------------ the operations that move no data *)
Lemma app_info_same s key dt id :
  same_acct s (fst (app_info s key dt id)) /\ same_runs s (fst (app_info s key dt id)).
Proof.
  unfold app_info.
  destruct (match id with Some r => match lookupN r (p_runs s) with Some _ => true | None => false end | None => false end);
    [cbn [fst]; split; repeat split|].
  destruct (lookupN key (p_apps s)) as [i|].
  - match goal with |- context [consider_connect ?S ?I] =>
      pose proof (consider_connect_same S I) as [A B]; destruct (consider_connect S I) as [s2 o] end.
    cbn [fst] in *. split.
    + eapply same_acct_trans; [|exact A]. repeat split.
    + destruct B as [B1 B2]. split; [rewrite B1|rewrite B2]; reflexivity.
  - destruct (Nat.leb app_limit (length (p_apps s))); [cbn [fst]; split; repeat split|].
    match goal with |- context [consider_connect ?S ?I] =>
      pose proof (consider_connect_same S I) as [A B]; destruct (consider_connect S I) as [s2 o] end.
    cbn [fst] in *. split.
    + eapply same_acct_trans; [|exact A]. repeat split.
    + destruct B as [B1 B2]. split; [rewrite B1|rewrite B2]; reflexivity.
Qed.

Lemma connect_failed_same s key f : same_acct s (connect_failed s key f) /\ same_runs s (connect_failed s key f).
Proof.
  unfold connect_failed. destruct (lookupN key (p_apps s)) as [i|]; [|split; repeat split].
  destruct (negb (astate_eqb (a_state (get_obj s i)) SUnknown)); [split; repeat split|].
  destruct f as [[]|]; split; repeat split.
Qed.

Lemma lookupN_setN {A} k k' (v v' : A) l :
  lookupN k (setN k' v' l) = Some v -> (k = k' /\ v = v') \/ lookupN k l = Some v.
Proof.
  unfold setN. cbn [lookupN]. destruct (N.eqb_spec k' k) as [E|E].
  - intros H. inversion H. left. auto.
  - intros H. right. eapply lookupN_removeN. exact H.
Qed.

Lemma connect_ok_conserve s key host r :
  runs_valid s -> conserve s (connect_ok s key host r) /\ runs_valid (connect_ok s key host r).
Proof.
  intros V. unfold connect_ok. destruct (lookupN key (p_apps s)) as [i|]; [|split; [apply conserve_refl|exact V]].
  destruct (negb (astate_eqb (a_state (get_obj s i)) SUnknown)); [split; [apply conserve_refl|exact V]|].
  split.
  - intros t. unfold total, held, inflight, dropped. proj_simp.
    rewrite map_app, concat_app, cnt_app. cbn [map concat ah_h]. rewrite harvest_tags_new. cbn. lia.
  - intros r' j Hl. proj_simp. rewrite app_length. cbn [length].
    apply lookupN_setN in Hl. destruct Hl as [[_ ->]|Hl]; [lia|]. specialize (V r' j Hl). lia.
Qed.

Lemma pre_reply_same s n o :
  same_acct s (fst (pre_reply s n o)) /\ same_runs s (fst (pre_reply s n o)).
Proof.
  unfold pre_reply. destruct (nth_error (p_conns s) n) as [c|]; [|cbn [fst]; split; repeat split].
  destruct (ca_stage c); [|cbn [fst]; split; repeat split].
  destruct o as [host|f|]; cbn [fst].
  - split; repeat split.
  - pose proof (connect_failed_same (with_conns s (remove_nth n (p_conns s))) (ca_key c) (Some f)) as [A B].
    split; [eapply same_acct_trans; [|exact A]; repeat split|].
    destruct B as [B1 B2]. split; [rewrite B1|rewrite B2]; reflexivity.
  - pose proof (connect_failed_same (with_conns s (remove_nth n (p_conns s))) (ca_key c) None) as [A B].
    split; [eapply same_acct_trans; [|exact A]; repeat split|].
    destruct B as [B1 B2]. split; [rewrite B1|rewrite B2]; reflexivity.
Qed.

Lemma conn_reply_conserve s n o :
  runs_valid s -> conserve s (fst (conn_reply s n o)) /\ runs_valid (fst (conn_reply s n o)).
Proof.
  intros V. unfold conn_reply. destruct (nth_error (p_conns s) n) as [c|]; [|cbn [fst]; split; [apply conserve_refl|exact V]].
  destruct (ca_stage c) as [|host]; [cbn [fst]; split; [apply conserve_refl|exact V]|].
  set (s1 := with_conns s (remove_nth n (p_conns s))).
  assert (V1 : runs_valid s1) by exact V.
  assert (C1 : conserve s s1) by (apply same_acct_conserve; repeat split).
  destruct o as [r|f| |]; cbn [fst].
  - destruct (connect_ok_conserve s1 (ca_key c) host r V1) as [A B]. split; [eapply conserve_trans; [exact C1|exact A]|exact B].
  - destruct (connect_failed_same s1 (ca_key c) (Some f)) as [A B].
    split; [eapply conserve_trans; [exact C1|apply same_acct_conserve; exact A]|eapply runs_valid_same; eassumption].
  - destruct (connect_failed_same s1 (ca_key c) None) as [A B].
    split; [eapply conserve_trans; [exact C1|apply same_acct_conserve; exact A]|eapply runs_valid_same; eassumption].
  - destruct (connect_failed_same s1 (ca_key c) None) as [A B].
    split; [eapply conserve_trans; [exact C1|apply same_acct_conserve; exact A]|eapply runs_valid_same; eassumption].
Qed.

Lemma tick_conserve s ahid ty :
  runs_valid s -> conserve s (fst (tick s ahid ty)) /\ runs_valid (fst (tick s ahid ty)).
Proof.
  intros V. unfold tick. destruct (Nat.leb (length (p_ahs s)) ahid) eqn:E; [cbn [fst]; split; [apply conserve_refl|exact V]|].
  apply Nat.leb_gt in E.
  destruct (inactive (get_obj s (ah_app (get_ah s ahid))) (p_now s)).
  - cbn [fst]. split; [apply same_acct_conserve; repeat split|].
    intros r i Hl. proj_simp. apply lookupN_removeN in Hl. exact (V r i Hl).
  - apply harvest_by_type_conserve; assumption.
Qed.

(* ------------------------------------------------------------------ replies *)
Lemma remove_nth_tags t (l : list request) : forall n q,
  nth_error l n = Some q ->
  cnt t (req_tags (remove_nth n l)) + cnt t (tags (rq_items q)) = cnt t (req_tags l).
Proof.
  induction l as [|x r IH]; intros [|n] q H; cbn in H; try discriminate.
  - inversion H; subst. cbn [remove_nth]. unfold req_tags. cbn [map concat]. rewrite cnt_app. lia.
  - cbn [remove_nth]. specialize (IH n q H). unfold req_tags in *. cbn [map concat]. rewrite !cnt_app. lia.
Qed.

Lemma merge_failed_body_ok t h c q :
  let '(h1, refused, given_up) :=
    (if cat_eqb c CMetrics then
      let fails := (rq_failed q + 1)%N in
      if (metric_limit <? fails)%N then (h, [], rq_items q)
      else
        let h1 := set_failed h CMetrics (N.max (h_failed h CMetrics) fails) in
        (set_flags (set_bag h1 CMetrics (h_bag h1 CMetrics ++ rq_items q)) true (h_pids h1) (h_haspkgs h1), [], [])
    else if is_event c then
      let fails := (rq_failed q + 1)%N in
      if (event_limit <? fails)%N then (h, [], rq_items q)
      else
        let h1 := set_failed h c fails in
        let all_seen := (h_seen h1 c + rq_seen q)%N in
        let '(h2, d) := add_items h1 (map (fun x => (c, x)) (rq_items q)) in
        (set_seen h2 c all_seen, d, [])
    else (h, [], rq_items q)) in
  cnt t (harvest_tags h1) + cnt t (tags refused) + cnt t (tags given_up) =
  cnt t (harvest_tags h) + cnt t (tags (rq_items q)).
Proof.
  destruct (cat_eqb c CMetrics).
  - cbn zeta. destruct (metric_limit <? rq_failed q + 1)%N.
    + cbn [tags map]. rewrite cnt_nil. lia.
    + rewrite harvest_tags_set_flags.
      set (h1 := set_failed h CMetrics (N.max (h_failed h CMetrics) (rq_failed q + 1))).
      pose proof (harvest_tags_set_bag t h1 CMetrics (h_bag h1 CMetrics ++ rq_items q)) as Q.
      rewrite tags_app, cnt_app in Q. subst h1. rewrite harvest_tags_set_failed in Q.
      cbn [tags map]. rewrite !cnt_nil. lia.
  - destruct (is_event c).
    + cbn zeta. destruct (event_limit <? rq_failed q + 1)%N.
      * cbn [tags map]. rewrite cnt_nil. lia.
      * pose proof (add_items_ok t (map (fun x => (c, x)) (rq_items q)) (set_failed h c (rq_failed q + 1))) as A.
        destruct (add_items (set_failed h c (rq_failed q + 1)) (map (fun x => (c, x)) (rq_items q))) as [h2 d].
        cbn [fst snd] in A. rewrite harvest_tags_set_seen. rewrite harvest_tags_set_failed in A.
        rewrite map_map in A. cbn [snd] in A.
        change (map (fun x : item => i_tag x) (rq_items q)) with (tags (rq_items q)) in A.
        cbn [tags map]. rewrite !cnt_nil. unfold tags in *. lia.
    + cbn [tags map]. rewrite cnt_nil. lia.
Qed.

Lemma merge_failed_ok t h c q :
  let '(h1, refused, given_up) := merge_failed h c q in
  cnt t (harvest_tags h1) + cnt t (tags refused) + cnt t (tags given_up) =
  cnt t (harvest_tags h) + cnt t (tags (rq_items q)).
Proof.
  unfold merge_failed. destruct (rq_kind q); try apply merge_failed_body_ok.
  rewrite harvest_tags_set_flags, harvest_tags_set_failed. cbn [tags map]. rewrite cnt_nil. lia.
Qed.

(* what a step did, when the only change to offered is none: s' accounts for s plus the tags l *)
Definition absorbs (s s' : proc) (l : list N) : Prop :=
  g_offered s' = g_offered s /\ forall t, total s' t = total s t + cnt t l.

Lemma absorbs_same s s' s'' l : absorbs s s' l -> same_acct s' s'' -> absorbs s s'' l.
Proof.
  intros [A1 A2] S. split; [destruct S as (_ & _ & S3 & _); congruence|].
  intros t. rewrite (total_same _ _ t S). apply A2.
Qed.

Lemma harvest_error_ok s q f :
  runs_valid s ->
  absorbs s (fst (harvest_error s q f)) (tags (rq_items q)) /\ runs_valid (fst (harvest_error s q f)).
Proof.
  intros V. unfold harvest_error. destruct (lookupN (rq_run q) (p_runs s)) as [ahid|] eqn:L.
  2:{ cbn [fst]. split; [|exact V]. split; [reflexivity|]. intros t. unfold total. rewrite dropped_ghost_drop, cnt_app.
      unfold held, inflight. proj_simp. lia. }
  pose proof (V _ _ L) as Hi.
  set (ah := get_ah s ahid). set (c := cat_of q).
  (* the data part *)
  assert (D : exists s1,
             s1 = (if should_save f then
                     let '(h1, refused, given_up) := merge_failed (ah_h ah) c q in
                     ghost_drop (ghost_drop (put_ah_h s ahid h1) RCapacity (tags refused))
                                (if retryable c then RGivenUp else RNotRetryable) (tags given_up)
                   else ghost_drop s RNotRetryable (tags (rq_items q))) /\
             absorbs s s1 (tags (rq_items q)) /\ runs_valid s1 /\ p_objs s1 = p_objs s /\ p_now s1 = p_now s).
  { eexists. split; [reflexivity|]. destruct (should_save f).
    - pose proof (fun t => merge_failed_ok t (ah_h ah) c q) as M.
      destruct (merge_failed (ah_h ah) c q) as [[h1 refused] given_up].
      repeat split.
      + intros t. unfold total. rewrite !dropped_ghost_drop, !cnt_app.
        pose proof (held_put_ah_h t s ahid h1 Hi) as P. specialize (M t).
        unfold held, inflight, dropped in *. proj_simp. unfold put_ah_h in *. proj_simp.
        subst ah. unfold get_ah in *. lia.
      + intros r i Hl. proj_simp. unfold put_ah_h in *. proj_simp. rewrite length_set_nth. exact (V r i Hl).
    - repeat split; [|exact V]. intros t. unfold total. rewrite dropped_ghost_drop, cnt_app.
      unfold held, inflight. proj_simp. lia. }
  destruct D as (s1 & Es1 & A & V1 & O1 & N1). rewrite <- Es1. clear Es1.
  set (i := ah_app ah). set (a := get_obj s1 i).
  assert (SH : forall st, same_acct s1 (shutdown_run (put_obj s1 i (set_state a st)) (rq_run q)) /\
                          runs_valid (shutdown_run (put_obj s1 i (set_state a st)) (rq_run q))).
  { intros st. split; [repeat split|]. apply runs_valid_shutdown. exact V1. }
  assert (CC : forall st, same_acct s1 (fst (consider_connect (shutdown_run (put_obj s1 i (set_state a st)) (rq_run q)) i)) /\
                          runs_valid (fst (consider_connect (shutdown_run (put_obj s1 i (set_state a st)) (rq_run q)) i))).
  { intros st. destruct (SH st) as [S1 S2].
    destruct (consider_connect_same (shutdown_run (put_obj s1 i (set_state a st)) (rq_run q)) i) as [C1 C2].
    split; [eapply same_acct_trans; [exact S1|exact C1]|eapply runs_valid_same; [exact C2|exact S2]]. }
  destruct f; cbn [fst];
    try (destruct (astate_eqb (a_state a) SDisconnected); cbn [fst]);
    try (destruct (astate_eqb (a_state a) SRestart); cbn [fst]);
    try (split; [eapply absorbs_same; [exact A|apply (SH _)]|apply (SH _)]);
    try (split; [eapply absorbs_same; [exact A|apply (CC _)]|apply (CC _)]);
    try (split; [exact A|exact V1]).
Qed.

Lemma absorbs_nil_refl s : absorbs s s [].
Proof. split; [reflexivity|]. intros t. cbn. lia. Qed.

Lemma absorbs_trans a b c l1 l2 : absorbs a b l1 -> absorbs b c l2 -> absorbs a c (l1 ++ l2).
Proof.
  intros [A1 A2] [B1 B2]. split; [congruence|]. intros t. rewrite B2, A2, cnt_app. lia.
Qed.

Lemma absorbs_of_same s s' : same_acct s s' -> absorbs s s' [].
Proof. intros S. eapply absorbs_same; [apply absorbs_nil_refl|exact S]. Qed.

Lemma absorbs_conserve s s' l a :
  absorbs s s' l -> (forall t, cnt t l = cnt t a) -> forall t, total s' t = total s t + cnt t a.
Proof. intros [_ A] H t. rewrite A, H. reflexivity. Qed.

(* emitting the data usage request (which carries no items) *)
Lemma usage_register_ok s e :
  let '(s2, u) := usage_request s e in
  absorbs s (register s2 u) [] /\ (runs_valid s -> runs_valid (register s2 u)).
Proof.
  pose proof (usage_request_ok s e) as (U1 & U2 & U3).
  destruct (usage_request s e) as [s2 u]. cbn [fst snd] in *.
  pose proof (register_ok s2 u) as (Q1 & Q2 & Q3 & Q4 & Q5 & Q6).
  split.
  - split; [destruct U1 as (_ & _ & U13 & _); congruence|].
    intros t. rewrite <- (total_same s s2 t U1). unfold total, held, dropped. rewrite Q1, Q3, Q4.
    specialize (Q6 t). rewrite U3, cnt_nil in Q6. rewrite ?cnt_nil. lia.
  - intros V r i Hl. rewrite Q5 in Hl. rewrite Q1. destruct U2 as [U2a U2b]. rewrite U2a in Hl. rewrite U2b. exact (V r i Hl).
Qed.

Lemma group_done_ok s gid :
  absorbs s (fst (group_done s gid)) [] /\ (runs_valid s -> runs_valid (fst (group_done s gid))).
Proof.
  unfold group_done. destruct (find (fun g => Nat.eqb (g_id g) gid) (p_groups s)) as [g|];
    [|cbn [fst]; split; [apply absorbs_nil_refl|auto]].
  destruct (Nat.eqb (g_pending g) 1); [|cbn [fst]; split; [apply absorbs_of_same; repeat split|auto]].
  destruct (g_usage g); [|cbn [fst]; split; [apply absorbs_of_same; repeat split|auto]].
  set (s1 := with_groups s (filter (fun g' => negb (Nat.eqb (g_id g') gid)) (p_groups s))).
  pose proof (usage_register_ok s1 (g_ctx g)) as P.
  destruct (usage_request s1 (g_ctx g)) as [s2 u]. cbn [fst]. destruct P as [P1 P2].
  split; [|exact P2].
  change (@nil N) with (@nil N ++ @nil N). eapply absorbs_trans; [|exact P1]. apply absorbs_of_same. repeat split.
Qed.

Lemma reply_conserve s n o :
  runs_valid s -> conserve s (fst (reply s n o)) /\ runs_valid (fst (reply s n o)).
Proof.
  intros V. unfold reply. destruct (nth_error (p_reqs s) n) as [q|] eqn:E; [|cbn [fst]; split; [apply conserve_refl|exact V]].
  set (s0 := add_usage (with_reqs s (remove_nth n (p_reqs s)))).
  assert (V0 : runs_valid s0) by exact V.
  assert (T0 : g_offered s0 = g_offered s /\ forall t, total s0 t + cnt t (tags (rq_items q)) = total s t).
  { split; [reflexivity|]. intros t. unfold total, held, inflight, dropped. subst s0. proj_simp.
    pose proof (remove_nth_tags t (p_reqs s) n q E) as R. unfold req_tags in R. lia. }
  assert (S1 : exists s1 o1, (match o with
                             | OOk => (ghost_ack s0 (tags (rq_items q)), [])
                             | OFail f => harvest_error s0 q f end) = (s1, o1) /\
                            absorbs s0 s1 (tags (rq_items q)) /\ runs_valid s1).
  { destruct o as [|f].
    - eexists _, _. split; [reflexivity|]. split; [|exact V0]. split; [reflexivity|].
      intros t. unfold total, held, inflight, dropped. proj_simp. rewrite cnt_app. lia.
    - destruct (harvest_error_ok s0 q f V0) as [A B]. destruct (harvest_error s0 q f) as [s1 o1] eqn:H.
      eexists _, _. split; [reflexivity|]. split; assumption. }
  destruct S1 as (s1 & o1 & -> & [A1 A2] & V1).
  assert (C1 : conserve s s1).
  { intros t. destruct T0 as [T01 T02]. specialize (T02 t). specialize (A2 t). rewrite A1, T01. lia. }
  destruct (rq_kind q); cbn [fst]; try (split; assumption).
  destruct (group_done_ok s1 (rq_group q)) as [[G1 G2] G3]. destruct (group_done s1 (rq_group q)) as [s2 o2].
  cbn [fst] in *. split; [|exact (G3 V1)].
  eapply conserve_trans; [exact C1|]. intros t. rewrite G1, G2. cbn. lia.
Qed.

(* ------------------------------------------------------------------ final flush *)
Lemma flush_payloads_ok outs qs : forall s,
  let s' := fold_left (fun sa q => match outs (rq_run q) (cat_of q) with
                                   | OOk => ghost_ack sa (tags (rq_items q))
                                   | OFail _ => ghost_drop sa RFinalFailed (tags (rq_items q))
                                   end) qs s in
  p_ahs s' = p_ahs s /\ p_reqs s' = p_reqs s /\ g_offered s' = g_offered s /\ p_runs s' = p_runs s /\
  forall t, cnt t (g_acked s') + cnt t (dropped s') = cnt t (g_acked s) + cnt t (dropped s) + cnt t (req_tags qs).
Proof.
  induction qs as [|q r IH]; intros s; cbn [fold_left].
  - repeat split. intros t. unfold req_tags. cbn. lia.
  - match goal with |- context [fold_left ?f r ?S0] => specialize (IH S0) end.
    cbn zeta in IH. destruct IH as (I1 & I2 & I3 & I4 & I5).
    destruct (outs (rq_run q) (cat_of q)).
    + repeat split; try (rewrite ?I1, ?I2, ?I3, ?I4; reflexivity).
      intros t. rewrite I5. unfold dropped. proj_simp. unfold req_tags. cbn [map concat]. rewrite !cnt_app. lia.
    + repeat split; try (rewrite ?I1, ?I2, ?I3, ?I4; reflexivity).
      intros t. rewrite I5. rewrite dropped_ghost_drop. proj_simp. unfold req_tags. cbn [map concat]. rewrite !cnt_app. lia.
Qed.

Lemma flush_run_conserve outs acc ra :
  runs_valid (fst acc) ->
  conserve (fst acc) (fst (flush_run outs acc ra)) /\ runs_valid (fst (flush_run outs acc ra)).
Proof.
  destruct acc as [s o]. cbn [fst]. intros V. unfold flush_run.
  set (ahid := snd ra) in *.
  destruct (Nat.leb (length (p_ahs s)) ahid) eqn:E; [cbn [fst]; split; [apply conserve_refl|exact V]|].
  apply Nat.leb_gt in E. rename E into Hi.
  set (ah := get_ah s ahid). set (a := get_obj s (ah_app ah)).
  destruct (flush_inactive a (p_now s)).
  - cbn [fst]. split; [apply same_acct_conserve; repeat split|].
    intros r i Hl. proj_simp. apply lookupN_removeN in Hl. exact (V r i Hl).
  - pose proof (filter_harvest_pkgs_ok (put_ah_h s ahid (new_harvest (cur_caps a))) (ah_app ah) (ah_h ah)) as F.
    destruct (filter_harvest_pkgs (put_ah_h s ahid (new_harvest (cur_caps a))) (ah_app ah) (ah_h ah)) as [s2 h1].
    cbn [fst snd] in F. destruct F as (F1 & F2 & F3 & F4 & F5 & F6 & d & Fd & Ft).
    pose proof (emit_cats_ok (ctx_of s ah 0) (final_metrics h1) all_order s2) as [O T].
    destruct (emit_cats s2 (ctx_of s ah 0) (final_metrics h1) all_order) as [s3 qs]. cbn [fst snd] in O, T.
    destruct O as ((A1 & A2 & A3 & A4 & A5) & (Or1 & Or2) & _).
    pose proof (flush_payloads_ok outs qs (ghost_sent s3 (concat (map (fun q => tags (rq_items q)) qs)))) as P.
    cbn zeta in P. destruct P as (P1 & P2 & P3 & P4 & P5). cbn [fst].
    split.
    + intros t. unfold total. specialize (P5 t). specialize (T t). specialize (Ft t).
      pose proof (held_put_ah_h t s ahid (new_harvest (cur_caps a)) Hi) as Hh. rewrite harvest_tags_new, cnt_nil in Hh.
      change (concat (map (fun c => tags (h_bag (final_metrics h1) c)) all_order)) with (harvest_tags (final_metrics h1)) in T.
      rewrite harvest_tags_final in T.
      unfold held, inflight. rewrite P1, P2, P3. proj_simp. rewrite A1, A2, A3, F1, F2, F3.
      unfold dropped in *. proj_simp. rewrite A4, A5, F4 in P5. rewrite Fd, cnt_app in P5.
      unfold put_ah_h in *. proj_simp. subst ah. unfold get_ah, held in *. proj_simp. lia.
    + intros r i Hl. rewrite P4 in Hl. rewrite P1. proj_simp. rewrite Or1 in Hl. rewrite Or2. rewrite F5 in Hl. rewrite F1.
      unfold put_ah_h in *. proj_simp. rewrite length_set_nth. exact (V r i Hl).
Qed.

Lemma flush_runs_conserve outs l : forall acc,
  runs_valid (fst acc) ->
  conserve (fst acc) (fst (fold_left (flush_run outs) l acc)) /\ runs_valid (fst (fold_left (flush_run outs) l acc)).
Proof.
  induction l as [|ra r IH]; intros acc V; cbn [fold_left]; [split; [apply conserve_refl|exact V]|].
  destruct (flush_run_conserve outs acc ra V) as (C1 & V1).
  destruct (IH (flush_run outs acc ra) V1) as [C2 V2].
  split; [eapply conserve_trans; eassumption|exact V2].
Qed.

Lemma clean_exit_conserve s outs :
  runs_valid s -> conserve s (fst (clean_exit s outs)) /\ runs_valid (fst (clean_exit s outs)).
Proof.
  intros V. unfold clean_exit. destruct (flush_runs_conserve outs (p_runs s) (s, []) V) as [C W].
  destruct (fold_left (flush_run outs) (p_runs s) (s, [])) as [s1 o]. cbn [fst] in *.
  split; [eapply conserve_trans; [exact C|apply same_acct_conserve; repeat split]|exact W].
Qed.

(* ------------------------------------------------------------------ every step *)
Theorem step_conserve s o :
  runs_valid s -> conserve s (fst (step s o)) /\ runs_valid (fst (step s o)).
Proof.
  intros V. unfold step. destruct (p_quit s); [cbn [fst]; split; [apply conserve_refl|exact V]|].
  destruct o as [key dt id|run t|n po|n co|ah ty|n oc|c oc|dt|outs].
  - destruct (app_info_same s key dt id) as [A B]. split; [apply same_acct_conserve; exact A|eapply runs_valid_same; eassumption].
  - apply txn_data_conserve; exact V.
  - destruct (pre_reply_same s n po) as [A B]. split; [apply same_acct_conserve; exact A|eapply runs_valid_same; eassumption].
  - apply conn_reply_conserve; exact V.
  - apply tick_conserve; exact V.
  - apply reply_conserve; exact V.
  - destruct (find_index (req_is c) (p_reqs s) 0); [apply reply_conserve; exact V|cbn [fst]; split; [apply conserve_refl|exact V]].
  - cbn [fst]. split; [apply same_acct_conserve; repeat split|exact V].
  - apply clean_exit_conserve; exact V.
Qed.

Lemma run_from_inv ops : forall s,
  runs_valid s -> bal s -> runs_valid (fst (run_from s ops)) /\ bal (fst (run_from s ops)).
Proof.
  induction ops as [|o r IH]; intros s V B; cbn [run_from]; [split; assumption|].
  destruct (step_conserve s o V) as [C V1]. destruct (step s o) as [s1 out1]. cbn [fst] in *.
  specialize (IH s1 V1 (conserve_bal _ _ C B)). destruct (run_from s1 r) as [s2 outs]. exact IH.
Qed.

Lemma init_inv : runs_valid init /\ bal init.
Proof. split; [intros r i H; discriminate|intros t; reflexivity]. Qed.

(* C01 conservation: in every reachable state every accepted tag is accounted for exactly as often as it was offered *)
Theorem conservation ops : bal (fst (run ops)).
Proof. unfold run. destruct init_inv as [V B]. exact (proj2 (run_from_inv ops init V B)). Qed.

(* ------------------------------------------------------------------ what is offered *)
Definition op_tags (o : op) : list N := match o with OTxn _ t => txn_tags t | _ => [] end.

Lemma same_acct_offered s s' : same_acct s s' -> g_offered s' = g_offered s.
Proof. intros (_ & _ & H & _). exact H. Qed.

Lemma harvest_by_type_offered s ahid ty : g_offered (fst (harvest_by_type s ahid ty)) = g_offered s.
Proof.
  unfold harvest_by_type.
  set (ah := get_ah s ahid). set (a := get_obj s (ah_app ah)). set (h := ah_h ah).
  set (grp := p_next s). set (s0 := with_next s (S grp)). set (e := ctx_of s0 ah grp). set (caps := cur_caps a).
  destruct (has_bits ty HarvestBits_gen.HarvestAll).
  - pose proof (filter_harvest_pkgs_ok (put_ah_h s0 ahid (new_harvest caps)) (ah_app ah) h) as F.
    destruct (filter_harvest_pkgs (put_ah_h s0 ahid (new_harvest caps)) (ah_app ah) h) as [s2 h1].
    cbn [fst snd] in F. destruct F as (_ & _ & F3 & _).
    pose proof (emit_cats_ok e (final_metrics h1) all_order s2) as [O _].
    destruct (emit_cats s2 e (final_metrics h1) all_order) as [s3 qs]. cbn [fst snd] in O.
    destruct O as (Oa & _). apply same_acct_offered in Oa.
    pose proof (register_ok s3 qs) as (_ & R2 & _).
    assert (E0 : g_offered (put_ah_h s0 ahid (new_harvest caps)) = g_offered s) by reflexivity.
    destruct (Nat.eqb (length qs) 0).
    + pose proof (usage_request_ok (register s3 qs) e) as (U1 & _). apply same_acct_offered in U1.
      destruct (usage_request (register s3 qs) e) as [s5 u]. cbn [fst snd] in *.
      pose proof (register_ok s5 u) as (_ & Q2 & _). congruence.
    + cbn [fst]. proj_simp. congruence.
  - pose proof (default_stage_ok s0 e (ah_app ah) h (has_bits ty HarvestBits_gen.HarvestDefaultData)) as D.
    destruct (default_stage s0 e (ah_app ah) h (has_bits ty HarvestBits_gen.HarvestDefaultData)) as [[s1 h1] qs1].
    destruct D as (_ & _ & D3 & _).
    pose proof (event_steps_ok ty caps e event_order (s1, h1, qs1)) as E.
    destruct (fold_left (event_step ty caps e) event_order (s1, h1, qs1)) as [[s2 h2] qs2].
    destruct E as [(Oa & _) _]. apply same_acct_offered in Oa.
    pose proof (register_ok (put_ah_h s2 ahid h2) qs2) as (_ & R2 & _).
    assert (E0 : g_offered s0 = g_offered s) by reflexivity.
    assert (R2' : g_offered (register (put_ah_h s2 ahid h2) qs2) = g_offered s).
    { rewrite R2. change (g_offered (put_ah_h s2 ahid h2)) with (g_offered s2). congruence. }
    destruct (Nat.eqb (length qs2) 0).
    + destruct (has_bits ty HarvestBits_gen.HarvestDefaultData && negb (harvest_empty h)); [|exact R2'].
      pose proof (usage_request_ok (register (put_ah_h s2 ahid h2) qs2) e) as (U1 & _). apply same_acct_offered in U1.
      destruct (usage_request (register (put_ah_h s2 ahid h2) qs2) e) as [s5 u]. cbn [fst snd] in *.
      pose proof (register_ok s5 u) as (_ & Q2 & _). congruence.
    + cbn [fst]. proj_simp. exact R2'.
Qed.

Lemma connect_ok_offered s key host r : g_offered (connect_ok s key host r) = g_offered s.
Proof.
  unfold connect_ok. destruct (lookupN key (p_apps s)); [|reflexivity].
  destruct (negb (astate_eqb (a_state (get_obj s n)) SUnknown)); reflexivity.
Qed.

Lemma flush_run_offered outs acc ra : g_offered (fst (flush_run outs acc ra)) = g_offered (fst acc).
Proof.
  destruct acc as [s o]. cbn [fst]. unfold flush_run.
  destruct (Nat.leb (length (p_ahs s)) (snd ra)); [reflexivity|].
  set (ah := get_ah s (snd ra)). set (a := get_obj s (ah_app ah)).
  destruct (flush_inactive a (p_now s)); [reflexivity|].
  pose proof (filter_harvest_pkgs_ok (put_ah_h s (snd ra) (new_harvest (cur_caps a))) (ah_app ah) (ah_h ah)) as F.
  destruct (filter_harvest_pkgs (put_ah_h s (snd ra) (new_harvest (cur_caps a))) (ah_app ah) (ah_h ah)) as [s2 h1].
  cbn [fst snd] in F. destruct F as (_ & _ & F3 & _).
  pose proof (emit_cats_ok (ctx_of s ah 0) (final_metrics h1) all_order s2) as [O _].
  destruct (emit_cats s2 (ctx_of s ah 0) (final_metrics h1) all_order) as [s3 qs]. cbn [fst snd] in O.
  destruct O as (Oa & _). apply same_acct_offered in Oa.
  pose proof (flush_payloads_ok outs qs (ghost_sent s3 (concat (map (fun q => tags (rq_items q)) qs)))) as P.
  cbn zeta in P. destruct P as (_ & _ & P3 & _). cbn [fst]. rewrite P3. proj_simp. rewrite Oa, F3.
  unfold put_ah_h. proj_simp. reflexivity.
Qed.

Lemma harvest_error_offered s q f : g_offered (fst (harvest_error s q f)) = g_offered s.
Proof.
  unfold harvest_error. destruct (lookupN (rq_run q) (p_runs s)) as [ahid|]; [|reflexivity].
  set (ah := get_ah s ahid). set (c := cat_of q).
  match goal with |- context [if should_save f then ?A else ?B] => set (s1 := if should_save f then A else B) end.
  assert (E1 : g_offered s1 = g_offered s).
  { subst s1. destruct (should_save f); [|reflexivity].
    destruct (merge_failed (ah_h ah) c q) as [[h1 refused] given_up]. unfold put_ah_h. reflexivity. }
  set (i := ah_app ah). set (a := get_obj s1 i).
  assert (CC : forall st, g_offered (fst (consider_connect (shutdown_run (put_obj s1 i (set_state a st)) (rq_run q)) i)) = g_offered s).
  { intros st. destruct (consider_connect_same (shutdown_run (put_obj s1 i (set_state a st)) (rq_run q)) i) as [C _].
    apply same_acct_offered in C. rewrite C. exact E1. }
  destruct f; cbn [fst];
    try (destruct (astate_eqb (a_state a) SDisconnected); cbn [fst]);
    try (destruct (astate_eqb (a_state a) SRestart); cbn [fst]);
    try apply CC; try exact E1.
Qed.

Lemma group_done_offered s gid : g_offered (fst (group_done s gid)) = g_offered s.
Proof. destruct (group_done_ok s gid) as [[G _] _]. exact G. Qed.

Lemma reply_offered s n oc : g_offered (fst (reply s n oc)) = g_offered s.
Proof.
  unfold reply. destruct (nth_error (p_reqs s) n) as [q|]; [|reflexivity].
  set (s0 := add_usage (with_reqs s (remove_nth n (p_reqs s)))).
  assert (E : exists s1 o1, (match oc with OOk => (ghost_ack s0 (tags (rq_items q)), []) | OFail f => harvest_error s0 q f end) = (s1, o1)
                            /\ g_offered s1 = g_offered s).
  { destruct oc as [|f]; [eexists _, _; split; reflexivity|].
    pose proof (harvest_error_offered s0 q f) as H. destruct (harvest_error s0 q f) as [s1 o1].
    eexists _, _. split; [reflexivity|exact H]. }
  destruct E as (s1 & o1 & -> & E1).
  destruct (rq_kind q); cbn [fst]; try exact E1.
  pose proof (group_done_offered s1 (rq_group q)) as G. destruct (group_done s1 (rq_group q)) as [s2 o2].
  cbn [fst] in *. congruence.
Qed.

Lemma step_offered s o :
  g_offered (fst (step s o)) = g_offered s \/ g_offered (fst (step s o)) = g_offered s ++ op_tags o.
Proof.
  unfold step. destruct (p_quit s); [left; reflexivity|].
  destruct o as [key dt id|run t|n po|n co|ah ty|n oc|c oc|dt|outs]; cbn [op_tags].
  - left. apply same_acct_offered. apply app_info_same.
  - unfold txn_data. destruct (lookupN run (p_runs s)); [|left; reflexivity].
    destruct (aggregate (ah_h (get_ah s n)) t) as [[h' d] ov]. right. cbn [fst]. unfold put_ah_h. proj_simp. reflexivity.
  - left. apply same_acct_offered. apply pre_reply_same.
  - left. unfold conn_reply. destruct (nth_error (p_conns s) n) as [c|]; [|reflexivity].
    destruct (ca_stage c); [reflexivity|].
    destruct co; cbn [fst]; rewrite ?connect_ok_offered; try reflexivity;
      match goal with |- context [connect_failed ?S ?K ?F] =>
        destruct (connect_failed_same S K F) as [A _]; apply same_acct_offered in A; rewrite A end; reflexivity.
  - left. unfold tick. destruct (Nat.leb (length (p_ahs s)) ah); [reflexivity|].
    destruct (inactive (get_obj s (ah_app (get_ah s ah))) (p_now s)); [reflexivity|]. apply harvest_by_type_offered.
  - left. apply reply_offered.
  - left. destruct (find_index (req_is c) (p_reqs s) 0); [apply reply_offered|reflexivity].
  - left. reflexivity.
  - left. unfold clean_exit.
    assert (G : forall l acc, g_offered (fst (fold_left (flush_run outs) l acc)) = g_offered (fst acc)).
    { induction l as [|ra r IH]; intros acc; cbn [fold_left]; [reflexivity|]. rewrite IH. apply flush_run_offered. }
    specialize (G (p_runs s) (s, [])). destruct (fold_left (flush_run outs) (p_runs s) (s, [])) as [s1 o].
    cbn [fst] in *. exact G.
Qed.

(* sub-lists in order *)
Inductive sublist {A} : list A -> list A -> Prop :=
| sub_nil : sublist [] []
| sub_skip x l1 l2 : sublist l1 l2 -> sublist l1 (x :: l2)
| sub_keep x l1 l2 : sublist l1 l2 -> sublist (x :: l1) (x :: l2).

Lemma sublist_refl {A} (l : list A) : sublist l l.
Proof. induction l; constructor; assumption. Qed.
Lemma sublist_nil_l {A} (l : list A) : sublist [] l.
Proof. induction l; constructor; assumption. Qed.
Lemma sublist_app {A} (a b c d : list A) : sublist a b -> sublist c d -> sublist (a ++ c) (b ++ d).
Proof.
  intros H. induction H; intros K; cbn [app].
  - exact K.
  - apply sub_skip. apply IHsublist. exact K.
  - apply sub_keep. apply IHsublist. exact K.
Qed.
Lemma sublist_in {A} (a b : list A) x : sublist a b -> In x a -> In x b.
Proof. intros H. induction H; intros K; [destruct K|right; auto|destruct K as [->|K]; [left; reflexivity|right; auto]]. Qed.
Lemma sublist_NoDup {A} (a b : list A) : sublist a b -> NoDup b -> NoDup a.
Proof.
  intros H. induction H; intros K; [constructor|inversion K; auto|].
  inversion K as [|? ? Hn Hd]; subst. constructor; [|auto]. intros Hin. apply Hn. eapply sublist_in; eassumption.
Qed.

Lemma run_from_offered ops : forall s,
  exists l, g_offered (fst (run_from s ops)) = g_offered s ++ l /\ sublist l (concat (map op_tags ops)).
Proof.
  induction ops as [|o r IH]; intros s; cbn [run_from].
  - exists []. split; [rewrite app_nil_r; reflexivity|constructor].
  - pose proof (step_offered s o) as H. destruct (step s o) as [s1 out1]. cbn [fst] in H.
    destruct (IH s1) as (l & E & S). destruct (run_from s1 r) as [s2 outs]. cbn [fst] in *.
    cbn [map concat]. destruct H as [H|H].
    + exists l. split; [congruence|]. change l with ([] ++ l). apply sublist_app; [apply sublist_nil_l|exact S].
    + exists (op_tags o ++ l). split; [rewrite E, H, app_assoc; reflexivity|].
      apply sublist_app; [apply sublist_refl|exact S].
Qed.

(* the tags of a history are pairwise distinct *)
Definition distinct_tags (ops : list op) : Prop := NoDup (concat (map op_tags ops)).

Lemma offered_NoDup ops : distinct_tags ops -> NoDup (g_offered (fst (run ops))).
Proof.
  intros D. unfold run. destruct (run_from_offered ops init) as (l & E & S). rewrite E. cbn [g_offered init app].
  eapply sublist_NoDup; eassumption.
Qed.

Lemma cnt_NoDup t l : NoDup l -> cnt t l <= 1.
Proof. intros H. unfold cnt. rewrite (NoDup_count_occ N.eq_dec) in H. apply H. Qed.

Lemma NoDup_of_cnt l : (forall t, cnt t l <= 1) -> NoDup l.
Proof. intros H. apply (NoDup_count_occ N.eq_dec). exact H. Qed.

(* C01/C02 exactly once: with distinct tags, every accepted tag is in exactly one place, once *)
Theorem exactly_once ops : distinct_tags ops ->
  let s := fst (run ops) in
  NoDup (held s ++ inflight s ++ g_acked s ++ dropped s) /\
  (forall t, In t (g_offered s) <-> In t (held s ++ inflight s ++ g_acked s ++ dropped s)).
Proof.
  intros D s. pose proof (conservation ops) as B. fold s in B. pose proof (offered_NoDup ops D) as N. fold s in N.
  split.
  - apply NoDup_of_cnt. intros t. rewrite !cnt_app. specialize (B t). unfold total in B.
    pose proof (cnt_NoDup t _ N). lia.
  - intros t. specialize (B t). unfold total in B. unfold cnt in B.
    rewrite (count_occ_In N.eq_dec), (count_occ_In N.eq_dec). rewrite !count_occ_app. lia.
Qed.

Corollary acked_once ops : distinct_tags ops -> NoDup (g_acked (fst (run ops))).
Proof.
  intros D. destruct (exactly_once ops D) as [N _]. cbn zeta in N.
  apply NoDup_of_cnt. intros t. pose proof (cnt_NoDup t _ N) as H. rewrite !cnt_app in H. lia.
Qed.
