(* C07 -- metric aggregation is order-independent; rename rules are applied faithfully.  Statements only.
   Domain: metric fields are integers (exact float64 domain); regular expressions through an abstract matcher. *)
From Coq Require Import ZArith NArith List Bool Permutation Sorted.
From Verif.Gen Require Import Limits_gen.
From Verif Require Import Metrics MetricsProofs Rules RulesProofs.
Import ListNotations.
Open Scope Z_scope.

(* metricData.aggregate is commutative and associative *)
Theorem C07_aggregate_acm :
  (forall a b, aggregate a b = aggregate b a) /\
  (forall a b c, aggregate (aggregate a b) c = aggregate a (aggregate b c)).
Proof. exact aggregate_acm. Qed.
Print Assumptions C07_aggregate_acm.

(* Two builds (any groupings into AddRaw calls, transactions, merges, failed-harvest carry-overs and rule
   applications, evaluated under ANY map iteration orders) that deliver the same multiset of contributions
   and in which nothing was refused at the capacity limit (refusal index 0) give the same data for every
   key, namely the field-wise combination: counts/totals/exclusives/sums of squares added, min and max taken. *)
Theorem C07_order_independent : forall b1 b2 t1 t2,
  builds b1 t1 0 -> builds b2 t2 0 ->
  Permutation (contribs FailedMetricAttemptsLimit b1) (contribs FailedMetricAttemptsLimit b2) ->
  forall k, get k t1 = get k t2 /\
            get k t1 = fieldwise (datas_at k (contribs FailedMetricAttemptsLimit b1)).
Proof. exact order_independent. Qed.
Print Assumptions C07_order_independent.

(* What the iteration order of Merge can change: only WHICH unforced entries with new keys are refused.
   Entries that are forced or whose key is present are combined in under every order, keys that are not
   offered are untouched, and count + numDropped is the same under every order. *)
Theorem C07_iteration_order_effect : forall t ord1 ord2,
  NoDup (map fst ord1) -> Permutation ord1 ord2 ->
  tcount (merge_entries t ord1) + tdropped (merge_entries t ord1) =
  tcount (merge_entries t ord2) + tdropped (merge_entries t ord2) /\
  (forall k e, In (k, e) ord1 -> forced e = true \/ get k t <> None ->
     get k (merge_entries t ord1) = get k (merge_entries t ord2)) /\
  (forall k, ~ In k (map fst ord1) -> get k (merge_entries t ord1) = get k (merge_entries t ord2)).
Proof. exact merge_order_effect. Qed.
Print Assumptions C07_iteration_order_effect.

(* aggregateMetrics: every metric of a transaction is recorded unscoped, a scoped one also under the
   transaction name (no refusal: numDropped unchanged) *)
Theorem C07_scoped_also_unscoped : forall t txn ms,
  tdropped (aggregate_metrics t txn ms) = tdropped t ->
  (forall k, get k (aggregate_metrics t txn ms) =
             oplus (get k t) (combined (flat_map (tmetric_contribs txn) ms) k)) /\
  (forall m, In m ms ->
     In (C (tm_name m, []) (tm_forced m) (tm_data m)) (flat_map (tmetric_contribs txn) ms) /\
     (tm_scoped m = true ->
      In (C (tm_name m, txn) (tm_forced m) (tm_data m)) (flat_map (tmetric_contribs txn) ms) /\
      (exists d, get (tm_name m, []) (aggregate_metrics t txn ms) = Some d) /\
      (exists d, get (tm_name m, txn) (aggregate_metrics t txn ms) = Some d))).
Proof. exact scoped_also_unscoped. Qed.
Print Assumptions C07_scoped_also_unscoped.

(* ApplyRules on any reachable table, under any iteration order: nothing is refused (also when forced
   metrics pushed the count past the capacity), the attempt counter and the capacity are kept, every
   output key holds exactly the combination of the entries renamed to it, the call counts add up, and
   (when nothing had been refused before) the output is the field-wise combination of the renamed
   contributions. *)
Theorem C07_rename_conserves : forall b t r rn ord,
  builds b t r -> Permutation ord (entries t) ->
  tdropped (apply_rules_ord rn t ord) = 0 /\
  tfailed (apply_rules_ord rn t ord) = tfailed t /\
  tmax (apply_rules_ord rn t ord) = tmax t /\
  (forall k', get k' (apply_rules_ord rn t ord) =
              msum (map (fun ke => if key_eqb (rn (fst (fst ke)), snd (fst ke)) k' then Some (data (snd ke)) else None)
                        (entries t))) /\
  zsum (map (fun ke => cnt (data (snd ke))) (entries (apply_rules_ord rn t ord))) =
  zsum (map (fun ke => cnt (data (snd ke))) (entries t)) /\
  (r = 0 -> forall k', get k' (apply_rules_ord rn t ord) =
                       fieldwise (datas_at k' (map (rename_contrib rn) (contribs FailedMetricAttemptsLimit b)))).
Proof. exact rename_conserves. Qed.
Print Assumptions C07_rename_conserves.

(* MetricRule.Apply / MetricRules.Apply / the sorting of NewMetricRulesFromJSON against the relational
   specification RuleSem, for every matcher that returns in-range match positions. *)
Theorem C07_rules_order : forall (regex : Type) (find_first : regex -> name -> option (nat * nat))
        (replace_all : regex -> name -> name -> name),
  matcher_wf regex find_first ->
  (forall r s, rule_sem regex find_first replace_all r s
                 (fst (rule_apply regex find_first replace_all r s)) (snd (rule_apply regex find_first replace_all r s))) /\
  (forall r s r1 o1 r2 o2, rule_sem regex find_first replace_all r s r1 o1 ->
                           rule_sem regex find_first replace_all r s r2 o2 -> r1 = r2 /\ o1 = o2) /\
  (forall rs s, chain_sem regex find_first replace_all rs s false
                  (fst (rules_apply regex find_first replace_all rs s)) (snd (rules_apply regex find_first replace_all rs s))) /\
  (forall rs s m r1 o1 r2 o2, chain_sem regex find_first replace_all rs s m r1 o1 ->
                              chain_sem regex find_first replace_all rs s m r2 o2 -> r1 = r2 /\ o1 = o2) /\
  (forall rs, Permutation (sort_rules regex rs) rs /\ StronglySorted (order_le regex) (sort_rules regex rs)) /\
  (forall rs s, rules_sem regex find_first replace_all rs s
                  (fst (rules_apply regex find_first replace_all (sort_rules regex rs) s))
                  (snd (rules_apply regex find_first replace_all (sort_rules regex rs) s))) /\
  (forall rs s r1 o1 r2 o2, NoDup (map (fun r => r_order r) rs) ->
      rules_sem regex find_first replace_all rs s r1 o1 -> rules_sem regex find_first replace_all rs s r2 o2 ->
      r1 = r2 /\ o1 = o2).
Proof. exact rules_order. Qed.
Print Assumptions C07_rules_order.

(* the hypothesis of C07_rules_order is met by the concrete matcher used for execution *)
Theorem C07_rules_order_concrete :
  (forall (r : crule) s, rule_sem cregex c_find_first c_replace_all r s (fst (c_rule_apply r s)) (snd (c_rule_apply r s))) /\
  (forall (ws : list craw) s, rules_sem cregex c_find_first c_replace_all (compile_all cregex parse_re ws) s
                                (fst (c_rules_apply (c_rules_from_json ws) s)) (snd (c_rules_apply (c_rules_from_json ws) s))).
Proof. exact rules_order_concrete. Qed.
Print Assumptions C07_rules_order_concrete.
