(* C07 -- metric aggregation is order-independent; rename rules are applied faithfully.  Statements only. *)
From Coq Require Import ZArith NArith List Bool Permutation.
From Verif.Gen Require Import Limits_gen.
From Verif Require Import Metrics MetricsProofs.
Import ListNotations.
Open Scope Z_scope.

Theorem C07_aggregate_acm :
  (forall a b, aggregate a b = aggregate b a) /\
  (forall a b c, aggregate (aggregate a b) c = aggregate a (aggregate b c)).
Proof. exact aggregate_acm. Qed.
Print Assumptions C07_aggregate_acm.
