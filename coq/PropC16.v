(* C16 -- the span queue applies back-pressure without blocking.  Statements only.
   Model: TraceObs.v (LTS of trace_observer.go; cfg.fixed = false is the code as it is, cfg.fixed = true the
   code with build/c16/fix.patch).  Proofs: TraceObsProofs.v.
   `wf c` is 1 <= QueueSize < 2^64.  `app_sd_callable c = false` says that nobody calls
   closeInitiateAppShutdown (no caller exists in the tree; the check greps for one on every run). *)
From Coq Require Import NArith List Bool.
From Verif Require Import TraceObs TraceObsProofs.
Import ListNotations.
Open Scope N_scope.

(* The executable transition function and the enabled-list are the inductive relation. *)
Theorem C16_lts_twins : forall c counts s l s',
  (In (l, s') (enabled c counts s) <-> lstep c s l s' /\ label_over counts l) /\
  (step_fn c s l = Some s' <-> lstep c s l s').
Proof. exact thm_lts_twins. Qed.
Print Assumptions C16_lts_twins.

(* Trace inclusion as decided for the correspondence runs is sound: an accepted log is the visible part of
   a run of the LTS. *)
Theorem C16_accepts_sound : forall c os,
  accepts c os = Accept -> exists tr s, steps c (init c) tr s /\ vis tr = obs_labels os.
Proof. exact accepts_sound. Qed.
Print Assumptions C16_accepts_sound.

(* ---- C16_counter_inv: on every reachable state of either variant, for every queue size, batch-size
   sequence, sender behaviour and interleaving:
     remaining + queued spans + spans in the worker's hands + spans reported but not yet drained
     (+ what emptyQueue holds, + what closeMessages discarded)  ==  QueueSize (+ the pending decrement)
   modulo 2^64. *)
Theorem C16_counter_inv : forall c s, wf c -> reachable c s ->
  rem s < W /\
  (rem s + qsum (msgs s) + hand (work s) + qsum (sent s) + pdrop (prod s) + g_left s) mod W
  = (qsize c + ppend (prod s)) mod W.
Proof. exact thm_counter_inv. Qed.
Print Assumptions C16_counter_inv.

(* ... and it is an equation in N as long as the counter has not wrapped. *)
Theorem C16_counter_exact : forall c s, wf c -> reachable c s -> wrapped s = false ->
  rem s + qsum (msgs s) + hand (work s) + qsum (sent s) + pdrop (prod s) + g_left s
  = qsize c + ppend (prod s).
Proof. exact thm_counter_exact. Qed.
Print Assumptions C16_counter_exact.

(* The counter can only wrap when a batch larger than the queue was offered, or after the worker has
   taken a batch out of the queue (capacity held by batches in flight is not reclaimed by emptyQueue). *)
Theorem C16_wrap_only_if : forall c tr s, wf c -> steps c (init c) tr s ->
  (forall n, In (LCall n) tr -> n <= qsize c) -> ~ In LRecv tr ->
  wrap_free c s = true.
Proof. exact thm_wrap_only_if. Qed.
Print Assumptions C16_wrap_only_if.

(* ---- C16_never_blocks.  Full statement (FALSE of the code as it is):
     forall c tr s, wf c -> fixed c = false -> app_sd_callable c = false ->
       steps c (init c) tr s -> producer_blocked c s = false.
   Refuted three ways: (1) zero-count batches, (2) a count above QueueSize, (2') counts within
   [1, QueueSize] with a batch in the worker's hands; and (4, latent) after closeInitiateAppShutdown. *)
Theorem C16_never_blocks_refuted :
  exists tr s, steps (c_asis 1) (init (c_asis 1)) tr s /\ producer_blocked (c_asis 1) s = true.
Proof. exact never_blocks_refuted. Qed.
Print Assumptions C16_never_blocks_refuted.

Theorem C16_never_blocks_big_refuted :
  exists tr s, steps (c_asis 1) (init (c_asis 1)) tr s /\
               producer_blocked (c_asis 1) s = true /\ all_counts_in 1 2 tr = true.
Proof. exact never_blocks_big_refuted. Qed.
Print Assumptions C16_never_blocks_big_refuted.

Theorem C16_never_blocks_inrange_refuted :
  exists tr s, steps (c_asis 1) (init (c_asis 1)) tr s /\
               producer_blocked (c_asis 1) s = true /\ all_counts_in 1 1 tr = true.
Proof. exact never_blocks_inrange_refuted. Qed.
Print Assumptions C16_never_blocks_inrange_refuted.

Theorem C16_supp_block_latent :
  exists tr s, steps c_appsd (init c_appsd) tr s /\
               producer_blocked c_appsd s = true /\ all_counts_in 1 1 tr = true.
Proof. exact supp_block_latent. Qed.
Print Assumptions C16_supp_block_latent.

(* Partial (either variant): no count 0, and the counter neither wrapped nor about to: then neither the
   producer nor the worker is ever at a channel operation that cannot proceed. *)
Theorem C16_never_blocks_partial : forall c tr s,
  wf c -> app_sd_callable c = false -> steps c (init c) tr s ->
  (forall n, In (LCall n) tr -> 1 <= n) -> wrap_free c s = true ->
  producer_blocked c s = false /\ worker_blocked c s = false.
Proof. exact thm_never_blocks_partial. Qed.
Print Assumptions C16_never_blocks_partial.

(* Repaired variant: the full statement, for every batch-size sequence (0, = QueueSize, > QueueSize, ...). *)
Theorem C16_never_blocks_fixed : forall c s,
  wf c -> fixed c = true -> app_sd_callable c = false -> reachable c s ->
  producer_blocked c s = false /\ worker_blocked c s = false.
Proof. exact thm_never_blocks_fixed. Qed.
Print Assumptions C16_never_blocks_fixed.

(* ---- C16_bound.  Full statement (FALSE of the code as it is):
     forall c s, wf c -> fixed c = false -> reachable c s -> qsum (msgs s) <= qsize c. *)
Theorem C16_bound_refuted :
  exists tr s, steps (c_asis 1) (init (c_asis 1)) tr s /\ qsize (c_asis 1) < qsum (msgs s).
Proof. exact bound_refuted. Qed.
Print Assumptions C16_bound_refuted.

Theorem C16_bound_inrange_refuted :
  exists tr s, steps (c_asis 2) (init (c_asis 2)) tr s /\
               qsize (c_asis 2) < qsum (msgs s) /\ all_counts_in 1 2 tr = true.
Proof. exact bound_inrange_refuted. Qed.
Print Assumptions C16_bound_inrange_refuted.

Theorem C16_bound_partial : forall c s, wf c -> reachable c s -> wrap_free c s = true ->
  qsum (msgs s) <= qsize c /\ rem s <= qsize c + ppend (prod s) /\ lenN (msgs s) <= qsize c.
Proof. exact thm_bound_partial. Qed.
Print Assumptions C16_bound_partial.

Theorem C16_bound_fixed : forall c s, wf c -> fixed c = true -> reachable c s ->
  qsum (msgs s) <= qsize c /\ rem s <= qsize c + ppend (prod s) /\ wrapped s = false.
Proof. exact thm_bound_fixed. Qed.
Print Assumptions C16_bound_fixed.

(* ---- C16_accounting (either variant, every reachable state; g_off < 2^64 = fewer than 2^64 spans were
   ever offered, so that emptyQueue's uint64 `dropped` did not overflow): every span handed over is in
   exactly one place -- sent, failed, dumped with the queue, refused after shutdown began, discarded by
   closeMessages (still queued at shutdown), still queued, in the worker's hands, or in the producer's
   hands inside the current call. *)
Theorem C16_accounting : forall c s, wf c -> reachable c s -> g_off s < W ->
  g_off s = g_sent s + g_fail s + g_dump s + g_ref s + g_left s + qsum (msgs s) + hand (work s)
            + pdrop_acc (prod s) + pcall (prod s).
Proof. exact thm_accounting. Qed.
Print Assumptions C16_accounting.

Theorem C16_accounting_quiescent : forall c s, wf c -> reachable c s -> g_off s < W ->
  prod s = PIdle -> hand (work s) = 0 ->
  g_off s = g_sent s + g_fail s + g_dump s + g_ref s + g_left s + qsum (msgs s).
Proof. exact thm_accounting_quiescent. Qed.
Print Assumptions C16_accounting_quiescent.

(* ---- C16_shutdown_bounded.
   (a) Shutdown never waits for anybody beyond its select: from the select, the time-out branch and then
       closeMessages are steps of the producer alone (any state, either variant). *)
Theorem C16_shutdown_returns : forall c s, prod s = PWait ->
  exists tr s', steps c s tr s' /\ prod s' = PIdle /\ Forall producer_own tr /\
                (length tr <= 3 + length (msgs s))%nat.
Proof. exact shutdown_returns. Qed.
Print Assumptions C16_shutdown_returns.

(* (b) Full statement (FALSE of the code as it is):
       forall c s, wf c -> fixed c = false -> reachable c s -> crashed s = false.
       Refuted: Shutdown times out while the worker is still in connect(); closeMessages; nil batch. *)
Theorem C16_shutdown_crash_refuted :
  exists tr s, steps (c_asis 1) (init (c_asis 1)) tr s /\ crashed s = true /\ work s = WCrash.
Proof. exact shutdown_crash_refuted. Qed.
Print Assumptions C16_shutdown_crash_refuted.

(* and zero-count batches leave the worker on `messagesSent <-` for ever after Shutdown *)
Theorem C16_shutdown_worker_stuck_refuted :
  exists tr s, steps (c_asis 1) (init (c_asis 1)) tr s /\
               worker_blocked (c_asis 1) s = true /\ prod s = PIdle /\ closed s = true.
Proof. exact worker_stuck_refuted. Qed.
Print Assumptions C16_shutdown_worker_stuck_refuted.

(* Partial: the producer never panics (no send on the closed channel), and nothing crashes as long as
   closeMessages did not run while the worker was still inside its loop (closed_early). *)
Theorem C16_shutdown_bounded_partial : forall c s, wf c -> reachable c s ->
  is_pcrash (prod s) = false /\ (closed_early s = false -> crashed s = false).
Proof. exact thm_shutdown_bounded_partial. Qed.
Print Assumptions C16_shutdown_bounded_partial.

(* Repaired variant: at any moment, in any sender state: no crash, nobody stuck on a channel. *)
Theorem C16_shutdown_bounded_fixed : forall c s,
  wf c -> fixed c = true -> app_sd_callable c = false -> reachable c s ->
  crashed s = false /\ worker_blocked c s = false /\ producer_blocked c s = false.
Proof. exact thm_shutdown_bounded_fixed. Qed.
Print Assumptions C16_shutdown_bounded_fixed.

(* The monitor's per-probe test asks nothing beyond the theorems. *)
Theorem C16_monitor_probe_sound : forall c s pos peek,
  wf c -> reachable c s -> wrap_free c s = true -> ppend (prod s) = 0 ->
  probe_bound_ok (qsize c) (probe_of s pos peek) = true.
Proof. exact probe_bound_sound. Qed.
Print Assumptions C16_monitor_probe_sound.
