(* C16 -- the span queue applies back-pressure without blocking.  Statements only.
   Model: TraceObs.v (LTS of trace_observer.go).  `fixed c = true` is the CURRENT code (/repo with the
   commits 924bc09, 296039d, 1697f0e); `fixed c = false` is the code before them and appears only in the
   regression witnesses at the end.  Proofs: TraceObsProofs.v.
   `wf c` is 1 <= QueueSize < 2^64.  `app_sd_callable c = false` says that nobody calls
   closeInitiateAppShutdown (no caller exists in the tree; the check greps for one on every run).
   Every theorem quantifies over all reachable states, i.e. over all batch-size sequences (0, = QueueSize,
   > QueueSize, up to 2^64-1), all queue sizes, all sender behaviours (the sender's answers are labels of
   the LTS: connected, failing, restarting, stuck in connect or send) and all interleavings. *)
From Coq Require Import NArith List Bool.
From Verif Require Import TraceObs TraceObsProofs.
Import ListNotations.
Open Scope N_scope.

(* The executable transition function and the enabled-list are the inductive relation. *)
Theorem C16_lts_twins : forall c counts s l s',
  (In (l, s') (enabled c counts s) <-> lstep c s l s' /\ label_over counts l) /\
  (step_fn c s l = Some s' <-> lstep c s l s').
Proof. exact thm_lts_twins. Qed.
Print Assumptions C16_lts_twins.

(* Trace inclusion as decided for the correspondence runs is sound: an accepted log is the visible part of
   a run of the LTS. *)
Theorem C16_accepts_sound : forall c os,
  accepts c os = Accept -> exists tr s, steps c (init c) tr s /\ vis tr = obs_labels os.
Proof. exact accepts_sound. Qed.
Print Assumptions C16_accepts_sound.

(* ---- the capacity counter never wraps and is exact:
     remaining + queued spans + spans in the worker's hands + spans reported but not yet drained
     (+ what emptyQueue holds, + what closeMessages discarded)  =  QueueSize (+ the pending decrement). *)
Theorem C16_counter_inv : forall c s, wf c -> fixed c = true -> reachable c s ->
  wrapped s = false /\ rem s < W /\
  rem s + qsum (msgs s) + hand (work s) + qsum (sent s) + pdrop (prod s) + g_left s
  = qsize c + ppend (prod s).
Proof. exact thm_counter_inv_current. Qed.
Print Assumptions C16_counter_inv.

(* ---- neither the producer (= the processor) nor the worker is ever at a channel operation that cannot
   proceed: not `to.messages <- b`, not a send on a supportability channel, not `to.messagesSent <- n`. *)
Theorem C16_never_blocks : forall c s,
  wf c -> fixed c = true -> app_sd_callable c = false -> reachable c s ->
  producer_blocked c s = false /\ worker_blocked c s = false.
Proof. exact thm_never_blocks_fixed. Qed.
Print Assumptions C16_never_blocks.

(* ---- the spans waiting in the queue never exceed QueueSize; the counter stays within [0, QueueSize]
   (+ the decrement still to come). *)
Theorem C16_bound : forall c s, wf c -> fixed c = true -> reachable c s ->
  qsum (msgs s) <= qsize c /\ rem s <= qsize c + ppend (prod s) /\ wrapped s = false.
Proof. exact thm_bound_fixed. Qed.
Print Assumptions C16_bound.

(* ---- every span handed over is in exactly one place -- sent, failed, dumped with the queue (or dropped
   because it did not fit), refused after shutdown began, discarded by closeMessages (still queued at
   shutdown), still queued, in the worker's hands, or in the producer's hands inside the current call.
   (g_off < 2^64: fewer than 2^64 spans were ever offered.  Holds of either variant.) *)
Theorem C16_accounting : forall c s, wf c -> reachable c s -> g_off s < W ->
  g_off s = g_sent s + g_fail s + g_dump s + g_ref s + g_left s + qsum (msgs s) + hand (work s)
            + pdrop_acc (prod s) + pcall (prod s).
Proof. exact thm_accounting. Qed.
Print Assumptions C16_accounting.

Theorem C16_accounting_quiescent : forall c s, wf c -> reachable c s -> g_off s < W ->
  prod s = PIdle -> hand (work s) = 0 ->
  g_off s = g_sent s + g_fail s + g_dump s + g_ref s + g_left s + qsum (msgs s).
Proof. exact thm_accounting_quiescent. Qed.
Print Assumptions C16_accounting_quiescent.

(* ---- shutting the queue down, at any moment and in any sender state: nothing crashes (no nil batch is
   dereferenced, nothing is sent on the closed channel), nobody is left on a channel operation, and from
   its select Shutdown returns by the time-out branch and closeMessages, which are steps of the caller
   alone. *)
Theorem C16_shutdown_bounded : forall c s,
  wf c -> fixed c = true -> app_sd_callable c = false -> reachable c s ->
  crashed s = false /\ worker_blocked c s = false /\ producer_blocked c s = false /\
  (prod s = PWait ->
   exists tr s', steps c s tr s' /\ prod s' = PIdle /\ Forall producer_own tr /\
                 (length tr <= 3 + length (msgs s))%nat).
Proof. exact thm_shutdown_bounded_current. Qed.
Print Assumptions C16_shutdown_bounded.

(* The monitor's per-probe test asks nothing beyond the theorems. *)
Theorem C16_monitor_probe_sound : forall c s pos peek,
  wf c -> fixed c = true -> reachable c s -> ppend (prod s) = 0 ->
  probe_bound_ok (qsize c) (probe_of s pos peek) = true.
Proof. exact thm_monitor_probe_sound_current. Qed.
Print Assumptions C16_monitor_probe_sound.

(* Latent, an evidence note rather than a finding: the hypothesis app_sd_callable c = false is needed.
   Were closeInitiateAppShutdown ever called, handleSupportability would return and emptyQueue's send on
   the unbuffered supportability channel would have no partner (QueueSize 1, counts 1, 1). *)
Theorem C16_latent_supportability_after_app_shutdown :
  exists tr s, steps c_appsd_cur (init c_appsd_cur) tr s /\
               producer_blocked c_appsd_cur s = true /\ all_counts_in 1 1 tr = true.
Proof. exact supp_block_latent_current. Qed.
Print Assumptions C16_latent_supportability_after_app_shutdown.

(* ================================================================== regression witnesses
   Facts about the OLD code (c_asis q: fixed = false, QueueSize q), one per defect, named after the commit
   that repaired it.  The check replays the same scenarios on the implementation on every run; if a fix is
   reverted the implementation follows these runs again and the monitor reports the signature. *)

(* before 924bc09: batches of count 0 never consume capacity; the second one into a queue of one slot
   leaves the producer on `to.messages <- b` *)
Theorem C16_regression_924bc09_zero_count_blocks :
  exists tr s, steps (c_asis 1) (init (c_asis 1)) tr s /\ producer_blocked (c_asis 1) s = true.
Proof. exact never_blocks_refuted. Qed.
Print Assumptions C16_regression_924bc09_zero_count_blocks.

(* before 924bc09: they fill messagesSent too; after Shutdown the worker sits on `messagesSent <- 0` for ever *)
Theorem C16_regression_924bc09_zero_count_worker_stuck :
  exists tr s, steps (c_asis 1) (init (c_asis 1)) tr s /\
               worker_blocked (c_asis 1) s = true /\ prod s = PIdle /\ closed s = true.
Proof. exact worker_stuck_refuted. Qed.
Print Assumptions C16_regression_924bc09_zero_count_worker_stuck.

(* before 296039d: a batch of 2 spans into a queue of 1: 2 spans queued; the counter then wraps to 2^64-1
   and the next batch finds the only slot taken *)
Theorem C16_regression_296039d_count_exceeds_queue :
  (exists tr s, steps (c_asis 1) (init (c_asis 1)) tr s /\ qsize (c_asis 1) < qsum (msgs s)) /\
  (exists tr s, steps (c_asis 1) (init (c_asis 1)) tr s /\
                producer_blocked (c_asis 1) s = true /\ all_counts_in 1 2 tr = true).
Proof. exact (conj bound_refuted never_blocks_big_refuted). Qed.
Print Assumptions C16_regression_296039d_count_exceeds_queue.

(* before 296039d: counts within [1, QueueSize] with a batch in the worker's hands: emptyQueue finds
   nothing to reclaim, the counter wraps to 2^64-1, the producer blocks (QueueSize 1) or 4 spans are
   queued (QueueSize 2) *)
Theorem C16_regression_296039d_inflight_wrap :
  (exists tr s, steps (c_asis 1) (init (c_asis 1)) tr s /\ rem s = W - 1 /\ all_counts_in 1 1 tr = true) /\
  (exists tr s, steps (c_asis 1) (init (c_asis 1)) tr s /\
                producer_blocked (c_asis 1) s = true /\ all_counts_in 1 1 tr = true) /\
  (exists tr s, steps (c_asis 2) (init (c_asis 2)) tr s /\
                qsize (c_asis 2) < qsum (msgs s) /\ all_counts_in 1 2 tr = true).
Proof. exact (conj counter_wraps_witness (conj never_blocks_inrange_refuted bound_inrange_refuted)). Qed.
Print Assumptions C16_regression_296039d_inflight_wrap.

(* before 1697f0e: Shutdown times out while the worker is still in connect(); closeMessages closes the
   queue; connect() then succeeds and the select receives a nil batch *)
Theorem C16_regression_1697f0e_close_under_worker :
  exists tr s, steps (c_asis 1) (init (c_asis 1)) tr s /\ crashed s = true /\ work s = WCrash.
Proof. exact shutdown_crash_refuted. Qed.
Print Assumptions C16_regression_1697f0e_close_under_worker.

(* the same inputs on the current code: three count-0 batches return at once; the old oversize run is not
   a run any more, the batch of 2 is dropped and counted (dumped = 2, counter back at 1, queue empty); after
   the late connect the worker sees the closed queue and completes the shutdown *)
Theorem C16_regression_inputs_on_current_code :
  option_map (producer_blocked (c_fix 1)) (run_trace (c_fix 1) (init (c_fix 1)) [LCall 0; LCall 0; LCall 0]) = Some false /\
  run_trace (c_fix 1) (init (c_fix 1)) tr_big = None /\
  option_map (fun s => (prod s, msgs s, rem s, g_dump s))
     (run_trace (c_fix 1) (init (c_fix 1)) [LCall 2; LChkInit; LDrainDone; LEmptyDone; LSuppDump; LRecheck; LSuppDrop])
    = Some (PIdle, [], 1, 2) /\
  option_map work (run_trace (c_fix 1) (init (c_fix 1)) (tr_crash ++ [LStatus; LComplete])) = Some WDone.
Proof. exact fixed_replays. Qed.
Print Assumptions C16_regression_inputs_on_current_code.
