(* ConfigBase.v -- the vocabulary shared by the generated tables (Gen/Flags_gen.v) and the
   configuration model (Config.v).  Definitions only. *)
From Coq Require Import NArith ZArith List Bool.
Import ListNotations.

Definition bytes := list N.

(* the value of one setting: Go string (as bytes), bool, or an integer (int, uint64, log.Level,
   config.Timeout and time.Duration in nanoseconds).  VUnknown: an expression the translator did not
   understand (the theorems about the generated tables then no longer build). *)
Inductive value := VStr (s : bytes) | VBool (b : bool) | VInt (z : Z) | VUnknown.

(* the Go type of a Config field, as far as unmarshalValue distinguishes *)
Inductive kind := KString | KBool | KInt | KUint64 | KLevel | KTimeout | KDuration | KOther.

(* how a command-line flag parses its argument: flag.StringVar / BoolVar / IntVar / DurationVar,
   flag.Var on a log.Level, flag.Var on the config.FlagParserShim (--define) *)
Inductive flagkind := FkString | FkBool | FkInt | FkDuration | FkLevel | FkDefine | FkOther.

Record fielddef := {
  fd_id : N;                 (* position in `type Config struct` *)
  fd_name : bytes;           (* Go field name *)
  fd_kind : kind;
  fd_tag : option bytes      (* keyword under which config.getTypeInfo registers the field; None: `config:"-"` *)
}.

Record flagdef := {
  fl_name : bytes;           (* flag name without dashes *)
  fl_target : N;             (* fd_id of the Config field the flag writes; 1000 = the global printVersion;
                                1001 = the whole Config through the --define shim *)
  fl_kind : flagkind;
  fl_init : option value     (* value assigned when the flag is DEFINED (the `value` argument of XxxVar) when that
                                is not the field's own current value *)
}.

Definition G_printVersion : N := 1000.
Definition G_define : N := 1001.

Fixpoint bytes_eqb (a b : bytes) : bool :=
  match a, b with
  | [], [] => true
  | x :: a', y :: b' => if N.eqb x y then bytes_eqb a' b' else false
  | _, _ => false
  end.

Definition value_eqb (a b : value) : bool :=
  match a, b with
  | VStr x, VStr y => bytes_eqb x y
  | VBool x, VBool y => Bool.eqb x y
  | VInt x, VInt y => Z.eqb x y
  | _, _ => false
  end.
