(* C19 -- settings resolve as command line over file over default, for all syntaxes.  Statements only.

   Model: Config.v (the lexer of internal/newrelic/config, unmarshalValue, the Go flag package's
   parseOne, DaemonFlagSet.Parse, configure), over the tables Gen/Flags_gen.v read from cmd/daemon/main.go.
   isp/isl/isn are unicode.IsSpace/IsLetter/IsNumber: the theorems hold for ANY classification with the
   facts `class_facts` (the delimiters: equals sign, the two quotes, hash and semicolon are neither spaces nor
   keyword characters; a line feed is a
   space); C19_unicode_classes shows the toolchain's tables (Gen/Unicode_gen.v) have them.
   Inputs "in every syntax" are ConfigSpec.render_file (single-quoted, double-quoted, raw with trailing
   blanks and comment, blank value; any ASCII white space; comments; last line with or without newline) and
   ConfigSpec.render_cmd (-f v, --f v, -f=v, --f=v; boolean flags -f, --f, -f=v, --f=v; --define through the
   same table).  `resolved e efile c0 s` is: the last command-line assignment to s, else the last file
   assignment, else the value in c0. *)
From Coq Require Import NArith ZArith List Bool.
From Verif Require Import ConfigBase Config ConfigSpec ConfigInst ConfigMonitor ConfigLexProofs ConfigFlagProofs
                          ConfigProofs.
From Verif.Gen Require Import Flags_gen Unicode_gen.
Import ListNotations.
Open Scope N_scope.

(* ---- no input makes the parser panic or loop *)

(* With fuel S (length input) (one unit per rune or bulk read) the lexer ends, on EVERY byte string, with
   the assignments so far and Ok or a syntax error: never out of fuel, never in the panic state. *)
Theorem C19_lexer_total : forall (isp isl isn : N -> bool) (inp : bytes),
  exists asg, lex_all isp isl isn inp = (asg, EndOk) \/ exists le, lex_all isp isl isn inp = (asg, EndErr le).
Proof. exact lexer_total_all. Qed.
Print Assumptions C19_lexer_total.

(* The one Go operation of the lexer that can panic, value[:len(value)-1] after ReadBytes(delim) returned
   without error, is in bounds. *)
Theorem C19_slice_in_bounds : forall (d : N) (inp v rest : bytes),
  read_bytes d inp = (v, true, rest) -> slice_to v (Z.of_nat (length v) - 1) <> None.
Proof. exact slice_after_read_bytes. Qed.
Print Assumptions C19_slice_in_bounds.

(* config.ParseString / ParseFile as a whole (any struct): ok, syntax error, value error (or a value outside
   the modelled value syntax); nothing else. *)
Theorem C19_decode_total : forall (isp isl isn : N -> bool) (fields : list fielddef) (inp : bytes),
  match snd (decode_g isp isl isn fields inp) with DecFuel | DecCrash => False | _ => True end.
Proof. exact decode_total. Qed.
Print Assumptions C19_decode_total.

(* ---- every file syntax, every flag spelling *)

Theorem C19_file_syntaxes : forall (isp isl isn : N -> bool), class_facts isp isl isn ->
  forall (items : list fitem) (trail : bytes), wf_file isp isl isn items trail = true ->
  lex_all isp isl isn (render_file items trail) = (file_asg items, EndOk).
Proof. exact lexer_wellformed. Qed.
Print Assumptions C19_file_syntaxes.

Theorem C19_unicode_classes : class_facts u_space u_letter u_number.
Proof. exact u_class_facts. Qed.
Print Assumptions C19_unicode_classes.

(* Any flag table without duplicate names: every well-formed item whose value parses is applied, in order,
   in whichever spelling; parsing continues with what follows. *)
Theorem C19_flag_spellings : forall (isp isl isn : N -> bool) (LA LE LW LI LH LD : Z) (fields : list fielddef)
  (tbl : list flagdef) (items : list citem) (rest : list bytes),
  Forall (wf_citem tbl) items -> Forall (citem_ok isp isl isn LA LE LW LI LH LD fields) items ->
  parse_flags isp isl isn LA LE LW LI LH LD fields tbl (render_cmd items ++ rest) =
  (cmd_effects isp isl isn LA LE LW LI LH LD fields items
     ++ fst (parse_flags isp isl isn LA LE LW LI LH LD fields tbl rest),
   snd (parse_flags isp isl isn LA LE LW LI LH LD fields tbl rest)).
Proof. exact parse_render. Qed.
Print Assumptions C19_flag_spellings.

(* The spelling that does NOT exist: a boolean flag followed by a separate value.  The value is a positional
   argument, flag parsing stops there and everything after it is silently ignored (Go flag package). *)
Theorem C19_bool_flag_separate_value : forall (isp isl isn : N -> bool),
  parse_flags_g isp isl isn daemon_flags [a_foreground; a_false; a_port; a_9000] = ([(F_Foreground, VBool true)], FlOk).
Proof. exact bool_flag_separate_value. Qed.
Print Assumptions C19_bool_flag_separate_value.

Theorem C19_positional_stops_parsing : forall (isp isl isn : N -> bool) (LA LE LW LI LH LD : Z) (fields : list fielddef)
  (tbl : list flagdef) (a : bytes) (rest : list bytes),
  looks_like_flag a = false -> parse_flags isp isl isn LA LE LW LI LH LD fields tbl (a :: rest) = ([], FlOk).
Proof. exact parse_stops_at_positional. Qed.
Print Assumptions C19_positional_stops_parsing.

(* ---- --define *)

(* The value of --define is decoded by the same decoder as a configuration file ... *)
Theorem C19_define_shim : forall (isp isl isn : N -> bool) (fd : flagdef) (s : bytes), fl_kind fd = FkDefine ->
  flag_effects_g isp isl isn fd s =
  match decode_g isp isl isn cfg_fields s with
  | (es, DecOk) => (es, None)
  | (es, DecUnsup) => (es, Some FlUnsup)
  | (es, _) => (es, Some (FlBadValue (fl_name fd)))
  end.
Proof. exact define_shim. Qed.
Print Assumptions C19_define_shim.

(* ... so a --define whose value is written in any file syntax has the effects of that file text. *)
Theorem C19_define_wellformed : forall (isp isl isn : N -> bool), class_facts isp isl isn ->
  forall (tbl : list flagdef) (fd : flagdef) (dd eqf : bool) (fitems : list fitem) (trail : bytes) (rest : list bytes),
  flag_table_ok tbl -> In fd tbl -> fl_kind fd = FkDefine ->
  wf_file isp isl isn fitems trail = true -> file_ok fitems ->
  parse_flags_g isp isl isn tbl (render_citem (CVal fd dd eqf (render_file fitems trail)) ++ rest) =
  (file_effects fitems ++ fst (parse_flags_g isp isl isn tbl rest), snd (parse_flags_g isp isl isn tbl rest)).
Proof. exact define_wellformed. Qed.
Print Assumptions C19_define_wellformed.

(* ---- precedence *)

(* New flags.  For every command line of well-formed items (any spelling, any repetition, --define included)
   and every well-formed file named by the last -c: the daemon runs, every setting other than the listen
   address is the last command-line value, else the last file value, else the built-in default; the listen
   address is the resolved address, else the resolved port, else the platform default. *)
Theorem C19_precedence : forall (isp isl isn : N -> bool), class_facts isp isl isn ->
  forall (platform : bytes) (fs : bytes -> option bytes) (citems : list citem) (fitems : list fitem) (trail : bytes),
  Forall (wf_citem daemon_flags) citems ->
  Forall (citem_ok isp isl isn LogAlways LogError LogWarning LogInfo LogHealthCheck LogDebug cfg_fields) citems ->
  wf_file isp isl isn fitems trail = true -> file_ok fitems ->
  let c0 := init_flagset daemon_flags default_cfg in
  let e := cmd_effects isp isl isn LogAlways LogError LogWarning LogInfo LogHealthCheck LogDebug cfg_fields citems in
  cfgfile_given fs (str_of (resolved e [] c0 F_ConfigFile)) fitems trail ->
  exists c w,
    configure_g isp isl isn platform fs (render_cmd citems) = Run c false w /\
    (forall s, s <> F_BindAddr -> get s c = resolved e (file_effects fitems) c0 s) /\
    str_of (get F_BindAddr c) =
      listen_of (str_of (resolved e (file_effects fitems) c0 F_BindAddr))
                (str_of (resolved e (file_effects fitems) c0 F_BindPort)) platform.
Proof. exact precedence_new. Qed.
Print Assumptions C19_precedence.

(* Legacy single-letter flags (the new flag set rejects the command line): the same, from the defaults of
   the legacy path ... *)
Theorem C19_precedence_legacy : forall (isp isl isn : N -> bool), class_facts isp isl isn ->
  forall (platform : bytes) (fs : bytes -> option bytes) (citems : list citem) (fitems : list fitem) (trail : bytes),
  Forall (wf_citem legacy_flags) citems ->
  Forall (citem_ok isp isl isn LogAlways LogError LogWarning LogInfo LogHealthCheck LogDebug cfg_fields) citems ->
  wf_file isp isl isn fitems trail = true -> file_ok fitems ->
  snd (daemon_parse_g isp isl isn platform fs daemon_flags (render_cmd citems) (init_flagset daemon_flags default_cfg))
    = PError ->
  let c0 := init_flagset legacy_flags default_cfg in
  let e := cmd_effects isp isl isn LogAlways LogError LogWarning LogInfo LogHealthCheck LogDebug cfg_fields citems in
  cfgfile_given fs (str_of (resolved e [] c0 F_ConfigFile)) fitems trail ->
  exists c,
    configure_g isp isl isn platform fs (render_cmd citems) = Run c true false /\
    (forall s, s <> F_BindAddr -> get s c = resolved e (file_effects fitems) c0 s) /\
    str_of (get F_BindAddr c) =
      listen_of (str_of (resolved e (file_effects fitems) c0 F_BindAddr))
                (str_of (resolved e (file_effects fitems) c0 F_BindPort)) platform.
Proof. exact precedence_legacy. Qed.
Print Assumptions C19_precedence_legacy.

(* ... which are the built-in defaults of the new flags (since fix 877309a also for wait-for-port): one
   default per setting, whichever flag set is used. *)
Theorem C19_precedence_legacy_builtin_defaults : forall (isp isl isn : N -> bool), class_facts isp isl isn ->
  forall (platform : bytes) (fs : bytes -> option bytes) (citems : list citem) (fitems : list fitem) (trail : bytes),
  Forall (wf_citem legacy_flags) citems ->
  Forall (citem_ok isp isl isn LogAlways LogError LogWarning LogInfo LogHealthCheck LogDebug cfg_fields) citems ->
  wf_file isp isl isn fitems trail = true -> file_ok fitems ->
  snd (daemon_parse_g isp isl isn platform fs daemon_flags (render_cmd citems) (init_flagset daemon_flags default_cfg))
    = PError ->
  let e := cmd_effects isp isl isn LogAlways LogError LogWarning LogInfo LogHealthCheck LogDebug cfg_fields citems in
  cfgfile_given fs (str_of (resolved e [] (init_flagset legacy_flags default_cfg) F_ConfigFile)) fitems trail ->
  exists c,
    configure_g isp isl isn platform fs (render_cmd citems) = Run c true false /\
    forall s, s <> F_BindAddr -> get s c = resolved e (file_effects fitems) (init_flagset daemon_flags default_cfg) s.
Proof. exact precedence_legacy_builtin. Qed.
Print Assumptions C19_precedence_legacy_builtin_defaults.

Theorem C19_same_defaults_on_both_paths : forall s : N,
  get s (init_flagset legacy_flags default_cfg) = get s (init_flagset daemon_flags default_cfg).
Proof. exact legacy_default_same. Qed.
Print Assumptions C19_same_defaults_on_both_paths.

(* The same for ANY argv and ANY file system, well-formed or not: whenever configure() returns a Config (new
   or legacy path), the flags parsed (e), the file named by the final ConfigFile was absent-by-name or decoded
   without error (efile), and the Config is command line over file over default with the listen rule. *)
Theorem C19_run_is_three_pass : forall (isp isl isn : N -> bool) (platform : bytes) (fs : bytes -> option bytes)
  (args : list bytes) (c : cfg) (lg w : bool),
  configure_g isp isl isn platform fs args = Run c lg w ->
  let tbl := if lg then legacy_flags else daemon_flags in
  let c0 := init_flagset tbl default_cfg in
  exists e efile,
    parse_flags_g isp isl isn tbl args = (e, FlOk) /\
    file_link isp isl isn LogAlways LogError LogWarning LogInfo LogHealthCheck LogDebug cfg_fields fs
      (str_of (get F_ConfigFile c)) efile /\
    (forall s, s <> F_BindAddr -> get s c = resolved e efile c0 s) /\
    str_of (get F_BindAddr c) =
      listen_of (str_of (resolved e efile c0 F_BindAddr)) (str_of (resolved e efile c0 F_BindPort)) platform.
Proof. exact run_spec. Qed.
Print Assumptions C19_run_is_three_pass.

(* ---- the listen address, on both paths *)

Theorem C19_listen_addr : forall (isp isl isn : N -> bool) (platform : bytes) (fs : bytes -> option bytes)
  (args : list bytes) (c : cfg) (lg w : bool),
  configure_g isp isl isn platform fs args = Run c lg w ->
  exists addr port, str_of (get F_BindAddr c) = listen_of addr port platform /\
    str_of (get F_BindPort c) = port /\ (addr <> [] -> str_of (get F_BindAddr c) = addr).
Proof. exact listen_addr. Qed.
Print Assumptions C19_listen_addr.

(* ---- unknown keys are ignored; unknown flags are not *)

Theorem C19_unknown_ignored : forall (LA LE LW LI LH LD : Z) (fields : list fielddef)
  (a1 : list assignment) (k v : bytes) (a2 : list assignment),
  tag_lookup fields k = None ->
  assign_effects LA LE LW LI LH LD fields (a1 ++ (k, v) :: a2) = assign_effects LA LE LW LI LH LD fields (a1 ++ a2).
Proof. exact assign_unknown_mid. Qed.
Print Assumptions C19_unknown_ignored.

(* An argument -u, --u, -u=v or --u=v whose name is in neither flag table (and is not h/help): after the
   items before it, the flag set reports it ... *)
Theorem C19_unknown_flag : forall (isp isl isn : N -> bool) (LA LE LW LI LH LD : Z) (fields : list fielddef)
  (tbl : list flagdef) (items : list citem) (dd : bool) (u tl : bytes) (rest : list bytes),
  Forall (wf_citem tbl) items -> Forall (citem_ok isp isl isn LA LE LW LI LH LD fields) items ->
  name_ok u = true -> find_flag tbl u = None -> (tl = [] \/ exists v, tl = 61 :: v) ->
  parse_flags isp isl isn LA LE LW LI LH LD fields tbl (render_cmd items ++ (dashes dd ++ u ++ tl) :: rest) =
  (cmd_effects isp isl isn LA LE LW LI LH LD fields items,
   if bytes_eqb u s_help || bytes_eqb u [104] then FlHelp else FlUndefined u).
Proof. exact parse_unknown_flag. Qed.
Print Assumptions C19_unknown_flag.

(* ... and as first argument it makes the daemon exit with status 1. *)
Theorem C19_unknown_flag_exits : forall (isp isl isn : N -> bool) (platform : bytes) (fs : bytes -> option bytes)
  (dd : bool) (u tl : bytes) (rest : list bytes),
  name_ok u = true -> find_flag daemon_flags u = None -> find_flag legacy_flags u = None ->
  bytes_eqb u s_help || bytes_eqb u [104] = false -> (tl = [] \/ exists v, tl = 61 :: v) ->
  configure_g isp isl isn platform fs ((dashes dd ++ u ++ tl) :: rest) = Exit 1.
Proof. exact unknown_flag_exits. Qed.
Print Assumptions C19_unknown_flag_exits.

(* Every way out of configure(): a Config, exit 2 (help), or exit 1 (the new flag set failed -- bad flag, bad
   value, missing or bad file -- and the legacy one did not rescue it). *)
Theorem C19_exits : forall (isp isl isn : N -> bool) (LA LE LW LI LH LD : Z) (fields : list fielddef)
  (F_cf F_port F_addr : N) (platform : bytes) (fs : bytes -> option bytes) (new_tbl legacy_tbl : list flagdef)
  (dflt : cfg) (args : list bytes),
  match configure isp isl isn LA LE LW LI LH LD fields F_cf F_port F_addr platform fs new_tbl legacy_tbl dflt args with
  | Run _ _ _ => True
  | Exit code =>
    (code = 2 /\ snd (daemon_parse isp isl isn LA LE LW LI LH LD fields F_cf F_port F_addr platform fs new_tbl args
                        (init_flagset new_tbl dflt)) = PHelp) \/
    (code = 1 /\ snd (daemon_parse isp isl isn LA LE LW LI LH LD fields F_cf F_port F_addr platform fs new_tbl args
                        (init_flagset new_tbl dflt)) = PError)
  end.
Proof. exact configure_exits. Qed.
Print Assumptions C19_exits.

(* ---- malformed values are reported *)

(* A malformed value for a known key makes the decode fail, wherever it stands in the input ... *)
Theorem C19_malformed_value : forall (isp isl isn : N -> bool) (LA LE LW LI LH LD : Z) (fields : list fielddef)
  (inp k v : bytes) (fd : fielddef),
  In (k, v) (fst (lex_all isp isl isn inp)) -> tag_lookup fields k = Some fd ->
  (forall x, unmarshal_value LA LE LW LI LH LD (fd_kind fd) v <> POk x) ->
  snd (decode_effects isp isl isn LA LE LW LI LH LD fields inp) <> DecOk.
Proof. exact decode_malformed. Qed.
Print Assumptions C19_malformed_value.

(* ... a flag item whose value does not parse stops the flag set with that error ... *)
Theorem C19_malformed_flag : forall (isp isl isn : N -> bool) (LA LE LW LI LH LD : Z) (fields : list fielddef)
  (tbl : list flagdef) (items : list citem) (bad : citem) (rest : list bytes) (err : fstatus),
  Forall (wf_citem tbl) items -> Forall (citem_ok isp isl isn LA LE LW LI LH LD fields) items -> wf_citem tbl bad ->
  snd (flag_effects isp isl isn LA LE LW LI LH LD fields (citem_flag bad) (citem_arg bad)) = Some err ->
  snd (parse_flags isp isl isn LA LE LW LI LH LD fields tbl (render_cmd items ++ render_citem bad ++ rest)) = err.
Proof. exact parse_render_bad. Qed.
Print Assumptions C19_malformed_flag.

(* ... and so configure() never returns a Config after reading a file with a syntax error or a malformed
   value for a known key: whenever it returns one and a file is named, that file exists, lexes to the end and
   every value of a known key unmarshals. *)
Theorem C19_malformed_reported : forall (isp isl isn : N -> bool) (platform : bytes) (fs : bytes -> option bytes)
  (args : list bytes) (c : cfg) (lg w : bool),
  configure_g isp isl isn platform fs args = Run c lg w -> str_of (get F_ConfigFile c) <> [] ->
  exists content, fs (str_of (get F_ConfigFile c)) = Some content /\
    snd (lex_all isp isl isn content) = EndOk /\
    forall k v fd, In (k, v) (fst (lex_all isp isl isn content)) -> tag_lookup cfg_fields k = Some fd ->
      exists x, unmarshal_g (fd_kind fd) v = POk x.
Proof. exact malformed_reported. Qed.
Print Assumptions C19_malformed_reported.

(* ---- double-quoted values with escapes *)

(* dq_roundtrip k v: the text k = double-quoted escape_q v -- backslash, the control characters and the double quote
   written with the escapes of the replacer table -- is read back as (k, v).  False for the value consisting of
   one double quote (the string ends at the escaped quote); true for every value without a double quote. *)
Theorem C19_dquote_escapes_refuted :
  ~ (forall k0 ks v, kw_start u_space u_letter k0 = true -> forallb (kw_char u_letter u_number) ks = true ->
       dq_roundtrip u_space u_letter u_number k0 ks v).
Proof. exact dquote_roundtrip_refuted. Qed.
Print Assumptions C19_dquote_escapes_refuted.

Theorem C19_dquote_escapes_partial : forall (isp isl isn : N -> bool), class_facts isp isl isn ->
  forall (k0 : N) (ks v : bytes),
  kw_start isp isl k0 = true -> forallb (kw_char isl isn) ks = true -> ~ In 34 v -> dq_roundtrip isp isl isn k0 ks v.
Proof. exact dquote_roundtrip_partial. Qed.
Print Assumptions C19_dquote_escapes_partial.

(* ---- the built-in defaults against the documented ones (usage text, newrelic.cfg.template) *)

(* default_agrees fd: the value of field fd in the Config that configure() starts from (defaultCfg plus the
   values assigned when the new flags are defined) equals ConfigMonitor.doc_default of its name *)
Theorem C19_documented_defaults : forall fd, In fd cfg_fields -> default_agrees fd = true.
Proof. exact documented_defaults. Qed.
Print Assumptions C19_documented_defaults.

(* ---- the generated tables are in the modelled fragment; the monitor means the property *)

Theorem C19_tables_supported : gen_supported = true /\ flag_table_ok daemon_flags /\ flag_table_ok legacy_flags /\
  untagged F_ConfigFile = true.
Proof. exact (conj gen_supported_ok (conj daemon_flags_ok (conj legacy_flags_ok config_file_untagged))). Qed.
Print Assumptions C19_tables_supported.

Theorem C19_monitor_sound : forall (cmd file : intended) (obs : list (bytes * value)),
  monitor cmd file obs = true ->
  forall n v, In (n, v) obs ->
    (bytes_eqb n n_BindAddr = true -> v = VStr (expected_listen cmd file)) /\
    (bytes_eqb n n_BindAddr = false -> v = expected cmd file n (zero_like v)).
Proof. exact monitor_sound. Qed.
Print Assumptions C19_monitor_sound.
