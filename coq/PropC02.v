(* C02 -- failed deliveries are retried only as specified.  Statements only (processor level; the
   attempt counters of the containers are C06 `C06_events_counters` and C07/C05 `merge_failed_counter`). *)
From Coq Require Import NArith List.
From Verif Require Import Processor ProcInv ProcInv2.
Import ListNotations.

(* Over any sequence of failures and successes no unit of data is acknowledged more than once. *)
Theorem C02_ack_at_most_once : forall ops, distinct_tags ops -> NoDup (g_acked (fst (run ops))).
Proof. exact acked_once. Qed.
Print Assumptions C02_ack_at_most_once.

(* Data that has been acknowledged or given up is no longer held nor in flight. *)
Theorem C02_released : forall ops, distinct_tags ops ->
  let s := fst (run ops) in
  forall t, In t (g_acked s ++ dropped s) -> ~ In t (held s ++ inflight s).
Proof. exact released. Qed.
Print Assumptions C02_released.

(* What a failed request does with its data: it is merged back (subject to capacity) iff the status is
   retryable, the category is retryable and the payload has not exhausted its attempts; in every case
   the tags of the request are conserved between the harvest, the refused and the given-up sets. *)
Theorem C02_failed_harvest_conserves : forall t h c q,
  let '(h1, refused, given_up) := merge_failed h c q in
  cnt t (harvest_tags h1) + cnt t (tags refused) + cnt t (tags given_up) =
  cnt t (harvest_tags h) + cnt t (tags (rq_items q)).
Proof. exact merge_failed_ok. Qed.
Print Assumptions C02_failed_harvest_conserves.

From Verif Require Import ProcInv4 ProcInv5 ProcInv6.

(* Attempt bounds.  `attempts ops c t`: the number of requests of category c, among ALL requests emitted by the
   history ops (final-flush requests included), that carried tag t.
   A unit of metric data is in at most 1 + FailedMetricAttemptsLimit = 6 requests, on every history with
   distinct tags, whatever fails and however deliveries overlap (the metric table's counter is max-merged). *)
Theorem C02_attempt_bound_metrics : forall ops t,
  distinct_tags ops -> attempts ops CMetrics t <= 6.
Proof. exact attempt_bound_metrics. Qed.
Print Assumptions C02_attempt_bound_metrics.

(* A unit of event data (custom, error, transaction, span, log events) is in at most
   1 + FailedEventsAttemptsLimit = 11 requests of its category, on every history in which deliveries of that
   category to one run do not overlap (`no_overlap`: in every state the history passes through, the outstanding
   requests of that category for one run id belong to ONE tick; the two halves of a split payload are one
   delivery) and the collector does not issue a run id twice (`distinct_runs`). *)
Theorem C02_attempt_bound_events : forall ops c t,
  is_event c = true -> distinct_tags ops -> distinct_runs ops -> no_overlap ops c -> attempts ops c t <= 11.
Proof. exact attempt_bound_events. Qed.
Print Assumptions C02_attempt_bound_events.

(* Both provisos are needed.  With overlapping deliveries (history `overlapping`: 20 requests carry tag 1) ... *)
Theorem C02_attempt_bound_events_refuted :
  exists ops c t, is_event c = true /\ distinct_tags ops /\ distinct_runs ops /\ attempts ops c t > 11.
Proof. exact attempt_bound_events_refuted. Qed.
Print Assumptions C02_attempt_bound_events_refuted.

(* ... and with a re-issued run id even without overlap (history `reissued_events`). *)
Theorem C02_attempt_bound_events_reissue_refuted :
  exists ops c t, is_event c = true /\ distinct_tags ops /\ no_overlap ops c /\ attempts ops c t > 11.
Proof. exact attempt_bound_events_reissue_refuted. Qed.
Print Assumptions C02_attempt_bound_events_reissue_refuted.

(* What a failed harvest request of a held run does with its data.  `saved q f`: the status is retryable
   (FRetry: 408, 429, 500, 503), the category is retryable (metrics and the five event categories) and the
   payload has not exhausted its attempts (rq_failed q + 1 <= 5 resp. 10).
   If saved, the tags of the request are afterwards in the run's current harvest, except those refused by the
   capacity limit (recorded with reason RCapacity), and nothing else is given up; otherwise the harvest is
   unchanged and ALL tags of the request are given up (not retryable / attempts exhausted). *)
Theorem C02_save_iff : forall s q f a c,
  lookupN (rq_run q) (p_runs s) = Some a -> a < length (p_ahs s) -> rq_kind q = RHarvest c ->
  let s' := fst (harvest_error s q f) in
  let h := ah_h (get_ah s a) in
  let h' := ah_h (get_ah s' a) in
  (saved q f = true ->
     exists refused, g_dropped s' = g_dropped s ++ map (fun t => (t, RCapacity)) refused /\
       forall t, cnt t (harvest_tags h') + cnt t refused = cnt t (harvest_tags h) + cnt t (tags (rq_items q))) /\
  (saved q f = false ->
     h' = h /\ exists why, (why = RNotRetryable \/ why = RGivenUp) /\
       g_dropped s' = g_dropped s ++ map (fun t => (t, why)) (tags (rq_items q))).
Proof. exact save_iff. Qed.
Print Assumptions C02_save_iff.

(* "... if and only if the status is retryable (408, 429, 500, 503)": the class a collector answer has for
   the processor model, as a function of the status code (Status.v; every code 200..599 is swept through the
   real HTTP client against this function on every run). *)
From Verif Require Import Status.
Theorem C02_retryable_status_iff : forall code,
  (outcome_of_code code = OFail FRetry <-> In code [408; 429; 500; 503]%N) /\
  (rc_save (classify code) = true <-> In code [408; 429; 500; 503]%N) /\
  (outcome_of_code code = OOk <-> (code = 200 \/ code = 202)%N).
Proof. intros code. exact (conj (outcome_retry_iff code) (conj (save_iff code) (outcome_ok_iff code))). Qed.
Print Assumptions C02_retryable_status_iff.
