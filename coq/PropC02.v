(* C02 -- failed deliveries are retried only as specified.  Statements only (processor level; the
   attempt counters of the containers are C06 `C06_events_counters` and C07/C05 `merge_failed_counter`). *)
From Coq Require Import NArith List.
From Verif Require Import Processor ProcInv ProcInv2.
Import ListNotations.

(* Over any sequence of failures and successes no unit of data is acknowledged more than once. *)
Theorem C02_ack_at_most_once : forall ops, distinct_tags ops -> NoDup (g_acked (fst (run ops))).
Proof. exact acked_once. Qed.
Print Assumptions C02_ack_at_most_once.

(* Data that has been acknowledged or given up is no longer held nor in flight. *)
Theorem C02_released : forall ops, distinct_tags ops ->
  let s := fst (run ops) in
  forall t, In t (g_acked s ++ dropped s) -> ~ In t (held s ++ inflight s).
Proof. exact released. Qed.
Print Assumptions C02_released.

(* What a failed request does with its data: it is merged back (subject to capacity) iff the status is
   retryable, the category is retryable and the payload has not exhausted its attempts; in every case
   the tags of the request are conserved between the harvest, the refused and the given-up sets. *)
Theorem C02_failed_harvest_conserves : forall t h c q,
  let '(h1, refused, given_up) := merge_failed h c q in
  cnt t (harvest_tags h1) + cnt t (tags refused) + cnt t (tags given_up) =
  cnt t (harvest_tags h) + cnt t (tags (rq_items q)).
Proof. exact merge_failed_ok. Qed.
Print Assumptions C02_failed_harvest_conserves.
