(* OwnershipSound.v -- C17, layer 0: the vector-clock checker is sound for happens-before.
   race_free tr = true  ->  every two conflicting accesses of tr are ordered by hb. *)
From Coq Require Import Arith List Bool Lia.
From Verif Require Import Ownership.
Import ListNotations.

Lemma upd_same {A} (f : nat -> A) k v : upd f k v k = v.
Proof. unfold upd. now rewrite Nat.eqb_refl. Qed.
Lemma upd_other {A} (f : nat -> A) k v x : x <> k -> upd f k v x = f x.
Proof. unfold upd. intros H. apply Nat.eqb_neq in H. now rewrite H. Qed.

Lemma vinc_same a g : vinc a g g = S (a g).
Proof. unfold vinc. now rewrite Nat.eqb_refl. Qed.
Lemma vinc_other a g x : x <> g -> vinc a g x = a x.
Proof. unfold vinc. intros H. apply Nat.eqb_neq in H. now rewrite H. Qed.
Lemma vinc_ge a g x : a x <= vinc a g x.
Proof. unfold vinc. destruct (x =? g); lia. Qed.

Lemma known_le v s : known v s = true <-> st_c s <= v (st_g s).
Proof. unfold known. apply Nat.leb_le. Qed.

(* the invariant between the checker state after n events and the hb relation of the whole trace;
   ep i is the clock the goroutine of event i had when it performed it *)
Record Inv (tr : trace) (n : nat) (st : rstate) (ep : nat -> nat) : Prop := {
  i_ep : forall i ei, i < n -> nth_error tr i = Some ei -> 1 <= ep i <= C st (gof ei) (gof ei);
  i_own : forall g, 1 <= C st g g;
  i_lt : forall g g', g <> g' -> C st g' g < C st g g;
  i_ltL : forall s g, L st s g < C st g g;
  i_C : forall g i ei, i < n -> nth_error tr i = Some ei -> ep i <= C st g (gof ei) ->
        forall j ej, n <= j -> nth_error tr j = Some ej -> gof ej = g -> hb tr i j;
  i_L : forall s i ei, i < n -> nth_error tr i = Some ei -> ep i <= L st s (gof ei) ->
        exists k g', k < n /\ nth_error tr k = Some (ERel g' s) /\ (i = k \/ hb tr i k);
  i_W : forall o w, W st o = Some w ->
        st_idx w < n /\ nth_error tr (st_idx w) = Some (EWr (st_g w) o) /\ st_c w = ep (st_idx w);
  i_Wall : forall o i g, i < n -> nth_error tr i = Some (EWr g o) ->
        exists w, W st o = Some w /\ (i = st_idx w \/ hb tr i (st_idx w));
  i_R : forall o r, In r (R st o) ->
        st_idx r < n /\ nth_error tr (st_idx r) = Some (ERd (st_g r) o) /\ st_c r = ep (st_idx r);
  i_Rall : forall o i g, i < n -> nth_error tr i = Some (ERd g o) ->
        exists r, In r (R st o) /\ st_idx r = i;
  i_drf : forall i j, i < j -> j < n -> conflict tr i j -> hb tr i j
}.

Lemma inv_init tr : Inv tr 0 rinit (fun _ => 0).
Proof.
  constructor; simpl; intros; try lia; try discriminate; try contradiction.
  - rewrite Nat.eqb_refl. lia.
  - rewrite Nat.eqb_refl. destruct (g' =? g) eqn:E; [apply Nat.eqb_eq in E; congruence | lia].
  - rewrite Nat.eqb_refl. lia.
Qed.

Lemma hb_or_eq_trans tr i k j : (i = k \/ hb tr i k) -> hb tr k j -> hb tr i j.
Proof. intros [->|H] H2; [exact H2 | eapply hb_trans; eauto]. Qed.

Section Step.
Variable tr : trace.
Variable n : nat.
Variable st : rstate.
Variable ep : nat -> nat.
Hypothesis HI : Inv tr n st ep.

Let ep' (c : nat) := upd ep n c.

Lemma ep'_old c i : i < n -> ep' c i = ep i.
Proof. intros. unfold ep'. apply upd_other. lia. Qed.
Lemma ep'_new c : ep' c n = c.
Proof. unfold ep'. apply upd_same. Qed.

(* the last write to o is ordered before position n when the checker's test succeeds *)
Lemma write_before g o e :
  nth_error tr n = Some e -> gof e = g -> wknown (C st g) (W st o) = true ->
  forall i g', i < n -> nth_error tr i = Some (EWr g' o) -> hb tr i n.
Proof.
  intros Hn Hg Hk i g' Hi Hw.
  destruct (i_Wall _ _ _ _ HI o i g' Hi Hw) as [w [HW Hiw]].
  rewrite HW in Hk. simpl in Hk. apply known_le in Hk.
  destruct (i_W _ _ _ _ HI o w HW) as [Hwn [Hwe Hwc]].
  eapply hb_or_eq_trans; [exact Hiw|].
  eapply (i_C _ _ _ _ HI g (st_idx w)); eauto.
  simpl. lia.
Qed.

Lemma read_before g o e :
  nth_error tr n = Some e -> gof e = g -> forallb (known (C st g)) (R st o) = true ->
  forall i g', i < n -> nth_error tr i = Some (ERd g' o) -> hb tr i n.
Proof.
  intros Hn Hg Hk i g' Hi Hr.
  destruct (i_Rall _ _ _ _ HI o i g' Hi Hr) as [r [Hin Hidx]].
  rewrite forallb_forall in Hk. specialize (Hk r Hin). apply known_le in Hk.
  destruct (i_R _ _ _ _ HI o r Hin) as [Hrn [Hre Hrc]].
  subst i.
  eapply (i_C _ _ _ _ HI g (st_idx r)); eauto.
  simpl. lia.
Qed.

Lemma lt_Sn_cases i : i < S n -> i < n \/ i = n.
Proof. lia. Qed.

Lemma step_rd g o st' :
  nth_error tr n = Some (ERd g o) -> rstep st n (ERd g o) = Some st' ->
  Inv tr (S n) st' (ep' (C st g g)).
Proof.
  intros Hn Hs. simpl in Hs.
  destruct (wknown (C st g) (W st o)) eqn:Hk; [|discriminate].
  inversion Hs; subst st'; clear Hs.
  pose proof (i_own _ _ _ _ HI) as Hown.
  pose proof (i_lt _ _ _ _ HI) as Hlt.
  pose proof (i_ltL _ _ _ _ HI) as HltL.
  constructor; simpl.
  - intros i ei Hi He. destruct (lt_Sn_cases _ Hi) as [Hi'| ->].
    + rewrite ep'_old by assumption. eapply (i_ep _ _ _ _ HI); eauto.
    + rewrite ep'_new. rewrite Hn in He. inversion He; subst ei. simpl. specialize (Hown g). lia.
  - exact Hown.
  - exact Hlt.
  - exact HltL.
  - intros g0 i ei Hi He Hle j ej Hj Hej Hg0. destruct (lt_Sn_cases _ Hi) as [Hi'| ->].
    + rewrite ep'_old in Hle by assumption. eapply (i_C _ _ _ _ HI g0 i); eauto; try lia.
    + rewrite ep'_new in Hle. rewrite Hn in He. inversion He; subst ei. simpl in Hle.
      destruct (Nat.eq_dec g g0) as [->|Hne].
      * eapply hb_po; eauto; try lia.
      * specialize (Hlt g g0 Hne). lia.
  - intros s i ei Hi He Hle. destruct (lt_Sn_cases _ Hi) as [Hi'| ->].
    + rewrite ep'_old in Hle by assumption.
      destruct (i_L _ _ _ _ HI s i ei Hi' He Hle) as [k [g' [Hk' [Hke Hor]]]].
      exists k, g'. split; [lia|]. auto.
    + rewrite ep'_new in Hle. rewrite Hn in He. inversion He; subst ei. simpl in Hle.
      specialize (HltL s g). lia.
  - intros o0 w HW. destruct (i_W _ _ _ _ HI o0 w HW) as [H1 [H2 H3]].
    split; [lia|]. split; [exact H2|]. rewrite ep'_old by assumption. exact H3.
  - intros o0 i g0 Hi He. destruct (lt_Sn_cases _ Hi) as [Hi'| ->].
    + eapply (i_Wall _ _ _ _ HI); eauto.
    + rewrite Hn in He. discriminate.
  - intros o0 r Hin. unfold upd in Hin. destruct (o0 =? o) eqn:Eo.
    + apply Nat.eqb_eq in Eo. subst o0. destruct Hin as [<-|Hin].
      * simpl. split; [lia|]. split; [exact Hn|]. now rewrite ep'_new.
      * destruct (i_R _ _ _ _ HI o r Hin) as [H1 [H2 H3]].
        split; [lia|]. split; [exact H2|]. rewrite ep'_old by assumption. exact H3.
    + destruct (i_R _ _ _ _ HI o0 r Hin) as [H1 [H2 H3]].
      split; [lia|]. split; [exact H2|]. rewrite ep'_old by assumption. exact H3.
  - intros o0 i g0 Hi He. destruct (lt_Sn_cases _ Hi) as [Hi'| ->].
    + destruct (i_Rall _ _ _ _ HI o0 i g0 Hi' He) as [r [Hin Hidx]].
      exists r. split; [|exact Hidx]. unfold upd. destruct (o0 =? o) eqn:Eo; [|exact Hin].
      apply Nat.eqb_eq in Eo. subst o0. now right.
    + rewrite Hn in He. inversion He; subst g0 o0.
      exists {| st_idx := n; st_g := g; st_c := C st g g |}. split; [|reflexivity].
      rewrite upd_same. now left.
  - intros i j Hij Hj Hc. destruct (lt_Sn_cases _ Hj) as [Hj'| ->].
    + eapply (i_drf _ _ _ _ HI); eauto.
    + destruct Hc as [ei [ej [o0 [Hei [Hej [Ha1 [Ha2 Hw]]]]]]].
      rewrite Hn in Hej. inversion Hej; subst ej. simpl in Ha2. apply Nat.eqb_eq in Ha2. subst o0.
      destruct Hw as [Hw|Hw]; [|discriminate].
      destruct ei; simpl in Hw; try discriminate. simpl in Ha1. apply Nat.eqb_eq in Ha1. subst o0.
      eapply write_before; eauto.
Qed.

Lemma step_wr g o st' :
  nth_error tr n = Some (EWr g o) -> rstep st n (EWr g o) = Some st' ->
  Inv tr (S n) st' (ep' (C st g g)).
Proof.
  intros Hn Hs. simpl in Hs.
  destruct (wknown (C st g) (W st o)) eqn:Hk; [|discriminate].
  destruct (forallb (known (C st g)) (R st o)) eqn:Hkr; [|discriminate].
  simpl in Hs. inversion Hs; subst st'; clear Hs.
  pose proof (i_own _ _ _ _ HI) as Hown.
  pose proof (i_lt _ _ _ _ HI) as Hlt.
  pose proof (i_ltL _ _ _ _ HI) as HltL.
  constructor; simpl.
  - intros i ei Hi He. destruct (lt_Sn_cases _ Hi) as [Hi'| ->].
    + rewrite ep'_old by assumption. eapply (i_ep _ _ _ _ HI); eauto.
    + rewrite ep'_new. rewrite Hn in He. inversion He; subst ei. simpl. specialize (Hown g). lia.
  - exact Hown.
  - exact Hlt.
  - exact HltL.
  - intros g0 i ei Hi He Hle j ej Hj Hej Hg0. destruct (lt_Sn_cases _ Hi) as [Hi'| ->].
    + rewrite ep'_old in Hle by assumption. eapply (i_C _ _ _ _ HI g0 i); eauto; try lia.
    + rewrite ep'_new in Hle. rewrite Hn in He. inversion He; subst ei. simpl in Hle.
      destruct (Nat.eq_dec g g0) as [->|Hne].
      * eapply hb_po; eauto; try lia.
      * specialize (Hlt g g0 Hne). lia.
  - intros s i ei Hi He Hle. destruct (lt_Sn_cases _ Hi) as [Hi'| ->].
    + rewrite ep'_old in Hle by assumption.
      destruct (i_L _ _ _ _ HI s i ei Hi' He Hle) as [k [g' [Hk' [Hke Hor]]]].
      exists k, g'. split; [lia|]. auto.
    + rewrite ep'_new in Hle. rewrite Hn in He. inversion He; subst ei. simpl in Hle.
      specialize (HltL s g). lia.
  - intros o0 w HW. unfold upd in HW. destruct (o0 =? o) eqn:Eo.
    + apply Nat.eqb_eq in Eo. subst o0. inversion HW; subst w. simpl.
      split; [lia|]. split; [exact Hn|]. now rewrite ep'_new.
    + destruct (i_W _ _ _ _ HI o0 w HW) as [H1 [H2 H3]].
      split; [lia|]. split; [exact H2|]. rewrite ep'_old by assumption. exact H3.
  - intros o0 i g0 Hi He. unfold upd. destruct (o0 =? o) eqn:Eo.
    + apply Nat.eqb_eq in Eo. subst o0.
      exists {| st_idx := n; st_g := g; st_c := C st g g |}. split; [reflexivity|]. simpl.
      destruct (lt_Sn_cases _ Hi) as [Hi'| ->]; [|now left].
      right. eapply write_before; eauto.
    + destruct (lt_Sn_cases _ Hi) as [Hi'| ->].
      * eapply (i_Wall _ _ _ _ HI); eauto.
      * rewrite Hn in He. inversion He; subst. rewrite Nat.eqb_refl in Eo. discriminate.
  - intros o0 r Hin. destruct (i_R _ _ _ _ HI o0 r Hin) as [H1 [H2 H3]].
    split; [lia|]. split; [exact H2|]. rewrite ep'_old by assumption. exact H3.
  - intros o0 i g0 Hi He. destruct (lt_Sn_cases _ Hi) as [Hi'| ->].
    + eapply (i_Rall _ _ _ _ HI); eauto.
    + rewrite Hn in He. discriminate.
  - intros i j Hij Hj Hc. destruct (lt_Sn_cases _ Hj) as [Hj'| ->].
    + eapply (i_drf _ _ _ _ HI); eauto.
    + destruct Hc as [ei [ej [o0 [Hei [Hej [Ha1 [Ha2 Hw]]]]]]].
      rewrite Hn in Hej. inversion Hej; subst ej. simpl in Ha2. apply Nat.eqb_eq in Ha2. subst o0.
      destruct ei; simpl in Ha1; try discriminate; apply Nat.eqb_eq in Ha1; subst o0.
      * eapply read_before; eauto.
      * eapply write_before; eauto.
Qed.

(* the parts of the invariant that only talk about W, R and earlier positions are unchanged by a
   synchronisation event *)
Lemma sync_frame e st' c :
  nth_error tr n = Some e -> (forall o, accesses_obj e o = false) ->
  W st' = W st -> R st' = R st ->
  (forall o w, W st' o = Some w ->
     st_idx w < S n /\ nth_error tr (st_idx w) = Some (EWr (st_g w) o) /\ st_c w = ep' c (st_idx w)) /\
  (forall o i g, i < S n -> nth_error tr i = Some (EWr g o) ->
     exists w, W st' o = Some w /\ (i = st_idx w \/ hb tr i (st_idx w))) /\
  (forall o r, In r (R st' o) ->
     st_idx r < S n /\ nth_error tr (st_idx r) = Some (ERd (st_g r) o) /\ st_c r = ep' c (st_idx r)) /\
  (forall o i g, i < S n -> nth_error tr i = Some (ERd g o) -> exists r, In r (R st' o) /\ st_idx r = i) /\
  (forall i j, i < j -> j < S n -> conflict tr i j -> hb tr i j).
Proof.
  intros Hn Hna HW HR. rewrite HW, HR. repeat split.
  - destruct (i_W _ _ _ _ HI o w H) as [H1 _]. lia.
  - now destruct (i_W _ _ _ _ HI o w H) as [_ [H2 _]].
  - destruct (i_W _ _ _ _ HI o w H) as [H1 [_ H3]]. rewrite ep'_old by assumption. exact H3.
  - intros o i g Hi He. destruct (lt_Sn_cases _ Hi) as [Hi'| ->].
    + eapply (i_Wall _ _ _ _ HI); eauto.
    + rewrite Hn in He. inversion He; subst e. specialize (Hna o). simpl in Hna.
      rewrite Nat.eqb_refl in Hna. discriminate.
  - destruct (i_R _ _ _ _ HI o r H) as [H1 _]. lia.
  - now destruct (i_R _ _ _ _ HI o r H) as [_ [H2 _]].
  - destruct (i_R _ _ _ _ HI o r H) as [H1 [_ H3]]. rewrite ep'_old by assumption. exact H3.
  - intros o i g Hi He. destruct (lt_Sn_cases _ Hi) as [Hi'| ->].
    + eapply (i_Rall _ _ _ _ HI); eauto.
    + rewrite Hn in He. inversion He; subst e. specialize (Hna o). simpl in Hna.
      rewrite Nat.eqb_refl in Hna. discriminate.
  - intros i j Hij Hj Hc. destruct (lt_Sn_cases _ Hj) as [Hj'| ->].
    + eapply (i_drf _ _ _ _ HI); eauto.
    + destruct Hc as [ei [ej [o0 [Hei [Hej [Ha1 [Ha2 Hw]]]]]]].
      rewrite Hn in Hej. inversion Hej; subst ej. rewrite Hna in Ha2. discriminate.
Qed.

Lemma step_go g c st' :
  nth_error tr n = Some (EGo g c) -> rstep st n (EGo g c) = Some st' ->
  Inv tr (S n) st' (ep' (C st g g)).
Proof.
  intros Hn Hs. simpl in Hs. destruct (g =? c) eqn:Egc; [discriminate|].
  apply Nat.eqb_neq in Egc. inversion Hs; subst st'; clear Hs.
  pose proof (i_own _ _ _ _ HI) as Hown.
  pose proof (i_lt _ _ _ _ HI) as Hlt.
  pose proof (i_ltL _ _ _ _ HI) as HltL.
  set (C' := upd (upd (C st) c (vjoin (C st c) (C st g))) g (vinc (C st g) g)).
  assert (Cg : C' g = vinc (C st g) g) by (unfold C'; apply upd_same).
  assert (Cc : C' c = vjoin (C st c) (C st g)).
  { unfold C'. rewrite upd_other by congruence. apply upd_same. }
  assert (Co : forall x, x <> g -> x <> c -> C' x = C st x).
  { intros. unfold C'. rewrite !upd_other by assumption. reflexivity. }
  assert (Cmono : forall x y, C st x y <= C' x y).
  { intros x y. destruct (Nat.eq_dec x g) as [->|Hxg].
    - rewrite Cg. apply vinc_ge.
    - destruct (Nat.eq_dec x c) as [->|Hxc].
      + rewrite Cc. unfold vjoin. lia.
      + rewrite Co by assumption. lia. }
  destruct (sync_frame (EGo g c) {| C := C'; L := L st; W := W st; R := R st |} (C st g g) Hn
              (fun _ => eq_refl) eq_refl eq_refl) as [F1 [F2 [F3 [F4 F5]]]].
  constructor; simpl; try assumption.
  - intros i ei Hi He. destruct (lt_Sn_cases _ Hi) as [Hi'| ->].
    + rewrite ep'_old by assumption.
      pose proof (i_ep _ _ _ _ HI i ei Hi' He). specialize (Cmono (gof ei) (gof ei)). lia.
    + rewrite ep'_new. rewrite Hn in He. inversion He; subst ei. simpl.
      rewrite Cg, vinc_same. specialize (Hown g). lia.
  - intros x. specialize (Cmono x x). specialize (Hown x). lia.
  - intros x y Hxy. (* C' y x < C' x x *)
    destruct (Nat.eq_dec y g) as [->|Hyg].
    + rewrite Cg, vinc_other by congruence.
      specialize (Hlt x g Hxy). specialize (Cmono x x). lia.
    + destruct (Nat.eq_dec y c) as [->|Hyc].
      * rewrite Cc. unfold vjoin. destruct (Nat.eq_dec x g) as [->|Hxg].
        -- rewrite Cg, vinc_same. specialize (Hlt g c Hxy). lia.
        -- pose proof (Hlt x c Hxy). pose proof (Hlt x g Hxg). specialize (Cmono x x). lia.
      * rewrite (Co y) by assumption. specialize (Hlt x y Hxy). specialize (Cmono x x). lia.
  - intros s x. specialize (HltL s x). specialize (Cmono x x). lia.
  - intros g0 i ei Hi He Hle j ej Hj Hej Hg0.
    destruct (Nat.eq_dec g0 g) as [->|Hg0g].
    + (* the spawning goroutine itself *)
      destruct (Nat.eq_dec (gof ei) g) as [Heg|Heg].
      * eapply hb_po; eauto; try lia; try congruence.
      * destruct (lt_Sn_cases _ Hi) as [Hi'| ->].
        -- rewrite ep'_old in Hle by assumption. rewrite Cg, vinc_other in Hle by assumption.
           eapply (i_C _ _ _ _ HI g i); eauto; try lia.
        -- rewrite Hn in He. inversion He; subst ei. simpl in Heg. congruence.
    + destruct (Nat.eq_dec g0 c) as [->|Hg0c].
      * (* the new goroutine *)
        destruct (lt_Sn_cases _ Hi) as [Hi'| ->].
        -- rewrite ep'_old in Hle by assumption. rewrite Cc in Hle. unfold vjoin in Hle.
           destruct (Nat.le_gt_cases (ep i) (C st c (gof ei))) as [Hc|Hc].
           ++ eapply (i_C _ _ _ _ HI c i); eauto; try lia.
           ++ assert (Hg : ep i <= C st g (gof ei)) by lia.
              eapply hb_trans.
              ** eapply (i_C _ _ _ _ HI g i ei Hi' He Hg n (EGo g c)); eauto.
              ** eapply hb_go; eauto.
        -- eapply hb_go; eauto.
      * rewrite (Co g0) in Hle by assumption.
        destruct (lt_Sn_cases _ Hi) as [Hi'| ->].
        -- rewrite ep'_old in Hle by assumption. eapply (i_C _ _ _ _ HI g0 i); eauto; try lia.
        -- rewrite ep'_new in Hle. rewrite Hn in He. inversion He; subst ei. simpl in Hle.
           assert (g <> g0) by congruence. specialize (Hlt g g0 H). lia.
  - intros s i ei Hi He Hle. destruct (lt_Sn_cases _ Hi) as [Hi'| ->].
    + rewrite ep'_old in Hle by assumption.
      destruct (i_L _ _ _ _ HI s i ei Hi' He Hle) as [k [g' [Hk' [Hke Hor]]]].
      exists k, g'. split; [lia|]. auto.
    + rewrite ep'_new in Hle. rewrite Hn in He. inversion He; subst ei. simpl in Hle.
      specialize (HltL s g). lia.
Qed.

Lemma step_rel g s st' :
  nth_error tr n = Some (ERel g s) -> rstep st n (ERel g s) = Some st' ->
  Inv tr (S n) st' (ep' (C st g g)).
Proof.
  intros Hn Hs. simpl in Hs. inversion Hs; subst st'; clear Hs.
  pose proof (i_own _ _ _ _ HI) as Hown.
  pose proof (i_lt _ _ _ _ HI) as Hlt.
  pose proof (i_ltL _ _ _ _ HI) as HltL.
  set (C' := upd (C st) g (vinc (C st g) g)).
  set (L' := upd (L st) s (vjoin (L st s) (C st g))).
  assert (Cg : C' g = vinc (C st g) g) by (unfold C'; apply upd_same).
  assert (Co : forall x, x <> g -> C' x = C st x) by (intros; unfold C'; now apply upd_other).
  assert (Cmono : forall x y, C st x y <= C' x y).
  { intros x y. destruct (Nat.eq_dec x g) as [->|Hxg].
    - rewrite Cg. apply vinc_ge.
    - rewrite Co by assumption. lia. }
  assert (Ls : L' s = vjoin (L st s) (C st g)) by (unfold L'; apply upd_same).
  assert (Lo : forall x, x <> s -> L' x = L st x) by (intros; unfold L'; now apply upd_other).
  destruct (sync_frame (ERel g s) {| C := C'; L := L'; W := W st; R := R st |} (C st g g) Hn
              (fun _ => eq_refl) eq_refl eq_refl) as [F1 [F2 [F3 [F4 F5]]]].
  constructor; simpl; try assumption.
  - intros i ei Hi He. destruct (lt_Sn_cases _ Hi) as [Hi'| ->].
    + rewrite ep'_old by assumption.
      pose proof (i_ep _ _ _ _ HI i ei Hi' He). specialize (Cmono (gof ei) (gof ei)). lia.
    + rewrite ep'_new. rewrite Hn in He. inversion He; subst ei. simpl.
      rewrite Cg, vinc_same. specialize (Hown g). lia.
  - intros x. specialize (Cmono x x). specialize (Hown x). lia.
  - intros x y Hxy. destruct (Nat.eq_dec y g) as [->|Hyg].
    + rewrite Cg, vinc_other by congruence. specialize (Hlt x g Hxy). specialize (Cmono x x). lia.
    + rewrite (Co y) by assumption. specialize (Hlt x y Hxy). specialize (Cmono x x). lia.
  - intros s0 x. destruct (Nat.eq_dec s0 s) as [->|Hs0].
    + rewrite Ls. unfold vjoin. destruct (Nat.eq_dec x g) as [->|Hxg].
      * rewrite Cg, vinc_same. specialize (HltL s g). lia.
      * pose proof (HltL s x). pose proof (Hlt x g Hxg). specialize (Cmono x x). lia.
    + rewrite Lo by assumption. specialize (HltL s0 x). specialize (Cmono x x). lia.
  - intros g0 i ei Hi He Hle j ej Hj Hej Hg0.
    destruct (Nat.eq_dec g0 g) as [->|Hg0g].
    + destruct (Nat.eq_dec (gof ei) g) as [Heg|Heg].
      * eapply hb_po; eauto; try lia; try congruence.
      * destruct (lt_Sn_cases _ Hi) as [Hi'| ->].
        -- rewrite ep'_old in Hle by assumption. rewrite Cg, vinc_other in Hle by assumption.
           eapply (i_C _ _ _ _ HI g i); eauto; try lia.
        -- rewrite Hn in He. inversion He; subst ei. simpl in Heg. congruence.
    + rewrite (Co g0) in Hle by assumption.
      destruct (lt_Sn_cases _ Hi) as [Hi'| ->].
      * rewrite ep'_old in Hle by assumption. eapply (i_C _ _ _ _ HI g0 i); eauto; try lia.
      * rewrite ep'_new in Hle. rewrite Hn in He. inversion He; subst ei. simpl in Hle.
        assert (g <> g0) by congruence. specialize (Hlt g g0 H). lia.
  - intros s0 i ei Hi He Hle. destruct (Nat.eq_dec s0 s) as [->|Hs0].
    + rewrite Ls in Hle. unfold vjoin in Hle.
      destruct (lt_Sn_cases _ Hi) as [Hi'| ->].
      * rewrite ep'_old in Hle by assumption.
        destruct (Nat.le_gt_cases (ep i) (L st s (gof ei))) as [Hc|Hc].
        -- destruct (i_L _ _ _ _ HI s i ei Hi' He Hc) as [k [g' [Hk' [Hke Hor]]]].
           exists k, g'. split; [lia|]. auto.
        -- assert (Hg : ep i <= C st g (gof ei)) by lia.
           exists n, g. split; [lia|]. split; [exact Hn|]. right.
           eapply (i_C _ _ _ _ HI g i ei Hi' He Hg n (ERel g s)); eauto.
      * exists n, g. split; [lia|]. split; [exact Hn|]. now left.
    + rewrite Lo in Hle by assumption.
      destruct (lt_Sn_cases _ Hi) as [Hi'| ->].
      * rewrite ep'_old in Hle by assumption.
        destruct (i_L _ _ _ _ HI s0 i ei Hi' He Hle) as [k [g' [Hk' [Hke Hor]]]].
        exists k, g'. split; [lia|]. auto.
      * rewrite ep'_new in Hle. rewrite Hn in He. inversion He; subst ei. simpl in Hle.
        specialize (HltL s0 g). lia.
Qed.

Lemma step_acq g s st' :
  nth_error tr n = Some (EAcq g s) -> rstep st n (EAcq g s) = Some st' ->
  Inv tr (S n) st' (ep' (C st g g)).
Proof.
  intros Hn Hs. simpl in Hs. inversion Hs; subst st'; clear Hs.
  pose proof (i_own _ _ _ _ HI) as Hown.
  pose proof (i_lt _ _ _ _ HI) as Hlt.
  pose proof (i_ltL _ _ _ _ HI) as HltL.
  set (C' := upd (C st) g (vjoin (C st g) (L st s))).
  assert (Cg : C' g = vjoin (C st g) (L st s)) by (unfold C'; apply upd_same).
  assert (Co : forall x, x <> g -> C' x = C st x) by (intros; unfold C'; now apply upd_other).
  assert (Cmono : forall x y, C st x y <= C' x y).
  { intros x y. destruct (Nat.eq_dec x g) as [->|Hxg].
    - rewrite Cg. unfold vjoin. lia.
    - rewrite Co by assumption. lia. }
  assert (Cgg : C' g g = C st g g).
  { rewrite Cg. unfold vjoin. specialize (HltL s g). lia. }
  destruct (sync_frame (EAcq g s) {| C := C'; L := L st; W := W st; R := R st |} (C st g g) Hn
              (fun _ => eq_refl) eq_refl eq_refl) as [F1 [F2 [F3 [F4 F5]]]].
  constructor; simpl; try assumption.
  - intros i ei Hi He. destruct (lt_Sn_cases _ Hi) as [Hi'| ->].
    + rewrite ep'_old by assumption.
      pose proof (i_ep _ _ _ _ HI i ei Hi' He). specialize (Cmono (gof ei) (gof ei)). lia.
    + rewrite ep'_new. rewrite Hn in He. inversion He; subst ei. simpl.
      rewrite Cgg. specialize (Hown g). lia.
  - intros x. specialize (Cmono x x). specialize (Hown x). lia.
  - intros x y Hxy. destruct (Nat.eq_dec y g) as [->|Hyg].
    + rewrite Cg. unfold vjoin. rewrite (Co x) by congruence.
      pose proof (Hlt x g Hxy). pose proof (HltL s x). lia.
    + rewrite (Co y) by assumption. specialize (Hlt x y Hxy). specialize (Cmono x x). lia.
  - intros s0 x. specialize (HltL s0 x). specialize (Cmono x x). lia.
  - intros g0 i ei Hi He Hle j ej Hj Hej Hg0.
    destruct (Nat.eq_dec g0 g) as [->|Hg0g].
    + destruct (lt_Sn_cases _ Hi) as [Hi'| ->].
      * rewrite ep'_old in Hle by assumption. rewrite Cg in Hle. unfold vjoin in Hle.
        destruct (Nat.le_gt_cases (ep i) (C st g (gof ei))) as [Hc|Hc].
        -- eapply (i_C _ _ _ _ HI g i); eauto; try lia.
        -- assert (HL : ep i <= L st s (gof ei)) by lia.
           destruct (i_L _ _ _ _ HI s i ei Hi' He HL) as [k [g' [Hk' [Hke Hor]]]].
           eapply hb_or_eq_trans; [exact Hor|].
           eapply hb_trans.
           ++ eapply hb_sync; [|exact Hke|exact Hn]. lia.
           ++ eapply hb_po; [|exact Hn|exact Hej|]. lia. simpl. congruence.
      * eapply hb_po; [|exact Hn|exact Hej|]. lia. simpl. congruence.
    + rewrite (Co g0) in Hle by assumption.
      destruct (lt_Sn_cases _ Hi) as [Hi'| ->].
      * rewrite ep'_old in Hle by assumption. eapply (i_C _ _ _ _ HI g0 i); eauto; try lia.
      * rewrite ep'_new in Hle. rewrite Hn in He. inversion He; subst ei. simpl in Hle.
        assert (g <> g0) by congruence. specialize (Hlt g g0 H). lia.
  - intros s0 i ei Hi He Hle. destruct (lt_Sn_cases _ Hi) as [Hi'| ->].
    + rewrite ep'_old in Hle by assumption.
      destruct (i_L _ _ _ _ HI s0 i ei Hi' He Hle) as [k [g' [Hk' [Hke Hor]]]].
      exists k, g'. split; [lia|]. auto.
    + rewrite ep'_new in Hle. rewrite Hn in He. inversion He; subst ei. simpl in Hle.
      specialize (HltL s0 g). lia.
Qed.

Lemma step_inv e st' :
  nth_error tr n = Some e -> rstep st n e = Some st' -> exists ep2, Inv tr (S n) st' ep2.
Proof.
  intros Hn Hs. destruct e.
  - eexists. eapply step_rd; eauto.
  - eexists. eapply step_wr; eauto.
  - eexists. eapply step_go; eauto.
  - eexists. eapply step_rel; eauto.
  - eexists. eapply step_acq; eauto.
Qed.

End Step.

Lemma rrun_inv tr : forall rest pre st ep st',
  tr = pre ++ rest -> Inv tr (length pre) st ep -> rrun st (length pre) rest = Some st' ->
  exists ep', Inv tr (length tr) st' ep'.
Proof.
  induction rest as [|e rest IH]; intros pre st ep st' Htr HI Hr.
  - simpl in Hr. inversion Hr; subst st'. rewrite app_nil_r in Htr. subst pre. eauto.
  - simpl in Hr. destruct (rstep st (length pre) e) as [st1|] eqn:Hs; [|discriminate].
    assert (Hn : nth_error tr (length pre) = Some e).
    { subst tr. rewrite nth_error_app2 by lia. now rewrite Nat.sub_diag. }
    destruct (step_inv tr (length pre) st ep HI e st1 Hn Hs) as [ep2 HI2].
    apply (IH (pre ++ [e]) st1 ep2 st').
    + subst tr. now rewrite <- app_assoc.
    + rewrite app_length. simpl. rewrite Nat.add_1_r. exact HI2.
    + rewrite app_length. simpl. rewrite Nat.add_1_r. exact Hr.
Qed.

(* two conflicting accesses that are not ordered by happens-before => the checker answers false *)
Theorem race_free_sound tr : race_free tr = true -> data_race_free tr.
Proof.
  unfold race_free. destruct (rrun rinit 0 tr) as [st'|] eqn:Hr; [|discriminate]. intros _.
  destruct (rrun_inv tr tr [] rinit (fun _ => 0) st' eq_refl (inv_init tr) Hr) as [ep' HI].
  intros i j Hij Hc. eapply (i_drf _ _ _ _ HI); eauto.
  destruct Hc as [ei [ej [o [_ [Hej _]]]]].
  apply nth_error_Some. congruence.
Qed.

Corollary unordered_conflict_rejected tr i j :
  i < j -> conflict tr i j -> ~ hb tr i j -> race_free tr = false.
Proof.
  intros Hij Hc Hn. destruct (race_free tr) eqn:E; [|reflexivity].
  exfalso. apply Hn. now apply (race_free_sound tr E).
Qed.
