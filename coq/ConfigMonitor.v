(* ConfigMonitor.v -- the C19 property evaluated on (inputs, observed Config) ONLY.  It does not mention the
   model (Config.v) nor the generated tables: settings are identified by the Go field name, the defaults are
   the documented ones (usage text of newrelic-daemon, agent/scripts/newrelic.cfg.template).  Definitions only. *)
From Coq Require Import NArith ZArith List Bool.
From Verif Require Import ConfigBase.
Import ListNotations.
Open Scope N_scope.

(* what the case generator intended: (setting, value) in the order given; later entries override earlier *)
Definition intended := list (bytes * value).

Fixpoint last_of (name : bytes) (l : intended) : option value :=
  match l with
  | [] => None
  | (n, v) :: r =>
    match last_of name r with
    | Some w => Some w
    | None => if bytes_eqb n name then Some v else None
    end
  end.

Definition n_BindPort : bytes := [66;105;110;100;80;111;114;116].
Definition n_BindAddr : bytes := [66;105;110;100;65;100;100;114].
Definition n_LogLevel : bytes := [76;111;103;76;101;118;101;108].
Definition n_DetectAWS : bytes := [68;101;116;101;99;116;65;87;83].
Definition n_DetectAzure : bytes := [68;101;116;101;99;116;65;122;117;114;101].
Definition n_DetectGCP : bytes := [68;101;116;101;99;116;71;67;80].
Definition n_DetectPCF : bytes := [68;101;116;101;99;116;80;67;70].
Definition n_DetectDocker : bytes := [68;101;116;101;99;116;68;111;99;107;101;114].
Definition n_DetectKubernetes : bytes := [68;101;116;101;99;116;75;117;98;101;114;110;101;116;101;115].
Definition n_MaxFiles : bytes := [77;97;120;70;105;108;101;115].
Definition n_AppTimeout : bytes := [65;112;112;84;105;109;101;111;117;116].
Definition n_WaitForPort : bytes := [87;97;105;116;70;111;114;80;111;114;116].

(* documented platform default of the listen address on Linux: the abstract socket @newrelic *)
Definition doc_listen_default : bytes := [64;110;101;119;114;101;108;105;99].

(* documented defaults that are not the zero value: loglevel info (3), utilization.detect_* true,
   rlimit_files 2048, app_timeout 10m, --wait-for-port 3s.  `zero` is the zero value of the setting's type. *)
Definition doc_default (name : bytes) (zero : value) : value :=
  if bytes_eqb name n_LogLevel then VInt 3
  else if bytes_eqb name n_DetectAWS || bytes_eqb name n_DetectAzure || bytes_eqb name n_DetectGCP
       || bytes_eqb name n_DetectPCF || bytes_eqb name n_DetectDocker || bytes_eqb name n_DetectKubernetes
  then VBool true
  else if bytes_eqb name n_MaxFiles then VInt 2048
  else if bytes_eqb name n_AppTimeout then VInt 600000000000
  else if bytes_eqb name n_WaitForPort then VInt 3000000000
  else zero.

Definition zero_like (v : value) : value :=
  match v with VStr _ => VStr [] | VBool _ => VBool false | VInt _ => VInt 0 | VUnknown => VUnknown end.

(* command line over file over default *)
Definition expected (cmd file : intended) (name : bytes) (zero : value) : value :=
  match last_of name cmd with
  | Some v => v
  | None => match last_of name file with Some v => v | None => doc_default name zero end
  end.

Definition vstr (v : value) : bytes := match v with VStr s => s | _ => [] end.
Definition nonempty (s : bytes) : bool := match s with [] => false | _ => true end.

(* the listen address: address, else port, else the platform default *)
Definition expected_listen (cmd file : intended) : bytes :=
  let a := vstr (expected cmd file n_BindAddr (VStr [])) in
  if nonempty a then a
  else let p := vstr (expected cmd file n_BindPort (VStr [])) in
       if nonempty p then p else doc_listen_default.

Definition field_ok (cmd file : intended) (nv : bytes * value) : bool :=
  let '(n, v) := nv in
  if bytes_eqb n n_BindAddr then value_eqb v (VStr (expected_listen cmd file))
  else value_eqb v (expected cmd file n (zero_like v)).

(* the names of the observed fields that do NOT have the value the property prescribes *)
Definition bad_fields (cmd file : intended) (obs : list (bytes * value)) : list bytes :=
  map fst (filter (fun nv => negb (field_ok cmd file nv)) obs).

Definition monitor (cmd file : intended) (obs : list (bytes * value)) : bool :=
  forallb (field_ok cmd file) obs.
