(* ProcInv5.v -- provenance of tagged data in the processor model (C04).
   A ghost origin list (a function of the history, not of the state) records for every accepted tag the
   run id it was submitted under and the app harvest that run id denoted at that moment.  In every
   reachable state every tag held in app harvest a has origin (ah_run a), every tag in an outstanding
   request q has origin (rq_run q); hence every request ever emitted carries only tags submitted under its
   run id while that run was held.  If the collector never issues the same run id twice, the request
   moreover carries the identification (AppKey) of the application the data was submitted to. *)
From Coq Require Import NArith ZArith List Bool Lia.
From Verif.Gen Require Limits_gen HarvestBits_gen.
From Verif Require Import Processor ProcInv ProcInv3 ProcInv4.
Import ListNotations.

(* ------------------------------------------------------------------ the origin of tags, as a function of the history *)
Definition origin_step (s : proc) (o : op) : list (N * N * nat) :=
  match o with
  | OTxn run x =>
      if p_quit s then []
      else match lookupN run (p_runs s) with
           | Some a => map (fun t => (t, run, a)) (txn_tags x)
           | None => []
           end
  | _ => []
  end.

Fixpoint origin_from (s : proc) (ops : list op) : list (N * N * nat) :=
  match ops with
  | [] => []
  | o :: r => origin_step s o ++ origin_from (fst (step s o)) r
  end.

(* the run ids the collector issues *)
Definition op_runs (o : op) : list N := match o with OConnReply _ (ConnOk r) => [cr_run r] | _ => [] end.
Definition conn_runs (ops : list op) : list N := concat (map op_runs ops).
Definition distinct_runs (ops : list op) : Prop := NoDup (conn_runs ops).

Definition key_of (s : proc) (a : nat) : N := a_key (get_obj s (ah_app (get_ah s a))).

(* identities of app harvests and application objects never change *)
Record stable (s s' : proc) : Prop := {
  sb_len : length (p_ahs s) <= length (p_ahs s');
  sb_ah : forall j, j < length (p_ahs s) -> ah_run (get_ah s' j) = ah_run (get_ah s j) /\ ah_app (get_ah s' j) = ah_app (get_ah s j);
  sb_olen : length (p_objs s) <= length (p_objs s');
  sb_key : forall i, i < length (p_objs s) -> a_key (get_obj s' i) = a_key (get_obj s i)
}.

Lemma stable_refl s : stable s s.
Proof. constructor; auto. Qed.
Lemma stable_trans a b c : stable a b -> stable b c -> stable a c.
Proof.
  intros A B. constructor.
  - pose proof (sb_len _ _ A). pose proof (sb_len _ _ B). lia.
  - intros j Hj. pose proof (sb_len _ _ A). destruct (sb_ah _ _ B j ltac:(lia)) as [E1 E2]. destruct (sb_ah _ _ A j Hj) as [E3 E4].
    split; congruence.
  - pose proof (sb_olen _ _ A). pose proof (sb_olen _ _ B). lia.
  - intros i Hi. pose proof (sb_olen _ _ A). rewrite (sb_key _ _ B) by lia. apply (sb_key _ _ A). exact Hi.
Qed.

Lemma stable_shape0 s s' : shape0 s s' -> stable s s'.
Proof.
  intros S. constructor.
  - rewrite (s0_len _ _ S). lia.
  - intros j _. split; [apply (s0_run _ _ S)|apply (s0_app _ _ S)].
  - apply S.
  - apply S.
Qed.

Lemma stable_connected s s' key r : connected_as s s' key r -> stable s s'.
Proof.
  intros (i & _ & Ea & _ & _ & _ & _ & Lo & Ko & _). constructor.
  - rewrite Ea, app_length. lia.
  - intros j Hj. rewrite (get_ah_app_l s s' _ j Ea Hj). split; reflexivity.
  - lia.
  - intros j _. apply Ko.
Qed.

Lemma stable_shape s s' : shape s s' -> stable s s'.
Proof. intros [S|(key & r & C)]; [apply stable_shape0; exact S|eapply stable_connected; exact C]. Qed.

Lemma run_from_stable ops : forall s, stable s (fst (run_from s ops)).
Proof.
  induction ops as [|o r IH]; intros s; cbn [run_from]; [apply stable_refl|].
  pose proof (step_shape s o) as Sh. destruct (step s o) as [s1 out1]. cbn [fst] in *.
  specialize (IH s1). destruct (run_from s1 r) as [s2 outs]. cbn [fst] in *.
  eapply stable_trans; [apply stable_shape; exact Sh|exact IH].
Qed.

Lemma key_of_stable s s' a :
  stable s s' -> a < length (p_ahs s) -> ah_app (get_ah s a) < length (p_objs s) -> key_of s' a = key_of s a.
Proof.
  intros S La Lo. unfold key_of. destruct (sb_ah _ _ S a La) as [_ E]. rewrite E. apply (sb_key _ _ S). exact Lo.
Qed.

Section Prov.
  (* strong: the collector never issues a run id twice; then origins are exact and owners can be tracked *)
  Variable strong : Prop.

  (* every tag of the request has an origin under the request's run id (and, in the strong case, the request
     carries the key of the application that origin belongs to) *)
  Definition out_ok (s : proc) (O : list (N * N * nat)) (q : request) : Prop :=
    forall t, In t (tags (rq_items q)) -> exists a', In (t, rq_run q, a') O /\ (strong -> rq_owner q = key_of s a').

  Record prov_inv (s : proc) (O : list (N * N * nat)) (I : list N) : Prop := {
    pv_uniq : strong -> forall a a', a < length (p_ahs s) -> a' < length (p_ahs s) ->
              ah_run (get_ah s a) = ah_run (get_ah s a') -> a = a';
    pv_issued : forall a, a < length (p_ahs s) -> In (ah_run (get_ah s a)) I;
    pv_valid : forall t r a, In (t, r, a) O -> a < length (p_ahs s) /\ ah_run (get_ah s a) = r;
    pv_held : forall a c t, a < length (p_ahs s) -> In t (tags (hb s a c)) ->
              exists a', In (t, ah_run (get_ah s a), a') O /\ (strong -> a' = a);
    pv_req : forall q, In q (p_reqs s) -> out_ok s O q
  }.

  Lemma out_ok_stable s s' O q :
    tab_inv s -> (forall t r a, In (t, r, a) O -> a < length (p_ahs s)) ->
    stable s s' -> out_ok s O q -> out_ok s' O q.
  Proof.
    intros T V S H t Ht. destruct (H t Ht) as (a' & Hin & K). exists a'. split; [exact Hin|].
    intros St. rewrite (K St). symmetry. pose proof (V _ _ _ Hin) as La.
    apply key_of_stable; [exact S|exact La|apply (ti_app s T); exact La].
  Qed.

  Lemma out_ok_mono s O O' q : out_ok s O q -> out_ok s (O ++ O') q.
  Proof. intros H t Ht. destruct (H t Ht) as (a' & Hin & K). exists a'. split; [apply in_or_app; left; exact Hin|exact K]. Qed.

  Lemma out_ok_nil s O q : rq_items q = [] -> out_ok s O q.
  Proof. intros E t Ht. rewrite E in Ht. destruct Ht. Qed.

  (* a request built from app harvest a *)
  Definition built_from (s : proc) (a : nat) (q : request) : Prop :=
    a < length (p_ahs s) /\ rq_run q = ah_run (get_ah s a) /\ rq_owner q = key_of s a /\
    forall t, In t (tags (rq_items q)) -> exists c, In t (tags (hb s a c)).

  Lemma emit_ok s O I a q : prov_inv s O I -> built_from s a q -> out_ok s O q.
  Proof.
    intros P (La & Er & Eo & Sub) t Ht. destruct (Sub t Ht) as [c Hc].
    destruct (pv_held s O I P a c t La Hc) as (a' & Hin & K). exists a'. rewrite Er. split; [exact Hin|].
    intros St. rewrite (K St). exact Eo.
  Qed.

  Lemma built_from_req s a e q :
    a < length (p_ahs s) -> req_from e (ah_h (get_ah s a)) q ->
    e_run e = ah_run (get_ah s a) -> e_owner e = key_of s a -> built_from s a q.
  Proof.
    intros La (c & _ & (Co & _ & _ & Cr) & _ & _ & Sub) Er Eo.
    split; [exact La|]. split; [congruence|]. split; [congruence|]. intros t Ht. exists c. apply Sub. exact Ht.
  Qed.

  (* the general preservation lemma: tags only move from a harvest to a request built from it, or from a
     failed request into the harvest its run id denotes *)
  Lemma prov_flow s s' O I :
    tab_inv s -> runs_valid s -> shape0 s s' ->
    (forall a c t, a < length (p_ahs s) -> In t (tags (hb s' a c)) ->
       In t (tags (hb s a c)) \/
       exists q, out_ok s O q /\ In t (tags (rq_items q)) /\ lookupN (rq_run q) (p_runs s) = Some a) ->
    (forall q, In q (p_reqs s') -> In q (p_reqs s) \/ rq_items q = [] \/ exists a, built_from s a q) ->
    prov_inv s O I -> prov_inv s' O I.
  Proof.
    intros T V S Hf Qf P. pose proof (stable_shape0 _ _ S) as St.
    assert (Vo : forall t r a, In (t, r, a) O -> a < length (p_ahs s)) by (intros t r a H; apply (pv_valid s O I P t r a H)).
    constructor.
    - intros Sg a a' La La' E. rewrite (s0_len _ _ S) in La, La'. rewrite !(s0_run _ _ S) in E. apply (pv_uniq s O I P Sg); assumption.
    - intros a La. rewrite (s0_len _ _ S) in La. rewrite (s0_run _ _ S). apply (pv_issued s O I P). exact La.
    - intros t r a H. destruct (pv_valid s O I P t r a H) as [La Er]. rewrite (s0_len _ _ S), (s0_run _ _ S). split; assumption.
    - intros a c t La Ht. rewrite (s0_len _ _ S) in La. rewrite (s0_run _ _ S).
      destruct (Hf a c t La Ht) as [H|(q & Hq & Htq & L)].
      + apply (pv_held s O I P a c t La H).
      + destruct (Hq t Htq) as (a' & Hin & _). exists a'.
        rewrite (ti_run s T _ _ L). split; [exact Hin|]. intros Sg.
        destruct (pv_valid s O I P _ _ _ Hin) as [La' Er]. apply (pv_uniq s O I P Sg); try assumption.
        rewrite Er. symmetry. apply (ti_run s T). exact L.
    - intros q Hq. destruct (Qf q Hq) as [H|[H|(a & B)]].
      + eapply out_ok_stable; try eassumption. apply (pv_req s O I P). exact H.
      + apply out_ok_nil. exact H.
      + eapply out_ok_stable; try eassumption. eapply emit_ok; eassumption.
  Qed.

  Lemma prov_issued_mono s O I X : prov_inv s O I -> prov_inv s O (I ++ X).
  Proof. intros [U Is V H R]. constructor; try assumption. intros a La. apply in_or_app. left. apply Is. exact La. Qed.

  (* ---------------------------------------------------------------- transactions *)
  Lemma prov_txn s run x O I :
    tab_inv s -> runs_valid s -> p_quit s = false -> prov_inv s O I ->
    prov_inv (fst (txn_data s run x)) (O ++ origin_step s (OTxn run x)) I.
  Proof.
    intros T V Q P. cbn [origin_step]. rewrite Q.
    pose proof (txn_data_flow s run x) as F. pose proof (shape0_txn s run x) as S.
    destruct (lookupN run (p_runs s)) as [a|] eqn:L; [|rewrite F; cbn [fst]; rewrite app_nil_r; exact P].
    cbn zeta in F. destruct F as (_ & (hnew & Ea & _ & Hb) & Er & _).
    set (s' := fst (txn_data s run x)) in *. pose proof (stable_shape0 _ _ S) as St.
    pose proof (V _ _ L) as La. destruct (put_view s s' a hnew Ea) as (_ & _ & _ & Vo & Vn). specialize (Vn La).
    assert (Vold : forall t r a0, In (t, r, a0) O -> a0 < length (p_ahs s)) by (intros t r a0 H; apply (pv_valid s O I P t r a0 H)).
    constructor.
    - intros Sg b b' Lb Lb' E. rewrite (s0_len _ _ S) in Lb, Lb'. rewrite !(s0_run _ _ S) in E. apply (pv_uniq s O I P Sg); assumption.
    - intros b Lb. rewrite (s0_len _ _ S) in Lb. rewrite (s0_run _ _ S). apply (pv_issued s O I P). exact Lb.
    - intros t r b H. rewrite (s0_len _ _ S), (s0_run _ _ S). apply in_app_or in H. destruct H as [H|H].
      + apply (pv_valid s O I P t r b H).
      + apply in_map_iff in H. destruct H as (t' & E & _). inversion E; subst. split; [exact La|apply (ti_run s T); exact L].
    - intros b c t Lb Ht. rewrite (s0_len _ _ S) in Lb. rewrite (s0_run _ _ S).
      assert (Old : In t (tags (hb s b c)) -> exists a', In (t, ah_run (get_ah s b), a') (O ++ map (fun t0 => (t0, run, a)) (txn_tags x)) /\ (strong -> a' = b)).
      { intros H. destruct (pv_held s O I P b c t Lb H) as (a' & Hin & K). exists a'. split; [apply in_or_app; left; exact Hin|exact K]. }
      destruct (Nat.eq_dec b a) as [->|N].
      + unfold hb in Ht. rewrite Vn in Ht. destruct (Hb c t Ht) as [H|H]; [apply Old; exact H|].
        exists a. split; [|reflexivity]. apply in_or_app. right. rewrite (ti_run s T _ _ L).
        apply in_map_iff. exists t. split; [reflexivity|]. eapply txn_cat_tags_sub. exact H.
      + unfold hb in Ht. rewrite (Vo b N) in Ht. apply Old. exact Ht.
    - intros q Hq. rewrite Er in Hq. apply out_ok_mono. eapply out_ok_stable; try eassumption. apply (pv_req s O I P). exact Hq.
  Qed.

  (* ---------------------------------------------------------------- a new run *)
  Lemma prov_connected s s' key r O I :
    connected_as s s' key r -> (strong -> ~ In (cr_run r) I) -> prov_inv s O I -> prov_inv s' O (I ++ [cr_run r]).
  Proof.
    intros C Fr P. pose proof (stable_connected _ _ _ _ C) as St.
    destruct C as (i & _ & Ea & _ & Erq & _ & _ & Lo & Ko & _).
    assert (Ln : length (p_ahs s') = S (length (p_ahs s))) by (rewrite Ea, app_length; cbn; lia).
    assert (Gl : forall j, j < length (p_ahs s) -> get_ah s' j = get_ah s j) by (intros j Hj; eapply get_ah_app_l; eassumption).
    pose proof (get_ah_app_r s s' _ Ea) as Gr.
    constructor.
    - intros Sg a a' La La' E. rewrite Ln in La, La'.
      destruct (Nat.eq_dec a (length (p_ahs s))) as [Ha|Ha]; destruct (Nat.eq_dec a' (length (p_ahs s))) as [Ha'|Ha'].
      + congruence.
      + exfalso. subst a. rewrite Gr, Gl in E by lia. cbn [ah_run] in E. apply (Fr Sg). rewrite E. apply (pv_issued s O I P). lia.
      + exfalso. subst a'. rewrite Gr, Gl in E by lia. cbn [ah_run] in E. apply (Fr Sg). rewrite <- E. apply (pv_issued s O I P). lia.
      + rewrite !Gl in E by lia. apply (pv_uniq s O I P Sg); try lia; exact E.
    - intros a La. rewrite Ln in La. apply in_or_app. destruct (Nat.eq_dec a (length (p_ahs s))) as [->|Ha].
      + right. rewrite Gr. left. reflexivity.
      + left. rewrite Gl by lia. apply (pv_issued s O I P). lia.
    - intros t r0 a H. destruct (pv_valid s O I P t r0 a H) as [La Er]. rewrite Ln, Gl by exact La. split; [lia|exact Er].
    - intros a c t La Ht. rewrite Ln in La. destruct (Nat.eq_dec a (length (p_ahs s))) as [->|Ha].
      + unfold hb in Ht. rewrite Gr in Ht. destruct Ht.
      + unfold hb in Ht. rewrite Gl in Ht by lia. rewrite Gl by lia. apply (pv_held s O I P a c t); [lia|exact Ht].
    - intros q Hq. rewrite Erq in Hq. intros t Ht. destruct (pv_req s O I P q Hq t Ht) as (a' & Hin & K). exists a'. split; [exact Hin|].
      intros Sg. rewrite (K Sg). destruct (pv_valid s O I P _ _ _ Hin) as [La' _].
      unfold key_of. rewrite Gl by exact La'. symmetry. apply Ko.
  Qed.

  (* ---------------------------------------------------------------- the other operations *)
  Definition outs_ok (s : proc) (O : list (N * N * nat)) (o : list out) : Prop :=
    forall q, In (OutReq q) o -> out_ok s O q.

  Lemma prov_same_data s s' O I :
    tab_inv s -> runs_valid s -> shape0 s s' -> p_ahs s' = p_ahs s ->
    (forall q, In q (p_reqs s') -> In q (p_reqs s) \/ rq_items q = []) ->
    prov_inv s O I -> prov_inv s' O I.
  Proof.
    intros T V S E R P. eapply prov_flow; try eassumption.
    - intros a c t _ Ht. left. rewrite (hb_ahs_eq s s' a c E) in Ht. exact Ht.
    - intros q Hq. destruct (R q Hq) as [H|H]; [left; exact H|right; left; exact H].
  Qed.

  Lemma prov_tick s a ty O I :
    tab_inv s -> runs_valid s -> a < length (p_ahs s) -> prov_inv s O I ->
    prov_inv (fst (harvest_by_type s a ty)) O I /\ outs_ok (fst (harvest_by_type s a ty)) O (snd (harvest_by_type s a ty)).
  Proof.
    intros T V La P. pose proof (harvest_by_type_flow s a ty) as F. pose proof (shape0_tick s a ty) as S.
    set (s' := fst (harvest_by_type s a ty)) in *. set (o := snd (harvest_by_type s a ty)) in *.
    destruct (tf_ahs _ _ _ _ F) as (hnew & Ea & Kr). destruct (tf_reqs _ _ _ _ F) as (qs & u & Eo & Rq & Fq & Fu & _).
    destruct (put_view s s' a hnew Ea) as (_ & _ & _ & Vo & Vn). specialize (Vn La).
    assert (B : forall q, In q qs -> built_from s a q).
    { intros q Hq. eapply built_from_req; [exact La|apply Fq; exact Hq|reflexivity|reflexivity]. }
    assert (Vold : forall t r a0, In (t, r, a0) O -> a0 < length (p_ahs s)) by (intros t r a0 H; apply (pv_valid s O I P t r a0 H)).
    split.
    - eapply prov_flow; try eassumption.
      + intros b c t Lb Ht. left. destruct (Nat.eq_dec b a) as [->|N].
        * unfold hb in Ht. rewrite Vn in Ht. destruct (Kr c) as [[E _]|[E _]]; rewrite E in Ht; [exact Ht|destruct Ht].
        * unfold hb in Ht. rewrite (Vo b N) in Ht. exact Ht.
      + intros q Hq. apply Rq in Hq. destruct Hq as [H|H]; [left; exact H|right]. apply in_app_or in H.
        destruct H as [H|H]; [right; exists a; apply B; exact H|left; apply (Fu q H)].
    - intros q Hq. subst o. rewrite Eo in Hq. apply in_map_iff in Hq. destruct Hq as (q' & E & Hq). inversion E; subst q'.
      apply in_app_or in Hq. destruct Hq as [H|H].
      + eapply out_ok_stable; [exact T|exact Vold|apply stable_shape0; exact S|]. eapply emit_ok; [exact P|apply B; exact H].
      + apply out_ok_nil. apply (Fu q H).
  Qed.

  Lemma outs_ok_handshake s O o : handshake_out o -> outs_ok s O o.
  Proof. intros H q Hq. apply out_ok_nil. apply (H q Hq). Qed.

  Lemma prov_error s q f O I :
    tab_inv s -> runs_valid s -> out_ok s O q -> prov_inv s O I ->
    prov_inv (fst (harvest_error s q f)) O I /\ outs_ok (fst (harvest_error s q f)) O (snd (harvest_error s q f)).
  Proof.
    intros T V Oq P. pose proof (harvest_error_flow s q f) as F. pose proof (shape0_error s q f) as S.
    destruct (lookupN (rq_run q) (p_runs s)) as [a|] eqn:L.
    - pose proof (V _ _ L) as La.
      destruct F as [(hnew & refused & given_up & Ea & Hm) Er _ _ _ _ _ _ _ _ Fo].
      set (s' := fst (harvest_error s q f)) in *.
      destruct (put_view s s' a hnew Ea) as (_ & _ & _ & Vo & Vn). specialize (Vn La).
      split.
      + eapply prov_flow; try eassumption.
        * intros b c t Lb Ht. destruct (Nat.eq_dec b a) as [->|N].
          -- unfold hb in Ht. rewrite Vn in Ht. destruct Hm as [(_ & M & _)|(_ & -> & _)]; [|left; exact Ht].
             destruct (merge_case_sub _ _ _ _ _ _ M c t Ht) as [H|[_ H]]; [left; exact H|right].
             exists q. split; [exact Oq|]. split; [exact H|exact L].
          -- left. unfold hb in Ht. rewrite (Vo b N) in Ht. exact Ht.
        * intros x Hx. left. rewrite Er in Hx. exact Hx.
      + intros x Hx. destruct (Fo _ Hx) as (q' & E & _ & I0 & _). inversion E; subst q'. apply out_ok_nil. exact I0.
    - rewrite F in S |- *. cbn [fst snd] in S |- *. split; [|intros x []].
      eapply prov_same_data; [exact T|exact V|exact S|reflexivity| |exact P]. intros x Hx. left. exact Hx.
  Qed.

  Lemma prov_group_done s gid O I :
    tab_inv s -> runs_valid s -> prov_inv s O I ->
    prov_inv (fst (group_done s gid)) O I /\ outs_ok (fst (group_done s gid)) O (snd (group_done s gid)).
  Proof.
    intros T V P. destruct (group_done_flow s gid) as (u & Eo & Rq & Fu & _ & Ea & _ & _).
    pose proof (shape0_group_done s gid) as S. split.
    - eapply prov_same_data; try eassumption. intros q Hq. apply Rq in Hq. destruct Hq as [H|H]; [left; exact H|right].
      destruct (Fu q H) as (g & _ & _ & _ & I0 & _). exact I0.
    - intros q Hq. rewrite Eo in Hq. apply in_map_iff in Hq. destruct Hq as (q' & E & Hq). inversion E; subst q'.
      apply out_ok_nil. destruct (Fu q Hq) as (g & _ & _ & _ & I0 & _). exact I0.
  Qed.

  Lemma outs_ok_stable s s' O o :
    tab_inv s -> (forall t r a, In (t, r, a) O -> a < length (p_ahs s)) -> stable s s' -> outs_ok s O o -> outs_ok s' O o.
  Proof. intros T V S H q Hq. eapply out_ok_stable; try eassumption. apply H. exact Hq. Qed.

  Lemma outs_ok_app s O a b : outs_ok s O a -> outs_ok s O b -> outs_ok s O (a ++ b).
  Proof. intros A B q Hq. apply in_app_or in Hq. destruct Hq; [apply A|apply B]; assumption. Qed.

  Lemma shape0_tab s s' : shape0 s s' -> tab_inv s -> tab_inv s'.
  Proof.
    intros S [R A K]. constructor.
    - intros r a L. rewrite (s0_run _ _ S). apply R. eapply shrunk_lookup; [apply S|exact L].
    - intros a La. rewrite (s0_len _ _ S) in La. rewrite (s0_app _ _ S). specialize (A a La). pose proof (s0_olen _ _ S). lia.
    - eapply shrunk_NoDup; [apply S|exact K].
  Qed.

  Lemma shape0_runs_valid s s' : shape0 s s' -> runs_valid s -> runs_valid s'.
  Proof. intros S V r a L. rewrite (s0_len _ _ S). apply (V r). eapply shrunk_lookup; [apply S|exact L]. Qed.

  Lemma prov_reply s n o O I :
    tab_inv s -> runs_valid s -> prov_inv s O I ->
    prov_inv (fst (reply s n o)) O I /\ outs_ok (fst (reply s n o)) O (snd (reply s n o)).
  Proof.
    intros T V P. unfold reply. destruct (nth_error (p_reqs s) n) as [q|] eqn:En; [|cbn [fst snd]; split; [exact P|intros x []]].
    pose proof (nth_error_In _ _ En) as Hq.
    set (s0 := add_usage (with_reqs s (remove_nth n (p_reqs s)))).
    assert (S0 : shape0 s s0) by (apply shape0_of_ahs_eq; try reflexivity; apply shrunk_refl).
    assert (T0 : tab_inv s0) by (eapply shape0_tab; eassumption).
    assert (V0 : runs_valid s0) by exact V.
    assert (Vold : forall t r a0, In (t, r, a0) O -> a0 < length (p_ahs s)) by (intros t r a0 H; apply (pv_valid s O I P t r a0 H)).
    assert (P0 : prov_inv s0 O I).
    { eapply (prov_same_data s s0); [exact T|exact V|exact S0|reflexivity| |exact P]. intros x Hx. left. eapply in_remove_nth. exact Hx. }
    assert (Oq : out_ok s0 O q).
    { eapply out_ok_stable; [exact T|exact Vold|apply stable_shape0; exact S0|apply (pv_req s O I P); exact Hq]. }
    assert (S1 : exists s1 o1, (match o with OOk => (ghost_ack s0 (tags (rq_items q)), []) | OFail f => harvest_error s0 q f end) = (s1, o1) /\
                 shape0 s0 s1 /\ prov_inv s1 O I /\ outs_ok s1 O o1).
    { destruct o as [|f].
      - eexists _, _. split; [reflexivity|].
        assert (Sa : shape0 s0 (ghost_ack s0 (tags (rq_items q)))) by (apply shape0_of_ahs_eq; try reflexivity; apply shrunk_refl).
        split; [exact Sa|]. split; [|intros x []].
        eapply (prov_same_data s0); [exact T0|exact V0|exact Sa|reflexivity| |exact P0]. intros x Hx. left. exact Hx.
      - destruct (prov_error s0 q f O I T0 V0 Oq P0) as [P1 O1]. pose proof (shape0_error s0 q f) as Se.
        destruct (harvest_error s0 q f) as [s1 o1]. eexists _, _. split; [reflexivity|]. cbn [fst snd] in *. auto. }
    destruct S1 as (s1 & o1 & -> & Sh1 & P1 & O1).
    destruct (rq_kind q); cbn [fst snd]; try (split; assumption).
    assert (T1 : tab_inv s1) by (eapply shape0_tab; eassumption).
    assert (V1 : runs_valid s1) by (eapply shape0_runs_valid; eassumption).
    destruct (prov_group_done s1 (rq_group q) O I T1 V1 P1) as [P2 O2]. pose proof (shape0_group_done s1 (rq_group q)) as Sg.
    destruct (group_done s1 (rq_group q)) as [s2 o2]. cbn [fst snd] in *. split; [exact P2|].
    apply outs_ok_app; [|exact O2]. eapply outs_ok_stable; [exact T1| |apply stable_shape0; exact Sg|exact O1].
    intros t r a0 H. apply (pv_valid s1 O I P1 t r a0 H).
  Qed.

  (* the final flush *)
  Lemma prov_flush_run outs acc ra O I :
    tab_inv (fst acc) -> runs_valid (fst acc) -> prov_inv (fst acc) O I -> outs_ok (fst acc) O (snd acc) ->
    prov_inv (fst (flush_run outs acc ra)) O I /\ outs_ok (fst (flush_run outs acc ra)) O (snd (flush_run outs acc ra)).
  Proof.
    destruct acc as [s o]. cbn [fst snd]. intros T V P Oo. pose proof (shape0_flush_run outs (s, o) ra) as S. cbn [fst] in S.
    assert (Vold : forall t r a0, In (t, r, a0) O -> a0 < length (p_ahs s)) by (intros t r a0 H; apply (pv_valid s O I P t r a0 H)).
    destruct (flush_run_flow outs s o ra) as [(_ & E & Eo)|[(_ & _ & Eo & E)|(La & _ & qs & Eo & F)]]; cbn zeta in *.
    - rewrite E, Eo. split; assumption.
    - rewrite Eo. split; [|eapply outs_ok_stable; try eassumption; apply stable_shape0; exact S].
      eapply prov_same_data; try eassumption; [rewrite E; reflexivity|]. intros x Hx. left. rewrite E in Hx. exact Hx.
    - set (a := snd ra) in *. set (s' := fst (flush_run outs (s, o) ra)) in *.
      destruct (put_view s s' a _ (ff_ahs _ _ _ _ _ F)) as (_ & _ & _ & Vo & Vn). specialize (Vn La).
      split.
      + eapply prov_flow; try eassumption.
        * intros b c t Lb Ht. left. destruct (Nat.eq_dec b a) as [->|N].
          -- unfold hb in Ht. rewrite Vn in Ht. destruct Ht.
          -- unfold hb in Ht. rewrite (Vo b N) in Ht. exact Ht.
        * intros x Hx. left. rewrite (ff_reqs _ _ _ _ _ F) in Hx. exact Hx.
      + rewrite Eo. apply outs_ok_app; [eapply outs_ok_stable; try eassumption; apply stable_shape0; exact S|].
        intros q Hq. apply in_map_iff in Hq. destruct Hq as (q' & E & Hq). inversion E; subst q'.
        eapply out_ok_stable; [exact T|exact Vold|apply stable_shape0; exact S|]. eapply emit_ok; [exact P|].
        eapply built_from_req; [exact La|apply (ff_from _ _ _ _ _ F); exact Hq|reflexivity|reflexivity].
  Qed.

  Lemma prov_clean_exit s outs O I :
    tab_inv s -> runs_valid s -> prov_inv s O I ->
    prov_inv (fst (clean_exit s outs)) O I /\ outs_ok (fst (clean_exit s outs)) O (snd (clean_exit s outs)).
  Proof.
    intros T V P. unfold clean_exit.
    assert (G : forall l acc, tab_inv (fst acc) -> runs_valid (fst acc) -> prov_inv (fst acc) O I -> outs_ok (fst acc) O (snd acc) ->
                let r := fold_left (flush_run outs) l acc in
                tab_inv (fst r) /\ runs_valid (fst r) /\ prov_inv (fst r) O I /\ outs_ok (fst r) O (snd r)).
    { induction l as [|ra r IH]; intros acc Ta Va Pa Oa; cbn [fold_left]; [auto|].
      destruct (prov_flush_run outs acc ra O I Ta Va Pa Oa) as [P1 O1]. pose proof (shape0_flush_run outs acc ra) as S.
      apply IH; [eapply shape0_tab; eassumption|eapply shape0_runs_valid; eassumption|exact P1|exact O1]. }
    specialize (G (p_runs s) (s, []) T V P ltac:(intros x [])). cbn zeta in G.
    destruct (fold_left (flush_run outs) (p_runs s) (s, [])) as [s1 o]. cbn [fst snd] in *. destruct G as (T1 & V1 & P1 & O1).
    assert (S : shape0 s1 (with_quit s1 true)) by (apply shape0_of_ahs_eq; try reflexivity; apply shrunk_refl).
    split.
    - eapply prov_same_data; try eassumption; [reflexivity|]. intros x Hx. left. exact Hx.
    - apply outs_ok_app; [|intros q [H|[]]; discriminate].
      eapply outs_ok_stable; [exact T1| |apply stable_shape0; exact S|exact O1]. intros t r a0 H. apply (pv_valid s1 O I P1 t r a0 H).
  Qed.

  (* ---------------------------------------------------------------- every step *)
  Theorem step_prov s o O I :
    life_inv s -> tab_inv s -> prov_inv s O I -> (strong -> forall r, In r (op_runs o) -> ~ In r I) ->
    prov_inv (fst (step s o)) (O ++ origin_step s o) (I ++ op_runs o) /\
    outs_ok (fst (step s o)) (O ++ origin_step s o) (snd (step s o)).
  Proof.
    intros L T P Fr. pose proof (li_runs s L) as V.
    assert (Triv : forall s' o', shape0 s s' -> p_ahs s' = p_ahs s -> (forall q, In q (p_reqs s') -> In q (p_reqs s) \/ rq_items q = []) ->
                   handshake_out o' -> prov_inv s' (O ++ []) (I ++ []) /\ outs_ok s' (O ++ []) o').
    { intros s' o' S E R H. rewrite !app_nil_r. split; [eapply prov_same_data; eassumption|apply outs_ok_handshake; exact H]. }
    assert (Nil : handshake_out []) by (intros q []).
    unfold step. destruct (p_quit s) eqn:Q.
    { cbn [fst snd]. assert (E : origin_step s o = []) by (destruct o; cbn [origin_step]; try reflexivity; rewrite Q; reflexivity).
      rewrite E, app_nil_r. split; [apply prov_issued_mono; exact P|intros q []]. }
    destruct o as [key dt id|run t|n po|n co|ah ty|n oc|c oc|dt|outs]; cbn [origin_step op_runs].
    - destruct (app_info_flow s key dt id) as (M & R & H).
      apply Triv; [apply shape0_mild; [exact M|apply shrunk_of_eq; exact R]|apply M|intros q Hq; left; rewrite (m_reqs _ _ M) in Hq; exact Hq|exact H].
    - rewrite app_nil_r. split; [apply prov_txn; assumption|].
      pose proof (txn_data_flow s run t) as F. destruct (lookupN run (p_runs s)); [destruct F as [F _]; rewrite F|rewrite F]; intros q [].
    - destruct (pre_reply_flow s n po) as (M & R & H).
      apply Triv; [apply shape0_mild; [exact M|apply shrunk_of_eq; exact R]|apply M|intros q Hq; left; rewrite (m_reqs _ _ M) in Hq; exact Hq|].
      intros q Hq. destruct (H q Hq) as (c & _ & K & I0 & _). split; [exact I0|right; exact K].
    - destruct (conn_reply_flow s n co) as (Eo & [[M R]|(c & host & r & _ & _ & -> & C)]).
      + rewrite Eo, app_nil_r. split; [|intros q []]. apply prov_issued_mono.
        eapply prov_same_data; try eassumption; [apply shape0_mild; [exact M|apply shrunk_of_eq; exact R]|apply M|].
        intros q Hq. left. rewrite (m_reqs _ _ M) in Hq. exact Hq.
      + rewrite Eo, app_nil_r. split; [|intros q []]. eapply prov_connected; [exact C| |exact P].
        intros Sg. apply (Fr Sg). left. reflexivity.
    - rewrite !app_nil_r. unfold tick. destruct (Nat.leb_spec (length (p_ahs s)) ah) as [Ll|Ll]; [cbn [fst snd]; split; [exact P|intros q []]|].
      destruct (inactive (get_obj s (ah_app (get_ah s ah))) (p_now s)); [|apply prov_tick; assumption].
      cbn [fst snd]. split; [|intros q []]. eapply prov_same_data; try eassumption; [|reflexivity|intros q Hq; left; exact Hq].
      apply shape0_of_ahs_eq; try reflexivity. cbn [p_runs with_apps shutdown_run with_runs]. apply shrunk_rem. apply shrunk_refl.
    - rewrite !app_nil_r. apply prov_reply; assumption.
    - rewrite !app_nil_r. destruct (find_index (req_is c) (p_reqs s) 0); [apply prov_reply; assumption|cbn [fst snd]; split; [exact P|intros q []]].
    - cbn [fst snd]. apply Triv; [apply shape0_of_ahs_eq; try reflexivity; apply shrunk_refl|reflexivity|intros q Hq; left; exact Hq|exact Nil].
    - rewrite !app_nil_r. apply prov_clean_exit; assumption.
  Qed.
End Prov.

(* ------------------------------------------------------------------ every history *)
Lemma prov_inv_init (strong : Prop) : prov_inv strong init [] [].
Proof. constructor; cbn; intros; try lia; try contradiction. Qed.

Lemma NoDup_app_disjoint {A} (a b : list A) x : NoDup (a ++ b) -> In x a -> In x b -> False.
Proof.
  induction a as [|y r IH]; cbn; [tauto|]. intros H [->|Hin] Hb; inversion H as [|? ? Hn Hd]; subst.
  - apply Hn. apply in_or_app. right. exact Hb.
  - exact (IH Hd Hin Hb).
Qed.

Lemma run_from_prov (strong : Prop) ops : forall s O I,
  life_inv s -> tab_inv s -> prov_inv strong s O I -> (strong -> NoDup (I ++ conn_runs ops)) ->
  prov_inv strong (fst (run_from s ops)) (O ++ origin_from s ops) (I ++ conn_runs ops) /\
  forall o, In o (snd (run_from s ops)) -> outs_ok strong (fst (run_from s ops)) (O ++ origin_from s ops) o.
Proof.
  induction ops as [|o r IH]; intros s O I L T P Fr; cbn [run_from origin_from conn_runs map concat].
  - rewrite !app_nil_r. cbn [fst snd]. split; [exact P|intros o []].
  - assert (Fr1 : strong -> forall x, In x (op_runs o) -> ~ In x I).
    { intros Sg x Hx Hi. specialize (Fr Sg). cbn [conn_runs map concat] in Fr.
      eapply NoDup_app_disjoint; [exact Fr|exact Hi|apply in_or_app; left; exact Hx]. }
    destruct (step_prov strong s o O I L T P Fr1) as [P1 O1].
    pose proof (step_shape s o) as Sh. pose proof (step_life s o L) as [L1 _]. pose proof (shape_tab s _ L Sh T) as T1.
    destruct (step s o) as [s1 out1]. cbn [fst snd] in *.
    assert (Fr2 : strong -> NoDup ((I ++ op_runs o) ++ conn_runs r)).
    { intros Sg. specialize (Fr Sg). cbn [conn_runs map concat] in Fr. rewrite <- app_assoc. exact Fr. }
    specialize (IH s1 _ _ L1 T1 P1 Fr2). pose proof (run_from_stable r s1) as St.
    destruct (run_from s1 r) as [s2 outs]. cbn [fst snd] in *. destruct IH as [P2 O2].
    rewrite <- !app_assoc in P2. rewrite <- !app_assoc in O2. fold (conn_runs r).
    split; [exact P2|]. intros x [<-|Hx]; [|apply O2; exact Hx].
    intros q Hq. rewrite app_assoc. apply out_ok_mono. eapply out_ok_stable; [exact T1| |exact St|apply O1; exact Hq].
    intros t r0 a H. apply (pv_valid strong s1 _ _ P1 t r0 a H).
Qed.

Lemma origin_from_submitted ops : forall s t r a, In (t, r, a) (origin_from s ops) ->
  exists pre x post, ops = pre ++ OTxn r x :: post /\ In t (txn_tags x) /\
    p_quit (fst (run_from s pre)) = false /\ lookupN r (p_runs (fst (run_from s pre))) = Some a.
Proof.
  induction ops as [|o rest IH]; intros s t r a H; cbn [origin_from] in H; [destruct H|].
  apply in_app_or in H. destruct H as [H|H].
  - destruct o; cbn [origin_step] in H; try destruct H.
    destruct (p_quit s) eqn:Q; [destruct H|]. destruct (lookupN run (p_runs s)) as [a0|] eqn:L; [|destruct H].
    apply in_map_iff in H. destruct H as (t' & E & Ht). inversion E; subst.
    exists [], t0, rest. cbn [app run_from fst]. repeat split; assumption.
  - destruct (IH _ _ _ _ H) as (pre & x & post & E & Ht & Q & L).
    exists (o :: pre), x, post. split; [cbn; rewrite E; reflexivity|]. split; [exact Ht|].
    cbn [run_from]. destruct (step s o) as [s1 out1]. cbn [fst] in *. destruct (run_from s1 pre) as [s2 outs]. cbn [fst] in *. split; assumption.
Qed.

(* what the theorems say, on histories *)
Definition emitted (ops : list op) (q : request) : Prop := exists o, In o (snd (run ops)) /\ In (OutReq q) o.

(* a transaction of the history submitted tag t under run id r, at a moment when the daemon held r *)
Definition submitted (ops : list op) (t r : N) : Prop :=
  exists pre x post, ops = pre ++ OTxn r x :: post /\ In t (txn_tags x) /\
    p_quit (fst (run pre)) = false /\ lookupN r (p_runs (fst (run pre))) <> None.

(* ... and r then denoted a run of the application with key k *)
Definition submitted_to (ops : list op) (t r k : N) : Prop :=
  exists pre x post a, ops = pre ++ OTxn r x :: post /\ In t (txn_tags x) /\
    p_quit (fst (run pre)) = false /\ lookupN r (p_runs (fst (run pre))) = Some a /\ key_of (fst (run pre)) a = k.

Lemma origin_submitted ops t r a : In (t, r, a) (origin_from init ops) -> submitted ops t r.
Proof.
  intros H. destruct (origin_from_submitted ops init t r a H) as (pre & x & post & E & Ht & Q & L).
  exists pre, x, post. unfold run. rewrite L. repeat split; try assumption. discriminate.
Qed.

Lemma reach_prov (strong : Prop) ops : (strong -> distinct_runs ops) ->
  prov_inv strong (fst (run ops)) (origin_from init ops) (conn_runs ops) /\
  forall o, In o (snd (run ops)) -> outs_ok strong (fst (run ops)) (origin_from init ops) o.
Proof.
  intros D. apply (run_from_prov strong ops init [] [] life_inv_init tab_inv_init (prov_inv_init strong)). exact D.
Qed.

(* C04: in every reachable state the data held for a run, and the data of every outstanding request, was
   submitted under that run id while the run was held *)
Theorem held_provenance ops a c t :
  let s := fst (run ops) in
  a < length (p_ahs s) -> In t (tags (hb s a c)) -> submitted ops t (ah_run (get_ah s a)).
Proof.
  intros s La Ht. destruct (reach_prov False ops ltac:(intros [])) as [P _].
  destruct (pv_held _ _ _ _ P a c t La Ht) as (a' & Hin & _). eapply origin_submitted. exact Hin.
Qed.

Theorem inflight_provenance ops q t :
  In q (p_reqs (fst (run ops))) -> In t (tags (rq_items q)) -> submitted ops t (rq_run q).
Proof.
  intros Hq Ht. destruct (reach_prov False ops ltac:(intros [])) as [P _].
  destruct (pv_req _ _ _ _ P q Hq t Ht) as (a' & Hin & _). eapply origin_submitted. exact Hin.
Qed.

(* C04: every request ever emitted (final-flush requests included) carries only such data *)
Theorem payload_tags ops q t :
  emitted ops q -> In t (tags (rq_items q)) -> submitted ops t (rq_run q).
Proof.
  intros (o & Ho & Hq) Ht. destruct (reach_prov False ops ltac:(intros [])) as [_ Oo].
  destruct (Oo o Ho q Hq t Ht) as (a' & Hin & _). eapply origin_submitted. exact Hin.
Qed.

(* C04, when the collector never issues a run id twice: the request moreover carries the key of the very
   application the data was submitted to *)
Theorem payload_owner ops q t :
  distinct_runs ops -> emitted ops q -> In t (tags (rq_items q)) -> submitted_to ops t (rq_run q) (rq_owner q).
Proof.
  intros D (o & Ho & Hq) Ht. destruct (reach_prov True ops ltac:(intros _; exact D)) as [_ Oo].
  destruct (Oo o Ho q Hq t Ht) as (a' & Hin & K). specialize (K Logic.I).
  destruct (origin_from_submitted ops init _ _ _ Hin) as (pre & x & post & E & Hx & Q & L).
  exists pre, x, post, a'. fold (run pre) in *. repeat split; try assumption.
  rewrite K. symmetry.
  assert (St : stable (fst (run pre)) (fst (run ops))).
  { rewrite E. unfold run at 2. rewrite run_from_app. cbn [fst]. apply run_from_stable. }
  pose proof (li_runs _ (life_inv_reachable pre) _ _ L) as La.
  apply key_of_stable; [exact St|exact La|apply (ti_app _ (tab_inv_reachable pre)); exact La].
Qed.

(* ------------------------------------------------------------------ a decision procedure for submitted_to (witnesses, examples) *)
Fixpoint sub_scan (s : proc) (ops : list op) (t r k : N) : bool :=
  match ops with
  | [] => false
  | o :: rest =>
      (match o with
       | OTxn r' x =>
           (r' =? r)%N && existsb (N.eqb t) (txn_tags x) && negb (p_quit s) &&
           match lookupN r (p_runs s) with Some a => (key_of s a =? k)%N | None => false end
       | _ => false
       end) || sub_scan (fst (step s o)) rest t r k
  end.

Lemma sub_scan_spec ops : forall s t r k,
  sub_scan s ops t r k = true <->
  exists pre x post a, ops = pre ++ OTxn r x :: post /\ In t (txn_tags x) /\
    p_quit (fst (run_from s pre)) = false /\ lookupN r (p_runs (fst (run_from s pre))) = Some a /\
    key_of (fst (run_from s pre)) a = k.
Proof.
  induction ops as [|o rest IH]; intros s t r k; cbn [sub_scan].
  - split; [discriminate|]. intros (pre & x & post & a & E & _). destruct pre; discriminate.
  - rewrite orb_true_iff, IH. split.
    + intros [H|(pre & x & post & a & E & Ht & Q & L & K)].
      * destruct o; try discriminate. rewrite !andb_true_iff in H. destruct H as [[[H1 H2] H3] H4].
        apply N.eqb_eq in H1. subst run. apply existsb_exists in H2. destruct H2 as (t' & Hin & Et). apply N.eqb_eq in Et. subst t'.
        destruct (p_quit s) eqn:Q; [discriminate|]. destruct (lookupN r (p_runs s)) as [a|] eqn:L; [|discriminate].
        apply N.eqb_eq in H4. exists [], t0, rest, a. cbn [app run_from fst]. repeat split; assumption.
      * exists (o :: pre), x, post, a. split; [cbn; rewrite E; reflexivity|]. split; [exact Ht|].
        cbn [run_from]. destruct (step s o) as [s1 out1]. cbn [fst] in *. destruct (run_from s1 pre) as [s2 outs]. cbn [fst] in *. auto.
    + intros (pre & x & post & a & E & Ht & Q & L & K). destruct pre as [|o' pre].
      * left. cbn [app] in E. injection E as Eo Er. subst o rest. cbn [run_from fst] in *. rewrite N.eqb_refl, Q, L. cbn [negb andb].
        rewrite andb_true_r. rewrite andb_true_iff. split; [|apply N.eqb_eq; exact K].
        apply existsb_exists. exists t. split; [exact Ht|apply N.eqb_refl].
      * right. cbn [app] in E. injection E as Eo Er. subst o rest. exists pre, x, post, a. split; [reflexivity|]. split; [exact Ht|].
        cbn [run_from] in Q, L, K. destruct (step s o') as [s1 out1]. cbn [fst] in *. destruct (run_from s1 pre) as [s2 outs]. cbn [fst] in *. auto.
Qed.

Lemma submitted_to_dec ops t r k : submitted_to ops t r k <-> sub_scan init ops t r k = true.
Proof. rewrite sub_scan_spec. reflexivity. Qed.

Definition emittedb (ops : list op) (p : request -> bool) : bool :=
  existsb (fun o => existsb (fun x => match x with OutReq q => p q | _ => false end) o) (snd (run ops)).

Lemma emittedb_spec ops p : emittedb ops p = true -> exists q, emitted ops q /\ p q = true.
Proof.
  unfold emittedb. intros H. apply existsb_exists in H. destruct H as (o & Ho & H). apply existsb_exists in H.
  destruct H as (x & Hx & H). destruct x as [q| | |]; try discriminate. exists q. split; [exists o; split; assumption|exact H].
Qed.

(* ------------------------------------------------------------------ the witness: what a re-issued run id does *)
Definition mk_reply (run : N) : creply := {| cr_run := run; cr_caps := fun _ => 100%N; cr_hdr := run |}.
Definition metric (t : N) : item := {| i_tag := t; i_prio := 0%Z; i_key := 1%N |}.
Definition one_metric (t : N) : txn := {| t_items := [(CMetrics, metric t)]; t_pkgs := None |}.

(* application 1 connects and gets run 7; it submits tag 100.  Application 2 connects and the collector
   issues run id 7 AGAIN.  The first application's harvest (still ticking: the daemon replaced the table
   entry, nothing closed the old harvest) sends tag 100 under run 7 with application 1's key; the request
   fails with a retryable status; the payload is merged into "the harvest of run 7", which is now
   application 2's; the next harvest sends tag 100 with application 2's key. *)
Definition reissued : list op :=
  [OAppInfo 1 false None; OPreReply 0 (PreOk 5); OConnReply 0 (ConnOk (mk_reply 7));
   OTxn 7 (one_metric 100);
   OAppInfo 2 false None; OPreReply 0 (PreOk 6); OConnReply 0 (ConnOk (mk_reply 7));
   OTick 0 HarvestBits_gen.HarvestAll; OReply 0 (OFail FRetry); OTick 1 HarvestBits_gen.HarvestAll].

Definition leaks (q : request) : bool :=
  (rq_owner q =? 2)%N && (rq_run q =? 7)%N && existsb (N.eqb 100) (tags (rq_items q)).

Theorem payload_owner_refuted :
  exists ops q t, emitted ops q /\ In t (tags (rq_items q)) /\ ~ submitted_to ops t (rq_run q) (rq_owner q).
Proof.
  assert (E : emittedb reissued leaks = true) by (vm_compute; reflexivity).
  apply emittedb_spec in E. destruct E as (q & Hq & Hl). unfold leaks in Hl. rewrite !andb_true_iff in Hl.
  destruct Hl as [[H1 H2] H3]. apply N.eqb_eq in H1, H2. apply existsb_exists in H3. destruct H3 as (t & Ht & Et). apply N.eqb_eq in Et. subst t.
  exists reissued, q, 100%N. split; [exact Hq|]. split; [exact Ht|]. rewrite H1, H2, submitted_to_dec.
  vm_compute. discriminate.
Qed.

(* the same history is accounted for by the run-id form: tag 100 was submitted under run id 7 *)
Example reissued_run_form : submitted reissued 100 7.
Proof.
  exists [OAppInfo 1 false None; OPreReply 0 (PreOk 5); OConnReply 0 (ConnOk (mk_reply 7))], (one_metric 100), 
         [OAppInfo 2 false None; OPreReply 0 (PreOk 6); OConnReply 0 (ConnOk (mk_reply 7));
          OTick 0 HarvestBits_gen.HarvestAll; OReply 0 (OFail FRetry); OTick 1 HarvestBits_gen.HarvestAll].
  split; [reflexivity|]. split; [left; reflexivity|]. split; [vm_compute; reflexivity|vm_compute; discriminate].
Qed.

(* non-vacuity: two applications with distinct run ids; each request carries its own application's data and key *)
Definition two_apps : list op :=
  [OAppInfo 1 false None; OPreReply 0 (PreOk 5); OConnReply 0 (ConnOk (mk_reply 7));
   OAppInfo 2 false None; OPreReply 0 (PreOk 6); OConnReply 0 (ConnOk (mk_reply 8));
   OTxn 7 (one_metric 100); OTxn 8 (one_metric 200); OTxn 9 (one_metric 300);
   OTick 0 HarvestBits_gen.HarvestAll; OTick 1 HarvestBits_gen.HarvestAll].

Example two_apps_distinct : distinct_runs two_apps.
Proof. unfold distinct_runs. vm_compute. repeat constructor; cbn; intuition discriminate. Qed.

Example two_apps_emit :
  emittedb two_apps (fun q => (rq_owner q =? 1)%N && (rq_run q =? 7)%N && existsb (N.eqb 100) (tags (rq_items q))) = true /\
  emittedb two_apps (fun q => (rq_owner q =? 2)%N && (rq_run q =? 8)%N && existsb (N.eqb 200) (tags (rq_items q))) = true /\
  emittedb two_apps (fun q => existsb (N.eqb 300) (tags (rq_items q))) = false /\
  sub_scan init two_apps 100 7 1 = true /\ sub_scan init two_apps 200 8 2 = true /\ sub_scan init two_apps 100 7 2 = false.
Proof. vm_compute. repeat split. Qed.

(* ------------------------------------------------------------------ request parameters (C04) *)
(* the contexts (license owner, collector host, headers, run id) captured by the ticks and by the final flush
   of the history *)
Definition ctx_step (s : proc) (o : op) : list emit_ctx :=
  if p_quit s then []
  else match o with
       | OTick a ty =>
           if Nat.leb (length (p_ahs s)) a then []
           else if inactive (get_obj s (ah_app (get_ah s a))) (p_now s) then []
           else [ctx_of s (get_ah s a) (p_next s)]
       | OCleanExit _ => map (fun ra => ctx_of s (get_ah s (snd ra)) 0) (p_runs s)
       | _ => []
       end.

Fixpoint ctx_from (s : proc) (ops : list op) : list emit_ctx :=
  match ops with
  | [] => []
  | o :: r => ctx_step s o ++ ctx_from (fst (step s o)) r
  end.

Definition grp_inv (s : proc) (E : list emit_ctx) : Prop := forall g, In g (p_groups s) -> In (g_ctx g) E.

Definition is_handshake (q : request) : Prop := rq_kind q = RPreconnect \/ rq_kind q = RConnect.
Definition is_data (q : request) : Prop := rq_kind q = RUsage \/ exists c, rq_kind q = RHarvest c.

Definition outs_ctx (E : list emit_ctx) (o : list out) : Prop :=
  forall q, In (OutReq q) o -> (is_handshake q /\ rq_items q = []) \/ (is_data q /\ exists e, In e E /\ req_ctx e q).

Lemma outs_ctx_handshake E o : handshake_out o -> outs_ctx E o.
Proof. intros H q Hq. left. destruct (H q Hq) as [I0 K]. split; [exact K|exact I0]. Qed.
Lemma outs_ctx_app E a b : outs_ctx E a -> outs_ctx E b -> outs_ctx E (a ++ b).
Proof. intros A B q Hq. apply in_app_or in Hq. destruct Hq; [apply A|apply B]; assumption. Qed.
Lemma outs_ctx_mono E E' o : outs_ctx E o -> outs_ctx (E ++ E') o.
Proof.
  intros H q Hq. destruct (H q Hq) as [L|(D & e & He & C)]; [left; exact L|right]. split; [exact D|].
  exists e. split; [apply in_or_app; left; exact He|exact C].
Qed.
Lemma outs_ctx_nil E : outs_ctx E [].
Proof. intros q []. Qed.

Lemma grp_same s s' E : p_groups s' = p_groups s -> grp_inv s E -> grp_inv s' E.
Proof. intros Eg G g Hg. rewrite Eg in Hg. apply G. exact Hg. Qed.

Lemma req_from_data e h q : req_from e h q -> is_data q /\ req_ctx e q.
Proof. intros (c & K & C & _). split; [right; exists c; exact K|exact C]. Qed.
Lemma usage_from_data e q : usage_from e q -> is_data q /\ req_ctx e q.
Proof. intros (K & _ & C). split; [left; exact K|exact C]. Qed.

Lemma ctx_tick s a ty E :
  grp_inv s E ->
  let e := ctx_of s (get_ah s a) (p_next s) in
  grp_inv (fst (harvest_by_type s a ty)) (E ++ [e]) /\ outs_ctx (E ++ [e]) (snd (harvest_by_type s a ty)).
Proof.
  intros G e. pose proof (harvest_by_type_flow s a ty) as F. destruct (tf_reqs _ _ _ _ F) as (qs & u & Eo & _ & Fq & Fu & _).
  split.
  - intros g Hg. apply (tf_groups _ _ _ _ F) in Hg. apply in_or_app. destruct Hg as [Hg|[_ Hg]]; [left; apply G; exact Hg|right; left; symmetry; exact Hg].
  - intros q Hq. rewrite Eo in Hq. apply in_map_iff in Hq. destruct Hq as (q' & Eq & Hq). inversion Eq; subst q'. right.
    apply in_app_or in Hq. destruct Hq as [H|H].
    + destruct (req_from_data _ _ _ (Fq q H)) as [D C]. split; [exact D|]. exists e. split; [apply in_or_app; right; left; reflexivity|exact C].
    + destruct (usage_from_data _ _ (Fu q H)) as [D C]. split; [exact D|]. exists e. split; [apply in_or_app; right; left; reflexivity|exact C].
Qed.

Lemma ctx_reply s n o E :
  grp_inv s E -> grp_inv (fst (reply s n o)) E /\ outs_ctx E (snd (reply s n o)).
Proof.
  intros G. unfold reply. destruct (nth_error (p_reqs s) n) as [q|]; [|cbn [fst snd]; split; [exact G|apply outs_ctx_nil]].
  set (s0 := add_usage (with_reqs s (remove_nth n (p_reqs s)))).
  assert (G0 : grp_inv s0 E) by exact G.
  assert (S1 : exists s1 o1, (match o with OOk => (ghost_ack s0 (tags (rq_items q)), []) | OFail f => harvest_error s0 q f end) = (s1, o1) /\
               grp_inv s1 E /\ outs_ctx E o1).
  { destruct o as [|f].
    - eexists _, _. split; [reflexivity|]. split; [exact G0|apply outs_ctx_nil].
    - pose proof (harvest_error_flow s0 q f) as F. destruct (lookupN (rq_run q) (p_runs s0)) as [a|].
      + destruct (harvest_error s0 q f) as [s1 o1]. cbn [fst snd] in F. eexists _, _. split; [reflexivity|].
        split; [eapply grp_same; [apply (ef_groups _ _ _ _ _ _ F)|exact G0]|].
        intros x Hx. left. destruct (ef_out _ _ _ _ _ _ F _ Hx) as (q' & Eq & K & I0 & _). inversion Eq; subst q'. split; [left; exact K|exact I0].
      + rewrite F. eexists _, _. split; [reflexivity|]. split; [exact G0|apply outs_ctx_nil]. }
  destruct S1 as (s1 & o1 & -> & G1 & O1).
  destruct (rq_kind q); cbn [fst snd]; try (split; assumption).
  destruct (group_done_flow s1 (rq_group q)) as (u & Eo & _ & Fu & Fg & _).
  destruct (group_done s1 (rq_group q)) as [s2 o2]. cbn [fst snd] in *. split.
  - intros g Hg. destruct (Fg g Hg) as (g0 & H0 & _ & Ec). rewrite Ec. apply G1. exact H0.
  - apply outs_ctx_app; [exact O1|]. rewrite Eo. intros x Hx. apply in_map_iff in Hx. destruct Hx as (q' & Eq & Hq). inversion Eq; subst q'.
    right. destruct (Fu x Hq) as (g & Hg & _ & U). destruct (usage_from_data _ _ U) as [D C]. split; [exact D|].
    exists (g_ctx g). split; [apply G1; exact Hg|exact C].
Qed.

(* contexts computed in a later stage of the final flush equal those computed at its start *)
Definition ctx_same (s s' : proc) : Prop :=
  (forall j, ah_run (get_ah s' j) = ah_run (get_ah s j) /\ ah_app (get_ah s' j) = ah_app (get_ah s j)) /\
  (forall i, obj_eqv (get_obj s' i) (get_obj s i)).

Lemma ctx_same_refl s : ctx_same s s.
Proof. split; [intros j; split; reflexivity|intros i; apply obj_eqv_refl]. Qed.
Lemma ctx_same_trans a b c : ctx_same a b -> ctx_same b c -> ctx_same a c.
Proof.
  intros [A1 A2] [B1 B2]. split.
  - intros j. destruct (A1 j), (B1 j). split; congruence.
  - intros i. eapply obj_eqv_trans; [apply B2|apply A2].
Qed.
Lemma ctx_of_same s s' a g : ctx_same s s' -> ctx_of s' (get_ah s' a) g = ctx_of s (get_ah s a) g.
Proof.
  intros [A B]. unfold ctx_of. destruct (A a) as [Er Ea]. rewrite Er, Ea.
  destruct (B (ah_app (get_ah s a))) as (K1 & K2 & _ & _ & _ & K6 & K7). rewrite K1, K2, K6, K7. reflexivity.
Qed.

Lemma ctx_flush_run outs s o ra :
  ctx_same s (fst (flush_run outs (s, o) ra)) /\ p_groups (fst (flush_run outs (s, o) ra)) = p_groups s /\
  exists qs, snd (flush_run outs (s, o) ra) = o ++ map OutReq qs /\
             forall q, In q qs -> is_data q /\ req_ctx (ctx_of s (get_ah s (snd ra)) 0) q.
Proof.
  destruct (flush_run_flow outs s o ra) as [(_ & E & Eo)|[(_ & _ & Eo & E)|(La & _ & qs & Eo & F)]]; cbn zeta in *.
  - rewrite E, Eo. split; [apply ctx_same_refl|]. split; [reflexivity|]. exists []. rewrite app_nil_r. split; [reflexivity|intros q []].
  - rewrite E, Eo. split; [split; [intros j; split; reflexivity|intros i; apply obj_eqv_refl]|]. split; [reflexivity|].
    exists []. rewrite app_nil_r. split; [reflexivity|intros q []].
  - split; [|split; [apply (ff_groups _ _ _ _ _ F)|]].
    + destruct (put_view s _ _ _ (ff_ahs _ _ _ _ _ F)) as (_ & Vr & Va & _). split; [intros j; split; [apply Vr|apply Va]|apply (ff_obj _ _ _ _ _ F)].
    + exists qs. split; [exact Eo|]. intros q Hq. eapply req_from_data. apply (ff_from _ _ _ _ _ F). exact Hq.
Qed.

Lemma ctx_clean_exit s outs E :
  grp_inv s E ->
  let E' := E ++ map (fun ra => ctx_of s (get_ah s (snd ra)) 0) (p_runs s) in
  grp_inv (fst (clean_exit s outs)) E' /\ outs_ctx E' (snd (clean_exit s outs)).
Proof.
  intros G E'. unfold clean_exit.
  assert (H : forall l acc, incl l (p_runs s) -> ctx_same s (fst acc) -> p_groups (fst acc) = p_groups s -> outs_ctx E' (snd acc) ->
              let r := fold_left (flush_run outs) l acc in p_groups (fst r) = p_groups s /\ outs_ctx E' (snd r)).
  { induction l as [|ra r IH]; intros [sa oa] Hl Cs Gs Oa; cbn [fold_left]; [split; assumption|].
    destruct (ctx_flush_run outs sa oa ra) as (C1 & G1 & qs & Eo & Fq). cbn [fst snd] in *.
    apply IH.
    - intros x Hx. apply Hl. right. exact Hx.
    - eapply ctx_same_trans; eassumption.
    - congruence.
    - rewrite Eo. apply outs_ctx_app; [exact Oa|]. intros q Hq. apply in_map_iff in Hq. destruct Hq as (q' & Eq & Hq). inversion Eq; subst q'.
      right. destruct (Fq q Hq) as [D C]. split; [exact D|]. exists (ctx_of s (get_ah s (snd ra)) 0).
      split; [|rewrite <- (ctx_of_same s sa (snd ra) 0 Cs); exact C].
      apply in_or_app. right. apply in_map_iff. exists ra. split; [reflexivity|apply Hl; left; reflexivity]. }
  specialize (H (p_runs s) (s, []) (incl_refl _) (ctx_same_refl s) eq_refl (outs_ctx_nil E')). cbn zeta in H.
  destruct (fold_left (flush_run outs) (p_runs s) (s, [])) as [s1 o]. cbn [fst snd] in *. destruct H as [G1 O1]. split.
  - intros g Hg. cbn [p_groups with_quit] in Hg. rewrite G1 in Hg. apply in_or_app. left. apply G. exact Hg.
  - apply outs_ctx_app; [exact O1|]. intros q [Hq|[]]. discriminate.
Qed.

Lemma step_ctx s o E :
  grp_inv s E -> grp_inv (fst (step s o)) (E ++ ctx_step s o) /\ outs_ctx (E ++ ctx_step s o) (snd (step s o)).
Proof.
  intros G. unfold step, ctx_step. destruct (p_quit s); [cbn [fst snd]; rewrite app_nil_r; split; [exact G|apply outs_ctx_nil]|].
  destruct o as [key dt id|run t|n po|n co|ah ty|n oc|c oc|dt|outs]; rewrite ?app_nil_r.
  - destruct (app_info_flow s key dt id) as (M & _ & H). split; [eapply grp_same; [apply M|exact G]|apply outs_ctx_handshake; exact H].
  - pose proof (txn_data_flow s run t) as F. destruct (lookupN run (p_runs s)).
    + cbn zeta in F. destruct F as (Eo & _ & _ & _ & Eg & _). rewrite Eo. split; [eapply grp_same; eassumption|apply outs_ctx_nil].
    + rewrite F. cbn [fst snd]. split; [exact G|apply outs_ctx_nil].
  - destruct (pre_reply_flow s n po) as (M & _ & H). split; [eapply grp_same; [apply M|exact G]|].
    intros q Hq. left. destruct (H q Hq) as (c & _ & K & I0 & _). split; [right; exact K|exact I0].
  - destruct (conn_reply_flow s n co) as (Eo & [[M _]|(c & host & r & _ & _ & _ & C)]); rewrite Eo.
    + split; [eapply grp_same; [apply M|exact G]|apply outs_ctx_nil].
    + destruct C as (i & _ & _ & _ & _ & Eg & _). split; [eapply grp_same; eassumption|apply outs_ctx_nil].
  - unfold tick. destruct (Nat.leb (length (p_ahs s)) ah); [cbn [fst snd]; rewrite app_nil_r; split; [exact G|apply outs_ctx_nil]|].
    destruct (inactive (get_obj s (ah_app (get_ah s ah))) (p_now s)); [cbn [fst snd]; rewrite app_nil_r; split; [exact G|apply outs_ctx_nil]|].
    apply ctx_tick. exact G.
  - apply ctx_reply. exact G.
  - destruct (find_index (req_is c) (p_reqs s) 0); [apply ctx_reply; exact G|cbn [fst snd]; split; [exact G|apply outs_ctx_nil]].
  - cbn [fst snd]. split; [exact G|apply outs_ctx_nil].
  - apply ctx_clean_exit. exact G.
Qed.

Lemma run_from_ctx ops : forall s E, grp_inv s E ->
  grp_inv (fst (run_from s ops)) (E ++ ctx_from s ops) /\
  forall o, In o (snd (run_from s ops)) -> outs_ctx (E ++ ctx_from s ops) o.
Proof.
  induction ops as [|o r IH]; intros s E G; cbn [run_from ctx_from].
  - rewrite app_nil_r. cbn [fst snd]. split; [exact G|intros o []].
  - destruct (step_ctx s o E G) as [G1 O1]. destruct (step s o) as [s1 out1]. cbn [fst snd] in *.
    specialize (IH s1 _ G1). destruct (run_from s1 r) as [s2 outs]. cbn [fst snd] in *. destruct IH as [G2 O2].
    rewrite <- app_assoc in G2, O2. split; [exact G2|]. intros x [<-|Hx]; [|apply O2; exact Hx].
    rewrite app_assoc. apply outs_ctx_mono. exact O1.
Qed.

(* which moment of the history a captured context belongs to *)
Definition captured (ops : list op) (e : emit_ctx) : Prop :=
  exists pre o post, ops = pre ++ o :: post /\
    let s := fst (run pre) in
    p_quit s = false /\
    ((exists a ty, o = OTick a ty /\ a < length (p_ahs s) /\ e = ctx_of s (get_ah s a) (p_next s)) \/
     (exists outs r a, o = OCleanExit outs /\ In (r, a) (p_runs s) /\ e = ctx_of s (get_ah s a) 0)).

Lemma ctx_from_captured ops : forall s e, In e (ctx_from s ops) ->
  exists pre o post, ops = pre ++ o :: post /\
    let s1 := fst (run_from s pre) in
    p_quit s1 = false /\
    ((exists a ty, o = OTick a ty /\ a < length (p_ahs s1) /\ e = ctx_of s1 (get_ah s1 a) (p_next s1)) \/
     (exists outs r a, o = OCleanExit outs /\ In (r, a) (p_runs s1) /\ e = ctx_of s1 (get_ah s1 a) 0)).
Proof.
  induction ops as [|o rest IH]; intros s e H; cbn [ctx_from] in H; [destruct H|].
  apply in_app_or in H. destruct H as [H|H].
  - exists [], o, rest. split; [reflexivity|]. cbn [run_from fst]. unfold ctx_step in H.
    destruct (p_quit s); [destruct H|]. split; [reflexivity|].
    destruct o; try destruct H.
    + left. destruct (Nat.leb_spec (length (p_ahs s)) ah) as [L|L]; [destruct H|].
      destruct (inactive (get_obj s (ah_app (get_ah s ah))) (p_now s)); [destruct H|]. destruct H as [<-|[]].
      exists ah, ty. repeat split. exact L.
    + right. apply in_map_iff in H. destruct H as ([r a] & <- & Hin). exists outs, r, a. repeat split. exact Hin.
  - destruct (IH _ _ H) as (pre & o' & post & E & Q).
    exists (o :: pre), o', post. split; [cbn; rewrite E; reflexivity|].
    cbn [run_from]. destruct (step s o) as [s1 out1]. cbn [fst] in *. destruct (run_from s1 pre) as [s2 outs]. cbn [fst] in *. exact Q.
Qed.

(* C04: every harvest / data-usage request ever emitted carries the license owner, collector host, request
   headers and run id that were captured from the app harvest's own application object when the tick (or
   the final flush) that produced it was processed; requests of the connect hand-shake carry no data *)
Theorem request_params ops q :
  emitted ops q ->
  (is_handshake q /\ rq_items q = []) \/
  (is_data q /\ exists e, captured ops e /\ rq_owner q = e_owner e /\ rq_host q = e_host e /\ rq_hdr q = e_hdr e /\ rq_run q = e_run e).
Proof.
  intros (o & Ho & Hq). destruct (run_from_ctx ops init [] ltac:(intros g [])) as [_ O].
  destruct (O o Ho q Hq) as [L|(D & e & He & C)]; [left; exact L|right]. split; [exact D|].
  exists e. split; [|exact C]. cbn [app] in He. apply ctx_from_captured in He. exact He.
Qed.

(* what a captured context is: the parameters of the app harvest's own application object *)
Lemma ctx_of_fields s a g :
  let e := ctx_of s (get_ah s a) g in
  let app := get_obj s (ah_app (get_ah s a)) in
  e_run e = ah_run (get_ah s a) /\ e_owner e = a_key app /\ e_host e = a_collector app /\
  e_hdr e = match a_reply app with Some r => cr_hdr r | None => 0%N end.
Proof. repeat split. Qed.

(* the hand-shake requests carry the key of the application object that asked *)
Lemma preconnect_params s i q :
  In (OutReq q) (snd (consider_connect s i)) ->
  rq_kind q = RPreconnect /\ rq_owner q = a_key (get_obj s i) /\ rq_run q = 0%N /\
  exists c, p_conns (fst (consider_connect s i)) = p_conns s ++ [c] /\ ca_key c = a_key (get_obj s i) /\ ca_id c = rq_id q.
Proof.
  unfold consider_connect. destruct (needs_connect (get_obj s i) (p_now s)); cbn [fst snd]; [|intros []].
  intros [H|[]]. inversion H; subst q. cbn [mk_req rq_kind rq_owner rq_run rq_id]. repeat split.
  eexists. split; [reflexivity|]. split; reflexivity.
Qed.

Lemma connect_params s n o q :
  In (OutReq q) (snd (pre_reply s n o)) ->
  exists c, nth_error (p_conns s) n = Some c /\ rq_kind q = RConnect /\ rq_owner q = ca_key c /\ rq_id q = ca_id c /\ rq_run q = 0%N.
Proof.
  intros H. destruct (pre_reply_flow s n o) as (_ & _ & F). destruct (F q H) as (c & E & K & _ & Ow & Id & R).
  exists c. repeat split; assumption.
Qed.

Example request_params_nonvacuous :
  emittedb two_apps (fun q => match rq_kind q with RHarvest CMetrics => (rq_owner q =? 2)%N && (rq_host q =? 6)%N && (rq_hdr q =? 8)%N && (rq_run q =? 8)%N | _ => false end) = true /\
  emittedb two_apps (fun q => match rq_kind q with RConnect => (rq_owner q =? 2)%N && (rq_host q =? 6)%N | _ => false end) = true.
Proof. vm_compute. split; reflexivity. Qed.
