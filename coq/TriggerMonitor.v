(* TriggerMonitor.v -- the harness' view of an AppHarvest run (events the test goroutine itself performs or
   observes), its translation to the LTS' visible events, and the model-independent monitor.
   Definitions only. *)
From Coq Require Import NArith List Bool Arith.
From Verif Require Import TriggerLts.
Import ListNotations.

Inductive hev :=
| HTick (k : nat) (accepted : bool)   (* non-blocking send into trigger k's ticker channel *)
| HRecv (k : nat)                     (* the processor side received the harvest type of trigger k *)
| HRecvUnknown                        (* ... a type no ticker was identified with *)
| HRecvNone                           (* receptive for a long time, nothing arrived *)
| HClose                              (* go ah.Close() *)
| HCloseDone (b : bool)               (* Close has returned / has not after a long wait *)
| HQuiet                              (* a long pause *)
| HGone (b : bool).                   (* goroutine count back to the baseline / not *)

Definition to_vev (e : hev) : list vev :=
  match e with
  | HTick k true => [VL (Tick k)]
  | HTick k false => [VL (TickDrop k)]
  | HRecv k => [VL PIdle; VRecv k]
  | HRecvUnknown => [VL PIdle; VRecv 99]
  | HRecvNone => [VL PIdle; VQuiet; VL PBusy]
  | HClose => [VL StartClose]
  | HCloseDone true => [VCloseDone true]
  | HCloseDone false => [VQuiet; VCloseDone false]
  | HQuiet => [VQuiet]
  | HGone true => [VGone true]
  | HGone false => [VQuiet; VGone false]
  end.

(* the harness' processor is busy except while it executes a receive *)
Definition lts_events (evs : list hev) : list vev := VL PBusy :: flat_map to_vev evs.

(* ---- monitor: judged on the harness events alone ----
   pending k = ticks accepted for trigger k minus harvest events received from it.
   - a harvest event needs a pending tick of its trigger (harvests happen on ticks only);
   - before Close is called, a receptive processor that gets nothing means no tick is pending (none is lost);
   - the run ends with Close returned and every goroutine gone. *)
Fixpoint get (l : list N) (k : nat) : N := match l, k with [], _ => 0%N | x :: _, O => x | _ :: r, S j => get r j end.
Fixpoint bump (l : list N) (k : nat) (f : N -> N) : list N :=
  match l, k with
  | [], O => [f 0%N]
  | [], S j => 0%N :: bump [] j f
  | x :: r, O => f x :: r
  | x :: r, S j => x :: bump r j f
  end.

Fixpoint lts_mon (evs : list hev) (pending : list N) (closed : bool) (done gone : bool) : bool :=
  match evs with
  | [] => closed && done && gone
  | HTick k true :: r => lts_mon r (bump pending k N.succ) closed done gone
  | HTick k false :: r => lts_mon r pending closed done gone
  | HRecv k :: r => (0 <? get pending k)%N && lts_mon r (bump pending k N.pred) closed done gone
  | HRecvUnknown :: _ => false
  | HRecvNone :: r => (closed || forallb (fun x => (x =? 0)%N) pending) && lts_mon r pending closed done gone
  | HClose :: r => lts_mon r pending true done gone
  | HCloseDone b :: r => lts_mon r pending closed b gone
  | HQuiet :: r => lts_mon r pending closed done gone
  | HGone b :: r => lts_mon r pending closed done b
  end.
Definition lts_monitor (evs : list hev) : bool := lts_mon evs [] false false false.

(* zero limits: per harvest the event categories that were sent; zero = the categories the collector gave limit 0 *)
Definition zero_monitor (zero : list N) (emitted : list (list N)) : bool :=
  forallb (fun grp => forallb (fun c => negb (existsb (N.eqb c) zero)) grp) emitted.

(* processor: came back to its select after shutting the application down; goroutines gone *)
Definition proc_monitor (blocked gone : bool) : bool := negb blocked && gone.
