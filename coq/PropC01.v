(* C01 -- accepted data is delivered exactly once when the collector accepts.  Statements only.
   Model: Processor.v (see its header for the limits of the model); `run ops` is the state after the
   history `ops` from the initial state, for EVERY finite history: any interleaving of agent queries,
   transactions for any run ids, connect answers, harvest ticks of any type mask for any app harvest
   (stale ones included), collector answers in any order, clock advances and the final flush. *)
From Coq Require Import NArith List.
From Verif Require Import Processor ProcInv ProcInv2.
Import ListNotations.

(* Conservation: in every reachable state, every tag accepted into a run's harvest occurs, with its
   multiplicity, in exactly one of: a harvest container, a request awaiting its answer, the acknowledged
   set, the given-up set (each given-up tag carries its reason: capacity, overwritten / already reported
   package, not retryable, attempts exhausted, run gone, failed final request). *)
Theorem C01_conservation : forall ops t,
  let s := fst (run ops) in
  cnt t (g_offered s) = cnt t (held s) + cnt t (inflight s) + cnt t (g_acked s) + cnt t (dropped s).
Proof. exact conservation. Qed.
Print Assumptions C01_conservation.

(* Exactly once: when the tags of the history are pairwise distinct, no tag is in two places, in
   particular no tag is in two acknowledged requests, and nothing accepted has vanished. *)
Theorem C01_exactly_once : forall ops, distinct_tags ops ->
  let s := fst (run ops) in
  NoDup (held s ++ inflight s ++ g_acked s ++ dropped s) /\
  (forall t, In t (g_offered s) <-> In t (held s ++ inflight s ++ g_acked s ++ dropped s)).
Proof. exact exactly_once. Qed.
Print Assumptions C01_exactly_once.

(* Nothing is invented: every tag the daemon holds, sends, or has sent was submitted by a transaction. *)
Theorem C01_nothing_invented : forall ops t,
  let s := fst (run ops) in
  In t (held s ++ inflight s ++ g_acked s ++ dropped s) -> In t (concat (map op_tags ops)).
Proof. exact nothing_invented. Qed.
Print Assumptions C01_nothing_invented.

From Verif Require Import ProcInv4 ProcInv7.

(* An accepting collector.  `accepting ops`: every collector answer to a harvest request in the history is a
   success (OReply / OReplyCat with OOk) and every outcome of a final-flush request is a success.
   Then nothing is ever given up except by the documented limits: every entry of the given-up set carries one
   of the reasons capacity / overwritten package list / already reported package (never: not retryable,
   attempts exhausted, run gone, failed final request). *)
Theorem C01_accepting_reasons : forall ops,
  accepting ops -> forall x, In x (g_dropped (fst (run ops))) -> benign (snd x).
Proof. exact accepting_reasons. Qed.
Print Assumptions C01_accepting_reasons.

(* ... and after an accepting history that ends with the final flush, every run that was held at the exit
   (also one whose application is past its inactivity time-out: fix de635d6) has an empty harvest, and every unit it held is
   acknowledged or was a package already reported for that application.  Together with C01_exactly_once:
   nothing accepted is lost and nothing is sent twice. *)
Theorem C01_flush_delivers : forall pre outs r a,
  accepting (pre ++ [OCleanExit outs]) ->
  let s := fst (run pre) in
  p_quit s = false -> lookupN r (p_runs s) = Some a ->
  let s' := fst (run (pre ++ [OCleanExit outs])) in
  harvest_tags (ah_h (get_ah s' a)) = [] /\
  forall t, In t (harvest_tags (ah_h (get_ah s a))) -> In t (g_acked s') \/ In (t, RSeenPkg) (g_dropped s').
Proof. intros pre outs r a A s Q L. exact (flush_delivers pre outs r a A Q L eq_refl). Qed.
Print Assumptions C01_flush_delivers.
