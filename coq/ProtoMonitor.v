(* ProtoMonitor.v -- C10: mutants as edits of well-formed messages, what the harness observes for one
   hostile message, the monitor (the property on input and implementation output only) and the
   correspondence test against the model of ProtoDecode.v.  Definitions only. *)
From Coq Require Import NArith ZArith String List Bool.
From Verif Require Import SchemaTypes Flatbuf2 ProtoDecode.
Import ListNotations.
Open Scope N_scope.

(* ---- byte strings are shipped as (length, little-endian value) *)
Definition blob := (N * N)%type.
Definition blob_of (l : bytes) : blob := (lenN l, le_val l).
Definition blob_eqb (a b : blob) : bool := (fst a =? fst b) && (snd a =? snd b).
Fixpoint unblob_fuel (fuel : nat) (v : N) : bytes :=
  match fuel with O => [] | S f => (v mod 256) :: unblob_fuel f (v / 256) end.
(* only for short strings (run ids, bases are given as lists) *)
Definition unblob (b : blob) : bytes := unblob_fuel (N.to_nat (fst b)) (snd b).

(* ---- structured mutations *)
Inductive edit :=
| EFlip (p b : N)                 (* flip bit b of byte p *)
| ESet8 (p v : N)
| ESet16 (p v : N)                (* little endian *)
| ESet32 (p v : N)
| ETrunc (n : N)                  (* keep the first n bytes *)
| ESplice (a base2 c : N)         (* first a bytes, then base2 without its first c bytes *)
| EAppend (tail : bytes)
| ERaw (bs : bytes).              (* replace the whole message *)

Fixpoint set_byte (p v : N) (l : bytes) : bytes :=
  match l with
  | [] => []
  | x :: r => if p =? 0 then v :: r else x :: set_byte (p - 1) v r
  end.
Definition get_byte (p : N) (l : bytes) : N := match dropN p l with x :: _ => x | [] => 0 end.
Definition set_le (k p v : N) (l : bytes) : bytes :=
  snd (N.iter k (fun st : N * bytes => (fst st + 1, set_byte (p + fst st) ((v / 2 ^ (8 * fst st)) mod 256) (snd st))) (0, l)).

Definition apply_edit (bases : list bytes) (l : bytes) (e : edit) : bytes :=
  match e with
  | EFlip p b => set_byte p (N.lxor (get_byte p l) (2 ^ b)) l
  | ESet8 p v => set_byte p v l
  | ESet16 p v => set_le 2 p v l
  | ESet32 p v => set_le 4 p v l
  | ETrunc n => takeN n l
  | ESplice a b2 c => (takeN a l ++ dropN c (nth (N.to_nat b2) bases []))%list
  | EAppend t => (l ++ t)%list
  | ERaw bs => bs
  end.
Definition mutant (bases : list bytes) (base : N) (es : list edit) : bytes :=
  fold_left (apply_edit bases) es (nth (N.to_nat base) bases []).
Definition checksum (l : bytes) : N := fold_left (fun a x => (a * 31 + x + 1) mod 4294967291) l 7.

(* ---- what the harness reports for one hostile message *)
Record obs := mkObs {
  o_class : N;        (* connection goroutine: 0 no reply, 1 reply (run id not valid), 2 reply (run id valid),
                         3 error, 4 panic recovered (connection closed), 5 no answer within 5 s *)
  o_kind : N;         (* the call made on the processor: 0 none, 1 IncomingTxnData, 2 IncomingAppInfo, 3 IncomingSpanBatch *)
  o_id : option blob; (* the run id passed *)
  o_extra : list blob;(* app: the decoded AppInfo fields in the order of ProtoDecode.appinfo; span: count, batch *)
  o_proc : N;         (* processor goroutine: 0 still serving, 1 ESCAPED panic (the worker would exit 3), 2 wedged *)
  o_added : list (N * blob);   (* what appeared in the harvest of the live run rA (category of ProtoDecode.proj) *)
  o_removed : list (N * blob); (* what disappeared from it *)
  o_b_changed : bool; (* anything changed in the harvest of the bystander run rB *)
  o_apps_delta : Z; o_runs_delta : Z;
  o_live_query : bool;(* the follow-up well-formed AppInfo query was answered "run id valid" *)
  o_live_txn : bool;  (* the event of the follow-up well-formed transaction is in rA's harvest *)
  o_conn_closed : bool (* the daemon closed the connection the message came on *) }.

Definition run_a : blob := blob_of (bytes_of_string "rA").
Definition run_b : blob := blob_of (bytes_of_string "rB").
Definition id_is (o : obs) (r : blob) : bool :=
  match o_id o with Some b => blob_eqb b r | None => false end.

(* THE PROPERTY on one observation (no model involved):
   the processor goroutine neither died nor wedged; the connection goroutine answered; the bystander run is
   untouched unless the message was a transaction for it; the live run rA changes only through a transaction
   addressed to it and loses nothing; no run appears or disappears; at most one application appears, and only
   through an App message; well-formed traffic afterwards is served. *)
Definition monitor (o : obs) : bool :=
  (o_proc o =? 0) && negb (o_class o =? 5) &&
  (negb (o_b_changed o) || ((o_kind o =? 1) && id_is o run_b)) &&
  (match o_added o with [] => true | _ => (o_kind o =? 1) && id_is o run_a end) &&
  forallb (fun p : N * blob => negb (fst p <=? 5)) (o_removed o) &&
  (o_runs_delta o =? 0)%Z &&
  ((o_apps_delta o =? 0)%Z || ((o_apps_delta o =? 1)%Z && (o_kind o =? 2))) &&
  o_live_query o && o_live_txn o.

(* ---- correspondence with the model *)
Definition cb_eqb (a b : N * blob) : bool := (fst a =? fst b) && blob_eqb (snd a) (snd b).
Fixpoint remove_one (x : N * blob) (l : list (N * blob)) : option (list (N * blob)) :=
  match l with
  | [] => None
  | y :: r => if cb_eqb x y then Some r
              else match remove_one x r with Some r' => Some (y :: r') | None => None end
  end.
(* a is a sub-multiset of b *)
Fixpoint msub (a b : list (N * blob)) : bool :=
  match a with
  | [] => true
  | x :: r => match remove_one x b with Some b' => msub r b' | None => false end
  end.
Definition meq (a b : list (N * blob)) : bool := (lenN (map fst a) =? lenN (map fst b)) && msub a b.
Definition subset (a b : list (N * blob)) : bool := forallb (fun x => existsb (cb_eqb x) b) a.
Definition of_cats (cs : list N) (l : list (N * blob)) : list (N * blob) :=
  filter (fun p => existsb (N.eqb (fst p)) cs) l.

Definition app_fields (i : appinfo) : list blob :=
  [blob_of (ai_license i); blob_of (ai_appname i); blob_of (ai_language i); blob_of (ai_version i);
   blob_of (ai_redirect i); blob_of (ai_environment i); blob_of (ai_labels i); blob_of (ai_metadata i);
   blob_of (ai_host i); blob_of (ai_display_host i); blob_of (ai_policy_token i); blob_of (ai_to_host i);
   blob_of (ai_docker_id i);
   (2, ai_to_port i); (8, ai_queue_size i); (1, if ai_high_security i then 1 else 0);
   (8, ai_span_limit i); (8, ai_log_limit i); (8, ai_custom_limit i)].

Definition blobs_eqb (a b : list blob) : bool :=
  (lenN (map fst a) =? lenN (map fst b)) && forallb (fun p => blob_eqb (fst p) (snd p)) (combine a b).
Definition oblob_eqb (a b : option blob) : bool :=
  match a, b with Some x, Some y => blob_eqb x y | None, None => true | _, _ => false end.

Definition is_support (p : N * blob) : bool :=
  (fst p =? 9) && existsb (fun w => blob_eqb (snd p) (blob_of (bytes_of_string (support_name w)))) [1; 2; 3; 4; 5].

(* the model's prediction of one observation, compared component by component; returns the next model state *)
Definition corr_step (budget : N) (st : pstate) (bs : bytes) (o : obs) : bool * pstate :=
  match step budget st (EvMsg bs) with
  | Crashed => (false, st)
  | Running st' out =>
      let cls := match out with OutNone => 0 | OutReply false => 1 | OutReply true => 2 | OutErr => 3 | OutPanic => 4 end in
      let act := match process_binary bs with Some (ConnAct a) => Some a | _ => None end in
      let kind_ok :=
        match act with
        | None => (o_kind o =? 0)
        | Some (ActTxn id) => (o_kind o =? 1) && oblob_eqb (o_id o) (Some (blob_of id))
        | Some (ActApp id info) =>
            (o_kind o =? 2) && oblob_eqb (o_id o) (match id with Some i => Some (blob_of i) | None => None end) &&
            blobs_eqb (o_extra o) (app_fields info)
        | Some (ActSpan id c b) =>
            (o_kind o =? 3) && oblob_eqb (o_id o) (Some (blob_of id)) && blobs_eqb (o_extra o) [(8, c); blob_of (ob b)]
        end in
      let contribs :=
        match act with
        | Some (ActTxn id) => if blob_eqb (blob_of id) run_a then map (fun c => (fst (proj c), blob_of (snd (proj c)))) (snd (decode_txn bs)) else []
        | _ => []
        end in
      let added_ok :=
        meq (of_cats [1; 2; 3; 4; 5] (o_added o)) (of_cats [1; 2; 3; 4; 5] contribs) &&
        subset (of_cats [6; 7; 8; 9; 10; 12] (o_added o)) contribs &&
        subset (filter is_support contribs) (o_added o) in
      let apps_ok := (o_apps_delta o =? Z.of_N (lenN (map ai_to_port (ps_apps st'))) - Z.of_N (lenN (map ai_to_port (ps_apps st))))%Z in
      ((o_class o =? cls) && kind_ok && added_ok && apps_ok && (o_proc o =? 0) && Bool.eqb (o_conn_closed o) (cls =? 4),
       mkP (ps_harvests st) (ps_apps st'))
  end.

Definition case := (N * list edit * N * obs)%type.   (* base, edits, checksum of the mutant, observation *)

(* one batch: the harness state is threaded (applications created by earlier mutants stay) *)
Fixpoint corr_batch (budget : N) (bases : list bytes) (st : pstate) (cs : list case) (i : nat) : list nat :=
  match cs with
  | [] => []
  | (base, es, ck, o) :: r =>
      let bs := mutant bases base es in
      let '(ok, st') := corr_step budget st bs o in
      if ok && (checksum bs =? ck) then corr_batch budget bases st' r (S i) else i :: corr_batch budget bases st' r (S i)
  end.

Fixpoint prop_batch (cs : list case) (i : nat) : list nat :=
  match cs with
  | [] => []
  | (_, _, _, o) :: r => if monitor o then prop_batch r (S i) else i :: prop_batch r (S i)
  end.

(* the state the harness sets up: runs rA and rB live, applications A and B known *)
Definition init_state (app_a app_b : bytes) : pstate :=
  let info m := match process_binary m with Some (ConnAct (ActApp _ i)) => [i] | _ => [] end in
  mkP [(bytes_of_string "rA", []); (bytes_of_string "rB", [])] (info app_a ++ info app_b)%list.

(* ---- hostile values: (span queue size, trace observer host given, log / span / custom limits as sent) and what
   the daemon did: crashed, the harvest limits it sent to the collector, the capacity of the log reservoir *)
Definition value_case := (N * bool * N * N * N * (bool * Z * Z * Z * Z))%type.
Definition value_monitor (c : value_case) : bool :=
  let '(_, _, _, _, _, (crashed, _, _, _, _)) := c in negb crashed.
Definition value_corr (budget : N) (collector_log_limit : Z) (c : value_case) : bool :=
  let '(q, host, lg, sp, cu, (crashed, sent_span, sent_log, sent_custom, log_cap)) := c in
  let model_crash := host && negb (q <=? budget) in
  Bool.eqb crashed model_crash &&
  (model_crash ||
   ((sent_span =? agent_limit sp 10000)%Z && (sent_log =? agent_limit lg 20000)%Z &&
    (sent_custom =? agent_limit cu 100000)%Z && (log_cap =? final_log_limit lg collector_log_limit)%Z)).
