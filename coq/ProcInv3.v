(* ProcInv3.v -- lifecycle invariants of the processor model (C03):
   a held run belongs to a connected application object, an application object has at most one held run,
   and a terminal verdict (disconnected by a 410, invalid license) is never left. *)
From Coq Require Import NArith ZArith List Bool Lia.
From Verif.Gen Require Limits_gen HarvestBits_gen.
From Verif Require Import Processor ProcInv.
Import ListNotations.

Definition terminal (st : astate) : bool :=
  match st with SDisconnected | SInvalidLicense => true | _ => false end.
Definition state_of (s : proc) (i : nat) : astate := a_state (get_obj s i).
Definition app_of (s : proc) (a : nat) : nat := ah_app (get_ah s a).

Record life_inv (s : proc) : Prop := {
  li_runs : runs_valid s;
  li_apps : forall k i, lookupN k (p_apps s) = Some i -> i < length (p_objs s);
  li_conn : forall r a, lookupN r (p_runs s) = Some a -> state_of s (app_of s a) = SConnected;
  li_uniq : forall r1 r2 a1 a2, lookupN r1 (p_runs s) = Some a1 -> lookupN r2 (p_runs s) = Some a2 ->
            app_of s a1 = app_of s a2 -> r1 = r2
}.

(* terminal states are kept *)
Definition keeps_terminal (s s' : proc) : Prop :=
  forall i, terminal (state_of s i) = true -> state_of s' i = state_of s i.

Lemma keeps_terminal_refl s : keeps_terminal s s.
Proof. intros i _. reflexivity. Qed.
Lemma keeps_terminal_trans a b c : keeps_terminal a b -> keeps_terminal b c -> keeps_terminal a c.
Proof. intros H1 H2 i T. rewrite (H2 i); [apply H1; exact T|]. rewrite (H1 i T). exact T. Qed.

(* ------------------------------------------------------------------ lists *)
Lemma nth_set_nth_eq {A} (l : list A) : forall i v d, i < length l -> nth i (set_nth i v l) d = v.
Proof. induction l as [|x r IH]; intros [|i] v d H; cbn in *; try lia; [reflexivity|apply IH; lia]. Qed.
Lemma nth_set_nth_neq {A} (l : list A) : forall i j v d, i <> j -> nth j (set_nth i v l) d = nth j l d.
Proof.
  induction l as [|x r IH]; intros [|i] [|j] v d H; cbn; try reflexivity; try congruence.
  apply IH. congruence.
Qed.
Lemma set_nth_oob {A} (l : list A) : forall i v, length l <= i -> set_nth i v l = l.
Proof. induction l as [|x r IH]; intros [|i] v H; cbn in *; try reflexivity; try lia. f_equal. apply IH. lia. Qed.

Lemma state_of_put_obj s i a j :
  state_of (put_obj s i a) j = if Nat.eqb i j && Nat.ltb i (length (p_objs s)) then a_state a else state_of s j.
Proof.
  unfold state_of, get_obj, put_obj. cbn [p_objs with_objs].
  destruct (Nat.eqb_spec i j) as [->|N]; cbn [andb].
  - destruct (Nat.ltb_spec j (length (p_objs s))) as [L|L].
    + rewrite nth_set_nth_eq by exact L. reflexivity.
    + rewrite set_nth_oob by exact L. reflexivity.
  - rewrite nth_set_nth_neq by exact N. reflexivity.
Qed.

Lemma state_of_put_obj_same s i a j : a_state a = state_of s i -> state_of (put_obj s i a) j = state_of s j.
Proof.
  intros H. rewrite state_of_put_obj. destruct (Nat.eqb_spec i j) as [->|N]; cbn [andb]; [|reflexivity].
  destruct (Nat.ltb (length (p_objs s))); destruct (j <? length (p_objs s)); congruence.
Qed.

Lemma app_of_put_ah_h s i h a : app_of (put_ah_h s i h) a = app_of s a.
Proof.
  unfold app_of, get_ah, put_ah_h. cbn [p_ahs with_ahs].
  destruct (Nat.eq_dec i a) as [->|N].
  - destruct (Nat.lt_ge_cases a (length (p_ahs s))) as [L|L].
    + rewrite nth_set_nth_eq by exact L. reflexivity.
    + rewrite set_nth_oob by exact L. reflexivity.
  - rewrite nth_set_nth_neq by exact N. reflexivity.
Qed.

(* ------------------------------------------------------------------ steps that leave the lifecycle alone *)
Definition life_same (s s' : proc) : Prop :=
  p_runs s' = p_runs s /\ p_apps s' = p_apps s /\ length (p_objs s') = length (p_objs s) /\
  length (p_ahs s') = length (p_ahs s) /\
  (forall i, state_of s' i = state_of s i) /\ (forall a, app_of s' a = app_of s a).

Lemma life_same_refl s : life_same s s.
Proof. repeat split. Qed.
Lemma life_same_trans a b c : life_same a b -> life_same b c -> life_same a c.
Proof.
  intros (A1 & A2 & A3 & A4 & A5 & A6) (B1 & B2 & B3 & B4 & B5 & B6).
  unfold life_same. split; [congruence|]. split; [congruence|]. split; [congruence|]. split; [congruence|].
  split; intros x; [rewrite B5, A5|rewrite B6, A6]; reflexivity.
Qed.

Lemma life_same_inv s s' : life_same s s' -> life_inv s -> life_inv s' /\ keeps_terminal s s'.
Proof.
  intros (H1 & H2 & H3 & H4 & H5 & H6) [V A C U]. split; [|intros i _; apply H5].
  constructor.
  - intros r a L. rewrite H1 in L. rewrite H4. exact (V r a L).
  - intros k i L. rewrite H2 in L. rewrite H3. exact (A k i L).
  - intros r a L. rewrite H1 in L. rewrite H5, H6. exact (C r a L).
  - intros r1 r2 a1 a2 L1 L2 E. rewrite H1 in L1, L2. rewrite !H6 in E. exact (U r1 r2 a1 a2 L1 L2 E).
Qed.

Lemma life_same_put_obj s i a : a_state a = state_of s i -> life_same s (put_obj s i a).
Proof.
  intros H. unfold life_same. repeat split.
  - unfold put_obj. cbn [p_objs with_objs]. apply length_set_nth.
  - intros j. apply state_of_put_obj_same. exact H.
Qed.

Lemma life_same_put_ah_h s i h : life_same s (put_ah_h s i h).
Proof.
  unfold life_same. repeat split.
  - unfold put_ah_h. cbn [p_ahs with_ahs]. apply length_set_nth.
  - intros a. apply app_of_put_ah_h.
Qed.

Lemma life_same_only_next s s' : only_next s s' -> life_same s s'.
Proof.
  intros ((A1 & _) & (R1 & R2) & O & _ & _ & P & _). unfold life_same, state_of, app_of, get_obj, get_ah.
  rewrite R1, R2, O, P. repeat split.
Qed.

(* same fields, different wrapper *)
Ltac ls_triv := unfold life_same, state_of, app_of, get_obj, get_ah; repeat split.

Lemma consider_connect_life s i : life_same s (fst (consider_connect s i)).
Proof.
  unfold consider_connect. destruct (needs_connect (get_obj s i) (p_now s)); cbn [fst]; [|apply life_same_refl].
  eapply life_same_trans; [apply (life_same_put_obj s i (set_attempt (get_obj s i) (p_now s))); reflexivity|]. ls_triv.
Qed.

Lemma txn_data_life s run t : life_same s (fst (txn_data s run t)).
Proof.
  unfold txn_data. destruct (lookupN run (p_runs s)) as [ahid|]; [|apply life_same_refl].
  destruct (aggregate (ah_h (get_ah s ahid)) t) as [[h' d] ov]. cbn [fst].
  set (s1 := put_obj s (ah_app (get_ah s ahid)) (set_activity (get_obj s (ah_app (get_ah s ahid))) (p_now s))).
  assert (L1 : life_same s s1) by (apply life_same_put_obj; reflexivity).
  assert (L2 : life_same s1 (put_ah_h s1 ahid h')) by apply life_same_put_ah_h.
  eapply life_same_trans; [exact L1|]. eapply life_same_trans; [exact L2|]. ls_triv.
Qed.

Lemma filter_harvest_pkgs_life s appi h : life_same s (fst (filter_harvest_pkgs s appi h)).
Proof.
  unfold filter_harvest_pkgs. destruct (h_haspkgs h); [|apply life_same_refl].
  destruct (filter_pkgs (a_seen_pkgs (get_obj s appi)) (h_bag h CPkgs)) as [[newp oldp] seen']. cbn [fst].
  eapply life_same_trans; [apply (life_same_put_obj s appi (set_seen_pkgs (get_obj s appi) seen')); reflexivity|]. ls_triv.
Qed.

Lemma register_life s qs : life_same s (register s qs).
Proof. ls_triv. Qed.

Lemma usage_request_life s e : life_same s (fst (usage_request s e)).
Proof. unfold usage_request. destruct (Nat.eqb (p_ubuf s) 0); cbn [fst]; ls_triv. Qed.

Lemma harvest_by_type_life s ahid ty : life_same s (fst (harvest_by_type s ahid ty)).
Proof.
  unfold harvest_by_type.
  set (ah := get_ah s ahid). set (a := get_obj s (ah_app ah)). set (h := ah_h ah).
  set (grp := p_next s). set (s0 := with_next s (S grp)). set (e := ctx_of s0 ah grp). set (caps := cur_caps a).
  assert (L0 : life_same s s0) by ls_triv.
  destruct (has_bits ty HarvestBits_gen.HarvestAll).
  - pose proof (filter_harvest_pkgs_life (put_ah_h s0 ahid (new_harvest caps)) (ah_app ah) h) as F.
    destruct (filter_harvest_pkgs (put_ah_h s0 ahid (new_harvest caps)) (ah_app ah) h) as [s2 h1]. cbn [fst] in F.
    pose proof (emit_cats_ok e (final_metrics h1) all_order s2) as [O _].
    destruct (emit_cats s2 e (final_metrics h1) all_order) as [s3 qs]. cbn [fst] in O.
    apply life_same_only_next in O.
    assert (L3 : life_same s (register s3 qs)).
    { eapply life_same_trans; [exact L0|]. eapply life_same_trans; [apply life_same_put_ah_h|].
      eapply life_same_trans; [exact F|]. eapply life_same_trans; [exact O|]. apply register_life. }
    destruct (Nat.eqb (length qs) 0).
    + pose proof (usage_request_life (register s3 qs) e) as U.
      destruct (usage_request (register s3 qs) e) as [s5 u]. cbn [fst] in *.
      eapply life_same_trans; [exact L3|]. eapply life_same_trans; [exact U|]. apply register_life.
    + cbn [fst]. eapply life_same_trans; [exact L3|]. ls_triv.
  - assert (D : life_same s0 (fst (fst (default_stage s0 e (ah_app ah) h (has_bits ty HarvestBits_gen.HarvestDefaultData))))).
    { unfold default_stage. destruct (has_bits ty HarvestBits_gen.HarvestDefaultData); [|apply life_same_refl].
      pose proof (filter_harvest_pkgs_life s0 (ah_app ah) (final_metrics h)) as F.
      destruct (filter_harvest_pkgs s0 (ah_app ah) (final_metrics h)) as [s1 hp]. cbn [fst] in F.
      pose proof (emit_cats_ok e hp default_order s1) as [O _].
      destruct (emit_cats s1 e hp default_order) as [s2 qs]. cbn [fst] in *.
      apply life_same_only_next in O. eapply life_same_trans; eassumption. }
    destruct (default_stage s0 e (ah_app ah) h (has_bits ty HarvestBits_gen.HarvestDefaultData)) as [[s1 h1] qs1]. cbn [fst] in D.
    pose proof (event_steps_ok ty caps e event_order (s1, h1, qs1)) as E.
    destruct (fold_left (event_step ty caps e) event_order (s1, h1, qs1)) as [[s2 h2] qs2].
    destruct E as [O _]. apply life_same_only_next in O.
    assert (L3 : life_same s (register (put_ah_h s2 ahid h2) qs2)).
    { eapply life_same_trans; [exact L0|]. eapply life_same_trans; [exact D|]. eapply life_same_trans; [exact O|].
      eapply life_same_trans; [apply life_same_put_ah_h|]. apply register_life. }
    destruct (Nat.eqb (length qs2) 0).
    + destruct (has_bits ty HarvestBits_gen.HarvestDefaultData && negb (harvest_empty h)); [|exact L3].
      pose proof (usage_request_life (register (put_ah_h s2 ahid h2) qs2) e) as U.
      destruct (usage_request (register (put_ah_h s2 ahid h2) qs2) e) as [s5 u]. cbn [fst] in *.
      eapply life_same_trans; [exact L3|]. eapply life_same_trans; [exact U|]. apply register_life.
    + cbn [fst]. eapply life_same_trans; [exact L3|]. ls_triv.
Qed.

Lemma group_done_life s gid : life_same s (fst (group_done s gid)).
Proof.
  unfold group_done. destruct (find (fun g => Nat.eqb (g_id g) gid) (p_groups s)) as [g|]; [|apply life_same_refl].
  destruct (Nat.eqb (g_pending g) 1); [|cbn [fst]; ls_triv].
  destruct (g_usage g); [|cbn [fst]; ls_triv].
  set (s1 := with_groups s (filter (fun g' => negb (Nat.eqb (g_id g') gid)) (p_groups s))).
  pose proof (usage_request_life s1 (g_ctx g)) as U.
  destruct (usage_request s1 (g_ctx g)) as [s2 u]. cbn [fst] in *.
  eapply life_same_trans; [|eapply life_same_trans; [exact U|apply register_life]]. ls_triv.
Qed.

(* ------------------------------------------------------------------ steps that change the lifecycle *)
Lemma lookupN_removeN_same {A} k (l : list (N * A)) : lookupN k (removeN k l) = None.
Proof.
  induction l as [|[a b] r IH]; cbn; [reflexivity|]. destruct (N.eqb_spec a k); [exact IH|].
  cbn. destruct (N.eqb_spec a k); [congruence|exact IH].
Qed.

Lemma lookupN_removeN_neq {A} k k' (l : list (N * A)) v : lookupN k (removeN k' l) = Some v -> k <> k'.
Proof. intros H E. subst. rewrite lookupN_removeN_same in H. discriminate. Qed.

(* changing the state of an application object that has no held run *)
Lemma put_obj_no_run s i a' :
  life_inv s -> (forall r a, lookupN r (p_runs s) = Some a -> app_of s a <> i) -> life_inv (put_obj s i a').
Proof.
  intros [V A C U] H. constructor.
  - exact V.
  - intros k j L. unfold put_obj. cbn [p_objs with_objs p_apps] in *. rewrite length_set_nth. exact (A k j L).
  - intros r a L. change (app_of (put_obj s i a') a) with (app_of s a). rewrite state_of_put_obj.
    destruct (Nat.eqb_spec i (app_of s a)) as [E|E]; [exfalso; exact (H r a L (eq_sym E))|]. cbn [andb]. exact (C r a L).
  - exact U.
Qed.

(* dropping a run, whatever happens to the state of its application object *)
Lemma kill_run s r a a' :
  life_inv s -> lookupN r (p_runs s) = Some a ->
  life_inv (shutdown_run (put_obj s (app_of s a) a') r).
Proof.
  intros [V A C U] L. constructor.
  - intros r' j L'. unfold shutdown_run, put_obj in *. cbn [p_runs with_runs with_objs p_ahs] in *.
    apply lookupN_removeN in L'. exact (V r' j L').
  - intros k j L'. unfold shutdown_run, put_obj in *. cbn [p_objs with_objs with_runs p_apps] in *.
    rewrite length_set_nth. exact (A k j L').
  - intros r' a2 L'. unfold shutdown_run in L'. cbn [p_runs with_runs put_obj with_objs] in L'.
    pose proof (lookupN_removeN_neq _ _ _ _ L') as Hn. apply lookupN_removeN in L'.
    change (app_of (shutdown_run (put_obj s (app_of s a) a') r) a2) with (app_of s a2).
    change (state_of (shutdown_run (put_obj s (app_of s a) a') r) (app_of s a2)) with
           (state_of (put_obj s (app_of s a) a') (app_of s a2)).
    rewrite state_of_put_obj. destruct (Nat.eqb_spec (app_of s a) (app_of s a2)) as [E|E].
    + exfalso. apply Hn. exact (U r' r a2 a L' L (eq_sym E)).
    + cbn [andb]. exact (C r' a2 L').
  - intros r1 r2 a1 a2 L1 L2 E. unfold shutdown_run in L1, L2. cbn [p_runs with_runs put_obj with_objs] in L1, L2.
    apply lookupN_removeN in L1. apply lookupN_removeN in L2. exact (U r1 r2 a1 a2 L1 L2 E).
Qed.

Lemma kill_run_terminal s r a a' :
  life_inv s -> lookupN r (p_runs s) = Some a -> keeps_terminal s (shutdown_run (put_obj s (app_of s a) a') r).
Proof.
  intros I L i T. change (state_of (shutdown_run (put_obj s (app_of s a) a') r) i) with (state_of (put_obj s (app_of s a) a') i).
  rewrite state_of_put_obj. destruct (Nat.eqb_spec (app_of s a) i) as [E|E]; [|reflexivity].
  subst i. rewrite (li_conn s I r a L) in T. discriminate.
Qed.

(* removing runs / application entries only *)
Lemma drop_entries s r k :
  life_inv s -> life_inv (with_apps (shutdown_run s r) (removeN k (p_apps s))) /\
                keeps_terminal s (with_apps (shutdown_run s r) (removeN k (p_apps s))).
Proof.
  intros [V A C U]. split; [|intros i _; reflexivity]. constructor.
  - intros r' j L. cbn [p_runs with_apps shutdown_run with_runs p_ahs] in *. apply lookupN_removeN in L. exact (V r' j L).
  - intros k' j L. cbn [p_apps with_apps p_objs shutdown_run with_runs] in *. apply lookupN_removeN in L. exact (A k' j L).
  - intros r' a L. cbn [p_runs with_apps shutdown_run with_runs] in L. apply lookupN_removeN in L. exact (C r' a L).
  - intros r1 r2 a1 a2 L1 L2 E. cbn [p_runs with_apps shutdown_run with_runs] in L1, L2.
    apply lookupN_removeN in L1. apply lookupN_removeN in L2. exact (U r1 r2 a1 a2 L1 L2 E).
Qed.

Lemma connect_failed_life s key f :
  life_inv s -> life_inv (connect_failed s key f) /\ keeps_terminal s (connect_failed s key f).
Proof.
  intros I. unfold connect_failed. destruct (lookupN key (p_apps s)) as [i|]; [|split; [exact I|apply keeps_terminal_refl]].
  destruct (astate_eqb (a_state (get_obj s i)) SUnknown) eqn:E; cbn [negb]; [|split; [exact I|apply keeps_terminal_refl]].
  assert (Hu : state_of s i = SUnknown) by (unfold state_of; destruct (a_state (get_obj s i)); try discriminate; reflexivity).
  assert (Hno : forall r a, lookupN r (p_runs s) = Some a -> app_of s a <> i).
  { intros r a L Ei. pose proof (li_conn s I r a L) as Hc. rewrite Ei, Hu in Hc. discriminate. }
  assert (G : forall a', life_inv (put_obj s i a') /\ keeps_terminal s (put_obj s i a')).
  { intros a'. split; [apply put_obj_no_run; assumption|].
    intros j T. rewrite state_of_put_obj. destruct (Nat.eqb_spec i j) as [->|N]; [|reflexivity].
    rewrite Hu in T. discriminate. }
  destruct f as [[]|]; apply G.
Qed.

Lemma nth_app_l {A} (l : list A) x i d : i < length l -> nth i (l ++ [x]) d = nth i l d.
Proof. intros H. apply app_nth1. exact H. Qed.

Lemma connect_ok_life s key host r :
  life_inv s -> life_inv (connect_ok s key host r) /\ keeps_terminal s (connect_ok s key host r).
Proof.
  intros I. unfold connect_ok. destruct (lookupN key (p_apps s)) as [i|] eqn:La; [|split; [exact I|apply keeps_terminal_refl]].
  destruct (astate_eqb (a_state (get_obj s i)) SUnknown) eqn:E; cbn [negb]; [|split; [exact I|apply keeps_terminal_refl]].
  assert (Hu : state_of s i = SUnknown) by (unfold state_of; destruct (a_state (get_obj s i)); try discriminate; reflexivity).
  pose proof (li_apps s I key i La) as Hi.
  destruct I as [V A C U].
  set (s1 := put_obj s i (set_connected (get_obj s i) r host)).
  assert (St : forall j, state_of s1 j = if Nat.eqb i j then SConnected else state_of s j).
  { intros j. subst s1. rewrite state_of_put_obj. apply Nat.ltb_lt in Hi. rewrite Hi, andb_true_r. reflexivity. }
  assert (Hno : forall r' a, lookupN r' (p_runs s) = Some a -> app_of s a <> i).
  { intros r' a L Ei. pose proof (C r' a L) as Hc. rewrite Ei, Hu in Hc. discriminate. }
  set (n := length (p_ahs s)).
  set (s3 := with_runs (with_ahs s1 (p_ahs s1 ++ [{| ah_app := i; ah_run := cr_run r; ah_h := new_harvest (cr_caps r) |}]))
                       (setN (cr_run r) (length (p_ahs s1)) (p_runs s1))).
  change (life_inv s3 /\ keeps_terminal s s3).
  assert (Ao : forall a, a < n -> app_of s3 a = app_of s a).
  { intros a Ha. unfold app_of, get_ah. subst s3 s1. cbn [p_ahs with_runs with_ahs put_obj with_objs]. rewrite nth_app_l by exact Ha. reflexivity. }
  assert (An : app_of s3 n = i).
  { unfold app_of, get_ah. subst s3 s1 n. cbn [p_ahs with_runs with_ahs put_obj with_objs]. rewrite nth_middle. reflexivity. }
  assert (So : forall j, state_of s3 j = state_of s1 j) by reflexivity.
  assert (Rs : p_runs s3 = setN (cr_run r) n (p_runs s)) by reflexivity.
  assert (Ls : length (p_ahs s3) = S n).
  { unfold s3, s1, n. cbn [p_ahs with_runs with_ahs put_obj with_objs]. rewrite app_length. cbn [length]. lia. }
  assert (Lo : length (p_objs s3) = length (p_objs s)).
  { unfold s3, s1. cbn [p_objs with_runs with_ahs put_obj with_objs]. apply length_set_nth. }
  assert (Ap : p_apps s3 = p_apps s) by reflexivity.
  split.
  - constructor.
    + intros r' a L. rewrite Rs in L. rewrite Ls.
      apply lookupN_setN in L. destruct L as [[_ ->]|L]; [lia|]. specialize (V r' a L). fold n in V. lia.
    + intros k j L. rewrite Ap in L. rewrite Lo. exact (A k j L).
    + intros r' a L. rewrite Rs in L. apply lookupN_setN in L. destruct L as [[_ ->]|L].
      * rewrite An, So, St, Nat.eqb_refl. reflexivity.
      * pose proof (V r' a L) as Ha. fold n in Ha.
        rewrite (Ao a Ha), So, St. destruct (Nat.eqb_spec i (app_of s a)) as [Ei|Ei]; [reflexivity|exact (C r' a L)].
    + intros r1 r2 a1 a2 L1 L2 Eq. rewrite Rs in L1, L2.
      apply lookupN_setN in L1. apply lookupN_setN in L2.
      destruct L1 as [[-> ->]|L1]; destruct L2 as [[-> ->]|L2]; try reflexivity.
      * exfalso. pose proof (V r2 a2 L2) as Ha. fold n in Ha. rewrite An, (Ao a2 Ha) in Eq. exact (Hno r2 a2 L2 (eq_sym Eq)).
      * exfalso. pose proof (V r1 a1 L1) as Ha. fold n in Ha. rewrite An, (Ao a1 Ha) in Eq. exact (Hno r1 a1 L1 Eq).
      * pose proof (V r1 a1 L1) as H1. pose proof (V r2 a2 L2) as H2. fold n in H1, H2.
        rewrite (Ao a1 H1), (Ao a2 H2) in Eq. exact (U r1 r2 a1 a2 L1 L2 Eq).
  - intros j T. rewrite So, St. destruct (Nat.eqb_spec i j) as [->|N]; [rewrite Hu in T; discriminate|reflexivity].
Qed.

Definition life_ok (s s' : proc) : Prop := life_inv s' /\ keeps_terminal s s'.

Lemma life_ok_same s s' : life_inv s -> life_same s s' -> life_ok s s'.
Proof. intros I L. apply life_same_inv; assumption. Qed.

Lemma life_ok_trans a b c : life_ok a b -> life_ok b c -> life_ok a c.
Proof. intros [_ K1] [I2 K2]. split; [exact I2|eapply keeps_terminal_trans; eassumption]. Qed.

Lemma app_info_life s key dt id : life_inv s -> life_ok s (fst (app_info s key dt id)).
Proof.
  intros I. unfold app_info.
  destruct (match id with Some r => match lookupN r (p_runs s) with Some _ => true | None => false end | None => false end);
    [cbn [fst]; apply life_ok_same; [exact I|apply life_same_refl]|].
  destruct (lookupN key (p_apps s)) as [i|] eqn:La.
  - set (s1 := put_obj s i (set_activity (get_obj s i) (p_now s))).
    assert (L1 : life_same s s1) by (apply life_same_put_obj; reflexivity).
    pose proof (consider_connect_life s1 i) as L2. destruct (consider_connect s1 i) as [s2 o]. cbn [fst] in *.
    apply life_ok_same; [exact I|eapply life_same_trans; eassumption].
  - destruct (Nat.leb app_limit (length (p_apps s))); [cbn [fst]; apply life_ok_same; [exact I|apply life_same_refl]|].
    set (i := length (p_objs s)).
    set (a := {| a_key := key; a_dt := dt; a_state := SUnknown; a_last_attempt := None; a_last_activity := p_now s;
                 a_reply := None; a_collector := 0; a_seen_pkgs := [] |}).
    set (s1 := with_apps (with_objs s (p_objs s ++ [a])) ((key, i) :: p_apps s)).
    assert (So : forall j, j < i -> state_of s1 j = state_of s j).
    { intros j Hj. unfold state_of, get_obj, s1. cbn [p_objs with_apps with_objs]. rewrite nth_app_l by exact Hj. reflexivity. }
    assert (Sd : forall j, i <= j -> state_of s j = SUnknown).
    { intros j Hj. unfold state_of, get_obj. rewrite nth_overflow by exact Hj. reflexivity. }
    assert (I1 : life_ok s s1).
    { destruct I as [V A C U]. split.
      - constructor.
        + exact V.
        + intros k j L. unfold s1 in *. cbn [p_apps with_apps p_objs with_objs lookupN] in *. rewrite app_length. cbn [length].
          destruct (N.eqb key k); [inversion L; subst; fold i; lia|]. specialize (A k j L). lia.
        + intros r a0 L. change (app_of s1 a0) with (app_of s a0). change (p_runs s1) with (p_runs s) in L.
          pose proof (C r a0 L) as Hc.
          destruct (Nat.lt_ge_cases (app_of s a0) i) as [Hl|Hl]; [rewrite So by exact Hl; exact Hc|].
          rewrite (Sd _ Hl) in Hc. discriminate.
        + exact U.
      - intros j T. destruct (Nat.lt_ge_cases j i) as [Hl|Hl]; [apply So; exact Hl|]. rewrite (Sd _ Hl) in T. discriminate. }
    pose proof (consider_connect_life s1 i) as L2. destruct (consider_connect s1 i) as [s2 o]. cbn [fst] in *.
    eapply life_ok_trans; [exact I1|]. apply life_ok_same; [exact (proj1 I1)|exact L2].
Qed.

Lemma pre_reply_life s n o : life_inv s -> life_ok s (fst (pre_reply s n o)).
Proof.
  intros I. unfold pre_reply. destruct (nth_error (p_conns s) n) as [c|]; [|cbn [fst]; apply life_ok_same; [exact I|apply life_same_refl]].
  destruct (ca_stage c); [|cbn [fst]; apply life_ok_same; [exact I|apply life_same_refl]].
  assert (I1 : life_inv (with_conns s (remove_nth n (p_conns s)))).
  { destruct I as [V A C U]. constructor; assumption. }
  destruct o as [host|f|]; cbn [fst].
  - apply life_ok_same; [exact I|ls_triv].
  - apply (connect_failed_life (with_conns s (remove_nth n (p_conns s))) (ca_key c) (Some f) I1).
  - apply (connect_failed_life (with_conns s (remove_nth n (p_conns s))) (ca_key c) None I1).
Qed.

Lemma conn_reply_life s n o : life_inv s -> life_ok s (fst (conn_reply s n o)).
Proof.
  intros I. unfold conn_reply. destruct (nth_error (p_conns s) n) as [c|]; [|cbn [fst]; apply life_ok_same; [exact I|apply life_same_refl]].
  destruct (ca_stage c) as [|host]; [cbn [fst]; apply life_ok_same; [exact I|apply life_same_refl]|].
  set (s1 := with_conns s (remove_nth n (p_conns s))).
  assert (I1 : life_inv s1) by (destruct I as [V A C U]; constructor; assumption).
  destruct o as [r|f| |]; cbn [fst].
  - apply (connect_ok_life s1 (ca_key c) host r I1).
  - apply (connect_failed_life s1 (ca_key c) (Some f) I1).
  - apply (connect_failed_life s1 (ca_key c) None I1).
  - apply (connect_failed_life s1 (ca_key c) None I1).
Qed.

Lemma tick_life s ahid ty : life_inv s -> life_ok s (fst (tick s ahid ty)).
Proof.
  intros I. unfold tick. destruct (Nat.leb (length (p_ahs s)) ahid); [cbn [fst]; apply life_ok_same; [exact I|apply life_same_refl]|].
  destruct (inactive (get_obj s (ah_app (get_ah s ahid))) (p_now s)).
  - cbn [fst]. apply drop_entries. exact I.
  - apply life_ok_same; [exact I|apply harvest_by_type_life].
Qed.

Lemma harvest_error_life s q f : life_inv s -> life_ok s (fst (harvest_error s q f)).
Proof.
  intros I. unfold harvest_error. destruct (lookupN (rq_run q) (p_runs s)) as [ahid|] eqn:L;
    [|cbn [fst]; apply life_ok_same; [exact I|ls_triv]].
  set (ah := get_ah s ahid). set (c := cat_of q).
  match goal with |- context [if should_save f then ?A else ?B] => set (s1 := if should_save f then A else B) end.
  assert (L1 : life_same s s1).
  { subst s1. destruct (should_save f); [|ls_triv].
    destruct (merge_failed (ah_h ah) c q) as [[h1 refused] given_up].
    eapply life_same_trans; [apply (life_same_put_ah_h s ahid h1)|]. ls_triv. }
  destruct (life_same_inv s s1 L1 I) as [I1 K1].
  assert (Lr : lookupN (rq_run q) (p_runs s1) = Some ahid) by (destruct L1 as (R & _); rewrite R; exact L).
  assert (Ea : ah_app ah = app_of s1 ahid) by (destruct L1 as (_ & _ & _ & _ & _ & Ao); rewrite Ao; reflexivity).
  set (i := ah_app ah). set (a := get_obj s1 i).
  assert (SH : forall st, life_ok s (shutdown_run (put_obj s1 i (set_state a st)) (rq_run q))).
  { intros st. split.
    - unfold i. rewrite Ea. apply kill_run; assumption.
    - eapply keeps_terminal_trans; [exact K1|]. unfold i. rewrite Ea. apply kill_run_terminal; assumption. }
  assert (CC : forall st, life_ok s (fst (consider_connect (shutdown_run (put_obj s1 i (set_state a st)) (rq_run q)) i))).
  { intros st. eapply life_ok_trans; [apply (SH st)|]. apply life_ok_same; [apply (SH st)|apply consider_connect_life]. }
  destruct f; cbn [fst];
    try (destruct (astate_eqb (a_state a) SDisconnected); cbn [fst]);
    try (destruct (astate_eqb (a_state a) SRestart); cbn [fst]);
    try apply SH; try apply CC; try (split; assumption).
Qed.

Lemma reply_life s n o : life_inv s -> life_ok s (fst (reply s n o)).
Proof.
  intros I. unfold reply. destruct (nth_error (p_reqs s) n) as [q|]; [|cbn [fst]; apply life_ok_same; [exact I|apply life_same_refl]].
  set (s0 := add_usage (with_reqs s (remove_nth n (p_reqs s)))).
  assert (I0 : life_ok s s0) by (apply life_ok_same; [exact I|ls_triv]).
  assert (S1 : exists s1 o1, (match o with
                             | OOk => (ghost_ack s0 (tags (rq_items q)), [])
                             | OFail f => harvest_error s0 q f end) = (s1, o1) /\ life_ok s s1).
  { destruct o as [|f].
    - eexists _, _. split; [reflexivity|]. eapply life_ok_trans; [exact I0|]. apply life_ok_same; [exact (proj1 I0)|ls_triv].
    - pose proof (harvest_error_life s0 q f (proj1 I0)) as H. destruct (harvest_error s0 q f) as [s1 o1].
      cbn [fst] in H. eexists _, _. split; [reflexivity|]. eapply life_ok_trans; [exact I0|exact H]. }
  destruct S1 as (s1 & o1 & -> & I1).
  destruct (rq_kind q); cbn [fst]; try exact I1.
  pose proof (group_done_life s1 (rq_group q)) as G. destruct (group_done s1 (rq_group q)) as [s2 o2]. cbn [fst] in *.
  eapply life_ok_trans; [exact I1|]. apply life_ok_same; [exact (proj1 I1)|exact G].
Qed.

Lemma flush_run_life outs acc ra : life_inv (fst acc) -> life_ok (fst acc) (fst (flush_run outs acc ra)).
Proof.
  destruct acc as [s o]. cbn [fst]. intros I. unfold flush_run.
  destruct (Nat.leb (length (p_ahs s)) (snd ra)); [cbn [fst]; apply life_ok_same; [exact I|apply life_same_refl]|].
  set (ah := get_ah s (snd ra)). set (a := get_obj s (ah_app ah)).
  destruct (flush_inactive a (p_now s)); [cbn [fst]; apply drop_entries; exact I|].
  pose proof (filter_harvest_pkgs_life (put_ah_h s (snd ra) (new_harvest (cur_caps a))) (ah_app ah) (ah_h ah)) as F.
  destruct (filter_harvest_pkgs (put_ah_h s (snd ra) (new_harvest (cur_caps a))) (ah_app ah) (ah_h ah)) as [s2 h1]. cbn [fst] in F.
  pose proof (emit_cats_ok (ctx_of s ah 0) (final_metrics h1) all_order s2) as [O _].
  destruct (emit_cats s2 (ctx_of s ah 0) (final_metrics h1) all_order) as [s3 qs]. cbn [fst] in O.
  apply life_same_only_next in O. cbn [fst].
  apply life_ok_same; [exact I|].
  eapply life_same_trans; [apply life_same_put_ah_h|]. eapply life_same_trans; [exact F|]. eapply life_same_trans; [exact O|].
  set (f := fun (sa : proc) (q : request) => match outs (rq_run q) (cat_of q) with
                                             | OOk => ghost_ack sa (tags (rq_items q))
                                             | OFail _ => ghost_drop sa RFinalFailed (tags (rq_items q)) end).
  assert (G : forall l sa, life_same sa (fold_left f l sa)).
  { induction l as [|q r IH]; intros sa; cbn [fold_left]; [apply life_same_refl|].
    eapply life_same_trans; [|apply IH]. unfold f. destruct (outs (rq_run q) (cat_of q)); ls_triv. }
  eapply life_same_trans; [|apply G]. ls_triv.
Qed.

Lemma clean_exit_life s outs : life_inv s -> life_ok s (fst (clean_exit s outs)).
Proof.
  intros I. unfold clean_exit.
  assert (G : forall l acc, life_inv (fst acc) -> life_ok (fst acc) (fst (fold_left (flush_run outs) l acc))).
  { induction l as [|ra r IH]; intros acc Ia; cbn [fold_left]; [apply life_ok_same; [exact Ia|apply life_same_refl]|].
    pose proof (flush_run_life outs acc ra Ia) as H. eapply life_ok_trans; [exact H|]. apply IH. exact (proj1 H). }
  specialize (G (p_runs s) (s, []) I). destruct (fold_left (flush_run outs) (p_runs s) (s, [])) as [s1 o]. cbn [fst] in *.
  eapply life_ok_trans; [exact G|]. apply life_ok_same; [exact (proj1 G)|ls_triv].
Qed.

Theorem step_life s o : life_inv s -> life_ok s (fst (step s o)).
Proof.
  intros I. unfold step. destruct (p_quit s); [cbn [fst]; apply life_ok_same; [exact I|apply life_same_refl]|].
  destruct o as [key dt id|run t|n po|n co|ah ty|n oc|c oc|dt|outs].
  - apply app_info_life; exact I.
  - apply life_ok_same; [exact I|apply txn_data_life].
  - apply pre_reply_life; exact I.
  - apply conn_reply_life; exact I.
  - apply tick_life; exact I.
  - apply reply_life; exact I.
  - destruct (find_index (req_is c) (p_reqs s) 0); [apply reply_life; exact I|cbn [fst]; apply life_ok_same; [exact I|apply life_same_refl]].
  - cbn [fst]. apply life_ok_same; [exact I|ls_triv].
  - apply clean_exit_life; exact I.
Qed.

Lemma life_inv_init : life_inv init.
Proof. constructor; intros; cbn in *; discriminate. Qed.

Lemma run_from_life ops : forall s, life_inv s -> life_ok s (fst (run_from s ops)).
Proof.
  induction ops as [|o r IH]; intros s I; cbn [run_from]; [apply life_ok_same; [exact I|apply life_same_refl]|].
  pose proof (step_life s o I) as H. destruct (step s o) as [s1 out1]. cbn [fst] in H.
  specialize (IH s1 (proj1 H)). destruct (run_from s1 r) as [s2 outs]. cbn [fst] in *.
  eapply life_ok_trans; [exact H|exact IH].
Qed.

(* the lifecycle invariant holds in every reachable state *)
Theorem life_inv_reachable ops : life_inv (fst (run ops)).
Proof. exact (proj1 (run_from_life ops init life_inv_init)). Qed.

(* C03: a terminal verdict is permanent.  Once an application object is disconnected (410 at any stage) or
   has an invalid license (401 at connect), no later history changes its state. *)
Theorem terminal_permanent pre post i :
  let s := fst (run pre) in
  terminal (state_of s i) = true ->
  state_of (fst (run_from s post)) i = state_of s i.
Proof.
  intros s T. exact (proj2 (run_from_life post s (life_inv_reachable pre)) i T).
Qed.

(* ... and such an application is never connected again: a connect attempt is only started for an
   application in the unknown state *)
Lemma terminal_no_connect a now : terminal (a_state a) = true -> needs_connect a now = false.
Proof. unfold needs_connect. destruct (a_state a); cbn; try discriminate; reflexivity. Qed.

Lemma consider_connect_terminal_silent s i :
  terminal (state_of s i) = true -> consider_connect s i = (s, []).
Proof. intros T. unfold consider_connect. rewrite (terminal_no_connect _ _ T). reflexivity. Qed.

(* agents are told "connected" only while the daemon holds a run for that application:
   a held run's application is connected, and it is the only run of that application *)
Theorem held_run_connected ops r a :
  let s := fst (run ops) in
  lookupN r (p_runs s) = Some a -> state_of s (app_of s a) = SConnected.
Proof. intros s L. exact (li_conn s (life_inv_reachable ops) r a L). Qed.
