(* LimiterProofs.v -- proofs about the limitClient LTS of Limiter.v *)
From Coq Require Import NArith ZArith List Bool Arith Lia.
From Verif Require Import Limiter.
Import ListNotations.
Open Scope N_scope.

(* ---------- list update ---------- *)
Lemma upd_length {A} i (x : A) l : length (upd i x l) = length l.
Proof.
  revert i. induction l as [|h t IH]; intros i; [reflexivity|].
  destruct i; cbn [upd length]; [reflexivity|]. rewrite IH. reflexivity.
Qed.

Lemma nth_error_upd_same {A} i (x : A) l : (i < length l)%nat -> nth_error (upd i x l) i = Some x.
Proof.
  revert i. induction l as [|h t IH]; intros i Hi; cbn [length] in Hi; [lia|].
  destruct i; cbn [upd nth_error]; [reflexivity|]. apply IH. lia.
Qed.

Lemma nth_error_upd_other {A} i j (x : A) l : i <> j -> nth_error (upd j x l) i = nth_error l i.
Proof.
  revert i j. induction l as [|h t IH]; intros i j Hne; [destruct j; reflexivity|].
  destruct j, i; cbn [upd nth_error]; try reflexivity; [congruence|]. apply IH. congruence.
Qed.

Lemma nth_error_some_lt {A} (l : list A) i x : nth_error l i = Some x -> (i < length l)%nat.
Proof. intros H. apply nth_error_Some. congruence. Qed.

Definition rbit (r : rstate) : N := if is_running r then 1 else 0.

Lemma running_upd l i old new :
  nth_error l i = Some old ->
  running_of (upd i new l) + rbit old = running_of l + rbit new.
Proof.
  revert i. induction l as [|h t IH]; intros i H; [destruct i; discriminate|].
  destruct i; cbn [nth_error] in H.
  - inversion H; subst. cbn [upd running_of]. unfold rbit. lia.
  - cbn [upd running_of]. specialize (IH i H). lia.
Qed.

Lemma running_repeat_idle n : running_of (repeat Idle n) = 0.
Proof. induction n as [|n IH]; cbn [repeat running_of is_running]; [reflexivity|]. rewrite IH. reflexivity. Qed.

(* ---------- the relation and its executable twins agree ---------- *)
Lemma step_fn_sound c s l s' : step_fn c s l = Some s' -> lstep c s l s'.
Proof.
  unfold step_fn. intros H.
  destruct l as [i|i|i|i|i|i]; cbn [lab_idx] in H;
    destruct (nth_error (reqs s) i) as [r|] eqn:Hn; try discriminate;
    destruct r as [|f| |res]; try discriminate.
  - inversion H; subst. apply st_arrive. exact Hn.
  - destruct (0 <? permits s) eqn:Hp; [|discriminate]. inversion H; subst.
    apply N.ltb_lt in Hp. eapply st_acquire; eassumption.
  - destruct f; [discriminate|]. destruct (has_timer c) eqn:Ht; [|discriminate].
    inversion H; subst. apply st_fire; assumption.
  - destruct f; [|discriminate]. destruct (has_timer c) eqn:Ht; [|discriminate].
    inversion H; subst. apply st_timeout; assumption.
  - destruct (permits s <? max c) eqn:Hp; [|discriminate]. inversion H; subst.
    apply N.ltb_lt in Hp. apply st_return; assumption.
  - destruct (permits s <? max c) eqn:Hp; [|discriminate]. inversion H; subst.
    apply N.ltb_lt in Hp. apply st_panic; assumption.
Qed.

Lemma step_fn_complete c s l s' : lstep c s l s' -> step_fn c s l = Some s'.
Proof.
  intros H. destruct H as [s i Hn|s i f Hn Hp|s i Ht Hn|s i Ht Hn|s i Hn Hp|s i Hn Hp];
    unfold step_fn; cbn [lab_idx]; rewrite Hn.
  - reflexivity.
  - apply N.ltb_lt in Hp. rewrite Hp. reflexivity.
  - rewrite Ht. reflexivity.
  - rewrite Ht. reflexivity.
  - apply N.ltb_lt in Hp. rewrite Hp. reflexivity.
  - apply N.ltb_lt in Hp. rewrite Hp. reflexivity.
Qed.

Lemma step_fn_iff c s l s' : step_fn c s l = Some s' <-> lstep c s l s'.
Proof. split; [apply step_fn_sound|apply step_fn_complete]. Qed.

Lemma step_fn_idx c s l s' : step_fn c s l = Some s' -> (lab_idx l < length (reqs s))%nat.
Proof.
  unfold step_fn. destruct (nth_error (reqs s) (lab_idx l)) as [r|] eqn:Hn; intros H.
  - eapply nth_error_some_lt; eassumption.
  - destruct l; cbn [lab_idx] in *; rewrite Hn in H; discriminate H.
Qed.

Lemma label_in_labels_for l : In l (labels_for (lab_idx l)).
Proof. destruct l; cbn; tauto. Qed.

Lemma labels_for_idx i l : In l (labels_for i) -> lab_idx l = i.
Proof. cbn. intros [H|[H|[H|[H|[H|[H|[]]]]]]]; subst; reflexivity. Qed.

Lemma enabled_step_fn c s l s' : In (l, s') (enabled c s) <-> step_fn c s l = Some s'.
Proof.
  unfold enabled. rewrite in_flat_map. split.
  - intros [i [Hi H]]. rewrite in_flat_map in H. destruct H as [l0 [Hl0 H]].
    destruct (step_fn c s l0) as [s0|] eqn:E; [|destruct H].
    destruct H as [H|[]]. inversion H; subst. exact E.
  - intros H. exists (lab_idx l). split.
    + apply in_seq. pose proof (step_fn_idx _ _ _ _ H). lia.
    + rewrite in_flat_map. exists l. split; [apply label_in_labels_for|].
      rewrite H. left. reflexivity.
Qed.

Lemma enabled_iff c s l s' : In (l, s') (enabled c s) <-> lstep c s l s'.
Proof. rewrite enabled_step_fn. apply step_fn_iff. Qed.

(* ---------- traces ---------- *)
Lemma steps_cons c s l s1 tr s2 : lstep c s l s1 -> steps c s1 tr s2 -> steps c s (l :: tr) s2.
Proof.
  intros H1 H2. induction H2 as [s1|s1 tr sa l' sb Hs IH Hl].
  - change [l] with ([] ++ [l]). eapply steps_snoc; [apply steps_nil|exact H1].
  - change (l :: tr ++ [l']) with ((l :: tr) ++ [l']). eapply steps_snoc; [apply IH; exact H1|exact Hl].
Qed.

Lemma run_trace_steps c s tr s' : run_trace c s tr = Some s' -> steps c s tr s'.
Proof.
  revert s. induction tr as [|l r IH]; intros s H; cbn [run_trace] in H.
  - inversion H; subst. apply steps_nil.
  - destruct (step_fn c s l) as [s1|] eqn:E; [|discriminate].
    eapply steps_cons; [apply step_fn_sound; exact E|apply IH; exact H].
Qed.

Lemma steps_run_trace c s tr s' : steps c s tr s' -> run_trace c s tr = Some s'.
Proof.
  intros H. induction H as [s|s tr s1 l s2 Hs IH Hl]; [reflexivity|].
  clear Hs. revert s IH. induction tr as [|a tr IHtr]; intros s IH; cbn [run_trace app] in *.
  - inversion IH; subst. rewrite (step_fn_complete _ _ _ _ Hl). reflexivity.
  - destruct (step_fn c s a) as [sa|]; [|discriminate]. apply IHtr. exact IH.
Qed.

(* ---------- C18_inv: permits + running = max, on every reachable state ---------- *)
Definition linv (c : lcfg) (s : lstate) : Prop := permits s + running s = max c.

Lemma linv_init c n : linv c (linit c n).
Proof. unfold linv, running, linit. cbn [permits reqs]. rewrite running_repeat_idle. lia. Qed.

Lemma linv_step c s l s' : lstep c s l s' -> linv c s -> linv c s'.
Proof.
  unfold linv, running. intros H Hi.
  destruct H as [s i Hn|s i f Hn Hp|s i Ht Hn|s i Ht Hn|s i Hn Hp|s i Hn Hp];
    unfold set_req; cbn [permits reqs];
    match goal with |- context [upd ?i ?new _] => pose proof (running_upd _ _ _ new Hn) as R end;
    unfold rbit in R; cbn [is_running] in R; lia.
Qed.

Lemma linv_steps c s tr s' : steps c s tr s' -> linv c s -> linv c s'.
Proof. intros H. induction H as [s|s tr s1 l s2 Hs IH Hl]; intros Hi; [exact Hi|]. eapply linv_step; eauto. Qed.

Lemma inv_reachable c n s : reachable c n s -> permits s + running s = max c.
Proof. intros [tr H]. eapply linv_steps; [exact H|apply linv_init]. Qed.

Lemma bound_reachable c n s : reachable c n s -> running s <= max c.
Proof. intros H. pose proof (inv_reachable _ _ _ H). lia. Qed.

Lemma quiescent_full c n s : reachable c n s -> running s = 0 -> permits s = max c.
Proof. intros H H0. pose proof (inv_reachable _ _ _ H). lia. Qed.

Lemma running_pos l i : nth_error l i = Some Running -> 0 < running_of l.
Proof.
  revert i. induction l as [|h t IH]; intros i H; [destruct i; discriminate|].
  destruct i; cbn [nth_error] in H.
  - inversion H; subst. cbn [running_of is_running]. lia.
  - cbn [running_of]. specialize (IH i H). lia.
Qed.

(* the deferred release never blocks: a running request can always return (and can always panic) *)
Lemma release_never_blocks c n s i :
  reachable c n s -> nth_error (reqs s) i = Some Running ->
  lstep c s (LReturn i) (set_req s (permits s + 1) i (Done ROk)) /\
  lstep c s (LPanic i) (set_req s (permits s + 1) i (Done RPanic)).
Proof.
  intros Hr Hn. pose proof (inv_reachable _ _ _ Hr) as Hi. pose proof (running_pos _ _ Hn) as Hp.
  unfold running in Hi. split; [apply st_return|apply st_panic]; try assumption; lia.
Qed.

(* ---------- request histories ---------- *)
(* what the labels of a trace say about the state of each request *)
Definition hist (tr : list label) (s : lstate) : Prop :=
  forall i,
    (In (LTimeout i) tr -> nth_error (reqs s) i = Some (Done RTimeout)) /\
    (In (LAcquire i) tr -> nth_error (reqs s) i = Some Running \/
                           nth_error (reqs s) i = Some (Done ROk) \/
                           nth_error (reqs s) i = Some (Done RPanic)) /\
    (In (LReturn i) tr -> nth_error (reqs s) i = Some (Done ROk)) /\
    (In (LPanic i) tr -> nth_error (reqs s) i = Some (Done RPanic)) /\
    (nth_error (reqs s) i = Some (Done RTimeout) -> In (LTimeout i) tr) /\
    (nth_error (reqs s) i = Some Idle -> forall l, In l tr -> lab_idx l <> i).

Lemma in_snoc {A} (x y : A) l : In x (l ++ [y]) <-> In x l \/ x = y.
Proof. rewrite in_app_iff. cbn. intuition. Qed.

Lemma hist_init c n : hist [] (linit c n).
Proof.
  intros i. cbn [In]. repeat split; try tauto.
  intros H. cbn [linit reqs] in H. apply nth_error_In in H. apply repeat_spec in H. discriminate.
Qed.

Ltac hist_same Hn :=
  rewrite nth_error_upd_same by (eapply nth_error_some_lt; exact Hn).

Lemma hist_step c tr s l s' : lstep c s l s' -> hist tr s -> hist (tr ++ [l]) s'.
Proof.
  intros H Hh i. specialize (Hh i). destruct Hh as (H1 & H2 & H3 & H4 & H5 & H6).
  destruct H as [s j Hn|s j f Hn Hp|s j Ht Hn|s j Ht Hn|s j Hn Hp|s j Hn Hp];
    unfold set_req; cbn [reqs];
    (destruct (Nat.eq_dec i j) as [->|Hne];
     [ hist_same Hn; rewrite Hn in *;
       repeat split; intros G; try (apply in_snoc in G; destruct G as [G|G]);
       try discriminate; try (inversion G; fail);
       try (specialize (H1 G)); try (specialize (H2 G)); try (specialize (H3 G)); try (specialize (H4 G));
       try discriminate; try (destruct H2 as [H2|[H2|H2]]; discriminate);
       try (right; left; reflexivity); try (right; right; reflexivity); try (left; reflexivity);
       try reflexivity; try (apply in_snoc; right; reflexivity);
       try (inversion G)
     | rewrite (nth_error_upd_other i j) by exact Hne;
       repeat split; intros G; try (apply in_snoc in G; destruct G as [G|G]);
       try (inversion G; congruence); auto;
       try (apply in_snoc; left; auto; fail);
       try (intros l0 Hl0; apply in_snoc in Hl0; destruct Hl0 as [Hl0| ->];
            [apply (H6 G); exact Hl0|cbn [lab_idx]; congruence]) ]).
Qed.

Lemma hist_steps c n tr s : steps c (linit c n) tr s -> hist tr s.
Proof.
  intros H. remember (linit c n) as s0 eqn:E. induction H as [s|s tr s1 l s2 Hs IH Hl].
  - subst. apply hist_init.
  - eapply hist_step; [exact Hl|apply IH; exact E].
Qed.

Lemma timeout_needs_timer c s tr s' i : steps c s tr s' -> In (LTimeout i) tr -> has_timer c = true.
Proof.
  intros H. induction H as [s|s tr s1 l s2 Hs IH Hl]; intros Hin; [destruct Hin|].
  apply in_snoc in Hin. destruct Hin as [Hin|Hin]; [apply IH; exact Hin|].
  subst l. inversion Hl; subst; assumption.
Qed.

(* C18_timeout_errors, first half: a request that took the time-out transition ends Done(TimeoutError),
   never acquired a permit (hence never ran the inner client, never released), a timer existed, and the
   permits are all accounted for by the running requests -- it holds none. *)
Lemma timeout_errors c n tr s i :
  steps c (linit c n) tr s -> In (LTimeout i) tr ->
  nth_error (reqs s) i = Some (Done RTimeout) /\
  ~ In (LAcquire i) tr /\ ~ In (LReturn i) tr /\ ~ In (LPanic i) tr /\
  has_timer c = true /\ permits s + running s = max c.
Proof.
  intros Hs Hin. pose proof (hist_steps _ _ _ _ Hs i) as (H1 & H2 & H3 & H4 & _ & _).
  specialize (H1 Hin). repeat split.
  - exact H1.
  - intros G. specialize (H2 G). rewrite H1 in H2. destruct H2 as [H2|[H2|H2]]; discriminate.
  - intros G. specialize (H3 G). rewrite H1 in H3. discriminate.
  - intros G. specialize (H4 G). rewrite H1 in H4. discriminate.
  - eapply timeout_needs_timer; eassumption.
  - eapply linv_steps; [exact Hs|apply linv_init].
Qed.

(* a request whose result is the time-out error did take the time-out transition *)
Lemma timeout_result_from_timeout c n tr s i :
  steps c (linit c n) tr s -> nth_error (reqs s) i = Some (Done RTimeout) -> In (LTimeout i) tr.
Proof. intros Hs Hn. pose proof (hist_steps _ _ _ _ Hs i) as (_ & _ & _ & _ & H5 & _). auto. Qed.

(* second half: with a non-zero time-out a waiting request always has a transition of its own:
   its timer can fire, and once it has fired the time-out branch is enabled whatever the permits are. *)
Lemma waiting_progress c s i f :
  has_timer c = true -> nth_error (reqs s) i = Some (Waiting f) ->
  (f = false -> lstep c s (LFire i) (set_req s (permits s) i (Waiting true))) /\
  (f = true -> lstep c s (LTimeout i) (set_req s (permits s) i (Done RTimeout))) /\
  exists l s', lab_idx l = i /\ In (l, s') (enabled c s).
Proof.
  intros Ht Hn. split; [|split].
  - intros ->. apply st_fire; assumption.
  - intros ->. apply st_timeout; assumption.
  - destruct f.
    + exists (LTimeout i), (set_req s (permits s) i (Done RTimeout)). split; [reflexivity|].
      apply enabled_iff. apply st_timeout; assumption.
    + exists (LFire i), (set_req s (permits s) i (Waiting true)). split; [reflexivity|].
      apply enabled_iff. apply st_fire; assumption.
Qed.

(* ... whereas with timeout = 0 and no free permit it has none (it waits for a release) *)
Lemma waiting_without_timer_blocks c s i f l s' :
  has_timer c = false -> permits s = 0 -> nth_error (reqs s) i = Some (Waiting f) ->
  lstep c s l s' -> lab_idx l <> i.
Proof.
  intros Ht Hp Hn Hl Hi. inversion Hl; subst; cbn [lab_idx] in *; try congruence; lia.
Qed.

(* ---------- monitor ---------- *)
Definition final_obs (c : lcfg) (s : lstate) (maxrun : N) : lobs :=
  {| o_outcomes := map outcome_of (reqs s); o_max_running := maxrun; o_sem_len := permits s;
     o_sem_cap := max c; o_eroded := false |}.

Definition legal_final (c : lcfg) (panics : bool) (r : rstate) : Prop :=
  r = Done (if panics then RPanic else ROk) \/ (has_timer c = true /\ r = Done RTimeout).

Lemma outcomes_ok_final c beh rs :
  Forall2 (legal_final c) beh rs ->
  outcomes_ok (has_timer c) beh (map outcome_of rs) = true /\ running_of rs = 0.
Proof.
  intros H. induction H as [|b r beh rs Hbr Hrest IH]; [split; reflexivity|].
  destruct IH as [IH1 IH2]. cbn [map outcomes_ok running_of]. rewrite IH1, IH2.
  destruct Hbr as [->|[Ht ->]].
  - destruct b; split; reflexivity.
  - cbn [outcome_of outcome_ok is_running]. rewrite Ht. split; reflexivity.
Qed.

(* every quiescent reachable state of the model, observed the way the harness observes the
   implementation, satisfies the monitor: the monitor asks nothing the theorems do not give *)
Lemma monitor_sound c n s beh maxrun :
  reachable c n s -> maxrun <= max c -> Forall2 (legal_final c) beh (reqs s) ->
  c18_monitor (max c) (has_timer c) beh (final_obs c s maxrun) = true.
Proof.
  intros Hr Hm Hf. destruct (outcomes_ok_final _ _ _ Hf) as [Ho Hrun].
  pose proof (quiescent_full _ _ _ Hr Hrun) as Hp.
  unfold c18_monitor, final_obs. cbn [o_max_running o_sem_len o_sem_cap o_outcomes o_eroded].
  rewrite Ho, Hp. rewrite N.eqb_refl. apply N.leb_le in Hm. rewrite Hm. reflexivity.
Qed.

(* accepts is trace inclusion in the LTS *)
Lemma accepts_reachable c n tr final sem :
  accepts c n tr final sem = true ->
  exists s, steps c (linit c n) tr s /\ permits s = sem /\ reqs_eqb (reqs s) final = true.
Proof.
  unfold accepts. destruct (run_trace c (linit c n) tr) as [s|] eqn:E; [|discriminate].
  intros H. apply andb_prop in H. destruct H as [H1 H2]. apply N.eqb_eq in H2.
  exists s. split; [apply run_trace_steps; exact E|split; assumption].
Qed.

(* ---------- non-vacuity ---------- *)
Definition ex_cfg : lcfg := {| max := 2; has_timer := true |}.
Definition ex_trace : list label :=
  [LArrive 0; LArrive 1; LArrive 2; LArrive 3; LAcquire 0; LAcquire 1; LFire 2; LTimeout 2;
   LReturn 0; LAcquire 3; LPanic 1; LReturn 3]%nat.
Definition ex_final : lstate :=
  {| permits := 2; reqs := [Done ROk; Done RPanic; Done RTimeout; Done ROk] |}.

Example ex_steps : steps ex_cfg (linit ex_cfg 4) ex_trace ex_final.
Proof. apply run_trace_steps. vm_compute. reflexivity. Qed.

Example ex_reachable : reachable ex_cfg 4 ex_final.
Proof. exists ex_trace. exact ex_steps. Qed.

Example ex_timeout_in_trace : In (LTimeout 2%nat) ex_trace.
Proof. cbn. tauto. Qed.

(* a reachable state with a running request (hypothesis of release_never_blocks) and a full house *)
Example ex_running : exists s, reachable ex_cfg 4 s /\ nth_error (reqs s) 1%nat = Some Running /\ permits s = 0
                               /\ nth_error (reqs s) 2%nat = Some (Waiting false).
Proof.
  exists {| permits := 0; reqs := [Running; Running; Waiting false; Waiting false] |}.
  split; [|repeat split].
  exists [LArrive 0; LArrive 1; LArrive 2; LArrive 3; LAcquire 0; LAcquire 1]%nat.
  apply run_trace_steps. vm_compute. reflexivity.
Qed.

Example ex_monitor_hyps :
  Forall2 (legal_final ex_cfg) [false; true; false; false] (reqs ex_final) /\ (2 <= max ex_cfg).
Proof.
  split; [|cbn; lia]. cbn [reqs ex_final].
  constructor; [left; reflexivity|]. constructor; [left; reflexivity|].
  constructor; [right; split; reflexivity|]. constructor; [left; reflexivity|]. constructor.
Qed.

(* the time-out and the permit really race: from the same state both outcomes are reachable *)
Example ex_race : exists s, reachable ex_cfg 4 s /\
  (exists s1, lstep ex_cfg s (LAcquire 2%nat) s1) /\ (exists s2, lstep ex_cfg s (LTimeout 2%nat) s2).
Proof.
  exists {| permits := 1; reqs := [Done ROk; Running; Waiting true; Waiting false] |}. split; [|split].
  - exists [LArrive 0; LArrive 1; LArrive 2; LArrive 3; LAcquire 0; LAcquire 1; LFire 2; LReturn 0]%nat.
    apply run_trace_steps. vm_compute. reflexivity.
  - eexists. apply step_fn_sound. vm_compute. reflexivity.
  - eexists. apply step_fn_sound. vm_compute. reflexivity.
Qed.

(* combined forms used by PropC18.v *)
Lemma lts_twins c s l s' :
  (In (l, s') (enabled c s) <-> lstep c s l s') /\ (step_fn c s l = Some s' <-> lstep c s l s').
Proof. split; [apply enabled_iff|apply step_fn_iff]. Qed.

Lemma timeout_errors_iff c n tr s i :
  steps c (linit c n) tr s ->
  (In (LTimeout i) tr ->
     nth_error (reqs s) i = Some (Done RTimeout) /\
     ~ In (LAcquire i) tr /\ ~ In (LReturn i) tr /\ ~ In (LPanic i) tr /\
     has_timer c = true /\ permits s + running s = max c) /\
  (nth_error (reqs s) i = Some (Done RTimeout) -> In (LTimeout i) tr).
Proof.
  intros H. split; [apply (timeout_errors c n tr s i H)|apply (timeout_result_from_timeout c n tr s i H)].
Qed.
