(* ProtoExamples.v -- C10: concrete messages (built by the repository's own protocol builders through
   harness/go/newrelic/zz_verif_c10_test.go, mode "bases") on which the model is exercised: non-vacuity of the
   C10 theorems and the witness of the span-queue-size finding. *)
From Coq Require Import NArith ZArith String List Bool Lia.
From Verif Require Import SchemaTypes Flatbuf2 ProtoDecode ProtoDecodeProofs ProtoMonitor.
Import ListNotations.
Open Scope N_scope.

(* a well-formed Transaction message for run id "rA" with one item of every kind (816 bytes) *)
Definition ex_txn : bytes := [20;0;0;0;0;0;0;0;0;0;10;0;16;0;12;0;11;0;4;0;10;0;0;0;56;0;0;0;0;0;0;3;4;0;0;0;2;0;0;0;114;65;0;0;36;0;72;0;68;0;64;0;0;0;60;0;44;0;40;0;36;0;32;0;28;0;12;0;16;0;48;0;24;0;20;0;4;0;8;0;36;0;0;0;68;0;0;0;92;0;0;0;152;0;0;0;200;0;0;0;220;0;0;0;240;0;0;0;4;1;0;0;44;1;0;0;160;1;0;0;192;1;0;0;116;2;0;0;0;0;0;0;0;0;224;63;0;0;0;0;146;16;0;0;128;2;0;0;132;2;0;0;174;253;255;255;4;0;0;0;14;0;0;0;91;91;34;112;34;44;34;49;34;44;123;125;93;93;0;0;202;253;255;255;4;0;0;0;38;0;0;0;91;123;34;108;97;98;101;108;95;116;121;112;101;34;58;34;97;34;44;34;108;97;98;101;108;95;118;97;108;117;101;34;58;34;98;34;125;93;14;0;32;0;20;0;12;0;8;0;0;0;4;0;14;0;0;0;40;0;0;0;24;0;0;0;0;0;0;0;0;64;159;64;0;0;0;0;0;64;143;64;0;0;0;0;5;0;0;0;103;117;105;100;109;0;0;0;3;0;0;0;84;49;109;0;1;0;0;0;4;0;0;0;70;254;255;255;4;0;0;0;3;0;0;0;88;49;109;0;1;0;0;0;4;0;0;0;94;254;255;255;4;0;0;0;3;0;0;0;76;49;109;0;1;0;0;0;4;0;0;0;118;254;255;255;4;0;0;0;3;0;0;0;83;49;109;0;2;0;0;0;24;0;0;0;4;0;0;0;146;254;255;255;4;0;0;0;3;0;0;0;67;50;109;0;162;254;255;255;4;0;0;0;3;0;0;0;67;49;109;0;1;0;0;0;24;0;0;0;20;0;52;0;48;0;44;0;32;0;24;0;16;0;12;0;8;0;4;0;20;0;0;0;80;0;0;0;60;0;0;0;40;0;0;0;30;0;0;0;0;0;0;0;30;0;0;0;0;0;0;0;30;0;0;0;0;0;0;0;0;0;0;0;1;0;0;0;77;0;0;0;11;0;0;0;68;97;116;97;115;116;111;114;101;47;120;0;8;0;0;0;115;101;108;101;99;116;32;49;0;0;0;0;2;0;0;0;123;125;0;0;1;0;0;0;12;0;0;0;8;0;12;0;8;0;4;0;8;0;0;0;8;0;0;0;7;0;0;0;3;0;0;0;69;49;109;0;2;0;0;0;96;0;0;0;12;0;0;0;8;0;64;0;60;0;4;0;8;0;0;0;0;0;0;0;0;0;0;64;0;0;0;0;0;0;224;63;0;0;0;0;0;0;208;63;0;0;0;0;0;0;0;0;0;0;0;0;0;0;240;63;0;0;0;0;0;0;28;64;0;1;0;0;0;0;0;0;4;0;0;0;3;0;0;0;77;50;109;0;8;0;68;0;64;0;4;0;8;0;0;0;0;0;0;0;0;0;240;63;0;0;0;0;0;0;0;64;0;0;0;0;0;0;8;64;0;0;0;0;0;0;16;64;0;0;0;0;0;0;20;64;0;0;0;0;0;0;24;64;1;0;0;0;0;0;0;0;0;0;0;0;4;0;0;0;3;0;0;0;77;49;109;0;0;0;6;0;8;0;4;0;6;0;0;0;4;0;0;0;17;0;0;0;91;123;34;109;34;58;34;109;34;125;44;123;125;44;123;125;93;0;0;0;2;0;0;0;47;117;0;0;16;0;0;0;87;101;98;84;114;97;110;115;97;99;116;105;111;110;47;109;0;0;0;0]%N.
(* a well-formed App message: trace observer host "127.0.0.1", span_queue_size = 2^62 (288 bytes) *)
Definition ex_hostile_app : bytes := [20;0;0;0;0;0;0;0;0;0;10;0;12;0;0;0;11;0;4;0;10;0;0;0;52;0;0;0;0;0;0;1;44;0;80;0;76;0;72;0;68;0;64;0;0;0;0;0;60;0;52;0;56;0;0;0;0;0;0;0;48;0;44;0;42;0;28;0;20;0;0;0;12;0;4;0;44;0;0;0;48;117;0;0;0;0;0;0;16;39;0;0;0;0;0;0;208;7;0;0;0;0;0;0;0;0;0;0;0;0;0;64;0;0;0;0;0;0;187;1;36;0;0;0;48;0;0;0;56;0;0;0;64;0;0;0;68;0;0;0;72;0;0;0;76;0;0;0;80;0;0;0;88;0;0;0;9;0;0;0;49;50;55;46;48;46;48;46;49;0;0;0;5;0;0;0;104;111;115;116;72;0;0;0;7;0;0;0;123;34;107;34;58;49;125;0;2;0;0;0;91;93;0;0;2;0;0;0;91;93;0;0;3;0;0;0;49;46;48;0;3;0;0;0;112;104;112;0;4;0;0;0;97;112;112;72;0;0;0;0;40;0;0;0;108;105;99;72;48;49;50;51;52;53;54;55;56;57;97;98;99;100;101;102;48;49;50;51;52;53;54;55;56;57;97;98;99;100;101;102;48;49;50;51;0;0;0;0]%N.
(* ex_txn with the offset of its error_events vector (the last thing AggregateInto reads) pointing outside *)
Definition ex_txn_bad_tail : bytes := set_le 4 96 2147483647 ex_txn.

Definition contrib_eq_dec : forall a b : contrib, {a = b} + {a <> b}.
Proof.
  decide equality; try apply N.eq_dec; try apply Bool.bool_dec; try apply (list_eq_dec N.eq_dec).
  - decide equality; apply (list_eq_dec N.eq_dec).
  - decide equality; apply (list_eq_dec N.eq_dec).
Defined.
Fixpoint is_prefix (a b : list contrib) : bool :=
  match a, b with
  | [], _ => true
  | x :: r, y :: s => if contrib_eq_dec x y then is_prefix r s else false
  | _ :: _, [] => false
  end.

(* ---- the decoder on concrete messages *)
Example ex_txn_complete :
  process_binary ex_txn = Some (ConnAct (ActTxn (bytes_of_string "rA"))) /\
  fst (decode_txn ex_txn) = true /\ Nat.leb 20 (List.length (snd (decode_txn ex_txn))) = true.
Proof. vm_compute. repeat split; reflexivity. Qed.

(* partial effects: the corrupt message contributes a proper prefix of what the intact one contributes *)
Example ex_txn_partial :
  process_binary ex_txn_bad_tail = Some (ConnAct (ActTxn (bytes_of_string "rA"))) /\
  fst (decode_txn ex_txn_bad_tail) = false /\
  is_prefix (snd (decode_txn ex_txn_bad_tail)) (snd (decode_txn ex_txn)) = true /\
  Nat.ltb (List.length (snd (decode_txn ex_txn_bad_tail))) (List.length (snd (decode_txn ex_txn))) = true /\
  Nat.leb 19 (List.length (snd (decode_txn ex_txn_bad_tail))) = true.
Proof. vm_compute. repeat split; reflexivity. Qed.

Example ex_short_messages :
  process_binary [] = Some ConnNone /\
  process_binary [0; 0; 0] = None /\                               (* GetUOffsetT on 3 bytes: recovered by serve *)
  process_binary [0; 0; 0; 0; 0; 0; 0; 0; 0; 0; 0; 0] = Some ConnErr /\   (* offset is too large *)
  process_binary (takeN 40 ex_txn) = None.
Proof. vm_compute. repeat split; reflexivity. Qed.

Example ex_hostile_app_decodes :
  match process_binary ex_hostile_app with
  | Some (ConnAct (ActApp None info)) =>
      ai_queue_size info = 4611686018427387904 /\ ai_to_host info = bytes_of_string "127.0.0.1" /\ ai_to_port info = 443
  | _ => False
  end.
Proof. vm_compute. repeat split; reflexivity. Qed.

(* ---- the processor on concrete histories *)
Definition ex_st : pstate := mkP [(bytes_of_string "rA", []); (bytes_of_string "rB", [CPid 1])] [].

(* hypotheses of others_untouched / after_txn_same_but / service_continues are met by a non-trivial instance *)
Example ex_frame_instance :
  match step max_chan_elems ex_st (EvMsg ex_txn_bad_tail) with
  | Running st' o =>
      o = OutNone /\ addressed ex_txn_bad_tail = Some (bytes_of_string "rA") /\
      find_run (bytes_of_string "rB") (ps_harvests st') = Some [CPid 1] /\
      match find_run (bytes_of_string "rA") (ps_harvests st') with
      | Some h => Nat.leb 19 (List.length h) = true | None => False end
  | Crashed => False
  end.
Proof. vm_compute. repeat split; reflexivity. Qed.

(* the finding: a well-formed App message announcing a span queue of 2^62 entries is accepted, and the
   processor dies when that application connects *)
Example ex_queue_crash : forall budget, budget <= max_chan_elems ->
  run budget (mkP [] []) [EvMsg ex_hostile_app; EvConnected 0 (bytes_of_string "r1")] = None.
Proof.
  intros budget Hb. cbn [run].
  assert (H1 : step budget (mkP [] []) (EvMsg ex_hostile_app) =
               Running (mkP [] match process_binary ex_hostile_app with
                               | Some (ConnAct (ActApp _ i)) => [i] | _ => [] end) (OutReply false)).
  { vm_compute. reflexivity. }
  rewrite H1. clear H1.
  assert (H2 : exists info, match process_binary ex_hostile_app with
                            | Some (ConnAct (ActApp _ i)) => [i] | _ => [] end = [info] /\
                            lenN (ai_to_host info) = 9 /\ ai_queue_size info = 4611686018427387904).
  { eexists. vm_compute. repeat split; reflexivity. }
  destruct H2 as [info [E [Hh Hq]]]. rewrite E. cbn [step nth_error ps_apps].
  rewrite Hh, Hq.
  assert (Hle : (4611686018427387904 <=? budget) = false).
  { apply N.leb_gt. unfold max_chan_elems in Hb. lia. }
  rewrite Hle. reflexivity.
Qed.

(* and with a queue the machine can allocate the same history is harmless *)
Example ex_partial_instance :
  Forall (queue_ok max_chan_elems) (ps_apps ex_st) /\
  Forall (msg_queue_ok max_chan_elems) [EvMsg ex_txn; EvMsg ex_txn_bad_tail; EvMsg [0; 0; 0]; EvConnected 0 [1]].
Proof.
  split; [apply Forall_nil|]. repeat (apply Forall_cons; [vm_compute; exact I|]). apply Forall_nil.
Qed.

(* ---- assembled statements (PropC10.v only restates them) *)
Lemma conn_panic_contained : forall budget st bs st' o, step budget st (EvMsg bs) = Running st' o ->
  ((process_binary bs = None <-> o = OutPanic) /\ (process_binary bs = Some ConnErr <-> o = OutErr)) /\
  (o = OutPanic \/ o = OutErr -> st' = st).
Proof.
  intros budget st bs st' o H. split.
  - exact (conn_outcome_classes budget st bs st' o H).
  - exact (proj1 (dropped_changes_nothing budget st bs st' o H)).
Qed.

Lemma no_crash_any_history_refuted :
  ~ (forall budget, budget <= max_chan_elems -> forall st evs, exists st', run budget st evs = Some st').
Proof.
  intros H. destruct (H max_chan_elems (N.le_refl _) (mkP [] [])
                        [EvMsg ex_hostile_app; EvConnected 0 (bytes_of_string "r1")]) as [st' E].
  rewrite (ex_queue_crash max_chan_elems (N.le_refl _)) in E. discriminate.
Qed.

Lemma service_continues_all : forall budget,
  (forall st bs st' o r, step budget st (EvMsg bs) = Running st' o -> addressed bs = Some r -> same_but r st st') /\
  (forall st bs st' o, step budget st (EvMsg bs) = Running st' o -> addressed bs = None ->
     ps_harvests st' = ps_harvests st) /\
  (forall r st st', same_but r st st' -> forall ev,
     match step budget st ev, step budget st' ev with
     | Running s1 o1, Running s2 o2 => o1 = o2 /\ same_but r s1 s2
     | Crashed, Crashed => True
     | _, _ => False
     end).
Proof.
  intros budget. split; [|split].
  - exact (after_txn_same_but budget).
  - intros st bs st' o H. exact (proj2 (dropped_changes_nothing budget st bs st' o H)).
  - exact (service_continues budget).
Qed.

Lemma limits_bounded : forall v m, (0 <= m)%Z ->
  (0 <= agent_limit v m <= m)%Z /\ (0 <= final_log_limit v m <= m)%Z.
Proof. intros v m H. split; [apply agent_limit_range|apply final_log_limit_range]; exact H. Qed.
