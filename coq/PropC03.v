(* C03 -- application lifecycle follows the collector's verdicts.  Statements only. *)
From Coq Require Import NArith List.
From Verif Require Import Processor ProcInv ProcInv2.
Import ListNotations.

(* A run id presented by an agent is confirmed as still valid iff the daemon currently holds that run. *)
Theorem C03_valid_iff : forall s key dt id,
  (exists st, In (OutAppReply true st) (snd (app_info s key dt id))) <->
  (exists r, id = Some r /\ lookupN r (p_runs s) <> None).
Proof. exact app_info_valid_iff. Qed.
Print Assumptions C03_valid_iff.

(* What agents are told about a known application is the state the daemon holds for it. *)
Theorem C03_reports_state : forall s key dt id i,
  (forall r, id = Some r -> lookupN r (p_runs s) = None) ->
  lookupN key (p_apps s) = Some i ->
  In (OutAppReply false (a_state (get_obj s i))) (snd (app_info s key dt id)).
Proof. exact app_info_reports_state. Qed.
Print Assumptions C03_reports_state.
