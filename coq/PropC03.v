(* C03 -- application lifecycle follows the collector's verdicts.  Statements only. *)
From Coq Require Import NArith List.
From Verif Require Import Processor ProcInv ProcInv2.
Import ListNotations.

(* A run id presented by an agent is confirmed as still valid iff the daemon currently holds that run. *)
Theorem C03_valid_iff : forall s key dt id,
  (exists st, In (OutAppReply true st) (snd (app_info s key dt id))) <->
  (exists r, id = Some r /\ lookupN r (p_runs s) <> None).
Proof. exact app_info_valid_iff. Qed.
Print Assumptions C03_valid_iff.

(* What agents are told about a known application is the state the daemon holds for it. *)
Theorem C03_reports_state : forall s key dt id i,
  (forall r, id = Some r -> lookupN r (p_runs s) = None) ->
  lookupN key (p_apps s) = Some i ->
  In (OutAppReply false (a_state (get_obj s i))) (snd (app_info s key dt id)).
Proof. exact app_info_reports_state. Qed.
Print Assumptions C03_reports_state.

From Verif Require Import ProcInv3.

(* In every reachable state: run and application tables are consistent, a held run belongs to a CONNECTED
   application object, and an application object has at most one held run. *)
Theorem C03_lifecycle_invariant : forall ops, life_inv (fst (run ops)).
Proof. exact life_inv_reachable. Qed.
Print Assumptions C03_lifecycle_invariant.

(* Agents are told "connected" only while the daemon holds a run the collector issued: the application of
   every held run is in the connected state (and C03_valid_iff / C03_reports_state say what agents are told). *)
Theorem C03_connected_sound : forall ops r a,
  let s := fst (run ops) in
  lookupN r (p_runs s) = Some a -> state_of s (app_of s a) = SConnected.
Proof. exact held_run_connected. Qed.
Print Assumptions C03_connected_sound.

(* A 410 at any stage and an invalid-license answer at connect are terminal: once an application object is
   in the disconnected / invalid-license state, NO later history (any further answers of overlapping connect
   attempts, harvest replies, ticks, queries, time) changes its state ... *)
Theorem C03_terminal_permanent : forall pre post i,
  let s := fst (run pre) in
  terminal (state_of s i) = true ->
  state_of (fst (run_from s post)) i = state_of s i.
Proof. exact terminal_permanent. Qed.
Print Assumptions C03_terminal_permanent.

(* ... and no connect is attempted for it again. *)
Theorem C03_terminal_never_connects : forall s i,
  terminal (state_of s i) = true -> consider_connect s i = (s, []).
Proof. exact consider_connect_terminal_silent. Qed.
Print Assumptions C03_terminal_never_connects.

(* The collector's verdict as a function of the status code (Status.v): a reply is at most one of success,
   keep-the-data, disconnect, restart; an invalid license is a restart class; the class the lifecycle model
   consumes is disconnect exactly for 410 and restart exactly for 401 / 409. *)
From Verif Require Import Status.
Theorem C03_status_classes : forall code,
  let k := classify code in
  ((rc_success k = true -> rc_disconnect k = false /\ rc_restart k = false /\ rc_save k = false) /\
   (rc_save k = true -> rc_disconnect k = false /\ rc_restart k = false) /\
   (rc_disconnect k = true -> rc_restart k = false) /\
   (rc_invalid_license k = true -> rc_restart k = true)) /\
  (rc_success k = false ->
   match fail_of_code code with
   | FRetry => rc_save k = true
   | F409 => code = 409%N /\ rc_restart k = true /\ rc_invalid_license k = false
   | F401 => code = 401%N /\ rc_restart k = true /\ rc_invalid_license k = true
   | F410 => code = 410%N /\ rc_disconnect k = true
   | FTransport => code = 0%N /\ harvest_action_of k = 0%N
   | FOther => harvest_action_of k = 0%N
   end).
Proof. intros code. exact (conj (classes_exclusive code) (fail_of_code_class code)). Qed.
Print Assumptions C03_status_classes.
