(* Status.v -- what a collector reply means to the daemon, as a function of the HTTP status code.

   Code modelled: daemon/internal/newrelic/collector/client.go
     newRPMResponse, RPMResponse.IsDisconnect / IsRestartException / IsInvalidLicense /
     ShouldSaveHarvestData, clientImpl.perform (status line -> RPMResponse; a 200 reply's body is parsed
     for "return_value" / "exception").
   The processor model (Processor.v) takes reply CLASSES (fail); this file is the executable map from
   codes to classes, so that the histories replayed against the real processor can carry real status
   codes (procgen.py draws them from the whole range, the cases file applies [outcome_of_code]).

   Tie to the code (harness/go/collector/zz_verif_c02_test.go, run by the C02 check): the real client
   (collector.NewClient, TLS, limiter) is executed against a local server that answers with EVERY status
   code 200..599 and newRPMResponse is called on every code -5..1100; the observed quintuple
   (success, disconnect, restart, invalid_license, save) must equal [classify] on every one of them. *)
From Coq Require Import NArith List Bool Lia.
From Verif Require Import Processor.
Import ListNotations.
Open Scope N_scope.

Record resp_class := {
  rc_success : bool;          (* Err == nil *)
  rc_disconnect : bool;       (* IsDisconnect *)
  rc_restart : bool;          (* IsRestartException *)
  rc_invalid_license : bool;  (* IsInvalidLicense *)
  rc_save : bool              (* ShouldSaveHarvestData *)
}.

Definition retry_codes : list N := [408; 429; 500; 503].
Definition success_codes : list N := [200; 202].

Definition mem (c : N) (l : list N) : bool := existsb (N.eqb c) l.

Definition classify (c : N) : resp_class :=
  {| rc_success := mem c success_codes;
     rc_disconnect := c =? 410;
     rc_restart := (c =? 401) || (c =? 409);
     rc_invalid_license := c =? 401;
     rc_save := mem c retry_codes |}.

(* the class the processor model consumes, for a reply that is NOT a success *)
Definition fail_of_code (c : N) : fail :=
  if mem c retry_codes then FRetry
  else if c =? 409 then F409
  else if c =? 401 then F401
  else if c =? 410 then F410
  else if c =? 0 then FTransport    (* no HTTP status at all: NewRPMResponseError *)
  else FOther.

Definition outcome_of_code (c : N) : outcome :=
  if mem c success_codes then OOk else OFail (fail_of_code c).

(* what the real decision code does with a failed harvest reply (processHarvestError), by class *)
Definition harvest_action_of (rc : resp_class) : N :=
  if rc_save rc then 1          (* keep the data for the next harvest *)
  else if rc_disconnect rc then 2
  else if rc_restart rc then 3
  else 0.                       (* discard, carry on *)

Definition eqb_class (a b : resp_class) : bool :=
  eqb (rc_success a) (rc_success b) && eqb (rc_disconnect a) (rc_disconnect b) &&
  eqb (rc_restart a) (rc_restart b) && eqb (rc_invalid_license a) (rc_invalid_license b) &&
  eqb (rc_save a) (rc_save b).

Definition mk_class (s d r i v : bool) : resp_class :=
  {| rc_success := s; rc_disconnect := d; rc_restart := r; rc_invalid_license := i; rc_save := v |}.

(* correspondence: observed (code, class) pairs that the model does not reproduce *)
Definition status_mismatches (obs : list (N * resp_class)) : list N :=
  map fst (filter (fun x => negb (eqb_class (classify (fst x)) (snd x))) obs).

(* ------------------------------------------------------------------ facts *)

Lemma mem_In c l : mem c l = true <-> In c l.
Proof.
  unfold mem. rewrite existsb_exists. split.
  - intros [x [Hin Heq]]. apply N.eqb_eq in Heq. subst. exact Hin.
  - intros Hin. exists c. split; [exact Hin | apply N.eqb_refl].
Qed.

Lemma save_iff c : rc_save (classify c) = true <-> In c [408; 429; 500; 503].
Proof. unfold classify; cbn [rc_save]. apply mem_In. Qed.

Lemma success_iff c : rc_success (classify c) = true <-> (c = 200 \/ c = 202).
Proof.
  unfold classify; cbn [rc_success]. rewrite mem_In. cbn [In success_codes].
  split; [intros [H | [H | []]]; subst; auto | intros [H | H]; subst; auto].
Qed.

Lemma fail_retry_iff c : fail_of_code c = FRetry <-> In c [408; 429; 500; 503].
Proof.
  unfold fail_of_code. rewrite <- (mem_In c retry_codes).
  destruct (mem c retry_codes) eqn:E.
  - split; auto.
  - destruct (c =? 409); [split; discriminate|].
    destruct (c =? 401); [split; discriminate|].
    destruct (c =? 410); [split; discriminate|].
    destruct (c =? 0); split; discriminate.
Qed.

Lemma outcome_ok_iff c : outcome_of_code c = OOk <-> (c = 200 \/ c = 202).
Proof.
  unfold outcome_of_code. rewrite <- success_iff. unfold classify; cbn [rc_success].
  destruct (mem c success_codes); split; auto; discriminate.
Qed.

Lemma outcome_retry_iff c : outcome_of_code c = OFail FRetry <-> In c [408; 429; 500; 503].
Proof.
  unfold outcome_of_code. destruct (mem c success_codes) eqn:E.
  - apply mem_In in E. cbn [In success_codes] in E.
    split; [discriminate|].
    cbn [In]. intros Hr. destruct E as [E | [E | []]]; subst c;
      repeat (destruct Hr as [Hr | Hr]; [discriminate Hr|]); destruct Hr.
  - rewrite <- fail_retry_iff. split; [intros H; injection H; auto | intros ->; reflexivity].
Qed.

(* the classes are mutually exclusive: one reply cannot both keep its data and end the run *)
Lemma classes_exclusive c :
  let k := classify c in
  (rc_success k = true -> rc_disconnect k = false /\ rc_restart k = false /\ rc_save k = false) /\
  (rc_save k = true -> rc_disconnect k = false /\ rc_restart k = false) /\
  (rc_disconnect k = true -> rc_restart k = false) /\
  (rc_invalid_license k = true -> rc_restart k = true).
Proof.
  cbv zeta. unfold classify; cbn [rc_success rc_disconnect rc_restart rc_save rc_invalid_license].
  split; [|split; [|split]].
  - intros Hm. apply mem_In in Hm. cbn [In success_codes] in Hm.
    destruct Hm as [Hm | [Hm | []]]; subst c; repeat split.
  - intros Hm. apply mem_In in Hm. cbn [In retry_codes] in Hm.
    destruct Hm as [Hm | [Hm | [Hm | [Hm | []]]]]; subst c; repeat split.
  - intros Hm. apply N.eqb_eq in Hm; subst c; reflexivity.
  - intros Hm. apply N.eqb_eq in Hm; subst c; reflexivity.
Qed.

(* the class used by the processor model agrees with the boolean view *)
Lemma fail_of_code_class c :
  rc_success (classify c) = false ->
  match fail_of_code c with
  | FRetry => rc_save (classify c) = true
  | F409 => c = 409 /\ rc_restart (classify c) = true /\ rc_invalid_license (classify c) = false
  | F401 => c = 401 /\ rc_restart (classify c) = true /\ rc_invalid_license (classify c) = true
  | F410 => c = 410 /\ rc_disconnect (classify c) = true
  | FTransport => c = 0 /\ harvest_action_of (classify c) = 0
  | FOther => harvest_action_of (classify c) = 0
  end.
Proof.
  intros _. unfold fail_of_code, harvest_action_of, classify;
    cbn [rc_save rc_disconnect rc_restart rc_invalid_license].
  destruct (mem c retry_codes) eqn:E; [reflexivity|].
  destruct (c =? 409) eqn:E1; [apply N.eqb_eq in E1; subst c; repeat split|].
  destruct (c =? 401) eqn:E2; [apply N.eqb_eq in E2; subst c; repeat split|].
  destruct (c =? 410) eqn:E3; [apply N.eqb_eq in E3; subst c; repeat split|].
  destruct (c =? 0) eqn:E4; [apply N.eqb_eq in E4; subst c; repeat split|].
  reflexivity.
Qed.

Example status_nonvacuous :
  outcome_of_code 429 = OFail FRetry /\ outcome_of_code 413 = OFail FOther /\ outcome_of_code 202 = OOk /\
  status_mismatches [(503, mk_class false false false false true); (410, mk_class false true false false false)] = [] /\
  status_mismatches [(429, mk_class false false false false false)] = [429].
Proof. vm_compute. repeat split. Qed.
