(* LaspProofs.v -- lemmas about the LASP handshake model (Lasp.v). *)
From Coq Require Import NArith PeanoNat List Bool Lia.
From Verif Require Import Lasp.
Import ListNotations.
Open Scope N_scope.

(* ------------------------------------------------------------------------- names, maps *)

Lemma name_eqb_refl a : name_eqb a a = true.
Proof. induction a as [|x a IH]; cbn; [reflexivity|]. rewrite N.eqb_refl. exact IH. Qed.

Lemma name_eqb_eq a b : name_eqb a b = true <-> a = b.
Proof.
  split.
  - revert b. induction a as [|x a IH]; intros [|y b] H; cbn in H; try discriminate; [reflexivity|].
    destruct (N.eqb x y) eqn:E; [|discriminate]. apply N.eqb_eq in E. subst y.
    f_equal. apply IH. exact H.
  - intros ->. apply name_eqb_refl.
Qed.

Lemma name_eqb_neq a b : name_eqb a b = false <-> a <> b.
Proof.
  split.
  - intros H E. apply name_eqb_eq in E. congruence.
  - intros H. destruct (name_eqb a b) eqn:E; [|reflexivity]. apply name_eqb_eq in E. contradiction.
Qed.

Lemma lookup_some_in {V} k (m : list (name * V)) v : lookup k m = Some v -> In (k, v) m.
Proof.
  induction m as [|[k' v'] m IH]; cbn; [discriminate|].
  destruct (name_eqb k k') eqn:E.
  - intros H. inversion H. subst v'. apply name_eqb_eq in E. subst k'. left. reflexivity.
  - intros H. right. apply IH. exact H.
Qed.

Lemma lookup_none_notin {V} k (m : list (name * V)) : lookup k m = None <-> ~ In k (map fst m).
Proof.
  induction m as [|[k' v'] m IH]; cbn.
  - split; [intros _ H; exact H|reflexivity].
  - destruct (name_eqb k k') eqn:E.
    + apply name_eqb_eq in E. subst k'. split; [discriminate|]. intros H. exfalso. apply H. left. reflexivity.
    + apply name_eqb_neq in E. rewrite IH. split.
      * intros H [H1|H1]; [congruence|contradiction].
      * intros H H1. apply H. right. exact H1.
Qed.

Lemma in_fst {V} (k : name) (v : V) (m : list (name * V)) : In (k, v) m -> In k (map fst m).
Proof. intros H. apply (in_map fst) in H. exact H. Qed.

Lemma lookup_in_nodup {V} k (m : list (name * V)) v :
  NoDup (map fst m) -> In (k, v) m -> lookup k m = Some v.
Proof.
  induction m as [|[k' v'] m IH]; cbn; [intros _ []|].
  intros ND [H|H].
  - inversion H. subst. rewrite name_eqb_refl. reflexivity.
  - inversion ND as [|? ? Hn ND']. subst.
    destruct (name_eqb k k') eqn:E.
    + apply name_eqb_eq in E. subst k'. exfalso. apply Hn. eapply in_fst. exact H.
    + apply IH; assumption.
Qed.

Lemma lookup_some_iff {V} k (m : list (name * V)) v :
  NoDup (map fst m) -> (lookup k m = Some v <-> In (k, v) m).
Proof. intros ND. split; [apply lookup_some_in|apply lookup_in_nodup; exact ND]. Qed.

Lemma lookup_is_some_iff {V} k (m : list (name * V)) :
  (exists v, lookup k m = Some v) <-> In k (map fst m).
Proof.
  destruct (lookup k m) eqn:E.
  - split; [intros _|intros _; eexists; reflexivity]. eapply in_fst. apply lookup_some_in. exact E.
  - split; [intros [v Hv]; discriminate|]. intros H. apply lookup_none_notin in E. contradiction.
Qed.

Lemma is_empty_true {A} (l : list A) : is_empty l = true <-> l = [].
Proof. destruct l; cbn; split; congruence. Qed.

Lemma is_empty_false {A} (l : list A) : is_empty l = false <-> l <> [].
Proof. destruct l; cbn; split; congruence. Qed.

(* the monitor's find-based accessors coincide with lookup *)
Lemma get_lookup {V} k (m : list (name * V)) : get k m = lookup k m.
Proof.
  unfold get. induction m as [|[k' v'] m IH]; cbn; [reflexivity|].
  destruct (name_eqb k k'); [reflexivity|exact IH].
Qed.

Lemma mem_lookup {V} k (m : list (name * V)) : mem k m = true <-> exists v, lookup k m = Some v.
Proof.
  unfold mem. induction m as [|[k' v'] m IH]; cbn.
  - split; [discriminate|intros [v H]; discriminate].
  - destruct (name_eqb k k'); cbn; [split; [eexists; reflexivity|reflexivity]|exact IH].
Qed.

Lemma mem_in {V} k (m : list (name * V)) : mem k m = true <-> In k (map fst m).
Proof. rewrite mem_lookup. apply lookup_is_some_iff. Qed.

(* ------------------------------------------------------------------------------- verify *)

Lemma check_required_none ag co :
  check_required ag co = None <->
  (forall n c, In (n, c) co -> c_required c = true ->
               exists a, lookup n ag = Some a /\ a_supported a = true).
Proof.
  induction co as [|[n p] co IH]; cbn.
  - split; [intros _ n c []|reflexivity].
  - destruct (c_required p) eqn:R; cbn.
    + destruct (lookup n ag) as [a|] eqn:L.
      * destruct (a_supported a) eqn:S.
        -- rewrite IH. split.
           ++ intros H n' c' [E|E] Hr; [inversion E; subst; exists a; split; assumption|eapply H; eassumption].
           ++ intros H n' c' E Hr. eapply H; [right; exact E|exact Hr].
        -- split; [discriminate|]. intros H. destruct (H n p (or_introl eq_refl) R) as [a' [L' S']].
           rewrite L in L'. inversion L'. subst a'. congruence.
      * split; [discriminate|]. intros H. destruct (H n p (or_introl eq_refl) R) as [a' [L' _]].
        rewrite L in L'. discriminate.
    + rewrite IH. split.
      * intros H n' c' [E|E] Hr; [inversion E; subst; congruence|eapply H; eassumption].
      * intros H n' c' E Hr. eapply H; [right; exact E|exact Hr].
Qed.

Lemma check_known_none ag co :
  check_known ag co = None <-> (forall n, In n (map fst ag) -> In n (map fst co)).
Proof.
  induction ag as [|[n a] ag IH]; cbn.
  - split; [intros _ n []|reflexivity].
  - destruct (lookup n co) as [c|] eqn:L.
    + rewrite IH. split.
      * intros H n' [E|E]; [subst n'; apply lookup_is_some_iff; eexists; exact L|apply H; exact E].
      * intros H n' E. apply H. right. exact E.
    + split; [discriminate|]. intros H. apply lookup_none_notin in L. exfalso. apply L. apply H. left. reflexivity.
Qed.

Definition acceptable (ag : amap) (co : cmap) : Prop :=
  ag <> [] /\ co <> [] /\
  (forall n c, In (n, c) co -> c_required c = true -> exists a, In (n, a) ag /\ a_supported a = true) /\
  (forall n a, In (n, a) ag -> exists c, In (n, c) co).

Lemma verify_iff ag co : NoDup (map fst ag) -> NoDup (map fst co) ->
  (verify ag co = VOk <-> acceptable ag co).
Proof.
  intros NDa NDc. unfold verify, acceptable.
  destruct (is_empty ag) eqn:Ea.
  { apply is_empty_true in Ea. split; [discriminate|]. intros [H _]. contradiction. }
  destruct (is_empty co) eqn:Ec.
  { apply is_empty_true in Ec. split; [discriminate|]. intros [_ [H _]]. contradiction. }
  apply is_empty_false in Ea. apply is_empty_false in Ec.
  destruct (check_required ag co) as [n|] eqn:R.
  { split; [discriminate|]. intros [_ [_ [H _]]].
    assert (Hn : check_required ag co = None).
    { apply check_required_none. intros n' c' Hin Hr. destruct (H n' c' Hin Hr) as [a [Hi Hs]].
      exists a. split; [apply lookup_in_nodup; assumption|exact Hs]. }
    congruence. }
  destruct (check_known ag co) as [n|] eqn:K.
  { split; [discriminate|]. intros [_ [_ [_ H]]].
    assert (Hn : check_known ag co = None).
    { apply check_known_none. intros n' Hin. apply in_map_iff in Hin. destruct Hin as [[k a] [E Hin]].
      cbn in E. subst k. destruct (H n' a Hin) as [c Hc]. eapply in_fst. exact Hc. }
    congruence. }
  split; [|reflexivity]. intros _. split; [exact Ea|]. split; [exact Ec|]. split.
  - intros n c Hin Hr. pose proof (proj1 (check_required_none ag co) R n c Hin Hr) as [a [L S]].
    exists a. split; [apply lookup_some_in; exact L|exact S].
  - intros n a Hin. pose proof (proj1 (check_known_none ag co) K n (in_fst _ _ _ Hin)) as H.
    apply lookup_is_some_iff in H. destruct H as [c Hc]. exists c. apply lookup_some_in. exact Hc.
Qed.

(* the error class does not depend on the iteration order: empty maps first, then a required
   policy that is not supported, then an agent policy the collector does not know *)
Lemma verify_err_classes ag co e : verify ag co = VErr e ->
  match e with
  | EEmptyAgent => ag = []
  | EEmptyCollector => ag <> [] /\ co = []
  | ERequiredUnsupported n =>
      exists c, In (n, c) co /\ c_required c = true /\
                (lookup n ag = None \/ exists a, lookup n ag = Some a /\ a_supported a = false)
  | EMissingFromPreconnect n =>
      check_required ag co = None /\ In n (map fst ag) /\ ~ In n (map fst co)
  end.
Proof.
  unfold verify.
  destruct (is_empty ag) eqn:Ea.
  { intros H. inversion H. apply is_empty_true. exact Ea. }
  destruct (is_empty co) eqn:Ec.
  { intros H. inversion H. split; [apply is_empty_false; exact Ea|apply is_empty_true; exact Ec]. }
  destruct (check_required ag co) as [n|] eqn:R.
  { intros H. inversion H. subst e. clear H Ea Ec.
    induction co as [|[n' p] co IH]; cbn in R; [discriminate|].
    destruct (c_required p) eqn:Rq; cbn in R.
    - destruct (lookup n' ag) as [a|] eqn:L.
      + destruct (a_supported a) eqn:S.
        * destruct (IH R) as [c [Hin H]]. exists c. split; [right; exact Hin|exact H].
        * inversion R. subst n'. exists p. split; [left; reflexivity|]. split; [exact Rq|].
          right. exists a. split; [exact L|exact S].
      + inversion R. subst n'. exists p. split; [left; reflexivity|]. split; [exact Rq|]. left. exact L.
    - destruct (IH R) as [c [Hin H]]. exists c. split; [right; exact Hin|exact H]. }
  destruct (check_known ag co) as [n|] eqn:K; [|discriminate].
  intros H. inversion H. subst e. split; [reflexivity|]. clear H Ea Ec R.
  induction ag as [|[n' a] ag IH]; cbn in K; [discriminate|].
  destruct (lookup n' co) eqn:L.
  - destruct (IH K) as [H1 H2]. split; [right; exact H1|exact H2].
  - inversion K. subst n'. split; [left; reflexivity|]. apply lookup_none_notin. exact L.
Qed.

(* -------------------------------------------------------------------------- add_policies *)

Lemma payload_policies_in ag co n b :
  In (n, b) (payload_policies ag co) <->
  exists a, In (n, a) ag /\ a_supported a = true /\ b = a_enabled a && co_enabled co n.
Proof.
  unfold payload_policies. rewrite in_map_iff. split.
  - intros [[k a] [E Hin]]. cbn in E. inversion E. subst. apply filter_In in Hin. cbn in Hin.
    destruct Hin as [Hin S]. exists a. repeat split; assumption.
  - intros [a [Hin [S E]]]. exists (n, a). cbn. split; [rewrite E; reflexivity|].
    apply filter_In. split; [exact Hin|exact S].
Qed.

Lemma map_fst_filter_nodup {V} (f : name * V -> bool) (m : list (name * V)) :
  NoDup (map fst m) -> NoDup (map fst (filter f m)).
Proof.
  induction m as [|[k v] m IH]; cbn; [intros H; exact H|].
  intros ND. inversion ND as [|? ? Hn ND']. subst.
  destruct (f (k, v)); cbn; [|apply IH; exact ND'].
  constructor; [|apply IH; exact ND'].
  intros H. apply Hn. apply in_map_iff in H. destruct H as [[k' v'] [E Hin]]. cbn in E. subst k'.
  apply filter_In in Hin. destruct Hin as [Hin _]. eapply in_fst. exact Hin.
Qed.

Lemma payload_policies_nodup ag co : NoDup (map fst ag) -> NoDup (map fst (payload_policies ag co)).
Proof.
  intros ND. unfold payload_policies. rewrite map_map. cbn.
  apply (map_fst_filter_nodup (fun na => a_supported (snd na))) in ND. exact ND.
Qed.

Lemma add_policies_ok ag co : ag <> [] -> co <> [] -> add_policies ag co = AOk (payload_policies ag co).
Proof.
  intros Ha Hc. unfold add_policies. apply is_empty_false in Ha. apply is_empty_false in Hc.
  rewrite Ha, Hc. reflexivity.
Qed.

Lemma co_enabled_in co n c : NoDup (map fst co) -> In (n, c) co -> co_enabled co n = c_enabled c.
Proof. intros ND Hin. unfold co_enabled. rewrite (lookup_in_nodup _ _ _ ND Hin). reflexivity. Qed.

Lemma co_enabled_missing co n : ~ In n (map fst co) -> co_enabled co n = false.
Proof. intros H. unfold co_enabled. apply lookup_none_notin in H. rewrite H. reflexivity. Qed.

(* the payload entry is present iff the agent supports the policy, and its flag is the conjunction;
   a name the collector did not mention gets enabled = false *)
Lemma enabled_conj ag co : NoDup (map fst ag) -> NoDup (map fst co) ->
  let pm := payload_policies ag co in
  NoDup (map fst pm) /\
  (forall n, In n (map fst pm) <-> exists a, In (n, a) ag /\ a_supported a = true) /\
  (forall n b, In (n, b) pm ->
     exists a, In (n, a) ag /\
       ((exists c, In (n, c) co /\ b = a_enabled a && c_enabled c) \/
        (~ In n (map fst co) /\ b = false))).
Proof.
  intros NDa NDc pm. split; [apply payload_policies_nodup; exact NDa|]. split.
  - intros n. split.
    + intros H. apply in_map_iff in H. destruct H as [[k b] [E Hin]]. cbn in E. subst k.
      apply payload_policies_in in Hin. destruct Hin as [a [Hin [S _]]]. exists a. split; assumption.
    + intros [a [Hin S]]. eapply in_fst. apply payload_policies_in. exists a. repeat split; eassumption.
  - intros n b Hin. apply payload_policies_in in Hin. destruct Hin as [a [Hin [S E]]].
    exists a. split; [exact Hin|].
    destruct (lookup n co) as [c|] eqn:L.
    + left. exists c. split; [apply lookup_some_in; exact L|]. unfold co_enabled in E. rewrite L in E. exact E.
    + right. split; [apply lookup_none_notin; exact L|]. unfold co_enabled in E. rewrite L in E.
      rewrite andb_false_r in E. exact E.
Qed.

(* ------------------------------------------------------------------- connect_application *)

Lemma verify_ok_nonempty ag co : verify ag co = VOk -> ag <> [] /\ co <> [].
Proof.
  unfold verify. destruct (is_empty ag) eqn:Ea; [discriminate|]. destruct (is_empty co) eqn:Ec; [discriminate|].
  intros _. split; apply is_empty_false; assumption.
Qed.

(* fail closed: a token and a failed verification, or no usable preconnect answer, give exactly one
   request (the preconnect), an attempt that carries an error, nothing to hand back to the agent and
   an application that is not connected *)
Lemma fail_closed token ag p0 pc cn :
  (token <> [] /\ exists r co, pc = PcReply r co /\ verify ag co <> VOk) \/
  pc = PcTransportErr \/ pc = PcMalformed ->
  let ra := connect_application token ag p0 pc cn in
  fst ra = [RPreconnect token] /\ at_err (snd ra) <> None /\ at_policies (snd ra) = None /\
  at_reply (snd ra) = false /\ app_connects (snd ra) = false.
Proof.
  intros [[Ht [r [co [-> Hv]]]]|[-> | ->]]; cbn.
  - apply is_empty_false in Ht. rewrite Ht. destruct (verify ag co) as [|e]; [contradiction|].
    cbn. repeat split; congruence.
  - repeat split; congruence.
  - repeat split; congruence.
Qed.

(* conversely a connect request is made only after a preconnect answer that passed verification
   (or without a token) *)
Lemma connect_only_if_verified token ag p0 pc cn h pm :
  In (RConnect h pm) (fst (connect_application token ag p0 pc cn)) ->
  exists co, pc = PcReply h co /\ (token = [] \/ verify ag co = VOk).
Proof.
  destruct pc as [| |r co]; cbn; try (intros [H|[]]; discriminate).
  destruct (is_empty token) eqn:Et.
  - apply is_empty_true in Et. intros H. exists co.
    destruct cn; cbn in H; destruct H as [H|[H|[]]]; try discriminate; inversion H; subst; split; auto.
  - destruct (verify ag co) eqn:V; cbn; [|intros [H|[]]; discriminate].
    destruct (add_policies ag co) eqn:A; cbn; [|intros [H|[]]; discriminate].
    intros H. exists co.
    destruct cn; cbn in H; destruct H as [H|[H|[]]]; try discriminate; inversion H; subst; split; auto.
Qed.

Lemma connect_tail_fst r co pm cn pre : fst (connect_tail r co pm cn pre) = pre ++ [RConnect r pm].
Proof. destruct cn; reflexivity. Qed.

Lemma connect_tail_policies r co pm cn pre :
  at_policies (snd (connect_tail r co pm cn pre)) = Some (returned_policies co).
Proof. destruct cn; reflexivity. Qed.

Lemma connect_tail_err r co pm cn pre :
  at_err (snd (connect_tail r co pm cn pre)) = None <-> cn = CnOk.
Proof. destruct cn; cbn; split; congruence. Qed.

Lemma verified_connect token ag p0 r co cn : token <> [] -> verify ag co = VOk ->
  connect_application token ag p0 (PcReply r co) cn =
  connect_tail r co (payload_policies ag co) cn [RPreconnect token].
Proof.
  intros Ht V. cbn. apply is_empty_false in Ht. rewrite Ht, V.
  destruct (verify_ok_nonempty _ _ V) as [Ha Hc]. rewrite (add_policies_ok _ _ Ha Hc). reflexivity.
Qed.

(* most secure wins, in the connect request actually sent *)
Lemma enabled_conj_connect token ag p0 r co cn :
  NoDup (map fst ag) -> NoDup (map fst co) -> token <> [] -> verify ag co = VOk ->
  exists pm, fst (connect_application token ag p0 (PcReply r co) cn) = [RPreconnect token; RConnect r pm] /\
    NoDup (map fst pm) /\
    (forall n, In n (map fst pm) <-> exists a, In (n, a) ag /\ a_supported a = true) /\
    (forall n b, In (n, b) pm -> exists a c, In (n, a) ag /\ In (n, c) co /\ b = a_enabled a && c_enabled c).
Proof.
  intros NDa NDc Ht V. exists (payload_policies ag co).
  rewrite (verified_connect _ _ _ _ _ _ Ht V), connect_tail_fst.
  destruct (enabled_conj ag co NDa NDc) as [H1 [H2 H3]].
  split; [reflexivity|]. split; [exact H1|]. split; [exact H2|].
  intros n b Hin. destruct (H3 n b Hin) as [a [Hia [[c [Hic E]]|[Hn _]]]].
  - exists a, c. repeat split; assumption.
  - exfalso. apply Hn. apply (verify_iff ag co NDa NDc) in V. destruct V as [_ [_ [_ K]]].
    destruct (K n a Hia) as [c Hc]. eapply in_fst. exact Hc.
Qed.

(* what is handed back to agents is the collector's name |-> enabled, whenever the handshake got
   past verification (with or without token); nothing is handed back otherwise *)
Lemma returned_policies_exact token ag p0 r co cn :
  (token = [] \/ verify ag co = VOk) ->
  at_policies (snd (connect_application token ag p0 (PcReply r co) cn)) =
    Some (map (fun nc => (fst nc, c_enabled (snd nc))) co).
Proof.
  intros [->|V].
  - cbn. apply connect_tail_policies.
  - destruct token as [|t0 tr] eqn:Et; [cbn; apply connect_tail_policies|].
    rewrite (verified_connect (t0 :: tr) ag p0 r co cn); [apply connect_tail_policies|discriminate|exact V].
Qed.

Lemma returned_policies_in co n b : NoDup (map fst co) ->
  (In (n, b) (returned_policies co) <-> exists c, In (n, c) co /\ b = c_enabled c).
Proof.
  intros _. unfold returned_policies. rewrite in_map_iff. split.
  - intros [[k c] [E Hin]]. cbn in E. inversion E. subst. exists c. split; [exact Hin|reflexivity].
  - intros [c [Hin ->]]. exists (n, c). split; [reflexivity|exact Hin].
Qed.

(* without a token: no verification, the payload's policies are left as they were *)
Lemma no_token_no_policies ag p0 r co cn :
  let ra := connect_application [] ag p0 (PcReply r co) cn in
  fst ra = [RPreconnect []; RConnect r p0] /\
  at_policies (snd ra) = Some (returned_policies co) /\
  (at_err (snd ra) = None <-> cn = CnOk).
Proof.
  cbn. rewrite connect_tail_fst, connect_tail_policies. split; [reflexivity|]. split; [reflexivity|].
  apply connect_tail_err.
Qed.

(* the addPoliciesToPayload error branch of ConnectApplication is dead code *)
Lemma add_after_verify_never_fails ag co : verify ag co = VOk -> exists pm, add_policies ag co = AOk pm.
Proof.
  intros V. destruct (verify_ok_nonempty _ _ V) as [Ha Hc]. eexists. apply add_policies_ok; assumption.
Qed.

(* ------------------------------------------------------------------------ monitor sound *)

Lemma spec_acceptable_iff ag co : NoDup (map fst ag) -> NoDup (map fst co) ->
  (spec_acceptable ag co = true <-> acceptable ag co).
Proof.
  intros NDa NDc. unfold spec_acceptable, acceptable.
  rewrite !andb_true_iff, !negb_true_iff, !is_empty_false, !forallb_forall. split.
  - intros [[[Ha Hc] Hr] Hk]. split; [exact Ha|]. split; [exact Hc|]. split.
    + intros n c Hin Rq. specialize (Hr (n, c) Hin). cbn in Hr. rewrite Rq, get_lookup in Hr.
      destruct (lookup n ag) as [a|] eqn:L; [|discriminate]. exists a. split; [apply lookup_some_in; exact L|exact Hr].
    + intros n a Hin. specialize (Hk (n, a) Hin). cbn in Hk. apply mem_lookup in Hk. destruct Hk as [c Hc'].
      exists c. apply lookup_some_in. exact Hc'.
  - intros [Ha [Hc [Hr Hk]]]. repeat split; try assumption.
    + intros [n c] Hin. cbn. destruct (c_required c) eqn:Rq; [|reflexivity].
      destruct (Hr n c Hin Rq) as [a [Hia S]]. rewrite get_lookup, (lookup_in_nodup _ _ _ NDa Hia). exact S.
    + intros [n a] Hin. cbn. destruct (Hk n a Hin) as [c Hc']. apply mem_in. eapply in_fst. exact Hc'.
Qed.

Lemma spec_acceptable_verify ag co : NoDup (map fst ag) -> NoDup (map fst co) ->
  (spec_acceptable ag co = true <-> verify ag co = VOk).
Proof. intros NDa NDc. rewrite spec_acceptable_iff, verify_iff by assumption. reflexivity. Qed.

(* the model's own output always satisfies the payload / returned-policies parts of the monitor *)
Lemma spec_payload_ok_model ag co : NoDup (map fst ag) ->
  spec_payload_ok ag co (payload_policies ag co) = true.
Proof.
  intros NDa. unfold spec_payload_ok. rewrite andb_true_iff, !forallb_forall. split.
  - intros [n a] Hin. cbn. destruct (a_supported a) eqn:S.
    + rewrite !get_lookup.
      assert (Hp : In (n, a_enabled a && co_enabled co n) (payload_policies ag co)).
      { apply payload_policies_in. exists a. repeat split; assumption. }
      rewrite (lookup_in_nodup _ _ _ (payload_policies_nodup ag co NDa) Hp). cbn. apply eqb_reflx.
    + apply negb_true_iff. destruct (mem n (payload_policies ag co)) eqn:M; [|reflexivity].
      apply mem_in in M. apply in_map_iff in M. destruct M as [[k b] [E Hp]]. cbn in E. subst k.
      apply payload_policies_in in Hp. destruct Hp as [a' [Hin' [S' _]]].
      pose proof (lookup_in_nodup _ _ _ NDa Hin) as L1. pose proof (lookup_in_nodup _ _ _ NDa Hin') as L2.
      congruence.
  - intros [n b] Hp. cbn. apply payload_policies_in in Hp. destruct Hp as [a [Hin _]].
    apply mem_in. eapply in_fst. exact Hin.
Qed.

Lemma spec_returned_ok_model co : NoDup (map fst co) -> spec_returned_ok co (returned_policies co) = true.
Proof.
  intros ND. unfold spec_returned_ok. rewrite andb_true_iff, !forallb_forall.
  assert (NDr : NoDup (map fst (returned_policies co))).
  { unfold returned_policies. rewrite map_map. cbn. exact ND. }
  split.
  - intros [n c] Hin. cbn. rewrite get_lookup.
    assert (Hr : In (n, c_enabled c) (returned_policies co)).
    { apply returned_policies_in; [exact ND|]. exists c. split; [exact Hin|reflexivity]. }
    rewrite (lookup_in_nodup _ _ _ NDr Hr). cbn. apply eqb_reflx.
  - intros [n b] Hr. cbn. apply returned_policies_in in Hr; [|exact ND]. destruct Hr as [c [Hin _]].
    apply mem_in. eapply in_fst. exact Hin.
Qed.

Lemma pmap_eqb_refl p : NoDup (map fst p) -> pmap_eqb p p = true.
Proof.
  intros ND. unfold pmap_eqb. rewrite Nat.eqb_refl. cbn.
  assert (H : forallb (fun kv => bool_opt_eqb (get (fst kv) p) (Some (snd kv))) p = true).
  { apply forallb_forall. intros [k v] Hin. cbn. rewrite get_lookup, (lookup_in_nodup _ _ _ ND Hin).
    cbn. apply eqb_reflx. }
  rewrite H. reflexivity.
Qed.

(* the monitor accepts everything the model does: the monitor states no more than the theorems *)
Theorem monitor_accepts_model token ag p0 pc cn :
  NoDup (map fst ag) -> NoDup (map fst p0) ->
  (forall r co, pc = PcReply r co -> NoDup (map fst co)) ->
  c13_monitor token ag p0 pc cn (project (connect_application token ag p0 pc cn)) = true.
Proof.
  intros NDa NDp NDc. destruct pc as [| |r co]; cbn.
  - rewrite name_eqb_refl. reflexivity.
  - rewrite name_eqb_refl. reflexivity.
  - specialize (NDc r co eq_refl).
    destruct (is_empty token) eqn:Et; cbn.
    + apply is_empty_true in Et. subst token.
      destruct cn; cbn; rewrite name_eqb_refl, (pmap_eqb_refl _ NDp), (spec_returned_ok_model _ NDc); reflexivity.
    + destruct (spec_acceptable ag co) eqn:SA; cbn.
      * apply (spec_acceptable_verify ag co NDa NDc) in SA. rewrite SA.
        destruct (verify_ok_nonempty _ _ SA) as [Ha Hc]. rewrite (add_policies_ok _ _ Ha Hc).
        destruct cn; cbn; rewrite !name_eqb_refl, (spec_payload_ok_model _ _ NDa),
          (spec_returned_ok_model _ NDc); reflexivity.
      * destruct (verify ag co) eqn:V.
        { apply (spec_acceptable_verify ag co NDa NDc) in V. congruence. }
        cbn. rewrite name_eqb_refl. reflexivity.
Qed.

Theorem proc_monitor_accepts_model token ag pc cn :
  NoDup (map fst ag) -> (forall r co, pc = PcReply r co -> NoDup (map fst co)) ->
  c13_proc_monitor token ag pc cn (project_proc (connect_application token ag [] pc cn)) = true.
Proof.
  intros NDa NDc. destruct pc as [| |r co]; cbn.
  - rewrite name_eqb_refl. reflexivity.
  - rewrite name_eqb_refl. reflexivity.
  - specialize (NDc r co eq_refl).
    destruct (is_empty token) eqn:Et; cbn.
    + apply is_empty_true in Et. subst token.
      destruct cn; cbn; rewrite ?name_eqb_refl, ?(spec_returned_ok_model _ NDc); reflexivity.
    + destruct (spec_acceptable ag co) eqn:SA; cbn.
      * apply (spec_acceptable_verify ag co NDa NDc) in SA. rewrite SA.
        destruct (verify_ok_nonempty _ _ SA) as [Ha Hc]. rewrite (add_policies_ok _ _ Ha Hc).
        destruct cn; cbn; rewrite !name_eqb_refl, (spec_payload_ok_model _ _ NDa),
          ?(spec_returned_ok_model _ NDc); reflexivity.
      * destruct (verify ag co) eqn:V.
        { apply (spec_acceptable_verify ag co NDa NDc) in V. congruence. }
        cbn. rewrite name_eqb_refl. reflexivity.
Qed.

(* and the monitor really states fail-closedness: an observation it accepts, for a token and an
   unacceptable pair of maps, has exactly the preconnect request and an error *)
Theorem monitor_fail_closed token ag p0 r co cn o :
  NoDup (map fst ag) -> NoDup (map fst co) -> token <> [] -> ~ acceptable ag co ->
  c13_monitor token ag p0 (PcReply r co) cn o = true ->
  o_reqs o = [RPreconnect token] /\ o_err o = true /\ o_reply o = false.
Proof.
  intros NDa NDc Ht Hna. unfold c13_monitor. apply is_empty_false in Ht. rewrite Ht. cbn.
  destruct (spec_acceptable ag co) eqn:SA.
  { apply (spec_acceptable_iff ag co NDa NDc) in SA. contradiction. }
  cbn. rewrite !andb_true_iff, negb_true_iff. unfold one_preconnect.
  intros [[H1 H2] H3]. split; [|split; assumption].
  destruct (o_reqs o) as [|[t|h pm] [|q qs]]; try discriminate. apply name_eqb_eq in H1. subst t. reflexivity.
Qed.

(* -------------------------------------------------------------------------- policy hash *)

Lemma insert_sorted_nil l : insert_sorted [] l = [] :: l.
Proof. destruct l; reflexivity. Qed.

(* the len(ap.Policies) leading empty strings left by make(..., len, len) + append do not change the
   hashed text *)
Lemma sort_names_nils k l : sort_names (repeat [] k ++ l) = repeat [] k ++ sort_names l.
Proof.
  induction k as [|k IH]; cbn; [reflexivity|]. fold (sort_names (repeat [] k ++ l)). rewrite IH.
  apply insert_sorted_nil.
Qed.

Lemma concat_repeat_nil {A} k : concat (repeat (@nil A) k) = [].
Proof. induction k as [|k IH]; cbn; [reflexivity|exact IH]. Qed.

Lemma hash_preimage_simpl ag : hash_preimage ag = concat (sort_names (supported_names ag)).
Proof.
  unfold hash_preimage. rewrite sort_names_nils, concat_app, concat_repeat_nil. reflexivity.
Qed.

(* "ab" "c"  versus  "a" "bc" *)
Definition ag_ab_c : amap := [([97; 98], mkA true true); ([99], mkA true true)].
Definition ag_a_bc : amap := [([97], mkA true true); ([98; 99], mkA true true)].

(* Known finding c04-policy-hash-concat: two agents supporting DIFFERENT policy sets present the same
   text to the hash, hence (for any hash function) the same AppKey.AgentPolicies. *)
Theorem policy_hash_not_injective :
  NoDup (map fst ag_ab_c) /\ NoDup (map fst ag_a_bc) /\
  (exists n, In n (supported_names ag_ab_c) /\ ~ In n (supported_names ag_a_bc)) /\
  hash_preimage ag_ab_c = hash_preimage ag_a_bc /\
  forall sha256hex, policies_hash sha256hex ag_ab_c = policies_hash sha256hex ag_a_bc.
Proof.
  split; [repeat constructor; cbn; intuition discriminate|].
  split; [repeat constructor; cbn; intuition discriminate|].
  split.
  - exists [97; 98]. split; [left; reflexivity|]. cbn. intuition discriminate.
  - split; [reflexivity|]. intros h. unfold policies_hash. reflexivity.
Qed.

(* ------------------------------------------------------------------------- non-vacuity *)

Definition ex_ag : amap := [([112; 49], mkA true true); ([112; 50], mkA false true); ([112; 51], mkA true false)].
Definition ex_co : cmap := [([112; 49], mkC true true); ([112; 50], mkC true false); ([112; 51], mkC false false)].
Definition ex_co_bad : cmap := [([112; 49], mkC true true); ([112; 51], mkC false true)].

Example ex_verify_ok : NoDup (map fst ex_ag) /\ NoDup (map fst ex_co) /\ verify ex_ag ex_co = VOk.
Proof. split; [repeat constructor; cbn; intuition discriminate|]. split; [repeat constructor; cbn; intuition discriminate|reflexivity]. Qed.

Example ex_verify_bad : verify ex_ag ex_co_bad = VErr (ERequiredUnsupported [112; 51]).
Proof. reflexivity. Qed.

Example ex_fail_closed :
  connect_application [116] ex_ag [] (PcReply [104] ex_co_bad) CnOk =
  ([RPreconnect [116]], mkAttempt (Some (ErrLasp (ERequiredUnsupported [112; 51]))) None false).
Proof. reflexivity. Qed.

Example ex_connect :
  connect_application [116] ex_ag [] (PcReply [104] ex_co) CnOk =
  ([RPreconnect [116]; RConnect [104] [([112; 49], true); ([112; 50], false)]],
   mkAttempt None (Some [([112; 49], true); ([112; 50], true); ([112; 51], false)]) true).
Proof. reflexivity. Qed.

Example ex_no_token :
  connect_application [] ex_ag [] (PcReply [104] ex_co_bad) CnOk =
  ([RPreconnect []; RConnect [104] []],
   mkAttempt None (Some [([112; 49], true); ([112; 51], false)]) true).
Proof. reflexivity. Qed.

(* a supported policy the collector does not list is sent with enabled = false (reachable only
   through add_policies directly: verification refuses such a pair) *)
Example ex_missing_is_false :
  payload_policies [([120], mkA true true)] ex_co = [([120], false)].
Proof. reflexivity. Qed.
