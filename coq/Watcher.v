(* Watcher.v -- model of daemon/cmd/daemon/watcher.go: decoding of the worker's wait status
   (syscall.WaitStatus on linux), workerState.ShouldRespawn and the runWatcher loop.
   Definitions only; proofs are in WatcherProofs.v. *)
From Coq Require Import NArith List Bool.
Import ListNotations.
Open Scope N_scope.

(* ---- syscall.WaitStatus (linux): mask 0x7F, core 0x80, exited 0x00, stopped 0x7F, shift 8 ---- *)
Definition ws_Exited (w : N) : bool := N.land w 0x7F =? 0.
Definition ws_Signaled (w : N) : bool :=
  negb (N.land w 0x7F =? 0x7F) && negb (N.land w 0x7F =? 0).
Definition ws_Stopped (w : N) : bool := N.land w 0xFF =? 0x7F.
Definition ws_Continued (w : N) : bool := w =? 0xFFFF.
Definition ws_CoreDump (w : N) : bool := ws_Signaled w && negb (N.land w 0x80 =? 0).
(* ExitStatus / Signal return -1 when not applicable; the callers below only use them under the guard *)
Definition ws_ExitStatus (w : N) : N := N.land (N.shiftr w 8) 0xFF.
Definition ws_Signal (w : N) : N := N.land w 0x7F.

Definition SIGTERM : N := 15.

(* workerState: either an error from Wait (err != nil) or a wait status *)
Inductive wstate := WErr | WStatus (w : N).

(* func (s *workerState) ShouldRespawn() bool *)
Definition should_respawn (s : wstate) : bool :=
  match s with
  | WErr => true
  | WStatus w =>
      if ws_Exited w then 2 <=? ws_ExitStatus w
      else if ws_Signaled w then negb (ws_Signal w =? SIGTERM)
      else true
  end.

(* ---- how a worker can terminate, and the kernel's encoding of it (wait4) ---- *)
Inductive cause :=
| Exit (code : N)                    (* _exit(code), code < 256 *)
| Killed (sig : N) (core : bool)     (* death by signal 1..126 *)
| StoppedBy (sig : N)                (* WUNTRACED stop, never requested by the watcher; kept for totality *)
| Continued
| WaitError.                         (* Wait returned a non-ExitError error *)

Definition valid_cause (c : cause) : bool :=
  match c with
  | Exit code => code <? 256
  | Killed sig _ => (1 <=? sig) && (sig <? 127)
  | StoppedBy sig => sig <? 256
  | Continued | WaitError => true
  end.

Definition encode (c : cause) : wstate :=
  match c with
  | Exit code => WStatus (N.shiftl code 8)
  | Killed sig core => WStatus (sig + (if core then 0x80 else 0))
  | StoppedBy sig => WStatus (N.shiftl sig 8 + 0x7F)
  | Continued => WStatus 0xFFFF
  | WaitError => WErr
  end.

(* the property's decision rule, stated on causes *)
Definition spec_respawn (c : cause) : bool :=
  match c with
  | Exit code => 2 <=? code
  | Killed sig _ => negb (sig =? SIGTERM)
  | _ => true
  end.

(* ---- runWatcher loop.  One iteration: spawn; then either the spawn failed, or the worker
        terminated, or SIGTERM reached the watcher first. ---- *)
Inductive iter := ItSpawnFail | ItTerm (c : cause) | ItSigterm.
Inductive act := ASpawn | AForwardSignal | AReturn (exit_status_set : bool).

Fixpoint run_watcher (its : list iter) : list act :=
  match its with
  | [] => [ASpawn]                                  (* spawned, still supervising *)
  | ItSpawnFail :: _ => [ASpawn; AReturn true]      (* "unable to create worker": setExitStatus(1) *)
  | ItTerm c :: rest =>
      if should_respawn (encode c) then ASpawn :: run_watcher rest
      else [ASpawn; AReturn false]
  | ItSigterm :: _ => [ASpawn; AForwardSignal; AReturn false]
  end.

Definition count_spawns (l : list act) : nat :=
  length (filter (fun a => match a with ASpawn => true | _ => false end) l).

(* all words of a given width, for the exhaustive checks *)
Definition words_step (p : N * list N) : N * list N := (N.succ (fst p), fst p :: snd p).
Definition words (n : N) : list N := snd (N.iter n words_step (0, [])).
