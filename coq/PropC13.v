(* C13 -- security-policy handshake is fail-closed and most-secure-wins.  Statements only. *)
From Coq Require Import NArith List Bool.
From Verif Require Import Lasp LaspProofs.
Import ListNotations.
Open Scope N_scope.

(* For every agent policy map and collector policy map (Go maps: distinct keys, any iteration order):
   verification succeeds iff both maps are non-empty, every policy the collector marks required is
   present and supported in the agent map, and every agent policy name is known to the collector. *)
Theorem C13_verify_iff : forall ag co, NoDup (map fst ag) -> NoDup (map fst co) ->
  (verify ag co = VOk <->
   ag <> [] /\ co <> [] /\
   (forall n c, In (n, c) co -> c_required c = true -> exists a, In (n, a) ag /\ a_supported a = true) /\
   (forall n a, In (n, a) ag -> exists c, In (n, c) co)).
Proof. exact verify_iff. Qed.
Print Assumptions C13_verify_iff.

(* ConnectApplication: with a token and a failed verification -- or with a preconnect that failed or
   whose answer is malformed -- the only request made is the preconnect, the attempt carries an error,
   no policy set is handed back, there is no connect reply and the application does not connect;
   whatever the connect request would have answered. *)
Theorem C13_fail_closed : forall token ag p0 pc cn,
  (token <> [] /\ exists r co, pc = PcReply r co /\ verify ag co <> VOk) \/
  pc = PcTransportErr \/ pc = PcMalformed ->
  let ra := connect_application token ag p0 pc cn in
  fst ra = [RPreconnect token] /\ at_err (snd ra) <> None /\ at_policies (snd ra) = None /\
  at_reply (snd ra) = false /\ app_connects (snd ra) = false.
Proof. exact fail_closed. Qed.
Print Assumptions C13_fail_closed.

(* A connect request is only ever made after a preconnect answer that, when a token is present,
   passed verification; it goes to the host named by that answer. *)
Theorem C13_connect_only_if_verified : forall token ag p0 pc cn h pm,
  In (RConnect h pm) (fst (connect_application token ag p0 pc cn)) ->
  exists co, pc = PcReply h co /\ (token = [] \/ verify ag co = VOk).
Proof. exact connect_only_if_verified. Qed.
Print Assumptions C13_connect_only_if_verified.

(* Most secure wins: in the connect request sent after a successful verification a policy is present
   iff the agent supports it, and it is enabled iff both the agent and the collector enable it. *)
Theorem C13_enabled_conj : forall token ag p0 r co cn,
  NoDup (map fst ag) -> NoDup (map fst co) -> token <> [] -> verify ag co = VOk ->
  exists pm, fst (connect_application token ag p0 (PcReply r co) cn) = [RPreconnect token; RConnect r pm] /\
    NoDup (map fst pm) /\
    (forall n, In n (map fst pm) <-> exists a, In (n, a) ag /\ a_supported a = true) /\
    (forall n b, In (n, b) pm -> exists a c, In (n, a) ag /\ In (n, c) co /\ b = a_enabled a && c_enabled c).
Proof. exact enabled_conj_connect. Qed.
Print Assumptions C13_enabled_conj.

(* addPoliciesToPayload on its own (any two maps): as above, and a supported policy whose name is
   missing from the collector's map is sent with enabled = false. *)
Theorem C13_enabled_conj_any_maps : forall ag co, NoDup (map fst ag) -> NoDup (map fst co) ->
  let pm := payload_policies ag co in
  NoDup (map fst pm) /\
  (forall n, In n (map fst pm) <-> exists a, In (n, a) ag /\ a_supported a = true) /\
  (forall n b, In (n, b) pm ->
     exists a, In (n, a) ag /\
       ((exists c, In (n, c) co /\ b = a_enabled a && c_enabled c) \/
        (~ In n (map fst co) /\ b = false))).
Proof. exact enabled_conj. Qed.
Print Assumptions C13_enabled_conj_any_maps.

(* The policy set handed back to agents is exactly the collector's name |-> enabled. *)
Theorem C13_returned_policies : forall token ag p0 r co cn,
  (token = [] \/ verify ag co = VOk) ->
  at_policies (snd (connect_application token ag p0 (PcReply r co) cn)) =
    Some (map (fun nc => (fst nc, c_enabled (snd nc))) co).
Proof. exact returned_policies_exact. Qed.
Print Assumptions C13_returned_policies.

(* Without a token nothing is verified and the connect payload's policies are left untouched
   (AppInfo.ConnectPayload leaves them empty). *)
Theorem C13_no_token_no_policies : forall ag p0 r co cn,
  let ra := connect_application [] ag p0 (PcReply r co) cn in
  fst ra = [RPreconnect []; RConnect r p0] /\
  at_policies (snd ra) = Some (returned_policies co) /\
  (at_err (snd ra) = None <-> cn = CnOk).
Proof. exact no_token_no_policies. Qed.
Print Assumptions C13_no_token_no_policies.

(* The executable monitor used on the implementation's observations accepts every behaviour of the
   model, and an observation it accepts is fail-closed. *)
Theorem C13_monitor_accepts_model : forall token ag p0 pc cn,
  NoDup (map fst ag) -> NoDup (map fst p0) ->
  (forall r co, pc = PcReply r co -> NoDup (map fst co)) ->
  c13_monitor token ag p0 pc cn (project (connect_application token ag p0 pc cn)) = true.
Proof. exact monitor_accepts_model. Qed.
Print Assumptions C13_monitor_accepts_model.

Theorem C13_monitor_fail_closed : forall token ag p0 r co cn o,
  NoDup (map fst ag) -> NoDup (map fst co) -> token <> [] -> ~ acceptable ag co ->
  c13_monitor token ag p0 (PcReply r co) cn o = true ->
  o_reqs o = [RPreconnect token] /\ o_err o = true /\ o_reply o = false.
Proof. exact monitor_fail_closed. Qed.
Print Assumptions C13_monitor_fail_closed.

(* Same for the processor-level monitor (requests, connected or not, policies in the AppInfoReply). *)
Theorem C13_proc_monitor_accepts_model : forall token ag pc cn,
  NoDup (map fst ag) -> (forall r co, pc = PcReply r co -> NoDup (map fst co)) ->
  c13_proc_monitor token ag pc cn (project_proc (connect_application token ag [] pc cn)) = true.
Proof. exact proc_monitor_accepts_model. Qed.
Print Assumptions C13_proc_monitor_accepts_model.
