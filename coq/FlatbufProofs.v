(* FlatbufProofs.v -- C15: reading a table with the slot map it was built with returns the fields
   that were sent; two slot maps that differ on a field decode some message differently. *)
From Coq Require Import Arith NArith String List Bool Lia.
From Verif Require Import Flatbuf.
Import ListNotations.
Open Scope string_scope.
Open Scope N_scope.

Section Proofs.
  Variable V : Type.
  Variable V_eq_dec : forall a b : V, {a = b} + {a <> b}.

  Lemma nth_repeat0 : forall n s, nth s (repeat 0%N n) 0%N = 0%N.
  Proof. induction n as [|n IH]; intros [|s]; simpl; auto. Qed.

  Lemma length_set_nth : forall l s x, length (set_nth s x l) = length l.
  Proof. induction l as [|y l IH]; intros [|s] x; simpl; auto. Qed.

  Lemma nth_set_nth_same : forall l s x, (s < length l)%nat -> nth s (set_nth s x l) 0%N = x.
  Proof.
    induction l as [|y l IH]; intros [|s] x H; simpl in *; try lia; auto. apply IH. lia.
  Qed.

  Lemma nth_set_nth_other : forall l s s' x, s <> s' -> nth s' (set_nth s x l) 0%N = nth s' l 0%N.
  Proof.
    induction l as [|y l IH]; intros [|s] [|s'] x H; simpl; auto; try congruence.
  Qed.

  Lemma nth_set_nth_le : forall l s s' x b, (x <= b)%N -> (forall i, nth i l 0 <= b)%N ->
    (nth s' (set_nth s x l) 0 <= b)%N.
  Proof.
    intros l s s' x b Hx Hl. destruct (Nat.eq_dec s s') as [->|Hne].
    - destruct (Nat.lt_ge_cases s' (length l)) as [Hlt|Hge].
      + rewrite nth_set_nth_same by exact Hlt. exact Hx.
      + rewrite nth_overflow; [lia|]. rewrite length_set_nth. exact Hge.
    - rewrite nth_set_nth_other by exact Hne. apply Hl.
  Qed.

  Lemma lookup_not_in : forall (A : Type) (l : list (string * A)) f, ~ In f (map fst l) -> lookup f l = None.
  Proof.
    intros A l f. induction l as [|[g a] l IH]; simpl; intros H; auto.
    destruct (String.eqb f g) eqn:E.
    - apply String.eqb_eq in E. subst. exfalso. apply H. left. reflexivity.
    - apply IH. intros Hin. apply H. right. exact Hin.
  Qed.

  (* every vtable entry is below the next free offset, which is positive *)
  Definition inv (o : tobj V) (next : N) : Prop :=
    (0 < next)%N /\ forall s, (nth s (vt o) 0 < next)%N.

  Lemma inv_put : forall o next s v, inv o next -> inv (put o next s v) (next + 8).
  Proof.
    intros o next s v [Hp Hv]. split; [lia|]. intros s'. unfold put. cbn [vt].
    assert (H : (nth s' (set_nth (N.to_nat s) next (vt o)) 0 <= next)%N).
    { apply nth_set_nth_le; [lia|]. intros i. specialize (Hv i). lia. }
    lia.
  Qed.

  Lemma read_put_same : forall (o : tobj V) next s v, (0 < next)%N -> (N.to_nat s < length (vt o))%nat ->
    read_slot (put o next s v) s = Some v.
  Proof.
    intros o next s v Hp Hl. unfold read_slot, put. cbn [vt inl].
    rewrite nth_set_nth_same by exact Hl.
    destruct (N.eqb next 0) eqn:E; [apply N.eqb_eq in E; lia|].
    cbn [lookup_inl]. rewrite N.eqb_refl. reflexivity.
  Qed.

  Lemma read_put_other : forall o next s s' v, inv o next -> s <> s' ->
    read_slot (put o next s v) s' = read_slot o s'.
  Proof.
    intros o next s s' v [Hp Hv] Hne. unfold read_slot, put. cbn [vt inl].
    rewrite nth_set_nth_other by (intros E; apply Hne; apply N2Nat.inj; exact E).
    destruct (N.eqb (nth (N.to_nat s') (vt o) 0) 0) eqn:E0; [reflexivity|].
    cbn [lookup_inl]. specialize (Hv (N.to_nat s')).
    destruct (N.eqb (nth (N.to_nat s') (vt o) 0) next) eqn:E1; [apply N.eqb_eq in E1; lia|reflexivity].
  Qed.

  Lemma length_put : forall (o : tobj V) next s v, length (vt (put o next s v)) = length (vt o).
  Proof. intros. unfold put. cbn [vt]. apply length_set_nth. Qed.

  Definition slots_inj (sigma : slotmap V) : Prop :=
    forall f g df dg, lookup f sigma = Some df -> lookup g sigma = Some dg ->
                      fd_slot df = fd_slot dg -> f = g.

  Lemma build_fields_read : forall sigma vals o next,
    NoDup (map fst vals) -> slots_inj sigma ->
    (forall f d, lookup f sigma = Some d -> (N.to_nat (fd_slot d) < length (vt o))%nat) ->
    inv o next ->
    forall f d, lookup f sigma = Some d ->
      read_slot (build_fields V_eq_dec sigma vals o next) (fd_slot d) =
      match lookup f vals with
      | Some v => if V_eq_dec v (fd_def d) then read_slot o (fd_slot d) else Some v
      | None => read_slot o (fd_slot d)
      end.
  Proof.
    intros sigma vals. induction vals as [|[g w] r IH]; intros o next Hnd Hinj Hlen Hinv f d Hf.
    - reflexivity.
    - cbn [map fst] in Hnd. inversion Hnd as [|x l Hnotin Hnd']. subst x l.
      cbn [build_fields lookup].
      destruct (lookup g sigma) as [dg|] eqn:Hg.
      + destruct (V_eq_dec w (fd_def dg)) as [Hw|Hw].
        * (* default: not written *)
          rewrite (IH o next Hnd' Hinj Hlen Hinv f d Hf).
          destruct (String.eqb f g) eqn:E.
          -- apply String.eqb_eq in E. subst g. rewrite Hf in Hg. inversion Hg. subst dg.
             rewrite (lookup_not_in _ r f Hnotin).
             destruct (V_eq_dec w (fd_def d)) as [_|Hc]; [reflexivity|contradiction].
          -- reflexivity.
        * assert (Hinv' : inv (put o next (fd_slot dg) w) (next + 8)) by (apply inv_put; exact Hinv).
          assert (Hlen' : forall f0 d0, lookup f0 sigma = Some d0 ->
                     (N.to_nat (fd_slot d0) < length (vt (put o next (fd_slot dg) w)))%nat).
          { intros f0 d0 H0. rewrite length_put. apply (Hlen f0 d0 H0). }
          rewrite (IH _ _ Hnd' Hinj Hlen' Hinv' f d Hf).
          destruct (String.eqb f g) eqn:E.
          -- apply String.eqb_eq in E. subst g. rewrite Hf in Hg. inversion Hg. subst dg.
             rewrite (lookup_not_in _ r f Hnotin).
             destruct (V_eq_dec w (fd_def d)) as [Hc|_]; [contradiction|].
             apply read_put_same; [apply Hinv|apply (Hlen f d Hf)].
          -- assert (Hs : fd_slot dg <> fd_slot d).
             { intros Es. apply String.eqb_neq in E. apply E. symmetry. apply (Hinj g f dg d Hg Hf Es). }
             rewrite (read_put_other o next (fd_slot dg) (fd_slot d) w Hinv Hs). reflexivity.
      + rewrite (IH o next Hnd' Hinj Hlen Hinv f d Hf).
        destruct (String.eqb f g) eqn:E; [|reflexivity].
        apply String.eqb_eq in E. subst g. rewrite Hf in Hg. discriminate.
  Qed.

  Lemma read_slot_empty : forall n s, read_slot (mkT (V:=V) (repeat 0%N n) []) s = None.
  Proof. intros. unfold read_slot. cbn [vt]. rewrite nth_repeat0. reflexivity. Qed.

  (* Reading with the slot map the table was built with returns exactly what was sent. *)
  Theorem roundtrip_same : forall sigma sigma' n vals,
    wf sigma n -> NoDup (map fst vals) ->
    (forall f, lookup f sigma' = lookup f sigma) ->
    forall f, read sigma' (build V_eq_dec sigma n vals) f = sent sigma vals f.
  Proof.
    intros sigma sigma' n vals [Hlt Hinj] Hnd Heq f. unfold read, sent. rewrite Heq.
    destruct (lookup f sigma) as [d|] eqn:Hf; [|reflexivity].
    unfold build.
    rewrite (build_fields_read sigma vals _ 4 Hnd Hinj) with (f := f); try exact Hf.
    - rewrite read_slot_empty.
      destruct (lookup f vals) as [v|]; [|reflexivity].
      destruct (V_eq_dec v (fd_def d)) as [->|_]; reflexivity.
    - intros f0 d0 H0. cbn [vt]. rewrite repeat_length. specialize (Hlt f0 d0 H0). lia.
    - split; [lia|]. intros s. cbn [vt]. rewrite nth_repeat0. lia.
  Qed.

  Variable other : V -> V.
  Hypothesis other_neq : forall v, other v <> v.

  (* If the two slot maps differ on a field, some message decodes to something else than was sent. *)
  Theorem roundtrip_differs : forall sigma sigma' n f,
    lookup f sigma' <> lookup f sigma ->
    exists vals, NoDup (map fst vals) /\
                 read sigma' (build V_eq_dec sigma n vals) f <> sent sigma vals f.
  Proof.
    intros sigma sigma' n f Hne.
    destruct (lookup f sigma) as [d|] eqn:Hs; destruct (lookup f sigma') as [d'|] eqn:Hs'.
    - destruct (V_eq_dec (fd_def d) (fd_def d')) as [Hd|Hd].
      + (* same default, hence another slot: send a non-default value *)
        assert (Hslot : fd_slot d <> fd_slot d').
        { intros Es. apply Hne. destruct d, d'. cbn in *. subst. reflexivity. }
        exists [(f, other (fd_def d))]. split; [repeat constructor; intros []|].
        unfold read, sent, build. rewrite Hs, Hs'. cbn [build_fields lookup]. rewrite Hs.
        rewrite String.eqb_refl.
        destruct (V_eq_dec (other (fd_def d)) (fd_def d)) as [Hc|_]; [exfalso; exact (other_neq _ Hc)|].
        cbn [build_fields].
        assert (Hr : read_slot (put (mkT (repeat 0%N (N.to_nat n)) []) 4 (fd_slot d) (other (fd_def d))) (fd_slot d') = None).
        { unfold read_slot, put. cbn [vt inl].
          rewrite nth_set_nth_other by (intros E; apply Hslot; apply N2Nat.inj; exact E).
          rewrite nth_repeat0. reflexivity. }
        rewrite Hr. intros E. inversion E as [E']. rewrite <- Hd in E'. symmetry in E'. exact (other_neq _ E').
      + (* different defaults: send nothing *)
        exists []. split; [constructor|].
        unfold read, sent, build. rewrite Hs, Hs'. cbn [build_fields lookup].
        rewrite read_slot_empty. intros E. inversion E. apply Hd. symmetry. assumption.
    - exists []. split; [constructor|]. unfold read, sent. rewrite Hs, Hs'. discriminate.
    - exists []. split; [constructor|]. unfold read, sent. rewrite Hs, Hs'. discriminate.
    - exfalso. apply Hne. reflexivity.
  Qed.

  Lemma fdesc_eq_dec : forall a b : fdesc V, {a = b} + {a <> b}.
  Proof. intros [s1 d1] [s2 d2]. destruct (N.eq_dec s1 s2), (V_eq_dec d1 d2); subst; (left; reflexivity) || (right; congruence). Qed.

  Lemma opt_fdesc_eq_dec : forall a b : option (fdesc V), {a = b} + {a <> b}.
  Proof. intros [a|] [b|]; try (right; discriminate); [|left; reflexivity].
    destruct (fdesc_eq_dec a b); [left; subst; reflexivity|right; congruence]. Qed.

  (* Equality of the two renderings of a table (same slot and default for every field name) is exactly the
     condition for every message of one side to decode to the sent fields on the other. *)
  Theorem roundtrip_iff : forall sigma sigma' n, wf sigma n ->
    ((forall f, lookup f sigma' = lookup f sigma) <->
     (forall vals f, NoDup (map fst vals) ->
        read sigma' (build V_eq_dec sigma n vals) f = sent sigma vals f)).
  Proof.
    intros sigma sigma' n Hwf. split.
    - intros Heq vals f Hnd. apply roundtrip_same; assumption.
    - intros Hall f. destruct (opt_fdesc_eq_dec (lookup f sigma') (lookup f sigma)) as [E|Hne]; [exact E|].
      exfalso. destruct (roundtrip_differs sigma sigma' n f Hne) as [vals [Hnd Hbad]].
      apply Hbad. apply Hall. exact Hnd.
  Qed.

  Lemma wfb_sound : forall (sigma : slotmap V) n, wfb sigma n = true -> wf sigma n.
  Proof.
    intros sigma n H. unfold wfb in H. apply andb_true_iff in H. destruct H as [H1 H2].
    rewrite forallb_forall in H1, H2.
    assert (Hin : forall f d, lookup f sigma = Some d -> In (f, d) sigma).
    { clear. induction sigma as [|[g a] l IH]; cbn [lookup]; intros f d H; [discriminate|].
      destruct (String.eqb f g) eqn:E.
      - apply String.eqb_eq in E. inversion H. subst. left. reflexivity.
      - right. apply IH. exact H. }
    split.
    - intros f d Hf. specialize (H1 _ (Hin f d Hf)). cbn in H1. apply N.ltb_lt. exact H1.
    - intros f g df dg Hf Hg Es. specialize (H2 _ (Hin f df Hf)). rewrite forallb_forall in H2.
      specialize (H2 _ (Hin g dg Hg)). cbn in H2. apply orb_true_iff in H2. destruct H2 as [H2|H2].
      + apply String.eqb_eq. exact H2.
      + rewrite Es, N.eqb_refl in H2. discriminate.
  Qed.
End Proofs.

(* non-vacuity: a two-field table; swapping the slots on the reader's side decodes the message wrongly,
   reading with the builder's map decodes it faithfully *)
Definition ex_sigma : slotmap N := [("a", mkD 0%N 0%N); ("b", mkD 1%N 0%N)].
Definition ex_sigma_swapped : slotmap N := [("a", mkD 1%N 0%N); ("b", mkD 0%N 0%N)].
Definition ex_vals : list (string * N) := [("a", 7%N); ("b", 9%N)].

Example ex_wf : wf ex_sigma 2.
Proof. apply wfb_sound. vm_compute. reflexivity. Qed.

Example ex_same : read ex_sigma (build N.eq_dec ex_sigma 2 ex_vals) "a" = Some 7%N /\
                  sent ex_sigma ex_vals "a" = Some 7%N.
Proof. vm_compute. split; reflexivity. Qed.

Example ex_swapped : read ex_sigma_swapped (build N.eq_dec ex_sigma 2 ex_vals) "a" = Some 9%N.
Proof. vm_compute. reflexivity. Qed.

Example ex_differs_hyp : lookup "a" ex_sigma_swapped <> lookup "a" ex_sigma.
Proof. vm_compute. discriminate. Qed.
