(* Redact.v -- model of the places where the daemon keeps credentials out of its logs.
   Transcribes
     daemon/internal/newrelic/collector/collector.go  LicenseKey.String, RpmCmd.url(obfuscate)
     daemon/internal/newrelic/collector/client.go     removeURLFromError (on a model of url.Error formatting)
     daemon/cmd/daemon/main.go                        redactArgs (the ARGV echo, as of commit 3800b33)
   together with a model of Go's flag syntax (flag.FlagSet.parseOne) saying which argv positions carry
   the proxy setting, and of the configuration lexer used by --define (config.ParseString) as far as
   the keyword/value structure goes.  Byte strings are `list N`.  Definitions only. *)
From Coq Require Import Ascii String.
From Coq Require Import NArith List Bool.
Import ListNotations.
Open Scope N_scope.

Definition str := list N.

Definition b (s : String.string) : str := map Ascii.N_of_ascii (String.list_ascii_of_string s).

Fixpoint str_eqb (x y : str) : bool :=
  match x, y with
  | [], [] => true
  | c :: x', d :: y' => if N.eqb c d then str_eqb x' y' else false
  | _, _ => false
  end.

Fixpoint is_prefix (p s : str) : bool :=
  match p, s with
  | [], _ => true
  | c :: p', d :: s' => if N.eqb c d then is_prefix p' s' else false
  | _ :: _, [] => false
  end.

(* strings.Contains *)
Fixpoint contains (needle hay : str) : bool :=
  if is_prefix needle hay then true
  else match hay with
       | [] => false
       | _ :: hay' => contains needle hay'
       end.

(* strings.IndexByte *)
Fixpoint index_byte (c : N) (s : str) : option nat :=
  match s with
  | [] => None
  | d :: s' => if N.eqb c d then Some O
               else match index_byte c s' with Some i => Some (S i) | None => None end
  end.

(* ------------------------------------------------------------------ LicenseKey.String *)

Definition dotdot : str := [46; 46].

Definition lk_string (key : str) : str :=
  let n := length key in
  if Nat.ltb 4 n then firstn 2 key ++ dotdot ++ skipn (n - 2) key else key.

(* ------------------------------------------------------------------------ RpmCmd.url *)

Definition is_alpha (c : N) : bool := ((65 <=? c) && (c <=? 90)) || ((97 <=? c) && (c <=? 122)).
Definition is_digit (c : N) : bool := (48 <=? c) && (c <=? 57).

(* url.QueryEscape: unreserved bytes stay, space becomes '+', everything else %XX *)
Definition unreserved (c : N) : bool :=
  is_alpha c || is_digit c || (c =? 45) || (c =? 95) || (c =? 46) || (c =? 126).

Definition hexdig (n : N) : N := if n <? 10 then 48 + n else 55 + n.   (* upper case *)

Definition qescape_byte (c : N) : str :=
  if unreserved c then [c] else if c =? 32 then [43] else [37; hexdig (c / 16); hexdig (c mod 16)].

Definition qescape (s : str) : str := flat_map qescape_byte s.

Definition s_url_1 : str := Eval compute in b "https://"%string.
Definition s_url_2 : str := Eval compute in b "/agent_listener/invoke_raw_method?license_key="%string.
Definition s_url_3 : str := Eval compute in b "&marshal_format=json&method="%string.
Definition s_url_4 : str := Eval compute in b "&protocol_version=17"%string.
Definition s_url_5 : str := Eval compute in b "&run_id="%string.

(* url.Values.Encode sorts by key: license_key, marshal_format, method, protocol_version, run_id.
   host is printed as is (plain host[:port]). keytext is what query.Set("license_key", ...) receives. *)
Definition url_text (host name runid keytext : str) : str :=
  s_url_1 ++ host ++ s_url_2 ++ qescape keytext ++ s_url_3 ++ qescape name ++ s_url_4 ++
  match runid with [] => [] | _ => s_url_5 ++ qescape runid end.

Definition rpm_url (obfuscate : bool) (host name runid key : str) : str :=
  url_text host name runid (if obfuscate then lk_string key else key).

(* --------------------------------------------------------- url.Error, removeURLFromError *)

(* error values as far as Error() and errors.As can see them *)
Inductive gerr :=
| EPlain (msg : str)                        (* no Unwrap: errors.New, fmt.Errorf without %w, ... *)
| EWrap (pre post : str) (inner : gerr)     (* Unwrap() = inner; Error() computed on demand as
                                               pre ++ inner.Error() ++ post, as net.OpError and the like do *)
| EEager (text : str) (inner : gerr)        (* Unwrap() = inner; Error() = text, fixed when the value was
                                               made: fmt.Errorf("...%w...", inner) formats eagerly *)
| EUrl (op url : str) (inner : gerr).       (* *url.Error{Op, URL, Err} *)

Definition s_redacted_url : str := Eval compute in b "**REDACTED-URL**"%string.

Section Format.
  Variable quote : str -> str.               (* strconv.Quote, as used by %q *)

  (* url.Error's Error(): fmt.Sprintf("%s %q: %s", e.Op, e.URL, e.Err) *)
  Fixpoint format (e : gerr) : str :=
    match e with
    | EPlain m => m
    | EWrap p q i => p ++ format i ++ q
    | EEager t _ => t
    | EUrl op u i => op ++ [32] ++ quote u ++ [58; 32] ++ format i
    end.

  (* fmt.Errorf(pre + "%w" + post, inner) *)
  Definition errorf (pre post : str) (inner : gerr) : gerr := EEager (pre ++ format inner ++ post) inner.
End Format.

(* errors.As(err, &ue) finds the first *url.Error on the Unwrap chain; its URL field is overwritten *)
Fixpoint scrub (e : gerr) : gerr :=
  match e with
  | EPlain m => EPlain m
  | EWrap p q i => EWrap p q (scrub i)
  | EEager t i => EEager t (scrub i)
  | EUrl op _ i => EUrl op s_redacted_url i
  end.

(* no eagerly formatted wrapper above the first *url.Error *)
Fixpoint lazy_chain (e : gerr) : bool :=
  match e with
  | EPlain _ => true
  | EWrap _ _ i => lazy_chain i
  | EEager _ _ => false
  | EUrl _ _ _ => true
  end.

(* the same error value with another URL in that first *url.Error (for lazy chains) *)
Fixpoint with_url (u : str) (e : gerr) : gerr :=
  match e with
  | EPlain m => EPlain m
  | EWrap p q i => EWrap p q (with_url u i)
  | EEager t i => EEager t i
  | EUrl op _ i => EUrl op u i
  end.

(* --------------------------------------------------------------------------- redactArgs *)

Definition s_redacted : str := Eval compute in b "**REDACTED**"%string.
Definition s_proxy : str := Eval compute in b "proxy"%string.
Definition s_x : str := Eval compute in b "x"%string.
Definition s_define : str := Eval compute in b "define"%string.

(* name / value split of redactArgs: name := arg[1:]; one more '-' stripped; cut at the first '=' *)
Definition strip_dash (name : str) : str :=
  match name with c :: r => if c =? 45 then r else name | [] => [] end.

Definition split_eq (name : str) : str * option str :=
  match index_byte 61 name with
  | Some i => (firstn i name, Some (skipn (S i) name))
  | None => (name, None)
  end.

(* arg[:len(arg)-len(value)] *)
Definition drop_value (arg value : str) : str := firstn (length arg - length value) arg.

(* -------------------------------------------------------- Go flag syntax (FlagSet.parseOne) *)

Inductive tok :=
| TNonFlag                                   (* len < 2 or no leading '-': parsing stops *)
| TTerminator                                (* "--": parsing stops *)
| TBad                                       (* bad flag syntax *)
| TFlag (name : str) (value : option str).   (* -name, --name, -name=value, --name=value *)

Definition is_nil {A} (l : list A) : bool := match l with [] => true | _ => false end.

Definition classify (s : str) : tok :=
  match s with
  | s0 :: c :: r =>
      if negb (s0 =? 45) then TNonFlag
      else if (c =? 45) && is_nil r then TTerminator
      else let name := if c =? 45 then r else c :: r in
           match name with
           | [] => TBad
           | n0 :: nr =>
               if (n0 =? 45) || (n0 =? 61) then TBad
               else match index_byte 61 nr with        (* "equals cannot be first" *)
                    | Some i => TFlag (n0 :: firstn i nr) (Some (skipn (S i) nr))
                    | None => TFlag name None
                    end
           end
  | _ => TNonFlag
  end.

Inductive fkind := FBool | FValue.
Definition flagset := str -> option fkind.

Fixpoint lookup_flag (tbl : list (str * fkind)) (n : str) : option fkind :=
  match tbl with
  | [] => None
  | (k, v) :: r => if str_eqb n k then Some v else lookup_flag r n
  end.

(* createDaemonFlagSet *)
Definition new_flag_table : list (str * fkind) := Eval compute in
  map (fun p => (b (fst p), snd p))
    [("c", FValue); ("port", FValue); ("address", FValue); ("proxy", FValue); ("pidfile", FValue);
     ("no-pidfile", FBool); ("logfile", FValue); ("loglevel", FValue); ("auditlog", FValue);
     ("utilization", FBool); ("f", FBool); ("watchdog-foreground", FBool); ("foreground", FBool);
     ("agent", FBool); ("cafile", FValue); ("capath", FValue); ("integration", FBool);
     ("pprof", FValue); ("version", FBool); ("v", FBool); ("wait-for-port", FValue);
     ("define", FValue)]%string.

(* createLegacyFlagSet *)
Definition legacy_flag_table : list (str * fkind) := Eval compute in
  map (fun p => (b (fst p), snd p))
    [("c", FValue); ("P", FValue); ("x", FValue); ("p", FValue); ("no-pidfile", FBool);
     ("l", FValue); ("d", FValue); ("a", FValue); ("f", FBool); ("A", FBool); ("b", FValue);
     ("S", FValue)]%string.

Definition new_flags : flagset := lookup_flag new_flag_table.
Definition legacy_flags : flagset := lookup_flag legacy_flag_table.

Definition is_proxy_name (n : str) : bool := str_eqb n s_proxy || str_eqb n s_x.
Definition is_define_name (n : str) : bool := str_eqb n s_define.
Definition is_trigger_name (n : str) : bool := is_proxy_name n || is_define_name n.

(* --------------------------------------------------- redactArgs, the loop (as of commit 3800b33) *)

(* takesValue: the option is looked up in the new flag set, then in the legacy one; unknown options and
   boolean flags take no value *)
Definition takes_value (n : str) : bool :=
  match lookup_flag new_flag_table n with
  | Some FValue => true
  | Some FBool => false
  | None => match lookup_flag legacy_flag_table n with
            | Some FValue => true
            | _ => false
            end
  end.

(* the switch: what is written to out[at]; has_value tells whether the value is the text after '=' in
   arg (then the prefix of arg is kept) or the following argument (then it is replaced whole) *)
Definition redact_value (name arg value : str) (has_value : bool) : str :=
  let hit := if has_value then drop_value arg value ++ s_redacted else s_redacted in
  let keep := if has_value then arg else value in
  if str_eqb name s_proxy || str_eqb name s_x then hit
  else if str_eqb name s_define then (if contains s_proxy value then hit else keep)
  else keep.

(* the loop from i = 1: `break` copies the remaining arguments unchanged *)
Fixpoint redact_walk (args : list str) : list str :=
  match args with
  | [] => []
  | arg :: rest =>
      match arg with
      | a0 :: c :: r =>                                   (* len(arg) >= 2 *)
          if negb (a0 =? 45) then args                    (* arg[0] != '-': break *)
          else if (c =? 45) && is_nil r then args         (* "--": break *)
          else
            let '(name, value) := split_eq (strip_dash (c :: r)) in
            match value with
            | Some v => redact_value name arg v true :: redact_walk rest
            | None =>
                if negb (takes_value name) then arg :: redact_walk rest
                else match rest with
                     | [] => [arg]                        (* i+1 >= len(args): continue, loop ends *)
                     | v :: rest' => arg :: redact_value name arg v false :: redact_walk rest'
                     end
            end
      | _ => args                                         (* len(arg) < 2: break *)
      end
  end.

(* args[0] is copied as it is *)
Definition redact_args (args : list str) : list str :=
  match args with
  | [] => []
  | prog :: rest => prog :: redact_walk rest
  end.

(* the flag sets to which the statement applies: takesValue agrees with the flag set on every option the
   flag set defines (both of the daemon's flag sets do) *)
Definition agrees (fl : flagset) : Prop :=
  forall n k, fl n = Some k -> takes_value n = match k with FValue => true | FBool => false end.

(* ------------------------------------------------- the configuration lexer behind --define *)

Definition is_space (c : N) : bool := ((9 <=? c) && (c <=? 13)) || (c =? 32).
Definition is_alnum (c : N) : bool := is_alpha c || is_digit c || (c =? 95).

Inductive lstate :=
| LInit
| LKeyword (tk : str)
| LDelim (kw : str)
| LValue (kw : str)
| LSingle (kw tk : str)
| LDouble (kw tk : str)
| LRaw (kw : str) (first : N) (tk : str)
| LComment.

(* stripTrailingComment *)
Fixpoint strip_comment (s : str) : str :=
  match s with
  | [] => []
  | c :: r => if (c =? 35) || (c =? 59) then [] else c :: strip_comment r
  end.

(* bytes.TrimRightFunc(s, unicode.IsSpace) *)
Fixpoint trim_right (s : str) : str :=
  match s with
  | [] => []
  | c :: r => match trim_right r with
              | [] => if is_space c then [] else [c]
              | t => c :: t
              end
  end.

Definition esc_of (c : N) : option N :=
  if c =? 98 then Some 8 else if c =? 116 then Some 9 else if c =? 110 then Some 10
  else if c =? 118 then Some 11 else if c =? 102 then Some 12 else if c =? 114 then Some 13
  else if c =? 34 then Some 34 else if c =? 92 then Some 92 else None.

(* unescapeReplacer *)
Fixpoint unescape (s : str) : str :=
  match s with
  | [] => []
  | c :: t =>
      if c =? 92 then
        match t with
        | d :: r => match esc_of d with
                    | Some e => e :: unescape r
                    | None => c :: unescape t
                    end
        | [] => [c]
        end
      else c :: unescape t
  end.

Definition ocons {A} (x : A) (o : option (list A)) : option (list A) :=
  match o with Some l => Some (x :: l) | None => None end.

(* the assignments (keyword, value) made, in order; None = syntax error.  Bytes >= 128 are "other". *)
Fixpoint lex (st : lstate) (s : str) : option (list (str * str)) :=
  match s with
  | [] =>
      match st with
      | LInit | LComment => Some []
      | LKeyword _ => Some []
      | LDelim _ => None
      | LValue kw => Some [(kw, [])]
      | LSingle _ _ | LDouble _ _ => None
      | LRaw kw f tk => Some [(kw, f :: trim_right (strip_comment tk))]
      end
  | c :: r =>
      match st with
      | LInit => if is_space c then lex LInit r
                 else if (c =? 35) || (c =? 59) then lex LComment r
                 else if is_alpha c then lex (LKeyword [c]) r
                 else None
      | LKeyword tk => if is_alnum c || (c =? 46) then lex (LKeyword (tk ++ [c])) r
                       else if is_space c then lex (LDelim tk) r
                       else if c =? 61 then lex (LValue tk) r
                       else None
      | LDelim kw => if is_space c then lex (LDelim kw) r
                     else if c =? 61 then lex (LValue kw) r
                     else None
      | LValue kw => if c =? 10 then ocons (kw, []) (lex LInit r)
                     else if is_space c then lex (LValue kw) r
                     else if c =? 39 then lex (LSingle kw []) r
                     else if c =? 34 then lex (LDouble kw []) r
                     else lex (LRaw kw c []) r
      | LSingle kw tk => if c =? 39 then ocons (kw, tk) (lex LInit r)
                         else lex (LSingle kw (tk ++ [c])) r
      | LDouble kw tk => if c =? 34 then ocons (kw, unescape tk) (lex LInit r)
                         else lex (LDouble kw (tk ++ [c])) r
      | LRaw kw f tk => if c =? 10 then ocons (kw, f :: trim_right (strip_comment tk)) (lex LInit r)
                        else lex (LRaw kw f (tk ++ [c])) r
      | LComment => if c =? 10 then lex LInit r else lex LComment r
      end
  end.

Fixpoint last_proxy (cur : option str) (l : list (str * str)) : option str :=
  match l with
  | [] => cur
  | (k, v) :: r => last_proxy (if str_eqb k s_proxy then Some v else cur) r
  end.

(* does ParseString(s, cfg) write cfg.Proxy? (false on a syntax error: the daemon then refuses to start) *)
Definition define_sets_proxy (s : str) : bool :=
  match lex LInit s with
  | Some l => existsb (fun kv => str_eqb (fst kv) s_proxy) l
  | None => false
  end.

(* ------------------------------------------------------ which argv positions carry the proxy *)

(* args with the proxy value blanked out in every spelling by which the flag syntax assigns it:
     -proxy v / --proxy v / -x v / --x v      -> the value argument becomes ""
     -proxy=v / --proxy=v / -x=v / --x=v      -> the text after '=' becomes ""
     -define d / --define d, d sets proxy     -> d becomes "proxy"
     -define=d / --define=d, d sets proxy     -> the text after '=' becomes "proxy"
   Parsing (and so blanking) stops where flag.Parse stops: first non-flag argument, "--", a syntax
   error or an undefined flag. *)
Definition blank_value (name v : str) : str :=
  if is_proxy_name name then []
  else if is_define_name name then (if define_sets_proxy v then s_proxy else v)
  else v.

Fixpoint blank (fl : flagset) (args : list str) : list str :=
  match args with
  | [] => []
  | a :: rest =>
      match classify a with
      | TFlag name value =>
          match fl name with
          | Some FBool => a :: blank fl rest
          | Some FValue =>
              match value with
              | Some v => (drop_value a v ++ blank_value name v) :: blank fl rest
              | None => match rest with
                        | [] => args
                        | v :: rest' => a :: blank_value name v :: blank fl rest'
                        end
              end
          | None => args
          end
      | _ => args
      end
  end.

(* ---------------------------------------------- the flag parser's effect on cfg.Proxy (for the tie) *)

Definition parse_bool_ok (v : str) : bool :=
  existsb (str_eqb v)
    (map b ["1"; "t"; "T"; "TRUE"; "true"; "True"; "0"; "f"; "F"; "FALSE"; "false"; "False"]%string).

(* None = Parse returns an error; Some p = cfg.Proxy afterwards.  Value flags other than proxy / x /
   define are assumed to accept their value. *)
Fixpoint parse_proxy (fl : flagset) (cur : str) (args : list str) : option str :=
  match args with
  | [] => Some cur
  | a :: rest =>
      match classify a with
      | TNonFlag | TTerminator => Some cur
      | TBad => None
      | TFlag name value =>
          let set (v : str) : option str :=
            if is_proxy_name name then Some v
            else if is_define_name name then
              match lex LInit v with
              | Some l => match last_proxy None l with Some p => Some p | None => Some cur end
              | None => None
              end
            else Some cur in
          match fl name with
          | None => None
          | Some FBool =>
              match value with
              | Some v => if parse_bool_ok v then parse_proxy fl cur rest else None
              | None => parse_proxy fl cur rest
              end
          | Some FValue =>
              match value with
              | Some v => match set v with Some cur' => parse_proxy fl cur' rest | None => None end
              | None => match rest with
                        | [] => None
                        | v :: rest' => match set v with Some cur' => parse_proxy fl cur' rest' | None => None end
                        end
              end
          end
      end
  end.

(* ------------------------------------------------------------------------------ monitors *)

(* the echo of a command line must not contain the secret *)
Definition echo_monitor (secret : str) (echo : list str) : bool :=
  forallb (fun line => negb (contains secret line)) echo.

Fixpoint strs_eqb (x y : list str) : bool :=
  match x, y with
  | [], [] => true
  | s :: x', t :: y' => str_eqb s t && strs_eqb x' y'
  | _, _ => false
  end.

Definition ostr_eqb (x y : option str) : bool :=
  match x, y with
  | Some s, Some t => str_eqb s t
  | None, None => true
  | _, _ => false
  end.
