(* ProcInv4.v -- where tags flow: membership-level descriptions of every operation of the processor model
   (which harvest / request a tag can come from, with which parameters), and the table invariants
   (run table consistent with the app harvests, keys of the run table distinct, indices valid).
   Used by ProcInv5 (C04 provenance), ProcInv6 (C02 attempt bounds), ProcInv7 (C01/C11 flush). *)
From Coq Require Import NArith ZArith List Bool Lia.
From Verif.Gen Require Limits_gen HarvestBits_gen.
From Verif Require Import Processor ProcInv ProcInv3.
Import ListNotations.

(* ------------------------------------------------------------------ counts and membership *)
Lemma in_cnt t l : In t l <-> cnt t l > 0.
Proof. unfold cnt. apply (count_occ_In N.eq_dec). Qed.

Lemma in_of_cnt_le t a b : cnt t a <= cnt t b -> In t a -> In t b.
Proof. rewrite !in_cnt. lia. Qed.

Lemma in_req_tags t q qs : In q qs -> In t (tags (rq_items q)) -> In t (req_tags qs).
Proof.
  intros Hq Ht. unfold req_tags. apply in_concat. exists (tags (rq_items q)). split; [|exact Ht].
  apply in_map_iff. exists q. split; [reflexivity|exact Hq].
Qed.

Lemma in_req_tags_inv t qs : In t (req_tags qs) -> exists q, In q qs /\ In t (tags (rq_items q)).
Proof.
  unfold req_tags. intros H. apply in_concat in H. destruct H as (l & Hl & Ht).
  apply in_map_iff in Hl. destruct Hl as (q & <- & Hq). exists q. split; assumption.
Qed.

Lemma in_harvest_tags t h : In t (harvest_tags h) <-> exists c, In t (tags (h_bag h c)).
Proof.
  unfold harvest_tags, all_cats, all_order. cbn [map concat]. rewrite !in_app_iff. split.
  - intros H. repeat (destruct H as [H|H]; [eexists; exact H|]). destruct H.
  - intros [c H]. destruct c; tauto.
Qed.

Lemma cnt_bag_le t h c : cnt t (tags (h_bag h c)) <= cnt t (harvest_tags h).
Proof.
  unfold harvest_tags, all_cats, all_order. cbn [map concat]. rewrite !cnt_app. destruct c; lia.
Qed.

(* ------------------------------------------------------------------ views *)
Definition hb (s : proc) (a : nat) (c : cat) : list item := h_bag (ah_h (get_ah s a)) c.
Definition hf (s : proc) (a : nat) (c : cat) : N := h_failed (ah_h (get_ah s a)) c.

Lemma get_ah_put_ah_h s i h j :
  get_ah (put_ah_h s i h) j =
  if Nat.eqb i j && Nat.ltb i (length (p_ahs s))
  then {| ah_app := ah_app (get_ah s i); ah_run := ah_run (get_ah s i); ah_h := h |}
  else get_ah s j.
Proof.
  unfold get_ah, put_ah_h. cbn [p_ahs with_ahs].
  destruct (Nat.eqb_spec i j) as [->|N]; cbn [andb].
  - destruct (Nat.ltb_spec j (length (p_ahs s))) as [L|L].
    + rewrite nth_set_nth_eq by exact L. reflexivity.
    + rewrite set_nth_oob by exact L. reflexivity.
  - rewrite nth_set_nth_neq by exact N. reflexivity.
Qed.

Lemma get_ah_put_same s i h : i < length (p_ahs s) -> ah_h (get_ah (put_ah_h s i h) i) = h.
Proof. intros L. rewrite get_ah_put_ah_h, Nat.eqb_refl. apply Nat.ltb_lt in L. rewrite L. reflexivity. Qed.

Lemma get_ah_put_other s i h j : i <> j -> get_ah (put_ah_h s i h) j = get_ah s j.
Proof. intros N. rewrite get_ah_put_ah_h. apply Nat.eqb_neq in N. rewrite N. reflexivity. Qed.

Lemma ah_run_put s i h j : ah_run (get_ah (put_ah_h s i h) j) = ah_run (get_ah s j).
Proof.
  rewrite get_ah_put_ah_h. destruct (Nat.eqb_spec i j) as [->|N]; cbn [andb]; [|reflexivity].
  destruct (Nat.ltb j (length (p_ahs s))); reflexivity.
Qed.
Lemma ah_app_put s i h j : ah_app (get_ah (put_ah_h s i h) j) = ah_app (get_ah s j).
Proof.
  rewrite get_ah_put_ah_h. destruct (Nat.eqb_spec i j) as [->|N]; cbn [andb]; [|reflexivity].
  destruct (Nat.ltb j (length (p_ahs s))); reflexivity.
Qed.

(* application objects: everything but the set of reported packages *)
Definition obj_eqv (a' a : appobj) : Prop :=
  a_key a' = a_key a /\ a_dt a' = a_dt a /\ a_state a' = a_state a /\ a_last_attempt a' = a_last_attempt a /\
  a_last_activity a' = a_last_activity a /\ a_reply a' = a_reply a /\ a_collector a' = a_collector a.

Lemma obj_eqv_refl a : obj_eqv a a.
Proof. repeat split. Qed.
Lemma obj_eqv_trans a b c : obj_eqv a b -> obj_eqv b c -> obj_eqv a c.
Proof. unfold obj_eqv. intuition congruence. Qed.

Lemma get_obj_put_obj s i a j :
  get_obj (put_obj s i a) j = if Nat.eqb i j && Nat.ltb i (length (p_objs s)) then a else get_obj s j.
Proof.
  unfold get_obj, put_obj. cbn [p_objs with_objs].
  destruct (Nat.eqb_spec i j) as [->|N]; cbn [andb].
  - destruct (Nat.ltb_spec j (length (p_objs s))) as [L|L].
    + rewrite nth_set_nth_eq by exact L. reflexivity.
    + rewrite set_nth_oob by exact L. reflexivity.
  - rewrite nth_set_nth_neq by exact N. reflexivity.
Qed.

Lemma key_put_obj s i a j : a_key a = a_key (get_obj s i) -> a_key (get_obj (put_obj s i a) j) = a_key (get_obj s j).
Proof.
  intros H. rewrite get_obj_put_obj. destruct (Nat.eqb_spec i j) as [->|N]; cbn [andb]; [|reflexivity].
  destruct (Nat.ltb j (length (p_objs s))); [exact H|reflexivity].
Qed.

Lemma obj_eqv_put_obj s i a j : obj_eqv a (get_obj s i) -> obj_eqv (get_obj (put_obj s i a) j) (get_obj s j).
Proof.
  intros H. rewrite get_obj_put_obj. destruct (Nat.eqb_spec i j) as [->|N]; cbn [andb]; [|apply obj_eqv_refl].
  destruct (Nat.ltb j (length (p_objs s))); [exact H|apply obj_eqv_refl].
Qed.

Lemma length_put_obj s i a : length (p_objs (put_obj s i a)) = length (p_objs s).
Proof. unfold put_obj. cbn [p_objs with_objs]. apply length_set_nth. Qed.

(* ------------------------------------------------------------------ containers: where an item of the new bag comes from *)
Lemma insert_sub c cap bag x t :
  In t (tags (fst (insert c cap bag x))) -> In t (tags bag) \/ t = i_tag x.
Proof.
  intros H. pose proof (insert_ok c cap bag x t) as P. rewrite in_cnt in H.
  assert (Q : cnt t (tags bag) + cnt t [i_tag x] > 0) by lia.
  rewrite cnt_cons, cnt_nil in Q. destruct (N.eq_dec (i_tag x) t) as [E|E]; [right; congruence|].
  left. apply in_cnt. lia.
Qed.

Lemma h_bag_set_bag h c b c' : h_bag (set_bag h c b) c' = if cat_eqb c' c then b else h_bag h c'.
Proof. reflexivity. Qed.

Lemma cat_eqb_eq a b : cat_eqb a b = true <-> a = b.
Proof. destruct a, b; cbn; split; intros H; try discriminate; try reflexivity. Qed.
Lemma cat_eqb_refl a : cat_eqb a a = true.
Proof. apply cat_eqb_eq. reflexivity. Qed.

Lemma add_item_bag h c x c' t :
  In t (tags (h_bag (fst (add_item h c x)) c')) -> In t (tags (h_bag h c')) \/ (c' = c /\ t = i_tag x).
Proof.
  unfold add_item. pose proof (insert_sub c (h_cap h c) (h_bag h c) x t) as P.
  destruct (insert c (h_cap h c) (h_bag h c) x) as [b d]. cbn [fst] in *.
  assert (G : In t (tags (h_bag (set_bag h c b) c')) -> In t (tags (h_bag h c')) \/ c' = c /\ t = i_tag x).
  { rewrite h_bag_set_bag. destruct (cat_eqb c' c) eqn:E; [|tauto].
    apply cat_eqb_eq in E. subst c'. intros H. destruct (P H) as [H1|H1]; [left; exact H1|right; tauto]. }
  destruct (is_event c); cbn [fst]; exact G.
Qed.

Lemma add_item_failed h c x c' : h_failed (fst (add_item h c x)) c' = h_failed h c'.
Proof.
  unfold add_item. destruct (insert c (h_cap h c) (h_bag h c) x) as [b d]. destruct (is_event c); reflexivity.
Qed.

Lemma add_items_bag l : forall h c' t,
  In t (tags (h_bag (fst (add_items h l)) c')) ->
  In t (tags (h_bag h c')) \/ exists x, In (c', x) l /\ i_tag x = t.
Proof.
  induction l as [|[c x] r IH]; intros h c' t; cbn [add_items]; [cbn [fst]; tauto|].
  pose proof (add_item_bag h c x c' t) as P. destruct (add_item h c x) as [h1 d1]. cbn [fst] in P.
  specialize (IH h1 c' t). destruct (add_items h1 r) as [h2 d2]. cbn [fst] in *.
  intros H. destruct (IH H) as [H1|(y & Hy & Ey)].
  - destruct (P H1) as [H2|[-> ->]]; [left; exact H2|right; exists x; split; [left; reflexivity|reflexivity]].
  - right. exists y. split; [right; exact Hy|exact Ey].
Qed.

Lemma add_items_failed l : forall h c', h_failed (fst (add_items h l)) c' = h_failed h c'.
Proof.
  induction l as [|[c x] r IH]; intros h c'; cbn [add_items]; [reflexivity|].
  pose proof (add_item_failed h c x c') as P. destruct (add_item h c x) as [h1 d1]. cbn [fst] in P.
  specialize (IH h1 c'). destruct (add_items h1 r) as [h2 d2]. cbn [fst] in *. congruence.
Qed.

(* the tags of a transaction that go to container c *)
Definition txn_cat_tags (x : txn) (c : cat) : list N :=
  map (fun ci => i_tag (snd ci)) (filter (fun ci => cat_eqb (fst ci) c) (t_items x)) ++
  match c, t_pkgs x with CPkgs, Some pk => tags pk | _, _ => [] end.

Lemma txn_cat_tags_sub x c t : In t (txn_cat_tags x c) -> In t (txn_tags x).
Proof.
  unfold txn_cat_tags, txn_tags. rewrite !in_app_iff. intros [H|H].
  - left. apply in_map_iff in H. destruct H as (ci & E & Hin). apply filter_In in Hin.
    apply in_map_iff. exists ci. tauto.
  - right. destruct c; try destruct H. exact H.
Qed.

Lemma aggregate_bag h x c t :
  In t (tags (h_bag (fst (fst (aggregate h x))) c)) -> In t (tags (h_bag h c)) \/ In t (txn_cat_tags x c).
Proof.
  unfold aggregate. pose proof (add_items_bag (t_items x) h c t) as P.
  destruct (add_items h (t_items x)) as [h1 d1]. cbn [fst] in P.
  assert (Q : In t (tags (h_bag h1 c)) -> In t (tags (h_bag h c)) \/ In t (txn_cat_tags x c)).
  { intros H. destruct (P H) as [H1|(y & Hy & Ey)]; [left; exact H1|]. right. unfold txn_cat_tags.
    apply in_or_app. left. apply in_map_iff. exists (c, y). split; [exact Ey|].
    apply filter_In. split; [exact Hy|apply cat_eqb_refl]. }
  destruct (t_pkgs x) as [pk|] eqn:Ep; cbn [fst].
  - change (h_bag (set_flags (set_bag (set_flags h1 true true (h_haspkgs h1)) CPkgs pk) true true true) c)
      with (if cat_eqb c CPkgs then pk else h_bag h1 c).
    destruct (cat_eqb c CPkgs) eqn:E; [|exact Q]. apply cat_eqb_eq in E. subst c.
    intros H. right. unfold txn_cat_tags. apply in_or_app. right. rewrite Ep. exact H.
  - exact Q.
Qed.

Lemma aggregate_failed h x c : h_failed (fst (fst (aggregate h x))) c = h_failed h c.
Proof.
  unfold aggregate. pose proof (add_items_failed (t_items x) h c) as P.
  destruct (add_items h (t_items x)) as [h1 d1]. cbn [fst] in P.
  destruct (t_pkgs x); cbn [fst]; exact P.
Qed.

(* ------------------------------------------------------------------ emitting *)
(* the request carries the parameters captured in the context *)
Definition req_ctx (e : emit_ctx) (q : request) : Prop :=
  rq_owner q = e_owner e /\ rq_host q = e_host e /\ rq_hdr q = e_hdr e /\ rq_run q = e_run e.

Lemma emit_cat_flow s e c bag seen failed cap internal :
  let s' := fst (emit_cat s e c bag seen failed cap internal) in
  let qs := snd (emit_cat s e c bag seen failed cap internal) in
  p_next s <= p_next s' /\
  forall q, In q qs ->
    rq_kind q = RHarvest c /\ req_ctx e q /\ rq_failed q = failed /\ rq_group q = e_group e /\
    forall t, In t (tags (rq_items q)) -> In t (tags bag).
Proof.
  cbn zeta. pose proof (emit_cat_ok s e c bag seen failed cap internal) as [_ T].
  assert (Sub : forall q, In q (snd (emit_cat s e c bag seen failed cap internal)) ->
                forall t, In t (tags (rq_items q)) -> In t (tags bag)).
  { intros q Hq t Ht. apply in_cnt. rewrite <- T. apply in_cnt. eapply in_req_tags; eassumption. }
  revert Sub. unfold emit_cat.
  match goal with |- context [if ?b then (s, []) else _] => destruct b end; [cbn [fst snd]; intros _; split; [lia|intros q []]|].
  destruct (cat_eqb c CTxnEv && e_dt e && (split_threshold <=? lenN bag)%N); cbn [fst snd]; intros Sub.
  - split; [cbn; lia|]. intros q Hq. pose proof (Sub q Hq) as S1.
    destruct Hq as [<-|[<-|[]]]; cbn [mk_req rq_kind rq_failed rq_group]; repeat split; exact S1.
  - split; [cbn; lia|]. intros q Hq. pose proof (Sub q Hq) as S1.
    destruct Hq as [<-|[]]; cbn [mk_req rq_kind rq_failed rq_group]; repeat split; exact S1.
Qed.

Lemma emit_cats_flow e h cs : forall s,
  let s' := fst (emit_cats s e h cs) in
  let qs := snd (emit_cats s e h cs) in
  p_next s <= p_next s' /\
  forall q, In q qs ->
    exists c, In c cs /\ rq_kind q = RHarvest c /\ req_ctx e q /\ rq_failed q = h_failed h c /\ rq_group q = e_group e /\
    forall t, In t (tags (rq_items q)) -> In t (tags (h_bag h c)).
Proof.
  induction cs as [|c r IH]; intros s; cbn [emit_cats].
  - cbn [fst snd]. split; [lia|intros q []].
  - pose proof (emit_cat_flow s e c (h_bag h c) (h_seen h c) (h_failed h c) (h_cap h c) (h_internal h)) as [N1 F1].
    destruct (emit_cat s e c (h_bag h c) (h_seen h c) (h_failed h c) (h_cap h c) (h_internal h)) as [s1 q1].
    cbn [fst snd] in *. specialize (IH s1). destruct IH as [N2 F2].
    destruct (emit_cats s1 e h r) as [s2 q2]. cbn [fst snd] in *.
    split; [lia|]. intros q Hq. apply in_app_or in Hq. destruct Hq as [Hq|Hq].
    + exists c. split; [left; reflexivity|]. apply F1. exact Hq.
    + destruct (F2 q Hq) as (c' & Hc & R). exists c'. split; [right; exact Hc|exact R].
Qed.

(* ------------------------------------------------------------------ states that differ only in bookkeeping *)
(* nothing that holds tagged data, no table, no request changes; application objects keep everything
   but the set of reported packages; ids only grow *)
Record quiet (s s' : proc) : Prop := {
  q_ahs : p_ahs s' = p_ahs s;
  q_reqs : p_reqs s' = p_reqs s;
  q_runs : p_runs s' = p_runs s;
  q_apps : p_apps s' = p_apps s;
  q_groups : p_groups s' = p_groups s;
  q_conns : p_conns s' = p_conns s;
  q_now : p_now s' = p_now s;
  q_quit : p_quit s' = p_quit s;
  q_off : g_offered s' = g_offered s;
  q_ack : g_acked s' = g_acked s;
  q_len : length (p_objs s') = length (p_objs s);
  q_obj : forall i, obj_eqv (get_obj s' i) (get_obj s i);
  q_next : p_next s <= p_next s'
}.

Lemma quiet_refl s : quiet s s.
Proof. constructor; try reflexivity. intros i; apply obj_eqv_refl. Qed.
Lemma quiet_trans a b c : quiet a b -> quiet b c -> quiet a c.
Proof.
  intros A B. constructor;
    try (rewrite (q_ahs _ _ B) || rewrite (q_reqs _ _ B) || rewrite (q_runs _ _ B) || rewrite (q_apps _ _ B) ||
         rewrite (q_groups _ _ B) || rewrite (q_conns _ _ B) || rewrite (q_now _ _ B) || rewrite (q_quit _ _ B) ||
         rewrite (q_off _ _ B) || rewrite (q_ack _ _ B) || rewrite (q_len _ _ B)); try apply A.
  - intros i. eapply obj_eqv_trans; [apply (q_obj _ _ B)|apply (q_obj _ _ A)].
  - pose proof (q_next _ _ A). pose proof (q_next _ _ B). lia.
Qed.

Lemma quiet_only_next s s' : only_next s s' -> p_next s <= p_next s' -> quiet s s'.
Proof.
  intros ((A1 & A2 & A3 & A4 & A5) & (R1 & R2) & O & U & G & P & C & N & Q) L.
  constructor; try assumption; try congruence.
  intros i. unfold get_obj. rewrite O. apply obj_eqv_refl.
Qed.

Lemma get_ah_quiet s s' a : quiet s s' -> get_ah s' a = get_ah s a.
Proof. intros Q. unfold get_ah. rewrite (q_ahs _ _ Q). reflexivity. Qed.

(* only packages already reported are added to the given-up set *)
Definition seen_drops (s s' : proc) : Prop :=
  exists d, g_dropped s' = g_dropped s ++ map (fun t => (t, RSeenPkg)) d.

Lemma seen_drops_refl s : seen_drops s s.
Proof. exists []. cbn. rewrite app_nil_r. reflexivity. Qed.
Lemma seen_drops_trans a b c : seen_drops a b -> seen_drops b c -> seen_drops a c.
Proof. intros [d1 E1] [d2 E2]. exists (d1 ++ d2). rewrite E2, E1, map_app, app_assoc. reflexivity. Qed.
Lemma seen_drops_same a b : g_dropped b = g_dropped a -> seen_drops a b.
Proof. intros E. exists []. cbn. rewrite app_nil_r. exact E. Qed.

Lemma filter_pkgs_sub l : forall seen x,
  In x (fst (fst (filter_pkgs seen l))) -> In x l.
Proof.
  induction l as [|y r IH]; intros seen x; cbn [filter_pkgs]; [cbn; tauto|].
  destruct (existsb (N.eqb (i_key y)) seen).
  - specialize (IH seen x). destruct (filter_pkgs seen r) as [[n o] sn]. cbn [fst] in *. intros H. right. auto.
  - specialize (IH (seen ++ [i_key y]) x). destruct (filter_pkgs (seen ++ [i_key y]) r) as [[n o] sn]. cbn [fst] in *.
    intros [H|H]; [left; exact H|right; auto].
Qed.

Lemma filter_harvest_pkgs_flow s appi h :
  let s' := fst (filter_harvest_pkgs s appi h) in
  let h' := snd (filter_harvest_pkgs s appi h) in
  quiet s s' /\ p_next s' = p_next s /\ p_ubuf s' = p_ubuf s /\ seen_drops s s' /\
  (forall c, h_failed h' c = h_failed h c) /\
  (forall c x, In x (h_bag h' c) -> In x (h_bag h c)) /\
  (forall c, c <> CPkgs -> h_bag h' c = h_bag h c).
Proof.
  cbn zeta. unfold filter_harvest_pkgs. destruct (h_haspkgs h).
  - pose proof (filter_pkgs_sub (h_bag h CPkgs) (a_seen_pkgs (get_obj s appi))) as F.
    destruct (filter_pkgs (a_seen_pkgs (get_obj s appi)) (h_bag h CPkgs)) as [[newp oldp] seen']. cbn [fst snd] in *.
    split; [|split; [reflexivity|split; [reflexivity|split; [exists (tags oldp); reflexivity|split; [reflexivity|split]]]]].
    + constructor; try reflexivity.
      * cbn [p_objs ghost_drop]. apply length_put_obj.
      * intros i. change (get_obj (ghost_drop (put_obj s appi (set_seen_pkgs (get_obj s appi) seen')) RSeenPkg (tags oldp)) i)
          with (get_obj (put_obj s appi (set_seen_pkgs (get_obj s appi) seen')) i).
        apply obj_eqv_put_obj. repeat split.
    + intros c x. change (h_bag (set_flags (set_bag h CPkgs newp) (h_internal h) (h_pids h) match newp with [] => false | _ :: _ => true end) c)
        with (if cat_eqb c CPkgs then newp else h_bag h c).
      destruct (cat_eqb c CPkgs) eqn:E; [|tauto]. apply cat_eqb_eq in E. subst c. apply F.
    + intros c Hc. change (h_bag (set_flags (set_bag h CPkgs newp) (h_internal h) (h_pids h) match newp with [] => false | _ :: _ => true end) c)
        with (if cat_eqb c CPkgs then newp else h_bag h c).
      destruct (cat_eqb c CPkgs) eqn:E; [|reflexivity]. apply cat_eqb_eq in E. contradiction.
  - cbn [fst snd]. split; [apply quiet_refl|]. split; [reflexivity|]. split; [reflexivity|]. split; [apply seen_drops_refl|].
    split; [reflexivity|]. split; [tauto|reflexivity].
Qed.

Lemma final_metrics_bag h c : h_bag (final_metrics h) c = h_bag h c.
Proof. unfold final_metrics. destruct (harvest_empty h); reflexivity. Qed.
Lemma final_metrics_failed h c : h_failed (final_metrics h) c = h_failed h c.
Proof. unfold final_metrics. destruct (harvest_empty h); reflexivity. Qed.

Lemma usage_request_flow s e :
  let s' := fst (usage_request s e) in
  let u := snd (usage_request s e) in
  quiet s s' /\ g_dropped s' = g_dropped s /\
  forall q, In q u -> rq_kind q = RUsage /\ rq_items q = [] /\ req_ctx e q.
Proof.
  cbn zeta. unfold usage_request. destruct (Nat.eqb (p_ubuf s) 0); cbn [fst snd].
  - split; [apply quiet_refl|]. split; [reflexivity|]. intros q [].
  - split; [constructor; try reflexivity; [intros i; apply obj_eqv_refl|cbn; lia]|]. split; [reflexivity|].
    intros q [<-|[]]. repeat split.
Qed.

(* registering requests: they join the outstanding ones (in canonical order) *)
Lemma in_insert_req q x l : In q (insert_req x l) <-> q = x \/ In q l.
Proof.
  induction l as [|y r IH]; cbn [insert_req]; [cbn; intuition|].
  destruct (Nat.ltb (req_rank x) (req_rank y)); cbn [In]; [intuition|]. rewrite IH. cbn [In]. intuition.
Qed.

Lemma in_sort_reqs q l : In q (sort_reqs l) <-> In q l.
Proof.
  unfold sort_reqs.
  assert (G : forall acc, In q (fold_left (fun a x => insert_req x a) l acc) <-> In q acc \/ In q l).
  { induction l as [|x r IH]; intros acc; cbn [fold_left]; [cbn; tauto|].
    rewrite IH, in_insert_req. cbn [In]. intuition. }
  rewrite G. cbn. tauto.
Qed.

Lemma in_reqs_register s qs q : In q (p_reqs (register s qs)) <-> In q (p_reqs s) \/ In q qs.
Proof. unfold register. cbn [p_reqs ghost_sent with_reqs]. rewrite in_app_iff, in_sort_reqs. reflexivity. Qed.

(* ------------------------------------------------------------------ harvestByType *)
Lemma emit_cats_quiet e h cs s :
  quiet s (fst (emit_cats s e h cs)) /\ g_dropped (fst (emit_cats s e h cs)) = g_dropped s.
Proof.
  pose proof (emit_cats_ok e h cs s) as [O _]. pose proof (emit_cats_flow e h cs s) as [N _].
  split; [apply quiet_only_next; assumption|]. destruct O as ((_ & _ & _ & _ & D) & _). exact D.
Qed.

Lemma emit_cat_quiet s e c bag seen failed cap internal :
  quiet s (fst (emit_cat s e c bag seen failed cap internal)) /\
  g_dropped (fst (emit_cat s e c bag seen failed cap internal)) = g_dropped s.
Proof.
  pose proof (emit_cat_ok s e c bag seen failed cap internal) as [O _].
  pose proof (emit_cat_flow s e c bag seen failed cap internal) as [N _].
  split; [apply quiet_only_next; assumption|]. destruct O as ((_ & _ & _ & _ & D) & _). exact D.
Qed.

Definition req_from (e : emit_ctx) (h : harvest) (q : request) : Prop :=
  exists c, rq_kind q = RHarvest c /\ req_ctx e q /\ rq_failed q = h_failed h c /\ rq_group q = e_group e /\
            forall t, In t (tags (rq_items q)) -> In t (tags (h_bag h c)).

(* a container is either untouched or detached (replaced by a fresh one) *)
Definition kept_or_reset (h h' : harvest) : Prop :=
  forall c, (h_bag h' c = h_bag h c /\ h_failed h' c = h_failed h c) \/ (h_bag h' c = [] /\ h_failed h' c = 0%N).

Lemma in_tags_of_in (l l' : list item) : (forall x, In x l -> In x l') -> forall t, In t (tags l) -> In t (tags l').
Proof.
  intros H t Ht. unfold tags in *. apply in_map_iff in Ht. destruct Ht as (x & <- & Hx). apply in_map. auto.
Qed.

Lemma default_reset_bag hp c :
  let hr := set_flags (fold_left (fun hh c => reset_cat hh c (h_cap hh c)) default_order hp) false false false in
  if existsb (cat_eqb c) default_order then h_bag hr c = [] /\ h_failed hr c = 0%N
  else h_bag hr c = h_bag hp c /\ h_failed hr c = h_failed hp c.
Proof. destruct c; cbn; split; reflexivity. Qed.

Lemma default_stage_flow s e appi h dflt :
  let '(s1, h1, qs1) := default_stage s e appi h dflt in
  quiet s s1 /\ seen_drops s s1 /\
  (forall q, In q qs1 -> req_from e h q) /\
  kept_or_reset h h1 /\
  (forall c, is_event c = true -> h_bag h1 c = h_bag h c /\ h_failed h1 c = h_failed h c).
Proof.
  unfold default_stage. destruct dflt.
  - pose proof (filter_harvest_pkgs_flow s appi (final_metrics h)) as F.
    destruct (filter_harvest_pkgs s appi (final_metrics h)) as [s1 hp]. cbn [fst snd] in F.
    destruct F as (Fq & _ & _ & Fd & Ff & Fb & Fo).
    pose proof (emit_cats_quiet e hp default_order s1) as [Eq Ed].
    pose proof (emit_cats_flow e hp default_order s1) as [_ Ef].
    destruct (emit_cats s1 e hp default_order) as [s2 qs]. cbn [fst snd] in *.
    split; [eapply quiet_trans; eassumption|].
    split; [eapply seen_drops_trans; [exact Fd|apply seen_drops_same; exact Ed]|].
    split.
    + intros q Hq. destruct (Ef q Hq) as (c & _ & K & C & Fl & G & Sub). exists c.
      split; [exact K|]. split; [exact C|]. split; [rewrite Fl, Ff; apply final_metrics_failed|]. split; [exact G|].
      intros t Ht. specialize (Sub t Ht). rewrite <- (final_metrics_bag h c).
      revert Sub. apply in_tags_of_in. apply Fb.
    + split.
      * intros c. pose proof (default_reset_bag hp c) as R. cbn zeta in R.
        destruct (existsb (cat_eqb c) default_order) eqn:E; [right; exact R|left].
        destruct R as [R1 R2]. rewrite R1, R2, Ff, final_metrics_failed.
        rewrite Fo; [rewrite final_metrics_bag; split; reflexivity|].
        intros ->. discriminate.
      * intros c Hc. pose proof (default_reset_bag hp c) as R. cbn zeta in R.
        assert (E : existsb (cat_eqb c) default_order = false) by (destruct c; try discriminate; reflexivity).
        rewrite E in R. destruct R as [R1 R2]. rewrite R1, R2, Ff, final_metrics_failed.
        rewrite Fo; [rewrite final_metrics_bag; split; reflexivity|]. intros ->. discriminate.
  - split; [apply quiet_refl|]. split; [apply seen_drops_refl|]. split; [intros q []|].
    split; [intros c; left; split; reflexivity|intros c _; split; reflexivity].
Qed.

Lemma reset_cat_other h c cap c' : c' <> c -> h_bag (reset_cat h c cap) c' = h_bag h c' /\ h_failed (reset_cat h c cap) c' = h_failed h c'.
Proof.
  intros N. unfold reset_cat, set_cap, set_failed, set_seen, set_bag, upd. cbn [h_bag h_failed].
  destruct (cat_eqb c' c) eqn:E; [apply cat_eqb_eq in E; contradiction|split; reflexivity].
Qed.
Lemma reset_cat_same h c cap : h_bag (reset_cat h c cap) c = [] /\ h_failed (reset_cat h c cap) c = 0%N.
Proof.
  unfold reset_cat, set_cap, set_failed, set_seen, set_bag, upd. cbn [h_bag h_failed]. rewrite cat_eqb_refl. split; reflexivity.
Qed.

Lemma cat_eq_dec (a b : cat) : {a = b} + {a <> b}.
Proof. decide equality. Qed.

Definition req_from_in (cs : list cat) (e : emit_ctx) (h : harvest) (q : request) : Prop :=
  exists c, In c cs /\ rq_kind q = RHarvest c /\ req_ctx e q /\ rq_failed q = h_failed h c /\ rq_group q = e_group e /\
            forall t, In t (tags (rq_items q)) -> In t (tags (h_bag h c)).

Lemma req_from_in_from cs e h q : req_from_in cs e h q -> req_from e h q.
Proof. intros (c & _ & R). exists c. exact R. Qed.

Lemma event_steps_flow ty caps e l :
  NoDup (map fst l) ->
  forall sa ha qa,
  let '(sb, hb', qb) := fold_left (event_step ty caps e) l (sa, ha, qa) in
  quiet sa sb /\ g_dropped sb = g_dropped sa /\
  (exists new, qb = qa ++ new /\ forall q, In q new -> req_from_in (map fst l) e ha q) /\
  kept_or_reset ha hb' /\
  (forall c, ~ In c (map fst l) -> h_bag hb' c = h_bag ha c /\ h_failed hb' c = h_failed ha c).
Proof.
  induction l as [|[c bit] r IH]; intros ND sa ha qa; cbn [fold_left].
  - split; [apply quiet_refl|]. split; [reflexivity|]. split; [exists []; rewrite app_nil_r; split; [reflexivity|intros q []]|].
    split; [intros c; left; split; reflexivity|intros c _; split; reflexivity].
  - cbn [map fst] in ND. inversion ND as [|? ? Hn ND']; subst.
    assert (S1 : exists s1 h1 q1, event_step ty caps e (sa, ha, qa) (c, bit) = (s1, h1, qa ++ q1) /\
                 quiet sa s1 /\ g_dropped s1 = g_dropped sa /\ (forall q, In q q1 -> req_from_in [c] e ha q) /\
                 ((h1 = ha) \/ (h1 = reset_cat ha c (caps c)))).
    { unfold event_step. destruct (has_bits ty bit && negb (caps c =? 0)%N).
      - pose proof (emit_cat_quiet sa e c (h_bag ha c) (h_seen ha c) (h_failed ha c) (h_cap ha c) false) as [Q D].
        pose proof (emit_cat_flow sa e c (h_bag ha c) (h_seen ha c) (h_failed ha c) (h_cap ha c) false) as [_ F].
        destruct (emit_cat sa e c (h_bag ha c) (h_seen ha c) (h_failed ha c) (h_cap ha c) false) as [sb q].
        cbn [fst snd] in *. exists sb, (reset_cat ha c (caps c)), q. split; [reflexivity|].
        split; [exact Q|]. split; [exact D|]. split; [|right; reflexivity].
        intros x Hx. destruct (F x Hx) as (K & C & Fl & G & Sub). exists c.
        split; [left; reflexivity|]. repeat split; try assumption; apply C.
      - exists sa, ha, []. rewrite app_nil_r. split; [reflexivity|]. split; [apply quiet_refl|]. split; [reflexivity|].
        split; [intros q []|left; reflexivity]. }
    destruct S1 as (s1 & h1 & q1 & -> & Q1 & D1 & F1 & H1).
    specialize (IH ND' s1 h1 (qa ++ q1)).
    destruct (fold_left (event_step ty caps e) r (s1, h1, qa ++ q1)) as [[sb hb'] qb].
    destruct IH as (Q2 & D2 & (new & -> & F2) & K2 & O2).
    assert (Hoth : forall c', c' <> c -> h_bag h1 c' = h_bag ha c' /\ h_failed h1 c' = h_failed ha c').
    { intros c' N. destruct H1 as [->| ->]; [split; reflexivity|apply reset_cat_other; exact N]. }
    split; [eapply quiet_trans; eassumption|]. split; [congruence|].
    split; [|split].
    + exists (q1 ++ new). split; [rewrite app_assoc; reflexivity|].
      intros q Hq. apply in_app_or in Hq. destruct Hq as [Hq|Hq].
      * destruct (F1 q Hq) as (c' & [<-|[]] & R). exists c. split; [left; reflexivity|exact R].
      * destruct (F2 q Hq) as (c' & Hc' & K & C & Fl & G & Sub).
        assert (N : c' <> c) by (intros ->; contradiction).
        destruct (Hoth c' N) as [B Fe]. exists c'. split; [right; exact Hc'|]. rewrite <- B, <- Fe. repeat split; try assumption; apply C.
    + intros c'. destruct (cat_eq_dec c' c) as [->|N].
      * destruct (O2 c Hn) as [B Fe]. rewrite B, Fe.
        destruct H1 as [->| ->]; [left; split; reflexivity|right; apply reset_cat_same].
      * destruct (Hoth c' N) as [B Fe]. rewrite <- B, <- Fe. apply K2.
    + intros c' Hc. cbn [map fst In] in Hc.
      assert (N : c' <> c) by (intros ->; apply Hc; left; reflexivity).
      destruct (Hoth c' N) as [B Fe]. rewrite <- B, <- Fe. apply O2. intros H. apply Hc. right. exact H.
Qed.

Lemma kept_or_reset_refl h : kept_or_reset h h.
Proof. intros c. left. split; reflexivity. Qed.
Lemma kept_or_reset_trans a b c : kept_or_reset a b -> kept_or_reset b c -> kept_or_reset a c.
Proof.
  intros H1 H2 x. destruct (H1 x) as [[A1 A2]|[A1 A2]]; destruct (H2 x) as [[B1 B2]|[B1 B2]].
  - left. split; congruence.
  - right. split; assumption.
  - right. split; congruence.
  - right. split; assumption.
Qed.

(* like quiet, but says nothing about the app harvests, the outstanding requests and the wait groups *)
Record calm (s s' : proc) : Prop := {
  c_runs : p_runs s' = p_runs s;
  c_apps : p_apps s' = p_apps s;
  c_conns : p_conns s' = p_conns s;
  c_now : p_now s' = p_now s;
  c_quit : p_quit s' = p_quit s;
  c_off : g_offered s' = g_offered s;
  c_ack : g_acked s' = g_acked s;
  c_len : length (p_objs s') = length (p_objs s);
  c_obj : forall i, obj_eqv (get_obj s' i) (get_obj s i);
  c_next : p_next s <= p_next s'
}.

Lemma calm_refl s : calm s s.
Proof. constructor; try reflexivity. intros i; apply obj_eqv_refl. Qed.
Lemma calm_trans a b c : calm a b -> calm b c -> calm a c.
Proof.
  intros A B. constructor;
    try (rewrite (c_runs _ _ B) || rewrite (c_apps _ _ B) || rewrite (c_conns _ _ B) || rewrite (c_now _ _ B) ||
         rewrite (c_quit _ _ B) || rewrite (c_off _ _ B) || rewrite (c_ack _ _ B) || rewrite (c_len _ _ B)); try apply A.
  - intros i. eapply obj_eqv_trans; [apply (c_obj _ _ B)|apply (c_obj _ _ A)].
  - pose proof (c_next _ _ A). pose proof (c_next _ _ B). lia.
Qed.
Lemma calm_quiet s s' : quiet s s' -> calm s s'.
Proof. intros Q. constructor; apply Q. Qed.
Lemma calm_fields s s' :
  p_runs s' = p_runs s -> p_apps s' = p_apps s -> p_conns s' = p_conns s -> p_now s' = p_now s -> p_quit s' = p_quit s ->
  g_offered s' = g_offered s -> g_acked s' = g_acked s -> p_objs s' = p_objs s -> p_next s <= p_next s' -> calm s s'.
Proof.
  intros. constructor; try assumption; [congruence|]. intros i. unfold get_obj. rewrite H6. apply obj_eqv_refl.
Qed.
Ltac calm_triv := apply calm_fields; try reflexivity; try (cbn; lia).

Lemma calm_put_ah_h s i h : calm s (put_ah_h s i h).
Proof. calm_triv. Qed.
Lemma calm_register s qs : calm s (register s qs).
Proof. calm_triv. Qed.

Definition usage_from (e : emit_ctx) (q : request) : Prop := rq_kind q = RUsage /\ rq_items q = [] /\ req_ctx e q.

Record tick_flow (s : proc) (a : nat) (s' : proc) (outs : list out) : Prop := {
  tf_ahs : exists hnew, p_ahs s' = p_ahs (put_ah_h s a hnew) /\ kept_or_reset (ah_h (get_ah s a)) hnew;
  tf_calm : calm s s';
  tf_next : p_next s < p_next s';
  tf_drop : seen_drops s s';
  tf_reqs : exists qs u,
      outs = map OutReq (qs ++ u) /\
      (forall q, In q (p_reqs s') <-> In q (p_reqs s) \/ In q (qs ++ u)) /\
      (forall q, In q qs -> req_from (ctx_of s (get_ah s a) (p_next s)) (ah_h (get_ah s a)) q) /\
      (forall q, In q u -> usage_from (ctx_of s (get_ah s a) (p_next s)) q) /\
      (forall t, cnt t (req_tags qs) <= cnt t (harvest_tags (ah_h (get_ah s a))));
  tf_groups : forall g, In g (p_groups s') ->
      In g (p_groups s) \/ (g_id g = p_next s /\ g_ctx g = ctx_of s (get_ah s a) (p_next s))
}.

Lemma length_zero_nil {A} (l : list A) : Nat.eqb (length l) 0 = true -> l = [].
Proof. destruct l; [reflexivity|discriminate]. Qed.

Lemma harvest_by_type_flow s a ty :
  tick_flow s a (fst (harvest_by_type s a ty)) (snd (harvest_by_type s a ty)).
Proof.
  unfold harvest_by_type.
  set (ah := get_ah s a). set (ao := get_obj s (ah_app ah)). set (h := ah_h ah).
  set (grp := p_next s). set (s0 := with_next s (S grp)). set (caps := cur_caps ao).
  change (ctx_of s0 ah grp) with (ctx_of s ah grp). set (e := ctx_of s ah grp).
  assert (C0 : calm s s0) by (subst s0; calm_triv).
  assert (Eg : e_group e = grp) by reflexivity.
  destruct (has_bits ty HarvestBits_gen.HarvestAll).
  - (* everything at once *)
    set (s1 := put_ah_h s0 a (new_harvest caps)).
    assert (A1 : p_ahs s1 = p_ahs (put_ah_h s a (new_harvest caps))) by reflexivity.
    assert (K1 : kept_or_reset h (new_harvest caps)) by (intros c; right; split; reflexivity).
    pose proof (filter_harvest_pkgs_flow s1 (ah_app ah) h) as F.
    pose proof (filter_harvest_pkgs_ok s1 (ah_app ah) h) as Fk.
    destruct (filter_harvest_pkgs s1 (ah_app ah) h) as [s2 h1]. cbn [fst snd] in F, Fk.
    destruct F as (Fq & _ & _ & Fd & Ff & Fb & _). destruct Fk as (_ & _ & _ & _ & _ & _ & d & _ & Ft).
    pose proof (emit_cats_quiet e (final_metrics h1) all_order s2) as [Eq Ed].
    pose proof (emit_cats_flow e (final_metrics h1) all_order s2) as [_ Ef].
    pose proof (emit_cats_ok e (final_metrics h1) all_order s2) as [_ Et].
    destruct (emit_cats s2 e (final_metrics h1) all_order) as [s3 qs]. cbn [fst snd] in *.
    assert (C3 : calm s (register s3 qs)).
    { eapply calm_trans; [exact C0|]. eapply calm_trans; [apply calm_put_ah_h|]. fold s1.
      eapply calm_trans; [apply calm_quiet; exact Fq|]. eapply calm_trans; [apply calm_quiet; exact Eq|]. apply calm_register. }
    assert (A3 : p_ahs (register s3 qs) = p_ahs (put_ah_h s a (new_harvest caps))).
    { change (p_ahs (register s3 qs)) with (p_ahs s3). rewrite (q_ahs _ _ Eq), (q_ahs _ _ Fq). exact A1. }
    assert (N3 : p_next s < p_next (register s3 qs)).
    { change (p_next (register s3 qs)) with (p_next s3). pose proof (q_next _ _ Eq). pose proof (q_next _ _ Fq).
      change (p_next s1) with (S (p_next s)) in *. lia. }
    assert (D3 : seen_drops s (register s3 qs)).
    { eapply seen_drops_trans; [|apply seen_drops_same; change (g_dropped (register s3 qs)) with (g_dropped s3); exact Ed].
      destruct Fd as [dd Fd]. exists dd. exact Fd. }
    assert (R3 : forall q, In q (p_reqs (register s3 qs)) <-> In q (p_reqs s) \/ In q qs).
    { intros q. rewrite in_reqs_register, (q_reqs _ _ Eq), (q_reqs _ _ Fq). reflexivity. }
    assert (G3 : p_groups (register s3 qs) = p_groups s).
    { change (p_groups (register s3 qs)) with (p_groups s3). rewrite (q_groups _ _ Eq), (q_groups _ _ Fq). reflexivity. }
    assert (Q3 : forall q, In q qs -> req_from e h q).
    { intros q Hq. destruct (Ef q Hq) as (c & _ & K & C & Fl & G & Sub). exists c.
      split; [exact K|]. split; [exact C|]. split; [rewrite Fl, final_metrics_failed; apply Ff|]. split; [exact G|].
      intros t Ht. specialize (Sub t Ht). rewrite final_metrics_bag in Sub. revert Sub. apply in_tags_of_in. apply Fb. }
    assert (T3 : forall t, cnt t (req_tags qs) <= cnt t (harvest_tags h)).
    { intros t. rewrite Et.
      change (concat (map (fun c => tags (h_bag (final_metrics h1) c)) all_order)) with (harvest_tags (final_metrics h1)).
      rewrite harvest_tags_final. specialize (Ft t). lia. }
    destruct (Nat.eqb (length qs) 0) eqn:El.
    + apply length_zero_nil in El. subst qs.
      pose proof (usage_request_flow (register s3 []) e) as (Uq & Ud & Uf).
      destruct (usage_request (register s3 []) e) as [s5 u]. cbn [fst snd] in *.
      constructor.
      * exists (new_harvest caps). split; [|exact K1]. change (p_ahs (register s5 u)) with (p_ahs s5). rewrite (q_ahs _ _ Uq). exact A3.
      * eapply calm_trans; [exact C3|]. eapply calm_trans; [apply calm_quiet; exact Uq|apply calm_register].
      * change (p_next (register s5 u)) with (p_next s5). pose proof (q_next _ _ Uq). lia.
      * eapply seen_drops_trans; [exact D3|]. apply seen_drops_same. exact Ud.
      * exists [], u. split; [reflexivity|]. split; [|split; [intros q []|split; [exact Uf|intros t; cbn; lia]]].
        intros q. rewrite in_reqs_register, (q_reqs _ _ Uq), R3. cbn [app In]. tauto.
      * intros g Hg. left. change (p_groups (register s5 u)) with (p_groups s5) in Hg. rewrite (q_groups _ _ Uq), G3 in Hg. exact Hg.
    + cbn [fst snd]. constructor.
      * exists (new_harvest caps). split; [exact A3|exact K1].
      * eapply calm_trans; [exact C3|]. calm_triv.
      * exact N3.
      * destruct D3 as [dd D3]. exists dd. exact D3.
      * exists qs, []. rewrite app_nil_r. split; [reflexivity|]. split; [exact R3|]. split; [exact Q3|]. split; [intros q []|exact T3].
      * intros g Hg. cbn [p_groups with_groups] in Hg. apply in_app_or in Hg. rewrite G3 in Hg.
        destruct Hg as [Hg|[<-|[]]]; [left; exact Hg|right; split; reflexivity].
  - (* by type *)
    pose proof (default_stage_flow s0 e (ah_app ah) h (has_bits ty HarvestBits_gen.HarvestDefaultData)) as D.
    pose proof (default_stage_ok s0 e (ah_app ah) h (has_bits ty HarvestBits_gen.HarvestDefaultData)) as Dk.
    destruct (default_stage s0 e (ah_app ah) h (has_bits ty HarvestBits_gen.HarvestDefaultData)) as [[s1 h1] qs1].
    destruct D as (Dq & Dd & Df & Dr & De). destruct Dk as (_ & _ & _ & _ & _ & d & _ & Dt).
    assert (NDe : NoDup (map fst event_order)) by (cbn; repeat constructor; cbn; intuition discriminate).
    pose proof (event_steps_flow ty caps e event_order NDe s1 h1 qs1) as E.
    pose proof (event_steps_ok ty caps e event_order (s1, h1, qs1)) as Ek.
    destruct (fold_left (event_step ty caps e) event_order (s1, h1, qs1)) as [[s2 h2] qs2].
    destruct E as (Eq & Ed & (new & -> & Ef) & Er & _). destruct Ek as [_ Et].
    set (s3 := register (put_ah_h s2 a h2) (qs1 ++ new)).
    assert (A2 : p_ahs s2 = p_ahs s) by (rewrite (q_ahs _ _ Eq), (q_ahs _ _ Dq); reflexivity).
    assert (A3 : p_ahs s3 = p_ahs (put_ah_h s a h2)).
    { subst s3. change (p_ahs (register (put_ah_h s2 a h2) (qs1 ++ new))) with (p_ahs (put_ah_h s2 a h2)).
      unfold put_ah_h, get_ah. cbn [p_ahs with_ahs]. rewrite A2. reflexivity. }
    assert (K3 : kept_or_reset h h2) by (eapply kept_or_reset_trans; eassumption).
    assert (C3 : calm s s3).
    { eapply calm_trans; [exact C0|]. eapply calm_trans; [apply calm_quiet; exact Dq|].
      eapply calm_trans; [apply calm_quiet; exact Eq|]. eapply calm_trans; [apply calm_put_ah_h|apply calm_register]. }
    assert (N3 : p_next s < p_next s3).
    { change (p_next s3) with (p_next s2). pose proof (q_next _ _ Eq). pose proof (q_next _ _ Dq).
      change (p_next s0) with (S (p_next s)) in *. lia. }
    assert (D3 : seen_drops s s3).
    { eapply seen_drops_trans; [|apply seen_drops_same; change (g_dropped s3) with (g_dropped s2); exact Ed].
      destruct Dd as [dd Dd]. exists dd. exact Dd. }
    assert (R3 : forall q, In q (p_reqs s3) <-> In q (p_reqs s) \/ In q (qs1 ++ new)).
    { intros q. subst s3. rewrite in_reqs_register. change (p_reqs (put_ah_h s2 a h2)) with (p_reqs s2).
      rewrite (q_reqs _ _ Eq), (q_reqs _ _ Dq). reflexivity. }
    assert (G3 : p_groups s3 = p_groups s).
    { change (p_groups s3) with (p_groups s2). rewrite (q_groups _ _ Eq), (q_groups _ _ Dq). reflexivity. }
    assert (Q3 : forall q, In q (qs1 ++ new) -> req_from e h q).
    { intros q Hq. apply in_app_or in Hq. destruct Hq as [Hq|Hq]; [apply Df; exact Hq|].
      destruct (Ef q Hq) as (c & Hc & K & C & Fl & G & Sub).
      assert (Ev : is_event c = true).
      { cbn in Hc. destruct Hc as [<-|[<-|[<-|[<-|[<-|[]]]]]]; reflexivity. }
      destruct (De c Ev) as [B Fe]. exists c. rewrite <- B, <- Fe. repeat split; try assumption; apply C. }
    assert (T3 : forall t, cnt t (req_tags (qs1 ++ new)) <= cnt t (harvest_tags h)).
    { intros t. specialize (Et t). specialize (Dt t). lia. }
    fold s3.
    destruct (Nat.eqb (length (qs1 ++ new)) 0) eqn:El.
    + apply length_zero_nil in El.
      destruct (has_bits ty HarvestBits_gen.HarvestDefaultData && negb (harvest_empty h)).
      * pose proof (usage_request_flow s3 e) as (Uq & Ud & Uf).
        destruct (usage_request s3 e) as [s5 u]. cbn [fst snd] in *.
        constructor.
        -- exists h2. split; [|exact K3]. change (p_ahs (register s5 u)) with (p_ahs s5). rewrite (q_ahs _ _ Uq). exact A3.
        -- eapply calm_trans; [exact C3|]. eapply calm_trans; [apply calm_quiet; exact Uq|apply calm_register].
        -- change (p_next (register s5 u)) with (p_next s5). pose proof (q_next _ _ Uq). lia.
        -- eapply seen_drops_trans; [exact D3|]. apply seen_drops_same. exact Ud.
        -- exists [], u. split; [reflexivity|]. split; [|split; [intros q []|split; [exact Uf|intros t; cbn; lia]]].
           intros q. rewrite in_reqs_register, (q_reqs _ _ Uq), R3, El. cbn [app In]. tauto.
        -- intros g Hg. left. change (p_groups (register s5 u)) with (p_groups s5) in Hg. rewrite (q_groups _ _ Uq), G3 in Hg. exact Hg.
      * cbn [fst snd]. constructor.
        -- exists h2. split; [exact A3|exact K3].
        -- exact C3.
        -- exact N3.
        -- exact D3.
        -- exists [], []. split; [reflexivity|]. split; [|split; [intros q []|split; [intros q []|intros t; cbn; lia]]].
           intros q. rewrite R3, El. cbn [app In]. tauto.
        -- intros g Hg. left. rewrite G3 in Hg. exact Hg.
    + cbn [fst snd]. constructor.
      * exists h2. split; [exact A3|exact K3].
      * eapply calm_trans; [exact C3|]. calm_triv.
      * exact N3.
      * destruct D3 as [dd D3]. exists dd. exact D3.
      * exists (qs1 ++ new), []. rewrite app_nil_r. split; [reflexivity|]. split; [exact R3|]. split; [exact Q3|]. split; [intros q []|exact T3].
      * intros g Hg. cbn [p_groups with_groups] in Hg. apply in_app_or in Hg. rewrite G3 in Hg.
        destruct Hg as [Hg|[<-|[]]]; [left; exact Hg|right; split; reflexivity].
Qed.

(* ------------------------------------------------------------------ consequences of "one harvest was replaced" *)
Lemma put_view s s' a hnew :
  p_ahs s' = p_ahs (put_ah_h s a hnew) ->
  length (p_ahs s') = length (p_ahs s) /\
  (forall j, ah_run (get_ah s' j) = ah_run (get_ah s j)) /\
  (forall j, ah_app (get_ah s' j) = ah_app (get_ah s j)) /\
  (forall j, j <> a -> get_ah s' j = get_ah s j) /\
  (a < length (p_ahs s) -> ah_h (get_ah s' a) = hnew).
Proof.
  intros E.
  assert (G : forall j, get_ah s' j = get_ah (put_ah_h s a hnew) j) by (intros j; unfold get_ah; rewrite E; reflexivity).
  split; [rewrite E; unfold put_ah_h; cbn [p_ahs with_ahs]; apply length_set_nth|].
  split; [intros j; rewrite G; apply ah_run_put|]. split; [intros j; rewrite G; apply ah_app_put|].
  split; [intros j N; rewrite G; apply get_ah_put_other; congruence|].
  intros L. rewrite G. apply get_ah_put_same. exact L.
Qed.

Lemma set_nth_same {A} (l : list A) : forall i d, set_nth i (nth i l d) l = l.
Proof. induction l as [|x r IH]; intros [|i] d; cbn; try reflexivity. f_equal. apply IH. Qed.

Lemma put_same s a : p_ahs (put_ah_h s a (ah_h (get_ah s a))) = p_ahs s.
Proof.
  unfold put_ah_h, get_ah. cbn [p_ahs with_ahs].
  replace {| ah_app := ah_app (nth a (p_ahs s) dummy_ah); ah_run := ah_run (nth a (p_ahs s) dummy_ah);
             ah_h := ah_h (nth a (p_ahs s) dummy_ah) |} with (nth a (p_ahs s) dummy_ah)
    by (destruct (nth a (p_ahs s) dummy_ah); reflexivity).
  apply set_nth_same.
Qed.

(* ------------------------------------------------------------------ operations that touch no tagged data *)
Record mild (s s' : proc) : Prop := {
  m_ahs : p_ahs s' = p_ahs s;
  m_reqs : p_reqs s' = p_reqs s;
  m_groups : p_groups s' = p_groups s;
  m_len : length (p_objs s) <= length (p_objs s');
  m_key : forall i, i < length (p_objs s) -> a_key (get_obj s' i) = a_key (get_obj s i);
  m_next : p_next s <= p_next s';
  m_off : g_offered s' = g_offered s;
  m_ack : g_acked s' = g_acked s;
  m_drop : g_dropped s' = g_dropped s;
  m_now : p_now s' = p_now s;
  m_quit : p_quit s' = p_quit s
}.

Lemma mild_refl s : mild s s.
Proof. constructor; try reflexivity. Qed.
Lemma mild_trans a b c : mild a b -> mild b c -> mild a c.
Proof.
  intros A B. constructor;
    try (rewrite (m_ahs _ _ B) || rewrite (m_reqs _ _ B) || rewrite (m_groups _ _ B) || rewrite (m_off _ _ B) ||
         rewrite (m_ack _ _ B) || rewrite (m_drop _ _ B) || rewrite (m_now _ _ B) || rewrite (m_quit _ _ B)); try apply A.
  - pose proof (m_len _ _ A). pose proof (m_len _ _ B). lia.
  - intros i Hi. pose proof (m_len _ _ A). rewrite (m_key _ _ B) by lia. apply (m_key _ _ A). exact Hi.
  - pose proof (m_next _ _ A). pose proof (m_next _ _ B). lia.
Qed.
Lemma mild_quiet s s' : quiet s s' -> g_dropped s' = g_dropped s -> mild s s'.
Proof.
  intros Q D. constructor; try apply Q; try assumption.
  - rewrite (q_len _ _ Q). lia.
  - intros i _. apply (q_obj _ _ Q).
Qed.
Lemma mild_put_obj s i a : a_key a = a_key (get_obj s i) -> mild s (put_obj s i a).
Proof.
  intros K. constructor; try reflexivity.
  - rewrite length_put_obj. lia.
  - intros j _. apply key_put_obj. exact K.
Qed.
Lemma mild_fields s s' :
  p_ahs s' = p_ahs s -> p_reqs s' = p_reqs s -> p_groups s' = p_groups s -> p_objs s' = p_objs s -> p_next s <= p_next s' ->
  g_offered s' = g_offered s -> g_acked s' = g_acked s -> g_dropped s' = g_dropped s -> p_now s' = p_now s -> p_quit s' = p_quit s ->
  mild s s'.
Proof. intros. constructor; try assumption; [rewrite H2; lia|]. intros i _. unfold get_obj. rewrite H2. reflexivity. Qed.
Ltac mild_triv := apply mild_fields; try reflexivity; try (cbn; lia).

Definition preconnect_for (k : N) (q : request) : Prop :=
  rq_kind q = RPreconnect /\ rq_items q = [] /\ rq_owner q = k /\ rq_run q = 0%N.

Lemma consider_connect_flow s i :
  let s' := fst (consider_connect s i) in
  mild s s' /\ p_runs s' = p_runs s /\ p_apps s' = p_apps s /\
  forall x, In x (snd (consider_connect s i)) -> exists q, x = OutReq q /\ preconnect_for (a_key (get_obj s i)) q.
Proof.
  cbn zeta. unfold consider_connect. destruct (needs_connect (get_obj s i) (p_now s)); cbn [fst snd].
  - split; [|split; [reflexivity|split; [reflexivity|]]].
    + eapply mild_trans; [apply (mild_put_obj s i (set_attempt (get_obj s i) (p_now s))); reflexivity|]. mild_triv.
    + intros x [<-|[]]. eexists. split; [reflexivity|]. repeat split.
  - split; [apply mild_refl|]. split; [reflexivity|]. split; [reflexivity|]. intros x [].
Qed.

(* requests of the connect hand-shake carry no data *)
Definition handshake_out (o : list out) : Prop :=
  forall q, In (OutReq q) o -> rq_items q = [] /\ (rq_kind q = RPreconnect \/ rq_kind q = RConnect).

Lemma connected_run_no_req a q : ~ In (OutReq q) (connected_run a).
Proof.
  unfold connected_run. destruct (a_state a); try (intros []). destruct (a_reply a); [|intros []]. intros [H|[]]. discriminate.
Qed.

Lemma app_info_flow s key dt id :
  let s' := fst (app_info s key dt id) in
  mild s s' /\ p_runs s' = p_runs s /\ handshake_out (snd (app_info s key dt id)).
Proof.
  cbn zeta. unfold app_info.
  destruct (match id with Some r => match lookupN r (p_runs s) with Some _ => true | None => false end | None => false end).
  { cbn [fst snd]. split; [apply mild_refl|]. split; [reflexivity|]. intros q [H|[]]. discriminate. }
  destruct (lookupN key (p_apps s)) as [i|].
  - set (s1 := put_obj s i (set_activity (get_obj s i) (p_now s))).
    pose proof (consider_connect_flow s1 i) as (M & R & _ & O). destruct (consider_connect s1 i) as [s2 o]. cbn [fst snd] in *.
    split; [eapply mild_trans; [apply (mild_put_obj s i (set_activity (get_obj s i) (p_now s))); reflexivity|exact M]|]. split; [rewrite R; reflexivity|].
    intros q [H|H]; [discriminate|]. apply in_app_or in H. destruct H as [H|H]; [exfalso; eapply connected_run_no_req; exact H|].
    destruct (O _ H) as (q' & E & K & I & _). inversion E; subst. split; [exact I|left; exact K].
  - destruct (Nat.leb app_limit (length (p_apps s))).
    { cbn [fst snd]. split; [apply mild_refl|]. split; [reflexivity|]. intros q [H|[]]. discriminate. }
    match goal with |- context [consider_connect ?S ?I] => set (s1 := S); set (i := I) end.
    pose proof (consider_connect_flow s1 i) as (M & R & _ & O). destruct (consider_connect s1 i) as [s2 o]. cbn [fst snd] in *.
    split; [eapply mild_trans; [|exact M]|]. 
    + constructor; try reflexivity.
      * subst s1. cbn [p_objs with_apps with_objs]. rewrite app_length. lia.
      * intros j Hj. unfold get_obj. subst s1. cbn [p_objs with_apps with_objs]. rewrite app_nth1 by exact Hj. reflexivity.
    + split; [rewrite R; reflexivity|].
      intros q [H|H]; [discriminate|]. destruct (O _ H) as (q' & E & K & I & _). inversion E; subst. split; [exact I|left; exact K].
Qed.

Lemma connect_failed_flow s key f : mild s (connect_failed s key f) /\ p_runs (connect_failed s key f) = p_runs s.
Proof.
  unfold connect_failed. destruct (lookupN key (p_apps s)) as [i|]; [|split; [apply mild_refl|reflexivity]].
  destruct (negb (astate_eqb (a_state (get_obj s i)) SUnknown)); [split; [apply mild_refl|reflexivity]|].
  destruct f as [[]|]; (split; [apply mild_put_obj; reflexivity|reflexivity]).
Qed.

Lemma pre_reply_flow s n o :
  let s' := fst (pre_reply s n o) in
  mild s s' /\ p_runs s' = p_runs s /\
  forall q, In (OutReq q) (snd (pre_reply s n o)) ->
    exists c, nth_error (p_conns s) n = Some c /\ rq_kind q = RConnect /\ rq_items q = [] /\ rq_owner q = ca_key c /\
              rq_id q = ca_id c /\ rq_run q = 0%N.
Proof.
  cbn zeta. unfold pre_reply. destruct (nth_error (p_conns s) n) as [c|]; [|cbn [fst snd]; split; [apply mild_refl|split; [reflexivity|intros q []]]].
  destruct (ca_stage c); [|cbn [fst snd]; split; [apply mild_refl|split; [reflexivity|intros q []]]].
  destruct o as [host|f|]; cbn [fst snd].
  - split; [mild_triv|]. split; [reflexivity|]. intros q [H|[]]. inversion H; subst. exists c. repeat split.
  - destruct (connect_failed_flow (with_conns s (remove_nth n (p_conns s))) (ca_key c) (Some f)) as [M R].
    split; [eapply mild_trans; [|exact M]; mild_triv|]. split; [rewrite R; reflexivity|intros q []].
  - destruct (connect_failed_flow (with_conns s (remove_nth n (p_conns s))) (ca_key c) None) as [M R].
    split; [eapply mild_trans; [|exact M]; mild_triv|]. split; [rewrite R; reflexivity|intros q []].
Qed.

(* a successful connect: the run is registered with a fresh, empty app harvest *)
Definition connected_as (s s' : proc) (key : N) (r : creply) : Prop :=
  exists i, lookupN key (p_apps s) = Some i /\
    p_ahs s' = p_ahs s ++ [{| ah_app := i; ah_run := cr_run r; ah_h := new_harvest (cr_caps r) |}] /\
    p_runs s' = setN (cr_run r) (length (p_ahs s)) (p_runs s) /\
    p_reqs s' = p_reqs s /\ p_groups s' = p_groups s /\ p_next s' = p_next s /\
    length (p_objs s') = length (p_objs s) /\ (forall j, a_key (get_obj s' j) = a_key (get_obj s j)) /\
    g_offered s' = g_offered s /\ g_acked s' = g_acked s /\ g_dropped s' = g_dropped s /\ p_quit s' = p_quit s.

Lemma connect_ok_flow s key host r :
  connect_ok s key host r = s \/ connected_as s (connect_ok s key host r) key r.
Proof.
  unfold connect_ok. destruct (lookupN key (p_apps s)) as [i|] eqn:L; [|left; reflexivity].
  destruct (negb (astate_eqb (a_state (get_obj s i)) SUnknown)); [left; reflexivity|].
  right. exists i. split; [exact L|]. cbn [p_ahs p_runs p_reqs p_groups p_next with_runs with_ahs put_obj with_objs].
  repeat split.
  - cbn [p_objs with_runs with_ahs]. apply length_put_obj.
  - intros j. change (get_obj (with_runs (with_ahs (put_obj s i (set_connected (get_obj s i) r host)) _) _) j)
      with (get_obj (put_obj s i (set_connected (get_obj s i) r host)) j). apply key_put_obj. reflexivity.
Qed.

Lemma conn_reply_flow s n o :
  let s' := fst (conn_reply s n o) in
  snd (conn_reply s n o) = [] /\
  ((mild s s' /\ p_runs s' = p_runs s) \/
   (exists c host r, nth_error (p_conns s) n = Some c /\ ca_stage c = StConn host /\ o = ConnOk r /\
                     connected_as s s' (ca_key c) r)).
Proof.
  cbn zeta. unfold conn_reply. destruct (nth_error (p_conns s) n) as [c|]; [|cbn [fst snd]; split; [reflexivity|left; split; [apply mild_refl|reflexivity]]].
  destruct (ca_stage c) as [|host] eqn:St; [cbn [fst snd]; split; [reflexivity|left; split; [apply mild_refl|reflexivity]]|].
  set (s1 := with_conns s (remove_nth n (p_conns s))).
  assert (M1 : mild s s1) by (subst s1; mild_triv).
  destruct o as [r|f| |]; cbn [fst snd]; (split; [reflexivity|]).
  - destruct (connect_ok_flow s1 (ca_key c) host r) as [E|C].
    + left. rewrite E. split; [exact M1|reflexivity].
    + right. exists c, host, r. split; [reflexivity|]. split; [exact St|]. split; [reflexivity|]. exact C.
  - left. destruct (connect_failed_flow s1 (ca_key c) (Some f)) as [M R]. split; [eapply mild_trans; eassumption|rewrite R; reflexivity].
  - left. destruct (connect_failed_flow s1 (ca_key c) None) as [M R]. split; [eapply mild_trans; eassumption|rewrite R; reflexivity].
  - left. destruct (connect_failed_flow s1 (ca_key c) None) as [M R]. split; [eapply mild_trans; eassumption|rewrite R; reflexivity].
Qed.

(* ------------------------------------------------------------------ transactions *)
Lemma txn_data_flow s run x :
  match lookupN run (p_runs s) with
  | None => txn_data s run x = (s, [])
  | Some a =>
      let s' := fst (txn_data s run x) in
      snd (txn_data s run x) = [] /\
      (exists hnew, p_ahs s' = p_ahs (put_ah_h s a hnew) /\
                    (forall c, h_failed hnew c = hf s a c) /\
                    (forall c t, In t (tags (h_bag hnew c)) -> In t (tags (hb s a c)) \/ In t (txn_cat_tags x c))) /\
      p_reqs s' = p_reqs s /\ p_runs s' = p_runs s /\ p_groups s' = p_groups s /\ p_next s' = p_next s /\
      length (p_objs s') = length (p_objs s) /\ (forall i, a_key (get_obj s' i) = a_key (get_obj s i)) /\
      g_offered s' = g_offered s ++ txn_tags x /\ g_acked s' = g_acked s /\
      (exists d1 d2, g_dropped s' = g_dropped s ++ map (fun t => (t, RCapacity)) d1 ++ map (fun t => (t, ROverwritten)) d2)
  end.
Proof.
  unfold txn_data. destruct (lookupN run (p_runs s)) as [a|]; [|reflexivity].
  pose proof (aggregate_bag (ah_h (get_ah s a)) x) as B. pose proof (aggregate_failed (ah_h (get_ah s a)) x) as F.
  destruct (aggregate (ah_h (get_ah s a)) x) as [[h' d] ov]. cbn [fst snd] in *.
  split; [reflexivity|]. split.
  - exists h'. split; [reflexivity|]. split; [exact F|exact B].
  - repeat split.
    + cbn [p_objs ghost_drop ghost_offer]. unfold put_ah_h. cbn [p_objs with_ahs]. apply length_put_obj.
    + intros i. match goal with |- a_key (get_obj ?S i) = _ =>
        change (get_obj S i) with (get_obj (put_obj s (ah_app (get_ah s a)) (set_activity (get_obj s (ah_app (get_ah s a))) (p_now s))) i) end.
      apply key_put_obj. reflexivity.
    + exists (tags d), (tags ov). cbn [g_dropped ghost_drop]. rewrite <- app_assoc. reflexivity.
Qed.

(* ------------------------------------------------------------------ a failed payload *)
Definition limit_of (c : cat) : N := if cat_eqb c CMetrics then metric_limit else event_limit.

(* what FailedHarvest does with the payload q of category c *)
Inductive merge_case (h : harvest) (c : cat) (q : request) : harvest -> list item -> list item -> Prop :=
| MC_none : merge_case h c q h [] (rq_items q)
| MC_usage h1 :
    rq_kind q = RUsage ->
    (forall c', h_bag h1 c' = h_bag h c') ->
    h_failed h1 CMetrics = N.max (h_failed h CMetrics) 1 ->
    (forall c', c' <> CMetrics -> h_failed h1 c' = h_failed h c') ->
    merge_case h c q h1 [] (rq_items q)
| MC_metric h1 :
    c = CMetrics -> (rq_failed q + 1 <= metric_limit)%N ->
    h_bag h1 CMetrics = h_bag h CMetrics ++ rq_items q ->
    h_failed h1 CMetrics = N.max (h_failed h CMetrics) (rq_failed q + 1) ->
    (forall c', c' <> CMetrics -> h_bag h1 c' = h_bag h c' /\ h_failed h1 c' = h_failed h c') ->
    merge_case h c q h1 [] []
| MC_event h1 refused :
    is_event c = true -> (rq_failed q + 1 <= event_limit)%N ->
    (forall t, In t (tags (h_bag h1 c)) -> In t (tags (h_bag h c)) \/ In t (tags (rq_items q))) ->
    h_failed h1 c = (rq_failed q + 1)%N ->
    (forall c', c' <> c -> h_bag h1 c' = h_bag h c' /\ h_failed h1 c' = h_failed h c') ->
    merge_case h c q h1 refused [].

Lemma add_item_bag_other h c x c' : c' <> c -> h_bag (fst (add_item h c x)) c' = h_bag h c'.
Proof.
  intros N. unfold add_item. destruct (insert c (h_cap h c) (h_bag h c) x) as [b d].
  assert (G : h_bag (set_bag h c b) c' = h_bag h c').
  { rewrite h_bag_set_bag. destruct (cat_eqb c' c) eqn:E; [apply cat_eqb_eq in E; contradiction|reflexivity]. }
  destruct (is_event c); cbn [fst]; exact G.
Qed.

Lemma add_items_bag_other c c' (l : list item) : c' <> c -> forall h,
  h_bag (fst (add_items h (map (fun x => (c, x)) l))) c' = h_bag h c'.
Proof.
  intros N. induction l as [|x r IH]; intros h; cbn [map add_items]; [reflexivity|].
  pose proof (add_item_bag_other h c x c' N) as P. destruct (add_item h c x) as [h1 d1]. cbn [fst] in P.
  specialize (IH h1). destruct (add_items h1 (map (fun x0 => (c, x0)) r)) as [h2 d2]. cbn [fst] in *. congruence.
Qed.

Lemma merge_failed_body_flow h c q :
  let '(h1, refused, given_up) :=
    (if cat_eqb c CMetrics then
      let fails := (rq_failed q + 1)%N in
      if (metric_limit <? fails)%N then (h, [], rq_items q)
      else
        let h1 := set_failed h CMetrics (N.max (h_failed h CMetrics) fails) in
        (set_flags (set_bag h1 CMetrics (h_bag h1 CMetrics ++ rq_items q)) true (h_pids h1) (h_haspkgs h1), [], [])
    else if is_event c then
      let fails := (rq_failed q + 1)%N in
      if (event_limit <? fails)%N then (h, [], rq_items q)
      else
        let h1 := set_failed h c fails in
        let all_seen := (h_seen h1 c + rq_seen q)%N in
        let '(h2, d) := add_items h1 (map (fun x => (c, x)) (rq_items q)) in
        (set_seen h2 c all_seen, d, [])
    else (h, [], rq_items q)) in
  merge_case h c q h1 refused given_up.
Proof.
  destruct (cat_eqb c CMetrics) eqn:Ec.
  - apply cat_eqb_eq in Ec. subst c. cbn zeta.
    destruct (N.ltb_spec metric_limit (rq_failed q + 1)) as [L|L]; [apply MC_none|].
    apply MC_metric; [reflexivity|exact L|reflexivity|reflexivity|].
    intros c' N. destruct c'; try (exfalso; apply N; reflexivity); split; reflexivity.
  - destruct (is_event c) eqn:Ev; [|apply MC_none]. cbn zeta.
    destruct (N.ltb_spec event_limit (rq_failed q + 1)) as [L|L]; [apply MC_none|].
    pose proof (add_items_bag (map (fun x => (c, x)) (rq_items q)) (set_failed h c (rq_failed q + 1))) as B.
    pose proof (add_items_failed (map (fun x => (c, x)) (rq_items q)) (set_failed h c (rq_failed q + 1))) as F.
    pose proof (fun c' N => add_items_bag_other c c' (rq_items q) N (set_failed h c (rq_failed q + 1))) as O.
    destruct (add_items (set_failed h c (rq_failed q + 1)) (map (fun x => (c, x)) (rq_items q))) as [h2 d]. cbn [fst] in *.
    assert (Fs : forall c', h_failed h2 c' = if cat_eqb c' c then (rq_failed q + 1)%N else h_failed h c').
    { intros c'. rewrite F. reflexivity. }
    apply MC_event; [exact Ev|exact L| | |].
    + intros t Ht. change (h_bag (set_seen h2 c (h_seen (set_failed h c (rq_failed q + 1)) c + rq_seen q)) c) with (h_bag h2 c) in Ht.
      destruct (B c t Ht) as [H1|(y & Hy & Ey)]; [left; exact H1|right].
      apply in_map_iff in Hy. destruct Hy as (z & Ez & Hz). inversion Ez; subst. unfold tags. apply in_map. exact Hz.
    + change (h_failed (set_seen h2 c (h_seen (set_failed h c (rq_failed q + 1)) c + rq_seen q)) c) with (h_failed h2 c).
      rewrite Fs, cat_eqb_refl. reflexivity.
    + intros c' N. change (h_bag (set_seen h2 c (h_seen (set_failed h c (rq_failed q + 1)) c + rq_seen q)) c') with (h_bag h2 c').
      change (h_failed (set_seen h2 c (h_seen (set_failed h c (rq_failed q + 1)) c + rq_seen q)) c') with (h_failed h2 c').
      split; [apply (O c' N)|]. rewrite Fs. destruct (cat_eqb c' c) eqn:E; [apply cat_eqb_eq in E; contradiction|reflexivity].
Qed.

Lemma merge_failed_flow h c q :
  let '(h1, refused, given_up) := merge_failed h c q in merge_case h c q h1 refused given_up.
Proof.
  unfold merge_failed. destruct (rq_kind q) eqn:K; try apply merge_failed_body_flow.
  apply MC_usage; [exact K|reflexivity|reflexivity|].
  intros c' N. destruct c'; try (exfalso; apply N; reflexivity); reflexivity.
Qed.

Definition runs_sub (s s' : proc) (r : N) : Prop := p_runs s' = p_runs s \/ p_runs s' = removeN r (p_runs s).

Lemma runs_sub_lookup s s' r k v : runs_sub s s' r -> lookupN k (p_runs s') = Some v -> lookupN k (p_runs s) = Some v.
Proof. intros [E|E] H; rewrite E in H; [exact H|eapply lookupN_removeN; exact H]. Qed.

(* processHarvestError *)
Definition why_of (c : cat) : reason := if retryable c then RGivenUp else RNotRetryable.

Record error_flow (s : proc) (q : request) (f : fail) (a : nat) (s' : proc) (outs : list out) : Prop := {
  ef_ahs : exists hnew refused given_up,
      p_ahs s' = p_ahs (put_ah_h s a hnew) /\
      ((should_save f = true /\ merge_case (ah_h (get_ah s a)) (cat_of q) q hnew refused given_up /\
        g_dropped s' = g_dropped s ++ map (fun t => (t, RCapacity)) (tags refused) ++
                       map (fun t => (t, why_of (cat_of q))) (tags given_up) /\
        merge_failed (ah_h (get_ah s a)) (cat_of q) q = (hnew, refused, given_up)) \/
       (should_save f = false /\ hnew = ah_h (get_ah s a) /\
        g_dropped s' = g_dropped s ++ map (fun t => (t, RNotRetryable)) (tags (rq_items q))));
  ef_reqs : p_reqs s' = p_reqs s;
  ef_groups : p_groups s' = p_groups s;
  ef_runs : runs_sub s s' (rq_run q);
  ef_len : length (p_objs s') = length (p_objs s);
  ef_key : forall i, a_key (get_obj s' i) = a_key (get_obj s i);
  ef_next : p_next s <= p_next s';
  ef_off : g_offered s' = g_offered s;
  ef_ack : g_acked s' = g_acked s;
  ef_quit : p_quit s' = p_quit s;
  ef_out : forall x, In x outs -> exists q', x = OutReq q' /\ preconnect_for (a_key (get_obj s (ah_app (get_ah s a)))) q'
}.

Lemma harvest_error_flow s q f :
  match lookupN (rq_run q) (p_runs s) with
  | None => harvest_error s q f = (ghost_drop s RRunGone (tags (rq_items q)), [])
  | Some a => error_flow s q f a (fst (harvest_error s q f)) (snd (harvest_error s q f))
  end.
Proof.
  unfold harvest_error. destruct (lookupN (rq_run q) (p_runs s)) as [a|]; [|reflexivity].
  set (ah := get_ah s a). set (c := cat_of q).
  match goal with |- context [if should_save f then ?A else ?B] => set (s1 := if should_save f then A else B) end.
  (* the data part *)
  assert (D : (exists hnew refused given_up,
                 p_ahs s1 = p_ahs (put_ah_h s a hnew) /\
                 ((should_save f = true /\ merge_case (ah_h ah) c q hnew refused given_up /\
                   g_dropped s1 = g_dropped s ++ map (fun t => (t, RCapacity)) (tags refused) ++
                                  map (fun t => (t, why_of c)) (tags given_up) /\
                   merge_failed (ah_h ah) c q = (hnew, refused, given_up)) \/
                  (should_save f = false /\ hnew = ah_h ah /\
                   g_dropped s1 = g_dropped s ++ map (fun t => (t, RNotRetryable)) (tags (rq_items q))))) /\
              p_reqs s1 = p_reqs s /\ p_groups s1 = p_groups s /\ p_runs s1 = p_runs s /\ p_objs s1 = p_objs s /\
              p_next s1 = p_next s /\ g_offered s1 = g_offered s /\ g_acked s1 = g_acked s /\ p_quit s1 = p_quit s).
  { subst s1. destruct (should_save f).
    - pose proof (merge_failed_flow (ah_h ah) c q) as M. destruct (merge_failed (ah_h ah) c q) as [[h1 refused] given_up].
      split; [|repeat split]. exists h1, refused, given_up. split; [reflexivity|]. left. split; [reflexivity|]. split; [exact M|].
      split; [|reflexivity]. cbn [g_dropped ghost_drop]. rewrite <- app_assoc. reflexivity.
    - split; [|repeat split]. exists (ah_h ah), [], []. split; [cbn [p_ahs ghost_drop]; symmetry; apply put_same|].
      right. split; [reflexivity|]. split; reflexivity. }
  destruct D as (Da & Dr & Dg & Dru & Do & Dn & Doff & Dack & Dq).
  set (i := ah_app ah). set (ao := get_obj s1 i).
  assert (Ko : a_key (get_obj s1 i) = a_key (get_obj s i)) by (unfold get_obj; rewrite Do; reflexivity).
  (* the three possible continuations *)
  assert (T0 : error_flow s q f a s1 []).
  { constructor; try assumption; try (rewrite Do; reflexivity); try lia.
    - left. exact Dru.
    - intros j. unfold get_obj. rewrite Do. reflexivity.
    - intros x []. }
  assert (T1 : forall st, error_flow s q f a (shutdown_run (put_obj s1 i (set_state ao st)) (rq_run q)) []).
  { intros st. constructor; try assumption.
    - right. cbn [p_runs shutdown_run with_runs put_obj with_objs]. rewrite Dru. reflexivity.
    - cbn [p_objs shutdown_run with_runs]. rewrite length_put_obj, Do. reflexivity.
    - intros j. change (get_obj (shutdown_run (put_obj s1 i (set_state ao st)) (rq_run q)) j) with (get_obj (put_obj s1 i (set_state ao st)) j).
      rewrite key_put_obj by reflexivity. unfold get_obj. rewrite Do. reflexivity.
    - cbn. lia.
    - intros x []. }
  assert (T2 : forall st, error_flow s q f a (fst (consider_connect (shutdown_run (put_obj s1 i (set_state ao st)) (rq_run q)) i))
                                     (snd (consider_connect (shutdown_run (put_obj s1 i (set_state ao st)) (rq_run q)) i))).
  { intros st. specialize (T1 st). set (s2 := shutdown_run (put_obj s1 i (set_state ao st)) (rq_run q)) in *.
    pose proof (consider_connect_flow s2 i) as (M & R & _ & O).
    destruct T1 as [Ta Tr Tg Tru Tl Tk Tn Toff Tack Tq _].
    constructor.
    - destruct Ta as (hnew & refused & given_up & E1 & E2). exists hnew, refused, given_up. rewrite (m_ahs _ _ M), (m_drop _ _ M). split; assumption.
    - rewrite (m_reqs _ _ M). exact Tr.
    - rewrite (m_groups _ _ M). exact Tg.
    - destruct Tru as [E|E]; [left|right]; rewrite R; exact E.
    - pose proof (m_len _ _ M) as L1.
      assert (L2 : length (p_objs (fst (consider_connect s2 i))) = length (p_objs s2)).
      { unfold consider_connect. destruct (needs_connect (get_obj s2 i) (p_now s2)); cbn [fst]; [|reflexivity].
        cbn [p_objs with_next with_conns]. apply length_put_obj. }
      congruence.
    - intros j. destruct (Nat.lt_ge_cases j (length (p_objs s2))) as [Lj|Lj].
      + rewrite (m_key _ _ M j Lj). apply Tk.
      + assert (L2 : length (p_objs (fst (consider_connect s2 i))) = length (p_objs s2)).
        { unfold consider_connect. destruct (needs_connect (get_obj s2 i) (p_now s2)); cbn [fst]; [|reflexivity].
          cbn [p_objs with_next with_conns]. apply length_put_obj. }
        unfold get_obj at 1. rewrite nth_overflow by lia. unfold get_obj. rewrite nth_overflow by lia. reflexivity.
    - pose proof (m_next _ _ M). lia.
    - rewrite (m_off _ _ M). exact Toff.
    - rewrite (m_ack _ _ M). exact Tack.
    - rewrite (m_quit _ _ M). exact Tq.
    - intros x Hx. destruct (O x Hx) as (q' & E & P). exists q'. split; [exact E|].
      assert (K2 : a_key (get_obj s2 i) = a_key (get_obj s i)).
      { change (get_obj s2 i) with (get_obj (put_obj s1 i (set_state ao st)) i). rewrite key_put_obj by reflexivity. exact Ko. }
      rewrite K2 in P. exact P. }
  destruct f; cbn [fst snd];
    try (destruct (astate_eqb (a_state ao) SDisconnected); cbn [fst snd]);
    try (destruct (astate_eqb (a_state ao) SRestart); cbn [fst snd]);
    try apply T1; try apply T2; try exact T0.
Qed.

(* ------------------------------------------------------------------ wait groups *)
Lemma group_done_flow s gid :
  let s' := fst (group_done s gid) in
  exists u,
    snd (group_done s gid) = map OutReq u /\
    (forall q, In q (p_reqs s') <-> In q (p_reqs s) \/ In q u) /\
    (forall q, In q u -> exists g, In g (p_groups s) /\ g_id g = gid /\ usage_from (g_ctx g) q) /\
    (forall g, In g (p_groups s') -> exists g0, In g0 (p_groups s) /\ g_id g = g_id g0 /\ g_ctx g = g_ctx g0) /\
    p_ahs s' = p_ahs s /\ calm s s' /\ g_dropped s' = g_dropped s.
Proof.
  cbn zeta. unfold group_done. destruct (find (fun g => Nat.eqb (g_id g) gid) (p_groups s)) as [g|] eqn:Fd.
  2:{ exists []. cbn [fst snd map]. split; [reflexivity|]. split; [intros q; cbn; tauto|]. split; [intros q []|].
      split; [intros g Hg; exists g; repeat split; exact Hg|]. split; [reflexivity|]. split; [apply calm_refl|reflexivity]. }
  apply find_some in Fd. destruct Fd as [Hg Eg]. apply Nat.eqb_eq in Eg.
  assert (Gsub : forall g', In g' (filter (fun g' => negb (Nat.eqb (g_id g') gid)) (p_groups s)) ->
                 exists g0, In g0 (p_groups s) /\ g_id g' = g_id g0 /\ g_ctx g' = g_ctx g0).
  { intros g' H. apply filter_In in H. exists g'. repeat split. apply H. }
  destruct (Nat.eqb (g_pending g) 1).
  - destruct (g_usage g).
    + set (s1 := with_groups s (filter (fun g' => negb (Nat.eqb (g_id g') gid)) (p_groups s))).
      pose proof (usage_request_flow s1 (g_ctx g)) as (Uq & Ud & Uf).
      destruct (usage_request s1 (g_ctx g)) as [s2 u]. cbn [fst snd] in *.
      exists u. split; [reflexivity|]. split; [intros q; rewrite in_reqs_register, (q_reqs _ _ Uq); reflexivity|].
      split; [intros q Hq; exists g; split; [exact Hg|split; [exact Eg|apply Uf; exact Hq]]|].
      split; [intros g' H; change (p_groups (register s2 u)) with (p_groups s2) in H; rewrite (q_groups _ _ Uq) in H; apply Gsub; exact H|].
      split; [change (p_ahs (register s2 u)) with (p_ahs s2); rewrite (q_ahs _ _ Uq); reflexivity|].
      split; [|exact Ud].
      eapply calm_trans; [|eapply calm_trans; [apply calm_quiet; exact Uq|apply calm_register]]. subst s1. calm_triv.
    + exists []. cbn [fst snd map]. split; [reflexivity|]. split; [intros q; cbn; tauto|]. split; [intros q []|].
      split; [exact Gsub|]. split; [reflexivity|]. split; [calm_triv|reflexivity].
  - exists []. cbn [fst snd map]. split; [reflexivity|]. split; [intros q; cbn; tauto|]. split; [intros q []|].
    split; [|split; [reflexivity|split; [calm_triv|reflexivity]]].
    intros g' H. cbn [p_groups with_groups] in H. apply in_map_iff in H. destruct H as (g0 & E & H0).
    exists g0. split; [exact H0|]. destruct (Nat.eqb (g_id g0) gid) eqn:E0; subst g'; cbn [g_id g_ctx]; [|split; reflexivity].
    apply Nat.eqb_eq in E0. split; [symmetry; exact E0|reflexivity].
Qed.

Lemma in_remove_nth {A} (l : list A) : forall n x, In x (remove_nth n l) -> In x l.
Proof.
  induction l as [|y r IH]; intros [|n] x; cbn [remove_nth]; try tauto.
  - intros H. right. exact H.
  - intros [H|H]; [left; exact H|right; eapply IH; exact H].
Qed.

(* ------------------------------------------------------------------ final flush *)
Definition seen_part (s : proc) (appi : nat) (h : harvest) : list N :=
  if h_haspkgs h then tags (snd (fst (filter_pkgs (a_seen_pkgs (get_obj s appi)) (h_bag h CPkgs)))) else [].

Lemma filter_harvest_pkgs_seen s appi h :
  g_dropped (fst (filter_harvest_pkgs s appi h)) = g_dropped s ++ map (fun t => (t, RSeenPkg)) (seen_part s appi h) /\
  forall t, cnt t (harvest_tags (snd (filter_harvest_pkgs s appi h))) + cnt t (seen_part s appi h) = cnt t (harvest_tags h).
Proof.
  unfold filter_harvest_pkgs, seen_part. destruct (h_haspkgs h).
  - pose proof (fun t => filter_pkgs_ok t (h_bag h CPkgs) (a_seen_pkgs (get_obj s appi))) as F.
    destruct (filter_pkgs (a_seen_pkgs (get_obj s appi)) (h_bag h CPkgs)) as [[newp oldp] seen']. cbn [fst snd].
    split; [reflexivity|]. intros t. rewrite harvest_tags_set_flags. pose proof (harvest_tags_set_bag t h CPkgs newp) as Q.
    specialize (F t). lia.
  - cbn [fst snd]. split; [cbn; rewrite app_nil_r; reflexivity|]. intros t. cbn. lia.
Qed.

Definition final_ok (outs : N -> cat -> outcome) (q : request) : bool :=
  match outs (rq_run q) (cat_of q) with OOk => true | OFail _ => false end.

Lemma flush_payloads_ghosts outs qs : forall s,
  let s' := fold_left (fun sa q => match outs (rq_run q) (cat_of q) with
                                   | OOk => ghost_ack sa (tags (rq_items q))
                                   | OFail _ => ghost_drop sa RFinalFailed (tags (rq_items q))
                                   end) qs s in
  g_acked s' = g_acked s ++ req_tags (filter (final_ok outs) qs) /\
  g_dropped s' = g_dropped s ++ map (fun t => (t, RFinalFailed)) (req_tags (filter (fun q => negb (final_ok outs q)) qs)) /\
  p_ahs s' = p_ahs s /\ p_reqs s' = p_reqs s /\ p_groups s' = p_groups s /\ p_objs s' = p_objs s /\ p_next s' = p_next s /\
  p_runs s' = p_runs s /\ p_apps s' = p_apps s /\ p_conns s' = p_conns s /\ p_now s' = p_now s /\ p_quit s' = p_quit s /\
  g_offered s' = g_offered s.
Proof.
  induction qs as [|q r IH]; intros s; cbn [fold_left filter].
  - unfold req_tags. cbn. rewrite !app_nil_r. repeat split.
  - destruct (outs (rq_run q) (cat_of q)) eqn:Eo.
    + assert (Fk : final_ok outs q = true) by (unfold final_ok; rewrite Eo; reflexivity). rewrite Fk. cbn [negb].
      match goal with |- context [fold_left ?f r ?S0] => specialize (IH S0) end; cbn zeta in IH.
      destruct IH as (I1 & I2 & I3 & I4 & I5 & I6 & I7 & I8 & I9 & I10 & I11 & I12 & I13).
      rewrite I1, I2, I3, I4, I5, I6, I7, I8, I9, I10, I11, I12, I13. cbn [g_acked g_dropped ghost_ack ghost_drop].
      unfold req_tags. cbn [map concat]. rewrite <- ?app_assoc. repeat split.
    + assert (Fk : final_ok outs q = false) by (unfold final_ok; rewrite Eo; reflexivity). rewrite Fk. cbn [negb].
      match goal with |- context [fold_left ?f r ?S0] => specialize (IH S0) end; cbn zeta in IH.
      destruct IH as (I1 & I2 & I3 & I4 & I5 & I6 & I7 & I8 & I9 & I10 & I11 & I12 & I13).
      rewrite I1, I2, I3, I4, I5, I6, I7, I8, I9, I10, I11, I12, I13. cbn [g_acked g_dropped ghost_ack ghost_drop].
      unfold req_tags. cbn [map concat]. rewrite ?map_app, <- ?app_assoc. repeat split.
Qed.

Record flush_flow (outs : N -> cat -> outcome) (s : proc) (a : nat) (s' : proc) (qs : list request) : Prop := {
  ff_ahs : p_ahs s' = p_ahs (put_ah_h s a (new_harvest (cur_caps (get_obj s (ah_app (get_ah s a))))));
  ff_reqs : p_reqs s' = p_reqs s;
  ff_groups : p_groups s' = p_groups s;
  ff_runs : p_runs s' = p_runs s;
  ff_apps : p_apps s' = p_apps s;
  ff_now : p_now s' = p_now s;
  ff_quit : p_quit s' = p_quit s;
  ff_off : g_offered s' = g_offered s;
  ff_len : length (p_objs s') = length (p_objs s);
  ff_obj : forall i, obj_eqv (get_obj s' i) (get_obj s i);
  ff_next : p_next s <= p_next s';
  ff_from : forall q, In q qs -> req_from (ctx_of s (get_ah s a) 0) (ah_h (get_ah s a)) q;
  ff_cnt : forall t, cnt t (req_tags qs) + cnt t (seen_part s (ah_app (get_ah s a)) (ah_h (get_ah s a))) =
                     cnt t (harvest_tags (ah_h (get_ah s a)));
  ff_ack : g_acked s' = g_acked s ++ req_tags (filter (final_ok outs) qs);
  ff_drop : g_dropped s' = g_dropped s ++ map (fun t => (t, RSeenPkg)) (seen_part s (ah_app (get_ah s a)) (ah_h (get_ah s a))) ++
                           map (fun t => (t, RFinalFailed)) (req_tags (filter (fun q => negb (final_ok outs q)) qs))
}.

(* the three things flush_run can do with an entry of the run table *)
Lemma flush_run_flow outs s o ra :
  let a := snd ra in
  let s' := fst (flush_run outs (s, o) ra) in
  let o' := snd (flush_run outs (s, o) ra) in
  (length (p_ahs s) <= a /\ s' = s /\ o' = o) \/
  (a < length (p_ahs s) /\ flush_inactive (get_obj s (ah_app (get_ah s a))) (p_now s) = true /\ o' = o /\
   s' = with_apps (shutdown_run s (ah_run (get_ah s a))) (removeN (a_key (get_obj s (ah_app (get_ah s a)))) (p_apps s))) \/
  (a < length (p_ahs s) /\ flush_inactive (get_obj s (ah_app (get_ah s a))) (p_now s) = false /\
   exists qs, o' = o ++ map OutReq qs /\ flush_flow outs s a s' qs).
Proof.
  cbn zeta. unfold flush_run. destruct (Nat.leb_spec (length (p_ahs s)) (snd ra)) as [L|L]; [left; repeat split; exact L|right].
  set (a := snd ra) in *. set (ah := get_ah s a). set (ao := get_obj s (ah_app ah)).
  destruct (flush_inactive ao (p_now s)); [left; repeat split; exact L|right]. split; [exact L|]. split; [reflexivity|].
  set (s1 := put_ah_h s a (new_harvest (cur_caps ao))).
  pose proof (filter_harvest_pkgs_flow s1 (ah_app ah) (ah_h ah)) as F.
  pose proof (filter_harvest_pkgs_seen s1 (ah_app ah) (ah_h ah)) as [Fs Fc].
  destruct (filter_harvest_pkgs s1 (ah_app ah) (ah_h ah)) as [s2 h1]. cbn [fst snd] in F, Fs, Fc.
  destruct F as (Fq & _ & _ & _ & Ff & Fb & _).
  pose proof (emit_cats_quiet (ctx_of s ah 0) (final_metrics h1) all_order s2) as [Eq Ed].
  pose proof (emit_cats_flow (ctx_of s ah 0) (final_metrics h1) all_order s2) as [_ Ef].
  pose proof (emit_cats_ok (ctx_of s ah 0) (final_metrics h1) all_order s2) as [_ Et].
  destruct (emit_cats s2 (ctx_of s ah 0) (final_metrics h1) all_order) as [s3 qs]. cbn [fst snd] in *.
  pose proof (flush_payloads_ghosts outs qs (ghost_sent s3 (concat (map (fun q => tags (rq_items q)) qs)))) as P.
  cbn zeta in P. destruct P as (P1 & P2 & P3 & P4 & P5 & P6 & P7 & P8 & P9 & P10 & P11 & P12 & P13).
  exists qs. split; [reflexivity|].
  constructor.
  - rewrite P3. cbn [p_ahs ghost_sent]. rewrite (q_ahs _ _ Eq), (q_ahs _ _ Fq). reflexivity.
  - rewrite P4. cbn [p_reqs ghost_sent]. rewrite (q_reqs _ _ Eq), (q_reqs _ _ Fq). reflexivity.
  - rewrite P5. cbn [p_groups ghost_sent]. rewrite (q_groups _ _ Eq), (q_groups _ _ Fq). reflexivity.
  - rewrite P8. cbn [p_runs ghost_sent]. rewrite (q_runs _ _ Eq), (q_runs _ _ Fq). reflexivity.
  - rewrite P9. cbn [p_apps ghost_sent]. rewrite (q_apps _ _ Eq), (q_apps _ _ Fq). reflexivity.
  - rewrite P11. cbn [p_now ghost_sent]. rewrite (q_now _ _ Eq), (q_now _ _ Fq). reflexivity.
  - rewrite P12. cbn [p_quit ghost_sent]. rewrite (q_quit _ _ Eq), (q_quit _ _ Fq). reflexivity.
  - rewrite P13. cbn [g_offered ghost_sent]. rewrite (q_off _ _ Eq), (q_off _ _ Fq). reflexivity.
  - rewrite P6. cbn [p_objs ghost_sent]. rewrite (q_len _ _ Eq), (q_len _ _ Fq). reflexivity.
  - intros i. unfold get_obj at 1. rewrite P6. cbn [p_objs ghost_sent]. fold (get_obj s3 i).
    eapply obj_eqv_trans; [apply (q_obj _ _ Eq)|]. eapply obj_eqv_trans; [apply (q_obj _ _ Fq)|]. apply obj_eqv_refl.
  - rewrite P7. cbn [p_next ghost_sent]. pose proof (q_next _ _ Eq). pose proof (q_next _ _ Fq). change (p_next s1) with (p_next s) in *. lia.
  - intros q Hq. destruct (Ef q Hq) as (c & _ & K & C & Fl & G & Sub). exists c.
    split; [exact K|]. split; [exact C|]. split; [rewrite Fl, final_metrics_failed; apply Ff|]. split; [exact G|].
    intros t Ht. specialize (Sub t Ht). rewrite final_metrics_bag in Sub. revert Sub. apply in_tags_of_in. apply Fb.
  - intros t. rewrite Et.
    change (concat (map (fun c => tags (h_bag (final_metrics h1) c)) all_order)) with (harvest_tags (final_metrics h1)).
    rewrite harvest_tags_final. apply Fc.
  - rewrite P1. cbn [g_acked ghost_sent]. rewrite (q_ack _ _ Eq), (q_ack _ _ Fq). reflexivity.
  - rewrite P2. cbn [g_dropped ghost_sent]. rewrite Ed, Fs, <- app_assoc. reflexivity.
Qed.

(* ------------------------------------------------------------------ the shape of a step: identities are stable *)
Inductive shrunk {A} : list (N * A) -> list (N * A) -> Prop :=
| shrunk_refl l : shrunk l l
| shrunk_rem l l' r : shrunk l l' -> shrunk l (removeN r l').

Lemma shrunk_trans {A} (a b c : list (N * A)) : shrunk a b -> shrunk b c -> shrunk a c.
Proof. intros H1 H2. induction H2; [exact H1|]. apply shrunk_rem. apply IHshrunk. exact H1. Qed.

Lemma shrunk_lookup {A} (l l' : list (N * A)) k v : shrunk l l' -> lookupN k l' = Some v -> lookupN k l = Some v.
Proof. intros H. induction H; intros L; [exact L|]. apply IHshrunk. eapply lookupN_removeN. exact L. Qed.

Lemma in_removeN {A} k (l : list (N * A)) x : In x (removeN k l) -> In x l /\ fst x <> k.
Proof.
  induction l as [|[a b] r IH]; cbn [removeN]; [intros []|].
  destruct (N.eqb_spec a k) as [E|E].
  - intros H. destruct (IH H). split; [right; assumption|assumption].
  - intros [<-|H]; [split; [left; reflexivity|exact E]|]. destruct (IH H). split; [right; assumption|assumption].
Qed.

Lemma NoDup_keys_removeN {A} k (l : list (N * A)) : NoDup (map fst l) -> NoDup (map fst (removeN k l)).
Proof.
  induction l as [|[a b] r IH]; cbn [removeN map fst]; [auto|]. intros H. inversion H as [|? ? Hn Hd]; subst.
  destruct (N.eqb a k); [apply IH; exact Hd|]. cbn [map fst]. constructor; [|apply IH; exact Hd].
  intros Hin. apply Hn. apply in_map_iff in Hin. destruct Hin as (x & Ex & Hx). apply in_removeN in Hx.
  apply in_map_iff. exists x. tauto.
Qed.

Lemma shrunk_NoDup {A} (l l' : list (N * A)) : shrunk l l' -> NoDup (map fst l) -> NoDup (map fst l').
Proof. intros H. induction H; intros N; [exact N|]. apply NoDup_keys_removeN. auto. Qed.

Lemma shrunk_in {A} (l l' : list (N * A)) x : shrunk l l' -> In x l' -> In x l.
Proof. intros H. induction H; intros Hin; [exact Hin|]. apply IHshrunk. apply in_removeN in Hin. tauto. Qed.

Record shape0 (s s' : proc) : Prop := {
  s0_len : length (p_ahs s') = length (p_ahs s);
  s0_run : forall j, ah_run (get_ah s' j) = ah_run (get_ah s j);
  s0_app : forall j, ah_app (get_ah s' j) = ah_app (get_ah s j);
  s0_olen : length (p_objs s) <= length (p_objs s');
  s0_key : forall i, i < length (p_objs s) -> a_key (get_obj s' i) = a_key (get_obj s i);
  s0_runs : shrunk (p_runs s) (p_runs s');
  s0_next : p_next s <= p_next s'
}.

Lemma shape0_refl s : shape0 s s.
Proof. constructor; try reflexivity. apply shrunk_refl. Qed.
Lemma shape0_trans a b c : shape0 a b -> shape0 b c -> shape0 a c.
Proof.
  intros A B. constructor.
  - rewrite (s0_len _ _ B). apply A.
  - intros j. rewrite (s0_run _ _ B). apply A.
  - intros j. rewrite (s0_app _ _ B). apply A.
  - pose proof (s0_olen _ _ A). pose proof (s0_olen _ _ B). lia.
  - intros i Hi. pose proof (s0_olen _ _ A). rewrite (s0_key _ _ B) by lia. apply (s0_key _ _ A). exact Hi.
  - eapply shrunk_trans; [apply A|apply B].
  - pose proof (s0_next _ _ A). pose proof (s0_next _ _ B). lia.
Qed.

Lemma shape0_of_ahs_eq s s' :
  p_ahs s' = p_ahs s -> length (p_objs s) <= length (p_objs s') ->
  (forall i, i < length (p_objs s) -> a_key (get_obj s' i) = a_key (get_obj s i)) ->
  shrunk (p_runs s) (p_runs s') -> p_next s <= p_next s' -> shape0 s s'.
Proof.
  intros E L K R N. constructor; try assumption; try (rewrite E; reflexivity); intros j; unfold get_ah; rewrite E; reflexivity.
Qed.

Lemma shape0_of_put s s' a hnew :
  p_ahs s' = p_ahs (put_ah_h s a hnew) -> length (p_objs s) <= length (p_objs s') ->
  (forall i, i < length (p_objs s) -> a_key (get_obj s' i) = a_key (get_obj s i)) ->
  shrunk (p_runs s) (p_runs s') -> p_next s <= p_next s' -> shape0 s s'.
Proof.
  intros E L K R N. destruct (put_view s s' a hnew E) as (V1 & V2 & V3 & _). constructor; assumption.
Qed.

Lemma shape0_mild s s' : mild s s' -> shrunk (p_runs s) (p_runs s') -> shape0 s s'.
Proof. intros M R. apply shape0_of_ahs_eq; try apply M. exact R. Qed.

Lemma shrunk_of_eq {A} (l l' : list (N * A)) : l' = l -> shrunk l l'.
Proof. intros ->. apply shrunk_refl. Qed.

Lemma shape0_calm s s' a hnew : p_ahs s' = p_ahs (put_ah_h s a hnew) -> calm s s' -> shape0 s s'.
Proof.
  intros E C. eapply shape0_of_put; [exact E| | | |apply C].
  - rewrite (c_len _ _ C). lia.
  - intros i _. apply (c_obj _ _ C).
  - apply shrunk_of_eq. apply C.
Qed.

Lemma shape0_tick s a ty : shape0 s (fst (harvest_by_type s a ty)).
Proof.
  pose proof (harvest_by_type_flow s a ty) as T. destruct (tf_ahs _ _ _ _ T) as (hnew & E & _).
  eapply shape0_calm; [exact E|apply T].
Qed.

Lemma shape0_txn s run x : shape0 s (fst (txn_data s run x)).
Proof.
  pose proof (txn_data_flow s run x) as T. destruct (lookupN run (p_runs s)) as [a|]; [|rewrite T; apply shape0_refl].
  cbn zeta in T. destruct T as (_ & (hnew & E & _) & _ & R & _ & N & L & K & _).
  eapply shape0_of_put; [exact E|lia|intros i _; apply K|apply shrunk_of_eq; exact R|lia].
Qed.

Lemma shape0_error s q f : shape0 s (fst (harvest_error s q f)).
Proof.
  pose proof (harvest_error_flow s q f) as T. destruct (lookupN (rq_run q) (p_runs s)) as [a|].
  - destruct T as [(hnew & _ & _ & E & _) _ _ R L K N _ _ _ _].
    eapply shape0_of_put; [exact E|lia|intros i _; apply K| |exact N].
    destruct R as [R|R]; rewrite R; [apply shrunk_refl|apply shrunk_rem; apply shrunk_refl].
  - rewrite T. cbn [fst]. apply shape0_of_ahs_eq; try reflexivity. apply shrunk_refl.
Qed.

Lemma shape0_group_done s gid : shape0 s (fst (group_done s gid)).
Proof.
  destruct (group_done_flow s gid) as (u & _ & _ & _ & _ & E & C & _).
  apply shape0_of_ahs_eq; [exact E|rewrite (c_len _ _ C); lia|intros i _; apply (c_obj _ _ C)|apply shrunk_of_eq; apply C|apply C].
Qed.

Lemma shape0_reply s n o : shape0 s (fst (reply s n o)).
Proof.
  unfold reply. destruct (nth_error (p_reqs s) n) as [q|]; [|apply shape0_refl].
  set (s0 := add_usage (with_reqs s (remove_nth n (p_reqs s)))).
  assert (S0 : shape0 s s0) by (apply shape0_of_ahs_eq; try reflexivity; apply shrunk_refl).
  assert (S1 : shape0 s (fst (match o with OOk => (ghost_ack s0 (tags (rq_items q)), []) | OFail f => harvest_error s0 q f end))).
  { destruct o as [|f]; cbn [fst].
    - eapply shape0_trans; [exact S0|]. apply shape0_of_ahs_eq; try reflexivity. apply shrunk_refl.
    - eapply shape0_trans; [exact S0|apply shape0_error]. }
  destruct (match o with OOk => (ghost_ack s0 (tags (rq_items q)), []) | OFail f => harvest_error s0 q f end) as [s1 o1].
  cbn [fst] in S1. destruct (rq_kind q); cbn [fst]; try exact S1.
  pose proof (shape0_group_done s1 (rq_group q)) as G. destruct (group_done s1 (rq_group q)) as [s2 o2]. cbn [fst] in *.
  eapply shape0_trans; eassumption.
Qed.

Lemma shape0_flush_run outs acc ra : shape0 (fst acc) (fst (flush_run outs acc ra)).
Proof.
  destruct acc as [s o]. cbn [fst].
  destruct (flush_run_flow outs s o ra) as [(_ & E & _)|[(_ & _ & _ & E)|(_ & _ & qs & _ & F)]].
  - cbn zeta in E. rewrite E. apply shape0_refl.
  - cbn zeta in E. rewrite E. apply shape0_of_ahs_eq; try reflexivity. cbn [p_runs with_apps shutdown_run with_runs].
    apply shrunk_rem. apply shrunk_refl.
  - eapply shape0_of_put; [apply (ff_ahs _ _ _ _ _ F)|rewrite (ff_len _ _ _ _ _ F); lia|intros i _; apply (ff_obj _ _ _ _ _ F)|
                           apply shrunk_of_eq; apply (ff_runs _ _ _ _ _ F)|apply (ff_next _ _ _ _ _ F)].
Qed.

Lemma shape0_clean_exit s outs : shape0 s (fst (clean_exit s outs)).
Proof.
  unfold clean_exit.
  assert (G : forall l acc, shape0 (fst acc) (fst (fold_left (flush_run outs) l acc))).
  { induction l as [|ra r IH]; intros acc; cbn [fold_left]; [apply shape0_refl|].
    eapply shape0_trans; [apply shape0_flush_run|apply IH]. }
  specialize (G (p_runs s) (s, [])). destruct (fold_left (flush_run outs) (p_runs s) (s, [])) as [s1 o]. cbn [fst] in *.
  eapply shape0_trans; [exact G|]. apply shape0_of_ahs_eq; try reflexivity. apply shrunk_refl.
Qed.

(* every step either keeps the tables' shape or registers one new run *)
Definition shape (s s' : proc) : Prop :=
  shape0 s s' \/ exists key r, connected_as s s' key r.

Lemma step_shape s o : shape s (fst (step s o)).
Proof.
  unfold step. destruct (p_quit s); [left; apply shape0_refl|].
  destruct o as [key dt id|run t|n po|n co|ah ty|n oc|c oc|dt|outs].
  - left. destruct (app_info_flow s key dt id) as (M & R & _). apply shape0_mild; [exact M|apply shrunk_of_eq; exact R].
  - left. apply shape0_txn.
  - left. destruct (pre_reply_flow s n po) as (M & R & _). apply shape0_mild; [exact M|apply shrunk_of_eq; exact R].
  - destruct (conn_reply_flow s n co) as (_ & [[M R]|(c & host & r & _ & _ & _ & C)]).
    + left. apply shape0_mild; [exact M|apply shrunk_of_eq; exact R].
    + right. exists (ca_key c), r. exact C.
  - left. unfold tick. destruct (Nat.leb (length (p_ahs s)) ah); [apply shape0_refl|].
    destruct (inactive (get_obj s (ah_app (get_ah s ah))) (p_now s)); [|apply shape0_tick].
    cbn [fst]. apply shape0_of_ahs_eq; try reflexivity. cbn [p_runs with_apps shutdown_run with_runs]. apply shrunk_rem. apply shrunk_refl.
  - left. apply shape0_reply.
  - left. destruct (find_index (req_is c) (p_reqs s) 0); [apply shape0_reply|apply shape0_refl].
  - left. cbn [fst]. apply shape0_of_ahs_eq; try reflexivity. apply shrunk_refl.
  - left. apply shape0_clean_exit.
Qed.

(* ------------------------------------------------------------------ table invariants *)
Record tab_inv (s : proc) : Prop := {
  ti_run : forall r a, lookupN r (p_runs s) = Some a -> ah_run (get_ah s a) = r;
  ti_app : forall a, a < length (p_ahs s) -> ah_app (get_ah s a) < length (p_objs s);
  ti_keys : NoDup (map fst (p_runs s))
}.

Lemma get_ah_app_l s s' x j : p_ahs s' = p_ahs s ++ [x] -> j < length (p_ahs s) -> get_ah s' j = get_ah s j.
Proof. intros E L. unfold get_ah. rewrite E. apply app_nth1. exact L. Qed.
Lemma get_ah_app_r s s' x : p_ahs s' = p_ahs s ++ [x] -> get_ah s' (length (p_ahs s)) = x.
Proof. intros E. unfold get_ah. rewrite E. apply nth_middle. Qed.

Lemma NoDup_keys_setN {A} k (v : A) l : NoDup (map fst l) -> NoDup (map fst (setN k v l)).
Proof.
  intros H. unfold setN. cbn [map fst]. constructor; [|apply NoDup_keys_removeN; exact H].
  intros Hin. apply in_map_iff in Hin. destruct Hin as (x & Ex & Hx). apply in_removeN in Hx. tauto.
Qed.

Lemma shape_tab s s' : life_inv s -> shape s s' -> tab_inv s -> tab_inv s'.
Proof.
  intros LI [S|(key & r & i & La & Ea & Er & _ & _ & _ & Lo & Ko & _)] [R A K].
  - constructor.
    + intros r a L. rewrite (s0_run _ _ S). apply R. eapply shrunk_lookup; [apply S|exact L].
    + intros a La. rewrite (s0_len _ _ S) in La. rewrite (s0_app _ _ S). specialize (A a La). pose proof (s0_olen _ _ S). lia.
    + eapply shrunk_NoDup; [apply S|exact K].
  - pose proof (li_runs s LI) as V. constructor.
    + intros r' a L. rewrite Er in L. apply lookupN_setN in L. destruct L as [[-> ->]|L].
      * rewrite (get_ah_app_r s s' _ Ea). reflexivity.
      * rewrite (get_ah_app_l s s' _ a Ea (V _ _ L)). apply R. exact L.
    + intros a Hl. rewrite Ea, app_length in Hl. cbn [length] in Hl. rewrite Lo.
      destruct (Nat.eq_dec a (length (p_ahs s))) as [->|N].
      * rewrite (get_ah_app_r s s' _ Ea). cbn [ah_app]. exact (li_apps s LI key i La).
      * rewrite (get_ah_app_l s s' _ a Ea) by lia. apply A. lia.
    + rewrite Er. apply NoDup_keys_setN. exact K.
Qed.

Lemma tab_inv_init : tab_inv init.
Proof. constructor; cbn; [intros; discriminate|intros; lia|constructor]. Qed.

Lemma run_from_tab ops : forall s, life_inv s -> tab_inv s -> tab_inv (fst (run_from s ops)).
Proof.
  induction ops as [|o r IH]; intros s L T; cbn [run_from]; [exact T|].
  pose proof (step_shape s o) as Sh. pose proof (step_life s o L) as [L1 _].
  destruct (step s o) as [s1 out1]. cbn [fst] in *.
  specialize (IH s1 L1 (shape_tab s s1 L Sh T)). destruct (run_from s1 r) as [s2 outs]. exact IH.
Qed.

Theorem tab_inv_reachable ops : tab_inv (fst (run ops)).
Proof. apply run_from_tab; [apply life_inv_init|apply tab_inv_init]. Qed.

(* histories: splitting a run *)
Lemma run_from_app a : forall s b,
  run_from s (a ++ b) =
  (fst (run_from (fst (run_from s a)) b), snd (run_from s a) ++ snd (run_from (fst (run_from s a)) b)).
Proof.
  induction a as [|o r IH]; intros s b; cbn [app run_from].
  - cbn [fst snd app]. destruct (run_from s b); reflexivity.
  - destruct (step s o) as [s1 out1]. rewrite IH. destruct (run_from s1 r) as [s2 outs]. cbn [fst snd app]. reflexivity.
Qed.

Lemma run_snoc ops o :
  fst (run (ops ++ [o])) = fst (step (fst (run ops)) o) /\
  snd (run (ops ++ [o])) = snd (run ops) ++ [snd (step (fst (run ops)) o)].
Proof.
  unfold run. rewrite run_from_app. cbn [fst snd run_from]. destruct (step (fst (run_from init ops)) o). split; reflexivity.
Qed.

Lemma merge_case_sub h c q h1 refused given_up :
  merge_case h c q h1 refused given_up ->
  forall c' t, In t (tags (h_bag h1 c')) -> In t (tags (h_bag h c')) \/ (c' = c /\ In t (tags (rq_items q))).
Proof.
  intros M c' t Ht. destruct M as [|h1 K B F O|h1 Ec L B F O|h1 refused Ev L B F O].
  - left. exact Ht.
  - left. rewrite B in Ht. exact Ht.
  - destruct (cat_eq_dec c' CMetrics) as [->|N].
    + rewrite B, tags_app in Ht. apply in_app_or in Ht. destruct Ht as [H|H]; [left; exact H|right; split; [symmetry; exact Ec|exact H]].
    + left. destruct (O c' N) as [E _]. rewrite E in Ht. exact Ht.
  - destruct (cat_eq_dec c' c) as [->|N].
    + destruct (B t Ht) as [H|H]; [left; exact H|right; split; [reflexivity|exact H]].
    + left. destruct (O c' N) as [E _]. rewrite E in Ht. exact Ht.
Qed.

Lemma hb_ahs_eq s s' a c : p_ahs s' = p_ahs s -> hb s' a c = hb s a c.
Proof. intros E. unfold hb, get_ah. rewrite E. reflexivity. Qed.
Lemma hf_ahs_eq s s' a c : p_ahs s' = p_ahs s -> hf s' a c = hf s a c.
Proof. intros E. unfold hf, get_ah. rewrite E. reflexivity. Qed.

Lemma shape0_tab_inv s s' : shape0 s s' -> tab_inv s -> tab_inv s'.
Proof.
  intros S [R A K]. constructor.
  - intros r a L. rewrite (s0_run _ _ S). apply R. eapply shrunk_lookup; [apply S|exact L].
  - intros a La. rewrite (s0_len _ _ S) in La. rewrite (s0_app _ _ S). specialize (A a La). pose proof (s0_olen _ _ S). lia.
  - eapply shrunk_NoDup; [apply S|exact K].
Qed.
