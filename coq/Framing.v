(* Framing.v -- model of daemon/internal/newrelic/listener.go: io.ReadFull over a chunked
   transport, isLegacyAgent, ReadMessage, MessageWriter.Write and the conn.Serve loop.
   Definitions only; proofs are in FramingProofs.v.

   Bytes are N (each < 256 on the wire; the model never needs the bound except where stated).
   A transport is a list of chunks: one chunk = what one Read call can at most return.  A Read
   with a buffer shorter than the current chunk takes a prefix and leaves the remainder as the
   current chunk; an EMPTY chunk is a Read returning (0, nil), on which io.ReadAtLeast simply
   loops; after the last chunk every Read returns (0, io.EOF). *)
From Coq Require Import NArith List Bool.
Import ListNotations.
Open Scope N_scope.

Definition bytes := list N.
Definition stream := list (list N).

(* ---- N-indexed list helpers (never go through a data-sized nat) ---- *)
Fixpoint lenN (l : bytes) : N := match l with [] => 0 | _ :: r => N.succ (lenN r) end.
Fixpoint takeN (n : N) (l : bytes) : bytes :=
  match l with [] => [] | x :: r => if n =? 0 then [] else x :: takeN (N.pred n) r end.
Fixpoint dropN (n : N) (l : bytes) : bytes :=
  match l with [] => [] | x :: r => if n =? 0 then l else dropN (N.pred n) r end.

(* ---- constants of listener.go ---- *)
Definition max_message_size : N := 2097152.   (* maxMessageSize = 2 << 20 *)
Definition msg_header_size : N := 8.          (* msgHeaderSize *)

(* ---- binary.LittleEndian ---- *)
(* PutUint32(b, uint32(v)): the conversion to uint32 truncates, as the four mod 256 do *)
Definition le32 (v : N) : bytes :=
  [v mod 256; (v / 256) mod 256; (v / 65536) mod 256; (v / 16777216) mod 256].
(* Uint32(b) on (at least) four bytes *)
Definition le32_dec (b : bytes) : N :=
  match b with
  | b0 :: b1 :: b2 :: b3 :: _ => b0 + 256 * b1 + 65536 * b2 + 16777216 * b3
  | _ => 0
  end.

(* ---- wire format ---- *)
Definition msg := (N * bytes)%type.            (* RawMessage{Type, Bytes} *)
Definition header (len ty : N) : bytes := le32 len ++ le32 ty.
Definition frame (m : msg) : bytes := header (lenN (snd m)) (fst m) ++ snd m.
Definition encode (ms : list msg) : bytes := concat (map frame ms).

(* ---- io.ReadFull(r, buf) with len(buf) = need ----
   ReadAtLeast: for n < min && err == nil { nn, err = r.Read(buf[n:]); n += nn }
                if n >= min { err = nil } else if n > 0 && err == EOF { err = ErrUnexpectedEOF } *)
Inductive rf_result :=
| RfOk (data : bytes) (rest : stream)
| RfEOF
| RfUnexpectedEOF.

(* need > 0; got = (n > 0) so far *)
Fixpoint read_full_aux (need : N) (got : bool) (s : stream) : rf_result :=
  match s with
  | [] => if got then RfUnexpectedEOF else RfEOF
  | c :: rest =>
      let l := lenN c in
      if l <? need then
        match read_full_aux (need - l) (got || (0 <? l)) rest with
        | RfOk d r => RfOk (c ++ d) r
        | e => e
        end
      else RfOk (takeN need c) (dropN need c :: rest)
  end.

Definition read_full (need : N) (s : stream) : rf_result :=
  if need =? 0 then RfOk [] s            (* the loop body never runs: no Read at all *)
  else read_full_aux need false s.

(* ---- isLegacyAgent ---- *)
Definition is_digit (b : N) : bool := (48 <=? b) && (b <=? 57).
Definition is_legacy_agent (p : bytes) : bool :=
  match p with
  | p0 :: p1 :: p2 :: p3 :: p4 :: p5 :: _ =>
      if negb (is_digit p0) then false
      else if negb (p1 =? 32) then false
      else if negb (is_digit p2) then false
      else if negb (p3 =? 32) then false
      else if negb (p4 =? 48) then false
      else if negb (p5 =? 10) then false
      else true
  | _ => false                           (* len(p) < 6 *)
  end.

(* ---- ReadMessage ---- *)
Inductive rm_result :=
| RmOk (ty : N) (body : bytes) (rest : stream)
| RmEOF                                  (* io.EOF, returned unwrapped *)
| RmErrLegacy                            (* errLegacyAgent *)
| RmErrTooLarge (announced : N)          (* "maximum message size exceeded" *)
| RmErrTruncatedHeader                   (* "unable to read header" *)
| RmErrTruncatedBody.                    (* "unable to read full message" (EOF or ErrUnexpectedEOF) *)

(* second component: sizes passed to make([]byte, n) during this call *)
Definition read_message (s : stream) : rm_result * list N :=
  match read_full msg_header_size s with
  | RfEOF => (RmEOF, [])
  | RfUnexpectedEOF => (RmErrTruncatedHeader, [])
  | RfOk h rest =>
      if is_legacy_agent h then (RmErrLegacy, [])
      else
        let ty := le32_dec (dropN 4 h) in
        let size := le32_dec h in
        if max_message_size <? size then (RmErrTooLarge size, [])
        else
          match read_full size rest with
          | RfOk b rest' => (RmOk ty b rest', [size])
          | _ => (RmErrTruncatedBody, [size])
          end
  end.

(* ---- MessageWriter.Write with mw.Type = ty: header, then the body when non-empty ---- *)
Definition write_message (ty : N) (p : bytes) : bytes := header (lenN p) ty ++ p.

(* the fixed answer to a legacy agent: '5' ' ' '0' ' ' '0' '\n' 0 0 0 0 *)
Definition legacy_reply : bytes := [53; 32; 48; 32; 48; 10; 0; 0; 0; 0].

(* ---- conn.Serve ---- *)
Definition handler := msg -> option bytes.   (* HandleMessage: nil reply = None; the error only logs *)

Inductive end_reason :=
| EndEOF | EndLegacy | EndTooLarge (announced : N) | EndTruncatedHeader | EndTruncatedBody
| EndOutOfFuel.                              (* not a behaviour of the code: the model ran out of fuel *)

Record serve_out := mk_out {
  delivered : list msg;      (* messages handed to HandleMessage, in order *)
  written : bytes;           (* bytes written back on the connection, in order *)
  allocs : list N;           (* sizes passed to make, in order *)
  ended : end_reason
}.

(* one unit of fuel per loop iteration; every iteration but the last consumes >= 8 bytes *)
Fixpoint serve (fuel : nat) (h : handler) (s : stream) : serve_out :=
  match fuel with
  | O => mk_out [] [] [] EndOutOfFuel
  | S f =>
      match read_message s with
      | (RmOk ty b rest, al) =>
          let m := (ty, b) in
          let w := match h m with Some r => write_message ty r | None => [] end in
          let o := serve f h rest in
          mk_out (m :: delivered o) (w ++ written o) (al ++ allocs o) (ended o)
      | (RmEOF, al) => mk_out [] [] al EndEOF
      | (RmErrLegacy, al) => mk_out [] legacy_reply al EndLegacy
      | (RmErrTooLarge n, al) => mk_out [] [] al (EndTooLarge n)
      | (RmErrTruncatedHeader, al) => mk_out [] [] al EndTruncatedHeader
      | (RmErrTruncatedBody, al) => mk_out [] [] al EndTruncatedBody
      end
  end.

(* ---- the same reader over an unfragmented byte string (reference semantics) ---- *)
Inductive rff_result := RffOk (data rest : bytes) | RffEOF | RffUnexpectedEOF.
Definition read_full_flat (need : N) (b : bytes) : rff_result :=
  if need =? 0 then RffOk [] b
  else if lenN b <? need then (match b with [] => RffEOF | _ => RffUnexpectedEOF end)
  else RffOk (takeN need b) (dropN need b).

Inductive rmf_result :=
| RmfOk (ty : N) (body rest : bytes) | RmfEOF | RmfErrLegacy | RmfErrTooLarge (announced : N)
| RmfErrTruncatedHeader | RmfErrTruncatedBody.

Definition read_message_flat (b : bytes) : rmf_result * list N :=
  match read_full_flat msg_header_size b with
  | RffEOF => (RmfEOF, [])
  | RffUnexpectedEOF => (RmfErrTruncatedHeader, [])
  | RffOk h rest =>
      if is_legacy_agent h then (RmfErrLegacy, [])
      else
        let ty := le32_dec (dropN 4 h) in
        let size := le32_dec h in
        if max_message_size <? size then (RmfErrTooLarge size, [])
        else
          match read_full_flat size rest with
          | RffOk d rest' => (RmfOk ty d rest', [size])
          | _ => (RmfErrTruncatedBody, [size])
          end
  end.

Fixpoint serve_flat (fuel : nat) (h : handler) (b : bytes) : serve_out :=
  match fuel with
  | O => mk_out [] [] [] EndOutOfFuel
  | S f =>
      match read_message_flat b with
      | (RmfOk ty d rest, al) =>
          let m := (ty, d) in
          let w := match h m with Some r => write_message ty r | None => [] end in
          let o := serve_flat f h rest in
          mk_out (m :: delivered o) (w ++ written o) (al ++ allocs o) (ended o)
      | (RmfEOF, al) => mk_out [] [] al EndEOF
      | (RmfErrLegacy, al) => mk_out [] legacy_reply al EndLegacy
      | (RmfErrTooLarge n, al) => mk_out [] [] al (EndTooLarge n)
      | (RmfErrTruncatedHeader, al) => mk_out [] [] al EndTruncatedHeader
      | (RmfErrTruncatedBody, al) => mk_out [] [] al EndTruncatedBody
      end
  end.

(* ---- chunkings ---- *)
(* cs is a chunking of b: any list of chunks, empty chunks allowed, whose concatenation is b *)
Definition chunking (cs : stream) (b : bytes) : Prop := concat cs = b.

(* cut b into chunks of the given sizes (0 allowed); what is left after the last size is one more chunk *)
Fixpoint chunk_by (sizes : list N) (b : bytes) : stream :=
  match sizes with
  | [] => match b with [] => [] | _ => [b] end
  | k :: r => takeN k b :: chunk_by r (dropN k b)
  end.

(* ---- what the property says about valid messages and replies ---- *)
Definition valid_msg (m : msg) : Prop := fst m < 4294967296 /\ lenN (snd m) <= 2097152.
Definition valid_msgb (m : msg) : bool := (fst m <? 4294967296) && (lenN (snd m) <=? 2097152).

(* the bytes the daemon must write back for a list of delivered messages *)
Definition replies (h : handler) (ms : list msg) : bytes :=
  concat (map (fun m => match h m with
                        | Some r => le32 (lenN r) ++ le32 (fst m) ++ r
                        | None => []
                        end) ms).

(* ---- inputs the property speaks about: complete valid messages, then an optional tail ---- *)
Inductive tail :=
| TNone                                   (* clean end of stream *)
| TBadHeader (hdr extra : bytes)          (* an 8-byte header that must end the connection, then anything *)
| TPartial (part : bytes).                (* a proper prefix of one more valid frame *)

Definition tail_bytes (t : tail) : bytes :=
  match t with TNone => [] | TBadHeader h e => h ++ e | TPartial p => p end.

Definition tail_ok (t : tail) : Prop :=
  match t with
  | TNone => True
  | TBadHeader h _ => lenN h = 8 /\ (is_legacy_agent h = true \/ 2097152 < le32_dec h)
  | TPartial p => exists m q, valid_msg m /\ q <> [] /\ p ++ q = frame m
  end.

(* what the loop does when it meets the tail *)
Definition tail_out (t : tail) : serve_out :=
  match t with
  | TNone => mk_out [] [] [] EndEOF
  | TBadHeader h _ =>
      if is_legacy_agent h then mk_out [] legacy_reply [] EndLegacy
      else mk_out [] [] [] (EndTooLarge (le32_dec h))
  | TPartial p =>
      if lenN p =? 0 then mk_out [] [] [] EndEOF
      else if lenN p <? 8 then mk_out [] [] [] EndTruncatedHeader
      else mk_out [] [] [le32_dec p] EndTruncatedBody
  end.

(* closed form of the whole run (FramingProofs.serve_predict: serve = predict on every chunking) *)
Definition predict (h : handler) (ms : list msg) (t : tail) : serve_out :=
  let o := tail_out t in
  mk_out ms (replies h ms ++ written o) (map (fun m => lenN (snd m)) ms ++ allocs o) (ended o).

(* ---- the same closed form on descriptors (type, body length), for bodies too large to spell out ---- *)
Definition desc := (N * N)%type.
Definition desc_of (m : msg) : desc := (fst m, lenN (snd m)).
Definition dhandler := desc -> option bytes.
Inductive tail_d := DNone | DBad (hdr : bytes) | DPartial (first8 : bytes) (len : N).
Definition desc_tail (t : tail) : tail_d :=
  match t with TNone => DNone | TBadHeader h _ => DBad h | TPartial p => DPartial (takeN 8 p) (lenN p) end.

(* 0 EOF, 1 legacy, 2 any other error, 3 model out of fuel *)
Definition end_class (e : end_reason) : N :=
  match e with EndEOF => 0 | EndLegacy => 1 | EndOutOfFuel => 3 | _ => 2 end.

Definition allocs_bounded (o : serve_out) : bool := forallb (fun a => a <=? 2097152) (allocs o).

Definition proj_d (o : serve_out) : list desc * bytes * N * bool :=
  (map desc_of (delivered o), written o, end_class (ended o), allocs_bounded o).

Definition replies_d (hd : dhandler) (ds : list desc) : bytes :=
  concat (map (fun d => match hd d with
                        | Some r => le32 (lenN r) ++ le32 (fst d) ++ r
                        | None => []
                        end) ds).

Definition tail_written_d (td : tail_d) : bytes :=
  match td with DBad h => if is_legacy_agent h then legacy_reply else [] | _ => [] end.
Definition tail_class_d (td : tail_d) : N :=
  match td with
  | DNone => 0
  | DBad h => if is_legacy_agent h then 1 else 2
  | DPartial _ len => if len =? 0 then 0 else 2
  end.
Definition tail_alloc_ok_d (td : tail_d) : bool :=
  match td with
  | DPartial f8 len => if len <? 8 then true else le32_dec f8 <=? 2097152
  | _ => true
  end.
Definition predict_d (hd : dhandler) (ds : list desc) (td : tail_d) : list desc * bytes * N * bool :=
  (ds, replies_d hd ds ++ tail_written_d td, tail_class_d td,
   forallb (fun d => snd d <=? 2097152) ds && tail_alloc_ok_d td).

(* ---- handlers used by the correspondence runs: the reply is a function of the message ---- *)
(* mode 0 nil, 1 empty non-nil, 2 echo, 3 fixed bytes, 4 by type mod 5 (4 = echo and a handler error),
   5 by type mod 3 without looking at the body *)
(* bodies and replies built by rule: byte i = (a * i + b) mod 256 *)
Definition fill_step (a b : N) (p : N * bytes) : N * bytes :=
  let i := N.pred (fst p) in (i, ((a * i + b) mod 256) :: snd p).
Definition fill (n a b : N) : bytes := snd (N.iter n (fill_step a b) (n, [])).
Definition pat_a (fixed : bytes) : N := match fixed with a :: _ => a | [] => 1 end.
Definition pat_b (fixed : bytes) : N := match fixed with _ :: b :: _ => b | _ => 0 end.

(* mode 6: the request's TYPE is the reply length asked for; the reply is the pattern (a, b) = first two
   bytes of fixed *)
Definition mk_handler (mode : N) (fixed : bytes) : handler := fun m =>
  if mode =? 0 then None
  else if mode =? 1 then Some []
  else if mode =? 2 then Some (snd m)
  else if mode =? 3 then Some fixed
  else if mode =? 4 then
    match fst m mod 5 with
    | 0 => None | 1 => Some [] | 2 => Some (snd m) | 3 => Some fixed | _ => Some (snd m)
    end
  else if mode =? 6 then Some (fill (fst m) (pat_a fixed) (pat_b fixed))
  else match fst m mod 3 with 0 => None | 1 => Some [] | _ => Some fixed end.
Definition mk_dhandler (mode : N) (fixed : bytes) : dhandler := fun d =>
  if mode =? 0 then None
  else if mode =? 1 then Some []
  else if mode =? 3 then Some fixed
  else if mode =? 6 then Some (fill (fst d) (pat_a fixed) (pat_b fixed))
  else match fst d mod 3 with 0 => None | 1 => Some [] | _ => Some fixed end.

(* ---- replies too large to spell out: the handler seen through the LENGTH of its reply ---- *)
Definition lhandler := desc -> option N.
(* (request type, reply length) of each non-nil reply, in order *)
Definition reply_descs (hl : lhandler) (ds : list desc) : list desc :=
  flat_map (fun d => match hl d with Some n => [(fst d, n)] | None => [] end) ds.
Definition mk_lhandler (mode : N) (fixed_len : N) : lhandler := fun d =>
  if mode =? 0 then None
  else if mode =? 1 then Some 0
  else if mode =? 3 then Some fixed_len
  else if mode =? 6 then Some (fst d)
  else match fst d mod 3 with 0 => None | 1 => Some 0 | _ => Some fixed_len end.
(* delivered descriptors, reply descriptors, bytes after the replies, end class, allocation flag *)
Definition predict_dl (hl : lhandler) (ds : list desc) (td : tail_d)
  : list desc * list desc * bytes * N * bool :=
  (ds, reply_descs hl ds, tail_written_d td, tail_class_d td,
   forallb (fun d => snd d <=? 2097152) ds && tail_alloc_ok_d td).

(* ================= executable monitors (model-independent) =================
   They look only at the test input and at what the implementation was observed to do, and
   restate the property with its own numbers (2 MiB = 2097152, 8-byte little-endian header,
   the legacy pattern "D D 0\n").  Nothing below mentions read_full / read_message / serve. *)

Definition spec_digit (b : N) : bool := (48 <=? b) && (b <=? 57).
Definition spec_legacy (h : bytes) : bool :=
  match h with
  | a :: b :: c :: d :: e :: f :: _ =>
      spec_digit a && (b =? 32) && spec_digit c && (d =? 32) && (e =? 48) && (f =? 10)
  | _ => false
  end.
Definition spec_u32 (b0 b1 b2 b3 : N) : N := ((b3 * 256 + b2) * 256 + b1) * 256 + b0.
Definition spec_announced (h : bytes) : N :=
  match h with b0 :: b1 :: b2 :: b3 :: _ => spec_u32 b0 b1 b2 b3 | _ => 0 end.

Fixpoint bytes_eqb (a b : bytes) : bool :=
  match a, b with
  | [], [] => true
  | x :: a', y :: b' => (x =? y) && bytes_eqb a' b'
  | _, _ => false
  end.
Definition msg_eqb (a b : msg) : bool := (fst a =? fst b) && bytes_eqb (snd a) (snd b).
Fixpoint msgs_eqb (a b : list msg) : bool :=
  match a, b with
  | [], [] => true
  | x :: a', y :: b' => msg_eqb x y && msgs_eqb a' b'
  | _, _ => false
  end.
Fixpoint descs_eqb (a b : list desc) : bool :=
  match a, b with
  | [], [] => true
  | x :: a', y :: b' => (fst x =? fst y) && (snd x =? snd y) && descs_eqb a' b'
  | _, _ => false
  end.

(* exp: per delivered request, its type and the reply the handler gave (None = nil).
   w must be exactly one frame (length, request type, body) per non-nil reply, in order;
   returns what is left of w (parsed, never re-encoded) *)
Fixpoint replies_framedb (exp : list (N * option bytes)) (w : bytes) : option bytes :=
  match exp with
  | [] => Some w
  | (_, None) :: r => replies_framedb r w
  | (ty, Some rep) :: r =>
      match w with
      | l0 :: l1 :: l2 :: l3 :: t0 :: t1 :: t2 :: t3 :: w' =>
          if (spec_u32 l0 l1 l2 l3 =? lenN rep) && (spec_u32 t0 t1 t2 t3 =? ty)
             && (lenN rep <=? lenN w') && bytes_eqb (takeN (lenN rep) w') rep
          then replies_framedb r (dropN (lenN rep) w')
          else None
      | _ => None
      end
  end.

(* what the harness saw besides the delivered messages *)
Record observed := mk_obs {
  o_written : bytes;
  o_closed : bool;
  o_alloc_bounded : bool     (* no allocation of the announced size was seen for a bad header *)
}.

Definition monitor_rest (exp : list (N * option bytes)) (t : tail) (o : observed) : bool :=
  o_closed o                                        (* the connection is ended *)
  && o_alloc_bounded o
  && forallb (fun b => b <? 256) (o_written o)
  && match replies_framedb exp (o_written o) with   (* one frame of the request's type per non-nil reply *)
     | None => false
     | Some rest =>
         match t with
         | TBadHeader hdr _ =>
             if spec_legacy hdr then bytes_eqb rest [53; 32; 48; 32; 48; 10; 0; 0; 0; 0]
             else bytes_eqb rest []
         | _ => bytes_eqb rest []
         end
     end.

(* precondition of the monitor: the input really is of the shape the property speaks about
   (TPartial is a proper prefix by construction of the generator; only its kind matters here) *)
Definition bad_header_ok (t : tail) : bool :=
  match t with
  | TBadHeader hdr _ => (lenN hdr =? 8) && (spec_legacy hdr || (2097152 <? spec_announced hdr))
  | _ => true
  end.
Definition input_ok (ms : list msg) (t : tail) : bool := forallb valid_msgb ms && bad_header_ok t.
Definition input_ok_d (ds : list desc) (t : tail) : bool :=
  forallb (fun d => (fst d <? 4294967296) && (snd d <=? 2097152)) ds && bad_header_ok t.

(* delivered = sent, in order: lossless; nothing partial; nothing after a bad header *)
Definition monitor (h : handler) (ms : list msg) (t : tail) (got : list msg) (o : observed) : bool :=
  msgs_eqb got ms && monitor_rest (map (fun m => (fst m, h m)) ms) t o.

(* the same on descriptors; bodies_ok = the harness compared every delivered body with the sent one *)
Definition monitor_d (hd : dhandler) (ds : list desc) (t : tail) (got : list desc) (bodies_ok : bool)
           (o : observed) : bool :=
  descs_eqb got ds && bodies_ok && monitor_rest (map (fun d => (fst d, hd d)) ds) t o.

(* descriptor form including the replies: frames = (type field, length field) of each frame found in the
   written bytes, replies_ok = the harness compared every reply body with what the handler returned,
   left = the bytes after the last reply frame *)
Definition monitor_dl (hl : lhandler) (ds : list desc) (t : tail) (got : list desc) (bodies_ok : bool)
           (frames : list desc) (replies_ok : bool) (left : bytes) (closed alloc_ok : bool) : bool :=
  descs_eqb got ds && bodies_ok
  && descs_eqb frames (flat_map (fun d => match hl d with Some n => [(fst d, n)] | None => [] end) ds)
  && replies_ok && closed && alloc_ok
  && match t with
     | TBadHeader hdr _ =>
         if spec_legacy hdr then bytes_eqb left [53; 32; 48; 32; 48; 10; 0; 0; 0; 0] else bytes_eqb left []
     | _ => bytes_eqb left []
     end.
