(* ConfigProofs.v -- C19 on the tables read from cmd/daemon/main.go (Gen/Flags_gen.v): the property
   theorems of PropC19.v are proved here from ConfigLexProofs / ConfigFlagProofs. *)
From Coq Require Import NArith ZArith List Bool Lia.
From Verif Require Import ConfigBase Config ConfigSpec ConfigInst ConfigMonitor ConfigLexProofs ConfigFlagProofs.
From Verif.Gen Require Import Flags_gen Unicode_gen.
Import ListNotations.
Open Scope N_scope.

(* ------------------------------------------------------------------ the generated tables *)

Lemma gen_supported_ok : gen_supported = true.
Proof. reflexivity. Qed.

(* the Unicode classes of the toolchain satisfy the facts the lexer theorems need *)
Lemma u_class_facts : class_facts u_space u_letter u_number.
Proof. constructor; vm_compute; reflexivity. Qed.

(* every flag is found under its own name (no duplicates) and has a name the flag package can address *)
Definition flag_table_ok (tbl : list flagdef) : Prop :=
  Forall (fun fd => find_flag tbl (fl_name fd) = Some fd /\ name_ok (fl_name fd) = true) tbl.

Lemma daemon_flags_ok : flag_table_ok daemon_flags.
Proof. unfold flag_table_ok. repeat constructor. Qed.

Lemma legacy_flags_ok : flag_table_ok legacy_flags.
Proof. unfold flag_table_ok. repeat constructor. Qed.

Lemma flag_wf_val tbl fd dd eqf v : flag_table_ok tbl -> In fd tbl -> is_bool_flag fd = false ->
  wf_citem tbl (CVal fd dd eqf v).
Proof.
  intros Hok Hin Hb. unfold flag_table_ok in Hok. rewrite Forall_forall in Hok. destruct (Hok fd Hin) as [H1 H2].
  repeat split; assumption.
Qed.

Lemma flag_wf_bool tbl fd dd ov : flag_table_ok tbl -> In fd tbl -> is_bool_flag fd = true ->
  wf_citem tbl (CBool fd dd ov).
Proof.
  intros Hok Hin Hb. unfold flag_table_ok in Hok. rewrite Forall_forall in Hok. destruct (Hok fd Hin) as [H1 H2].
  repeat split; assumption.
Qed.

(* the configuration file cannot set ConfigFile (`config:"-"`) *)
Definition untagged (f : N) : bool :=
  forallb (fun fd => negb (fd_id fd =? f) || match fd_tag fd with None => true | Some _ => false end) cfg_fields.

Lemma config_file_untagged : untagged F_ConfigFile = true.
Proof. vm_compute. reflexivity. Qed.

Lemma untagged_no_effect f es : untagged f = true ->
  (forall g v, In (g, v) es -> exists fd, In fd cfg_fields /\ fd_id fd = g /\ fd_tag fd <> None) ->
  last_eff f es = None.
Proof.
  intros Hu Hes. apply last_eff_none_notin. intros v Hin. destruct (Hes _ _ Hin) as [fd [Hfd [Hid Htag]]].
  unfold untagged in Hu. rewrite forallb_forall in Hu. specialize (Hu fd Hfd). rewrite Hid, N.eqb_refl in Hu.
  cbn [negb orb] in Hu. destruct (fd_tag fd); [discriminate|]. apply Htag. reflexivity.
Qed.

(* ------------------------------------------------------------------ totality *)

Section Generic.
  Variables (isp isl isn : N -> bool).
  Notation lex_all := (lex_all isp isl isn).
  Notation decode_g := (decode_g isp isl isn).
  Notation flag_effects_g := (flag_effects_g isp isl isn).
  Notation parse_flags_g := (parse_flags_g isp isl isn).
  Notation daemon_parse_g := (daemon_parse_g isp isl isn).
  Notation configure_g := (configure_g isp isl isn).
  Notation file_link_g fs :=
    (file_link isp isl isn LogAlways LogError LogWarning LogInfo LogHealthCheck LogDebug cfg_fields fs).
  Notation cmd_effects_g :=
    (cmd_effects isp isl isn LogAlways LogError LogWarning LogInfo LogHealthCheck LogDebug cfg_fields).
  Notation citem_ok_g :=
    (citem_ok isp isl isn LogAlways LogError LogWarning LogInfo LogHealthCheck LogDebug cfg_fields).

  Theorem lexer_total_all inp :
    exists asg, lex_all inp = (asg, EndOk) \/ exists le, lex_all inp = (asg, EndErr le).
  Proof.
    pose proof (lexer_total isp isl isn inp) as H. destruct (lex_all inp) as [asg e]. exists asg.
    cbn [snd] in H. destruct H as [-> | [le ->]]; [left; reflexivity|right; exists le; reflexivity].
  Qed.

  Lemma assign_err_kind fields asg err : snd (assign_g fields asg) = Some err ->
    (exists k, err = DecValue k) \/ err = DecUnsup.
  Proof.
    unfold assign_g. induction asg as [|[k v] asg IH]; cbn [assign_effects]; [discriminate|].
    destruct (tag_lookup fields k) as [fd|]; [|exact IH].
    destruct (unmarshal_value _ _ _ _ _ _ (fd_kind fd) v) as [x| |]; cbn [snd].
    - destruct (assign_effects _ _ _ _ _ _ fields asg) as [es st]. exact IH.
    - intros H. inversion H. left. exists k. reflexivity.
    - intros H. inversion H. right. reflexivity.
  Qed.

  (* config.ParseString / ParseFile: every input is decoded or rejected; the model has no other outcome *)
  Theorem decode_total fields inp :
    match snd (decode_g fields inp) with DecFuel | DecCrash => False | _ => True end.
  Proof.
    unfold ConfigInst.decode_g, decode_effects. pose proof (lexer_total isp isl isn inp) as H.
    destruct (Config.lex_all isp isl isn inp) as [asg e]. cbn [snd] in H.
    pose proof (assign_err_kind fields asg) as Hk. unfold assign_g in Hk.
    destruct (assign_effects _ _ _ _ _ _ fields asg) as [es [err|]]; cbn [snd] in *.
    - destruct (Hk err eq_refl) as [[k ->] | ->]; exact I.
    - destruct H as [-> | [le ->]]; exact I.
  Qed.

  (* ---------------------------------------------------------------- all syntaxes of the file *)

  Hypothesis CF : class_facts isp isl isn.

  Theorem lexer_wellformed items trail : wf_file isp isl isn items trail = true ->
    lex_all (render_file items trail) = (file_asg items, EndOk).
  Proof. intros H. rewrite lex_all_lexn. apply lex_render_file; assumption. Qed.

  Definition file_effects (fitems : list fitem) : list effect := fst (assign_g cfg_fields (file_asg fitems)).
  Definition file_ok (fitems : list fitem) : Prop := snd (assign_g cfg_fields (file_asg fitems)) = None.

  Lemma decode_wellformed fitems trail : wf_file isp isl isn fitems trail = true -> file_ok fitems ->
    decode_g cfg_fields (render_file fitems trail) = (file_effects fitems, DecOk).
  Proof.
    intros Hwf Hok. unfold ConfigInst.decode_g, decode_effects. rewrite (lexer_wellformed _ _ Hwf).
    unfold file_ok, file_effects, assign_g in *.
    destruct (assign_effects _ _ _ _ _ _ cfg_fields (file_asg fitems)) as [es st]. cbn [fst snd] in *. subst st.
    reflexivity.
  Qed.

  (* --define: the value goes through the same decoder as a configuration file *)
  Theorem define_shim fd s : fl_kind fd = FkDefine ->
    flag_effects_g fd s =
    match decode_g cfg_fields s with
    | (es, DecOk) => (es, None)
    | (es, DecUnsup) => (es, Some FlUnsup)
    | (es, _) => (es, Some (FlBadValue (fl_name fd)))
    end.
  Proof. intros H. unfold ConfigInst.flag_effects_g, flag_effects. rewrite H. reflexivity. Qed.

  Theorem define_wellformed tbl fd dd eqf fitems trail rest :
    flag_table_ok tbl -> In fd tbl -> fl_kind fd = FkDefine ->
    wf_file isp isl isn fitems trail = true -> file_ok fitems ->
    parse_flags_g tbl (render_citem (CVal fd dd eqf (render_file fitems trail)) ++ rest) =
    (file_effects fitems ++ fst (parse_flags_g tbl rest), snd (parse_flags_g tbl rest)).
  Proof.
    intros Htbl Hin Hk Hwf Hok. unfold ConfigInst.parse_flags_g.
    rewrite parse_one by (apply flag_wf_val; [exact Htbl|exact Hin|unfold is_bool_flag; rewrite Hk; reflexivity]).
    cbn [citem_flag citem_arg]. pose proof (define_shim fd (render_file fitems trail) Hk) as Hd.
    unfold ConfigInst.flag_effects_g in Hd. rewrite Hd. rewrite (decode_wellformed _ _ Hwf Hok).
    destruct (parse_flags _ _ _ _ _ _ _ _ _ cfg_fields tbl rest) as [es2 st]. reflexivity.
  Qed.

  (* ---------------------------------------------------------------- precedence, new flags *)

  (* the file named by the last -c of the command line is the rendered one; without -c there is none *)
  Definition cfgfile_given (fs : bytes -> option bytes) (p : bytes) (fitems : list fitem) (trail : bytes) : Prop :=
    if is_nil p then fitems = [] /\ trail = [] else fs p = Some (render_file fitems trail).

  Lemma parse_rendered tbl citems : Forall (wf_citem tbl) citems -> Forall citem_ok_g citems ->
    parse_flags_g tbl (render_cmd citems) = (cmd_effects_g citems, FlOk).
  Proof.
    intros Hwf Hok. unfold ConfigInst.parse_flags_g. rewrite <- (app_nil_r (render_cmd citems)).
    rewrite parse_render by assumption. cbn [parse_flags fst snd]. rewrite app_nil_r. reflexivity.
  Qed.

  Lemma file_link_rendered fs c0 e fitems trail :
    wf_file isp isl isn fitems trail = true -> file_ok fitems ->
    cfgfile_given fs (str_of (resolved e [] c0 F_ConfigFile)) fitems trail ->
    file_link_g fs (str_of (get F_ConfigFile (apply_effects e c0))) (file_effects fitems).
  Proof.
    intros Hwf Hok Hg. assert (Hp : get F_ConfigFile (apply_effects e c0) = resolved e [] c0 F_ConfigFile).
    { rewrite get_apply. unfold resolved. rewrite last_eff_nil. reflexivity. }
    rewrite Hp. unfold cfgfile_given in Hg. unfold file_link.
    destruct (is_nil (str_of (resolved e [] c0 F_ConfigFile))) eqn:En.
    - left. destruct Hg as [-> ->]. split; [|reflexivity].
      destruct (str_of (resolved e [] c0 F_ConfigFile)); [reflexivity|discriminate].
    - right. split; [intros Hx; rewrite Hx in En; discriminate|].
      exists (render_file fitems trail). split; [exact Hg|]. apply decode_wellformed; assumption.
  Qed.

  Theorem precedence_new platform fs citems fitems trail :
    Forall (wf_citem daemon_flags) citems -> Forall citem_ok_g citems ->
    wf_file isp isl isn fitems trail = true -> file_ok fitems ->
    let c0 := init_flagset daemon_flags default_cfg in
    let e := cmd_effects_g citems in
    cfgfile_given fs (str_of (resolved e [] c0 F_ConfigFile)) fitems trail ->
    exists c w,
      configure_g platform fs (render_cmd citems) = Run c false w /\
      (forall s, s <> F_BindAddr -> get s c = resolved e (file_effects fitems) c0 s) /\
      str_of (get F_BindAddr c) =
        listen_of (str_of (resolved e (file_effects fitems) c0 F_BindAddr))
                  (str_of (resolved e (file_effects fitems) c0 F_BindPort)) platform.
  Proof.
    intros Hwf Hok Hfwf Hfok c0 e Hg.
    pose proof (parse_rendered daemon_flags citems Hwf Hok) as Hp.
    pose proof (file_link_rendered fs c0 e fitems trail Hfwf Hfok Hg) as Hl.
    unfold ConfigInst.parse_flags_g in Hp.
    pose proof (daemon_parse_complete isp isl isn _ _ _ _ _ _ cfg_fields F_ConfigFile F_BindPort F_BindAddr platform fs
                  daemon_flags (render_cmd citems) c0 e (file_effects fitems) Hp Hl) as Hd.
    cbn zeta in Hd.
    destruct (resolve_new F_BindPort F_BindAddr platform
                (apply_effects e (apply_effects (file_effects fitems) (apply_effects e c0)))) as [c w] eqn:Er.
    cbn [fst snd] in Hd. exists c, w. split.
    - unfold ConfigInst.configure_g. apply configure_complete_new. exact Hd.
    - destruct (resolve_new_spec _ _ _ _ _ _ Er) as [H1 [H2 _]]. rewrite !three_pass in H2. split; [|exact H2].
      intros s Hs. rewrite H1 by exact Hs. apply three_pass.
  Qed.

  (* ---------------------------------------------------------------- precedence, legacy flags *)

  Theorem precedence_legacy platform fs citems fitems trail :
    Forall (wf_citem legacy_flags) citems -> Forall citem_ok_g citems ->
    wf_file isp isl isn fitems trail = true -> file_ok fitems ->
    snd (daemon_parse_g platform fs daemon_flags (render_cmd citems) (init_flagset daemon_flags default_cfg)) = PError ->
    let c0 := init_flagset legacy_flags default_cfg in
    let e := cmd_effects_g citems in
    cfgfile_given fs (str_of (resolved e [] c0 F_ConfigFile)) fitems trail ->
    exists c,
      configure_g platform fs (render_cmd citems) = Run c true false /\
      (forall s, s <> F_BindAddr -> get s c = resolved e (file_effects fitems) c0 s) /\
      str_of (get F_BindAddr c) =
        listen_of (str_of (resolved e (file_effects fitems) c0 F_BindAddr))
                  (str_of (resolved e (file_effects fitems) c0 F_BindPort)) platform.
  Proof.
    intros Hwf Hok Hfwf Hfok Hnew c0 e Hg.
    pose proof (parse_rendered legacy_flags citems Hwf Hok) as Hp.
    pose proof (file_link_rendered fs c0 e fitems trail Hfwf Hfok Hg) as Hl.
    unfold ConfigInst.parse_flags_g in Hp. unfold ConfigInst.daemon_parse_g in Hnew.
    pose proof (configure_complete_legacy isp isl isn _ _ _ _ _ _ cfg_fields F_ConfigFile F_BindPort F_BindAddr platform fs
                  daemon_flags legacy_flags default_cfg (render_cmd citems) e (file_effects fitems) Hnew Hp Hl) as Hc.
    eexists. split; [unfold ConfigInst.configure_g; exact Hc|].
    destruct (resolve_legacy_spec F_BindPort F_BindAddr platform
                (apply_effects e (apply_effects (file_effects fitems) (apply_effects e c0)))) as [H1 H2].
    rewrite !three_pass in H2. split; [|exact H2].
    intros s Hs. rewrite H1 by exact Hs. apply three_pass.
  Qed.

  (* ---------------------------------------------------------------- any argv, any file: what a run is *)

  Theorem run_spec platform fs args c lg w :
    configure_g platform fs args = Run c lg w ->
    let tbl := if lg then legacy_flags else daemon_flags in
    let c0 := init_flagset tbl default_cfg in
    exists e efile,
      parse_flags_g tbl args = (e, FlOk) /\
      file_link_g fs (str_of (get F_ConfigFile c)) efile /\
      (forall s, s <> F_BindAddr -> get s c = resolved e efile c0 s) /\
      str_of (get F_BindAddr c) =
        listen_of (str_of (resolved e efile c0 F_BindAddr)) (str_of (resolved e efile c0 F_BindPort)) platform.
  Proof.
    intros H. unfold ConfigInst.configure_g in H.
    destruct (configure_spec _ _ _ _ _ _ _ _ _ _ _ _ _ _ _ _ _ _ _ _ _ _ H) as [e [efile [H1 [H2 [H3 [H4 _]]]]]].
    cbn zeta. exists e, efile. split; [exact H1|]. split; [|split; [exact H3|exact H4]].
    (* the file that was read is the one the final ConfigFile names: the file cannot change ConfigFile *)
    assert (Hcf : get F_ConfigFile c = get F_ConfigFile (apply_effects e (init_flagset (if lg then legacy_flags else daemon_flags) default_cfg))).
    { assert (Hne : F_ConfigFile <> F_BindAddr) by discriminate.
      rewrite (H3 _ Hne). unfold resolved. rewrite get_apply.
      destruct (last_eff F_ConfigFile e); [reflexivity|].
      rewrite (untagged_no_effect F_ConfigFile efile config_file_untagged); [reflexivity|].
      intros g v Hin. destruct H2 as [[_ ->] | [_ [content [_ Hd]]]]; [destruct Hin|].
      apply (decode_ids isp isl isn LogAlways LogError LogWarning LogInfo LogHealthCheck LogDebug cfg_fields content g v). rewrite Hd. exact Hin. }
    rewrite Hcf. exact H2.
  Qed.

  (* the listen address of every run, on either path: address, else port, else the platform default *)
  Theorem listen_addr platform fs args c lg w :
    configure_g platform fs args = Run c lg w ->
    exists addr port, str_of (get F_BindAddr c) = listen_of addr port platform /\
      str_of (get F_BindPort c) = port /\
      (addr <> [] -> str_of (get F_BindAddr c) = addr).
  Proof.
    intros H. destruct (run_spec _ _ _ _ _ _ H) as [e [efile [_ [_ [H3 H4]]]]]. cbn zeta in *.
    eexists. eexists. split; [exact H4|]. split.
    - assert (Hne : F_BindPort <> F_BindAddr) by discriminate. rewrite (H3 _ Hne). reflexivity.
    - intros Hne. rewrite H4. unfold listen_of.
      match type of Hne with ?a <> [] => destruct a; [contradiction|reflexivity] end.
  Qed.

  (* ---------------------------------------------------------------- malformed values, unknown keys and flags *)

  (* a returned Config means: the named file (if any) exists and has no syntax error and no malformed value
     for any known key -- such inputs end in os.Exit, never in a run with a silently kept default *)
  Theorem malformed_reported platform fs args c lg w :
    configure_g platform fs args = Run c lg w ->
    str_of (get F_ConfigFile c) <> [] ->
    exists content, fs (str_of (get F_ConfigFile c)) = Some content /\
      snd (lex_all content) = EndOk /\
      forall k v fd, In (k, v) (fst (lex_all content)) -> tag_lookup cfg_fields k = Some fd ->
        exists x, unmarshal_g (fd_kind fd) v = POk x.
  Proof.
    intros H Hp. destruct (run_spec _ _ _ _ _ _ H) as [e [efile [_ [Hl _]]]].
    destruct Hl as [[Hx _] | [_ [content [Hf Hd]]]]; [contradiction|].
    exists content. split; [exact Hf|]. split.
    - unfold decode_effects in Hd. destruct (Config.lex_all isp isl isn content) as [asg en]. cbn [snd].
      pose proof (assign_err_not_ok LogAlways LogError LogWarning LogInfo LogHealthCheck LogDebug cfg_fields asg) as Hn.
      destruct (assign_effects _ _ _ _ _ _ cfg_fields asg) as [es [err|]]; cbn [snd] in Hn.
      + inversion Hd; subst. exfalso. apply Hn. reflexivity.
      + destruct en; inversion Hd. reflexivity.
    - intros k v fd Hin Hk. unfold unmarshal_g.
      destruct (unmarshal_value _ _ _ _ _ _ (fd_kind fd) v) as [x| |] eqn:Eu; [exists x; reflexivity| |];
        exfalso; refine (decode_malformed isp isl isn LogAlways LogError LogWarning LogInfo LogHealthCheck LogDebug cfg_fields content k v fd Hin Hk _ _);
        try (rewrite Hd; reflexivity); intros x Hx; rewrite Hx in Eu; discriminate.
  Qed.

  (* an unknown flag: rejected by the new flag set, and the whole command line exits 1 unless the
     legacy flag set accepts it *)
  Theorem unknown_flag_exits platform fs dd u tl rest :
    name_ok u = true -> find_flag daemon_flags u = None -> find_flag legacy_flags u = None ->
    bytes_eqb u s_help || bytes_eqb u [104] = false ->
    (tl = [] \/ exists v, tl = 61 :: v) ->
    configure_g platform fs ((dashes dd ++ u ++ tl) :: rest) = Exit 1.
  Proof.
    intros Hu Hd Hl Hh Htl. unfold ConfigInst.configure_g. apply configure_both_reject.
    - unfold daemon_parse.
      pose proof (parse_unknown_flag isp isl isn LogAlways LogError LogWarning LogInfo LogHealthCheck LogDebug cfg_fields
                    daemon_flags [] dd u tl rest (Forall_nil _) (Forall_nil _) Hu Hd Htl) as Hp.
      cbn [render_cmd map concat app] in Hp. rewrite Hp. rewrite Hh. reflexivity.
    - pose proof (parse_unknown_flag isp isl isn LogAlways LogError LogWarning LogInfo LogHealthCheck LogDebug cfg_fields
                    legacy_flags [] dd u tl rest (Forall_nil _) (Forall_nil _) Hu Hl Htl) as Hp.
      cbn [render_cmd map concat app] in Hp. rewrite Hp. rewrite Hh. cbn [snd]. discriminate.
  Qed.
End Generic.

(* ------------------------------------------------------------------ the built-in defaults of the two paths *)

Lemma init_daemon_eq :
  init_flagset daemon_flags default_cfg =
  set F_WaitForPort (VInt 3000000000) (set G_printVersion (VBool false) (set G_printVersion (VBool false) default_cfg)).
Proof. reflexivity. Qed.

Lemma init_legacy_eq : init_flagset legacy_flags default_cfg = default_cfg.
Proof. reflexivity. Qed.

(* a legacy command line starts from the same built-in defaults as the new flags (fix 877309a: the 3 s of
   wait-for-port are in defaultCfg, not only in the definition of the new flag) *)
Lemma legacy_default_same s :
  get s (init_flagset legacy_flags default_cfg) = get s (init_flagset daemon_flags default_cfg).
Proof.
  rewrite init_daemon_eq, init_legacy_eq.
  destruct (N.eq_dec s F_WaitForPort) as [->|Hw]; [rewrite get_set_same; reflexivity|].
  rewrite get_set_other by congruence.
  destruct (N.eq_dec s G_printVersion) as [->|Hne].
  - rewrite get_set_same. reflexivity.
  - rewrite !get_set_other by congruence. reflexivity.
Qed.

Lemma resolved_default_same e efile c0 c0' s : get s c0 = get s c0' -> resolved e efile c0 s = resolved e efile c0' s.
Proof. intros H. unfold resolved. destruct (last_eff s e); [reflexivity|]. destruct (last_eff s efile); [reflexivity|exact H]. Qed.

(* a legacy command line resolves every setting as command line over file over THE built-in default (the one
   of the new flags) *)
Theorem precedence_legacy_builtin :
  forall (isp isl isn : N -> bool), class_facts isp isl isn ->
  forall platform fs citems fitems trail,
    Forall (wf_citem legacy_flags) citems ->
    Forall (citem_ok isp isl isn LogAlways LogError LogWarning LogInfo LogHealthCheck LogDebug cfg_fields) citems ->
    wf_file isp isl isn fitems trail = true -> file_ok fitems ->
    snd (daemon_parse_g isp isl isn platform fs daemon_flags (render_cmd citems)
           (init_flagset daemon_flags default_cfg)) = PError ->
    let e := cmd_effects isp isl isn LogAlways LogError LogWarning LogInfo LogHealthCheck LogDebug cfg_fields citems in
    cfgfile_given fs (str_of (resolved e [] (init_flagset legacy_flags default_cfg) F_ConfigFile)) fitems trail ->
    exists c,
      configure_g isp isl isn platform fs (render_cmd citems) = Run c true false /\
      forall s, s <> F_BindAddr ->
        get s c = resolved e (file_effects fitems) (init_flagset daemon_flags default_cfg) s.
Proof.
  intros isp isl isn CF platform fs citems fitems trail Hwf Hok Hfwf Hfok Hnew e Hg.
  destruct (precedence_legacy isp isl isn CF platform fs citems fitems trail Hwf Hok Hfwf Hfok Hnew Hg)
    as [c [Hc [Hs _]]].
  exists c. split; [exact Hc|]. intros s Hs1. rewrite (Hs s Hs1).
  apply resolved_default_same. apply legacy_default_same.
Qed.

Definition fl_l : flagdef := {| fl_name := [108]; fl_target := F_LogFile; fl_kind := FkString; fl_init := None |}.

Lemma fl_l_in : In fl_l legacy_flags.
Proof. unfold legacy_flags. repeat (try (left; reflexivity); right). Qed.

Definition no_files : bytes -> option bytes := fun _ => None.

(* ------------------------------------------------------------------ documented defaults *)

Definition builtin_default (s : N) : value := get s (init_flagset daemon_flags default_cfg).

Definition default_agrees (fd : fielddef) : bool :=
  value_eqb (builtin_default (fd_id fd)) (doc_default (fd_name fd) (zero_of (fd_kind fd))).

(* every built-in default is the documented one (fix b85bb53: utilization.detect_kubernetes) *)
Theorem documented_defaults : forall fd, In fd cfg_fields -> default_agrees fd = true.
Proof.
  assert (H : forallb default_agrees cfg_fields = true) by (vm_compute; reflexivity).
  intros fd Hin. rewrite forallb_forall in H. exact (H fd Hin).
Qed.

(* ------------------------------------------------------------------ the escaped quote *)

Lemma escape_q_no_quote v : ~ In 34 v -> escape_q v = escape v.
Proof.
  unfold escape_q, escape. induction v as [|b v IH]; intros Hn; [reflexivity|]. cbn [flat_map].
  destruct (N.eqb_spec b 34) as [->|Hne]; [exfalso; apply Hn; left; reflexivity|].
  rewrite IH; [reflexivity|]. intros Hx. apply Hn. right. exact Hx.
Qed.

(* key = double-quoted escape_q v, read back as v *)
Definition dq_roundtrip (isp isl isn : N -> bool) (k0 : N) (ks v : bytes) : Prop :=
  lex_all isp isl isn (k0 :: ks ++ 61 :: 34 :: escape_q v ++ [34]) = ([(k0 :: ks, v)], EndOk).

Theorem dquote_roundtrip_partial isp isl isn : class_facts isp isl isn -> forall k0 ks v,
  kw_start isp isl k0 = true -> forallb (kw_char isl isn) ks = true -> ~ In 34 v ->
  dq_roundtrip isp isl isn k0 ks v.
Proof.
  intros CF k0 ks v Hk0 Hks Hv. unfold dq_roundtrip. rewrite escape_q_no_quote by exact Hv.
  pose proof (lexer_wellformed isp isl isn CF
                [FAssign {| fa_lead := []; fa_k0 := k0; fa_ks := ks; fa_ws1 := []; fa_ws2 := [];
                            fa_val := VDouble (escape v) |}] []) as H.
  cbn [render_file map concat render_item render_val fa_lead fa_k0 fa_ks fa_ws1 fa_ws2 fa_val app file_asg flat_map
       item_asg value_of] in H.
  rewrite !app_nil_r in H. rewrite unescape_escape in H. apply H.
  cbn [wf_file wf_item wf_val fa_lead fa_k0 fa_ks fa_ws1 fa_ws2 fa_val forallb ends_eof ends_eof_val andb].
  rewrite Hk0, Hks. cbn [andb].
  assert (Hm : mem 34 (escape v) = false) by (apply mem_false_iff; apply escape_no_quote; exact Hv).
  rewrite Hm. reflexivity.
Qed.

(* witness: the value consisting of one double quote: the string ends at the escaped quote, the value read is
   a backslash and a syntax error follows *)
Theorem dquote_roundtrip_refuted :
  ~ (forall k0 ks v, kw_start u_space u_letter k0 = true -> forallb (kw_char u_letter u_number) ks = true ->
       dq_roundtrip u_space u_letter u_number k0 ks v).
Proof.
  intros H. specialize (H 115 [] [34] eq_refl eq_refl). unfold dq_roundtrip in H. vm_compute in H. discriminate.
Qed.

(* ------------------------------------------------------------------ the monitor means the property *)

Lemma value_eqb_eq a b : value_eqb a b = true -> a = b.
Proof.
  destruct a, b; cbn; intros H; try discriminate.
  - apply bytes_eqb_eq in H. subst. reflexivity.
  - apply Bool.eqb_prop in H. subst. reflexivity.
  - apply Z.eqb_eq in H. subst. reflexivity.
Qed.

Theorem monitor_sound cmd file obs : monitor cmd file obs = true ->
  forall n v, In (n, v) obs ->
    (bytes_eqb n n_BindAddr = true -> v = VStr (expected_listen cmd file)) /\
    (bytes_eqb n n_BindAddr = false -> v = expected cmd file n (zero_like v)).
Proof.
  unfold monitor. intros H n v Hin. rewrite forallb_forall in H. specialize (H _ Hin). unfold field_ok in H.
  cbv beta iota zeta in H. split; intros Hn; rewrite Hn in H; cbv iota in H; apply value_eqb_eq; exact H.
Qed.

(* ------------------------------------------------------------------ the go flag package on a boolean flag
   followed by a separate value: the value is positional, flag parsing stops, the rest is ignored *)

Definition a_foreground : bytes := [45;45;102;111;114;101;103;114;111;117;110;100].   (* --foreground *)
Definition a_false : bytes := [102;97;108;115;101].
Definition a_port : bytes := [45;45;112;111;114;116].                                  (* --port *)
Definition a_9000 : bytes := [57;48;48;48].

Theorem bool_flag_separate_value isp isl isn :
  parse_flags_g isp isl isn daemon_flags [a_foreground; a_false; a_port; a_9000] = ([(F_Foreground, VBool true)], FlOk).
Proof. reflexivity. Qed.

(* ------------------------------------------------------------------ the restricted value syntaxes, on examples *)

Example ex_int_hex : parse_int [48;120;49;70] = Some 31%Z.                 Proof. reflexivity. Qed.
Example ex_int_octal : parse_int [48;49;55] = Some 15%Z.                   Proof. reflexivity. Qed.
Example ex_int_neg : parse_int [45;52;50] = Some (-42)%Z.                  Proof. reflexivity. Qed.
Example ex_int_underscore : parse_int [49;95;48;48;48] = Some 1000%Z.      Proof. reflexivity. Qed.
Example ex_int_bad : parse_int [49;50;120] = None.                         Proof. reflexivity. Qed.
Example ex_int_overflow : parse_int [57;50;50;51;51;55;50;48;51;54;56;53;52;55;55;53;56;48;56] = None.
Proof. reflexivity. Qed.
Example ex_uint_neg : parse_uint [45;49] = None.                           Proof. reflexivity. Qed.
Example ex_bool_on : parse_bool_word [79;78] = Some true.                  Proof. reflexivity. Qed.
Example ex_bool_flag_yes : parse_bool_flag [121;101;115] = None.           Proof. reflexivity. Qed.
Example ex_timeout_bare : timeout_unmarshal [50;53;48] = POk 250000000%Z.  Proof. reflexivity. Qed.
Example ex_timeout_min : timeout_unmarshal [49;48;109] = POk 600000000000%Z. Proof. reflexivity. Qed.
Example ex_timeout_multi : timeout_unmarshal [49;104;51;48;109] = POk 5400000000000%Z. Proof. reflexivity. Qed.
Example ex_timeout_empty : timeout_unmarshal [] = PErr.                    Proof. reflexivity. Qed.
Example ex_duration_nounit : parse_duration [53] = PErr.                   Proof. reflexivity. Qed.
Example ex_duration_fraction : parse_duration [49;46;53;115] = PUnsup.     Proof. reflexivity. Qed.
Example ex_level : parse_axiom_level LogAlways LogError LogWarning LogInfo LogHealthCheck LogDebug
                     [68;101;98;117;103] = POk 5%Z.                        Proof. reflexivity. Qed.
Example ex_level_bad : parse_axiom_level LogAlways LogError LogWarning LogInfo LogHealthCheck LogDebug
                         [108;111;117;100] = PErr.                         Proof. reflexivity. Qed.

(* ------------------------------------------------------------------ non-vacuity: concrete inputs meeting the
   hypotheses of the theorems above *)

Definition the_flag (tbl : list flagdef) (name : bytes) : flagdef :=
  match find_flag tbl name with Some fd => fd | None => fl_l end.

Lemma find_flag_in tbl name fd : find_flag tbl name = Some fd -> In fd tbl.
Proof. unfold find_flag. intros H. apply find_some in H. tauto. Qed.

Definition fl_c : flagdef := the_flag daemon_flags [99].
Definition fl_port : flagdef := the_flag daemon_flags [112;111;114;116].
Definition fl_fg : flagdef := the_flag daemon_flags [102;111;114;101;103;114;111;117;110;100].
Definition fl_define : flagdef := the_flag daemon_flags [100;101;102;105;110;101].

Definition ex_path : bytes := [47;102].     (* /f *)

(* -c /f --port=9 --foreground=false --define "rlimit_files = 0x10" *)
Definition ex_define_items : list fitem :=
  [FAssign {| fa_lead := []; fa_k0 := 114; fa_ks := [108;105;109;105;116;95;102;105;108;101;115]; fa_ws1 := [32];
              fa_ws2 := [32]; fa_val := VRaw 48 [120;49;48] [] None EolEOF |}].
Definition ex_citems : list citem :=
  [CVal fl_c false false ex_path; CVal fl_port true true [57]; CBool fl_fg true (Some a_false);
   CVal fl_define true false (render_file ex_define_items [])].

(* # c
   port = '8'
   loglevel= debug  ; verbose
   pidfile = "a\tb"  (written with the escape)
   unknown.key = 1       (no newline at the end) *)
Definition ex_fitems : list fitem :=
  [FComment [] 35 [32;99] EolNL;
   FAssign {| fa_lead := []; fa_k0 := 112; fa_ks := [111;114;116]; fa_ws1 := [32]; fa_ws2 := [32];
              fa_val := VSingle [56] |};
   FAssign {| fa_lead := [10]; fa_k0 := 108; fa_ks := [111;103;108;101;118;101;108]; fa_ws1 := []; fa_ws2 := [32];
              fa_val := VRaw 100 [101;98;117;103] [32;32] (Some (59, [32;118;101;114;98;111;115;101])) EolNL |};
   FAssign {| fa_lead := []; fa_k0 := 112; fa_ks := [105;100;102;105;108;101]; fa_ws1 := [32]; fa_ws2 := [32];
              fa_val := VDouble [97;92;116;98] |};
   FAssign {| fa_lead := [13;10]; fa_k0 := 117; fa_ks := [110;107;110;111;119;110;46;107;101;121]; fa_ws1 := [32];
              fa_ws2 := [32]; fa_val := VRaw 49 [] [] None EolEOF |}].

Definition ex_fs (p : bytes) : option bytes := if bytes_eqb p ex_path then Some (render_file ex_fitems []) else None.

Example ex_citems_wf : Forall (wf_citem daemon_flags) ex_citems.
Proof.
  repeat constructor.
Qed.

Example ex_citems_ok :
  Forall (citem_ok u_space u_letter u_number LogAlways LogError LogWarning LogInfo LogHealthCheck LogDebug cfg_fields) ex_citems.
Proof. repeat constructor. Qed.

Example ex_file_wf : wf_file u_space u_letter u_number ex_fitems [] = true.
Proof. vm_compute. reflexivity. Qed.

Example ex_file_ok : file_ok ex_fitems.
Proof. vm_compute. reflexivity. Qed.

Example ex_cfgfile :
  cfgfile_given ex_fs
    (str_of (resolved (cmd_effects u_space u_letter u_number LogAlways LogError LogWarning LogInfo LogHealthCheck LogDebug
                         cfg_fields ex_citems) [] (init_flagset daemon_flags default_cfg) F_ConfigFile))
    ex_fitems [].
Proof. vm_compute. reflexivity. Qed.

(* ... and what the theorem then gives: port from the command line, loglevel and pidfile from the file,
   rlimit_files from --define, the listen address from the port *)
Example ex_precedence_new :
  exists c w, configure_u default_listen_linux ex_fs (render_cmd ex_citems) = Run c false w /\
    get F_BindPort c = VStr [57] /\ get F_LogLevel c = VInt 5 /\ get F_Pidfile c = VStr [97;9;98] /\
    get F_MaxFiles c = VInt 16 /\ get F_Foreground c = VBool false /\ get F_AppTimeout c = VInt 600000000000 /\
    str_of (get F_BindAddr c) = [57].
Proof.
  destruct (precedence_new u_space u_letter u_number u_class_facts default_listen_linux ex_fs ex_citems ex_fitems []
              ex_citems_wf ex_citems_ok ex_file_wf ex_file_ok ex_cfgfile) as [c [w [Hc [Hs Ha]]]].
  exists c, w. split; [exact Hc|].
  repeat split; try (rewrite Hs by discriminate; vm_compute; reflexivity). rewrite Ha. vm_compute. reflexivity.
Qed.

Example ex_legacy_hyps :
  Forall (wf_citem legacy_flags) [CVal fl_l false false [120]] /\
  snd (daemon_parse_u default_listen_linux no_files daemon_flags (render_cmd [CVal fl_l false false [120]])
         (init_flagset daemon_flags default_cfg)) = PError.
Proof.
  split; [|vm_compute; reflexivity].
  constructor; [|constructor]. apply flag_wf_val; [exact legacy_flags_ok|exact fl_l_in|reflexivity].
Qed.

Example ex_define_hyps : In fl_define daemon_flags /\ fl_kind fl_define = FkDefine /\
  wf_file u_space u_letter u_number ex_define_items [] = true /\ file_ok ex_define_items.
Proof. repeat split; try (vm_compute; reflexivity). apply (find_flag_in daemon_flags [100;101;102;105;110;101]). reflexivity. Qed.

Example ex_dquote_hyps : kw_start u_space u_letter 115 = true /\ forallb (kw_char u_letter u_number) [46;49;95] = true /\
  ~ In 34 [97;92;98].
Proof. repeat split; try (vm_compute; reflexivity). intros H. cbn in H. intuition discriminate. Qed.

(* a run with a configuration file (hypotheses of run_spec / listen_addr / malformed_reported) *)
Example ex_run_with_file : exists c lg w,
  configure_u default_listen_linux ex_fs (render_cmd ex_citems) = Run c lg w /\ str_of (get F_ConfigFile c) <> [].
Proof.
  destruct ex_precedence_new as [c [w [Hc _]]]. exists c, false, w. split; [exact Hc|].
  vm_compute in Hc. inversion Hc; subst c. vm_compute. discriminate.
Qed.

(* --bogus: unknown to both flag sets *)
Example ex_unknown_flag_hyps :
  let u := [98;111;103;117;115] in
  name_ok u = true /\ find_flag daemon_flags u = None /\ find_flag legacy_flags u = None /\
  bytes_eqb u s_help || bytes_eqb u [104] = false.
Proof. repeat split. Qed.

(* a file with a malformed value for a known key (hypotheses of decode_malformed): rlimit_files = -1 *)
Example ex_malformed_hyps :
  let text := [114;108;105;109;105;116;95;102;105;108;101;115;61;45;49] in
  exists k v fd, In (k, v) (fst (lex_all_u text)) /\ tag_lookup cfg_fields k = Some fd /\
    (forall x, unmarshal_g (fd_kind fd) v <> POk x) /\ snd (decode_u cfg_fields text) = DecValue k.
Proof.
  cbv zeta. eexists. eexists. eexists. split; [vm_compute; left; reflexivity|].
  split; [vm_compute; reflexivity|]. split; [intros x; vm_compute; discriminate|vm_compute; reflexivity].
Qed.

Example ex_monitor_hyps :
  monitor [(n_BindPort, VStr [57])] [(n_LogLevel, VInt 5)]
          [(n_BindPort, VStr [57]); (n_LogLevel, VInt 5); (n_BindAddr, VStr [57]); (n_MaxFiles, VInt 2048)] = true.
Proof. reflexivity. Qed.
