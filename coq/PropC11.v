(* C11 -- shutdown flushes every application and terminates.  Statements only. *)
From Coq Require Import NArith List.
From Verif Require Import Processor ProcInv ProcInv2.
Import ListNotations.

(* The final flush is a total function of the state and of the outcomes of the final requests: for
   every state and every assignment of outcomes it returns (the model has no blocked state), reports
   the exit, and leaves the processor stopped. *)
Theorem C11_terminates : forall s outs,
  p_quit (fst (clean_exit s outs)) = true /\ In OutExited (snd (clean_exit s outs)).
Proof. intros s outs. split; [apply clean_exit_quits|apply clean_exit_exits]. Qed.
Print Assumptions C11_terminates.

(* After the exit nothing happens any more: every later operation leaves the state unchanged and
   produces no output. *)
Theorem C11_exit_is_final : forall ops s, p_quit s = true ->
  fst (run_from s ops) = s /\ Forall (fun o => o = []) (snd (run_from s ops)).
Proof. exact quit_run_from. Qed.
Print Assumptions C11_exit_is_final.

(* Flushing a run (held, application not past its inactivity time-out) empties its harvest: every tag
   it held is in a final request or was an already reported package. *)
Theorem C11_flush_empties : forall outs s o ra,
  snd ra < length (p_ahs s) ->
  inactive (get_obj s (ah_app (get_ah s (snd ra)))) (p_now s) = false ->
  harvest_tags (ah_h (get_ah (fst (flush_run outs (s, o) ra)) (snd ra))) = [].
Proof. exact flush_run_empties. Qed.
Print Assumptions C11_flush_empties.

(* ... and the flush conserves the data: whatever the final requests' outcomes, every tag held before
   is acknowledged or given up afterwards, exactly once (conservation across the exit). *)
Theorem C11_flush_conserves : forall s outs, runs_valid s ->
  conserve s (fst (clean_exit s outs)).
Proof. intros s outs V. exact (proj1 (clean_exit_conserve s outs V)). Qed.
Print Assumptions C11_flush_conserves.
