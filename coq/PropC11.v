(* C11 -- shutdown flushes every application and terminates.  Statements only. *)
From Coq Require Import NArith List.
From Verif Require Import Processor ProcInv ProcInv2.
Import ListNotations.

(* The final flush is a total function of the state and of the outcomes of the final requests: for
   every state and every assignment of outcomes it returns (the model has no blocked state), reports
   the exit, and leaves the processor stopped. *)
Theorem C11_terminates : forall s outs,
  p_quit (fst (clean_exit s outs)) = true /\ In OutExited (snd (clean_exit s outs)).
Proof. intros s outs. split; [apply clean_exit_quits|apply clean_exit_exits]. Qed.
Print Assumptions C11_terminates.

(* After the exit nothing happens any more: every later operation leaves the state unchanged and
   produces no output. *)
Theorem C11_exit_is_final : forall ops s, p_quit s = true ->
  fst (run_from s ops) = s /\ Forall (fun o => o = []) (snd (run_from s ops)).
Proof. exact quit_run_from. Qed.
Print Assumptions C11_exit_is_final.

(* Flushing a held run empties its harvest: every tag it held is in a final request or was an already
   reported package -- also when the application is past its inactivity time-out (fix de635d6; before it the
   statement needed the hypothesis "not inactive", and the code dropped the data of such an application). *)
Theorem C11_flush_empties : forall outs s o ra,
  snd ra < length (p_ahs s) ->
  harvest_tags (ah_h (get_ah (fst (flush_run outs (s, o) ra)) (snd ra))) = [].
Proof. intros outs s o ra H. exact (flush_run_empties outs s o ra H eq_refl). Qed.
Print Assumptions C11_flush_empties.

(* ... and the flush conserves the data: whatever the final requests' outcomes, every tag held before
   is acknowledged or given up afterwards, exactly once (conservation across the exit). *)
Theorem C11_flush_conserves : forall s outs, runs_valid s ->
  conserve s (fst (clean_exit s outs)).
Proof. intros s outs V. exact (proj1 (clean_exit_conserve s outs V)). Qed.
Print Assumptions C11_flush_conserves.

From Verif Require Import ProcInv4 ProcInv7.

(* The final flush is complete: in every reachable state, for EVERY entry (r -> a) of the run table (whether or
   not its application is past the inactivity time-out), the final requests made under run id r
   (`final_for r`: the requests of the flush's output with that run id) are harvest requests and carry
   exactly the data of a's harvest, minus the packages already reported for the application (`seen_part`),
   each unit with its multiplicity -- once, when tags are distinct -- whatever the outcomes of the final
   requests; afterwards the harvest is empty.  (The run table is iterated in list order here; Go iterates
   the map in an unspecified order.  The statement is per run and does not depend on the order.) *)
Theorem C11_flush_complete : forall ops outs r a,
  let s := fst (run ops) in
  lookupN r (p_runs s) = Some a ->
  let mine := final_for r (snd (clean_exit s outs)) in
  (forall q, In q mine -> exists c, rq_kind q = RHarvest c) /\
  (forall t, cnt t (req_tags mine) + cnt t (seen_part s (ah_app (get_ah s a)) (ah_h (get_ah s a))) =
             cnt t (harvest_tags (ah_h (get_ah s a)))) /\
  harvest_tags (ah_h (get_ah (fst (clean_exit s outs)) a)) = [].
Proof. intros ops outs r a s L. exact (flush_complete ops outs r a L eq_refl). Qed.
Print Assumptions C11_flush_complete.
