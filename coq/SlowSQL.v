(* SlowSQL.v -- model of daemon/internal/newrelic/slow_sqls.go: SlowSQL.merge, SlowSQLs.fastest / find /
   Observe.  Count is an int32 and TotalMicros a uint64 in the Go struct; their additions wrap and the
   wrap is written into the model.  Min/MaxMicros are uint64 and only compared.  The five text fields
   (MetricName, Query, TxnName, TxnURL, Params) are modelled by numbers naming the observation they
   came from.  Definitions only; proofs are in SlowSQLProofs.v. *)
From Coq Require Import List ZArith NArith Arith Bool Permutation.
From Verif Require Import Heap TopK.
Import ListNotations.
Open Scope nat_scope.

Record slow := mkSlow {
  s_id : N;                                  (* SQLId uint32 *)
  s_count : Z;                               (* int32 *)
  s_total : Z; s_min : Z; s_max : Z;         (* uint64 *)
  s_metric : N; s_query : N; s_txn : N; s_url : N; s_params : N
}.

Definition wrap_i32 (z : Z) : Z := ((z + 2 ^ 31) mod 2 ^ 32 - 2 ^ 31)%Z.
Definition wrap_u64 (z : Z) : Z := (z mod 2 ^ 64)%Z.

(* func (slow *SlowSQL) merge(other *SlowSQL) *)
Definition merge_slow (a o : slow) : slow :=
  let cnt := wrap_i32 (s_count a + s_count o) in                       (* slow.Count += other.Count *)
  let tot := wrap_u64 (s_total a + s_total o) in                       (* slow.TotalMicros += ... *)
  let mn := if (s_min o <? s_min a)%Z then s_min o else s_min a in
  if (s_max a <? s_max o)%Z                                            (* other.MaxMicros > slow.MaxMicros *)
  then mkSlow (s_id a) cnt tot mn (s_max o)
              (s_metric o) (s_query o) (s_txn o) (s_url o) (s_params o) (* text from the slowest *)
  else mkSlow (s_id a) cnt tot mn (s_max a)
              (s_metric a) (s_query a) (s_txn a) (s_url a) (s_params a).

(* func (slows *SlowSQLs) fastest() (int, bool): the loop, with its `first` flag *)
Fixpoint fastest_loop (l : list slow) (idx : nat) (first : bool) (minIdx : nat) (minOfMax : Z) : nat :=
  match l with
  | [] => minIdx
  | s :: r =>
      if first || (s_max s <? minOfMax)%Z
      then fastest_loop r (S idx) false idx (s_max s)
      else fastest_loop r (S idx) first minIdx minOfMax
  end.
Definition fastest (l : list slow) : option nat :=
  match l with
  | [] => None                                                         (* return 0, false *)
  | _ :: _ => Some (fastest_loop l 0 true 0 0%Z)
  end.

(* func (slows *SlowSQLs) find(id SQLId) *SlowSQL: position of the first entry with that id *)
Fixpoint find_idx (l : list slow) (id : N) (i : nat) : option nat :=
  match l with
  | [] => None
  | s :: r => if (s_id s =? id)%N then Some i else find_idx r id (S i)
  end.

Record slows := mkSlows { sl_cap : nat; sl_items : list slow }.
Definition new_slow_sqls (max : nat) : slows := mkSlows max [].

(* func (slows *SlowSQLs) Observe(slow *SlowSQL) *)
Definition observe (ss : slows) (o : slow) : slows :=
  match find_idx (sl_items ss) (s_id o) 0 with
  | Some k =>
      match nth_error (sl_items ss) k with
      | Some existing => mkSlows (sl_cap ss) (upd (sl_items ss) k (merge_slow existing o))
      | None => ss
      end
  | None =>
      if length (sl_items ss) =? sl_cap ss then
        match fastest (sl_items ss) with
        | Some minIdx =>
            match nth_error (sl_items ss) minIdx with
            | Some f => if (s_max f <? s_max o)%Z
                        then mkSlows (sl_cap ss) (upd (sl_items ss) minIdx o)
                        else ss
            | None => ss
            end
        | None => ss
        end
      else mkSlows (sl_cap ss) (sl_items ss ++ [o])
  end.

Definition run_slow (K : nat) (obs : list slow) : slows := fold_left observe obs (new_slow_sqls K).

Definition ids (l : list slow) : list N := map s_id l.
Definition of_id (id : N) (l : list slow) : list slow := filter (fun x => (s_id x =? id)%N) l.

(* ------------------------------------------------------------------ monitors *)
(* Observed after every Observe: the retained (id, MaxMicros) pairs; at the end the full records.
   Judged from the observations only. *)
Definition im := (N * Z)%type.
Definition im_code (x : im) : Z := (Z.of_N (fst x) * 2 ^ 64 + snd x)%Z.
Definition im_same (a b : list im) : bool := list_eqbZ (sort_desc (map im_code a)) (sort_desc (map im_code b)).
Definition im_has (id : N) (l : list im) : bool := existsb (fun x => (fst x =? id)%N) l.
Fixpoint im_remove (y : im) (l : list im) : list im :=
  match l with
  | [] => []
  | x :: r => if (im_code x =? im_code y)%Z then r else x :: im_remove y r
  end.
Definition min_max (l : list im) : Z :=
  match l with [] => 0%Z | x :: r => fold_left Z.min (map snd r) (snd x) end.

Definition mon_slow_step (K : nat) (before : list im) (o : slow) (after : list im) : bool :=
  let id := s_id o in
  if im_has id before then
    (* already retained: only its maximum may move, to the larger of the two *)
    im_same after (map (fun x => if (fst x =? id)%N then (id, Z.max (snd x) (s_max o)) else x) before)
  else if length before <? K then im_same after ((id, s_max o) :: before)
  else
    match before with
    | [] => match after with [] => true | _ => false end                 (* capacity 0 *)
    | _ =>
        let m := min_max before in
        let replaced := existsb (fun y => (snd y =? m)%Z &&
                                          im_same after ((id, s_max o) :: im_remove y before)) before in
        if (m <? s_max o)%Z then replaced                       (* slower than a retained one: must get in *)
        else if (m =? s_max o)%Z then replaced || im_same after before   (* a tie: either is a top-K *)
        else im_same after before                               (* faster than all retained: left out *)
    end.

Fixpoint mon_slow_steps (K : nat) (before : list im) (obs : list slow) (steps : list (list im)) : bool :=
  match obs, steps with
  | [], [] => true
  | o :: obs', after :: steps' => mon_slow_step K before o after && mon_slow_steps K after obs' steps'
  | _, _ => false
  end.

(* index of the observation that (re-)admitted id for the last time: the last step before which the
   id was not retained and after which it was *)
Fixpoint admission (id : N) (before : list im) (steps : list (list im)) (i : nat) (acc : option nat) : option nat :=
  match steps with
  | [] => acc
  | after :: steps' =>
      let acc' := if negb (im_has id before) && im_has id after then Some i else acc in
      admission id after steps' (S i) acc'
  end.

Definition sumZ (l : list Z) : Z := fold_left Z.add l 0%Z.

(* the retained record of a statement is the merge of its observations since it was admitted:
   counts and totals added (in int32 / uint64), minimum and maximum kept, text of a slowest one *)
Definition mon_slow_record (obs : list slow) (steps : list (list im)) (s : slow) : bool :=
  match admission (s_id s) [] steps 0 None with
  | None => false
  | Some j =>
      let seg := of_id (s_id s) (skipn j obs) in
      match seg with
      | [] => false
      | o0 :: rest =>
          let mx := fold_left Z.max (map s_max rest) (s_max o0) in
          let mn := fold_left Z.min (map s_min rest) (s_min o0) in
          (s_count s =? wrap_i32 (sumZ (map s_count seg)))%Z &&
          (s_total s =? wrap_u64 (sumZ (map s_total seg)))%Z &&
          (s_min s =? mn)%Z && (s_max s =? mx)%Z &&
          existsb (fun o => (s_max o =? mx)%Z && (s_metric o =? s_metric s)%N && (s_query o =? s_query s)%N &&
                            (s_txn o =? s_txn s)%N && (s_url o =? s_url s)%N && (s_params o =? s_params s)%N) seg
      end
  end.

Fixpoint nodupN (l : list N) : list N :=
  match l with
  | [] => []
  | x :: r => if existsb (N.eqb x) r then nodupN r else x :: nodupN r
  end.

(* largest MaxMicros observed for a statement *)
Definition max_of_id (obs : list slow) (id : N) : Z := fold_left Z.max (map s_max (of_id id obs)) 0%Z.

Definition mon_slow (K : nat) (obs : list slow) (steps : list (list im)) (final : list slow) : bool :=
  mon_slow_steps K [] obs steps &&
  im_same (map (fun s => (s_id s, s_max s)) final) (last steps []) &&
  (* the retained statements are K with the largest maximum duration *)
  mon_topk K (map (max_of_id obs) (nodupN (ids obs))) (map s_max final) &&
  forallb (fun s => (s_max s =? max_of_id obs (s_id s))%Z) final &&
  forallb (mon_slow_record obs steps) final.
