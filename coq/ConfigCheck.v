(* ConfigCheck.v -- glue used by the generated build/cases_c19_*.v files: the observed outcomes of the
   Go harness as Coq terms, the comparison model <-> observation (correspondence) and the property monitor
   applied to one case.  Definitions only. *)
From Coq Require Import NArith ZArith List Bool.
From Verif Require Import ConfigBase Config ConfigInst ConfigMonitor.
From Verif.Gen Require Import Flags_gen.
Import ListNotations.
Open Scope N_scope.

(* a byte string written as its length and one big-endian hexadecimal numeral (fast to parse) *)
Definition hexb_step (p : bytes * N) : bytes * N := (N.land (snd p) 255 :: fst p, N.shiftr (snd p) 8).
Definition B (len n : N) : bytes := fst (N.iter len hexb_step ([], n)).

Definition fs_of (m : list (bytes * bytes)) (p : bytes) : option bytes :=
  match find (fun kv => bytes_eqb (fst kv) p) m with Some kv => Some (snd kv) | None => None end.

Definition named := list (bytes * value).      (* Go field name -> value *)

(* what the harness saw: configure() returned a Config / called os.Exit / anything else (panic, hang) *)
Inductive observed := ORun (legacy warning : bool) (vals : named) | OExit (code : N) | OOther.

Definition is_other (k : kind) : bool := match k with KOther => true | _ => false end.

Definition named_of (fields : list fielddef) (c : cfg) : named :=
  map (fun fd => (fd_name fd, get (fd_id fd) c)) (filter (fun fd => negb (is_other (fd_kind fd))) fields).

Definition n_printVersion : bytes := [112;114;105;110;116;86;101;114;115;105;111;110].
Definition named_cfg (c : cfg) : named := named_of cfg_fields c ++ [(n_printVersion, get G_printVersion c)].

Fixpoint nlookup (n : bytes) (l : named) : option value :=
  match l with [] => None | (m, v) :: r => if bytes_eqb m n then Some v else nlookup n r end.

Definition vals_agree (m o : named) : bool :=
  Nat.eqb (length m) (length o) &&
  forallb (fun nv => match nlookup (fst nv) o with Some v => value_eqb (snd nv) v | None => false end) m.

(* ---- configure() cases *)
Definition ccase := (list bytes * list (bytes * bytes) * observed)%type.   (* argv, files, observation *)
(* the same with what the generator intended: monitored?, must be accepted?, command line, file *)
Definition xcase := (ccase * (bool * bool * intended * intended))%type.

Definition corr_configure (platform : bytes) (c : ccase) : bool :=
  let '(args, files, obs) := c in
  match configure_u platform (fs_of files) args, obs with
  | Run cf l w, ORun l' w' vals => Bool.eqb l l' && Bool.eqb w w' && vals_agree (named_cfg cf) vals
  | Exit k, OExit k' => k =? k'
  | _, _ => false
  end.

Definition fl_unsup (s : fstatus) : bool := match s with FlUnsup => true | _ => false end.
Definition dec_unsup (s : dstatus) : bool := match s with DecUnsup => true | _ => false end.

(* a case that leaves the value syntax the model covers (never generated on purpose; skipped if it occurs) *)
Definition case_unsup (c : ccase) : bool :=
  let '(args, files, _) := c in
  fl_unsup (snd (parse_flags_u daemon_flags args)) || fl_unsup (snd (parse_flags_u legacy_flags args))
  || existsb (fun kv => dec_unsup (snd (decode_u cfg_fields (snd kv)))) files.

(* the property on one case: inputs as the generator intended them, and the observation *)
Definition mcase := (bool * intended * intended * observed)%type.   (* must be accepted?, cmdline, file, observation *)

Definition monitor_case (c : mcase) : bool :=
  let '(accept, cmd, file, obs) := c in
  match obs with
  | ORun _ _ vals => accept && monitor cmd file vals
  | OExit code => negb accept && (code =? 1)
  | OOther => false
  end.

Definition monitor_detail (c : mcase) : list bytes :=
  let '(accept, cmd, file, obs) := c in
  match obs with
  | ORun _ _ vals => if accept then bad_fields cmd file vals else [[33]]
  | OExit code => if negb accept && (code =? 1) then [] else [[33]]
  | OOther => [[33]]
  end.

Definition mcase_of (x : xcase) : option mcase :=
  let '((_, _, obs), (monitored, accept, cmd, file)) := x in
  if monitored then Some (accept, cmd, file, obs) else None.

Fixpoint detail_idx (l : list xcase) (i : nat) : list (nat * list bytes) :=
  match l with
  | [] => []
  | x :: r =>
    match mcase_of x with
    | None => detail_idx r (S i)
    | Some c => match monitor_detail c with [] => detail_idx r (S i) | d => (i, d) :: detail_idx r (S i) end
    end
  end.

(* ---- config.ParseString cases: text, whether err == nil, the struct afterwards *)
Definition dcase := (bytes * bool * named)%type.

Definition dec_ok (s : dstatus) : bool := match s with DecOk => true | _ => false end.

Definition corr_decode (fields : list fielddef) (init : cfg) (c : dcase) : bool :=
  let '(text, ok, vals) := c in
  let '(es, st) := decode_u fields text in
  Bool.eqb (dec_ok st) ok && vals_agree (named_of fields (apply_effects es init)) vals.

Definition dcase_unsup (fields : list fielddef) (c : dcase) : bool :=
  let '(text, _, _) := c in dec_unsup (snd (decode_u fields text)).

(* the struct of harness/go/config/zz_verif_c19_test.go and the values it starts from *)
Definition mirror_fields : list fielddef := [
  {| fd_id := 0; fd_name := [83]; fd_kind := KString; fd_tag := Some [115] |};
  {| fd_id := 1; fd_name := [68;111;116]; fd_kind := KString; fd_tag := Some [97;46;98;46;99] |};
  {| fd_id := 2; fd_name := [85;110;105]; fd_kind := KString; fd_tag := Some [99;108;195;169;46;195;159;50] |};
  {| fd_id := 3; fd_name := [66]; fd_kind := KBool; fd_tag := Some [98] |};
  {| fd_id := 4; fd_name := [73]; fd_kind := KInt; fd_tag := Some [105] |};
  {| fd_id := 5; fd_name := [78]; fd_kind := KUint64; fd_tag := Some [110;95;49] |};
  {| fd_id := 6; fd_name := [84]; fd_kind := KTimeout; fd_tag := Some [116] |};
  {| fd_id := 7; fd_name := [68]; fd_kind := KDuration; fd_tag := Some [100] |};
  {| fd_id := 8; fd_name := [76]; fd_kind := KLevel; fd_tag := Some [108] |};
  {| fd_id := 9; fd_name := [78;111;84;97;103]; fd_kind := KString; fd_tag := Some [78;111;84;97;103] |};
  {| fd_id := 10; fd_name := [83;107;105;112]; fd_kind := KString; fd_tag := None |}
].
Definition mirror_init : cfg := [
  (0, VStr [115;48]); (1, VStr []); (2, VStr []); (3, VBool true); (4, VInt 7); (5, VInt 8); (6, VInt 9);
  (7, VInt 10); (8, VInt 3); (9, VStr [110;116]); (10, VStr [115;107])
].
