(* AppKey.v -- a small model of AppInfo.Key() (daemon/internal/newrelic/app.go): the nine fields of AppKey,
   AgentPolicies being the hash of the text produced by getSupportedPoliciesHash (Lasp.hash_preimage).
   C04: two application descriptions denote the same application iff they agree on the identity fields. *)
From Coq Require Import NArith List Bool.
From Verif Require Import Lasp LaspProofs.
Import ListNotations.

Record app_info := {
  ai_license : list N;
  ai_appname : list N;
  ai_redirect : list N;          (* RedirectCollector *)
  ai_high_security : bool;
  ai_language : list N;          (* AgentLanguage *)
  ai_policies : amap;            (* SupportedSecurityPolicies *)
  ai_hostname : list N;
  ai_to_host : list N;           (* TraceObserverHost *)
  ai_to_port : N                 (* TraceObserverPort *)
}.

Record app_key := {
  k_license : list N;
  k_appname : list N;
  k_redirect : list N;
  k_high_security : bool;
  k_language : list N;
  k_policies : list N;           (* AgentPolicies: hex text of the hash *)
  k_hostname : list N;
  k_to_host : list N;
  k_to_port : N
}.

Definition key (sha256hex : list N -> list N) (i : app_info) : app_key :=
  {| k_license := ai_license i; k_appname := ai_appname i; k_redirect := ai_redirect i;
     k_high_security := ai_high_security i; k_language := ai_language i;
     k_policies := policies_hash sha256hex (ai_policies i);
     k_hostname := ai_hostname i; k_to_host := ai_to_host i; k_to_port := ai_to_port i |}.

(* agreement on the identity fields other than the supported policies *)
Definition same_fields (i j : app_info) : Prop :=
  ai_license i = ai_license j /\ ai_appname i = ai_appname j /\ ai_redirect i = ai_redirect j /\
  ai_high_security i = ai_high_security j /\ ai_language i = ai_language j /\ ai_hostname i = ai_hostname j /\
  ai_to_host i = ai_to_host j /\ ai_to_port i = ai_to_port j.

(* For a hash that is injective on texts: the keys are equal iff all fields agree and the texts presented
   to the hash agree (NOT: the sets of supported policies agree, see below) *)
Theorem key_iff_partial sha256hex :
  (forall a b, sha256hex a = sha256hex b -> a = b) ->
  forall i j, key sha256hex i = key sha256hex j <->
              same_fields i j /\ hash_preimage (ai_policies i) = hash_preimage (ai_policies j).
Proof.
  intros Inj i j. unfold key, same_fields, policies_hash. split.
  - intros H. injection H as H1 H2 H3 H4 H5 H6 H7 H8 H9. apply Inj in H6. repeat split; assumption.
  - intros ((H1 & H2 & H3 & H4 & H5 & H7 & H8 & H9) & H6). rewrite H1, H2, H3, H4, H5, H6, H7, H8, H9. reflexivity.
Qed.

(* Known finding c04-policy-hash-concat (re-exported from LaspProofs.policy_hash_not_injective): two
   descriptions that differ in the SET of supported policies ({"ab","c"} versus {"a","bc"}) and agree on
   everything else have the same key, whatever the hash function *)
Definition info_with (ag : amap) : app_info :=
  {| ai_license := [1]; ai_appname := [2]; ai_redirect := [3]; ai_high_security := false; ai_language := [4];
     ai_policies := ag; ai_hostname := [5]; ai_to_host := []; ai_to_port := 0 |}.

Theorem key_not_injective_refuted :
  exists i j, same_fields i j /\
    (exists n, In n (supported_names (ai_policies i)) /\ ~ In n (supported_names (ai_policies j))) /\
    forall sha256hex, key sha256hex i = key sha256hex j.
Proof.
  destruct policy_hash_not_injective as (_ & _ & Hd & _ & Hh).
  exists (info_with ag_ab_c), (info_with ag_a_bc). split; [repeat split|]. split; [exact Hd|].
  intros sha. unfold key, info_with. cbn [ai_policies]. rewrite (Hh sha). reflexivity.
Qed.

(* non-vacuity of key_iff_partial: an injective "hash" (the identity) separates the two directions *)
Example key_iff_nonvacuous :
  key (fun x => x) (info_with [([97], mkA true true)]) <> key (fun x => x) (info_with [([98], mkA true true)]) /\
  key (fun x => x) (info_with ag_ab_c) = key (fun x => x) (info_with ag_a_bc).
Proof. split; [intros H; discriminate H|reflexivity]. Qed.

(* ------------------------------------------------------------------ executable decisions
   [code_same]: what the daemon decides (AppKey equality; the hash is taken to separate different texts).
   [spec_same]: what C04 states -- the identity fields agree and the SETS of supported policies agree.
   The correspondence stage of the C04 check delivers real APP messages to the real processor and compares,
   inside Coq, which descriptions were mapped to one application object with [code_same] (model of the
   code) and with [spec_same] (the property). *)
Definition same_fields_b (i j : app_info) : bool :=
  name_eqb (ai_license i) (ai_license j) && name_eqb (ai_appname i) (ai_appname j) &&
  name_eqb (ai_redirect i) (ai_redirect j) && Bool.eqb (ai_high_security i) (ai_high_security j) &&
  name_eqb (ai_language i) (ai_language j) && name_eqb (ai_hostname i) (ai_hostname j) &&
  name_eqb (ai_to_host i) (ai_to_host j) && N.eqb (ai_to_port i) (ai_to_port j).

Definition code_same (i j : app_info) : bool :=
  same_fields_b i j && name_eqb (hash_preimage (ai_policies i)) (hash_preimage (ai_policies j)).

Definition subset_names (a b : list name) : bool := forallb (fun n => existsb (name_eqb n) b) a.
Definition spec_same (i j : app_info) : bool :=
  same_fields_b i j &&
  subset_names (supported_names (ai_policies i)) (supported_names (ai_policies j)) &&
  subset_names (supported_names (ai_policies j)) (supported_names (ai_policies i)).

Lemma name_eqb_eq a : forall b, name_eqb a b = true <-> a = b.
Proof.
  induction a as [|x a IH]; intros [|y b]; cbn [name_eqb]; try (split; [discriminate|discriminate]); try (split; reflexivity).
  destruct (N.eqb_spec x y) as [E|E].
  - rewrite IH. split; [intros ->; subst; reflexivity|intros H; injection H; auto].
  - split; [discriminate|intros H; injection H; intros; contradiction].
Qed.

Lemma same_fields_b_iff i j : same_fields_b i j = true <-> same_fields i j.
Proof.
  unfold same_fields_b, same_fields. rewrite !andb_true_iff, !name_eqb_eq, Bool.eqb_true_iff, N.eqb_eq. tauto.
Qed.

(* the executable decision is equality of keys (for the identity "hash", i.e. a hash without collisions) *)
Theorem code_same_iff i j : code_same i j = true <-> key (fun x => x) i = key (fun x => x) j.
Proof.
  unfold code_same. rewrite andb_true_iff, same_fields_b_iff, name_eqb_eq.
  symmetry. apply key_iff_partial. intros a b H; exact H.
Qed.

(* they differ exactly on the known finding *)
Example code_vs_spec :
  code_same (info_with ag_ab_c) (info_with ag_a_bc) = true /\ spec_same (info_with ag_ab_c) (info_with ag_a_bc) = false /\
  code_same (info_with ag_ab_c) (info_with ag_ab_c) = true /\ spec_same (info_with ag_ab_c) (info_with ag_ab_c) = true.
Proof. vm_compute. repeat split. Qed.

(* observations: per case, the descriptions and the class (application object) each was mapped to;
   returns the pairs (i, j) on which the observation differs from [f] *)
Fixpoint number_from {A} (n : nat) (l : list A) : list (nat * A) :=
  match l with [] => [] | x :: r => (n, x) :: number_from (S n) r end.
Definition pair_mismatches (f : app_info -> app_info -> bool) (ds : list (app_info * nat)) : list (nat * nat) :=
  let nd := number_from 0 ds in
  concat (map (fun a => concat (map (fun b =>
     if Nat.ltb (fst a) (fst b) && negb (Bool.eqb (f (fst (snd a)) (fst (snd b))) (Nat.eqb (snd (snd a)) (snd (snd b))))
     then [(fst a, fst b)] else []) nd)) nd).
