(* Schema.v -- C15: the three renderings of the wire schema brought to one form, and the monitors.
   Definitions only.  The tables come from Gen/Schema_gen.v (regenerated from the repository on
   every check): fbs_* from protocol.fbs, go_* from daemon/internal/newrelic/protocol/*.go,
   c_* from axiom/nr_commands_private.h and the agent's cmd_*_transmit.c. *)
From Coq Require Import NArith ZArith String List Bool.
From Verif Require Import SchemaTypes Flatbuf.
From Verif.Gen Require Import Schema_gen SharedLimits_gen.
Import ListNotations.
Open Scope string_scope.
Open Scope N_scope.
Open Scope list_scope.
Local Infix "+++" := String.append (right associativity, at level 60).

(* ---- how each rendering presents a table of the schema *)

(* builders (Go PrependUOffsetTSlot, C object_prepend_uoffset) do not say what an offset points to *)
Definition coarsen (k : kind) : kind :=
  match k with
  | KBytes | KTable _ | KVecTable _ | KUnion => KOffset
  | KStruct _ => KStruct ""
  | _ => k
  end.

Definition map_fields (g : fieldr -> fieldr) (t : tabler) : tabler :=
  let '(n, c, fs) := t in (n, c, map g fs).

(* generated getters: slot i is looked up at vtable offset 4 + 2i *)
Definition read_view : tabler -> tabler :=
  map_fields (fun f => mkF (fname f) (4 + 2 * fnum f) (fkind f) (fdef f)).
(* generated builders *)
Definition build_view : tabler -> tabler :=
  map_fields (fun f => mkF (fname f) (fnum f) (coarsen (fkind f)) (fdef f)).
(* the agent's field index enums *)
Definition slot_view (t : tabler) : slotsr :=
  let '(n, c, fs) := t in (n, c, map (fun f => (fname f, fnum f)) fs).

Definition kind_size (k : kind) : N :=
  match k with
  | KBool | KU8 | KI8 => 1 | KU16 | KI16 => 2 | KU32 | KI32 | KF32 => 4 | KU64 | KI64 | KF64 => 8
  | _ => 0
  end.

Definition struct_offsets (s : structr) : string * list (string * N) :=
  let '(n, _, _, ms) := s in (n, map (fun f => (fname f, fnum f)) ms).
Definition struct_end (ms : list fieldr) : N :=
  fold_left (fun e f => N.max e (fnum f + kind_size (fkind f))) ms 0%N.
(* name, alignment, size, trailing padding, member kinds in memory order *)
Definition struct_shape (s : structr) : string * N * N * N * list kind :=
  let '(n, al, sz, ms) := s in (n, al, sz, sz - struct_end ms, map fkind ms).

(* ---- decidable equality *)
Definition kind_eq_dec : forall a b : kind, {a = b} + {a <> b}.
Proof. decide equality; apply string_dec. Defined.
Definition optZ_eq_dec : forall a b : option Z, {a = b} + {a <> b}.
Proof. decide equality; apply Z.eq_dec. Defined.
Definition fieldr_eq_dec : forall a b : fieldr, {a = b} + {a <> b}.
Proof. decide equality; [apply optZ_eq_dec|apply kind_eq_dec|apply N.eq_dec|apply string_dec]. Defined.
Definition pairSN_eq_dec : forall a b : string * N, {a = b} + {a <> b}.
Proof. decide equality; [apply N.eq_dec|apply string_dec]. Defined.
Definition pairSZ_eq_dec : forall a b : string * Z, {a = b} + {a <> b}.
Proof. decide equality; [apply Z.eq_dec|apply string_dec]. Defined.
Definition tabler_eq_dec : forall a b : tabler, {a = b} + {a <> b}.
Proof. decide equality; [apply (list_eq_dec fieldr_eq_dec)|decide equality; [apply N.eq_dec|apply string_dec]]. Defined.
Definition slotsr_eq_dec : forall a b : slotsr, {a = b} + {a <> b}.
Proof. decide equality; [apply (list_eq_dec pairSN_eq_dec)|decide equality; [apply N.eq_dec|apply string_dec]]. Defined.
Definition enumr_eq_dec : forall a b : enumr, {a = b} + {a <> b}.
Proof. decide equality; [apply (list_eq_dec pairSZ_eq_dec)|apply string_dec]. Defined.
Definition structr_eq_dec : forall a b : structr, {a = b} + {a <> b}.
Proof.
  decide equality; [apply (list_eq_dec fieldr_eq_dec)|].
  decide equality; [apply N.eq_dec|]. decide equality; [apply N.eq_dec|apply string_dec].
Defined.
Definition soffs_eq_dec : forall a b : string * list (string * N), {a = b} + {a <> b}.
Proof. decide equality; [apply (list_eq_dec pairSN_eq_dec)|apply string_dec]. Defined.
Definition user_eq_dec : forall a b : user, {a = b} + {a <> b}.
Proof. decide equality; [apply kind_eq_dec|decide equality; apply string_dec]. Defined.
Definition vecr_eq_dec : forall a b : vecr, {a = b} + {a <> b}.
Proof.
  decide equality; [apply N.eq_dec|]. decide equality; [apply N.eq_dec|]. decide equality; apply string_dec.
Defined.
Definition mutr_eq_dec : forall a b : string * string * N * kind, {a = b} + {a <> b}.
Proof.
  decide equality; [apply kind_eq_dec|]. decide equality; [apply N.eq_dec|]. decide equality; apply string_dec.
Defined.
Definition shape_eq_dec : forall a b : string * N * N * N * list kind, {a = b} + {a <> b}.
Proof.
  decide equality; [apply (list_eq_dec kind_eq_dec)|]. decide equality; [apply N.eq_dec|].
  decide equality; [apply N.eq_dec|]. decide equality; [apply N.eq_dec|apply string_dec].
Defined.
Definition baser_eq_dec : forall a b : string * kind, {a = b} + {a <> b}.
Proof. decide equality; [apply kind_eq_dec|apply string_dec]. Defined.
Definition object_eq_dec : forall a b : string * list string, {a = b} + {a <> b}.
Proof. decide equality; [apply (list_eq_dec string_dec)|apply string_dec]. Defined.

Definition eqb_of {A} (dec : forall a b : A, {a = b} + {a <> b}) (a b : A) : bool :=
  if dec a b then true else false.
Definition inclb {A} (dec : forall a b : A, {a = b} + {a <> b}) (l m : list A) : bool :=
  forallb (fun x => if in_dec dec x m then true else false) l.

(* ---- what the agent's transmit code may use a field with: the coarse kind of the schema *)
Definition coarse_uses : list user :=
  flat_map (fun t : tabler => let '(n, _, fs) := t in map (fun f => (n, fname f, coarsen (fkind f))) fs) fbs_tables.
Definition read_triples : list (string * string * N * kind) :=
  flat_map (fun t : tabler => let '(n, _, fs) := read_view t in map (fun f => (n, fname f, fnum f, fkind f)) fs) fbs_tables.

(* ---- the statement of agreement, field by field *)
Definition tables_agree : Prop :=
  (* the daemon's getters read every field where the schema puts it, as the kind the schema says *)
  map read_view fbs_tables = go_read_tables /\
  (* the daemon's builders write every field where the schema puts it; StartObject(n) has the schema's n *)
  map build_view fbs_tables = go_build_tables /\
  (* the agent's field index enums and X_NUM_FIELDS are the schema's *)
  map slot_view fbs_tables = c_slot_tables /\
  (* enum values and union tags *)
  fbs_enums = go_enums /\ fbs_enums = c_enums /\ fbs_enum_bases = go_enum_bases /\
  (* struct layout: schema rule = Go getters = Go CreateX order = agent's offset enum = agent's build order *)
  fbs_structs = go_struct_read /\ fbs_structs = go_struct_build /\
  map struct_offsets fbs_structs = c_struct_offsets /\
  incl c_struct_builds (map struct_shape fbs_structs) /\
  (* vector element size/alignment of the daemon's StartXVector *)
  fbs_vectors = go_vectors /\
  (* every use of a field constant by the agent's transmit code has the schema's kind; mutators likewise;
     every object the agent builds uses the count and the field constants of one and the same table *)
  incl c_uses coarse_uses /\ incl go_mutators read_triples /\
  Forall (fun o : string * list string => snd o = [fst o] \/ snd o = []) c_objects.

Definition tables_agreeb : bool :=
  eqb_of (list_eq_dec tabler_eq_dec) (map read_view fbs_tables) go_read_tables &&
  eqb_of (list_eq_dec tabler_eq_dec) (map build_view fbs_tables) go_build_tables &&
  eqb_of (list_eq_dec slotsr_eq_dec) (map slot_view fbs_tables) c_slot_tables &&
  eqb_of (list_eq_dec enumr_eq_dec) fbs_enums go_enums &&
  eqb_of (list_eq_dec enumr_eq_dec) fbs_enums c_enums &&
  eqb_of (list_eq_dec baser_eq_dec) fbs_enum_bases go_enum_bases &&
  eqb_of (list_eq_dec structr_eq_dec) fbs_structs go_struct_read &&
  eqb_of (list_eq_dec structr_eq_dec) fbs_structs go_struct_build &&
  eqb_of (list_eq_dec soffs_eq_dec) (map struct_offsets fbs_structs) c_struct_offsets &&
  inclb shape_eq_dec c_struct_builds (map struct_shape fbs_structs) &&
  eqb_of (list_eq_dec vecr_eq_dec) fbs_vectors go_vectors &&
  inclb user_eq_dec c_uses coarse_uses &&
  inclb mutr_eq_dec go_mutators read_triples &&
  forallb (fun o : string * list string =>
             eqb_of (list_eq_dec string_dec) (snd o) [fst o] || eqb_of (list_eq_dec string_dec) (snd o) []) c_objects.

(* ---- shared limits *)
Definition limit_ok (p : string * option Z * string * option Z) : Prop :=
  let '(_, cv, _, gv) := p in cv = gv /\ cv <> None.
Definition string_ok (p : string * option string * string * option string) : Prop :=
  let '(_, cv, _, gv) := p in cv = gv /\ cv <> None.
Definition limit_okb (p : string * option Z * string * option Z) : bool :=
  let '(_, cv, _, gv) := p in
  match cv, gv with Some a, Some b => Z.eqb a b | _, _ => false end.
Definition string_okb (p : string * option string * string * option string) : bool :=
  let '(_, cv, _, gv) := p in
  match cv, gv with Some a, Some b => String.eqb a b | _, _ => false end.
Definition bad_limits : list string :=
  map (fun p : string * option Z * string * option Z => let '(c, _, g, _) := p in c +++ " / " +++ g)
      (filter (fun p => negb (limit_okb p)) shared_limits) ++
  map (fun p : string * option string * string * option string => let '(c, _, g, _) := p in c +++ " / " +++ g)
      (filter (fun p => negb (string_okb p)) shared_strings).

(* ---- explanation of a disagreement: (table, field, what) triples; [] when the renderings agree on
   names, numbers, kinds and defaults (used only to name the culprit in a replay file) *)
Definition diff3 := (string * string * string)%type.

Fixpoint find_field (n : string) (fs : list fieldr) : option fieldr :=
  match fs with [] => None | f :: r => if String.eqb n (fname f) then Some f else find_field n r end.

Definition diff_fields (tn la lb : string) (a b : list fieldr) : list diff3 :=
  flat_map (fun f =>
    match find_field (fname f) b with
    | None => [(tn, fname f, "in " +++ la +++ " but not in " +++ lb)]
    | Some g =>
        (if N.eqb (fnum f) (fnum g) then [] else [(tn, fname f, "number differs between " +++ la +++ " and " +++ lb)]) ++
        (if kind_eq_dec (fkind f) (fkind g) then [] else [(tn, fname f, "kind differs between " +++ la +++ " and " +++ lb)]) ++
        (if optZ_eq_dec (fdef f) (fdef g) then [] else [(tn, fname f, "default differs between " +++ la +++ " and " +++ lb)])
    end) a ++
  flat_map (fun g => match find_field (fname g) a with
                     | None => [(tn, fname g, "in " +++ lb +++ " but not in " +++ la)]
                     | Some _ => [] end) b.

Fixpoint find_table (n : string) (ts : list tabler) : option tabler :=
  match ts with [] => None | t :: r => if String.eqb n (fst (fst t)) then Some t else find_table n r end.

Definition diff_tables (la lb : string) (a b : list tabler) : list diff3 :=
  flat_map (fun t : tabler =>
    let '(n, c, fs) := t in
    match find_table n b with
    | None => [(n, "", "in " +++ la +++ " but not in " +++ lb)]
    | Some (_, c', fs') =>
        (if N.eqb c c' then [] else [(n, "", "number of fields differs between " +++ la +++ " and " +++ lb)]) ++
        diff_fields n la lb fs fs'
    end) a ++
  flat_map (fun t : tabler => match find_table (fst (fst t)) a with
                              | None => [(fst (fst t), "", "in " +++ lb +++ " but not in " +++ la)]
                              | Some _ => [] end) b.

Definition slots_as_table (t : slotsr) : tabler :=
  let '(n, c, fs) := t in (n, c, map (fun p => mkF (fst p) (snd p) KUnknown None) fs).
Definition enum_as_table (e : enumr) : tabler :=
  let '(n, ms) := e in (n, N.of_nat (length ms), map (fun p => mkF (fst p) 0 KUnknown (Some (snd p))) ms).
Definition struct_as_table (s : structr) : tabler :=
  let '(n, al, sz, ms) := s in (n, sz + 1000 * al, ms).
Definition soffs_as_table (s : string * list (string * N)) : tabler :=
  (fst s, 0%N, map (fun p => mkF (fst p) (snd p) KUnknown None) (snd s)).
Definition forget_kinds : tabler -> tabler := map_fields (fun f => mkF (fname f) (fnum f) KUnknown None).
Definition struct_nokinds (s : structr) : tabler :=
  let '(n, _, _, ms) := s in (n, 0%N, map (fun f => mkF (fname f) (fnum f) KUnknown None) ms).

Definition schema_diffs : list diff3 :=
  diff_tables "protocol.fbs" "Go getters" (map read_view fbs_tables) go_read_tables ++
  diff_tables "protocol.fbs" "Go builders" (map build_view fbs_tables) go_build_tables ++
  diff_tables "protocol.fbs" "nr_commands_private.h"
              (map (fun t => forget_kinds (build_view t)) fbs_tables) (map slots_as_table c_slot_tables) ++
  diff_tables "protocol.fbs" "Go constants" (map enum_as_table fbs_enums) (map enum_as_table go_enums) ++
  diff_tables "protocol.fbs" "nr_commands_private.h" (map enum_as_table fbs_enums) (map enum_as_table c_enums) ++
  diff_tables "protocol.fbs" "Go struct getters" (map struct_as_table fbs_structs) (map struct_as_table go_struct_read) ++
  diff_tables "protocol.fbs" "Go CreateX" (map struct_as_table fbs_structs) (map struct_as_table go_struct_build) ++
  diff_tables "protocol.fbs" "nr_commands_private.h" (map struct_nokinds fbs_structs) (map soffs_as_table c_struct_offsets) ++
  map (fun b : string * N * N * N * list kind => (fst (fst (fst (fst b))), "", "the agent builds the struct with another layout than protocol.fbs"))
      (filter (fun b => negb (if in_dec shape_eq_dec b (map struct_shape fbs_structs) then true else false)) c_struct_builds) ++
  map (fun v : vecr => (fst (fst (fst v)), snd (fst (fst v)), "vector element size/alignment: Go StartXVector differs from protocol.fbs"))
      (filter (fun v => negb (if in_dec vecr_eq_dec v fbs_vectors then true else false)) go_vectors ++
       filter (fun v => negb (if in_dec vecr_eq_dec v go_vectors then true else false)) fbs_vectors) ++
  map (fun u : user => (fst (fst u), snd (fst u), "the agent's transmit code uses the field constant with another kind than protocol.fbs"))
      (filter (fun u => negb (if in_dec user_eq_dec u coarse_uses then true else false)) c_uses) ++
  map (fun m : string * string * N * kind => (fst (fst (fst m)), snd (fst (fst m)), "Go mutator differs from protocol.fbs"))
      (filter (fun m => negb (if in_dec mutr_eq_dec m read_triples then true else false)) go_mutators) ++
  map (fun o : string * list string => (fst o, "", "the agent builds an object with the count of one table and field constants of another"))
      (filter (fun o : string * list string =>
                 negb (eqb_of (list_eq_dec string_dec) (snd o) [fst o] || eqb_of (list_eq_dec string_dec) (snd o) [])) c_objects) ++
  map (fun b : string * kind => (fst b, "", "enum base type: Go differs from protocol.fbs"))
      (filter (fun b => negb (if in_dec baser_eq_dec b fbs_enum_bases then true else false)) go_enum_bases ++
       filter (fun b => negb (if in_dec baser_eq_dec b go_enum_bases then true else false)) fbs_enum_bases).

(* ---- the real tables as slot maps of the generic model (values: Z; offsets fields carry the identity of
   the object they point to, 0 = none) *)
Definition sigma_of_slots (t : slotsr) : string * (N * slotmap Z) :=
  let '(n, c, fs) := t in (n, (c, map (fun p => (fst p, mkD (snd p) 0%Z)) fs)).
Definition sigma_of_getters (t : tabler) : string * (N * slotmap Z) :=
  let '(n, c, fs) := t in
  (n, (c, map (fun f => (fname f, mkD ((fnum f - 4) / 2) (match fdef f with Some d => d | None => 0%Z end))) fs)).
Definition sigma_of_builders (t : tabler) : string * (N * slotmap Z) :=
  let '(n, c, fs) := t in
  (n, (c, map (fun f => (fname f, mkD (fnum f) (match fdef f with Some d => d | None => 0%Z end))) fs)).

Definition lookup_sigma (T : string) (l : list (string * (N * slotmap Z))) : N * slotmap Z :=
  match lookup T l with Some x => x | None => (0%N, []) end.
(* the agent builds with the header's numbers, the daemon builds with its builders, the daemon reads with its getters *)
Definition sigma_c (T : string) : N * slotmap Z := lookup_sigma T (map sigma_of_slots c_slot_tables).
Definition sigma_go_build (T : string) : N * slotmap Z := lookup_sigma T (map sigma_of_builders go_build_tables).
Definition sigma_go_read (T : string) : N * slotmap Z := lookup_sigma T (map sigma_of_getters go_read_tables).
