(* ConfigInst.v -- the execution instance of the C19 model: the rune classes of the toolchain's unicode
   package (Gen/Unicode_gen.v), the tables read from cmd/daemon/main.go (Gen/Flags_gen.v).
   Definitions only. *)
From Coq Require Import NArith ZArith List Bool.
From Verif Require Import ConfigBase Config.
From Verif.Gen Require Import Flags_gen Unicode_gen.
Import ListNotations.
Open Scope N_scope.

(* membership in an ascending list of disjoint ranges *)
Fixpoint in_ranges (rs : list (N * N)) (r : N) : bool :=
  match rs with
  | [] => false
  | (lo, hi) :: t => if r <? lo then false else if r <=? hi then true else in_ranges t r
  end.

Definition u_space : N -> bool := in_ranges unicode_space.
Definition u_letter : N -> bool := in_ranges unicode_letter.
Definition u_number : N -> bool := in_ranges unicode_number.

(* `cfg := defaultCfg` (and `var printVersion = false`): every field, zero unless the literal sets it *)
Definition zero_cfg : cfg := map (fun fd => (fd_id fd, zero_of (fd_kind fd))) cfg_fields.
Definition default_cfg : cfg := default_cfg_lit ++ zero_cfg ++ [(G_printVersion, VBool false)].

(* the model over the generated tables, for any rune classes *)
Section Generic.
  Variables (isp isl isn : N -> bool).

  Definition unmarshal_g : kind -> bytes -> pres value :=
    unmarshal_value LogAlways LogError LogWarning LogInfo LogHealthCheck LogDebug.
  Definition assign_g (fields : list fielddef) : list assignment -> list effect * option dstatus :=
    assign_effects LogAlways LogError LogWarning LogInfo LogHealthCheck LogDebug fields.
  Definition decode_g (fields : list fielddef) : bytes -> list effect * dstatus :=
    decode_effects isp isl isn LogAlways LogError LogWarning LogInfo LogHealthCheck LogDebug fields.
  Definition flag_effects_g : flagdef -> bytes -> list effect * option fstatus :=
    flag_effects isp isl isn LogAlways LogError LogWarning LogInfo LogHealthCheck LogDebug cfg_fields.
  Definition parse_flags_g : list flagdef -> list bytes -> list effect * fstatus :=
    parse_flags isp isl isn LogAlways LogError LogWarning LogInfo LogHealthCheck LogDebug cfg_fields.
  Definition daemon_parse_g (platform : bytes) (fs : bytes -> option bytes) :
    list flagdef -> list bytes -> cfg -> cfg * pstatus :=
    daemon_parse isp isl isn LogAlways LogError LogWarning LogInfo LogHealthCheck LogDebug cfg_fields
      F_ConfigFile F_BindPort F_BindAddr platform fs.
  Definition configure_g (platform : bytes) (fs : bytes -> option bytes) (args : list bytes) : outcome :=
    configure isp isl isn LogAlways LogError LogWarning LogInfo LogHealthCheck LogDebug cfg_fields
      F_ConfigFile F_BindPort F_BindAddr platform fs daemon_flags legacy_flags default_cfg args.
End Generic.

(* ... and over the Unicode classes: what the checks execute *)
Definition lex_all_u : bytes -> list assignment * lend := lex_all u_space u_letter u_number.
Definition decode_u : list fielddef -> bytes -> list effect * dstatus := decode_g u_space u_letter u_number.
Definition parse_flags_u : list flagdef -> list bytes -> list effect * fstatus := parse_flags_g u_space u_letter u_number.
Definition daemon_parse_u := daemon_parse_g u_space u_letter u_number.
Definition configure_u := configure_g u_space u_letter u_number.

(* the Config a run ends with, field by field in declaration order, for comparison with the observed struct *)
Definition project_cfg (c : cfg) : list value := map (fun fd => get (fd_id fd) c) cfg_fields ++ [get G_printVersion c].
