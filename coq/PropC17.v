(* PropC17.v -- C17 "the worker is free of data races": property theorems (PARTIAL by nature:
   they are about the ownership protocol of the worker and about the checker, not about the Go
   text; see coq/Ownership.v and DESIGN.md section 4 C17 / section 8). *)
From Coq Require Import List.
From Verif Require Import Ownership OwnershipSound OwnershipCap OwnershipProto OwnershipExec OwnershipProofs.

(* the boolean vector-clock checker is sound for the happens-before definition: when it answers
   true, every two conflicting accesses of the trace are ordered by happens-before *)
Theorem C17_race_free_sound :
  forall tr : trace, race_free tr = true ->
    forall i j, i < j -> conflict tr i j -> hb tr i j.
Proof. exact race_free_sound. Qed.
Print Assumptions C17_race_free_sound.

(* two conflicting accesses that are unordered => the checker answers false *)
Theorem C17_unordered_conflict_rejected :
  forall (tr : trace) (i j : nat), i < j -> conflict tr i j -> ~ hb tr i j -> race_free tr = false.
Proof. exact unordered_conflict_rejected. Qed.
Print Assumptions C17_unordered_conflict_rejected.

(* each object has one owner (or only readers) and ownership moves only along a happens-before
   edge => race free; any number of goroutines, objects, synchronisation objects and steps *)
Theorem C17_discipline_race_free :
  forall tr : trace, disciplined tr -> race_free tr = true.
Proof. exact disciplined_race_free. Qed.
Print Assumptions C17_discipline_race_free.

(* every trace of the worker's protocol -- any number of connections, harvests, collector
   replies, restarts, trace observers, and the shutdown -- is accepted by the checker *)
Theorem C17_protocol_race_free :
  forall tr : trace, protocol_trace tr -> race_free tr = true.
Proof. exact protocol_race_free. Qed.
Print Assumptions C17_protocol_race_free.

(* ... hence has no two conflicting accesses unordered by happens-before *)
Theorem C17_protocol_no_data_race :
  forall tr : trace, protocol_trace tr ->
    forall i j, i < j -> conflict tr i j -> hb tr i j.
Proof. exact protocol_drf. Qed.
Print Assumptions C17_protocol_no_data_race.

(* the executable twin used for the concrete schedules only makes protocol steps *)
Theorem C17_schedule_is_protocol :
  forall (ls : list plabel) (tr : trace), schedule_trace ls = Some tr -> protocol_trace tr.
Proof. exact schedule_protocol. Qed.
Print Assumptions C17_schedule_is_protocol.

(* regressions: the four C17 defects found in the daemon and fixed in /repo (6c84d6e CleanExit's
   stores into p.txnDataChannel / p.appInfoChannel; fc40238 the worker's read of the producer's
   capacity counter; 00696d1 OverrideDockerId writing the vendors struct shared by all connect
   payloads; c8aacc8 the receive goroutine reading s.stream): the interleaving of each is rejected
   by the checker, and the CleanExit store is not a step of the protocol *)
Theorem C17_fixed_defects_rejected :
  (pexec_stuck pinit fixed_6c84d6e_cleanexit_schedule 0 = Some 16 /\
   race_free fixed_6c84d6e_cleanexit_trace = false) /\
  race_free fixed_fc40238_capacity_trace = false /\
  race_free fixed_00696d1_vendors_trace = false /\
  race_free fixed_c8aacc8_stream_trace = false.
Proof.
  exact (conj (conj fixed_6c84d6e_cleanexit_not_protocol (proj1 fixed_6c84d6e_cleanexit_racy))
              (conj (proj1 fixed_fc40238_capacity_racy)
                    (conj (proj1 fixed_00696d1_vendors_racy) (proj1 fixed_c8aacc8_stream_racy)))).
Qed.
Print Assumptions C17_fixed_defects_rejected.

(* the access-table check reports exactly the accesses no rule of the discipline admits *)
Theorem C17_table_check_exact :
  forall (rn fnm : list String.string) (l : list acc),
    violations rn fnm l = nil <-> table_ok rn fnm l = true.
Proof. exact violations_nil_iff. Qed.
Print Assumptions C17_table_check_exact.
