(* OwnershipExec.v -- C17: the executable twin of the protocol only makes protocol steps;
   concrete schedules (non-vacuity) and racy traces the checker rejects. *)
From Coq Require Import Arith List Bool Lia Permutation.
From Verif Require Import Ownership OwnershipSound OwnershipCap OwnershipProto.
Import ListNotations.

Lemma pick_thr_perm g l t r : pick_thr g l = Some (t, r) -> Permutation l (t :: r) /\ t_g t = g.
Proof.
  revert t r. induction l as [|x l IH]; intros t r H; simpl in H; [discriminate|].
  destruct (t_g x =? g) eqn:E.
  - inversion H; subst. apply Nat.eqb_eq in E. split; [apply Permutation_refl | exact E].
  - destruct (pick_thr g l) as [[t' r']|]; [|discriminate]. inversion H; subst.
    destruct (IH _ _ eq_refl) as [P Hg]. split; [|exact Hg].
    eapply Permutation_trans; [apply perm_skip; exact P | apply perm_swap].
Qed.
Lemma pick_thr_in g l t r : pick_thr g l = Some (t, r) -> In t l.
Proof.
  intros H. destruct (pick_thr_perm _ _ _ _ H) as [P _].
  eapply Permutation_in; [apply Permutation_sym; exact P | now left].
Qed.

Lemma pick_msg_perm sy l m r : pick_msg sy l = Some (m, r) -> Permutation l (m :: r) /\ m_s m = sy.
Proof.
  revert m r. induction l as [|x l IH]; intros m r H; simpl in H; [discriminate|].
  destruct (pick_msg sy l) as [[m' r']|].
  - inversion H; subst. destruct (IH _ _ eq_refl) as [P Hs]. split; [|exact Hs].
    eapply Permutation_trans; [apply perm_skip; exact P | apply perm_swap].
  - destruct (m_s x =? sy) eqn:E; [|discriminate]. inversion H; subst.
    apply Nat.eqb_eq in E. split; [apply Permutation_refl | exact E].
Qed.

Lemma take1_perm o l r : take1 o l = Some r -> Permutation l (o :: r).
Proof.
  revert r. induction l as [|x l IH]; intros r H; simpl in H; [discriminate|].
  destruct (x =? o) eqn:E.
  - inversion H; subst. apply Nat.eqb_eq in E. subst. apply Permutation_refl.
  - destruct (take1 o l) as [r'|]; [|discriminate]. inversion H; subst.
    eapply Permutation_trans; [apply perm_skip; apply IH; reflexivity | apply perm_swap].
Qed.

Lemma take_all_perm xs : forall l r, take_all xs l = Some r -> Permutation l (xs ++ r).
Proof.
  induction xs as [|x xs IH]; intros l r H; simpl in H.
  - inversion H. apply Permutation_refl.
  - destruct (take1 x l) as [l'|] eqn:E; [|discriminate].
    eapply Permutation_trans; [apply take1_perm; exact E|]. simpl. apply perm_skip. now apply IH.
Qed.

Lemma memb_in o l : memb o l = true -> In o l.
Proof.
  unfold memb. intros H. apply existsb_exists in H. destruct H as [x [Hx E]].
  apply Nat.eqb_eq in E. now subst.
Qed.

Lemma alive_b_alive t : alive_b t = true -> alive t.
Proof. unfold alive_b, alive. intros H E. rewrite E in H. discriminate. Qed.

Lemma kind_eqb_eq a b : kind_eqb a b = true -> a = b.
Proof. destruct a, b; simpl; intros H; try discriminate; reflexivity. Qed.

Ltac fin := first [ eapply pick_thr_in; eassumption | apply alive_b_alive; assumption
                   | apply memb_in; assumption | eapply take1_perm; eassumption
                   | eapply take_all_perm; eassumption | eassumption | reflexivity
                   | apply kind_eqb_eq; assumption ].

Lemma pexec_sound s l a s' : pexec s l = Some (a, s') -> pstep s a s'.
Proof.
  destruct l; simpl; intros H.
  - destruct (pick_thr g (p_thr s)) as [[t r]|] eqn:Ep; [|discriminate].
    destruct (alive_b t && (memb o (t_own t) || memb o (t_ro t))) eqn:Ec; [|discriminate].
    inversion H; subst. apply andb_prop in Ec. destruct Ec as [Ea Em]. apply orb_prop in Em.
    eapply p_rd; try fin.
    destruct Em; [left|right]; now apply memb_in.
  - destruct (pick_thr g (p_thr s)) as [[t r]|] eqn:Ep; [|discriminate].
    destruct (alive_b t && memb o (t_own t)) eqn:Ec; [|discriminate].
    inversion H; subst. apply andb_prop in Ec. destruct Ec as [Ea Em].
    eapply p_wr; try fin.
  - destruct (pick_thr g (p_thr s)) as [[t r]|] eqn:Ep; [|discriminate].
    destruct (alive_b t) eqn:Ea; [|discriminate]. inversion H; subst.
    destruct (pick_thr_perm _ _ _ _ Ep) as [P _].
    eapply p_new; try fin.
  - destruct (pick_thr g (p_thr s)) as [[t r]|] eqn:Ep; [|discriminate].
    destruct (take1 o (t_own t)) as [own'|] eqn:Et; [|discriminate].
    destruct (alive_b t && can_freeze (t_kind t)) eqn:Ec; [|discriminate].
    inversion H; subst. apply andb_prop in Ec. destruct Ec as [Ea Ef].
    destruct (pick_thr_perm _ _ _ _ Ep) as [P _].
    eapply p_freeze; try fin.
  - destruct (pick_thr g (p_thr s)) as [[t r]|] eqn:Ep; [|discriminate].
    destruct (take1 o (t_own t)) as [own'|] eqn:Et; [|discriminate].
    destruct (alive_b t) eqn:Ea; [|discriminate]. inversion H; subst.
    destruct (pick_thr_perm _ _ _ _ Ep) as [P _].
    eapply p_drop_own; try fin.
  - destruct (pick_thr g (p_thr s)) as [[t r]|] eqn:Ep; [|discriminate].
    destruct (take1 o (t_ro t)) as [ro'|] eqn:Et; [|discriminate].
    destruct (alive_b t) eqn:Ea; [|discriminate]. inversion H; subst.
    destruct (pick_thr_perm _ _ _ _ Ep) as [P _].
    eapply p_drop_ro; try fin.
  - destruct (pick_thr g (p_thr s)) as [[t r]|] eqn:Ep; [|discriminate].
    destruct (alive_b t && memb o (t_ro t)) eqn:Ec; [|discriminate].
    inversion H; subst. apply andb_prop in Ec. destruct Ec as [Ea Em].
    destruct (pick_thr_perm _ _ _ _ Ep) as [P _].
    eapply p_dup; try fin.
  - destruct (pick_thr g (p_thr s)) as [[t r]|] eqn:Ep; [|discriminate].
    destruct (take_all xo (t_own t)) as [own'|] eqn:Eo; [|discriminate].
    destruct (take_all xr (t_ro t)) as [ro'|] eqn:Er; [|discriminate].
    destruct (alive_b t && can_spawn (t_kind t) k2) eqn:Ec; [|discriminate].
    inversion H; subst. apply andb_prop in Ec. destruct Ec as [Ea Ef].
    destruct (pick_thr_perm _ _ _ _ Ep) as [P _].
    eapply p_go; try fin.
  - destruct (pick_thr g (p_thr s)) as [[t r]|] eqn:Ep; [|discriminate].
    destruct (take_all xo (t_own t)) as [own'|] eqn:Eo; [|discriminate].
    destruct (take_all xr (t_ro t)) as [ro'|] eqn:Er; [|discriminate].
    destruct (alive_b t && can_send (t_kind t) s0) eqn:Ec; [|discriminate].
    inversion H; subst. apply andb_prop in Ec. destruct Ec as [Ea Ef].
    destruct (pick_thr_perm _ _ _ _ Ep) as [P _].
    eapply p_send; try fin.
  - destruct (pick_thr g (p_thr s)) as [[t r]|] eqn:Ep; [|discriminate].
    destruct (pick_msg s0 (p_msg s)) as [[m mrest]|] eqn:Em; [|discriminate].
    destruct (alive_b t && can_recv (t_kind t) (m_s m)) eqn:Ec; [|discriminate].
    inversion H; subst. apply andb_prop in Ec. destruct Ec as [Ea Ef].
    destruct (pick_thr_perm _ _ _ _ Ep) as [P _].
    destruct (pick_msg_perm _ _ _ _ Em) as [Q _].
    eapply p_recv; try fin.
  - destruct (pick_thr g (p_thr s)) as [[t r]|] eqn:Ep; [|discriminate].
    destruct (alive_b t) eqn:Ea; [|discriminate]. inversion H; subst.
    eapply p_rel; try fin.
  - destruct (pick_thr g (p_thr s)) as [[t r]|] eqn:Ep; [|discriminate].
    destruct (alive_b t) eqn:Ea; [|discriminate]. inversion H; subst.
    eapply p_acq; try fin.
  - destruct (pick_thr g (p_thr s)) as [[t r]|] eqn:Ep; [|discriminate].
    destruct (kind_eqb (t_kind t) KProc) eqn:Ek; [|discriminate]. inversion H; subst.
    destruct (pick_thr_perm _ _ _ _ Ep) as [P _].
    eapply p_quit; try fin.
Qed.

Lemma pexec_run_sound ls : forall s atr s', pexec_run s ls = Some (atr, s') -> prun s atr s'.
Proof.
  induction ls as [|l ls IH]; intros s atr s' H; simpl in H.
  - inversion H; subst. constructor.
  - destruct (pexec s l) as [[a s1]|] eqn:E; [|discriminate].
    destruct (pexec_run s1 ls) as [[atr1 s2]|] eqn:E2; [|discriminate].
    inversion H; subst. econstructor; [eapply pexec_sound; exact E | apply IH; exact E2].
Qed.

(* a schedule the executable twin accepts yields a protocol trace, hence a race-free one *)
Theorem schedule_protocol ls tr : schedule_trace ls = Some tr -> protocol_trace tr.
Proof.
  unfold schedule_trace. destruct (pexec_run pinit ls) as [[atr s]|] eqn:E; [|discriminate].
  intros H. inversion H; subst. exists atr, s. split; [|reflexivity]. eapply pexec_run_sound; exact E.
Qed.

Corollary schedule_race_free ls tr : schedule_trace ls = Some tr -> race_free tr = true.
Proof. intros H. apply protocol_race_free. eapply schedule_protocol; eauto. Qed.
