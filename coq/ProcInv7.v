(* ProcInv7.v -- an accepting collector (C01) and the completeness of the final flush (C11).
   With a collector that accepts every request: nothing is given up except what the documented limits refuse
   (capacity, overwritten / already reported package lists), and after the final flush every run that was
   held (application not past its inactivity time-out) has an empty harvest, all its data acknowledged.
   The final flush sends, for every held run, exactly the data of its harvest, each unit once. *)
From Coq Require Import NArith ZArith List Bool Lia.
From Verif.Gen Require Limits_gen HarvestBits_gen.
From Verif Require Import Processor ProcInv ProcInv2 ProcInv3 ProcInv4 ProcInv5 ProcInv6.
Import ListNotations.

(* ------------------------------------------------------------------ an accepting collector *)
Definition accepting_op (o : op) : Prop :=
  match o with
  | OReply _ oc | OReplyCat _ oc => oc = OOk
  | OCleanExit outs => forall r c, outs r c = OOk
  | _ => True
  end.
Definition accepting (ops : list op) : Prop := Forall accepting_op ops.

Definition benign (why : reason) : Prop := why = RCapacity \/ why = ROverwritten \/ why = RSeenPkg.

Definition drops_benign (s s' : proc) : Prop :=
  exists l, g_dropped s' = g_dropped s ++ l /\ forall x, In x l -> benign (snd x).

Lemma drops_benign_refl s : drops_benign s s.
Proof. exists []. rewrite app_nil_r. split; [reflexivity|intros x []]. Qed.
Lemma drops_benign_same s s' : g_dropped s' = g_dropped s -> drops_benign s s'.
Proof. intros E. exists []. rewrite app_nil_r. split; [exact E|intros x []]. Qed.
Lemma drops_benign_trans a b c : drops_benign a b -> drops_benign b c -> drops_benign a c.
Proof.
  intros (l1 & E1 & B1) (l2 & E2 & B2). exists (l1 ++ l2). rewrite E2, E1, app_assoc. split; [reflexivity|].
  intros x Hx. apply in_app_or in Hx. destruct Hx; auto.
Qed.
Lemma drops_benign_seen s s' : seen_drops s s' -> drops_benign s s'.
Proof.
  intros (d & E). exists (map (fun t => (t, RSeenPkg)) d). split; [exact E|]. intros x Hx. apply in_map_iff in Hx.
  destruct Hx as (t & <- & _). right. right. reflexivity.
Qed.

Lemma final_ok_accepting outs qs : (forall r c, outs r c = OOk) ->
  filter (final_ok outs) qs = qs /\ filter (fun q => negb (final_ok outs q)) qs = [].
Proof.
  intros H. assert (G : forall q, final_ok outs q = true) by (intros q; unfold final_ok; rewrite H; reflexivity).
  induction qs as [|q r [I1 I2]]; [split; reflexivity|]. cbn [filter]. rewrite (G q). cbn [negb]. rewrite I1, I2. split; reflexivity.
Qed.

Lemma flush_run_benign outs acc ra : (forall r c, outs r c = OOk) -> drops_benign (fst acc) (fst (flush_run outs acc ra)).
Proof.
  intros H. destruct acc as [s o]. cbn [fst].
  destruct (flush_run_flow outs s o ra) as [(_ & E & _)|[(_ & _ & _ & E)|(_ & _ & qs & _ & F)]]; cbn zeta in *.
  - rewrite E. apply drops_benign_refl.
  - rewrite E. apply drops_benign_same. reflexivity.
  - apply drops_benign_seen. exists (seen_part s (ah_app (get_ah s (snd ra))) (ah_h (get_ah s (snd ra)))).
    rewrite (ff_drop _ _ _ _ _ F). destruct (final_ok_accepting outs qs H) as [_ E2]. rewrite E2. cbn. rewrite app_nil_r. reflexivity.
Qed.

Lemma step_benign s o : accepting_op o -> drops_benign s (fst (step s o)).
Proof.
  intros Ac. unfold step. destruct (p_quit s); [apply drops_benign_refl|].
  assert (RpOk : forall n, drops_benign s (fst (reply s n OOk))).
  { intros n. unfold reply. destruct (nth_error (p_reqs s) n) as [q|]; [|apply drops_benign_refl].
    set (s1 := ghost_ack (add_usage (with_reqs s (remove_nth n (p_reqs s)))) (tags (rq_items q))).
    destruct (rq_kind q); cbn [fst]; try (apply drops_benign_same; reflexivity).
    destruct (group_done_flow s1 (rq_group q)) as (u & _ & _ & _ & _ & _ & _ & Ed). destruct (group_done s1 (rq_group q)) as [s2 o2]. cbn [fst] in *.
    apply drops_benign_same. rewrite Ed. reflexivity. }
  destruct o as [key dt id|run t|n po|n co|ah ty|n oc|cc oc|dt|outs]; cbn [accepting_op] in Ac.
  - destruct (app_info_flow s key dt id) as (M & _). apply drops_benign_same. apply M.
  - pose proof (txn_data_flow s run t) as F. destruct (lookupN run (p_runs s)); [|rewrite F; apply drops_benign_refl].
    cbn zeta in F. destruct F as (_ & _ & _ & _ & _ & _ & _ & _ & _ & _ & d1 & d2 & Ed).
    exists (map (fun t0 => (t0, RCapacity)) d1 ++ map (fun t0 => (t0, ROverwritten)) d2). split; [exact Ed|].
    intros x Hx. apply in_app_or in Hx. destruct Hx as [Hx|Hx]; apply in_map_iff in Hx; destruct Hx as (t0 & <- & _); [left|right; left]; reflexivity.
  - destruct (pre_reply_flow s n po) as (M & _). apply drops_benign_same. apply M.
  - destruct (conn_reply_flow s n co) as (_ & [[M _]|(c0 & host & r & _ & _ & _ & C)]).
    + apply drops_benign_same. apply M.
    + destruct C as (i & _ & _ & _ & _ & _ & _ & _ & _ & _ & _ & Ed & _). apply drops_benign_same. exact Ed.
  - unfold tick. destruct (Nat.leb (length (p_ahs s)) ah); [apply drops_benign_refl|].
    destruct (inactive (get_obj s (ah_app (get_ah s ah))) (p_now s)); [apply drops_benign_same; reflexivity|].
    apply drops_benign_seen. apply (tf_drop _ _ _ _ (harvest_by_type_flow s ah ty)).
  - subst oc. apply RpOk.
  - subst oc. destruct (find_index (req_is cc) (p_reqs s) 0); [apply RpOk|apply drops_benign_refl].
  - apply drops_benign_same. reflexivity.
  - unfold clean_exit.
    assert (G : forall l acc, drops_benign (fst acc) (fst (fold_left (flush_run outs) l acc))).
    { induction l as [|ra r IH]; intros acc; cbn [fold_left]; [apply drops_benign_refl|].
      eapply drops_benign_trans; [apply flush_run_benign; exact Ac|apply IH]. }
    specialize (G (p_runs s) (s, [])). destruct (fold_left (flush_run outs) (p_runs s) (s, [])) as [s1 o]. cbn [fst] in *.
    eapply drops_benign_trans; [exact G|apply drops_benign_same; reflexivity].
Qed.

(* C01: with an accepting collector nothing is given up except by the documented limits *)
Theorem accepting_reasons ops :
  accepting ops -> forall x, In x (g_dropped (fst (run ops))) -> benign (snd x).
Proof.
  unfold run. assert (G : forall l s, accepting l -> (forall x, In x (g_dropped s) -> benign (snd x)) ->
                          forall x, In x (g_dropped (fst (run_from s l))) -> benign (snd x)).
  { induction l as [|o r IH]; intros s Ac H; cbn [run_from]; [exact H|]. inversion Ac as [|? ? A1 A2]; subst.
    pose proof (step_benign s o A1) as (l1 & E1 & B1). destruct (step s o) as [s1 out1]. cbn [fst] in *.
    specialize (IH s1 A2). destruct (run_from s1 r) as [s2 outs]. cbn [fst] in *. apply IH.
    intros x Hx. rewrite E1 in Hx. apply in_app_or in Hx. destruct Hx; auto. }
  intros Ac. apply G; [exact Ac|intros x []].
Qed.

(* ------------------------------------------------------------------ the run table as a list *)
Lemma lookupN_in {A} k (l : list (N * A)) v : lookupN k l = Some v -> In (k, v) l.
Proof.
  induction l as [|[a b] r IH]; cbn [lookupN]; [discriminate|]. destruct (N.eqb_spec a k) as [->|N].
  - intros H. inversion H. left. reflexivity.
  - intros H. right. auto.
Qed.

Lemma in_lookupN {A} k (l : list (N * A)) v : NoDup (map fst l) -> In (k, v) l -> lookupN k l = Some v.
Proof.
  induction l as [|[a b] r IH]; cbn [lookupN map fst]; [intros _ []|]. intros ND [H|H].
  - inversion H; subst. rewrite N.eqb_refl. reflexivity.
  - inversion ND as [|? ? Hn Hd]; subst. destruct (N.eqb_spec a k) as [->|N]; [|apply IH; assumption].
    exfalso. apply Hn. apply in_map_iff. exists (k, v). split; [reflexivity|exact H].
Qed.

(* ------------------------------------------------------------------ flushing one run leaves the others alone *)
Lemma flush_run_obj_other outs s o ra i :
  i <> ah_app (get_ah s (snd ra)) -> get_obj (fst (flush_run outs (s, o) ra)) i = get_obj s i.
Proof.
  intros Hi. unfold flush_run. destruct (Nat.leb (length (p_ahs s)) (snd ra)); [reflexivity|].
  set (a := snd ra) in *. set (ah := get_ah s a) in *. set (ao := get_obj s (ah_app ah)).
  destruct (flush_inactive ao (p_now s)); [reflexivity|].
  set (s1 := put_ah_h s a (new_harvest (cur_caps ao))).
  assert (F : get_obj (fst (filter_harvest_pkgs s1 (ah_app ah) (ah_h ah))) i = get_obj s i).
  { unfold filter_harvest_pkgs. destruct (h_haspkgs (ah_h ah)); [|reflexivity].
    destruct (filter_pkgs (a_seen_pkgs (get_obj s1 (ah_app ah))) (h_bag (ah_h ah) CPkgs)) as [[newp oldp] seen']. cbn [fst].
    change (get_obj (ghost_drop (put_obj s1 (ah_app ah) (set_seen_pkgs (get_obj s1 (ah_app ah)) seen')) RSeenPkg (tags oldp)) i)
      with (get_obj (put_obj s1 (ah_app ah) (set_seen_pkgs (get_obj s1 (ah_app ah)) seen')) i).
    rewrite get_obj_put_obj. destruct (Nat.eqb_spec (ah_app ah) i) as [E|E]; [exfalso; apply Hi; symmetry; exact E|reflexivity]. }
  destruct (filter_harvest_pkgs s1 (ah_app ah) (ah_h ah)) as [s2 h1]. cbn [fst] in F.
  pose proof (emit_cats_ok (ctx_of s ah 0) (final_metrics h1) all_order s2) as [(_ & _ & Oo & _) _].
  destruct (emit_cats s2 (ctx_of s ah 0) (final_metrics h1) all_order) as [s3 qs]. cbn [fst] in *.
  pose proof (flush_payloads_ghosts outs qs (ghost_sent s3 (concat (map (fun q => tags (rq_items q)) qs)))) as P.
  cbn zeta in P. destruct P as (_ & _ & _ & _ & _ & P6 & _).
  unfold get_obj at 1. rewrite P6. cbn [p_objs ghost_sent]. rewrite Oo. exact F.
Qed.

Record untouched (a : nat) (s s' : proc) : Prop := {
  ut_ah : get_ah s' a = get_ah s a;
  ut_len : length (p_ahs s') = length (p_ahs s);
  ut_obj : get_obj s' (ah_app (get_ah s a)) = get_obj s (ah_app (get_ah s a));
  ut_now : p_now s' = p_now s;
  ut_ack : forall t, In t (g_acked s) -> In t (g_acked s');
  ut_drop : forall x, In x (g_dropped s) -> In x (g_dropped s')
}.

Lemma untouched_refl a s : untouched a s s.
Proof. constructor; auto. Qed.
Lemma untouched_trans a s1 s2 s3 : untouched a s1 s2 -> untouched a s2 s3 -> untouched a s1 s3.
Proof.
  intros A B. constructor.
  - rewrite (ut_ah _ _ _ B). apply A.
  - rewrite (ut_len _ _ _ B). apply A.
  - pose proof (ut_obj _ _ _ B) as E. rewrite (ut_ah _ _ _ A) in E. rewrite E. apply A.
  - rewrite (ut_now _ _ _ B). apply A.
  - intros t H. apply (ut_ack _ _ _ B). apply (ut_ack _ _ _ A). exact H.
  - intros x H. apply (ut_drop _ _ _ B). apply (ut_drop _ _ _ A). exact H.
Qed.

(* what the flush of another entry of the run table emits and leaves alone *)
Lemma flush_other outs s o ra a :
  snd ra <> a -> ah_app (get_ah s (snd ra)) <> ah_app (get_ah s a) ->
  untouched a s (fst (flush_run outs (s, o) ra)) /\
  exists extra, snd (flush_run outs (s, o) ra) = o ++ map OutReq extra /\
                forall q, In q extra -> rq_run q = ah_run (get_ah s (snd ra)).
Proof.
  intros Na Napp. pose proof (flush_run_obj_other outs s o ra (ah_app (get_ah s a)) ltac:(congruence)) as Eo.
  destruct (flush_run_flow outs s o ra) as [(_ & E & Eout)|[(_ & _ & Eout & E)|(La & _ & qs & Eout & F)]]; cbn zeta in *.
  - rewrite E, Eout. split; [apply untouched_refl|]. exists []. rewrite app_nil_r. split; [reflexivity|intros q []].
  - rewrite Eout. split; [rewrite E; constructor; auto|]. exists []. rewrite app_nil_r. split; [reflexivity|intros q []].
  - split.
    + destruct (put_view s _ _ _ (ff_ahs _ _ _ _ _ F)) as (Ln & _ & _ & Vo & _). constructor.
      * apply Vo. congruence.
      * exact Ln.
      * exact Eo.
      * apply (ff_now _ _ _ _ _ F).
      * intros t H. rewrite (ff_ack _ _ _ _ _ F). apply in_or_app. left. exact H.
      * intros x H. rewrite (ff_drop _ _ _ _ _ F). apply in_or_app. left. exact H.
    + exists qs. split; [exact Eout|]. intros q Hq. destruct (ff_from _ _ _ _ _ F q Hq) as (c & _ & (_ & _ & _ & Cr) & _). exact Cr.
Qed.

Lemma flush_others outs s a r l : forall acc,
  ctx_same s (fst acc) ->
  (forall ra, In ra l -> ah_run (get_ah s (snd ra)) <> r /\ snd ra <> a /\ ah_app (get_ah s (snd ra)) <> ah_app (get_ah s a)) ->
  let res := fold_left (flush_run outs) l acc in
  ctx_same s (fst res) /\ untouched a (fst acc) (fst res) /\
  exists extra, snd res = snd acc ++ map OutReq extra /\ forall q, In q extra -> rq_run q <> r.
Proof.
  induction l as [|ra rest IH]; intros [sa oa] Cs Hl; cbn [fold_left].
  - cbn [fst snd]. split; [exact Cs|]. split; [apply untouched_refl|]. exists []. rewrite app_nil_r. split; [reflexivity|intros q []].
  - cbn [fst snd] in *. destruct (Hl ra (or_introl eq_refl)) as (Hr & Ha & Happ).
    destruct Cs as [Cj Ci]. destruct (Cj (snd ra)) as [Er Ea]. destruct (Cj a) as [_ Ea'].
    destruct (flush_other outs sa oa ra a Ha ltac:(congruence)) as (U1 & extra1 & Eo1 & R1).
    destruct (ctx_flush_run outs sa oa ra) as (C1 & _).
    specialize (IH (flush_run outs (sa, oa) ra)). destruct (flush_run outs (sa, oa) ra) as [s1 o1]. cbn [fst snd] in *.
    destruct (IH (ctx_same_trans _ _ _ (conj Cj Ci) C1) (fun x Hx => Hl x (or_intror Hx))) as (C2 & U2 & extra2 & Eo2 & R2).
    split; [exact C2|]. split; [eapply untouched_trans; eassumption|].
    exists (extra1 ++ extra2). split; [rewrite Eo2, Eo1, map_app, app_assoc; reflexivity|].
    intros q Hq. apply in_app_or in Hq. destruct Hq as [Hq|Hq]; [rewrite (R1 q Hq), Er; exact Hr|apply R2; exact Hq].
Qed.

(* ------------------------------------------------------------------ the final flush, run by run *)
Record flushed_run (outs : N -> cat -> outcome) (s : proc) (r : N) (a : nat) (s' : proc) (o : list out) : Prop := {
  fr_empty : harvest_tags (ah_h (get_ah s' a)) = [];
  fr_reqs : exists before qs after,
      o = map OutReq before ++ map OutReq qs ++ map OutReq after ++ [OutExited] /\
      (forall q, In q before -> rq_run q <> r) /\ (forall q, In q after -> rq_run q <> r) /\
      (forall q, In q qs -> rq_run q = r /\ exists c, rq_kind q = RHarvest c) /\
      (forall t, cnt t (req_tags qs) + cnt t (seen_part s (ah_app (get_ah s a)) (ah_h (get_ah s a))) =
                 cnt t (harvest_tags (ah_h (get_ah s a)))) /\
      (forall t, In t (req_tags (filter (final_ok outs) qs)) -> In t (g_acked s')) /\
      (forall t, In t (req_tags (filter (fun q => negb (final_ok outs q)) qs)) -> In (t, RFinalFailed) (g_dropped s')) /\
      (forall t, In t (seen_part s (ah_app (get_ah s a)) (ah_h (get_ah s a))) -> In (t, RSeenPkg) (g_dropped s'))
}.

Lemma clean_exit_run outs s r a :
  life_inv s -> tab_inv s -> lookupN r (p_runs s) = Some a ->
  flush_inactive (get_obj s (ah_app (get_ah s a))) (p_now s) = false ->
  flushed_run outs s r a (fst (clean_exit s outs)) (snd (clean_exit s outs)).
Proof.
  intros Li T Lk Hin. pose proof (li_runs s Li _ _ Lk) as La.
  pose proof (lookupN_in _ _ _ Lk) as Hmem. apply in_split in Hmem. destruct Hmem as (l1 & l2 & El).
  assert (Hoth : forall ra, In ra (l1 ++ l2) ->
                 ah_run (get_ah s (snd ra)) <> r /\ snd ra <> a /\ ah_app (get_ah s (snd ra)) <> ah_app (get_ah s a)).
  { intros [r' a'] Hra. cbn [snd].
    pose proof (ti_keys s T) as ND. rewrite El, map_app in ND. cbn [map fst] in ND.
    assert (Hr : r' <> r).
    { intros ->. apply NoDup_remove_2 in ND. apply ND. rewrite <- map_app. apply in_map_iff. exists (r, a'). split; [reflexivity|exact Hra]. }
    assert (Lk' : lookupN r' (p_runs s) = Some a').
    { apply in_lookupN; [apply (ti_keys s T)|]. rewrite El. apply in_app_or in Hra. apply in_or_app. destruct Hra; [left|right; right]; assumption. }
    pose proof (ti_run s T _ _ Lk') as E1. pose proof (ti_run s T _ _ Lk) as E2.
    split; [rewrite E1; exact Hr|]. split; [intros ->; congruence|].
    intros Eapp. apply Hr. apply (li_uniq s Li r' r a' a Lk' Lk). exact Eapp. }
  unfold clean_exit. rewrite El, fold_left_app. cbn [fold_left].
  destruct (flush_others outs s a r l1 (s, []) (ctx_same_refl s) (fun x Hx => Hoth x (in_or_app _ _ _ (or_introl Hx)))) as (C1 & U1 & ex1 & Eo1 & R1).
  destruct (fold_left (flush_run outs) l1 (s, [])) as [s1 o1]. cbn [fst snd app] in *.
  (* the run itself *)
  assert (G1 : get_ah s1 a = get_ah s a) by apply U1.
  assert (La1 : a < length (p_ahs s1)) by (rewrite (ut_len _ _ _ U1); exact La).
  assert (Hin1 : flush_inactive (get_obj s1 (ah_app (get_ah s1 a))) (p_now s1) = false).
  { rewrite G1, (ut_obj _ _ _ U1), (ut_now _ _ _ U1). exact Hin. }
  destruct (flush_run_flow outs s1 o1 (r, a)) as [(Lb & _)|[(_ & Hi & _)|(_ & _ & qs & Eo2 & F)]]; cbn zeta in *; cbn [snd] in *; try lia; try congruence.
  destruct (ctx_flush_run outs s1 o1 (r, a)) as (C2 & _).
  set (acc2 := flush_run outs (s1, o1) (r, a)) in *.
  assert (Cs2 : ctx_same s (fst acc2)) by (eapply ctx_same_trans; eassumption).
  destruct (flush_others outs s a r l2 acc2 Cs2 (fun x Hx => Hoth x (in_or_app _ _ _ (or_intror Hx)))) as (C3 & U3 & ex3 & Eo3 & R3).
  destruct (fold_left (flush_run outs) l2 acc2) as [s3 o3]. cbn [fst snd] in *.
  destruct (put_view s1 _ a _ (ff_ahs _ _ _ _ _ F)) as (_ & _ & _ & _ & Vn). specialize (Vn La1).
  assert (Sp : seen_part s1 (ah_app (get_ah s1 a)) (ah_h (get_ah s1 a)) = seen_part s (ah_app (get_ah s a)) (ah_h (get_ah s a))).
  { rewrite G1. unfold seen_part. rewrite (ut_obj _ _ _ U1). reflexivity. }
  constructor.
  - cbn [get_ah p_ahs with_quit]. change (get_ah (with_quit s3 true) a) with (get_ah s3 a). rewrite (ut_ah _ _ _ U3), Vn. reflexivity.
  - exists ex1, qs, ex3. split; [rewrite Eo3, Eo2, Eo1, <- !app_assoc; reflexivity|].
    split; [exact R1|]. split; [exact R3|]. split; [|split; [|split; [|split]]].
    + intros q Hq. destruct (ff_from _ _ _ _ _ F q Hq) as (c & K & (_ & _ & _ & Cr) & _). split; [|exists c; exact K].
      rewrite Cr. cbn [e_run ctx_of]. rewrite G1. apply (ti_run s T). exact Lk.
    + intros t. pose proof (ff_cnt _ _ _ _ _ F t) as Ct. rewrite Sp, G1 in Ct. exact Ct.
    + intros t Ht. cbn [g_acked with_quit]. apply (ut_ack _ _ _ U3). rewrite (ff_ack _ _ _ _ _ F). apply in_or_app. right. exact Ht.
    + intros t Ht. cbn [g_dropped with_quit]. apply (ut_drop _ _ _ U3). rewrite (ff_drop _ _ _ _ _ F). apply in_or_app. right. apply in_or_app. right.
      apply in_map_iff. exists t. split; [reflexivity|exact Ht].
    + intros t Ht. cbn [g_dropped with_quit]. apply (ut_drop _ _ _ U3). rewrite (ff_drop _ _ _ _ _ F). apply in_or_app. right. apply in_or_app. left.
      rewrite Sp. apply in_map_iff. exists t. split; [reflexivity|exact Ht].
Qed.

Lemma filter_none {A} (p : A -> bool) l : (forall x, In x l -> p x = false) -> filter p l = [].
Proof. induction l as [|x r IH]; intros H; cbn [filter]; [reflexivity|]. rewrite (H x (or_introl eq_refl)). apply IH. intros y Hy. apply H. right. exact Hy. Qed.
Lemma filter_all {A} (p : A -> bool) l : (forall x, In x l -> p x = true) -> filter p l = l.
Proof. induction l as [|x r IH]; intros H; cbn [filter]; [reflexivity|]. rewrite (H x (or_introl eq_refl)). f_equal. apply IH. intros y Hy. apply H. right. exact Hy. Qed.

(* the final requests made for run r *)
Definition final_for (r : N) (o : list out) : list request := filter (fun q => (rq_run q =? r)%N) (reqs_of o).

(* C11: the final flush sends, for EVERY held run whose application is not past its inactivity time-out,
   exactly the data of its harvest minus the packages already reported, each unit with its multiplicity
   (once, when tags are distinct), in harvest requests under that run id -- whatever the outcomes *)
Theorem flush_complete ops outs r a :
  let s := fst (run ops) in
  lookupN r (p_runs s) = Some a ->
  flush_inactive (get_obj s (ah_app (get_ah s a))) (p_now s) = false ->
  let mine := final_for r (snd (clean_exit s outs)) in
  (forall q, In q mine -> exists c, rq_kind q = RHarvest c) /\
  (forall t, cnt t (req_tags mine) + cnt t (seen_part s (ah_app (get_ah s a)) (ah_h (get_ah s a))) =
             cnt t (harvest_tags (ah_h (get_ah s a)))) /\
  harvest_tags (ah_h (get_ah (fst (clean_exit s outs)) a)) = [].
Proof.
  intros s Lk Hin. destruct (clean_exit_run outs s r a (life_inv_reachable ops) (tab_inv_reachable ops) Lk Hin) as [Em (before & qs & after & Eo & Rb & Ra & Rq & Ct & _)].
  cbn zeta. unfold final_for. rewrite Eo, !reqs_of_app, !reqs_of_map. cbn [reqs_of map concat]. rewrite app_nil_r, !filter_app.
  rewrite (filter_none _ before), (filter_none _ after), (filter_all _ qs), app_nil_r; cbn [app].
  - split; [intros q Hq; apply (Rq q Hq)|]. split; [exact Ct|exact Em].
  - intros q Hq. apply N.eqb_eq. apply (Rq q Hq).
  - intros q Hq. apply N.eqb_neq. apply Ra. exact Hq.
  - intros q Hq. apply N.eqb_neq. apply Rb. exact Hq.
Qed.

(* C01: after an accepting history that ends with the final flush, every run that was held (application not
   inactive) has an empty harvest, and every unit it held is acknowledged or was an already reported package *)
Theorem flush_delivers pre outs r a :
  accepting (pre ++ [OCleanExit outs]) ->
  let s := fst (run pre) in
  p_quit s = false -> lookupN r (p_runs s) = Some a ->
  flush_inactive (get_obj s (ah_app (get_ah s a))) (p_now s) = false ->
  let s' := fst (run (pre ++ [OCleanExit outs])) in
  harvest_tags (ah_h (get_ah s' a)) = [] /\
  forall t, In t (harvest_tags (ah_h (get_ah s a))) -> In t (g_acked s') \/ In (t, RSeenPkg) (g_dropped s').
Proof.
  intros Ac s Q Lk Hin. cbn zeta. destruct (run_snoc pre (OCleanExit outs)) as [E _]. rewrite E. fold s. unfold step. rewrite Q.
  destruct (clean_exit_run outs s r a (life_inv_reachable pre) (tab_inv_reachable pre) Lk Hin) as [Em (before & qs & after & _ & _ & _ & _ & Ct & Ak & _ & Sn)].
  split; [exact Em|]. intros t Ht.
  assert (Ok : forall r' c, outs r' c = OOk).
  { apply Forall_app in Ac. destruct Ac as [_ Ac]. inversion Ac; subst. assumption. }
  destruct (final_ok_accepting outs qs Ok) as [E1 _]. rewrite E1 in Ak.
  apply in_cnt in Ht. specialize (Ct t).
  destruct (cnt t (req_tags qs)) eqn:E0.
  - right. apply Sn. apply in_cnt. lia.
  - left. apply Ak. apply in_cnt. lia.
Qed.

(* ------------------------------------------------------------------ non-vacuity *)
Definition pkg (t k : N) : item := {| i_tag := t; i_prio := 0%Z; i_key := k |}.
Definition all_ok : N -> cat -> outcome := fun _ _ => OOk.
Definition accepting_history : list op :=
  connect1 1 7 ++ connect1 2 8 ++
  [OTxn 7 {| t_items := [(CMetrics, metric 100); (CCustom, event_item 101)]; t_pkgs := Some [pkg 102 1] |};
   OTxn 8 (one_custom 200);
   OTick 0 HAll; OReplyCat (Some CMetrics) OOk; OReplyCat (Some CCustom) OOk; OReplyCat (Some CPkgs) OOk;
   OTxn 7 {| t_items := [(CMetrics, metric 110)]; t_pkgs := Some [pkg 111 1; pkg 112 2] |};
   OTxn 7 {| t_items := []; t_pkgs := Some [pkg 113 1; pkg 114 3] |}].

Lemma accepting_history_ok : accepting (accepting_history ++ [OCleanExit all_ok]).
Proof. repeat constructor. Qed.

Example accepting_history_facts :
  let s := fst (run accepting_history) in
  let s' := fst (run (accepting_history ++ [OCleanExit all_ok])) in
  p_quit s = false /\ lookupN 7 (p_runs s) = Some 0 /\ lookupN 8 (p_runs s) = Some 1 /\
  harvest_tags (ah_h (get_ah s 0)) = [110; 113; 114]%N /\ harvest_tags (ah_h (get_ah s 1)) = [200%N] /\
  g_acked s' = [100; 101; 102; 200; 110; 114]%N /\
  g_dropped s' = [(111, ROverwritten); (112, ROverwritten); (113, RSeenPkg)]%N /\
  req_tags (final_for 7 (snd (clean_exit s all_ok))) = [110; 114]%N /\
  req_tags (final_for 8 (snd (clean_exit s all_ok))) = [200%N] /\
  harvest_tags (ah_h (get_ah s' 0)) = [] /\ harvest_tags (ah_h (get_ah s' 1)) = [].
Proof. vm_compute. repeat split. Qed.
