(* RulesMonitor.v -- an executable rendering of RuleSem written separately from
   Rules.rule_apply / rules_loop (different decomposition: explicit cutting, map over segments,
   a state machine for the chain), used as the monitor for observed MetricRules.Apply results.
   It shares with the model only the matcher (abstract here, the concrete one for execution). *)
From Coq Require Import ZArith NArith List Bool.
From Verif Require Import Metrics Rules.
Import ListNotations.
Open Scope nat_scope.

Section Sem.
  Variable regex : Type.
  Variable find_first : regex -> name -> option (nat * nat).
  Variable replace_all : regex -> name -> name -> name.

  Fixpoint cut (n : nat) (s : name) : name * name :=
    match n, s with
    | O, _ => ([], s)
    | S n', c :: r => let (p, q) := cut n' r in (c :: p, q)
    | S _, [] => ([], [])
    end.

  (* None: no match *)
  Definition sem_first (re : regex) (rp s : name) : option name :=
    match find_first re s with
    | None => None
    | Some (a, b) =>
        let (pre, rest) := cut a s in
        let (mid, post) := cut (b - a) rest in
        Some (pre ++ replace_all re mid rp ++ post)
    end.

  Definition sem_segments (s : name) : list name :=
    fold_right (fun c acc => if N.eqb c 47 then [] :: acc
                             else match acc with seg :: r => (c :: seg) :: r | [] => [[c]] end) [[]] s.
  Definition sem_join (l : list name) : name :=
    match l with
    | [] => []
    | x :: r => x ++ flat_map (fun y => 47%N :: y) r
    end.

  Inductive verdict := VIgnore | VOut (matched : bool) (out : name).

  Definition sem_rule (r : rule regex) (s : name) : verdict :=
    match r_ignore r, r_replace_all r, r_each_segment r with
    | true, _, _ =>
        match find_first (r_re r) s with
        | Some (a, b) => if a <? b then VIgnore else VOut false s
        | None => VOut false s
        end
    | false, true, _ =>
        match find_first (r_re r) s with
        | Some _ => VOut true (replace_all (r_re r) s (r_repl r))
        | None => VOut false s
        end
    | false, false, true =>
        let outs := map (fun seg => (seg, sem_first (r_re r) (r_repl r) seg)) (sem_segments s) in
        VOut (existsb (fun p => match snd p with Some _ => true | None => false end) outs)
             (sem_join (map (fun p => match snd p with Some o => o | None => fst p end) outs))
    | false, false, false =>
        match sem_first (r_re r) (r_repl r) s with
        | Some o => VOut true o
        | None => VOut false s
        end
    end.

  (* chain state: still running with the current name and the matched flag, or finished *)
  Inductive cstate := Run (s : name) (matched : bool) | Fin (res : rresult) (out : name).
  Definition sem_step (st : cstate) (r : rule regex) : cstate :=
    match st with
    | Fin _ _ => st
    | Run s m =>
        match sem_rule r s with
        | VIgnore => Fin RIgnore []
        | VOut false out => Run out m
        | VOut true out => if r_terminate r then Fin RMatched out else Run out true
        end
    end.
  Definition sem_chain (rs : list (rule regex)) (s : name) : rresult * name :=
    match fold_left sem_step rs (Run s false) with
    | Fin res out => (res, out)
    | Run out m => (if m then RMatched else RUnmatched, out)
    end.
End Sem.

Definition rresult_eqb (a b : rresult) : bool :=
  match a, b with
  | RMatched, RMatched | RUnmatched, RUnmatched | RIgnore, RIgnore => true
  | _, _ => false
  end.

(* concrete instance *)
Definition c_sem_chain : list crule -> name -> rresult * name := sem_chain cregex c_find_first c_replace_all.
Definition c_compile (w : craw) : option crule := compile_rule cregex parse_re w.

(* the rename the table monitors use for a rule list given as JSON objects (no eval_order ties) *)
Definition mon_rename_of (ws : list craw) : option (name -> name) :=
  match c_rules_from_json ws with
  | [] => None
  | rs => Some (fun n => snd (c_sem_chain rs n))
  end.

Fixpoint nondecreasing (l : list Z) : bool :=
  match l with
  | a :: (b :: _) as r => Z.leb a b && nondecreasing r
  | _ => true
  end.

(* observed rule application.  [stored]: for each rule Go kept after NewMetricRulesFromJSON, in
   its stored order, the index of the JSON object it came from.  The monitor accepts any
   tie-break among equal eval_order values: it checks that the stored order is ascending, that it
   holds exactly the valid rules, and that every observed result is what the chain specification
   gives for the rules in that order. *)
Definition mon_rules (ws : list craw) (stored : list nat) (obs : list (name * (rresult * name))) : bool :=
  let compiled := map c_compile ws in
  let valid := filter (fun i => match nth i compiled None with Some _ => true | None => false end) (seq 0 (length ws)) in
  let rs := flat_map (fun i => match nth i compiled None with Some r => [r] | None => [] end) stored in
  (length stored =? length valid)
  && forallb (fun i => count_occ Nat.eq_dec stored i =? 1) valid
  && nondecreasing (map (fun r => r_order r) rs)
  && forallb (fun p => let (res, out) := c_sem_chain rs (fst p) in
                       rresult_eqb res (fst (snd p)) && name_eqb out (snd (snd p))) obs.

(* correspondence: the model's own pipeline *)
Definition corr_rules (ws : list craw) (stored : list nat) (orders : list Z) (obs : list (name * (rresult * name))) : bool :=
  let model := c_rules_from_json ws in
  let compiled := map c_compile ws in
  let rs := flat_map (fun i => match nth i compiled None with Some r => [r] | None => [] end) stored in
  (length model =? length orders)
  && forallb (fun p => Z.eqb (fst p) (snd p)) (combine (map (fun r => r_order r) model) orders)
  && forallb (fun p => let (res, out) := c_rules_apply rs (fst p) in
                       rresult_eqb res (fst (snd p)) && name_eqb out (snd (snd p))) obs.
