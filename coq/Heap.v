(* Heap.v -- transcription of Go's container/heap (go1.23 src/container/heap/heap.go: Init, Push, Pop,
   up, down) over a list used as an array, parametric in the element comparison `less`
   (h.Less(i, j) = less (h[i]) (h[j])).  The interface methods the repository supplies for its three
   heaps are all the same: Swap exchanges two slots, Push appends, Pop removes the last slot.
   Definitions only; proofs are in HeapProofs.v.

   Loops are written with fuel.  Every caller passes enough fuel (HeapProofs.up_fuel / down_fuel show
   the result does not depend on the fuel once it exceeds the obvious bound), so the out-of-fuel
   branch is never what is returned. *)
From Coq Require Import List Arith Bool.
Import ListNotations.

(* h[i] = x  (no-op when i is out of range; the callers below never are) *)
Fixpoint upd {A} (l : list A) (i : nat) (x : A) : list A :=
  match l, i with
  | [], _ => []
  | _ :: t, O => x :: t
  | h :: t, S i' => h :: upd t i' x
  end.

(* h[i], h[j] = h[j], h[i] *)
Definition swap {A} (l : list A) (i j : nat) : list A :=
  match nth_error l i, nth_error l j with
  | Some a, Some b => upd (upd l i b) j a
  | _, _ => l
  end.

Section Heap.
  Context {A : Type} (less : A -> A -> bool).

  (* h.Less(i, j) *)
  Definition less_at (l : list A) (i j : nat) : bool :=
    match nth_error l i, nth_error l j with
    | Some a, Some b => less a b
    | _, _ => false
    end.

  (* func up(h Interface, j int) {
       for { i := (j - 1) / 2 // parent
             if i == j || !h.Less(j, i) { break }
             h.Swap(i, j); j = i } }
     Go's (0-1)/2 = 0 (truncation) and nat's (0-1)/2 = 0 agree. *)
  Fixpoint up (fuel : nat) (l : list A) (j : nat) : list A :=
    match fuel with
    | O => l
    | S f =>
        let i := (j - 1) / 2 in
        if (i =? j) || negb (less_at l j i) then l
        else up f (swap l i j) i
    end.

  (* func down(h Interface, i0, n int) bool {
       i := i0
       for { j1 := 2*i + 1
             if j1 >= n || j1 < 0 { break }
             j := j1
             if j2 := j1 + 1; j2 < n && h.Less(j2, j1) { j = j2 }
             if !h.Less(j, i) { break }
             h.Swap(i, j); i = j }
       return i > i0 }
     (the boolean result is used by Remove/Fix only, which the daemon does not call) *)
  Fixpoint down (fuel : nat) (l : list A) (i n : nat) : list A :=
    match fuel with
    | O => l
    | S f =>
        let j1 := 2 * i + 1 in
        if n <=? j1 then l
        else
          let j2 := j1 + 1 in
          let j := if (j2 <? n) && less_at l j2 j1 then j2 else j1 in
          if negb (less_at l j i) then l
          else down f (swap l i j) j n
    end.

  (* func Init(h Interface) { n := h.Len(); for i := n/2 - 1; i >= 0; i-- { down(h, i, n) } }
     init_loop k runs i = k-1, k-2, ..., 0 *)
  Fixpoint init_loop (k : nat) (l : list A) (n : nat) : list A :=
    match k with
    | O => l
    | S i => init_loop i (down n l i n) n
    end.

  Definition init (l : list A) : list A :=
    let n := length l in init_loop (n / 2) l n.

  (* func Push(h Interface, x any) { h.Push(x); up(h, h.Len()-1) } *)
  Definition push (l : list A) (x : A) : list A :=
    let l' := l ++ [x] in
    up (length l') l' (length l' - 1).

  (* func Pop(h Interface) any { n := h.Len() - 1; h.Swap(0, n); down(h, 0, n); return h.Pop() }
     On an empty heap Swap(0, -1) panics: None. *)
  Definition pop (l : list A) : option (A * list A) :=
    match l with
    | [] => None
    | _ :: _ =>
        let n := length l - 1 in
        let l1 := swap l 0 n in
        let l2 := down (S n) l1 0 n in
        match nth_error l2 n with
        | Some x => Some (x, firstn n l2)
        | None => None
        end
    end.
End Heap.
