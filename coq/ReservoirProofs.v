(* ReservoirProofs.v -- properties of the analyticsEvents model (Reservoir.v). *)
From Coq Require Import List ZArith Arith Bool Lia Permutation.
From Verif Require Import Heap HeapProofs TopK TopKProofs Reservoir.
From Verif.Gen Require Import Limits_gen.
Import ListNotations.
Open Scope nat_scope.

Lemma ev_less_key : forall a b, ev_less a b = (prio a <? prio b)%Z.
Proof. reflexivity. Qed.

(* shape invariant of a reservoir that is only used through AddEvent/Merge/MergeFailed:
   never longer than the capacity, and a heap from the moment it is full *)
Definition wf (r : res) : Prop :=
  length (items r) <= cap r /\ (length (items r) = cap r -> heap_ordered prio (items r)).

Lemma wf_new K : wf (new_res K).
Proof. split; cbn; [lia|]. intros _. apply heap_ordered_nil. Qed.

Lemma add_event_inv r e off :
  wf r -> topk_inv prio (cap r) (items r) off ->
  let r' := add_event r e in
  wf r' /\ topk_inv prio (cap r) (items r') (off ++ [e]) /\
  cap r' = cap r /\ seen r' = (seen r + 1)%Z /\ failed r' = failed r.
Proof.
  intros [Hlen Hheap] Hinv. unfold add_event.
  destruct (length (items r) <? cap r) eqn:E1.
  - apply Nat.ltb_lt in E1.
    destruct (length (items r ++ [e]) =? cap r) eqn:E2; cbv zeta; unfold wf; cbn [cap items seen failed].
    + apply Nat.eqb_eq in E2.
      refine (conj (conj _ _) (conj _ (conj eq_refl (conj eq_refl eq_refl)))).
      * rewrite init_length. lia.
      * intros _. apply (init_ordered ev_less prio ev_less_key).
      * eapply topk_inv_grow; [exact Hinv|exact E1|].
        eapply perm_trans; [apply init_perm|]. apply Permutation_sym, Permutation_cons_append.
    + apply Nat.eqb_neq in E2. rewrite app_length in *. cbn [length] in *.
      refine (conj (conj _ _) (conj _ (conj eq_refl (conj eq_refl eq_refl)))).
      * lia.
      * intros Heq. lia.
      * eapply topk_inv_grow; [exact Hinv|exact E1|]. apply Permutation_sym, Permutation_cons_append.
  - apply Nat.ltb_ge in E1.
    destruct (cap r =? 0) eqn:E0.
    + apply Nat.eqb_eq in E0. cbv zeta; unfold wf; cbn [cap items seen failed].
      refine (conj (conj Hlen Hheap) (conj _ (conj eq_refl (conj eq_refl eq_refl)))).
      apply topk_inv_refuse; [exact Hinv|exact E1|].
      intros x Hx. destruct (items r); [destruct Hx|cbn in Hlen; lia].
    + apply Nat.eqb_neq in E0.
      assert (Hfull : length (items r) = cap r) by lia.
      specialize (Hheap Hfull).
      destruct (items r) as [|root t] eqn:Eit; [cbn in Hfull; lia|].
      unfold is_lower_priority.
      destruct (prio e <? prio root)%Z eqn:Elow.
      * apply Z.ltb_lt in Elow. cbv zeta; unfold wf; cbn [cap items seen failed].
        refine (conj (conj Hlen (fun _ => Hheap)) (conj _ (conj eq_refl (conj eq_refl eq_refl)))).
        apply topk_inv_refuse; [exact Hinv|lia|].
        intros x Hx. pose proof (root_min prio root t Hheap x Hx). lia.
      * apply Z.ltb_ge in Elow.
        destruct (pop_some ev_less root t) as [x [it' Hpop]]. rewrite Hpop.
        destruct (pop_spec ev_less prio ev_less_key root t x it' Hheap Hpop) as [-> [Hperm [Hord Hl']]].
        cbv zeta; unfold wf; cbn [cap items seen failed].
        refine (conj (conj _ _) (conj _ (conj eq_refl (conj eq_refl eq_refl)))).
        -- rewrite push_length. cbn in Hfull. lia.
        -- intros _. apply (push_ordered ev_less prio ev_less_key). exact Hord.
        -- eapply topk_inv_replace with (m := root) (rest := it').
           ++ exact Hinv.
           ++ lia.
           ++ exact Hperm.
           ++ intros y Hy. apply (root_min prio root t Hheap y Hy).
           ++ exact Elow.
           ++ apply push_perm.
Qed.

Lemma add_events_inv l : forall r off,
  wf r -> topk_inv prio (cap r) (items r) off ->
  let r' := fold_left add_event l r in
  wf r' /\ topk_inv prio (cap r) (items r') (off ++ l) /\
  cap r' = cap r /\ seen r' = (seen r + Z.of_nat (length l))%Z /\ failed r' = failed r.
Proof.
  induction l as [|e l IH]; intros r off Hwf Hinv; cbn [fold_left]; cbv zeta.
  - rewrite app_nil_r. cbn [length].
    refine (conj Hwf (conj Hinv (conj eq_refl (conj _ eq_refl)))). lia.
  - destruct (add_event_inv r e off Hwf Hinv) as [Hwf1 [Hinv1 [Hc1 [Hs1 Hf1]]]].
    rewrite <- Hc1 in Hinv1.
    destruct (IH (add_event r e) (off ++ [e]) Hwf1 Hinv1) as [Hwf2 [Hinv2 [Hc2 [Hs2 Hf2]]]].
    rewrite <- app_assoc in Hinv2. cbn [app] in Hinv2. rewrite Hc1 in Hinv2.
    refine (conj Hwf2 (conj Hinv2 (conj _ (conj _ _)))); try congruence.
    rewrite Hs2, Hs1. cbn [length]. lia.
Qed.

Lemma merge_inv r o off :
  wf r -> topk_inv prio (cap r) (items r) off ->
  let r' := merge r o in
  wf r' /\ topk_inv prio (cap r) (items r') (off ++ items o) /\
  cap r' = cap r /\ seen r' = (seen r + seen o)%Z /\ failed r' = failed r.
Proof.
  intros Hwf Hinv. unfold merge.
  destruct (add_events_inv (items o) r off Hwf Hinv) as [Hw [Hinv2 [Hc2 [_ Hf2]]]].
  cbv zeta. unfold wf in *. cbn [cap items seen failed].
  refine (conj Hw (conj Hinv2 (conj Hc2 (conj eq_refl Hf2)))).
Qed.

Lemma merge_failed_inv r o off :
  wf r -> topk_inv prio (cap r) (items r) off ->
  let r' := merge_failed r o in
  wf r' /\ topk_inv prio (cap r) (items r') (off ++ (if carried o then items o else [])) /\
  cap r' = cap r /\ seen r' = (seen r + (if carried o then seen o else 0))%Z /\
  failed r' = (if carried o then failed o + 1 else failed r)%Z.
Proof.
  intros Hwf Hinv. unfold merge_failed, carried.
  destruct (FailedEventsAttemptsLimit <? failed o + 1)%Z; cbn [negb]; cbv zeta.
  - rewrite app_nil_r.
    refine (conj Hwf (conj Hinv (conj eq_refl (conj _ eq_refl)))). lia.
  - set (r0 := mkRes (cap r) (items r) (seen r) (failed o + 1)).
    assert (Hwf0 : wf r0) by exact Hwf.
    destruct (merge_inv r0 o off Hwf0 Hinv) as [Hw [Hi [Hc [Hs Hf]]]].
    refine (conj Hw (conj Hi (conj Hc (conj Hs Hf)))).
Qed.

Lemma rstep_inv r op off :
  wf r -> topk_inv prio (cap r) (items r) off ->
  let r' := rstep r op in
  wf r' /\ topk_inv prio (cap r) (items r') (off ++ offered_op op) /\
  cap r' = cap r /\ seen r' = (seen r + seen_op op)%Z.
Proof.
  intros Hwf Hinv. destruct op as [e|e|o|o]; cbn [rstep offered_op seen_op]; cbv zeta.
  - destruct (add_event_inv r e off Hwf Hinv) as [H1 [H2 [H3 [H4 _]]]].
    exact (conj H1 (conj H2 (conj H3 H4))).
  - destruct (add_event_inv r (boost e) off Hwf Hinv) as [H1 [H2 [H3 [H4 _]]]].
    exact (conj H1 (conj H2 (conj H3 H4))).
  - destruct (merge_inv r o off Hwf Hinv) as [H1 [H2 [H3 [H4 _]]]].
    exact (conj H1 (conj H2 (conj H3 H4))).
  - destruct (merge_failed_inv r o off Hwf Hinv) as [H1 [H2 [H3 [H4 _]]]].
    exact (conj H1 (conj H2 (conj H3 H4))).
Qed.

Lemma run_inv ops : forall r off,
  wf r -> topk_inv prio (cap r) (items r) off ->
  let r' := fold_left rstep ops r in
  wf r' /\ topk_inv prio (cap r) (items r') (off ++ offered ops) /\
  cap r' = cap r /\ seen r' = (seen r + seen_total ops)%Z.
Proof.
  induction ops as [|op ops IH]; intros r off Hwf Hinv;
    cbn [fold_left offered flat_map seen_total fold_right]; cbv zeta.
  - rewrite app_nil_r. refine (conj Hwf (conj Hinv (conj eq_refl _))). lia.
  - destruct (rstep_inv r op off Hwf Hinv) as [Hwf1 [Hinv1 [Hc1 Hs1]]].
    rewrite <- Hc1 in Hinv1.
    destruct (IH (rstep r op) (off ++ offered_op op) Hwf1 Hinv1) as [Hwf2 [Hinv2 [Hc2 Hs2]]].
    rewrite <- app_assoc in Hinv2. rewrite Hc1 in Hinv2.
    refine (conj Hwf2 (conj Hinv2 (conj _ _))); try congruence.
    rewrite Hs2, Hs1. fold (seen_total ops). lia.
Qed.

(* ---------------------------------------------------------------- the statements *)

(* After ANY sequence of AddEvent / AddSyntheticsEvent / Merge / MergeFailed into a fresh reservoir of
   capacity K, the retained events are K largest (by priority) of everything offered. *)
Lemma events_topk : forall K ops, topk_rel prio K (items (run_res K ops)) (offered ops).
Proof.
  intros K ops. unfold run_res.
  destruct (run_inv ops (new_res K) [] (wf_new K) (topk_inv_nil prio K)) as [_ [H _]].
  cbn [app new_res cap] in H. apply topk_inv_rel. exact H.
Qed.

(* the same, as an equation between sorted priority lists (ties, duplicates, K = 0, K = 1 included) *)
Lemma events_topk_sorted : forall K ops,
  sort_desc (map prio (items (run_res K ops))) = firstn K (sort_desc (map prio (offered ops))).
Proof. intros K ops. apply topk_rel_sorted. apply events_topk. Qed.

Lemma reservoir_wf K ops : wf (run_res K ops).
Proof.
  unfold run_res.
  destruct (run_inv ops (new_res K) [] (wf_new K) (topk_inv_nil prio K)) as [H _]. exact H.
Qed.

Lemma reservoir_cap K ops : cap (run_res K ops) = K.
Proof.
  unfold run_res.
  destruct (run_inv ops (new_res K) [] (wf_new K) (topk_inv_nil prio K)) as [_ [_ [H _]]]. exact H.
Qed.

(* C05: never more than the capacity; exactly min(K, offered) *)
Lemma reservoir_len_le_cap K ops : length (items (run_res K ops)) <= K.
Proof. pose proof (reservoir_wf K ops) as [H _]. rewrite reservoir_cap in H. exact H. Qed.

Lemma reservoir_len_min K ops : length (items (run_res K ops)) = Nat.min K (length (offered ops)).
Proof. apply (topk_rel_length prio). apply events_topk. Qed.

(* C05: numSeen counts every offer; a merged reservoir counts for what it had seen *)
Lemma reservoir_seen_exact K ops : seen (run_res K ops) = seen_total ops.
Proof.
  unfold run_res.
  destruct (run_inv ops (new_res K) [] (wf_new K) (topk_inv_nil prio K)) as [_ [_ [_ H]]].
  cbn [new_res seen] in H. lia.
Qed.

(* with only direct adds, numSeen is the number of adds *)
Lemma seen_total_adds ops :
  Forall (fun op => match op with OAdd _ | OAddSynth _ => True | _ => False end) ops ->
  seen_total ops = Z.of_nat (length ops).
Proof.
  induction 1 as [|op ops Hop _ IH]; [reflexivity|].
  cbn [seen_total fold_right length]. fold (seen_total ops). rewrite IH.
  destruct op; try contradiction; cbn [seen_op]; lia.
Qed.

(* failedHarvests: set by a carried-over merge to the carried count + 1, untouched otherwise *)
Lemma add_event_failed r e : failed (add_event r e) = failed r.
Proof.
  unfold add_event.
  destruct (length (items r) <? cap r).
  - destruct (length (items r ++ [e]) =? cap r); reflexivity.
  - destruct (cap r =? 0); [reflexivity|].
    destruct (items r) as [|root t]; [reflexivity|].
    destruct (is_lower_priority (prio e) (prio root)); [reflexivity|].
    destruct (pop ev_less (root :: t)) as [[? ?]|]; reflexivity.
Qed.

Lemma add_events_failed l : forall r, failed (fold_left add_event l r) = failed r.
Proof.
  induction l as [|e l IH]; intros r; cbn [fold_left]; [reflexivity|].
  rewrite IH. apply add_event_failed.
Qed.

Lemma merge_counter r o : failed (merge r o) = failed r.
Proof. unfold merge. cbn [failed]. apply add_events_failed. Qed.

Lemma merge_failed_counter r o :
  failed (merge_failed r o) = if carried o then (failed o + 1)%Z else failed r.
Proof.
  unfold merge_failed, carried. destruct (FailedEventsAttemptsLimit <? failed o + 1)%Z; cbn [negb]; [reflexivity|].
  rewrite merge_counter. reflexivity.
Qed.

(* a delivery that failed FailedEventsAttemptsLimit (= 10) times already is dropped, not carried over *)
Lemma carried_limit o : carried o = true <-> (failed o + 1 <= 10)%Z.
Proof.
  unfold carried. change FailedEventsAttemptsLimit with 10%Z.
  destruct (10 <? failed o + 1)%Z eqn:E; cbn [negb]; split; intros H; try discriminate; try reflexivity.
  - apply Z.ltb_lt in E. lia.
  - apply Z.ltb_ge in E. exact E.
Qed.

Lemma merge_failed_discard r o : carried o = false -> merge_failed r o = r.
Proof.
  unfold merge_failed, carried. destruct (FailedEventsAttemptsLimit <? failed o + 1)%Z; cbn [negb]; [reflexivity|discriminate].
Qed.

Lemma events_counters : forall K ops,
  length (items (run_res K ops)) = Nat.min K (length (offered ops)) /\
  seen (run_res K ops) = seen_total ops /\
  (forall r o, failed (merge_failed r o) = if carried o then (failed o + 1)%Z else failed r) /\
  (forall o, carried o = true <-> (failed o + 1 <= 10)%Z).
Proof.
  intros K ops. split; [apply reservoir_len_min|]. split; [apply reservoir_seen_exact|].
  split; [exact merge_failed_counter|exact carried_limit].
Qed.

(* the model always passes the model-independent monitor used on implementation outputs *)
Lemma events_pass_monitor K ops :
  mon_events K (map prio (offered ops)) (map prio (items (run_res K ops)))
             (seen (run_res K ops)) (seen_total ops) = true.
Proof.
  unfold mon_events. rewrite (topk_rel_mon prio K _ _ (events_topk K ops)).
  rewrite reservoir_seen_exact, Z.eqb_refl. reflexivity.
Qed.

(* ---- synthetics ---- *)
Definition is_synth (e : ev) : bool := (synth_boost <=? prio e)%Z.

Lemma Permutation_filter' {A} (f : A -> bool) l l' :
  Permutation l l' -> Permutation (filter f l) (filter f l').
Proof.
  induction 1 as [|x l l' _ IH|x y l|l l' l'' _ IH1 _ IH2]; cbn.
  - constructor.
  - destruct (f x); [constructor|]; exact IH.
  - destruct (f x), (f y); try reflexivity. apply perm_swap.
  - eapply perm_trans; eassumption.
Qed.

(* if any retained event has priority < 2 then no event of priority >= 2 was left out *)
Lemma synth_by_value K ops :
  (exists x, In x (items (run_res K ops)) /\ (prio x < synth_boost)%Z) ->
  Permutation (filter is_synth (items (run_res K ops))) (filter is_synth (offered ops)).
Proof.
  intros [x [Hx Hlow]]. destruct (events_topk K ops) as [d [Hp [Hc _]]].
  apply (Permutation_filter' is_synth) in Hp. rewrite filter_app in Hp.
  assert (Hd : filter is_synth d = []).
  { clear Hp. induction d as [|y d IH]; [reflexivity|]. cbn [filter].
    assert (Hy : (prio y <= prio x)%Z) by (apply Hc; [exact Hx|left; reflexivity]).
    unfold is_synth at 1. destruct (synth_boost <=? prio y)%Z eqn:E; [apply Z.leb_le in E; lia|].
    apply IH. intros a b Ha Hb. apply Hc; [exact Ha|right; exact Hb]. }
  rewrite Hd, app_nil_r in Hp. exact Hp.
Qed.

(* priorities in their documented range: below 2 before the boost, not negative *)
Definition ev_in_range (e : ev) : Prop := (0 <= prio e < synth_boost)%Z.
Definition op_in_range (op : rop) : Prop :=
  match op with
  | OAdd e | OAddSynth e => ev_in_range e
  | OMerge _ | OMergeFailed _ => True
  end.

Lemma synthetics_outrank K ops :
  Forall op_in_range ops ->
  forall e, In (OAdd e) ops -> In e (items (run_res K ops)) ->
  Permutation (filter is_synth (items (run_res K ops))) (filter is_synth (offered ops)) /\
  forall s, In (OAddSynth s) ops -> In (boost s) (items (run_res K ops)).
Proof.
  intros Hr e Hop He.
  assert (Hlow : (prio e < synth_boost)%Z).
  { rewrite Forall_forall in Hr. specialize (Hr _ Hop). cbn in Hr. unfold ev_in_range in Hr. lia. }
  assert (Hp := synth_by_value K ops (ex_intro _ e (conj He Hlow))).
  split; [exact Hp|]. intros s Hs.
  assert (Hsr : (0 <= prio s)%Z).
  { rewrite Forall_forall in Hr. specialize (Hr _ Hs). cbn in Hr. unfold ev_in_range in Hr. lia. }
  assert (Hin : In (boost s) (filter is_synth (offered ops))).
  { apply filter_In. split.
    - unfold offered. apply in_flat_map. exists (OAddSynth s). split; [exact Hs|left; reflexivity].
    - unfold is_synth, boost. cbn [prio]. apply Z.leb_le. lia. }
  apply (Permutation_in _ (Permutation_sym Hp)) in Hin. apply filter_In in Hin. apply Hin.
Qed.

(* ---- Split (used for payloads only) ---- *)
Lemma split_items r : items (fst (split r)) ++ items (snd (split r)) = items r.
Proof. unfold split. cbn [fst snd items]. apply firstn_skipn. Qed.

Lemma split_within_cap r :
  length (items (fst (split r))) = cap (fst (split r)) /\
  length (items (snd (split r))) = cap (snd (split r)).
Proof.
  unfold split. cbn [fst snd items cap]. rewrite firstn_length, skipn_length.
  pose proof (Nat.div_mod (length (items r)) 2 ltac:(lia)).
  pose proof (Nat.mod_upper_bound (length (items r)) 2 ltac:(lia)). lia.
Qed.

Lemma split_seen_sum r :
  (Z.of_nat (length (items r)) <= seen r)%Z ->
  (seen (fst (split r)) + seen (snd (split r)) = seen r)%Z.
Proof.
  intros H. unfold split. cbn [fst snd seen].
  set (n := length (items r)) in *.
  assert (Hn : Z.of_nat (n / 2) = (Z.of_nat n / 2)%Z) by (rewrite Nat2Z.inj_div; reflexivity).
  assert (H1 : (Z.of_nat n / 2 <= seen r / 2)%Z) by (apply Z.div_le_mono; lia).
  assert (Hn2 : Z.of_nat (n - n / 2) = (Z.of_nat n - Z.of_nat n / 2)%Z).
  { rewrite Nat2Z.inj_sub; [lia|]. apply Nat.div_le_upper_bound; lia. }
  rewrite Hn, Hn2.
  pose proof (Z.div_mod (seen r) 2 ltac:(lia)). pose proof (Z.mod_pos_bound (seen r) 2 ltac:(lia)).
  pose proof (Z.div_mod (Z.of_nat n) 2 ltac:(lia)). pose proof (Z.mod_pos_bound (Z.of_nat n) 2 ltac:(lia)).
  lia.
Qed.

Lemma split_failed r : failed (fst (split r)) = failed r /\ failed (snd (split r)) = failed r.
Proof. split; reflexivity. Qed.

(* numSeen never falls below what is held, provided the merged reservoirs satisfied that too *)
Definition counts_ok (o : res) : Prop := (Z.of_nat (length (items o)) <= seen o)%Z.
Definition op_counts_ok (op : rop) : Prop :=
  match op with OMerge o | OMergeFailed o => counts_ok o | _ => True end.

Lemma seen_total_ge_offered ops :
  Forall op_counts_ok ops -> (Z.of_nat (length (offered ops)) <= seen_total ops)%Z.
Proof.
  induction 1 as [|op ops Hop _ IH]; [cbn; lia|].
  cbn [offered flat_map seen_total fold_right]. fold (offered ops). fold (seen_total ops).
  rewrite app_length, Nat2Z.inj_add.
  destruct op as [e|e|o|o]; cbn [offered_op seen_op length op_counts_ok] in *; try lia.
  - unfold counts_ok in Hop. lia.
  - unfold counts_ok in Hop. destruct (carried o); cbn [length]; lia.
Qed.

Lemma reservoir_seen_ge_len K ops :
  Forall op_counts_ok ops -> counts_ok (run_res K ops).
Proof.
  intros H. unfold counts_ok. rewrite reservoir_seen_exact, reservoir_len_min.
  pose proof (seen_total_ge_offered ops H). lia.
Qed.

(* ---- non-vacuity ---- *)
Example range_example :
  Forall op_in_range [OAdd (mkEv 5 1); OAddSynth (mkEv 7 2); OMerge (new_res 3); OAdd (mkEv 1048575 3)].
Proof. repeat constructor; cbn; unfold ev_in_range, synth_boost; cbn; lia. Qed.

Example outrank_example :
  let ops := [OAddSynth (mkEv 1 1); OAdd (mkEv 2000000 2); OAdd (mkEv 9 3); OAddSynth (mkEv 0 4)] in
  map tag (items (run_res 3 ops)) = [2%N; 1%N; 4%N] /\ Forall op_in_range ops.
Proof. split; [vm_compute; reflexivity|]. repeat constructor; cbn; unfold ev_in_range, synth_boost; cbn; lia. Qed.

Example counts_example : Forall op_counts_ok [OAdd (mkEv 5 1); OMerge (mkRes 2 [mkEv 1 1] 7 0)].
Proof. repeat constructor; cbn; unfold counts_ok; cbn; lia. Qed.

(* the heap theorems' hypotheses are met by the daemon's Less and by a concrete non-empty heap *)
Example heap_hyp_example :
  (forall a b, ev_less a b = (prio a <? prio b)%Z) /\
  heap_ordered prio [mkEv 1 1; mkEv 3 2; mkEv 2 3; mkEv 3 4] /\
  init ev_less [mkEv 3 2; mkEv 3 4; mkEv 2 3; mkEv 1 1] = [mkEv 1 1; mkEv 3 2; mkEv 2 3; mkEv 3 4].
Proof.
  split; [exact ev_less_key|]. split; [|vm_compute; reflexivity].
  intros p c Hc Hn _. cbn in Hn. unfold child in Hc.
  assert (p = 0 /\ (c = 1 \/ c = 2) \/ p = 1 /\ c = 3) as [[-> [-> | ->]]|[-> ->]] by lia; vm_compute; discriminate.
Qed.
