(* SlowSQLProofs.v -- properties of the SlowSQLs model (SlowSQL.v). *)
From Coq Require Import List ZArith NArith Arith Bool Lia Permutation.
From Verif Require Import Heap HeapProofs TopK SlowSQL.
From Verif.Gen Require Import Limits_gen.
Import ListNotations.
Open Scope nat_scope.

(* ------------------------------------------------------------------ list plumbing *)
Lemma upd_app_mid {A} (l1 : list A) x l2 v : upd (l1 ++ x :: l2) (length l1) v = l1 ++ v :: l2.
Proof. induction l1 as [|h t IH]; cbn; [reflexivity|]. rewrite IH. reflexivity. Qed.

Lemma nth_error_app_mid {A} (l1 : list A) x l2 : nth_error (l1 ++ x :: l2) (length l1) = Some x.
Proof. rewrite nth_error_app2 by lia. rewrite Nat.sub_diag. reflexivity. Qed.

Lemma find_idx_some l : forall id i k, find_idx l id i = Some k ->
  exists l1 ex l2, l = l1 ++ ex :: l2 /\ k = i + length l1 /\ s_id ex = id /\
                   forall x, In x l1 -> s_id x <> id.
Proof.
  induction l as [|s r IH]; intros id i k H; cbn in H; [discriminate|].
  destruct (N.eqb_spec (s_id s) id) as [E|E].
  - injection H as <-. exists [], s, r. cbn. repeat split; auto; try lia.
  - destruct (IH id (S i) k H) as [l1 [ex [l2 [-> [-> [Hid Hne]]]]]].
    exists (s :: l1), ex, l2. cbn. repeat split; auto; try lia.
    intros x [<-|Hx]; [exact E|apply Hne; exact Hx].
Qed.

Lemma find_idx_none l : forall id i, find_idx l id i = None -> forall x, In x l -> s_id x <> id.
Proof.
  induction l as [|s r IH]; intros id i H x Hx; [destruct Hx|]. cbn in H.
  destruct (N.eqb_spec (s_id s) id) as [E|E]; [discriminate|].
  destruct Hx as [<-|Hx]; [exact E|]. eapply IH; eassumption.
Qed.

Lemma fastest_loop_spec r : forall i mi mm,
  let k := fastest_loop r i false mi mm in
  (k = mi /\ forall x, In x r -> (mm <= s_max x)%Z) \/
  (exists r1 f r2, r = r1 ++ f :: r2 /\ k = i + length r1 /\ (s_max f <= mm)%Z /\
                   forall x, In x r -> (s_max f <= s_max x)%Z).
Proof.
  induction r as [|s r IH]; intros i mi mm; cbn [fastest_loop orb].
  - left. split; [reflexivity|]. intros x [].
  - destruct (s_max s <? mm)%Z eqn:E.
    + apply Z.ltb_lt in E. destruct (IH (S i) i (s_max s)) as [[Hk Hall]|[r1 [f [r2 [Hr [Hk [Hf Hall]]]]]]].
      * right. exists [], s, r. cbn [app length]. repeat split; try lia.
        intros x [<-|Hx]; [lia|apply Hall; exact Hx].
      * right. exists (s :: r1), f, r2. cbn [app length].
        split; [f_equal; exact Hr|]. split; [lia|]. split; [lia|].
        intros x [<-|Hx]; [specialize (Hall s); lia|apply Hall; exact Hx].
    + apply Z.ltb_ge in E. destruct (IH (S i) mi mm) as [[Hk Hall]|[r1 [f [r2 [Hr [Hk [Hf Hall]]]]]]].
      * left. split; [exact Hk|]. intros x [<-|Hx]; [lia|apply Hall; exact Hx].
      * right. exists (s :: r1), f, r2. cbn [app length].
        split; [f_equal; exact Hr|]. split; [lia|]. split; [lia|].
        intros x [<-|Hx]; [specialize (Hall s); lia|apply Hall; exact Hx].
Qed.

(* fastest returns the position of an entry whose maximum is minimal *)
Lemma fastest_spec l k : fastest l = Some k ->
  exists l1 f l2, l = l1 ++ f :: l2 /\ k = length l1 /\ forall x, In x l -> (s_max f <= s_max x)%Z.
Proof.
  destruct l as [|s r]; cbn [fastest fastest_loop orb]; [discriminate|]. intros H. injection H as <-.
  destruct (fastest_loop_spec r 1 0 (s_max s)) as [[Hk Hall]|[r1 [f [r2 [Hr [Hk [Hf Hall]]]]]]].
  - exists [], s, r. cbn [app length]. repeat split; auto.
    intros x [<-|Hx]; [lia|apply Hall; exact Hx].
  - exists (s :: r1), f, r2. cbn [app length].
    split; [f_equal; exact Hr|]. split; [lia|].
    intros x [<-|Hx]; [lia|apply Hall; exact Hx].
Qed.

Lemma fastest_none l : fastest l = None -> l = [].
Proof. destruct l; [reflexivity|discriminate]. Qed.

(* ------------------------------------------------------------------ what Observe does *)
Inductive obs_case (K : nat) (l : list slow) (o : slow) (l' : list slow) : Prop :=
| OcMerge l1 ex l2 :
    l = l1 ++ ex :: l2 -> s_id ex = s_id o -> (forall x, In x l1 -> s_id x <> s_id o) ->
    l' = l1 ++ merge_slow ex o :: l2 -> obs_case K l o l'
| OcAppend :
    (forall x, In x l -> s_id x <> s_id o) -> length l <> K -> l' = l ++ [o] -> obs_case K l o l'
| OcZero :
    l = [] -> K = 0 -> l' = [] -> obs_case K l o l'
| OcReplace l1 f l2 :
    (forall x, In x l -> s_id x <> s_id o) -> length l = K -> l = l1 ++ f :: l2 ->
    (forall x, In x l -> (s_max f <= s_max x)%Z) -> (s_max f < s_max o)%Z ->
    l' = l1 ++ o :: l2 -> obs_case K l o l'
| OcRefuse f :
    (forall x, In x l -> s_id x <> s_id o) -> length l = K -> In f l ->
    (forall x, In x l -> (s_max f <= s_max x)%Z) -> (s_max o <= s_max f)%Z ->
    l' = l -> obs_case K l o l'.

Lemma observe_cases K l o :
  sl_cap (observe (mkSlows K l) o) = K /\ obs_case K l o (sl_items (observe (mkSlows K l) o)).
Proof.
  unfold observe. cbn [sl_items sl_cap].
  destruct (find_idx l (s_id o) 0) as [k|] eqn:Ef.
  - destruct (find_idx_some l _ _ _ Ef) as [l1 [ex [l2 [-> [-> [Hid Hne]]]]]]. cbn [Nat.add].
    rewrite nth_error_app_mid. cbn [sl_items sl_cap]. split; [reflexivity|].
    eapply OcMerge; eauto. apply upd_app_mid.
  - pose proof (find_idx_none l _ _ Ef) as Hne.
    destruct (length l =? K) eqn:El.
    + apply Nat.eqb_eq in El.
      destruct (fastest l) as [k|] eqn:Efa.
      * destruct (fastest_spec l k Efa) as [l1 [f [l2 [Hl [-> Hmin]]]]]. subst l.
        rewrite nth_error_app_mid.
        destruct (s_max f <? s_max o)%Z eqn:Ec.
        -- apply Z.ltb_lt in Ec. cbn [sl_items sl_cap]. split; [reflexivity|].
           eapply OcReplace; eauto. apply upd_app_mid.
        -- apply Z.ltb_ge in Ec. cbn [sl_items sl_cap]. split; [reflexivity|].
           eapply OcRefuse with (f := f); eauto. apply in_or_app. right. left. reflexivity.
      * apply fastest_none in Efa. subst l. cbn [sl_items sl_cap]. split; [reflexivity|].
        apply OcZero; auto.
    + apply Nat.eqb_neq in El. cbn [sl_items sl_cap]. split; [reflexivity|]. apply OcAppend; auto.
Qed.

(* ------------------------------------------------------------------ merge_slow, field by field *)
Lemma merge_slow_id a o : s_id (merge_slow a o) = s_id a.
Proof. unfold merge_slow. destruct (s_max a <? s_max o)%Z; reflexivity. Qed.
Lemma merge_slow_max a o : s_max (merge_slow a o) = Z.max (s_max a) (s_max o).
Proof. unfold merge_slow. destruct (s_max a <? s_max o)%Z eqn:E; cbn [s_max];
  [apply Z.ltb_lt in E|apply Z.ltb_ge in E]; lia. Qed.
Lemma merge_slow_min a o : s_min (merge_slow a o) = Z.min (s_min a) (s_min o).
Proof. unfold merge_slow. destruct (s_max a <? s_max o)%Z; cbn [s_min];
  destruct (s_min o <? s_min a)%Z eqn:E; try (apply Z.ltb_lt in E); try (apply Z.ltb_ge in E); lia. Qed.
Lemma merge_slow_count a o : s_count (merge_slow a o) = wrap_i32 (s_count a + s_count o).
Proof. unfold merge_slow. destruct (s_max a <? s_max o)%Z; reflexivity. Qed.
Lemma merge_slow_total a o : s_total (merge_slow a o) = wrap_u64 (s_total a + s_total o).
Proof. unfold merge_slow. destruct (s_max a <? s_max o)%Z; reflexivity. Qed.

Definition same_text (a b : slow) : Prop :=
  s_metric a = s_metric b /\ s_query a = s_query b /\ s_txn a = s_txn b /\
  s_url a = s_url b /\ s_params a = s_params b.

(* text from the slower of the two (the retained one on a tie) *)
Lemma merge_slow_text a o :
  ((s_max a < s_max o)%Z /\ same_text (merge_slow a o) o) \/
  ((s_max o <= s_max a)%Z /\ same_text (merge_slow a o) a).
Proof.
  unfold merge_slow, same_text. destruct (s_max a <? s_max o)%Z eqn:E; cbn.
  - left. apply Z.ltb_lt in E. auto 10.
  - right. apply Z.ltb_ge in E. auto 10.
Qed.

Definition in_i32 (z : Z) : Prop := (- 2 ^ 31 <= z < 2 ^ 31)%Z.
Definition in_u64 (z : Z) : Prop := (0 <= z < 2 ^ 64)%Z.

Lemma wrap_i32_id z : in_i32 z -> wrap_i32 z = z.
Proof. unfold in_i32, wrap_i32. intros H. rewrite Z.mod_small; lia. Qed.
Lemma wrap_u64_id z : in_u64 z -> wrap_u64 z = z.
Proof. unfold in_u64, wrap_u64. intros H. apply Z.mod_small. lia. Qed.
Lemma wrap_i32_range z : in_i32 (wrap_i32 z).
Proof. unfold in_i32, wrap_i32. pose proof (Z.mod_pos_bound (z + 2 ^ 31) (2 ^ 32) ltac:(lia)). lia. Qed.
Lemma wrap_i32_add a b : wrap_i32 (wrap_i32 a + b) = wrap_i32 (a + b).
Proof.
  unfold wrap_i32. f_equal.
  replace ((a + 2 ^ 31) mod 2 ^ 32 - 2 ^ 31 + b + 2 ^ 31)%Z with ((a + 2 ^ 31) mod 2 ^ 32 + b)%Z by lia.
  rewrite Zplus_mod_idemp_l. f_equal. lia.
Qed.
Lemma wrap_u64_add a b : wrap_u64 (wrap_u64 a + b) = wrap_u64 (a + b).
Proof. unfold wrap_u64. apply Zplus_mod_idemp_l. Qed.

Lemma fold_add_acc l : forall a, fold_left Z.add l a = (a + fold_left Z.add l 0)%Z.
Proof.
  induction l as [|y l IH]; intros a; cbn [fold_left]; [lia|].
  rewrite IH, (IH (0 + y)%Z). lia.
Qed.

Lemma sumZ_cons x l : sumZ (x :: l) = (x + sumZ l)%Z.
Proof. unfold sumZ. cbn [fold_left]. rewrite fold_add_acc. lia. Qed.

Lemma fold_merge_id l : forall o, s_id (fold_left merge_slow l o) = s_id o.
Proof. induction l as [|x l IH]; intros o; cbn [fold_left]; [reflexivity|]. rewrite IH. apply merge_slow_id. Qed.

Lemma fold_merge_max l : forall o,
  s_max (fold_left merge_slow l o) = fold_left Z.max (map s_max l) (s_max o).
Proof. induction l as [|x l IH]; intros o; cbn [fold_left map]; [reflexivity|]. rewrite IH, merge_slow_max. reflexivity. Qed.

Lemma fold_merge_min l : forall o,
  s_min (fold_left merge_slow l o) = fold_left Z.min (map s_min l) (s_min o).
Proof. induction l as [|x l IH]; intros o; cbn [fold_left map]; [reflexivity|]. rewrite IH, merge_slow_min. reflexivity. Qed.

(* counts and totals are added, in the machine integer types of the struct *)
Lemma fold_merge_count l : forall o,
  wrap_i32 (s_count (fold_left merge_slow l o)) = wrap_i32 (sumZ (map s_count (o :: l))).
Proof.
  induction l as [|x l IH]; intros o; cbn [fold_left map].
  - rewrite sumZ_cons. f_equal. unfold sumZ. cbn. lia.
  - rewrite IH. cbn [map]. rewrite !sumZ_cons, merge_slow_count, wrap_i32_add. f_equal. lia.
Qed.

Lemma fold_merge_total l : forall o,
  wrap_u64 (s_total (fold_left merge_slow l o)) = wrap_u64 (sumZ (map s_total (o :: l))).
Proof.
  induction l as [|x l IH]; intros o; cbn [fold_left map].
  - rewrite sumZ_cons. f_equal. unfold sumZ. cbn. lia.
  - rewrite IH. cbn [map]. rewrite !sumZ_cons, merge_slow_total, wrap_u64_add. f_equal. lia.
Qed.

Lemma fold_max_ge l : forall a, (a <= fold_left Z.max l a)%Z.
Proof. induction l as [|x l IH]; intros a; cbn [fold_left]; [lia|]. specialize (IH (Z.max a x)). lia. Qed.

Lemma fold_max_in l : forall a x, In x l -> (x <= fold_left Z.max l a)%Z.
Proof.
  induction l as [|y l IH]; intros a x Hx; [destruct Hx|]. cbn [fold_left].
  destruct Hx as [<-|Hx]; [|apply IH; exact Hx].
  pose proof (fold_max_ge l (Z.max a y)). lia.
Qed.

(* the text is that of an observation that attains the maximum *)
Lemma fold_merge_text l : forall o,
  exists x, In x (o :: l) /\ s_max x = s_max (fold_left merge_slow l o) /\
            same_text (fold_left merge_slow l o) x.
Proof.
  induction l as [|y l IH] using rev_ind; intros o.
  - exists o. cbn. unfold same_text. auto 10.
  - rewrite fold_left_app. cbn [fold_left].
    destruct (IH o) as [x [Hx [Hm Ht]]].
    destruct (merge_slow_text (fold_left merge_slow l o) y) as [[Hlt Hty]|[Hge Hta]].
    + exists y. split; [right; apply in_or_app; right; left; reflexivity|].
      split; [rewrite merge_slow_max; lia|exact Hty].
    + exists x. split; [destruct Hx as [<-|Hx]; [left; reflexivity|right; apply in_or_app; left; exact Hx]|].
      split; [rewrite merge_slow_max; lia|].
      unfold same_text in *. intuition congruence.
Qed.

(* ------------------------------------------------------------------ the invariant *)
Definition sinv (K : nat) (obs st : list slow) : Prop :=
  NoDup (ids st) /\ length st <= K /\
  (forall s, In s st ->
     (forall o, In o obs -> s_id o = s_id s -> (s_max o <= s_max s)%Z) /\
     (exists o, In o obs /\ s_id o = s_id s /\ s_max o = s_max s)) /\
  (forall o, In o obs -> ~ In (s_id o) (ids st) ->
     length st = K /\ forall s, In s st -> (s_max o <= s_max s)%Z).

(* the retained record of a statement is the merge of its observations since it was (last) admitted;
   whatever was observed of it before that was strictly faster than the admitting observation *)
Definition seg_of (obs : list slow) (s : slow) : Prop :=
  exists pre o post, obs = pre ++ o :: post /\ s_id o = s_id s /\
    s = fold_left merge_slow (of_id (s_id s) post) o /\
    forall x, In x pre -> s_id x = s_id s -> (s_max x < s_max o)%Z.

Lemma ids_app a b : ids (a ++ b) = ids a ++ ids b.
Proof. apply map_app. Qed.

Lemma in_ids x l : In x l -> In (s_id x) (ids l).
Proof. apply in_map. Qed.

Lemma not_in_ids id l : (forall x, In x l -> s_id x <> id) -> ~ In id (ids l).
Proof. intros H Hin. apply in_map_iff in Hin. destruct Hin as [x [Hx Hin]]. exact (H x Hin Hx). Qed.

Lemma seg_extend obs s o : seg_of obs s -> s_id o <> s_id s -> seg_of (obs ++ [o]) s.
Proof.
  intros [pre [o0 [post [-> [Hid [Hs Hpre]]]]]] Hne.
  exists pre, o0, (post ++ [o]). rewrite <- app_assoc. split; [reflexivity|]. split; [exact Hid|].
  split; [|exact Hpre].
  unfold of_id. rewrite filter_app. cbn [filter].
  destruct (N.eqb_spec (s_id o) (s_id s)) as [E|_]; [contradiction|]. rewrite app_nil_r. exact Hs.
Qed.

Lemma observe_inv K obs l o :
  sinv K obs l -> (forall s, In s l -> seg_of obs s) ->
  let l' := sl_items (observe (mkSlows K l) o) in
  sinv K (obs ++ [o]) l' /\ (forall s, In s l' -> seg_of (obs ++ [o]) s).
Proof.
  intros [Hnd [Hlen [H3 H4]]] Hseg. cbv zeta.
  destruct (observe_cases K l o) as [_ Hc].
  destruct Hc as [l1 ex l2 Hl Hid Hne Hl'|Hne Hlk Hl'|Hl HK Hl'|l1 f l2 Hne Hlk Hl Hmin Hlt Hl'|f Hne Hlk Hf Hmin Hle Hl'];
    rewrite Hl'; clear Hl'.
  - (* merge into the existing entry *)
    set (m := merge_slow ex o).
    assert (Hmid : s_id m = s_id ex) by apply merge_slow_id.
    assert (Hids : ids (l1 ++ m :: l2) = ids l).
    { rewrite Hl, !ids_app. cbn [ids map]. rewrite Hmid. reflexivity. }
    assert (Hex : In ex l) by (rewrite Hl; apply in_or_app; right; left; reflexivity).
    assert (Hother : forall s, In s (l1 ++ l2) -> In s l /\ s_id s <> s_id ex).
    { intros s Hs. split.
      - rewrite Hl. apply in_app_or in Hs. apply in_or_app. destruct Hs; [left|right; right]; assumption.
      - rewrite Hl, ids_app in Hnd. cbn [ids map] in Hnd. apply NoDup_remove_2 in Hnd.
        intros E. apply Hnd. rewrite <- E. rewrite <- ids_app. apply in_ids. exact Hs. }
    assert (Hsplit : forall s, In s (l1 ++ m :: l2) -> s = m \/ In s (l1 ++ l2)).
    { intros s Hs. apply in_app_or in Hs. destruct Hs as [Hs|[Hs|Hs]]; [right|left|right]; auto using in_or_app. }
    split; [split; [|split; [|split]]|].
    + rewrite Hids. exact Hnd.
    + rewrite Hl in Hlen. rewrite app_length in *. cbn [length] in *. exact Hlen.
    + intros s Hs. destruct (Hsplit s Hs) as [->|Hs'].
      * destruct (H3 ex Hex) as [Ha [w [Hw1 [Hw2 Hw3]]]]. unfold m. rewrite merge_slow_max, merge_slow_id. split.
        -- intros o' Ho' Hido'. apply in_app_or in Ho'. destruct Ho' as [Ho'|[<-|[]]]; [|lia].
           specialize (Ha o' Ho' Hido'). lia.
        -- destruct (Z.le_gt_cases (s_max o) (s_max ex)) as [Hc|Hc].
           ++ exists w. split; [apply in_or_app; left; exact Hw1|]. split; [exact Hw2|lia].
           ++ exists o. split; [apply in_or_app; right; left; reflexivity|]. split; [congruence|lia].
      * destruct (Hother s Hs') as [Hsl Hsne]. destruct (H3 s Hsl) as [Ha [w [Hw1 [Hw2 Hw3]]]]. split.
        -- intros o' Ho' Hido'. apply in_app_or in Ho'. destruct Ho' as [Ho'|[<-|[]]]; [apply Ha; assumption|].
           exfalso. apply Hsne. congruence.
        -- exists w. split; [apply in_or_app; left; exact Hw1|auto].
    + intros o' Ho' Hnin. rewrite Hids in Hnin. apply in_app_or in Ho'. destruct Ho' as [Ho'|[<-|[]]].
      * destruct (H4 o' Ho' Hnin) as [HlK Hall]. split.
        -- rewrite Hl in HlK. rewrite app_length in *. cbn [length] in *. exact HlK.
        -- intros s Hs. destruct (Hsplit s Hs) as [->|Hs'].
           ++ unfold m. rewrite merge_slow_max. specialize (Hall ex Hex). lia.
           ++ apply Hall. apply Hother. exact Hs'.
      * exfalso. apply Hnin. rewrite <- Hid. apply in_ids. exact Hex.
    + intros s Hs. destruct (Hsplit s Hs) as [->|Hs'].
      * destruct (Hseg ex Hex) as [pre [o0 [post [Hobs [Hid0 [Hfold Hpre]]]]]].
        exists pre, o0, (post ++ [o]). rewrite Hobs, <- app_assoc. split; [reflexivity|].
        rewrite Hmid. split; [exact Hid0|]. split; [|exact Hpre].
        unfold of_id. rewrite filter_app. cbn [filter].
        destruct (N.eqb_spec (s_id o) (s_id ex)) as [_|E]; [|congruence].
        rewrite fold_left_app. cbn [fold_left]. unfold of_id in Hfold. rewrite <- Hfold. reflexivity.
      * destruct (Hother s Hs') as [Hsl Hsne]. apply seg_extend; [apply Hseg; exact Hsl|congruence].
  - (* room: appended *)
    assert (Hlt : length l < K) by lia.
    assert (Hfresh : forall o', In o' obs -> s_id o' <> s_id o).
    { intros o' Ho' E. assert (Hnin : ~ In (s_id o') (ids l)) by (rewrite E; apply not_in_ids; exact Hne).
      destruct (H4 o' Ho' Hnin) as [HlK _]. lia. }
    split; [split; [|split; [|split]]|].
    + rewrite ids_app. cbn [ids map]. eapply Permutation_NoDup; [apply Permutation_cons_append|].
      constructor; [apply not_in_ids; exact Hne|exact Hnd].
    + rewrite app_length. cbn [length]. lia.
    + intros s Hs. apply in_app_or in Hs. destruct Hs as [Hs|[<-|[]]].
      * destruct (H3 s Hs) as [Ha [w [Hw1 [Hw2 Hw3]]]]. split.
        -- intros o' Ho' Hido'. apply in_app_or in Ho'. destruct Ho' as [Ho'|[<-|[]]]; [apply Ha; assumption|].
           exfalso. exact (Hne s Hs (eq_sym Hido')).
        -- exists w. split; [apply in_or_app; left; exact Hw1|auto].
      * split.
        -- intros o' Ho' Hido'. apply in_app_or in Ho'. destruct Ho' as [Ho'|[<-|[]]]; [|lia].
           exfalso. exact (Hfresh o' Ho' Hido').
        -- exists o. split; [apply in_or_app; right; left; reflexivity|auto].
    + intros o' Ho' Hnin. exfalso. rewrite ids_app in Hnin. apply in_app_or in Ho'. destruct Ho' as [Ho'|[<-|[]]].
      * assert (Hnin' : ~ In (s_id o') (ids l)) by (intros H; apply Hnin; apply in_or_app; left; exact H).
        destruct (H4 o' Ho' Hnin') as [HlK _]. lia.
      * apply Hnin. apply in_or_app. right. left. reflexivity.
    + intros s Hs. apply in_app_or in Hs. destruct Hs as [Hs|[<-|[]]].
      * apply seg_extend; [apply Hseg; exact Hs|]. intros E. exact (Hne s Hs (eq_sym E)).
      * exists obs, o, []. split; [reflexivity|]. split; [reflexivity|]. split; [reflexivity|].
        intros x Hx E. exfalso. exact (Hfresh x Hx E).
  - (* capacity 0 *)
    subst l K. split; [split; [|split; [|split]]|].
    + constructor.
    + cbn. lia.
    + intros s [].
    + intros o' _ _. split; [reflexivity|]. intros s [].
    + intros s [].
  - (* full: the new statement replaces a fastest one *)
    assert (Hfl : In f l) by (rewrite Hl; apply in_or_app; right; left; reflexivity).
    assert (Hsub : forall s, In s (l1 ++ l2) -> In s l).
    { intros s Hs. rewrite Hl. apply in_app_or in Hs. apply in_or_app. destruct Hs; [left|right; right]; assumption. }
    assert (Hsplit : forall s, In s (l1 ++ o :: l2) -> s = o \/ In s (l1 ++ l2)).
    { intros s Hs. apply in_app_or in Hs. destruct Hs as [Hs|[Hs|Hs]]; [right|left|right]; auto using in_or_app. }
    assert (Hgone : forall id, In id (ids l) -> ~ In id (ids (l1 ++ o :: l2)) -> id = s_id f).
    { intros id Hin Hnin. rewrite Hl, ids_app in Hin. cbn [ids map] in Hin.
      apply in_app_or in Hin. destruct Hin as [Hin|[Hin|Hin]]; [|auto|]; exfalso; apply Hnin;
        rewrite ids_app; cbn [ids map]; apply in_or_app; [left|right; right]; exact Hin. }
    assert (Hlow : forall o', In o' obs -> ~ In (s_id o') (ids (l1 ++ o :: l2)) ->
                   forall s, In s l -> (s_max o' <= s_max s)%Z /\ (s_max o' < s_max o)%Z).
    { intros o' Ho' Hnin s Hs.
      destruct (in_dec N.eq_dec (s_id o') (ids l)) as [Hin|Hnin'].
      - pose proof (Hgone _ Hin Hnin) as E. destruct (H3 f Hfl) as [Ha _].
        specialize (Ha o' Ho' E). specialize (Hmin s Hs). lia.
      - destruct (H4 o' Ho' Hnin') as [_ Hall]. pose proof (Hall s Hs). pose proof (Hall f Hfl). lia. }
    split; [split; [|split; [|split]]|].
    + rewrite ids_app. cbn [ids map]. eapply Permutation_NoDup; [apply Permutation_middle|].
      rewrite Hl, ids_app in Hnd. cbn [ids map] in Hnd. constructor.
      * rewrite <- ids_app. apply not_in_ids. intros x Hx. apply Hne. apply Hsub. exact Hx.
      * apply NoDup_remove_1 in Hnd. exact Hnd.
    + rewrite Hl in Hlen. rewrite app_length in *. cbn [length] in *. exact Hlen.
    + intros s Hs. destruct (Hsplit s Hs) as [->|Hs'].
      * split.
        -- intros o' Ho' Hido'. apply in_app_or in Ho'. destruct Ho' as [Ho'|[<-|[]]]; [|lia].
           assert (Hnin : ~ In (s_id o') (ids l)) by (rewrite Hido'; apply not_in_ids; exact Hne).
           destruct (H4 o' Ho' Hnin) as [_ Hall]. specialize (Hall f Hfl). lia.
        -- exists o. split; [apply in_or_app; right; left; reflexivity|auto].
      * pose proof (Hsub s Hs') as Hsl. destruct (H3 s Hsl) as [Ha [w [Hw1 [Hw2 Hw3]]]]. split.
        -- intros o' Ho' Hido'. apply in_app_or in Ho'. destruct Ho' as [Ho'|[<-|[]]]; [apply Ha; assumption|].
           exfalso. exact (Hne s Hsl (eq_sym Hido')).
        -- exists w. split; [apply in_or_app; left; exact Hw1|auto].
    + intros o' Ho' Hnin. split.
      * rewrite <- Hlk, Hl, !app_length. reflexivity.
      * apply in_app_or in Ho'. destruct Ho' as [Ho'|[<-|[]]].
        -- intros s Hs. destruct (Hsplit s Hs) as [->|Hs'].
           ++ destruct (Hlow o' Ho' Hnin f Hfl). lia.
           ++ apply (Hlow o' Ho' Hnin s (Hsub s Hs')).
        -- exfalso. apply Hnin. rewrite ids_app. cbn [ids map]. apply in_or_app. right. left. reflexivity.
    + intros s Hs. destruct (Hsplit s Hs) as [->|Hs'].
      * exists obs, o, []. split; [reflexivity|]. split; [reflexivity|]. split; [reflexivity|].
        intros x Hx E.
        assert (Hnin : ~ In (s_id x) (ids l)) by (rewrite E; apply not_in_ids; exact Hne).
        destruct (H4 x Hx Hnin) as [_ Hall]. specialize (Hall f Hfl). lia.
      * pose proof (Hsub s Hs') as Hsl. apply seg_extend; [apply Hseg; exact Hsl|].
        intros E. exact (Hne s Hsl (eq_sym E)).
  - (* full: not slower than the fastest retained one, left out *)
    split; [split; [|split; [|split]]|].
    + exact Hnd.
    + exact Hlen.
    + intros s Hs. destruct (H3 s Hs) as [Ha [w [Hw1 [Hw2 Hw3]]]]. split.
      * intros o' Ho' Hido'. apply in_app_or in Ho'. destruct Ho' as [Ho'|[<-|[]]]; [apply Ha; assumption|].
        exfalso. exact (Hne s Hs (eq_sym Hido')).
      * exists w. split; [apply in_or_app; left; exact Hw1|auto].
    + intros o' Ho' Hnin. apply in_app_or in Ho'. destruct Ho' as [Ho'|[<-|[]]]; [apply H4; assumption|].
      split; [exact Hlk|]. intros s Hs. specialize (Hmin s Hs). lia.
    + intros s Hs. apply seg_extend; [apply Hseg; exact Hs|]. intros E. exact (Hne s Hs (eq_sym E)).
Qed.

Lemma run_slow_inv K obs2 : forall obs1 l,
  sinv K obs1 l -> (forall s, In s l -> seg_of obs1 s) ->
  let ss := fold_left observe obs2 (mkSlows K l) in
  sl_cap ss = K /\ sinv K (obs1 ++ obs2) (sl_items ss) /\ (forall s, In s (sl_items ss) -> seg_of (obs1 ++ obs2) s).
Proof.
  induction obs2 as [|o obs2 IH]; intros obs1 l Hinv Hseg; cbn [fold_left]; cbv zeta.
  - rewrite app_nil_r. cbn [sl_cap sl_items]. auto.
  - destruct (observe_inv K obs1 l o Hinv Hseg) as [Hinv' Hseg'].
    destruct (observe_cases K l o) as [Hcap _].
    destruct (observe (mkSlows K l) o) as [c l'] eqn:E. cbn [sl_cap sl_items] in *. subst c.
    destruct (IH (obs1 ++ [o]) l' Hinv' Hseg') as [H1 [H2 H3]].
    rewrite <- app_assoc in H2, H3. cbn [app] in H2, H3. auto.
Qed.

Lemma sinv_nil K : sinv K [] [].
Proof.
  split; [constructor|]. split; [cbn; lia|]. split; [intros s []|intros o []].
Qed.

(* ------------------------------------------------------------------ the statements *)

(* Retained statements after any observation sequence into capacity K: distinct ids, all observed,
   min(K, number of distinct statements) of them; each retained record carries the largest MaxMicros
   ever observed for its statement; and no statement that is left out was ever observed slower than
   ANY retained statement's maximum -- the retained ones are K statements with the largest maximum
   duration (ties are broken by the scan order of fastest()). *)
Lemma slowsql_topk : forall K obs,
  let st := sl_items (run_slow K obs) in
  NoDup (ids st) /\ incl (ids st) (ids obs) /\
  length st = Nat.min K (length (nodup N.eq_dec (ids obs))) /\
  (forall s, In s st ->
     (forall o, In o obs -> s_id o = s_id s -> (s_max o <= s_max s)%Z) /\
     (exists o, In o obs /\ s_id o = s_id s /\ s_max o = s_max s)) /\
  (forall o, In o obs -> ~ In (s_id o) (ids st) -> forall s, In s st -> (s_max o <= s_max s)%Z).
Proof.
  intros K obs. cbv zeta. unfold run_slow, new_slow_sqls.
  destruct (run_slow_inv K obs [] [] (sinv_nil K) (fun s (H : In s []) => match H with end)) as [_ [[Hnd [Hlen [H3 H4]]] _]].
  cbn [app] in *. set (st := sl_items (fold_left observe obs (mkSlows K []))) in *.
  assert (Hincl : incl (ids st) (ids obs)).
  { intros id Hid. apply in_map_iff in Hid. destruct Hid as [s [<- Hs]].
    destruct (H3 s Hs) as [_ [w [Hw1 [Hw2 _]]]]. rewrite <- Hw2. apply in_ids. exact Hw1. }
  split; [exact Hnd|]. split; [exact Hincl|]. split; [|split; [exact H3|]].
  - assert (Hlst : length (ids st) = length st) by apply map_length.
    assert (Hle : length (ids st) <= length (nodup N.eq_dec (ids obs))).
    { apply NoDup_incl_length; [exact Hnd|]. intros id Hid. apply nodup_In. apply Hincl. exact Hid. }
    destruct (Nat.eq_dec (length st) K) as [E|E]; [lia|].
    assert (Hge : length (nodup N.eq_dec (ids obs)) <= length (ids st)).
    { apply NoDup_incl_length; [apply NoDup_nodup|]. intros id Hid. apply nodup_In in Hid.
      apply in_map_iff in Hid. destruct Hid as [o [<- Ho]].
      destruct (in_dec N.eq_dec (s_id o) (ids st)) as [Hin|Hnin]; [exact Hin|].
      destruct (H4 o Ho Hnin) as [HK _]. contradiction. }
    lia.
  - intros o Ho Hnin. apply (H4 o Ho Hnin).
Qed.

(* Repeated observations of a retained statement are merged: its record is the fold of merge over its
   observations from the one that admitted it; earlier observations of it (if it had been left out or
   displaced before) were strictly faster.  With the field lemmas above: Count and TotalMicros are the
   int32 / uint64 sums, MinMicros / MaxMicros the minimum / maximum, the text that of a slowest one. *)
Lemma slowsql_merge : forall K obs s, In s (sl_items (run_slow K obs)) -> seg_of obs s.
Proof.
  intros K obs s Hs. unfold run_slow, new_slow_sqls in Hs.
  destruct (run_slow_inv K obs [] [] (sinv_nil K) (fun s (H : In s []) => match H with end)) as [_ [_ H]].
  apply (H s Hs).
Qed.

Lemma slowsql_merge_step : forall K l o l1 ex l2,
  l = l1 ++ ex :: l2 -> s_id ex = s_id o -> (forall x, In x l1 -> s_id x <> s_id o) ->
  sl_items (observe (mkSlows K l) o) = l1 ++ merge_slow ex o :: l2.
Proof.
  intros K l o l1 ex l2 Hl Hid Hne. unfold observe. cbn [sl_items sl_cap].
  assert (Hf : forall l1 i, (forall x, In x l1 -> s_id x <> s_id o) ->
               find_idx (l1 ++ ex :: l2) (s_id o) i = Some (i + length l1)).
  { clear - Hid. induction l1 as [|h t IH]; intros i Hne; cbn.
    - destruct (N.eqb_spec (s_id ex) (s_id o)); [f_equal; lia|contradiction].
    - destruct (N.eqb_spec (s_id h) (s_id o)) as [E|_]; [exfalso; apply (Hne h); [left; reflexivity|exact E]|].
      rewrite IH by (intros x Hx; apply Hne; right; exact Hx). f_equal. lia. }
  rewrite Hl, (Hf l1 0 Hne). cbn [Nat.add]. rewrite nth_error_app_mid. cbn [sl_items]. apply upd_app_mid.
Qed.

(* the same, field by field, for observations whose Count / TotalMicros are in their Go types *)
Definition typed (o : slow) : Prop := in_i32 (s_count o) /\ in_u64 (s_total o).

Lemma wrap_u64_range z : in_u64 (wrap_u64 z).
Proof. unfold in_u64, wrap_u64. apply Z.mod_pos_bound. lia. Qed.

Lemma fold_merge_typed l : forall o, typed o -> typed (fold_left merge_slow l o).
Proof.
  induction l as [|x l IH]; intros o Ho; cbn [fold_left]; [exact Ho|]. apply IH.
  split; [rewrite merge_slow_count; apply wrap_i32_range|rewrite merge_slow_total; apply wrap_u64_range].
Qed.

Definition merged_fields (s o : slow) (rest : list slow) : Prop :=
  s_id s = s_id o /\
  s_count s = wrap_i32 (sumZ (map s_count (o :: rest))) /\
  s_total s = wrap_u64 (sumZ (map s_total (o :: rest))) /\
  s_min s = fold_left Z.min (map s_min rest) (s_min o) /\
  s_max s = fold_left Z.max (map s_max rest) (s_max o) /\
  exists x, In x (o :: rest) /\ s_max x = s_max s /\ same_text s x.

Lemma fold_merge_fields l o : typed o -> merged_fields (fold_left merge_slow l o) o l.
Proof.
  intros Ho. destruct (fold_merge_typed l o Ho) as [Hc Ht].
  split; [apply fold_merge_id|].
  split; [rewrite <- fold_merge_count; symmetry; apply wrap_i32_id; exact Hc|].
  split; [rewrite <- fold_merge_total; symmetry; apply wrap_u64_id; exact Ht|].
  split; [apply fold_merge_min|]. split; [apply fold_merge_max|].
  destruct (fold_merge_text l o) as [x [H1 [H2 H3]]]. exists x. auto.
Qed.

Lemma slowsql_merge_fields : forall K obs s,
  Forall typed obs -> In s (sl_items (run_slow K obs)) ->
  exists pre o post, obs = pre ++ o :: post /\ s_id o = s_id s /\
    (forall x, In x pre -> s_id x = s_id s -> (s_max x < s_max o)%Z) /\
    merged_fields s o (of_id (s_id s) post).
Proof.
  intros K obs s Hty Hs. destruct (slowsql_merge K obs s Hs) as [pre [o [post [Hobs [Hid [Hfold Hpre]]]]]].
  exists pre, o, post. split; [exact Hobs|]. split; [exact Hid|]. split; [exact Hpre|].
  assert (Ho : typed o).
  { rewrite Forall_forall in Hty. apply Hty. rewrite Hobs. apply in_or_app. right. left. reflexivity. }
  pose proof (fold_merge_fields (of_id (s_id s) post) o Ho) as H. rewrite <- Hfold in H. exact H.
Qed.

(* when the sums fit their types the counts and totals are the plain sums *)
Lemma merged_fields_exact s o rest :
  merged_fields s o rest ->
  in_i32 (sumZ (map s_count (o :: rest))) -> in_u64 (sumZ (map s_total (o :: rest))) ->
  s_count s = sumZ (map s_count (o :: rest)) /\ s_total s = sumZ (map s_total (o :: rest)).
Proof.
  intros [_ [Hc [Ht _]]] H1 H2. rewrite Hc, Ht. split; [apply wrap_i32_id|apply wrap_u64_id]; assumption.
Qed.

(* C05: never more than the capacity (10 in the daemon) *)
Lemma slowsql_len_le_cap K obs : length (sl_items (run_slow K obs)) <= K.
Proof.
  unfold run_slow, new_slow_sqls.
  destruct (run_slow_inv K obs [] [] (sinv_nil K) (fun s (H : In s []) => match H with end)) as [_ [[_ [H _]] _]].
  exact H.
Qed.

Lemma max_slowsqls_documented : MaxSlowSQLs = 10%Z.
Proof. reflexivity. Qed.

Lemma slowsql_cap K obs : sl_cap (run_slow K obs) = K.
Proof.
  unfold run_slow, new_slow_sqls.
  destruct (run_slow_inv K obs [] [] (sinv_nil K) (fun s (H : In s []) => match H with end)) as [H _]. exact H.
Qed.

(* ------------------------------------------------------------------ non-vacuity *)
Example slow_example :
  let o id mx t := mkSlow id 1 mx mx mx t t t t t in
  map (fun s => (s_id s, s_count s, s_max s, s_query s))
      (sl_items (run_slow 2 [o 1%N 10%Z 1%N; o 2%N 20%Z 2%N; o 1%N 30%Z 3%N; o 3%N 15%Z 4%N; o 3%N 25%Z 5%N]))
  = [(1%N, 2%Z, 30%Z, 3%N); (3%N, 1%Z, 25%Z, 5%N)].
Proof. vm_compute. reflexivity. Qed.

Example typed_example : Forall typed [mkSlow 1 2147483647 (2 ^ 64 - 1) 3 9 1 1 1 1 1; mkSlow 1 1 2 3 4 2 2 2 2 2].
Proof. repeat constructor; cbn; lia. Qed.

Example wrap_example : wrap_i32 (2147483647 + 1) = (-2147483648)%Z /\ wrap_u64 (2 ^ 64 - 1 + 2) = 1%Z.
Proof. split; vm_compute; reflexivity. Qed.

Example merge_step_example :
  let a := mkSlow 7 1 10 10 10 1 1 1 1 1 in
  let b := mkSlow 8 1 20 20 20 2 2 2 2 2 in
  let o := mkSlow 8 2 90 30 60 3 3 3 3 3 in
  sl_items (observe (mkSlows 2 [a; b]) o) = [a; mkSlow 8 3 110 20 60 3 3 3 3 3].
Proof. vm_compute. reflexivity. Qed.
