(* HeapProofs.v -- the transcription of container/heap in Heap.v: every operation permutes the
   contents; Init establishes, Push and Pop preserve, the heap order; under heap order the root is
   minimal.  The comparison is `less a b = (key a <? key b)` for an integer key, i.e. the total
   preorder induced by the key -- this is the shape of all three Less methods of the daemon. *)
From Coq Require Import List Arith Bool ZArith Lia Permutation.
From Verif Require Import Heap.
Import ListNotations.

(* ------------------------------------------------------------------ upd / swap *)

Lemma upd_length {A} (l : list A) i x : length (upd l i x) = length l.
Proof. revert i; induction l as [|h t IH]; intros [|i]; cbn; auto. Qed.

Lemma nth_error_upd {A} (l : list A) i x k :
  nth_error (upd l i x) k =
    if k =? i then match nth_error l i with Some _ => Some x | None => None end
    else nth_error l k.
Proof.
  revert i k; induction l as [|h t IH]; intros [|i] [|k]; cbn; try reflexivity.
  - destruct (k =? i); reflexivity.
  - apply IH.
Qed.

Lemma upd_perm {A} (l : list A) i a b :
  nth_error l i = Some a -> Permutation (b :: l) (a :: upd l i b).
Proof.
  revert i; induction l as [|h t IH]; intros [|i] H; cbn in *; try discriminate.
  - injection H as ->. apply perm_swap.
  - specialize (IH i H).
    eapply perm_trans; [apply perm_swap|].
    eapply perm_trans; [apply perm_skip; exact IH|]. apply perm_swap.
Qed.

Lemma swap_length {A} (l : list A) i j : length (swap l i j) = length l.
Proof.
  unfold swap. destruct (nth_error l i), (nth_error l j); auto.
  rewrite !upd_length. reflexivity.
Qed.

Lemma nth_error_swap {A} (l : list A) i j k :
  i < length l -> j < length l ->
  nth_error (swap l i j) k =
    if k =? j then nth_error l i else if k =? i then nth_error l j else nth_error l k.
Proof.
  intros Hi Hj. unfold swap.
  destruct (nth_error l i) as [a|] eqn:Ei; [|apply nth_error_None in Ei; lia].
  destruct (nth_error l j) as [b|] eqn:Ej; [|apply nth_error_None in Ej; lia].
  rewrite nth_error_upd. rewrite nth_error_upd. rewrite Ei.
  destruct (k =? j) eqn:Ekj.
  - destruct (j =? i); [reflexivity|]. rewrite Ej. reflexivity.
  - rewrite nth_error_upd. rewrite Ei. destruct (k =? i); reflexivity.
Qed.

Lemma swap_perm {A} (l : list A) i j : Permutation (swap l i j) l.
Proof.
  unfold swap.
  destruct (nth_error l i) as [a|] eqn:Ei; [|reflexivity].
  destruct (nth_error l j) as [b|] eqn:Ej; [|reflexivity].
  assert (H1 : Permutation (b :: l) (a :: upd l i b)) by (apply upd_perm; exact Ei).
  assert (Ej' : nth_error (upd l i b) j = Some b).
  { rewrite nth_error_upd, Ei. destruct (j =? i); [reflexivity|exact Ej]. }
  assert (H2 : Permutation (a :: upd l i b) (b :: upd (upd l i b) j a)) by (apply upd_perm; exact Ej').
  symmetry. apply Permutation_cons_inv with (a := b).
  eapply perm_trans; [exact H1|exact H2].
Qed.

(* ------------------------------------------------------------------ fuel does not matter *)

Lemma half_pred_le j : (j - 1) / 2 <= j.
Proof.
  pose proof (Nat.div_mod (j - 1) 2 ltac:(lia)) as H.
  pose proof (Nat.mod_upper_bound (j - 1) 2 ltac:(lia)). lia.
Qed.

Lemma up_fuel {A} (less : A -> A -> bool) f1 : forall f2 l j,
  j < f1 -> j < f2 -> up less f1 l j = up less f2 l j.
Proof.
  induction f1 as [|f1 IH]; intros f2 l j H1 H2; [lia|].
  destruct f2 as [|f2]; [lia|]. cbn [up].
  destruct (((j - 1) / 2 =? j) || negb (less_at less l j ((j - 1) / 2))) eqn:E; [reflexivity|].
  apply orb_false_iff in E. destruct E as [E _]. apply Nat.eqb_neq in E.
  pose proof (half_pred_le j). apply IH; lia.
Qed.

Lemma down_fuel {A} (less : A -> A -> bool) f1 : forall f2 l i n,
  n <= f1 + i -> n <= f2 + i -> down less f1 l i n = down less f2 l i n.
Proof.
  induction f1 as [|f1 IH]; intros f2 l i n H1 H2.
  - destruct f2 as [|f2]; [reflexivity|]. cbn [down].
    destruct (n <=? 2 * i + 1) eqn:E; [reflexivity|]. apply Nat.leb_gt in E. lia.
  - destruct f2 as [|f2].
    + cbn [down]. destruct (n <=? 2 * i + 1) eqn:E; [reflexivity|]. apply Nat.leb_gt in E. lia.
    + cbn [down]. destruct (n <=? 2 * i + 1) eqn:E; [reflexivity|].
      match goal with |- context [negb ?c] => destruct (negb c) end; [reflexivity|].
      apply IH; destruct ((2 * i + 1 + 1 <? n) && less_at less l (2 * i + 1 + 1) (2 * i + 1)); lia.
Qed.

(* ------------------------------------------------------------------ permutation / length *)

Section Perm.
  Context {A : Type} (less : A -> A -> bool).

  Lemma up_perm fuel : forall l j, Permutation (up less fuel l j) l.
  Proof.
    induction fuel as [|f IH]; intros l j; cbn [up]; [reflexivity|].
    destruct (_ || _); [reflexivity|].
    eapply perm_trans; [apply IH|apply swap_perm].
  Qed.

  Lemma down_perm fuel : forall l i n, Permutation (down less fuel l i n) l.
  Proof.
    induction fuel as [|f IH]; intros l i n; cbn [down]; [reflexivity|].
    destruct (n <=? _); [reflexivity|]. destruct (negb _); [reflexivity|].
    eapply perm_trans; [apply IH|apply swap_perm].
  Qed.

  Lemma init_loop_perm k : forall l n, Permutation (init_loop less k l n) l.
  Proof.
    induction k as [|k IH]; intros l n; cbn [init_loop]; [reflexivity|].
    eapply perm_trans; [apply IH|apply down_perm].
  Qed.

  Lemma init_perm l : Permutation (init less l) l.
  Proof. apply init_loop_perm. Qed.

  Lemma push_perm l x : Permutation (push less l x) (x :: l).
  Proof.
    unfold push. eapply perm_trans; [apply up_perm|].
    symmetry. apply Permutation_cons_append.
  Qed.

  Lemma up_length fuel l j : length (up less fuel l j) = length l.
  Proof. apply Permutation_length, up_perm. Qed.
  Lemma down_length fuel l i n : length (down less fuel l i n) = length l.
  Proof. apply Permutation_length, down_perm. Qed.
  Lemma init_length l : length (init less l) = length l.
  Proof. apply Permutation_length, init_perm. Qed.
  Lemma push_length l x : length (push less l x) = S (length l).
  Proof. rewrite (Permutation_length (push_perm l x)). reflexivity. Qed.
End Perm.

(* ------------------------------------------------------------------ heap order *)

Section Order.
  Context {A : Type} (less : A -> A -> bool) (key : A -> Z).
  Hypothesis less_key : forall a b, less a b = (key a <? key b)%Z.

  (* key of slot i (0 outside the array; only used inside) *)
  Definition kz (l : list A) (i : nat) : Z :=
    match nth_error l i with Some a => key a | None => 0%Z end.

  Definition child (p c : nat) : Prop := c = 2 * p + 1 \/ c = 2 * p + 2.

  (* heap order on the prefix of length n, for parents >= lo:
     container/heap's invariant  !h.Less(j, i) for 2*i+1 <= j <= 2*i+2, j < n *)
  Definition ordered (lo n : nat) (l : list A) : Prop :=
    forall p c, child p c -> c < n -> lo <= p -> (kz l p <= kz l c)%Z.

  Definition heap_ordered (l : list A) : Prop := ordered 0 (length l) l.

  Lemma kz_nth l i a : nth_error l i = Some a -> kz l i = key a.
  Proof. unfold kz. intros ->. reflexivity. Qed.

  Lemma less_at_kz l i j : i < length l -> j < length l ->
    less_at less l i j = (kz l i <? kz l j)%Z.
  Proof.
    intros Hi Hj. unfold less_at, kz.
    destruct (nth_error l i) eqn:Ei; [|apply nth_error_None in Ei; lia].
    destruct (nth_error l j) eqn:Ej; [|apply nth_error_None in Ej; lia].
    apply less_key.
  Qed.

  Lemma kz_swap l i j k : i < length l -> j < length l ->
    kz (swap l i j) k = if k =? j then kz l i else if k =? i then kz l j else kz l k.
  Proof.
    intros Hi Hj. unfold kz at 1. rewrite nth_error_swap by assumption.
    destruct (k =? j); [reflexivity|]. destruct (k =? i); reflexivity.
  Qed.

  Lemma kz_app_l l r i : i < length l -> kz (l ++ r) i = kz l i.
  Proof. intros H. unfold kz. rewrite nth_error_app1 by assumption. reflexivity. Qed.

  Lemma kz_firstn l n i : i < n -> kz (firstn n l) i = kz l i.
  Proof.
    intros H. unfold kz.
    replace (nth_error (firstn n l) i) with (nth_error l i); [reflexivity|].
    revert n i H. induction l as [|h t IH]; intros [|n] [|i] H; cbn; try reflexivity; try lia.
    apply IH. lia.
  Qed.

  Lemma parent_child j : 0 < j -> child ((j - 1) / 2) j.
  Proof.
    intros Hj. unfold child.
    pose proof (Nat.div_mod (j - 1) 2 ltac:(lia)) as H.
    pose proof (Nat.mod_upper_bound (j - 1) 2 ltac:(lia)). lia.
  Qed.

  (* ---- down ---- *)
  Lemma down_spec fuel : forall l i n lo,
    n <= length l -> n <= fuel + i -> lo <= i ->
    (forall p c, child p c -> c < n -> lo <= p -> p <> i -> (kz l p <= kz l c)%Z) ->
    (forall g c, child g i -> lo <= g -> child i c -> c < n -> (kz l g <= kz l c)%Z) ->
    ordered lo n (down less fuel l i n) /\
    (forall k, n <= k -> nth_error (down less fuel l i n) k = nth_error l k).
  Proof.
    induction fuel as [|f IH]; intros l i n lo Hn Hf Hlo H1 H2.
    - cbn [down]. split; [|reflexivity].
      intros p c Hc Hcn Hp. destruct (Nat.eq_dec p i) as [->|Hne]; [unfold child in Hc; lia|].
      apply H1; assumption.
    - cbn [down]. destruct (n <=? 2 * i + 1) eqn:En.
      { apply Nat.leb_le in En. split; [|reflexivity].
        intros p c Hc Hcn Hp. destruct (Nat.eq_dec p i) as [->|Hne]; [unfold child in Hc; lia|].
        apply H1; assumption. }
      apply Nat.leb_gt in En.
      set (j1 := 2 * i + 1) in *. set (j2 := j1 + 1).
      (* what the choice of j gives *)
      assert (Hsel : exists j, (if (j2 <? n) && less_at less l j2 j1 then j2 else j1) = j /\
                     child i j /\ j < n /\
                     (forall c, child i c -> c < n -> (kz l j <= kz l c)%Z)).
      { destruct (j2 <? n) eqn:E2; cbn [andb].
        - apply Nat.ltb_lt in E2.
          rewrite less_at_kz by (subst j1 j2; lia).
          destruct (kz l j2 <? kz l j1)%Z eqn:E3.
          + apply Z.ltb_lt in E3. exists j2. repeat split; try (unfold child; subst j1 j2; lia).
            intros c Hc Hcn. assert (c = j1 \/ c = j2) as [->| ->] by (unfold child in Hc; subst j1 j2; lia); lia.
          + apply Z.ltb_ge in E3. exists j1. repeat split; try (unfold child; subst j1 j2; lia).
            intros c Hc Hcn. assert (c = j1 \/ c = j2) as [->| ->] by (unfold child in Hc; subst j1 j2; lia); lia.
        - apply Nat.ltb_ge in E2. exists j1. repeat split; try (unfold child; subst j1 j2; lia).
          intros c Hc Hcn. assert (c = j1) as -> by (unfold child in Hc; subst j1 j2; lia). lia. }
      destruct Hsel as [j [Ej [Hcj [Hjn Hmin]]]]. rewrite Ej.
      assert (Hij : i < j) by (unfold child in Hcj; lia).
      rewrite less_at_kz by lia.
      destruct (kz l j <? kz l i)%Z eqn:El; cbn [negb].
      + (* swap and continue *)
        apply Z.ltb_lt in El.
        assert (Hsw : forall k, kz (swap l i j) k =
                       if k =? j then kz l i else if k =? i then kz l j else kz l k)
          by (intros k; apply kz_swap; lia).
        destruct (IH (swap l i j) j n lo) as [IHa IHb].
        * rewrite swap_length. exact Hn.
        * lia.
        * lia.
        * intros p c Hc Hcn Hp Hpj. rewrite !Hsw.
          destruct (Nat.eqb_spec p j) as [|_]; [contradiction|].
          destruct (Nat.eqb_spec c j) as [->|Hcj'].
          { (* c = j: then p = i *)
            assert (p = i) as -> by (unfold child in *; lia). rewrite Nat.eqb_refl. lia. }
          destruct (Nat.eqb_spec p i) as [->|Hpi].
          { (* p = i, c the sibling of j *)
            destruct (Nat.eqb_spec c i) as [->|_]; [unfold child in Hc; lia|].
            apply Hmin; assumption. }
          destruct (Nat.eqb_spec c i) as [->|Hci].
          { (* c = i: p is the parent of i *)
            apply H2; assumption. }
          apply H1; assumption.
        * intros g c Hg Hlog Hc Hcn. rewrite !Hsw.
          assert (g = i) as -> by (unfold child in *; lia).
          destruct (Nat.eqb_spec i j) as [|_]; [lia|]. rewrite Nat.eqb_refl.
          destruct (Nat.eqb_spec c j) as [|_]; [unfold child in Hc; lia|].
          destruct (Nat.eqb_spec c i) as [|_]; [unfold child in Hc; lia|].
          apply H1; try assumption; lia.
        * split; [exact IHa|].
          intros k Hk. rewrite IHb by assumption. rewrite nth_error_swap by lia.
          destruct (Nat.eqb_spec k j) as [|_]; [lia|]. destruct (Nat.eqb_spec k i) as [|_]; [lia|]. reflexivity.
      + (* break: the smaller child is not below i *)
        apply Z.ltb_ge in El. split; [|reflexivity].
        intros p c Hc Hcn Hp. destruct (Nat.eq_dec p i) as [->|Hne].
        * specialize (Hmin c Hc Hcn). lia.
        * apply H1; assumption.
  Qed.

  (* ---- up ---- *)
  Lemma up_spec fuel : forall l j,
    j < length l -> j < fuel ->
    (forall p c, child p c -> c < length l -> c <> j -> (kz l p <= kz l c)%Z) ->
    (forall g c, child g j -> child j c -> c < length l -> (kz l g <= kz l c)%Z) ->
    heap_ordered (up less fuel l j).
  Proof.
    induction fuel as [|f IH]; intros l j Hj Hf H1 H2; [lia|].
    cbn [up]. set (i := (j - 1) / 2).
    destruct (Nat.eqb_spec i j) as [Eij|Nij]; cbn [orb].
    { (* j = 0 *)
      assert (j = 0).
      { destruct j as [|j']; [reflexivity|]. pose proof (parent_child (S j') ltac:(lia)) as Hc.
        fold i in Hc. unfold child in Hc. lia. }
      intros p c Hc Hcn _. apply H1; try assumption. unfold child in Hc. lia. }
    assert (Hj0 : 0 < j).
    { destruct j; [|lia]. subst i. cbn in Nij. lia. }
    pose proof (parent_child j Hj0) as Hci. fold i in Hci.
    assert (Hilt : i < j) by (unfold child in Hci; lia).
    rewrite less_at_kz by lia.
    destruct (kz l j <? kz l i)%Z eqn:El; cbn [negb].
    - apply Z.ltb_lt in El.
      assert (Hsw : forall k, kz (swap l i j) k =
                     if k =? j then kz l i else if k =? i then kz l j else kz l k)
        by (intros k; apply kz_swap; lia).
      apply IH.
      + rewrite swap_length. lia.
      + lia.
      + rewrite swap_length. intros p c Hc Hcn Hne. rewrite !Hsw.
        destruct (Nat.eqb_spec c j) as [->|Hcj].
        { assert (p = i) as -> by (unfold child in *; lia).
          destruct (Nat.eqb_spec i j) as [|_]; [lia|]. rewrite Nat.eqb_refl. lia. }
        destruct (Nat.eqb_spec c i) as [|_]; [contradiction|].
        destruct (Nat.eqb_spec p j) as [->|Hpj].
        { apply H2; assumption. }
        destruct (Nat.eqb_spec p i) as [->|Hpi].
        { specialize (H1 i c Hc Hcn Hcj). lia. }
        apply H1; assumption.
      + rewrite swap_length. intros g c Hg Hc Hcn. rewrite !Hsw.
        assert (Hgi : g < i) by (unfold child in Hg; lia).
        destruct (Nat.eqb_spec g j) as [|_]; [lia|]. destruct (Nat.eqb_spec g i) as [|_]; [lia|].
        assert (Hgi' : (kz l g <= kz l i)%Z) by (apply H1; try assumption; lia).
        destruct (Nat.eqb_spec c j) as [|Hcj]; [exact Hgi'|].
        destruct (Nat.eqb_spec c i) as [|_]; [unfold child in Hc; lia|].
        specialize (H1 i c Hc Hcn Hcj). lia.
    - apply Z.ltb_ge in El.
      intros p c Hc Hcn _. destruct (Nat.eq_dec c j) as [->|Hne].
      + assert (p = i) as -> by (unfold child in *; lia). exact El.
      + apply H1; assumption.
  Qed.

  (* ---- Init ---- *)
  Lemma init_loop_ordered k : forall l n,
    n <= length l -> ordered k n l -> ordered 0 n (init_loop less k l n).
  Proof.
    induction k as [|k IH]; intros l n Hn Ho; cbn [init_loop]; [exact Ho|].
    destruct (down_spec n l k n k) as [Ha _]; try lia.
    - intros p c Hc Hcn Hp Hne. apply Ho; try assumption. lia.
    - intros g c Hg Hlo Hc Hcn. unfold child in Hg. lia.
    - apply IH; [rewrite down_length; exact Hn|exact Ha].
  Qed.

  Lemma init_ordered l : heap_ordered (init less l).
  Proof.
    unfold heap_ordered, init.
    rewrite (Permutation_length (init_loop_perm less (length l / 2) l (length l))).
    apply init_loop_ordered; [lia|].
    intros p c Hc Hcn Hp. exfalso.
    pose proof (Nat.div_mod (length l) 2 ltac:(lia)) as H.
    pose proof (Nat.mod_upper_bound (length l) 2 ltac:(lia)). unfold child in Hc. lia.
  Qed.

  (* ---- Push ---- *)
  Lemma push_ordered l x : heap_ordered l -> heap_ordered (push less l x).
  Proof.
    intros Ho. unfold push. rewrite app_length. cbn [length].
    replace (length l + 1 - 1) with (length l) by lia.
    apply up_spec.
    - rewrite app_length. cbn. lia.
    - lia.
    - rewrite app_length. cbn [length]. intros p c Hc Hcn Hne.
      assert (Hcl : c < length l) by lia.
      assert (Hpl : p < length l) by (unfold child in Hc; lia).
      rewrite !kz_app_l by assumption. apply Ho; try assumption. lia.
    - rewrite app_length. cbn [length]. intros g c Hg Hc Hcn. unfold child in Hc. lia.
  Qed.

  (* ---- Pop ---- *)
  Lemma pop_spec a t x l' :
    heap_ordered (a :: t) -> pop less (a :: t) = Some (x, l') ->
    x = a /\ Permutation (a :: t) (x :: l') /\ heap_ordered l' /\ length l' = length t.
  Proof.
    intros Ho Hp. unfold pop in Hp. cbn [length] in Hp.
    replace (S (length t) - 1) with (length t) in Hp by lia.
    set (n := length t) in *. set (l := a :: t) in *.
    assert (Hl : length l = S n) by reflexivity.
    set (l1 := swap l 0 n) in *.
    assert (Hl1 : length l1 = S n) by (unfold l1; rewrite swap_length; exact Hl).
    destruct (down_spec (S n) l1 0 n 0) as [Hord Hsame]; try lia.
    { intros p c Hc Hcn _ Hp0. unfold l1. rewrite !kz_swap by lia.
      destruct (Nat.eqb_spec p n) as [|_]; [unfold child in Hc; lia|].
      destruct (Nat.eqb_spec p 0) as [|_]; [lia|].
      destruct (Nat.eqb_spec c n) as [|_]; [lia|].
      destruct (Nat.eqb_spec c 0) as [|_]; [unfold child in Hc; lia|].
      apply Ho; try assumption; try lia. }
    { intros g c Hg. unfold child in Hg. lia. }
    set (l2 := down less (S n) l1 0 n) in *.
    assert (Hl2 : length l2 = S n) by (unfold l2; rewrite down_length; exact Hl1).
    assert (Hlast : nth_error l2 n = Some a).
    { rewrite Hsame by lia. unfold l1. rewrite nth_error_swap by lia. rewrite Nat.eqb_refl. reflexivity. }
    rewrite Hlast in Hp. injection Hp as <- <-.
    assert (Hsplit : l2 = firstn n l2 ++ [a]).
    { rewrite <- (firstn_skipn n l2) at 1. f_equal.
      assert (Hsk : length (skipn n l2) = 1) by (rewrite skipn_length; lia).
      destruct (skipn n l2) as [|y [|z r]] eqn:Es; cbn in Hsk; try lia.
      assert (nth_error l2 n = Some y).
      { rewrite <- (firstn_skipn n l2). rewrite nth_error_app2 by (rewrite firstn_length; lia).
        rewrite firstn_length. replace (n - Nat.min n (length l2)) with 0 by lia. rewrite Es. reflexivity. }
      congruence. }
    repeat split.
    - eapply perm_trans; [|apply Permutation_sym, Permutation_cons_append].
      rewrite <- Hsplit. symmetry.
      eapply perm_trans; [apply down_perm|]. apply swap_perm.
    - unfold heap_ordered. rewrite firstn_length. replace (Nat.min n (length l2)) with n by lia.
      intros p c Hc Hcn Hp0.
      assert (p < n) by (unfold child in Hc; lia).
      rewrite !kz_firstn by assumption. apply Hord; assumption.
    - rewrite firstn_length. lia.
  Qed.

  Lemma pop_some a t : exists x l', pop less (a :: t) = Some (x, l').
  Proof.
    unfold pop. cbn [length]. replace (S (length t) - 1) with (length t) by lia.
    destruct (nth_error _ (length t)) as [x|] eqn:E; [eauto|].
    apply nth_error_None in E. rewrite down_length, swap_length in E. cbn in E. lia.
  Qed.

  (* ---- root is minimal ---- *)
  Lemma root_min_idx l : heap_ordered l -> forall i, i < length l -> (kz l 0 <= kz l i)%Z.
  Proof.
    intros Ho i. induction i as [i IH] using lt_wf_ind. intros Hi.
    destruct i as [|i']; [lia|].
    pose proof (parent_child (S i') ltac:(lia)) as Hc.
    set (p := (S i' - 1) / 2) in *.
    assert (p < S i') by (unfold child in Hc; lia).
    specialize (IH p ltac:(lia) ltac:(lia)).
    specialize (Ho p (S i') Hc Hi ltac:(lia)). lia.
  Qed.

  Lemma root_min r t : heap_ordered (r :: t) -> forall x, In x (r :: t) -> (key r <= key x)%Z.
  Proof.
    intros Ho x Hin. apply In_nth_error in Hin. destruct Hin as [i Hi].
    assert (i < length (r :: t)) by (apply nth_error_Some; congruence).
    pose proof (root_min_idx _ Ho i H) as Hm.
    rewrite (kz_nth _ _ _ Hi) in Hm. exact Hm.
  Qed.

  Lemma heap_ordered_nil : heap_ordered [].
  Proof. intros p c _ Hc. cbn in Hc. lia. Qed.
End Order.

(* ------------------------------------------------------------------ packaged statements *)
Lemma heap_init_thm : forall (A : Type) (less : A -> A -> bool) (key : A -> Z),
  (forall a b, less a b = (key a <? key b)%Z) ->
  forall l, heap_ordered key (init less l) /\ Permutation (init less l) l.
Proof. intros A less key H l. split; [apply (init_ordered less key H)|apply init_perm]. Qed.

Lemma heap_push_thm : forall (A : Type) (less : A -> A -> bool) (key : A -> Z),
  (forall a b, less a b = (key a <? key b)%Z) ->
  forall l x, heap_ordered key l -> heap_ordered key (push less l x) /\ Permutation (push less l x) (x :: l).
Proof. intros A less key H l x Ho. split; [apply (push_ordered less key H); exact Ho|apply push_perm]. Qed.

Lemma heap_pop_thm : forall (A : Type) (less : A -> A -> bool) (key : A -> Z),
  (forall a b, less a b = (key a <? key b)%Z) ->
  forall a t, heap_ordered key (a :: t) ->
  exists l', pop less (a :: t) = Some (a, l') /\ Permutation (a :: t) (a :: l') /\ heap_ordered key l' /\
             forall y, In y (a :: t) -> (key a <= key y)%Z.
Proof.
  intros A less key H a t Ho. destruct (pop_some less a t) as [x [l' Hp]].
  destruct (pop_spec less key H a t x l' Ho Hp) as [-> [H1 [H2 _]]].
  exists l'. split; [exact Hp|]. split; [exact H1|]. split; [exact H2|]. apply (root_min key a t Ho).
Qed.
